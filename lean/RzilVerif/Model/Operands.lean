import RzilVerif.Model.DriverSem
import RzilVerif.Gen.GrammarGen
/-
  C07 — the binding specification: which plugin slot, register class, number, `.new` flag, width and
  signedness every operand spelling of the grammar names (architectural table, written from the
  Hexagon PRM conventions the property cites; NOT derived from the compiler), probe programs that make
  the compiler's choice observable in the emitted text, and the comparison of a real output with it.
-/
namespace Rzil.Operands
open Rzil Sexp

inductive Spelling where
  | letter (cls : Char) (acc : String) (new : Bool)            -- RsV, RssV, PtN, NsN
  | explicit (cls : Char) (digits : String) (pair : Option String) (new : Bool)   -- R31, R1:0, P0_NEW
  | alias (name : String) (new : Bool)                          -- HEX_REG_ALIAS_LR[_NEW]
  | imm (l : Char)                                              -- siV
deriving Repr, DecidableEq, Inhabited

def Spelling.text : Spelling → String
  | .letter c a n => String.singleton c ++ a ++ (if n then "N" else "V")
  | .explicit c d p n => String.singleton c ++ d ++ (match p with | some q => ":" ++ q | none => "") ++ (if n then "_NEW" else "")
  | .alias name n => "HEX_REG_ALIAS_" ++ name ++ (if n then "_NEW" else "")
  | .imm l => String.singleton l ++ "iV"

def Spelling.isNew : Spelling → Bool
  | .letter _ _ n => n
  | .explicit _ _ _ n => n
  | .alias _ n => n
  | .imm _ => false

structure Binding where
  kind : RegKind
  ty : CT
  opvar : String          -- C variable holding the operand slot
  declTy : String         -- "const HexOp *" (pointer into the instruction) or "const HexOp" (built on the stack)
  slot : Term             -- the slot look-up the plugin must be asked
  isImm : Bool := false
deriving Repr, Inhabited

def boolT (b : Bool) : Term := .id (if b then "true" else "false")
def chrT (c : Char) : Term := .chr (String.singleton c)

def srcLetters : List String := ["s", "t", "u", "v", "w"]
def dstLetters : List String := ["d", "e"]
def rwLetters : List String := ["x", "y", "z"]
def srcPairs : List String := ["ss", "tt", "uu", "vv"]
def dstPairs : List String := ["dd"]
def rwPairs : List String := ["xx", "yy"]

def accKind (acc : String) : Option (RegKind × Bool) :=
  if srcLetters.contains acc then some (.src, false)
  else if dstLetters.contains acc then some (.dst, false)
  else if rwLetters.contains acc then some (.rw, false)
  else if srcPairs.contains acc then some (.src, true)
  else if dstPairs.contains acc then some (.dst, true)
  else if rwPairs.contains acc then some (.rw, true)
  else none

/-- Architectural width of a register class: general, control, modifier and `.new` general registers
    are 32 bit, predicates 8 bit; register contents are signed (QEMU's convention). -/
def classWidth (cls : Char) : Option Nat :=
  if cls == 'R' || cls == 'C' || cls == 'M' || cls == 'N' || cls == 'G' || cls == 'S' then some 32
  else if cls == 'P' then some 8
  else none

def className (cls : Char) (pair : Bool) : Option String :=
  if cls == 'R' then some (if pair then "HEX_REG_CLASS_DOUBLE_REGS" else "HEX_REG_CLASS_INT_REGS")
  else if cls == 'P' then (if pair then none else some "HEX_REG_CLASS_PRED_REGS")
  else if cls == 'C' then some (if pair then "HEX_REG_CLASS_CTR_REGS64" else "HEX_REG_CLASS_CTR_REGS")
  else if cls == 'M' then (if pair then none else some "HEX_REG_CLASS_MOD_REGS")
  else if cls == 'G' then some (if pair then "HEX_REG_CLASS_GUEST_REGS64" else "HEX_REG_CLASS_GUEST_REGS")
  else if cls == 'S' then some (if pair then "HEX_REG_CLASS_SYS_REGS64" else "HEX_REG_CLASS_SYS_REGS")
  else none

/-- highest register number of a class -/
def classMax (cls : Char) : Nat :=
  if cls == 'P' then 3 else if cls == 'M' then 1 else if cls == 'S' then 127 else 31

/-- decimal value of a digit string (kernel-reducible) -/
def natOfDigits (s : String) : Option Nat :=
  let cs := s.toList
  if cs.isEmpty || !cs.all Char.isDigit then none
  else some (cs.foldl (fun acc c => acc * 10 + (c.toNat - '0'.toNat)) 0)

def colonToUnderscore (s : String) : String := String.ofList (s.toList.map (fun c => if c == ':' then '_' else c))

def wide64Aliases : List String := ["UPCYCLE", "PKTCOUNT", "UTIMER"]

/-- The specification. `none`: the spelling names no architectural resource (not judged). -/
def bindingSpec : Spelling → Option Binding
  | .letter cls acc new => do
      let (k, pair) ← accKind acc
      let w ← classWidth cls
      let c ← acc.toList.head?
      if cls == 'G' || cls == 'S' then none      -- guest/system registers are never letter operands
      else if new then
        -- `.new` operands: the value produced in this packet, named by a source letter
        if k != .src || pair then none
        else if cls == 'N' then
          some { kind := .new, ty := ⟨true, 32⟩, opvar := String.singleton cls ++ acc ++ "_new_op", declTy := "const HexOp",
                 slot := .app "NREG2OP" [.id "bundle", chrT c] }
        else if cls == 'P' then
          some { kind := .new, ty := ⟨true, w⟩, opvar := String.singleton cls ++ acc ++ "_new_op", declTy := "const HexOp *",
                 slot := .app "ISA2REG" [.id "hi", chrT c, boolT true] }
        else none
      else if cls == 'N' then none                -- N registers exist only as `.new` values
      else if pair && !(cls == 'R' || cls == 'C') then none
      else
        some { kind := k, ty := ⟨true, if pair then 2 * w else w⟩, opvar := String.singleton cls ++ acc ++ "_op", declTy := "const HexOp *",
               slot := .app "ISA2REG" [.id "hi", chrT c, boolT false] }
  | .explicit cls digits pair new => do
      let w ← classWidth cls
      let n ← natOfDigits digits
      let cn ← className cls pair.isSome
      if cls == 'N' then none
      else match pair with
      | none =>
          if n > classMax cls then none
          else some { kind := if new then .explicitNew else .explicit, ty := ⟨true, w⟩,
                      opvar := String.singleton cls ++ digits ++ (if new then "_new" else "") ++ "_op", declTy := "const HexOp",
                      slot := .app "EXPLICIT2OP" [.num n, .id cn, boolT new] }
      | some q => do
          let lo ← natOfDigits q
          -- an architectural pair is `odd:even` with consecutive numbers
          if n != lo + 1 || lo % 2 != 0 || n > classMax cls then none
          else some { kind := if new then .explicitNew else .explicit, ty := ⟨true, 2 * w⟩,
                      opvar := String.singleton cls ++ digits ++ "_" ++ q ++ (if new then "_new" else "") ++ "_op", declTy := "const HexOp",
                      slot := .app "EXPLICIT2OP" [.num lo, .id cn, boolT new] }
  | .alias name new =>
      if name == "PC" then
        (if new then none else some { kind := .pc, ty := ⟨false, 32⟩, opvar := "pc_op", declTy := "", slot := .id "pkt_addr" })
      else
        some { kind := if new then .aliasNew else .alias, ty := ⟨false, if wide64Aliases.contains name then 64 else 32⟩,
               opvar := name.toLower ++ (if new then "_new" else "") ++ "_op", declTy := "const HexOp",
               slot := .app "ALIAS2OP" [.id ("HEX_REG_ALIAS_" ++ name), boolT new] }
  | .imm l =>
      let sg := l == 'r' || l == 'R' || l == 's' || l == 'S'
      if l == 'r' || l == 'R' || l == 's' || l == 'S' || l == 'u' || l == 'U' || l == 'm' || l == 'n' then
        some { kind := .src, ty := ⟨sg, 32⟩, opvar := String.singleton l, declTy := "RzILOpPure *", isImm := true,
               slot := .app (if sg then "SN" else "UN") [.num 32, .ccast (if sg then "st32" else "ut32") (.app "ISA2IMM" [.id "hi", chrT l])] }
      else none

/-- C spelling of an integer type. -/
def ctypeName (t : CT) : String := (if t.signed then "int" else "uint") ++ toString t.width ++ "_t"

def s64 : CT := ⟨true, 64⟩

def Spelling.expr (sp : Spelling) (b : Binding) : CExpr :=
  match sp with
  | .imm l => .imm (String.singleton l) b.ty.signed
  | _ => .reg sp.text b.kind b.ty

/-- Read probe `{ int64_t v = ((T)sp); }` with `T` the specified type: if the compiler gives the operand exactly
    that type the cast disappears, any other type leaves a visible CAST. -/
def readProbe (sp : Spelling) (b : Binding) : List CStmt × String :=
  ([.decl s64 "v" (some (.cast b.ty (sp.expr b)))],
   "{ int64_t v = ((" ++ ctypeName b.ty ++ ")" ++ sp.text ++ "); }")

/-- Write probe `{ sp = ((T)RssV); }` for writable operands. -/
def writeProbe (sp : Spelling) (b : Binding) : Option (List CStmt × String) :=
  if b.isImm then none else
  match b.kind with
  | .dst | .rw | .explicit | .alias =>
      some ([.assign (sp.expr b) "=" (.cast b.ty (.reg "RssV" .src s64))],
            "{ " ++ sp.text ++ " = ((" ++ ctypeName b.ty ++ ")RssV); }")
  | _ => none

/-- The code's configuration except for the listed explicit-pair typing defect: the SPECIFIED type is used. -/
def cfgSpec : Cfg := { Cfg.asCode with explicitPairNarrow := false }

structure Verdict where
  parsed : Bool
  declOk : Bool
  treeEqual : Bool
  model : String
  real : String
  declFound : String

def declOf (body : Body) (b : Binding) : Option (String × Term) :=
  if b.kind == .pc then
    -- the program counter alias has no operand slot: it must read the packet address
    (body.items.findSome? (fun it => match it with
      | .decl ty name rhs => if name == "pc" then some (ty, rhs) else none
      | _ => none))
  else if b.isImm then
    (body.items.findSome? (fun it => match it with
      | .decl ty name rhs => if name == b.opvar && ty == b.declTy then some (ty, rhs) else none
      | _ => none))
  else ((operandDecls body).find? (fun d => d.1 == b.opvar)).map (fun d => (d.2.1, d.2.2))

def declOkFor (body : Body) (b : Binding) : Bool :=
  match declOf body b with
  | some (ty, rhs) =>
      if b.kind == .pc then ty == "RzILOpPure *" && rhs == .app "U32" [.arrow (.id "pkt") "pkt_addr"]
      else ty == b.declTy && rhs == b.slot
  | none => false

def declShown (body : Body) (b : Binding) : String :=
  match declOf body b with
  | some (ty, rhs) => ty ++ " " ++ b.opvar ++ " = " ++ rhs.render
  | none => "(no declaration of " ++ b.opvar ++ ")"

def check (bs : List Binding) (prog : List CStmt) (text : String) : Verdict :=
  match parseBody text with
  | none => { parsed := false, declOk := false, treeEqual := false, model := "", real := "", declFound := "" }
  | some body =>
    let modelStr := match compileProgH cfgSpec prog with
      | .ok e => (canonTerm e.toTerm).render
      | .error m => "ERROR " ++ m
    let realStr := match denoteIL body with
      | some t => (canonTerm (effectOfTerm t).toTerm).render
      | none => "NO RETURNED EFFECT"
    { parsed := true, declOk := bs.all (declOkFor body), treeEqual := modelStr == realStr, model := modelStr, real := realStr,
      declFound := "; ".intercalate (bs.map (declShown body)) }

/-- Two operands in one behaviour: each must keep its own binding whatever the other is. -/
def pairProbe (s1 : Spelling) (b1 : Binding) (s2 : Spelling) (b2 : Binding) : List CStmt × String :=
  ([.decl s64 "v" (some (.cast b1.ty (s1.expr b1))), .decl s64 "w" (some (.cast b2.ty (s2.expr b2)))],
   "{ int64_t v = ((" ++ ctypeName b1.ty ++ ")" ++ s1.text ++ "); int64_t w = ((" ++ ctypeName b2.ty ++ ")" ++ s2.text ++ "); }")

def spellingOfSexp : Sexp → Option Spelling
  | .list [.atom "letter", .str cls, .str acc, nw] => do
      let c ← cls.toList.head?
      let n ← nw.asBool?
      pure (.letter c acc n)
  | .list [.atom "explicit", .str cls, .str digits, .str pair, nw] => do
      let c ← cls.toList.head?
      let n ← nw.asBool?
      pure (.explicit c digits (if pair == "" then none else some pair) n)
  | .list [.atom "alias", .str name, nw] => do
      let n ← nw.asBool?
      pure (.alias name n)
  | .list [.atom "imm", .str l] => do
      let c ← l.toList.head?
      pure (.imm c)
  | _ => none

def ctSexp (t : CT) : Sexp := .list [ofBool t.signed, ofNat t.width]

/-- `(c07-spec sp)` → the specification and the probe sources; `(c07-check sp mode "text")` → the verdict. -/
def handleOperands : List Sexp → Option Sexp
  | [.atom "c07-spec", spx] => do
      let sp ← spellingOfSexp spx
      match bindingSpec sp with
      | none => pure (.list [.atom "c07-spec", .str sp.text, .list [.atom "defined", ofBool false]])
      | some b =>
        let r := readProbe sp b
        pure (.list [.atom "c07-spec", .str sp.text, .list [.atom "defined", ofBool true],
          .list [.atom "ty", ctSexp b.ty], .list [.atom "opvar", .str b.opvar], .list [.atom "slot", .str b.slot.render],
          .list [.atom "read", .str r.2],
          .list (.atom "write" :: (match writeProbe sp b with | some w => [.str w.2] | none => []))])
  | [.atom "c07-check", spx, .atom mode, .str text] => do
      let sp ← spellingOfSexp spx
      let b ← bindingSpec sp
      let prog ← (if mode == "read" then some (readProbe sp b).1 else (writeProbe sp b).map (·.1))
      let v := check [b] prog text
      pure (.list [.atom "c07", .list [.atom "parsed", ofBool v.parsed], .list [.atom "decl-ok", ofBool v.declOk],
        .list [.atom "tree-equal", ofBool v.treeEqual], .list [.atom "model", .str v.model], .list [.atom "real", .str v.real],
        .list [.atom "decl", .str v.declFound]])
  | [.atom "c07-pair", sx1, sx2] => do
      let s1 ← spellingOfSexp sx1
      let s2 ← spellingOfSexp sx2
      match bindingSpec s1, bindingSpec s2 with
      | some b1, some b2 => pure (.list [.atom "c07-pair", .list [.atom "defined", ofBool true], .list [.atom "src", .str (pairProbe s1 b1 s2 b2).2]])
      | _, _ => pure (.list [.atom "c07-pair", .list [.atom "defined", ofBool false]])
  | [.atom "c07-check2", sx1, sx2, .str text] => do
      let s1 ← spellingOfSexp sx1
      let s2 ← spellingOfSexp sx2
      let b1 ← bindingSpec s1
      let b2 ← bindingSpec s2
      let v := check [b1, b2] (pairProbe s1 b1 s2 b2).1 text
      pure (.list [.atom "c07", .list [.atom "parsed", ofBool v.parsed], .list [.atom "decl-ok", ofBool v.declOk],
        .list [.atom "tree-equal", ofBool v.treeEqual], .list [.atom "model", .str v.model], .list [.atom "real", .str v.real],
        .list [.atom "decl", .str v.declFound]])
  | _ => none

/-! ## enumeration of the letter spellings from the REGENERATED grammar terminals -/

/-- Alternatives of the three pattern shapes the operand terminals use: `[abc]`, `(?:ab|cd)`, a plain string. -/
def splitBar : List Char → List Char → List String
  | [], cur => [String.ofList cur.reverse]
  | c :: cs, cur => if c == '|' then String.ofList cur.reverse :: splitBar cs [] else splitBar cs (c :: cur)

def expandPat (p : String) : List String :=
  match p.toList with
  | '[' :: rest => if rest.getLast? == some ']' then rest.dropLast.map String.singleton else [p]
  | '(' :: '?' :: ':' :: rest => if rest.getLast? == some ')' then splitBar rest.dropLast [] else [p]
  | _ => [p]

def terminalAlts (name : String) : List String :=
  match Gen.terminalRows.find? (fun t => t.1 == name) with
  | some t => expandPat t.2.1
  | none => []

def regTypes : List Char := (terminalAlts "REG_TYPE").filterMap (·.toList.head?)
def accessAlts : List String :=
  terminalAlts "SRC_REG" ++ terminalAlts "DEST_REG" ++ terminalAlts "SRC_DEST_REG" ++
  terminalAlts "SRC_REG_PAIR" ++ terminalAlts "DEST_REG_PAIR" ++ terminalAlts "SRC_DEST_REG_PAIR"
def immLetters : List Char := (terminalAlts "IMMEDIATE").filterMap (·.toList.head?)

/-- every `REG_TYPE access (V|N)` spelling the grammar admits -/
def letterSpellings : List Spelling :=
  regTypes.flatMap (fun c => accessAlts.flatMap (fun a => [Spelling.letter c a false, Spelling.letter c a true]))

def immSpellings : List Spelling := immLetters.map Spelling.imm

/-- number strings of the explicit-register pattern `(?:[12]?[0-9]|3[01])`: 0 … 31, no leading zero -/
def explicitDigits : List String :=
  (List.range 32).map (fun (n : Nat) => (Nat.repr n : String))

def explicitClasses : List Char := ['R', 'C', 'P', 'V', 'Q', 'M', 'G', 'S']

def explicitSingles : List Spelling :=
  explicitClasses.flatMap (fun c => explicitDigits.flatMap (fun d => [Spelling.explicit c d none false, Spelling.explicit c d none true]))

def explicitPairs : List Spelling :=
  explicitClasses.flatMap (fun c => explicitDigits.flatMap (fun d => explicitDigits.flatMap (fun q =>
    [Spelling.explicit c d (some q) false, Spelling.explicit c d (some q) true])))

/-- `(c07-enum)` → the spelling space the theorems of Props/C07.lean range over. -/
def handleEnum : List Sexp → Option Sexp
  | [.atom "c07-enum"] =>
      some (.list [.atom "c07-enum",
        .list (.atom "letters" :: letterSpellings.map (fun s => .str s.text)),
        .list (.atom "imms" :: immSpellings.map (fun s => .str s.text)),
        .list (.atom "singles" :: explicitSingles.map (fun s => .str s.text)),
        .list [.atom "pairs", ofNat explicitPairs.length]])
  | _ => none

end Rzil.Operands
