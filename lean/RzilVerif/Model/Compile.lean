import RzilVerif.Model.CSem
import RzilVerif.Gen.ResourcesGen
/-
  Layer A: the lowering of the transformer (RZILTransformer callbacks + Pures/Effects rendering), as a
  function from the dialect AST to the denoted IL effect tree, for the hybrid-free fragment plus the
  `for` step.  It mirrors the code that exists INCLUDING its deviations; `Cfg` switches select between
  what the code does (`Cfg.asCode`) and the C11-conforming alternative (`Cfg.fixed`).
-/
namespace Rzil

structure Cfg where
  castFillNeedsBothSigned : Bool     -- Cast.il_exec: MSB fill only if target AND source signed
  shiftLeftUnpromoted : Bool         -- shift_expr: no promotion of the left operand
  cmpUnpromoted : Bool               -- compare_op / boolean_expr / ?: : cast_operands without promotion
  compoundNoConvertBack : Bool       -- update_assign_src: result not converted back to the target type
  explicitPairNarrow : Bool          -- explicit register pairs typed by class only (32 bit)
  loadAlwaysCast : Bool              -- mem_load/mem_store widths are Token strings: a cast is always emitted
  boolOpTypedAsOperand : Bool        -- BooleanOp (&& || !) typed as its first operand instead of ut1 BOOL
  boolFlagCopied : Bool              -- c11_cast deep-copies the BOOL group flag onto the converted type
  condByObjectKind : Bool            -- NON_ZERO wrapping decided by isinstance(BooleanOp/CompareOp) instead of by the BOOL flag
  literalTypeBySuffixOnly : Bool     -- literal typed by its suffix only; folding on unbounded Python ints; dead ?: arm dropped without conversion
  assignedRegsReadNew : Bool         -- an explicit/alias register that is assigned anywhere is read through the .new value everywhere
deriving Repr, DecidableEq, Inhabited

def Cfg.asCode : Cfg := ⟨true, true, true, true, true, true, true, true, true, true, true⟩
def Cfg.fixed : Cfg := ⟨false, false, false, false, false, true, false, false, false, false, false⟩

/-- What kind of Python object an expression result is (decides folding and NON_ZERO wrapping). -/
inductive PKind where
  | plain
  | boolObj                 -- BooleanOp / CompareOp
  | lit (v : Int)           -- Number / Sizeof (LetVar with an int value)
  | boolLit (b : Bool)      -- Bool (folded comparison)
deriving Repr, DecidableEq, Inhabited

structure CE where
  il : ILPure
  ty : VT
  kind : PKind
deriving Repr, Inhabited

def gBool : Nat := 3   -- PURE | BOOL

def numberIL (ty : VT) (v : Int) : ILPure := .const ty.signed ty.width v

/-- The C value `v` denotes in type `t` (wrap-around), as a mathematical integer. -/
def normInt (t : VT) (v : Int) : Int :=
  let m := v % (2 ^ t.width : Nat)
  if t.signed && m ≥ (2 ^ (t.width - 1) : Nat) then m - (2 ^ t.width : Nat) else m

def condILk (c : CE) : ILPure :=
  match c.kind with
  | .boolObj => c.il
  | _ => .un .nonZero c.il

/-- Condition operand: the code decides by the Python class; the repaired variant by the BOOL flag. -/
def condIL (cfg : Cfg) (c : CE) : ILPure :=
  if cfg.condByObjectKind then condILk c
  else if c.ty.hasFlag VT.gBOOL then c.il else .un .nonZero c.il

/-- `init_a_cast(target, p)` -/
def initACast (cfg : Cfg) (target : VT) (p : CE) : CE :=
  if target.eqv p.ty then p
  else if p.ty.hasFlag VT.gBOOL && !(target.hasFlag VT.gBOOL) then
    let c := if cfg.condByObjectKind then condILk p else p.il
    { il := .ite c (numberIL target 1) (numberIL target 0), ty := target, kind := .plain }
  else
    let fill : ILPure :=
      if cfg.castFillNeedsBothSigned then (if target.signed && p.ty.signed then .un .msb p.il else .bfalse)
      else (if p.ty.signed then .un .msb p.il else .bfalse)
    { il := .cast target.width fill p.il, ty := target, kind := .plain }

/-- the `ite_cast` arm of `init_a_cast` on its own: `mem_store` compares its Token-typed width with an `int`
    width, so a BOOL-grouped operand always takes this arm there, whatever its width -/
def boolToInt (cfg : Cfg) (target : VT) (p : CE) : CE :=
  let c := if cfg.condByObjectKind then condILk p else p.il
  { il := .ite c (numberIL target 1) (numberIL target 0), ty := target, kind := .plain }

def promotionCast (cfg : Cfg) (p : CE) : CE :=
  let pt := VT.promoted p.ty
  if pt.eqv p.ty then p else initACast cfg pt p

/-- `cast_operands(immutable_a=False)` -/
def castOperands (cfg : Cfg) (a b : CE) : CE × CE :=
  if a.ty.eqv b.ty then (a, b)
  else
    let (ca, cb) := VT.c11Cast a.ty b.ty
    let (ca, cb) := if cfg.boolFlagCopied then (ca, cb) else ({ ca with group := 1 }, { cb with group := 1 })
    let a' := if ca.width != a.ty.width || ca.signed != a.ty.signed then initACast cfg ca a else a
    let b' := if cb.width != b.ty.width || cb.signed != b.ty.signed then initACast cfg cb b else b
    (a', b')

def regVT (cfg : Cfg) (name : String) (k : RegKind) (t : CT) : VT :=
  match k with
  | .explicit | .explicitNew =>
      if cfg.explicitPairNarrow then
        { signed := true, width := (if name.toList.head? == some 'P' then 8 else 32), group := 1 }
      else t.toVT
  | _ => t.toVT

/-- Environment of one behaviour: which operands are assigned somewhere (final access type) and the
    declared types of locals. -/
structure CEnv where
  assigned : List String          -- operand variables that are written anywhere in the behaviour
  cfg : Cfg

def regRead (env : CEnv) (name : String) (k : RegKind) : ILPure :=
  let ov := opvarOf name k
  let deref := match k with
    | .explicit | .explicitNew | .alias | .aliasNew => true
    | .src | .dst | .rw => false
    | .new => name.toList.head? == some 'N'      -- NREG2OP operands are used through `&`
    | .pc => false
  let isNew := match k with
    | .new | .explicitNew | .aliasNew => true
    | _ => false
  let writeOnly := match k with
    | .dst => true
    | .explicit | .alias => env.cfg.assignedRegsReadNew && env.assigned.contains ov
    | _ => false
  match k with
  | .pc => .pktAddr
  | _ => .readReg { opvar := ov, deref := deref } (isNew || writeOnly)

def macroRzName (n : String) : String :=
  match Gen.macroRows.find? (fun r => r.1 == n) with
  | some (_, rz, _, _) => rz
  | none => n

def pyFloorShift : Int → Int := id

mutual
def compileExpr (env : CEnv) : CExpr → Except String CE
  | .reg n k t => .ok { il := regRead env n k, ty := regVT env.cfg n k t, kind := .plain }
  | .imm l s => .ok { il := .varl l, ty := { signed := s, width := 32, group := 1 }, kind := .plain }
  | .lit v h sfx =>
      if env.cfg.literalTypeBySuffixOnly then
        let t := (litTypeCode sfx).toVT
        .ok { il := numberIL t v, ty := t, kind := .lit v }
      else
        let t := (litTypeC v h sfx).toVT
        .ok { il := numberIL t v, ty := t, kind := .lit v }
  | .var n t => .ok { il := .varl n, ty := t.toVT, kind := .plain }
  | .cast t e => do
      let ce ← compileExpr env e
      if ce.ty.eqv t.toVT then .ok ce else .ok (initACast env.cfg t.toVT ce)
  | .un op e => do
      let ce ← compileExpr env e
      match ce.kind with
      | .lit v =>
          -- simplify_unary_expr: Python arithmetic on the literal, type = promoted (unary minus forces signed)
          let pt := VT.promoted ce.ty
          if env.cfg.literalTypeBySuffixOnly then
            if op == "-" then
              let t : VT := { pt with signed := true }
              .ok { il := numberIL t (-v), ty := t, kind := .lit (-v) }
            else
              .ok { il := numberIL pt (-v - 1), ty := pt, kind := .lit (-v - 1) }
          else
            let r := normInt pt (if op == "-" then -(normInt pt v) else -(normInt pt v) - 1)
            .ok { il := numberIL pt r, ty := pt, kind := .lit r }
      | _ =>
          let a := promotionCast env.cfg ce
          .ok { il := .un (if op == "-" then .neg else .lognot) a.il, ty := a.ty, kind := .plain }
  | .not e => do
      let ce ← compileExpr env e
      .ok { il := .un .inv (condIL env.cfg ce),
            ty := if env.cfg.boolOpTypedAsOperand then ce.ty else { signed := false, width := 1, group := gBool }, kind := .boolObj }
  | .bin op a b => do
      let ca ← compileExpr env a
      let cb ← compileExpr env b
      match ca.kind, cb.kind with
      | .lit va, .lit vb =>
          -- simplify_arithmetic_expr (only + - * /; bit operations are not folded)
          if op == "+" || op == "-" || op == "*" then
            let t := (VT.c11Cast ca.ty cb.ty).1
            let (va, vb) := if env.cfg.literalTypeBySuffixOnly then (va, vb) else (normInt t va, normInt t vb)
            let r := if op == "+" then va + vb else if op == "-" then va - vb else va * vb
            let r := if env.cfg.literalTypeBySuffixOnly then r else normInt t r
            .ok { il := numberIL t r, ty := t, kind := .lit r }
          else compileBin env op ca cb
      | _, _ => compileBin env op ca cb
  | .shift op a b => do
      let ca ← compileExpr env a
      let cb ← compileExpr env b
      let ca := if env.cfg.shiftLeftUnpromoted then ca else promotionCast env.cfg ca
      let o : BinOp := if op == "<<" then .shiftl0 else if ca.ty.signed then .shiftra else .shiftr0
      .ok { il := .bin o ca.il cb.il, ty := ca.ty, kind := .plain }
  | .cmp op a b => do
      let ca ← compileExpr env a
      let cb ← compileExpr env b
      match ca.kind, cb.kind with
      | .lit va, .lit vb =>
          let t := (VT.c11Cast ca.ty cb.ty).1
          let (va, vb) := if env.cfg.literalTypeBySuffixOnly then (va, vb) else (normInt t va, normInt t vb)
          let r := if op == "<" then decide (va < vb) else if op == ">" then decide (va > vb)
                   else if op == "<=" then decide (va ≤ vb) else if op == ">=" then decide (va ≥ vb)
                   else if op == "==" then decide (va = vb) else decide (va ≠ vb)
          .ok { il := if r then .btrue else .bfalse, ty := { signed := false, width := 1, group := gBool }, kind := .boolLit r }
      | _, _ =>
          let (ca, cb) := if env.cfg.cmpUnpromoted then (ca, cb) else (promotionCast env.cfg ca, promotionCast env.cfg cb)
          let (ca, cb) := castOperands env.cfg ca cb
          let sg := ca.ty.signed || cb.ty.signed
          let il : ILPure := match op with
            | "<" => .bin (if sg then .slt else .ult) ca.il cb.il
            | ">" => .bin (if sg then .sgt else .ugt) ca.il cb.il
            | "<=" => .bin (if sg then .sle else .ule) ca.il cb.il
            | ">=" => .bin (if sg then .sge else .uge) ca.il cb.il
            | "==" => .bin .eq ca.il cb.il
            | _ => .un .inv (.bin .eq ca.il cb.il)
          .ok { il := il, ty := { signed := false, width := 1, group := gBool }, kind := .boolObj }
  | .log op a b => do
      let ca ← compileExpr env a
      let cb ← compileExpr env b
      let (ca, cb) := castOperands env.cfg ca cb
      .ok { il := .bin (if op == "&&" then .and else .or) (condIL env.cfg ca) (condIL env.cfg cb),
            ty := if env.cfg.boolOpTypedAsOperand then ca.ty else { signed := false, width := 1, group := gBool }, kind := .boolObj }
  | .tern c a b => do
      let cc ← compileExpr env c
      let ca ← compileExpr env a
      let cb ← compileExpr env b
      -- simplify_conditional_expr returns the live arm as it is; C converts it to the common type of both arms
      let (fa, fb) := if env.cfg.literalTypeBySuffixOnly then (ca, cb)
                      else castOperands env.cfg (promotionCast env.cfg ca) (promotionCast env.cfg cb)
      match cc.kind with
      | .lit v => .ok (if v != 0 then fa else fb)
      | .boolLit r => .ok (if r then fa else fb)
      | _ =>
          let (ca, cb) := if env.cfg.cmpUnpromoted then (ca, cb) else (promotionCast env.cfg ca, promotionCast env.cfg cb)
          let (ca, cb) := castOperands env.cfg ca cb
          .ok { il := .ite (condIL env.cfg cc) ca.il cb.il, ty := ca.ty, kind := .plain }
  | .macro name args _ params => do
      let cargs ← compileArgs env args params
      let ret : VT := match Gen.macroRows.find? (fun r => r.1 == name) with
        | some (_, _, some (.bv w), _) => { signed := (name == "sextract64"), width := w, group := 1 }
        | _ => { signed := false, width := 32, group := 1 }
      .ok { il := .macro (macroRzName name) cargs, ty := ret, kind := .plain }
  | .load s w t => do
      -- MemLoad's width is a Token string: never equal to an int type, so a cast is always emitted
      let ld : CE := { il := .loadw w (.varl "EA"), ty := { signed := s, width := w, group := 1 }, kind := .plain }
      let fill : ILPure := if env.cfg.castFillNeedsBothSigned then (if t.signed && s then .un .msb ld.il else .bfalse)
                           else (if s then .un .msb ld.il else .bfalse)
      .ok { il := .cast t.width fill ld.il, ty := t.toVT, kind := .plain }
  | .post _ _ _ => .error "hybrid: use CompileH"
  | .call _ _ _ _ => .error "hybrid: use CompileH"
  | .stmtexpr _ _ _ => .error "hybrid: use CompileH"
  | .seqexpr _ _ _ _ _ => .error "hybrid: use CompileH"
  | .callx _ _ _ _ _ => .error "hybrid: use CompileH"
  | .xmacro _ _ _ => .error "pass-through macro: use CompileH"
def compileArgs (env : CEnv) : List CExpr → List CT → Except String (List ILPure)
  | [], _ => .ok []
  | _ :: _, [] => .error "macro arity"
  | a :: as, p :: ps => do
      let ca ← compileExpr env a
      let ca := if ca.ty.eqv p.toVT then ca else initACast env.cfg p.toVT ca
      let rest ← compileArgs env as ps
      .ok (ca.il :: rest)
def compileBin (env : CEnv) (op : String) (ca cb : CE) : Except String CE :=
  let a := promotionCast env.cfg ca
  let b := promotionCast env.cfg cb
  let (a, b) := castOperands env.cfg a b
  let o : Option BinOp := match op with
    | "+" => some .add | "-" => some .sub | "*" => some .mul
    | "&" => some .logand | "|" => some .logor | "^" => some .logxor | _ => none
  match o with
  | some o => .ok { il := .bin o a.il b.il, ty := a.ty, kind := .plain }
  | none => .error s!"operator {op} not modelled"
end

/-! ### statements -/

structure TSt where
  imms : List (String × Bool)     -- immediates in order of first occurrence (letter, signed)
  hyb : Nat                       -- hybrid temporary counter
deriving Repr, Inhabited

/-- `Sequence(effects)`: Empty members dropped; nothing left → EMPTY(); one → itself; else SEQN. -/
def mkSeq (es : List ILEffect) : ILEffect :=
  let es := es.filter (fun e => match e with | .empty => false | _ => true)
  match es with
  | [] => .empty
  | [e] => e
  | es => .seqn es

def immsOfExpr : CExpr → List (String × Bool)
  | .imm l s => [(l, s)]
  | .cast _ e => immsOfExpr e
  | .un _ e => immsOfExpr e
  | .not e => immsOfExpr e
  | .bin _ a b => immsOfExpr a ++ immsOfExpr b
  | .shift _ a b => immsOfExpr a ++ immsOfExpr b
  | .cmp _ a b => immsOfExpr a ++ immsOfExpr b
  | .log _ a b => immsOfExpr a ++ immsOfExpr b
  | .tern c a b => immsOfExpr c ++ immsOfExpr a ++ immsOfExpr b
  | .macro _ args _ _ => immsOfList args
  | _ => []
where immsOfList : List CExpr → List (String × Bool)
  | [] => []
  | a :: as => immsOfExpr a ++ immsOfList as

def addImms (st : TSt) (xs : List (String × Bool)) : TSt :=
  { st with imms := xs.foldl (fun acc x => if acc.any (fun y => y.1 == x.1) then acc else acc ++ [x]) st.imms }

def destWrite (lhs : CExpr) (v : ILPure) : Except String ILEffect :=
  match lhs with
  | .var n _ => .ok (.setl n v)
  | .reg n k _ =>
      let deref := match k with
        | .explicit | .explicitNew | .alias | .aliasNew => true
        | _ => false
      .ok (.writeReg "bundle" { opvar := opvarOf n k, deref := deref } v)
  | .imm l _ => .ok (.setl l v)      -- an assignable immediate (`riV = riV & ~3`) is the local its `imm_assign` sets
  | _ => .error "assignment target"

/-- `assignment_expr` for a source that is already compiled: returns the effect and the source it stores. -/
def compileAssign (env : CEnv) (lhs : CExpr) (op : String) (ce : CE) : Except String (ILEffect × CE) := do
  let cd ← compileExpr env lhs
  let ce := if op == "<<=" || op == ">>=" then ce
            else (if cd.ty.eqv ce.ty then ce else initACast env.cfg cd.ty ce)
  let src ← (match op with
    | "=" => .ok ce
    | "+=" | "-=" | "*=" =>
        let a := promotionCast env.cfg cd
        let b := promotionCast env.cfg ce
        let o : BinOp := if op == "+=" then .add else if op == "-=" then .sub else .mul
        .ok { il := .bin o a.il b.il, ty := a.ty, kind := .plain }
    | "&=" | "|=" | "^=" =>
        let o : BinOp := if op == "&=" then .logand else if op == "|=" then .logor else .logxor
        .ok { il := .bin o cd.il ce.il, ty := cd.ty, kind := .plain }
    | "<<=" | ">>=" =>
        let a := promotionCast env.cfg cd
        let b := promotionCast env.cfg ce
        let o : BinOp := if op == "<<=" then .shiftl0 else if a.ty.signed then .shiftra else .shiftr0
        .ok { il := .bin o a.il b.il, ty := a.ty, kind := .plain }
    | _ => .error s!"assignment operator {op} not modelled" : Except String CE)
  let src := if env.cfg.compoundNoConvertBack || op == "=" then src
             else (if src.ty.eqv cd.ty then src else initACast env.cfg cd.ty src)
  let eff ← destWrite lhs src.il
  .ok (eff, src)

/-- statements that are a bare value (`siV;`, `i++;`, `f(x);`): they yield no effect of their own -/
def isBare : CStmt → Bool
  | .exprstmt _ => true
  | _ => false

/-- the effect list of `s :: ss`: a bare value statement is not an effect and is not listed -/
def consEff (s : CStmt) (e : ILEffect) (es : List ILEffect) : List ILEffect :=
  if isBare s then es else e :: es

/-- what the hybrid lowering model returns for the statement: no effect for a bare value -/
def effOpt (s : CStmt) (e : ILEffect) : Option ILEffect :=
  if isBare s then none else some e

theorem consEff_bare {s : CStmt} (h : isBare s = true) (e : ILEffect) (es : List ILEffect) : consEff s e es = es := by
  simp only [consEff, h, ↓reduceIte]

theorem consEff_eff {s : CStmt} (h : isBare s = false) (e : ILEffect) (es : List ILEffect) :
    consEff s e es = e :: es := by
  simp only [consEff, h, Bool.false_eq_true, ↓reduceIte]

mutual
def compileStmt (env : CEnv) (st : TSt) : CStmt → Except String (ILEffect × TSt)
  | .decl _ _ none => .ok (.empty, st)
  | .decl t n (some e) => do
      let st := addImms st (immsOfExpr e)
      let ce ← compileExpr env e
      let ce := if ce.ty.eqv t.toVT then ce else initACast env.cfg t.toVT ce
      .ok (.setl n ce.il, st)
  | .assign lhs op e => do
      let st := addImms st (immsOfExpr lhs ++ immsOfExpr e)
      let ce ← compileExpr env e
      let (eff, _) ← compileAssign env lhs op ce
      .ok (eff, st)
  | .chain lhs1 lhs2 op2 e => do
      -- `a = b op= e`: the inner assignment is built first; the outer one takes the inner's (already converted /
      -- operator-expanded) source, and the result is Sequence([outer, inner])
      let st := addImms st (immsOfExpr lhs1 ++ immsOfExpr lhs2 ++ immsOfExpr e)
      let ce ← compileExpr env e
      let (effInner, srcInner) ← compileAssign env lhs2 op2 ce
      let (effOuter, _) ← compileAssign env lhs1 "=" srcInner
      .ok (mkSeq [effOuter, effInner], st)
  | .store w e => do
      let st := addImms st (immsOfExpr e)
      let ce ← compileExpr env e
      let target : VT := { signed := false, width := w, group := 1 }
      -- Token-typed width: `operation_value_type != data.value_type` always holds and so does the inner test
      let data : CE :=
        if ce.ty.hasFlag VT.gBOOL then (if target.eqv ce.ty then boolToInt env.cfg target ce else initACast env.cfg target ce)
        else { il := .cast w (if env.cfg.castFillNeedsBothSigned then .bfalse else (if ce.ty.signed then .un .msb ce.il else .bfalse)) ce.il,
               ty := target, kind := .plain }
      .ok (.storew (.varl "EA") data.il, st)
  | .ite c t e => do
      let st := addImms st (immsOfExpr c)
      let cc ← compileExpr env c
      let (ts, st) ← compileStmts env st t
      match e with
      | none => .ok (.branch (condIL env.cfg cc) (mkSeq ts) .empty, st)
      | some e => do
          let (es, st) ← compileStmts env st e
          .ok (.branch (condIL env.cfg cc) (mkSeq ts) (mkSeq es), st)
  | .for_ v cond step body => do
      -- init `v = 0`: v is a special identifier typed ut32, the literal st32
      let init : ILEffect := .setl v (.cast 32 .bfalse (.const true 32 0))
      let st := addImms st (immsOfExpr cond)
      let cc ← compileExpr env cond
      if step == 0 then
        -- `v++`: Lark transforms children left to right (init, cond, step, body): the step's temporary is
        -- numbered before the body's hybrids; its effect is appended after the body (SEQ_THEN_HYB)
        let tmp := s!"h_tmp{st.hyb}"
        let st := { st with hyb := st.hyb + 1 }
        let (bs, st) ← compileStmts env st body
        let stepSeq : ILEffect := .seqn [.setl tmp (.varl v), .setl v (.inc (.varl v) 32)]
        let compound := ILEffect.seqn [mkSeq bs, stepSeq]
        .ok (.seqn [init, .repeat_ (condIL env.cfg cc) compound], st)
      else
        -- `v += k`: an ordinary assignment effect, last member of the loop sequence
        let (stepEff, _) ← compileAssign env (.var v utT) "+=" { il := numberIL ⟨true, 32, 1⟩ step, ty := ⟨true, 32, 1⟩, kind := .lit step }
        let (bs, st) ← compileStmts env st body
        .ok (.seqn [init, .repeat_ (condIL env.cfg cc) (mkSeq (bs ++ [stepEff]))], st)
  | .jump e => do
      let st := addImms st (immsOfExpr e)
      let ce ← compileExpr env e
      let ta := if ce.ty.width != 32 then initACast env.cfg { signed := false, width := 32, group := 1 } ce else ce
      .ok (.seqn [.setl "jump_flag" .btrue, .setl "jump_target" ta.il], st)
  | .exprstmt e => do
      -- a bare value statement `e;` for a pure `e` (`siV;`, `RsV;`): the value is compiled (its immediates are
      -- registered in order of first occurrence) and dropped; the statement has no effect of its own (`compileStmts`
      -- does not list the `EMPTY` returned here).  A value with a side effect is rejected by `compileExpr`.
      let st := addImms st (immsOfExpr e)
      let _ ← compileExpr env e
      .ok (.empty, st)
  | .ret _ => .error "hybrid: use CompileH"
  | .vcall _ _ _ _ => .error "hybrid: use CompileH"
  | .skip w =>
      if w == "cancel_slot;" then .ok (.nop, st)
      else if w == "STORE_SLOT_CANCELLED(pkt, slot);" then
        .ok (.call "HEX_STORE_SLOT_CANCELLED" [.ext (.id "pkt"), .ext (.arrow (.id "hi") "slot")], st)
      else .ok (.empty, st)
def compileStmts (env : CEnv) (st : TSt) : List CStmt → Except String (List ILEffect × TSt)
  | [] => .ok ([], st)
  | s :: ss => do
      let (e, st) ← compileStmt env st s
      let (es, st) ← compileStmts env st ss
      -- a `Sequence` that is itself a plain list member is kept as one effect; nested blocks are flattened
      -- by the harness before they reach the model; a bare value statement is not an effect and is not listed
      .ok (consEff s e es, st)
end

/-- the pure-model effect of a bare value statement is `EMPTY` (and `compileStmts` does not list it) -/
theorem compileStmt_bare {env : CEnv} {st st' : TSt} {s : CStmt} {e : ILEffect} (hb : isBare s = true)
    (h : compileStmt env st s = .ok (e, st')) : e = .empty := by
  cases s with
  | exprstmt x =>
    simp only [compileStmt, bind, Except.bind] at h
    split at h
    · cases h
    · simp only [Except.ok.injEq, Prod.mk.injEq] at h; exact h.1.symm
  | _ => simp [isBare] at hb

-- operands assigned anywhere (pre-pass)
mutual
def assignedOf : CStmt → List String
  | .assign (.reg n k _) _ _ => [opvarOf n k]
  | .ite _ t e => assignedOfList t ++ (match e with | some e => assignedOfList e | none => [])
  | .for_ _ _ _ b => assignedOfList b
  | .chain (.reg n1 k1 _) (.reg n2 k2 _) _ _ => [opvarOf n1 k1, opvarOf n2 k2]
  | .chain (.reg n1 k1 _) _ _ _ => [opvarOf n1 k1]
  | .chain _ (.reg n2 k2 _) _ _ => [opvarOf n2 k2]
  | _ => []
def assignedOfList : List CStmt → List String
  | [] => []
  | s :: ss => assignedOf s ++ assignedOfList ss
end

def immSetEffect (x : String × Bool) : ILEffect :=
  .setl x.1 (.imm x.2 32 (if x.2 then "st32" else "ut32") x.1)

/-- The whole behaviour: `instruction_sequence`. -/
def compileProg (cfg : Cfg) (prog : List CStmt) : Except String ILEffect := do
  let env : CEnv := { assigned := assignedOfList prog, cfg := cfg }
  let (es, st) ← compileStmts env { imms := [], hyb := 0 } prog
  .ok (mkSeq (st.imms.map immSetEffect ++ es))

end Rzil
