import RzilVerif.Model.Sexp
import RzilVerif.Model.Session
namespace Rzil
open Sexp

def behOfSexp (i : Nat) : Sexp → Option Beh
  | .list (.atom "ok" :: preds) => do
      let ps ← preds.mapM Sexp.asInt?
      pure { ops := [s!"op{i}"], imms := [], pendingLeft := [], tmps := 1,
             events := ps.map (fun p => { token := "pred_write", predNum := p }), failsAfter := none }
  | .list (.atom "fail" :: preds) => do
      let ps ← preds.mapM Sexp.asInt?
      pure { ops := [s!"stale{i}", s!"never{i}"], imms := [s!"imm{i}"], pendingLeft := [], tmps := 0,
             events := ps.map (fun p => { token := "pred_write", predNum := p }), failsAfter := some 1 }
  | .list [.atom "fail0"] =>   -- fails before the transformer touches any state (parse error)
      some { ops := [], imms := [], pendingLeft := [], tmps := 0, events := [], failsAfter := some 0 }
  | _ => none

def callOfSexp (i : Nat) : Sexp → Option Call
  | .list [.atom "cstmt", b] => do let b ← behOfSexp i b; pure (.cStmt b)
  | .list (.atom "insn" :: parts) => do let ps ← parts.mapM (behOfSexp i); pure (.insn ps)
  | .list [.atom "sub", b] => do let b ← behOfSexp i b; pure (.subRoutine b)
  | _ => none

/-- `(meta (preds n…) tree)`: what the code reports after a prior state with those `preds_written`, and
    the specification (attributes implied by the tree alone).
    `(session call… )`: does the model predict that the last call's outputs equal those on a fresh instance? -/
def handleMeta : List Sexp → Option Sexp
  | [.atom "meta", .list (.atom "preds" :: ps), .list (.atom "on" :: on), reset, tree] => do
      let ps ← ps.mapM Sexp.asNat?
      let on ← on.mapM Sexp.asAtom?
      let reset ← reset.asBool?
      let t := LTree.ofSexp tree
      let prior : Flags := { on := on, preds := ps }
      -- transform_insn resets before each part; compile_c_stmt starts from whatever the last call left
      let got := if reset then metaAfter prior t else getMeta (t.events.foldl applyEvent prior)
      let spec := (attrsOfTree t).render
      pure (.list [.list (got.map .str), .list (spec.map .str)])
  | (.atom "session" :: calls) => do
      let cs ← (calls.zipIdx.mapM (fun (c, i) => callOfSexp i c))
      match cs.reverse with
      | [] => none
      | last :: revInit =>
          let h := revInit.reverse
          let a := lastOutputs h last
          let b := lastOutputs [] last
          let st := (runHistory TState.fresh h).1
          pure (.list [.list [.atom "same", ofBool (a == b)], .list [.atom "clean", ofBool st.clean],
                       .list (.atom "preds" :: st.flags.preds.map ofNat)])
  | _ => none

end Rzil
