import RzilVerif.Model.ILSem
/-
  Small computable helpers used by the C10 soundness theorems (core Lean only):
  the operator rules of `sortOf` as stand-alone functions, the call-freeness test, and the sort
  environment under which a sub-routine body is checked.
-/
namespace Rzil

/-- The unary-operator rule of `sortOf` (the `match op, sa` of the `.un` case). -/
def unSort (op : UnOp) (sa : ILSort) : Except String ILSort :=
  match op, sa with
  | .lognot, .bv w => .ok (.bv w)
  | .neg, .bv w => .ok (.bv w)
  | .msb, .bv _ => .ok .bool
  | .nonZero, .bv _ => .ok .bool
  | .inv, .bool => .ok .bool
  | op, s => .error s!"{op.name} applied to {s.render}"

/-- The binary-operator rule of `sortOf` (the `match sa, sb` of the `.bin` case). -/
def binSort (op : BinOp) (sa sb : ILSort) : Except String ILSort :=
  match sa, sb with
  | .bv wa, .bv wb =>
      if isArith op then (if wa == wb then .ok (.bv wa) else .error s!"{op.name} on widths {wa} and {wb}")
      else if isShift op then .ok (.bv wa)
      else if isCmp op then (if wa == wb then .ok .bool else .error s!"{op.name} on widths {wa} and {wb}")
      else .error s!"{op.name} applied to bitvectors"
  | .bool, .bool =>
      if op == .and || op == .or then .ok .bool else .error s!"{op.name} applied to booleans"
  | sa, sb => .error s!"{op.name} applied to {sa.render} and {sb.render}"

mutual
/-- The effect contains no `.call` node. -/
def noCalls : ILEffect → Bool
  | .seqn es => noCallsList es
  | .branch _ t e => noCalls t && noCalls e
  | .repeat_ _ b => noCalls b
  | .call _ _ => false
  | _ => true
def noCallsList : List ILEffect → Bool
  | [] => true
  | e :: es => noCalls e && noCallsList es
end

/-- Sorts a call site must supply for a signature: the declared sort, `.ext` for external parameters. -/
def sigArgSorts (sig : SubSig) : List ILSort := sig.params.map (fun p => p.getD .ext)

/-- The sort environment under which the body of sub-routine `sig` with parameter names `ps` is
    checked: its parameters are the declared pures, macros and sub-routine signatures are global. -/
def subEnv (macros : List (String × MacroSig)) (sigs : List (String × SubSig))
    (ps : List String) (sig : SubSig) : SortEnv :=
  { params := ps.zip (sigArgSorts sig), macros := macros, subs := sigs }

def defaultVal : ILSort → Val
  | .bv w => .bv w 0
  | .bool => .bool false
  | .float w => .flt w 0
  | .ext => .ext

/-- The generic part of the `.macro` rule of `sortOf` (float operators, then the macro table). -/
def macroRest (macros : List (String × MacroSig)) (f : String) (sargs : List ILSort) : Except String ILSort :=
        let fop : Option BinOp := if f.startsWith "F" then
            (match binOpOfName (f.drop 1).toString with
             | some op => some op
             | none => binOpOfName ("S" ++ (f.drop 1).toString)) else none
        if fop.isSome then
          match fop, sargs with
          | some op, [.ext, .float wa, .float wb] =>
              if isArith op && wa == wb then .ok (.float wa) else .error s!"{f} on float{wa}, float{wb}"
          | some op, [.float wa, .float wb] =>
              if isCmp op && wa == wb then .ok .bool else .error s!"{f} on float{wa}, float{wb}"
          | _, _ => .error s!"{f} applied to {" ".intercalate (sargs.map ILSort.render)}"
        else
        match lookupS f macros with
        | none => .error s!"unknown macro {f}"
        | some sig =>
          if sig.params.length != sargs.length then .error s!"{f}: {sargs.length} arguments for {sig.params.length} parameters"
          else
            let bad := (sig.params.zip sargs).find? (fun (p, s) => match p with
              | none => false
              | some ps => ps != s)
            match bad with
            | some (some ps, s) => .error s!"{f}: argument of sort {s.render} for parameter of sort {ps.render}"
            | _ => match sig.ret with
              | some r => .ok r
              | none => .ok .ext

/-- Result sort of macro `f` applied to arguments of sorts `ss`, as the checker computes it when it
    accepts the application (acceptance may additionally depend on the `BV2F` format operand). -/
def macroRetSort (macros : List (String × MacroSig)) (f : String) (ss : List ILSort) : Option ILSort :=
  match f, ss with
  | "BV2F", [.ext, .bv w] => some (.float w)
  | "F2BV", [.float w] => some (.bv w)
  | _, _ => (macroRest macros f ss).toOption

/-- A total oracle for the macro table: answers with a default value of the checker's result sort. -/
def oracleOf (macros : List (String × MacroSig)) : MacroSem :=
  fun f vs => (macroRetSort macros f (vs.map Val.sort)).map defaultVal


end Rzil
