import RzilVerif.Model.Types
import RzilVerif.Model.Sexp
/-
  Abstract syntax of the shortcode dialect (the fragment the lowering model covers), as produced by the
  program generator / the Lark-tree elaborator of the harness, with the C type of every leaf.
-/
namespace Rzil

/-- How an operand token names a register. -/
inductive RegKind where
  | src        -- RsV, RssV (SRC_REG / SRC_REG_PAIR)
  | dst        -- RdV, RddV
  | rw         -- RxV, RyV, RxxV
  | new        -- NsN, PtN (.new)
  | explicit   -- P0, R31, R1:0
  | explicitNew -- P0_NEW
  | alias      -- HEX_REG_ALIAS_SP
  | aliasNew
  | pc         -- HEX_REG_ALIAS_PC
deriving Repr, DecidableEq, Inhabited

/-- C integer type: signedness and width. -/
structure CT where
  signed : Bool
  width : Nat
deriving Repr, DecidableEq, Inhabited

def CT.toVT (t : CT) : VT := { signed := t.signed, width := t.width, group := 1 }

inductive CExpr where
  | reg (name : String) (kind : RegKind) (ty : CT)
  | imm (letter : String) (signed : Bool)
  | lit (value : Nat) (hex : Bool) (suffix : String) -- literal text: value, base, suffix (upper-cased: "" U LL ULL)
  | var (name : String) (ty : CT)
  | cast (ty : CT) (e : CExpr)
  | un (op : String) (e : CExpr)                    -- "-" "~"
  | not (e : CExpr)
  | bin (op : String) (a b : CExpr)                 -- + - * & | ^
  | shift (op : String) (a b : CExpr)               -- << >>
  | cmp (op : String) (a b : CExpr)                 -- < > <= >= == !=
  | log (op : String) (a b : CExpr)                 -- && ||
  | tern (c a b : CExpr)
  | macro (name : String) (args : List CExpr) (ret : CT) (params : List CT)
  | load (signed : Bool) (width : Nat) (ty : CT)    -- ((T)mem_load_<s|u><w>(EA))
  -- value-producing side effects ("hybrids")
  | post (v : String) (ty : CT) (op : String)       -- v++ / v-- on a local variable
  | call (name : String) (args : List CExpr) (ret : CT) (params : List CT)   -- registered sub-routine
  | stmtexpr (ty : CT) (v : String) (e : CExpr)     -- ({ T v = e; v; })
  -- ({ name(exts…, args…); val; }): a void sub-routine call statement, then the value `val` (any expression);
  -- `exts` are the pass-through tokens (`bundle`, `HEX_REG_FIELD_USR_OVF`), `args` the value arguments
  | seqexpr (name : String) (exts : List String) (args : List CExpr) (params : List CT) (val : CExpr)
  -- name(exts…, args…) used as a value: a registered sub-routine (or the built-in `get_npc`) with pass-through
  -- arguments in front of its value arguments (`get_usr_field(bundle, HEX_REG_FIELD_USR_LPCFG)`, `get_npc(pkt)`,
  -- `fcirc_add(bundle, RxV, …)`); a pass-through token that names a register operand is kept as the operand
  -- variable the code prints for it (`Rx_op`): the operand is handed over BY REFERENCE
  | callx (name : String) (exts : List String) (args : List CExpr) (ret : CT) (params : List CT)
  -- name(exts…): a plugin macro all of whose arguments are pass-through tokens (`get_corresponding_CS(pkt, MuV)`);
  -- a pure leaf
  | xmacro (name : String) (exts : List String) (ret : CT)
deriving Repr, Inhabited

inductive CStmt where
  | decl (ty : CT) (name : String) (init : Option CExpr)
  | assign (lhs : CExpr) (op : String) (e : CExpr)  -- lhs: reg or var; op "=" "+=" ...
  | store (width : Nat) (e : CExpr)                 -- mem_store_u<w>(EA, e)
  | ite (c : CExpr) (t : List CStmt) (e : Option (List CStmt))
  | for_ (v : String) (cond : CExpr) (step : Nat) (body : List CStmt)   -- for (v = 0; cond; v++ | v += step) body  (step 0 = v++)
  | chain (lhs1 : CExpr) (lhs2 : CExpr) (op2 : String) (e : CExpr)        -- lhs1 = lhs2 op2 e;
  | jump (e : CExpr)
  | skip (what : String)                            -- ";" "{}" "cancel_slot;"
  | exprstmt (e : CExpr)                            -- e;  (value unused)
  | ret (e : CExpr)                                 -- return e;  (sub-routine bodies, last statement)
  -- name(exts…, args…);  a call of a registered sub-routine with return type void, used as a statement
  | vcall (name : String) (exts : List String) (args : List CExpr) (params : List CT)
deriving Repr, Inhabited

/-! ### decoding from S-expressions -/

def ctOfSexp : Sexp → Option CT
  | .list [s, w] => do let s ← s.asBool?; let w ← w.asNat?; pure { signed := s, width := w }
  | _ => none

def strsOfSexps : List Sexp → Option (List String)
  | [] => some []
  | .str s :: xs => do let ss ← strsOfSexps xs; pure (s :: ss)
  | _ => none

def regKindOfString : String → Option RegKind
  | "src" => some .src | "dst" => some .dst | "rw" => some .rw | "new" => some .new
  | "explicit" => some .explicit | "explicitNew" => some .explicitNew | "alias" => some .alias
  | "aliasNew" => some .aliasNew | "pc" => some .pc | _ => none

mutual
def CExpr.ofSexp : Sexp → Option CExpr
  | .list [.atom "reg", .str n, .atom k, t] => do
      let k ← regKindOfString k; let t ← ctOfSexp t; pure (.reg n k t)
  | .list [.atom "imm", .str l, s] => do let s ← s.asBool?; pure (.imm l s)
  | .list [.atom "lit", v, h, .str sfx] => do let v ← v.asNat?; let h ← h.asBool?; pure (.lit v h sfx)
  | .list [.atom "var", .str n, t] => do let t ← ctOfSexp t; pure (.var n t)
  | .list [.atom "cast", t, e] => do let t ← ctOfSexp t; let e ← CExpr.ofSexp e; pure (.cast t e)
  | .list [.atom "un", .str op, e] => do let e ← CExpr.ofSexp e; pure (.un op e)
  | .list [.atom "not", e] => do let e ← CExpr.ofSexp e; pure (.not e)
  | .list [.atom "bin", .str op, a, b] => do let a ← CExpr.ofSexp a; let b ← CExpr.ofSexp b; pure (.bin op a b)
  | .list [.atom "shift", .str op, a, b] => do let a ← CExpr.ofSexp a; let b ← CExpr.ofSexp b; pure (.shift op a b)
  | .list [.atom "cmp", .str op, a, b] => do let a ← CExpr.ofSexp a; let b ← CExpr.ofSexp b; pure (.cmp op a b)
  | .list [.atom "log", .str op, a, b] => do let a ← CExpr.ofSexp a; let b ← CExpr.ofSexp b; pure (.log op a b)
  | .list [.atom "tern", c, a, b] => do
      let c ← CExpr.ofSexp c; let a ← CExpr.ofSexp a; let b ← CExpr.ofSexp b; pure (.tern c a b)
  | .list [.atom "macro", .str n, .list args, ret, .list params] => do
      let args ← CExpr.ofSexps args; let ret ← ctOfSexp ret; let ps ← params.mapM ctOfSexp
      pure (.macro n args ret ps)
  | .list [.atom "load", s, w, t] => do
      let s ← s.asBool?; let w ← w.asNat?; let t ← ctOfSexp t; pure (.load s w t)
  | .list [.atom "post", .str v, t, .str op] => do let t ← ctOfSexp t; pure (.post v t op)
  | .list [.atom "call", .str n, .list args, ret, .list params] => do
      let args ← CExpr.ofSexps args; let ret ← ctOfSexp ret; let ps ← params.mapM ctOfSexp
      pure (.call n args ret ps)
  | .list [.atom "stmtexpr", t, .str v, e] => do let t ← ctOfSexp t; let e ← CExpr.ofSexp e; pure (.stmtexpr t v e)
  | .list [.atom "seqexpr", .str n, .list exts, .list args, .list params, v] => do
      let exts ← strsOfSexps exts; let args ← CExpr.ofSexps args; let ps ← params.mapM ctOfSexp
      let v ← CExpr.ofSexp v
      pure (.seqexpr n exts args ps v)
  | .list [.atom "callx", .str n, .list exts, .list args, ret, .list params] => do
      let exts ← strsOfSexps exts; let args ← CExpr.ofSexps args; let ret ← ctOfSexp ret; let ps ← params.mapM ctOfSexp
      pure (.callx n exts args ret ps)
  | .list [.atom "xmacro", .str n, .list exts, ret] => do
      let exts ← strsOfSexps exts; let ret ← ctOfSexp ret
      pure (.xmacro n exts ret)
  | _ => none
def CExpr.ofSexps : List Sexp → Option (List CExpr)
  | [] => some []
  | x :: xs => do let e ← CExpr.ofSexp x; let es ← CExpr.ofSexps xs; pure (e :: es)
end

mutual
def CStmt.ofSexp : Sexp → Option CStmt
  | .list [.atom "decl", t, .str n] => do let t ← ctOfSexp t; pure (.decl t n none)
  | .list [.atom "decl", t, .str n, e] => do let t ← ctOfSexp t; let e ← CExpr.ofSexp e; pure (.decl t n (some e))
  | .list [.atom "assign", l, .str op, e] => do let l ← CExpr.ofSexp l; let e ← CExpr.ofSexp e; pure (.assign l op e)
  | .list [.atom "store", w, e] => do let w ← w.asNat?; let e ← CExpr.ofSexp e; pure (.store w e)
  | .list [.atom "if", c, .list t] => do let c ← CExpr.ofSexp c; let t ← CStmt.ofSexps t; pure (.ite c t none)
  | .list [.atom "if", c, .list t, .list e] => do
      let c ← CExpr.ofSexp c; let t ← CStmt.ofSexps t; let e ← CStmt.ofSexps e; pure (.ite c t (some e))
  | .list [.atom "for", .str v, b, k, .list body] => do
      let b ← CExpr.ofSexp b; let k ← k.asNat?; let body ← CStmt.ofSexps body; pure (.for_ v b k body)
  | .list [.atom "chain", l1, l2, .str op2, e] => do
      let l1 ← CExpr.ofSexp l1; let l2 ← CExpr.ofSexp l2; let e ← CExpr.ofSexp e; pure (.chain l1 l2 op2 e)
  | .list [.atom "jump", e] => do let e ← CExpr.ofSexp e; pure (.jump e)
  | .list [.atom "skip", .str w] => some (.skip w)
  | .list [.atom "exprstmt", e] => do let e ← CExpr.ofSexp e; pure (.exprstmt e)
  | .list [.atom "ret", e] => do let e ← CExpr.ofSexp e; pure (.ret e)
  | .list [.atom "vcall", .str n, .list exts, .list args, .list params] => do
      let exts ← strsOfSexps exts; let args ← CExpr.ofSexps args; let ps ← params.mapM ctOfSexp
      pure (.vcall n exts args ps)
  | _ => none
def CStmt.ofSexps : List Sexp → Option (List CStmt)
  | [] => some []
  | x :: xs => do let s ← CStmt.ofSexp x; let ss ← CStmt.ofSexps xs; pure (s :: ss)
end

end Rzil
