import RzilVerif.Model.CSem
/-
  The declared type of a `for` loop counter.  The shipped instructions mostly declare the counter
  (`int i; for (i = 0; …)`); the condition expression of the AST carries that type in its `.var v t` nodes.
  The undeclared special identifiers `i`, `j`, `k` are `ut32` (`utT`).
  Shared by the hybrid lowering model (`CompileH.lean`) and the effectful C semantics (`CSemH.lean`); the pure
  models (`Compile.lean`, `CSem.lean`) stay hardcoded to `utT`.
-/
namespace Rzil

mutual
/-- first `.var v t` occurrence of the counter in the loop condition gives its declared type; none: the special ut32 identifiers -/
def varTyIn (v : String) : CExpr → Option CT
  | .reg _ _ _ => none
  | .imm _ _ => none
  | .lit _ _ _ => none
  | .var n t => if n == v then some t else none
  | .cast _ e => varTyIn v e
  | .un _ e => varTyIn v e
  | .not e => varTyIn v e
  | .bin _ a b => (varTyIn v a).orElse (fun _ => varTyIn v b)
  | .shift _ a b => (varTyIn v a).orElse (fun _ => varTyIn v b)
  | .cmp _ a b => (varTyIn v a).orElse (fun _ => varTyIn v b)
  | .log _ a b => (varTyIn v a).orElse (fun _ => varTyIn v b)
  | .tern c a b => ((varTyIn v c).orElse (fun _ => varTyIn v a)).orElse (fun _ => varTyIn v b)
  | .macro _ args _ _ => varTyInL v args
  | .load _ _ _ => none
  | .post _ _ _ => none
  | .call _ args _ _ => varTyInL v args
  | .stmtexpr _ _ e => varTyIn v e
  | .seqexpr _ _ args _ val => (varTyInL v args).orElse (fun _ => varTyIn v val)
  | .callx _ _ args _ _ => varTyInL v args
  | .xmacro _ _ _ => none
def varTyInL (v : String) : List CExpr → Option CT
  | [] => none
  | a :: as => (varTyIn v a).orElse (fun _ => varTyInL v as)
end

/-- the type the loop counter `v` of `for (v = 0; cond; …)` has -/
def loopVarTy (v : String) (cond : CExpr) : CT := (varTyIn v cond).getD utT

end Rzil
