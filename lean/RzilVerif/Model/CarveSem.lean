import RzilVerif.Model.Certificate
/-
  The SEMANTIC carve-out of T2: the syntactic carve-outs (`CarveN`/`CarveE` of Model/ExprCarve.lean, `CarveS`/`CarveSs`
  of Model/StmtWF.lean) exclude every conversion of a signed source to an unsigned target, because `Cfg.asCode` emits
  `CAST(w, IL_FALSE, x)` where `Cfg.fixed` emits `CAST(w, MSB(x), x)`.  For `w ≤ width(x)` the fill operand cannot
  influence the value (ILSem: a narrowing or same-width CAST ignores it).  The predicates below are the syntactic ones
  with the conversion test widened accordingly at every conversion site (explicit casts, macro arguments, the usual
  arithmetic conversions of `cast_operands`, loads, declaration / assignment / compound-assignment conversion, store
  data, jump target).  Chained assignments keep the syntactic carve-out.
  Soundness: Lemmas/SemExprT2.lean, Lemmas/SemStmtT2.lean, Props/T2Sem.lean.
-/
namespace Rzil

/-- `init_a_cast(target, p)` has the same VALUE under both configurations: the emitted IL is the same (`CastSafe`), or
    the source is a plain (non-BOOL) value at least as wide as the target, so that the cast does not extend and its
    fill operand is irrelevant. -/
def CastSafeSem (target : VT) (p : CE) : Bool :=
  CastSafe target p || (decide (target.width ≤ p.ty.width) && !p.ty.hasFlag VT.gBOOL)

/-- the same test, in the spelling of the statement carve-out (`castOK` and `CastSafe` are the same function) -/
def castOKSem (tgt : VT) (p : CE) : Bool :=
  castOK tgt p || (decide (tgt.width ≤ p.ty.width) && !p.ty.hasFlag VT.gBOOL)

/-- `cast_operands`: no cast, or the converted types carry no copied flag and both casts are semantically safe -/
def castOpsSafeSem (a b : CE) : Bool :=
  a.ty.eqv b.ty ||
  ((VT.c11Cast a.ty b.ty).1.group == 1 && (VT.c11Cast a.ty b.ty).2.group == 1 &&
   CastSafeSem (VT.c11Cast a.ty b.ty).1 a && CastSafeSem (VT.c11Cast a.ty b.ty).2 b)

def arithSafeSem (a b : CE) : Bool :=
  promoSafe a && promoSafe b && castOpsSafeSem (promotionCast Cfg.fixed a) (promotionCast Cfg.fixed b)

def wideSafeSem (a b : CE) : Bool :=
  decide (32 ≤ a.ty.width) && decide (32 ≤ b.ty.width) && castOpsSafeSem a b

def binSafeSem (op : String) (ca cb : CE) : Bool :=
  match ca.kind, cb.kind with
  | .lit va, .lit vb =>
      if op == "+" || op == "-" || op == "*" then
        let t := (VT.c11Cast ca.ty cb.ty).1
        inRangeVT t va && inRangeVT t vb &&
          inRangeVT t (if op == "+" then va + vb else if op == "-" then va - vb else va * vb)
      else arithSafeSem ca cb
  | _, _ => arithSafeSem ca cb

def cmpSafeSem (ca cb : CE) : Bool :=
  match ca.kind, cb.kind with
  | .lit va, .lit vb =>
      let t := (VT.c11Cast ca.ty cb.ty).1
      inRangeVT t va && inRangeVT t vb
  | _, _ => wideSafeSem ca cb

def logSafeSem (a b : CExpr) (ca cb : CE) : Bool :=
  condSafe a ca && condSafe b cb &&
  (if isNotLog a || isNotLog b then ca.ty.eqv cb.ty && (normTy a ca).ty.eqv (normTy b cb).ty
   else castOpsSafeSem ca cb)

def ternSafeSem (c : CExpr) (cc ca cb : CE) : Bool :=
  match cc.kind with
  | .lit v => liveKeepsTy (v != 0) ca cb
  | .boolLit r => liveKeepsTy r ca cb
  | _ => condSafe c cc && wideSafeSem ca cb

/-! ### macros that read only the low bits of their first argument

  `extract64(v, start, len)` / `sextract64(v, start, len)` (QEMU's `fZXTN`/`fSXTN`: `((N) != 0) ? sextract64(VAL, 0, N) : 0LL`)
  read the bits `start … start+len-1` of `v`.  The parameter is a `uint64_t`; a narrower SIGNED argument (`RsV`,
  `(int16_t)…`) is zero-extended by the code (`CAST(64, IL_FALSE, x)`, `castFillNeedsBothSigned`) where C sign-extends
  it — two values that differ only above the width of the argument.  With the flag `lb` ("low bits") the carve-out
  accepts such an argument when `start`, `len` are constants and `start + len ≤ width(argument)`; the theorems then
  assume `Sem.MsLow ms` (Lemmas/SemLow.lean) of the otherwise uninterpreted macro interpretation: the two macros do
  not depend on the bits of `v` from `start + len` upwards.  Without the flag (`lb = false`, the default: every
  predicate below written without it) nothing changes and no assumption is made. -/

/-- the macros the assumption `Sem.MsLow` is about -/
def lowMacros : List String := ["extract64", "sextract64"]

/-- the macro argument `a`, compiled by the repaired lowering and converted to the parameter type `p`, is an integer
    constant: its run-time value -/
def constArg (asg : List String) (a : CExpr) (p : CT) : Option Nat :=
  match compileExpr ⟨asg, Cfg.fixed⟩ a with
  | .ok ca =>
      (match (if ca.ty.eqv p.toVT then ca else initACast Cfg.fixed p.toVT ca).il with
       | .const _ w v => some (BitVec.ofInt w v).toNat
       | _ => none)
  | .error _ => none

/-- `name(v, start, len)` is a call of a low-bits macro with a 64-bit first parameter and constant `start`, `len`:
    the number of low bits of `v` that matter -/
def lowBitsOf (asg : List String) (name : String) (args : List CExpr) (params : List CT) : Option Nat :=
  match args, params with
  | [_, s, l], [p, ps, pl] =>
      if lowMacros.contains name && p.width == 64 then
        (match constArg asg s ps, constArg asg l pl with
         | some st, some ln => some (st + ln)
         | _, _ => none)
      else none
  | _, _ => none

/-- the conversion of the compiled argument `ca` to a wider parameter may differ between the lowerings above the
    width of `ca`: harmless when only the low `k ≤ width(ca)` bits are read -/
def lowSafe (low : Option Nat) (ca : CE) : Bool :=
  match low with
  | some k => !ca.ty.hasFlag VT.gBOOL && decide (k ≤ ca.ty.width)
  | none => false

mutual
/-- node-wise SEMANTIC carve-out: `CarveN` with `CastSafe` replaced by `CastSafeSem` at every conversion site; a load
    may also narrow (`t.width ≤ w`).  `lb` (default `false`): also accept the first argument of a low-bits macro call
    with constant `start`/`len` when only bits below its width are read (see above). -/
def CarveNSem (asg : List String) (e : CExpr) (lb : Bool := false) : Bool :=
  match e with
  | .reg n k t => regSafe asg n k t
  | .imm _ _ => true
  | .lit v h sfx => litTypeCode sfx == litTypeC v h sfx
  | .var _ _ => true
  | .cast t e => CarveNSem asg e lb && !isNotLog e && onA asg e (fun ce => CastSafeSem t.toVT ce)
  | .un op e => CarveNSem asg e lb && !isNotLog e && onA asg e (fun ce => unSafe op ce)
  | .not e => CarveNSem asg e lb && onA asg e (fun ce => condSafe e ce)
  | .bin op a b => CarveNSem asg a lb && CarveNSem asg b lb && !isNotLog a && !isNotLog b &&
      onA asg a (fun ca => onA asg b (fun cb => binSafeSem op ca cb))
  | .shift _ a b => CarveNSem asg a lb && CarveNSem asg b lb && !isNotLog a &&
      onA asg a (fun ca => decide (32 ≤ ca.ty.width))
  | .cmp _ a b => CarveNSem asg a lb && CarveNSem asg b lb && !isNotLog a && !isNotLog b &&
      onA asg a (fun ca => onA asg b (fun cb => cmpSafeSem ca cb))
  | .log _ a b => CarveNSem asg a lb && CarveNSem asg b lb &&
      onA asg a (fun ca => onA asg b (fun cb => logSafeSem a b ca cb))
  | .tern c a b => CarveNSem asg c lb && CarveNSem asg a lb && CarveNSem asg b lb && !isNotLog a && !isNotLog b &&
      onA asg c (fun cc => onA asg a (fun ca => onA asg b (fun cb => ternSafeSem c cc ca cb)))
  | .macro name args _ params => CarveNsSem asg args params lb (if lb then lowBitsOf asg name args params else none)
  | .load s w t => !s || t.signed || decide (t.width ≤ w)
  | .post _ _ _ => false
  | .call _ _ _ _ => false
  | .stmtexpr _ _ _ => false
  | .seqexpr _ _ _ _ _ => false
  | .callx _ _ _ _ _ => false
  | .xmacro _ _ _ => false
/-- macro arguments; `low = some k`: of the FIRST argument only the low `k` bits are read -/
def CarveNsSem (asg : List String) (args : List CExpr) (params : List CT) (lb : Bool := false) (low : Option Nat := none) : Bool :=
  match args, params with
  | [], _ => true
  | _ :: _, [] => true
  | a :: as, p :: ps => CarveNSem asg a lb && !isNotLog a && onA asg a (fun ca => CastSafeSem p.toVT ca || lowSafe low ca) &&
      CarveNsSem asg as ps lb none
end

/-- semantic carve-out for an expression used as a VALUE -/
def CarveESem (asg : List String) (e : CExpr) (lb : Bool := false) : Bool := CarveNSem asg e lb && !isNotLog e

/-- semantic carve-out for an expression in CONDITION position (`if`, `for`): only its truth value is used.  Node-wise
    carve-out as for a value; at the top a `!`/`&&`/`||` is accepted — the code types such a node like its operand
    instead of as a 0/1 `int` (`boolOpTypedAsOperand`), but it IS a `BooleanOp` object whose IL boolean both lowerings
    take as it is (`condILk`, `PKind.boolObj`; the repaired lowering by the BOOL flag it gives the node).  Any other
    condition is wrapped in `NON_ZERO` by the code iff by the repaired lowering (`condOK`).
    (The first operand of `?:` is treated the same way inside `CarveNSem`: `CarveNSem c` and `condSafe`.) -/
def CarveCSem (env : CEnv) (c : CExpr) (lb : Bool := false) : Bool :=
  CarveNSem env.assigned c lb &&
  (isNotLog c || (match compileExpr (fixedEnv env) c with | .ok cc => condOK cc | .error _ => true))

/-- the TARGET of an assignment: value-carved like every expression, or — for a plain `=` — a register on whose type
    the two lowerings agree (`regSafe` without its "read and assigned" clause).  The target of `=` is only written
    (`destWrite` goes by the syntax of the target); the compiled READ of it, which is where the code deviates for an
    explicit/alias register assigned somewhere (`assignedRegsReadNew`: `P0 = …;`, `HEX_REG_ALIAS_SA1 = …;`), contributes
    nothing but its type.  Compound operators (`P0 |= x`) do read the target and keep the full condition. -/
def lhsCarveSem (asg : List String) (op : String) (lhs : CExpr) : Bool :=
  CarveESem asg lhs || (op == "=" && (match lhs with | .reg n k t => regSafe [] n k t | _ => false))

/-- `assignCarve` with the semantic conversion test -/
def assignCarveSem (op : String) (cd ce : CE) : Bool :=
  if op == "=" then castOKSem cd.ty ce
  else if op == "<<=" || op == ">>=" then decide (cd.ty.width ≥ 32) && castOKSem (VT.promoted ce.ty) ce
  else if op == "&=" || op == "|=" || op == "^=" then castOKSem cd.ty ce
  else decide (cd.ty.width ≥ 32) && castOKSem cd.ty ce

mutual
/-- SEMANTIC carve-out of statements (`env.assigned`: operand variables assigned anywhere in the behaviour): `CarveS`
    with `CarveE` replaced by `CarveESem` and `castOK` by `castOKSem`; stored data may be signed when the store
    narrows or keeps the width; a chained assignment keeps the syntactic carve-out; the condition of `if`/`for` is in
    the condition-position carve-out `CarveCSem` (a top-level `!`/`&&`/`||` is accepted there); the target of a plain
    `=` may be an explicit/alias register that is assigned (`lhsCarveSem`).  `lb` (default `false`): the low-bits
    macro arguments of `CarveNSem`. -/
def CarveSSem (env : CEnv) (s : CStmt) (lb : Bool := false) : Bool :=
  match s with
  | .decl _ _ none => true
  | .decl t _ (some e) =>
      CarveESem env.assigned e lb && (match compileExpr (fixedEnv env) e with
        | .ok ce => castOKSem t.toVT ce
        | .error _ => true)
  | .assign lhs op e =>
      assignOps.contains op && lhsCarveSem env.assigned op lhs && CarveESem env.assigned e lb &&
      (match compileExpr (fixedEnv env) lhs, compileExpr (fixedEnv env) e with
       | .ok cd, .ok ce => assignCarveSem op cd ce
       | _, _ => true)
  | .chain lhs1 lhs2 op2 e => CarveS (CarveE env.assigned) env (.chain lhs1 lhs2 op2 e)
  | .store w e =>
      CarveESem env.assigned e lb && (match compileExpr (fixedEnv env) e with
        | .ok ce => if ce.ty.hasFlag VT.gBOOL then
                      !(VT.eqv { signed := false, width := w, group := 1 } ce.ty) && castOK { signed := false, width := w, group := 1 } ce
                    else (!ce.ty.signed || decide (w ≤ ce.ty.width))
        | .error _ => true)
  | .ite c t e =>
      CarveCSem env c lb && CarveSsSem env t lb && (match e with | some e => CarveSsSem env e lb | none => true)
  | .for_ _ c step b => step == 0 && CarveCSem env c lb && CarveSsSem env b lb
  | .jump e =>
      CarveESem env.assigned e lb && (match compileExpr (fixedEnv env) e with
        | .ok ce => ce.ty.width == 32 || castOKSem { signed := false, width := 32, group := 1 } ce
        | .error _ => true)
  | .skip _ => true
  | .exprstmt e => CarveESem env.assigned e lb
  | .ret _ => true
  | .vcall _ _ _ _ => true
def CarveSsSem (env : CEnv) (ss : List CStmt) (lb : Bool := false) : Bool :=
  match ss with
  | [] => true
  | s :: ss => CarveSSem env s lb && CarveSsSem env ss lb
end

/-- the semantic carve-out of a whole behaviour -/
def CarveProgSem (prog : List CStmt) (lb : Bool := false) : Bool :=
  CarveSsSem { assigned := assignedOfList prog, cfg := Cfg.fixed } prog lb

/-- Per-behaviour certificate with the SEMANTIC carve-out (`certified` of Model/Certificate.lean with `CarveSs`
    replaced by `CarveSsSem`).  The side condition under which the hybrid lowering model `compileProgH` coincides with
    the pure model on hybrid-free programs (`HSameProg Cfg.asCode`) is checked directly. -/
def certifiedSem (prog : List CStmt) : Bool :=
  let c := ctxOf prog
  c.ok && WFStmts c prog && (exprsOfList prog).all (WFES c) &&
  CarveProgSem prog && HybFreeSs prog && HSameProg Cfg.asCode prog

/-- The certificate with the low-bits macro arguments accepted (`lb = true`): `Sem.certifiedSemX_correct` proves the
    end-to-end statement for it under the ADDITIONAL assumption `Sem.MsLow ms` on the macro interpretation
    (`extract64`/`sextract64` do not depend on the bits of their first argument from `start + len` upwards).
    `certifiedSem prog → certifiedSemX prog` (`Sem.certifiedSemX_of_certifiedSem`). -/
def certifiedSemX (prog : List CStmt) : Bool :=
  let c := ctxOf prog
  c.ok && WFStmts c prog && (exprsOfList prog).all (WFES c) &&
  CarveProgSem prog true && HybFreeSs prog && HSameProg Cfg.asCode prog

/-! ### bare immediate statements in front of an assignment to the same immediate

  Every direct jump / call starts with `riV; riV = riV & ~3;` (the expansion of `fIMMEXT(riV); riV = riV & ~PCALIGN_MASK`).
  The bare statement `riV;` has no effect in C and none in the lowering: it only registers the immediate, which the
  visit of the assignment target would do at the same moment (`regLhsH`).  `dropBare` removes such statements; the
  certificate of a behaviour is the certificate of what is left (`Props/T2Sem.lean: certifiedSemB_correct` proves that
  the lowering of both programs is the same effect and that the C semantics are the same). -/

/-- `s` is a bare read of an immediate and `next` assigns to that immediate -/
def bareBefore (s next : CStmt) : Bool :=
  match s, next with
  | .exprstmt (.imm l sg), .assign (.imm l' sg') _ _ => l == l' && sg == sg'
  | _, _ => false

/-- `s` is a bare read of an immediate and the first statement of `rest` assigns to that immediate -/
def bareHead (s : CStmt) (rest : List CStmt) : Bool :=
  match rest with
  | n :: _ => bareBefore s n
  | [] => false

mutual
def dropBareS : CStmt → CStmt
  | .ite c t e => .ite c (dropBare t) (match e with | some e => some (dropBare e) | none => none)
  | .for_ v c k b => .for_ v c k (dropBare b)
  | s => s
def dropBare : List CStmt → List CStmt
  | [] => []
  | s :: rest =>
      if bareHead s rest then dropBare rest
      else dropBareS s :: dropBare rest
end

/-- the semantic certificate modulo bare immediate statements in front of an assignment to the same immediate -/
def certifiedSemB (prog : List CStmt) : Bool := certifiedSem (dropBare prog)

mutual
/-- contains a bare value statement `e;` somewhere (top level, `if`/`else` arms, loop bodies) -/
def hasBareS : CStmt → Bool
  | .exprstmt _ => true
  | .ite _ t e => hasBare t || (match e with | some e => hasBare e | none => false)
  | .for_ _ _ _ b => hasBare b
  | _ => false
def hasBare : List CStmt → Bool
  | [] => false
  | s :: ss => hasBareS s || hasBare ss
end

/-- The semantic certificate for behaviours with bare PURE value statements (`siV; EA = RsV + siV; …`, the "touch the
    operand" statements most shipped behaviours start with): the conjuncts of `certifiedSem`, whose ingredients accept
    such a statement anywhere (top level, arms, loop bodies) under these conditions —
    `HybFreeS (.exprstmt e) = HybFree e` (no side effect inside the value), `WFStmt c (.exprstmt e) = true` with `e`
    among `exprsOf` (so `WFES c e`: the value is statically well-formed), `CarveSSem env (.exprstmt e) =
    CarveESem env.assigned e` (both lowerings compile the value alike), `HSameS env (.exprstmt e) = HSame env e`.
    The value may still be undefined in C for some state (an out-of-range shift): then the C behaviour is undefined
    there, which the hypothesis `ExecCs … σC'` of `Sem.certifiedSemP_correct` excludes — nothing is ignored.
    (`certifiedSem` is the same function: it was false for every behaviour with an expression statement before.) -/
def certifiedSemP (prog : List CStmt) : Bool :=
  let c := ctxOf prog
  c.ok && WFStmts c prog && (exprsOfList prog).all (WFES c) &&
  CarveProgSem prog && HybFreeSs prog && HSameProg Cfg.asCode prog

theorem certifiedSemP_eq (prog : List CStmt) : certifiedSemP prog = certifiedSem prog := rfl

/-- which conjuncts of `certifiedSem` (= `certifiedSemP`) hold (diagnostics for the evidence): ctx ok, WFStmts, WFES,
    CarveProgSem, HybFreeSs, HSameProg; a seventh digit: CarveProgSem with the low-bits flag (the conjunct `certifiedSemX`
    has in its place).  A bare pure value statement `e;` counts under WFES (`e` is among `exprsOf`),
    CarveProgSem (`CarveESem e`), HybFreeSs (`HybFree e`), HSameProg (`HSame e`). -/
def certifiedSemDetail (prog : List CStmt) : String :=
  let c := ctxOf prog
  let b := fun (x : Bool) => if x then "1" else "0"
  b c.ok ++ b (WFStmts c prog) ++ b ((exprsOfList prog).all (WFES c)) ++ b (CarveProgSem prog) ++ b (HybFreeSs prog) ++
    b (HSameProg Cfg.asCode prog) ++ b (CarveProgSem prog true)

/-- the diagnostics the driver reports: of the behaviour itself when its certificate holds, else of the behaviour
    without the bare immediate reads in front of an assignment to the same immediate (`certifiedSemB`) -/
def certDetail (prog : List CStmt) : String :=
  if certifiedSem prog || certifiedSemX prog then certifiedSemDetail prog else certifiedSemDetail (dropBare prog)

end Rzil
