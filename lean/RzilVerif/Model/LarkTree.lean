import RzilVerif.Model.Sexp
/-
  The Lark tree exactly as the transformer receives it: rule nodes, tokens (type + text), `None`.
-/
namespace Rzil

inductive LTree where
  | node (rule : String) (children : List LTree)
  | tok (type : String) (text : String)
  | none
deriving Repr, Inhabited

mutual
def LTree.ofSexp : Sexp → LTree
  | .list (.atom "n" :: .str rule :: cs) => .node rule (LTree.ofSexps cs)
  | .list [.atom "t", .str ty, .str txt] => .tok ty txt
  | _ => .none
def LTree.ofSexps : List Sexp → List LTree
  | [] => []
  | x :: xs => LTree.ofSexp x :: LTree.ofSexps xs
end

mutual
/-- Does the tree contain a node of rule `r`? -/
def LTree.hasRule (r : String) : LTree → Bool
  | .node rule cs => rule == r || hasRuleList r cs
  | _ => false
def hasRuleList (r : String) : List LTree → Bool
  | [] => false
  | c :: cs => c.hasRule r || hasRuleList r cs
end

def LTree.tokText? : LTree → Option String
  | .tok _ t => some t
  | _ => Option.none

end Rzil
