/-
  S-expressions for the line protocol between the Python harness and the Lean driver.
  Atoms are bare words or "quoted strings" (with \" \\ \n \t escapes).
-/
namespace Rzil

inductive Sexp where
  | atom (s : String)
  | str  (s : String)          -- a quoted string (kept apart from bare atoms)
  | list (xs : List Sexp)
deriving Repr, Inhabited, BEq

namespace Sexp

def escape (s : String) : String :=
  s.foldl (fun acc c =>
    match c with
    | '"'  => acc ++ "\\\""
    | '\\' => acc ++ "\\\\"
    | '\n' => acc ++ "\\n"
    | '\t' => acc ++ "\\t"
    | '\r' => acc ++ "\\r"
    | c    => acc.push c) ""

partial def toString : Sexp → String
  | atom s => s
  | str s  => "\"" ++ escape s ++ "\""
  | list xs => "(" ++ " ".intercalate (xs.map toString) ++ ")"

instance : ToString Sexp := ⟨toString⟩

private def isDelim (c : Char) : Bool := c == '(' || c == ')' || c == '"' || c.isWhitespace

/-- Parser over a character list. Returns the parsed value and the rest. -/
partial def parseOne : List Char → Option (Sexp × List Char)
  | [] => none
  | c :: cs =>
    if c.isWhitespace then parseOne cs
    else if c == '(' then
      let rec items (acc : List Sexp) : List Char → Option (List Sexp × List Char)
        | [] => none
        | d :: ds =>
          if d.isWhitespace then items acc ds
          else if d == ')' then some (acc.reverse, ds)
          else match parseOne (d :: ds) with
            | some (x, rest) => items (x :: acc) rest
            | none => none
      match items [] cs with
      | some (xs, rest) => some (list xs, rest)
      | none => none
    else if c == ')' then none
    else if c == '"' then
      let rec strLoop (acc : String) : List Char → Option (String × List Char)
        | [] => none
        | '"' :: ds => some (acc, ds)
        | '\\' :: 'n' :: ds => strLoop (acc.push '\n') ds
        | '\\' :: 't' :: ds => strLoop (acc.push '\t') ds
        | '\\' :: 'r' :: ds => strLoop (acc.push '\r') ds
        | '\\' :: d :: ds => strLoop (acc.push d) ds
        | d :: ds => strLoop (acc.push d) ds
      match strLoop "" cs with
      | some (s, rest) => some (str s, rest)
      | none => none
    else
      let rec atomLoop (acc : String) : List Char → (String × List Char)
        | [] => (acc, [])
        | d :: ds => if isDelim d then (acc, d :: ds) else atomLoop (acc.push d) ds
      let (s, rest) := atomLoop (String.singleton c) cs
      some (atom s, rest)

def parse (s : String) : Option Sexp :=
  match parseOne s.toList with
  | some (x, rest) => if rest.all Char.isWhitespace then some x else none
  | none => none

def asAtom? : Sexp → Option String
  | atom s => some s
  | str s => some s
  | _ => none

def asNat? (x : Sexp) : Option Nat := x.asAtom?.bind String.toNat?
def asInt? (x : Sexp) : Option Int := x.asAtom?.bind String.toInt?
def asBool? : Sexp → Option Bool
  | atom "1" => some true | atom "0" => some false
  | atom "true" => some true | atom "false" => some false
  | atom "True" => some true | atom "False" => some false
  | _ => none
def asList? : Sexp → Option (List Sexp)
  | list xs => some xs
  | _ => none

def ofBool (b : Bool) : Sexp := atom (if b then "1" else "0")
def ofNat (n : Nat) : Sexp := atom (Nat.repr n)

end Sexp
end Rzil
