import RzilVerif.Model.DriverText
import RzilVerif.Model.Heap
/-
  Driver request that runs the heap model (Model/Heap.lean, C12) on a REAL emitted text:

    (heap "<emitted text>")
      ↦ (heap (parsed 1) (nodes N) (distinct b) (no-double-free b) (no-leak b) (linear-problems K)
              (double (name …)) (leaked (name …)))
      ↦ (heap (parsed 0))                                  when the text does not parse

  The text is read by `parseBody` (the parser of the `text` / `def-sub` requests): either a header-less instruction
  body (declarations + `return`) or a whole sub-routine definition `RZ_OWN RzILOpEffect *f(params) { … }`.
  Only `Body.items` is run; parameters own no node in the model.

  `nodes`           : number of nodes allocated by `run items` (= number of IL declarations);
  `distinct`        : `ilNamesDistinct items` (hypothesis of `linear_no_double_free_no_leak`, Props/C12.lean);
  `no-double-free`  : `decide (NoDoubleFree (run items))`;
  `no-leak`         : `decide (NoLeak (run items))`;
  `linear-problems` : `(linearProblems body).length` (the counting checker the `text` request reports as `c12`);
  `double`          : variable names of the nodes consumed more than once (allocation order, at most 5);
  `leaked`          : variable names of the nodes never consumed (allocation order, at most 5).
-/
namespace Rzil
open Sexp

/-- The fields of the `heap` answer, computed from a parsed body. -/
structure HeapReport where
  nodes : Nat
  distinct : Bool
  noDoubleFree : Bool
  noLeak : Bool
  linearProblems : Nat
  double : List String
  leaked : List String
deriving Repr, DecidableEq

def heapReport (b : Body) : HeapReport :=
  let st := run b.items
  { nodes := st.nodes.length,
    distinct := decide (ilNamesDistinct b.items),
    noDoubleFree := decide (NoDoubleFree st),
    noLeak := decide (NoLeak st),
    linearProblems := (linearProblems b).length,
    double := ((st.nodes.filter (fun n => decide (1 < st.consumptions n))).map HNode.var).take 5,
    leaked := ((st.nodes.filter (fun n => decide (st.consumptions n = 0))).map HNode.var).take 5 }

def HeapReport.toSexp (r : HeapReport) : Sexp :=
  .list [.atom "heap",
    .list [.atom "parsed", ofBool true],
    .list [.atom "nodes", ofNat r.nodes],
    .list [.atom "distinct", ofBool r.distinct],
    .list [.atom "no-double-free", ofBool r.noDoubleFree],
    .list [.atom "no-leak", ofBool r.noLeak],
    .list [.atom "linear-problems", ofNat r.linearProblems],
    .list (.atom "double" :: r.double.map .str),
    .list (.atom "leaked" :: r.leaked.map .str)]

def handleHeap : List Sexp → Option Sexp
  | [.atom "heap", .str text] =>
    match parseBody text with
    | none => some (.list [.atom "heap", .list [.atom "parsed", ofBool false]])
    | some b => some (heapReport b).toSexp
  | _ => none

end Rzil
