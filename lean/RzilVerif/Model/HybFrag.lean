import RzilVerif.Model.HybWF
import RzilVerif.Model.StmtWF
/-
  The fragment of the C06 simulation theorem: expressions whose only hybrids are postfix operations on locals,
  under arithmetic / conversion / comparison operators (no `&&`, `||`, `?:`, macro, call, statement-expression),
  and the translation `unhyb` that replaces the k-th postfix operation by a read of its temporary.
-/
namespace Rzil

/-- postfix hybrids only, and only where C evaluates every operand exactly once, left to right -/
def postOnly : CExpr → Bool
  | .reg _ _ _ => true
  | .imm _ _ => true
  | .lit _ _ _ => true
  | .var _ _ => true
  | .load _ _ _ => true
  | .cast _ e => postOnly e
  | .un _ e => postOnly e
  | .not e => postOnly e
  | .bin _ a b => postOnly a && postOnly b
  | .shift _ a b => postOnly a && postOnly b
  | .cmp _ a b => postOnly a && postOnly b
  | .post _ _ _ => true
  | _ => false

/-- the postfix operations of an expression in evaluation order: (variable, type, operator) -/
def postsOf : CExpr → List (String × CT × String)
  | .cast _ e => postsOf e
  | .un _ e => postsOf e
  | .not e => postsOf e
  | .bin _ a b => postsOf a ++ postsOf b
  | .shift _ a b => postsOf a ++ postsOf b
  | .cmp _ a b => postsOf a ++ postsOf b
  | .post v t op => [(v, t, op)]
  | _ => []

/-- the pending entries `compileExprH` creates for them, numbered from `k` -/
def postPendsFrom (k : Nat) : List (String × CT × String) → List Pend
  | [] => []
  | (v, t, op) :: ps => postPend k v t op :: postPendsFrom (k + 1) ps

/-- replace the postfix operations by reads of their temporaries (numbered from `k` in evaluation order) -/
def unhyb (k : Nat) : CExpr → CExpr
  | .cast t e => .cast t (unhyb k e)
  | .un op e => .un op (unhyb k e)
  | .not e => .not (unhyb k e)
  | .bin op a b => .bin op (unhyb k a) (unhyb (k + (postsOf a).length) b)
  | .shift op a b => .shift op (unhyb k a) (unhyb (k + (postsOf a).length) b)
  | .cmp op a b => .cmp op (unhyb k a) (unhyb (k + (postsOf a).length) b)
  | .post _ t _ => .var (tmpName k) t
  | e => e

/-- side condition: the variables of the postfix operations are pairwise distinct, are not temporaries and
    are not otherwise read in the expression; no temporary is read -/
def postsIndep (e : CExpr) : Bool :=
  let vs := (postsOf e).map (·.1)
  decide vs.Nodup && vs.all (fun v => !isHTmp v && !(readVars e).contains v) &&
    (readVars e).all (fun n => !isHTmp n)

/-- side condition: every postfix variable is declared, with the width its node carries -/
def postsTyped (c : Ctx) (e : CExpr) : Bool :=
  (postsOf e).all (fun p => match lookupS p.1 c.types with
    | some t' => t'.width == p.2.1.width
    | none => false)

/-- the declared types of the temporaries of the postfix operations, numbered from `k` -/
def tmpTypes (k : Nat) : List (String × CT × String) → List (String × CT)
  | [] => []
  | (_, t, _) :: ps => (tmpName k, t) :: tmpTypes (k + 1) ps

/-- the static context extended by the temporaries (for the static well-formedness check `WFES` of `unhyb k e`) -/
def ctxWithTmps (c : Ctx) (k : Nat) (posts : List (String × CT × String)) : Ctx :=
  { c with types := c.types ++ tmpTypes k posts }

end Rzil
