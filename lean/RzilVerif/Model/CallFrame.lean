import RzilVerif.Model.ILSem
/-
  Syntactic write footprint of an IL effect (C08, isolation clause): which locals, registers and whether
  memory an effect can change, following calls through the sub-routine environment.
  Fuel is consumed exactly as `execIL`/`execSeq` consume it, so that `writes subs fuel e` covers every write
  of `execIL ms subs fuel e`; it is monotone in the fuel (`Lemmas/CallFrame.lean`).
-/
namespace Rzil

/-- A resource an effect can change. -/
inductive Res where
  | loc (n : String)       -- a local (SETL target): variables, `h_tmpN`, `ret_val`, `$slot_cancelled`, …
  | reg (opvar : String)   -- a register operand (WRITE_REG target): `.new` value and written flag
  | mem                    -- memory and the store log (STOREW)
deriving Repr, DecidableEq, Inhabited

/-- what the specification-level `hex_set_usr_field(args)` can change: the abstract cell of its field -/
def usrWrites (args : List ILPure) : List Res :=
  match args.map extName with
  | [_, some n, _] => [.reg (usrCell n)]
  | _ => []

mutual
/-- Everything `execIL ms subs fuel e` can change (over-approximation: both arms of a BRANCH, loop bodies,
    the bodies of called sub-routines). -/
def writes (subs : SubEnv) : Nat → ILEffect → List Res
  | 0, _ => []
  | fuel+1, e =>
    match e with
    | .setl n _ => [.loc n]
    | .writeReg _ r _ => [.reg r.opvar]
    | .storew _ _ => [.mem]
    | .seqn es => writesSeq subs fuel es
    | .branch _ t e => writes subs fuel t ++ writes subs fuel e
    | .repeat_ _ body => writes subs fuel body
    | .empty => []
    | .nop => []
    | .call f args =>
        if f.startsWith "hex_" then
          match lookupS (f.drop 4).toString subs with
          | some (_, body) => writes subs fuel body
          | none => if f == "hex_set_usr_field" then usrWrites args
                    else if f == "hex_get_usr_field" then [.loc "ret_val"] else []
        else if f == "HEX_STORE_SLOT_CANCELLED" then [.loc "$slot_cancelled"]
        else if f == "HEX_GET_NPC" then [.loc "ret_val"]
        else []
def writesSeq (subs : SubEnv) : Nat → List ILEffect → List Res
  | 0, _ => []
  | _+1, [] => []
  | fuel+1, e :: es => writes subs fuel e ++ writesSeq subs fuel es
end

/-- Locals an effect can set (targets of SETL, transitively through calls; `ret_val`/`$slot_cancelled` of the
    built-in calls). -/
def writtenLocals (subs : SubEnv) (fuel : Nat) (e : ILEffect) : List String :=
  (writes subs fuel e).filterMap (fun r => match r with | .loc n => some n | _ => none)

/-- Register operands an effect can write. -/
def writtenRegs (subs : SubEnv) (fuel : Nat) (e : ILEffect) : List String :=
  (writes subs fuel e).filterMap (fun r => match r with | .reg k => some k | _ => none)

/-- Whether an effect can store to memory. -/
def storesMem (subs : SubEnv) (fuel : Nat) (e : ILEffect) : Bool :=
  (writes subs fuel e).contains .mem

/-- The callee of `hex_<name>` writes none of the locals in `L` (decidable side condition of
    `call_preserves_disjoint_locals`). -/
def calleeDisjoint (subs : SubEnv) (fuel : Nat) (name : String) (L : List String) : Bool :=
  match lookupS name subs with
  | some (_, body) => L.all (fun n => !(writtenLocals subs fuel body).contains n)
  -- no compiled body: the specification-level routines; `get_usr_field` sets `ret_val`, `set_usr_field` no local
  | none => !(name == "get_usr_field" && L.contains "ret_val")

end Rzil
