import RzilVerif.Model.CompileH
import RzilVerif.Model.Certificate
import RzilVerif.Model.CarveSem
import RzilVerif.Model.CSemH
import RzilVerif.Model.DriverText
/-
  Driver request `(sem …)`: tie of the lowering model to the real output (tree equality) and the
  failing-input search (execute the C program and the REAL emitted effect on sampled states).
-/
namespace Rzil
open Sexp

/-! ### QEMU helper functions shared by both sides (interpreted, so that conversions around them matter) -/

def mask (n : Nat) : Nat := 2 ^ n - 1

def macroSem : MacroSem := fun name vs =>
  let nat := fun (v : Val) => match v with | .bv _ x => x.toNat | _ => 0
  match name.toLower, vs with
  | "extract64", [v, s, l] => some (.bv 64 (BitVec.ofNat 64 ((nat v >>> (nat s % 64)) &&& mask (nat l % 65))))
  | "sextract64", [v, s, l] =>
      let len := nat l % 65
      let raw := (nat v >>> (nat s % 64)) &&& mask len
      let x : BitVec 64 := BitVec.ofNat 64 raw
      some (.bv 64 (if len == 0 then 0 else (x <<< (64 - len)).sshiftRight (64 - len)))
  | "extract32", [v, s, l] => some (.bv 32 (BitVec.ofNat 32 ((nat v >>> (nat s % 32)) &&& mask (nat l % 33))))
  | "deposit32", [v, s, l, f] =>
      let m := (mask (nat l % 33)) <<< (nat s % 32)
      some (.bv 32 (BitVec.ofNat 32 ((nat v &&& ((mask 32) ^^^ (m &&& mask 32))) ||| ((nat f <<< (nat s % 32)) &&& m))))
  | "deposit64", [v, s, l, f] =>
      let m := (mask (nat l % 65)) <<< (nat s % 64)
      some (.bv 64 (BitVec.ofNat 64 ((nat v &&& ((mask 64) ^^^ (m &&& mask 64))) ||| ((nat f <<< (nat s % 64)) &&& m))))
  | "bswap16", [v] => let x := nat v; some (.bv 16 (BitVec.ofNat 16 (((x &&& 0xff) <<< 8) ||| ((x >>> 8) &&& 0xff))))
  | "bswap32", [v] =>
      let x := nat v
      some (.bv 32 (BitVec.ofNat 32 (((x &&& 0xff) <<< 24) ||| (((x >>> 8) &&& 0xff) <<< 16) ||| (((x >>> 16) &&& 0xff) <<< 8) ||| ((x >>> 24) &&& 0xff))))
  | "bswap64", [v] =>
      let x := nat v
      let b := fun (i : Nat) => (x >>> (8 * i)) &&& 0xff
      some (.bv 64 (BitVec.ofNat 64 ((List.range 8).foldl (fun acc i => acc ||| (b i <<< (8 * (7 - i)))) 0)))
  | _, _ => none

/-- `get_corresponding_CS(pkt, MuV)` (the CS register that belongs to the modifier register of the instruction) is an
    uninterpreted function of its payload-free pass-through arguments (`evalCH .xmacro`, `evalPure .macro`): per
    sampled state a constant, taken from the cell `cs:Mu` of that state so that it varies over the sample. -/
def macroSemFor (σ0 : MState) : MacroSem := fun name vs =>
  match name.toLower, vs with
  | "get_corresponding_cs", [.ext, .ext] => some (.bv 32 (BitVec.ofNat 32 (σ0.cur "cs:Mu")))
  | "hex_get_corresponding_cs", [.ext, .ext] => some (.bv 32 (BitVec.ofNat 32 (σ0.cur "cs:Mu")))
  | _, _ => macroSem name vs

/-! ### sampled machine states -/

def boundary : List Nat :=
  [0, 1, 2, 3, 0x7f, 0x80, 0xff, 0x100, 0x7fff, 0x8000, 0xffff, 0x10000, 0x7fffffff, 0x80000000, 0xffffffff,
   0x100000000, 0x7fffffffffffffff, 0x8000000000000000, 0xffffffffffffffff, 0xfffffffe, 0xffffff80, 0xffff8000, 5, 31, 32, 63, 64]

def mix (a b : Nat) : Nat := ((a * 6364136223846793005 + b + 1442695040888963407) % 18446744073709551616)

def pickVal (h : Nat) : Nat :=
  let h := mix h 17
  if h % 3 == 0 then mix h 99 % 18446744073709551616
  else boundary.getD ((h / 7) % boundary.length) 0

def strNat (s : String) : Nat := s.toList.foldl (fun acc c => mix acc c.toNat) 7

def mkState (seed : Nat) : MState :=
  -- every fifth state gives ALL registers one value (comparisons between operands are decided by equality then)
  { cur := fun k => if seed % 5 == 4 then pickVal (mix 4711 seed) else pickVal (mix (strNat k) (seed * 2 + 1)),
    new := fun k => if seed % 5 == 4 then pickVal (mix 4711 seed) else pickVal (mix (strNat k) (seed * 2 + 2)),
    written := fun _ => false,
    mem := fun a => mix a seed % 256,
    locals := [],
    -- immediates are shift amounts / small offsets in most behaviours: half of the samples are small
    imm := fun l => let h := mix (strNat l) (seed * 3 + 5); if h % 2 == 0 then (h / 2) % 41 else pickVal h,
    pktAddr := pickVal (mix 4242 seed) % 4294967296,
    params := [] }

/-! ### observable state comparison -/

mutual
def regsOfExpr : CExpr → List (String × RegKind)
  | .reg n k _ => [(n, k)]
  | .cast _ e => regsOfExpr e
  | .un _ e => regsOfExpr e
  | .not e => regsOfExpr e
  | .bin _ a b => regsOfExpr a ++ regsOfExpr b
  | .shift _ a b => regsOfExpr a ++ regsOfExpr b
  | .cmp _ a b => regsOfExpr a ++ regsOfExpr b
  | .log _ a b => regsOfExpr a ++ regsOfExpr b
  | .tern c a b => regsOfExpr c ++ regsOfExpr a ++ regsOfExpr b
  | .macro _ args _ _ => regsOfExprs args
  | _ => []
def regsOfExprs : List CExpr → List (String × RegKind)
  | [] => []
  | a :: as => regsOfExpr a ++ regsOfExprs as
end

mutual
def regsOfStmt : CStmt → List (String × RegKind)
  | .decl _ _ (some e) => regsOfExpr e
  | .assign l _ e => regsOfExpr l ++ regsOfExpr e
  | .store _ e => regsOfExpr e
  | .ite c t e => regsOfExpr c ++ regsOfStmts t ++ (match e with | some e => regsOfStmts e | none => [])
  | .for_ _ c _ b => regsOfExpr c ++ regsOfStmts b
  | .chain l1 l2 _ e => regsOfExpr l1 ++ regsOfExpr l2 ++ regsOfExpr e
  | .jump e => regsOfExpr e
  | _ => []
def regsOfStmts : List CStmt → List (String × RegKind)
  | [] => []
  | s :: ss => regsOfStmt s ++ regsOfStmts ss
end

mutual
def varsOfStmt : CStmt → List String
  | .decl _ n _ => [n]
  | .assign (.var n _) _ _ => [n]
  | .ite _ t e => varsOfStmts t ++ (match e with | some e => varsOfStmts e | none => [])
  | .for_ v _ _ b => v :: varsOfStmts b
  | .chain (.var n1 _) (.var n2 _) _ _ => [n1, n2]
  | .chain (.var n1 _) _ _ _ => [n1]
  | .chain _ (.var n2 _) _ _ => [n2]
  | _ => []
def varsOfStmts : List CStmt → List String
  | [] => []
  | s :: ss => varsOfStmt s ++ varsOfStmts ss
end

/-! abstract cells written by `set_usr_field` (specification-level reading, `ILSem.lean`): compared like registers -/
def usrCellOf (name : String) (exts : List String) : List String :=
  match name, exts with
  | "set_usr_field", [_, fld] => [usrCell fld]
  | _, _ => []

mutual
def usrCellsOfExpr : CExpr → List String
  | .cast _ e => usrCellsOfExpr e
  | .un _ e => usrCellsOfExpr e
  | .not e => usrCellsOfExpr e
  | .bin _ a b => usrCellsOfExpr a ++ usrCellsOfExpr b
  | .shift _ a b => usrCellsOfExpr a ++ usrCellsOfExpr b
  | .cmp _ a b => usrCellsOfExpr a ++ usrCellsOfExpr b
  | .log _ a b => usrCellsOfExpr a ++ usrCellsOfExpr b
  | .tern c a b => usrCellsOfExpr c ++ usrCellsOfExpr a ++ usrCellsOfExpr b
  | .macro _ args _ _ => usrCellsOfExprs args
  | .call _ args _ _ => usrCellsOfExprs args
  | .stmtexpr _ _ e => usrCellsOfExpr e
  | .seqexpr name exts args _ val => usrCellOf name exts ++ usrCellsOfExprs args ++ usrCellsOfExpr val
  -- operand slots handed over by reference: the callee may write them
  | .callx _ exts args _ _ => refArgs exts ++ usrCellsOfExprs args
  | _ => []
def usrCellsOfExprs : List CExpr → List String
  | [] => []
  | a :: as => usrCellsOfExpr a ++ usrCellsOfExprs as
end

mutual
def usrCellsOfStmt : CStmt → List String
  | .decl _ _ (some e) => usrCellsOfExpr e
  | .assign _ _ e => usrCellsOfExpr e
  | .store _ e => usrCellsOfExpr e
  | .ite c t e => usrCellsOfExpr c ++ usrCellsOfStmts t ++ (match e with | some e => usrCellsOfStmts e | none => [])
  | .for_ _ c _ b => usrCellsOfExpr c ++ usrCellsOfStmts b
  | .chain _ _ _ e => usrCellsOfExpr e
  | .jump e => usrCellsOfExpr e
  | .exprstmt e => usrCellsOfExpr e
  | .ret e => usrCellsOfExpr e
  | .vcall name exts args _ => usrCellOf name exts ++ usrCellsOfExprs args
  | _ => []
def usrCellsOfStmts : List CStmt → List String
  | [] => []
  | s :: ss => usrCellsOfStmt s ++ usrCellsOfStmts ss
end

def valNat : Val → Nat
  | .bv _ x => x.toNat
  | .bool b => if b then 1 else 0
  | .flt _ x => x.toNat
  | .ext => 0

/-- First observable difference between the C result and the IL result, if any. -/
def obsDiff (prog : List CStmt) (c il : MState) : Option String :=
  let opvars := ((regsOfStmts prog).map (fun (n, k) => opvarOf n k) ++ usrCellsOfStmts prog).eraseDups
  let regDiff := opvars.findSome? (fun ov =>
    if c.written ov != il.written ov then some s!"register {ov}: written C={c.written ov} IL={il.written ov}"
    else if c.written ov && c.new ov != il.new ov then some s!"register {ov}: C={c.new ov} IL={il.new ov}"
    else none)
  let vars := ((varsOfStmts prog) ++ ["jump_flag", "jump_target", "$slot_cancelled"]).eraseDups
  let varDiff := vars.findSome? (fun v =>
    match lookupS v c.locals, lookupS v il.locals with
    | some a, some b => if valNat a != valNat b then some s!"local {v}: C={valNat a} IL={valNat b}" else none
    | some a, none => some s!"local {v}: C={valNat a} IL=unset"
    | none, some b => if v == "jump_flag" || v == "jump_target" || v == "$slot_cancelled" then some s!"local {v}: C=unset IL={valNat b}" else none
    | none, none => none)
  let addrs := (c.stores ++ il.stores).eraseDups
  let memDiff := addrs.findSome? (fun a => (List.range 8).findSome? (fun k =>
    if c.mem (a + k) % 256 != il.mem (a + k) % 256 then some s!"memory[{a + k}]: C={c.mem (a + k) % 256} IL={il.mem (a + k) % 256}" else none))
  regDiff.orElse (fun _ => varDiff.orElse (fun _ => memDiff))

def stuckStr : Stuck → String
  | .sort m => "sort error: " ++ m
  | .unbound n => "unbound " ++ n
  | .fuel => "out of fuel"
  | .undef m => "undefined: " ++ m

/-- sub-routines with a specification-level meaning in `execIL` -/
def specSubs : List String := ["set_usr_field", "get_usr_field"]

def cfgOfString : String → Cfg
  | "fixed" => Cfg.fixed
  | _ => Cfg.asCode

/-- `(sem cfgname (stmt…) "real text" nstates seed)` -/
def csubOfSexp : Sexp → Option (String × CSub)
  | .list [.atom "csub", .str name, .list params, ret, .list body] => do
      let ps ← params.mapM (fun p => match p with
        | .list [.str n, t] => do let t ← ctOfSexp t; pure (n, t)
        | _ => none)
      let ret ← ctOfSexp ret
      let body ← CStmt.ofSexps body
      pure (name, { params := ps, ret := ret, body := body })
  | .list [.atom "csub", .str name, .list params, ret, .list body, .list refs] => do
      let ps ← params.mapM (fun p => match p with
        | .list [.str n, t] => do let t ← ctOfSexp t; pure (n, t)
        | _ => none)
      let ret ← ctOfSexp ret
      let body ← CStmt.ofSexps body
      let refs ← strsOfSexps refs
      pure (name, { params := ps, ret := ret, body := body, refs := refs })
  | _ => none

def handleSem (st : DState) : List Sexp → Option Sexp
  | [.atom "sem", .atom cfgName, .list stmts, .str text, n, seed, .list csubsx] => do
      let csubs ← csubsx.mapM csubOfSexp
      let n ← n.asNat?
      let seed ← seed.asNat?
      let prog ← CStmt.ofSexps stmts
      let modelTree : Except String ILEffect := compileProgH (cfgOfString cfgName) prog
      let modelStr := match modelTree with
        | .ok e => (canonTerm e.toTerm).render
        | .error m => "ERROR " ++ m
      let realTerm : Option Term := if text == "@model" then
          (match modelTree with | .ok e => some e.toTerm | .error _ => none)
        else (parseBody text).bind denoteIL
      match realTerm with
      | none => pure (.list [.atom "sem", .list [.atom "parsed", ofBool false]])
      | some t =>
        let realEff := effectOfTerm t
        let realStr := (canonTerm realEff.toTerm).render
        -- `hex_set_usr_field` / `hex_get_usr_field` are read at the level of their specification (`ILSem.lean`), not
        -- through their compiled bodies (which stay checked per output)
        let ilSubs := st.subBodies.filter (fun p => !specSubs.contains p.1)
        -- search: execute both on sampled states
        let run := (List.range n).foldl (fun (acc : Nat × Nat × Option String) i =>
          let (ran, skipped, fail) := acc
          if fail.isSome then acc else
          let σ := mkState (seed * 1000 + i)
          match execCHs (macroSemFor σ) csubs 400 prog σ with
          | .error _ => (ran, skipped + 1, none)          -- C side undefined / out of fuel: state not judged
          | .ok σc =>
            match execIL (macroSemFor σ) ilSubs 4000 realEff σ with
            | .error .fuel => (ran, skipped + 1, none)
            | .error e => (ran + 1, skipped, some s!"state {seed * 1000 + i}: IL gets stuck ({stuckStr e}) where C is defined")
            | .ok σi =>
              match obsDiff prog σc σi with
              | some d => (ran + 1, skipped, some s!"state {seed * 1000 + i}: {d}")
              | none => (ran + 1, skipped, none)) (0, 0, none)
        pure (.list [.atom "sem", .list [.atom "parsed", ofBool true],
          .list [.atom "tree-equal", ofBool (modelStr == realStr)],
          .list [.atom "model", .str modelStr], .list [.atom "real", .str realStr],
          .list [.atom "certified", ofBool (certified prog)], .list [.atom "certified-sem", ofBool (certifiedSem prog || certifiedSemB prog || certifiedSemP prog)],
          -- the certificate that also accepts the low-bits macro arguments (theorem under the extra assumption `Sem.MsLow`)
          .list [.atom "certified-semx", ofBool (certifiedSemX prog || certifiedSemX (dropBare prog))], .list [.atom "cert-detail", .str (certDetail prog)], .list [.atom "pure-equal", ofBool (pureEqualsH (cfgOfString cfgName) prog)],
          .list [.atom "ran", ofNat run.1], .list [.atom "skipped", ofNat run.2.1],
          .list (.atom "fail" :: (match run.2.2 with | some f => [.str f] | none => []))])
  | _ => none

end Rzil
