import RzilVerif.Model.Compile
/-
  Static side conditions of the statement-lowering theorems (C05), as computable Bool functions
  (run by the driver on generated programs), and the carve-out `CarveS` of T2.
-/
namespace Rzil

/-! ### locals read by an expression -/
mutual
def readVars : CExpr → List String
  | .var n _ => [n]
  | .cast _ e => readVars e
  | .un _ e => readVars e
  | .not e => readVars e
  | .bin _ a b => readVars a ++ readVars b
  | .shift _ a b => readVars a ++ readVars b
  | .cmp _ a b => readVars a ++ readVars b
  | .log _ a b => readVars a ++ readVars b
  | .tern c a b => readVars c ++ (readVars a ++ readVars b)
  | .macro _ args _ _ => readVarsList args
  | .load _ _ _ => ["EA"]
  | _ => []
def readVarsList : List CExpr → List String
  | [] => []
  | a :: as => readVars a ++ readVarsList as
end

/-! ### operand variables read by an expression -/
mutual
def readRegs : CExpr → List String
  | .reg n k _ => [opvarOf n k]
  | .cast _ e => readRegs e
  | .un _ e => readRegs e
  | .not e => readRegs e
  | .bin _ a b => readRegs a ++ readRegs b
  | .shift _ a b => readRegs a ++ readRegs b
  | .cmp _ a b => readRegs a ++ readRegs b
  | .log _ a b => readRegs a ++ readRegs b
  | .tern c a b => readRegs c ++ (readRegs a ++ readRegs b)
  | .macro _ args _ _ => readRegsList args
  | _ => []
def readRegsList : List CExpr → List String
  | [] => []
  | a :: as => readRegs a ++ readRegsList as
end

/-! ### immediate letters read by an expression -/
mutual
def readImms : CExpr → List String
  | .imm l _ => [l]
  | .cast _ e => readImms e
  | .un _ e => readImms e
  | .not e => readImms e
  | .bin _ a b => readImms a ++ readImms b
  | .shift _ a b => readImms a ++ readImms b
  | .cmp _ a b => readImms a ++ readImms b
  | .log _ a b => readImms a ++ readImms b
  | .tern c a b => readImms c ++ (readImms a ++ readImms b)
  | .macro _ args _ _ => readImmsList args
  | _ => []
def readImmsList : List CExpr → List String
  | [] => []
  | a :: as => readImms a ++ readImmsList as
end

/-! ### expressions evaluated by a statement (the target only for compound operators) -/
mutual
def exprsOf : CStmt → List CExpr
  | .decl _ _ (some e) => [e]
  | .decl _ _ none => []
  | .assign lhs op e => if op == "=" then [e] else [lhs, e]
  | .store _ e => [e]
  | .ite c t e => c :: (exprsOfList t ++ (match e with | some e => exprsOfList e | none => []))
  | .for_ _ c _ b => c :: exprsOfList b
  | .chain _ lhs2 op2 e => if op2 == "=" then [e] else [lhs2, e]
  | .jump e => [e]
  | .skip _ => []
  | .exprstmt e => [e]
  | .ret _ => []
  | .vcall _ _ _ _ => []
def exprsOfList : List CStmt → List CExpr
  | [] => []
  | s :: ss => exprsOf s ++ exprsOfList ss
end

/-- Static context of one behaviour: declared types of the locals, the immediate letters set by the
    prologue, and the operand variables that are only read (source registers). -/
structure Ctx where
  types : List (String × CT)
  imms : List String
  srcs : List String
deriving Repr, Inhabited

/-- hybrid temporaries `h_tmpN` (IL-side only locals) -/
def isTmp (n : String) : Bool := n.toList.take 5 == ['h', '_', 't', 'm', 'p']

/-- locals with a fixed meaning on both sides -/
def isSpecial (n : String) : Bool := n == "jump_flag" || n == "jump_target" || n == "$slot_cancelled"

/-- declared locals are neither temporaries, special names nor immediate letters; immediate letters
    are neither temporaries nor special names -/
def Ctx.ok (c : Ctx) : Bool :=
  c.types.all (fun p => !isTmp p.1 && !isSpecial p.1 && !c.imms.contains p.1) &&
  c.imms.all (fun l => !isTmp l && !isSpecial l)

def assignOps : List String := ["=", "+=", "-=", "*=", "&=", "|=", "^=", "<<=", ">>="]

/-- an assignment target: a declared local (same width as declared), a register with the documented
    operand width that is not a source operand (width ≠ 1), or an immediate letter the lowering has registered
    (`riV = riV & ~3`: 32 bit, signedness as the letter declares; the target is the local its `imm_assign` sets) -/
def lhsOK (c : Ctx) : CExpr → Bool
  | .var n t => (match lookupS n c.types with | some t' => t'.width == t.width | none => false) && t.width != 1
  | .reg n k t => regWidthOfOpvar (opvarOf n k) == some t.width && !c.srcs.contains (opvarOf n k) && t.width != 1
  | .imm l _ => c.imms.contains l
  | _ => false

/-- the target `lhs1` is not read by any of the expressions `es` -/
def targetIndep (lhs1 : CExpr) (es : List CExpr) : Bool :=
  match lhs1 with
  | .var n _ => es.all (fun e => !(readVars e).contains n)
  | .reg n k _ => es.all (fun e => !(readRegs e).contains (opvarOf n k))
  | .imm l _ => es.all (fun e => !(readImms e).contains l)
  | _ => false

/-- reading the target after it was assigned yields the assigned value (not so for source operands,
    which read the old value, and the program counter) -/
def rereadable : CExpr → Bool
  | .var _ _ => true
  | .reg _ k _ => k != .src && k != .pc
  | .imm _ _ => true
  | _ => false

mutual
/-- Static well-formedness of a statement w.r.t. the context:
    declarations and assigned locals have their declared type (width ≠ 1: there is no 1-bit C type; a
    1-bit target would make `ValueType.__eq__` confuse it with the IL boolean), assigned registers have
    the documented operand width and are not source operands, the loop variable is 32 bit wide,
    the jump target does not read `jump_flag`, stores are not 1 bit wide.  A bare value statement `e;` writes nothing
    and needs no condition of its own: its value is among `exprsOf` (so the certificates demand `WFES c e`), and
    `compileStmt`/`HybFreeS` reject a value with a side effect. -/
def WFStmt (c : Ctx) : CStmt → Bool
  | .decl t n _ => lookupS n c.types == some t && t.width != 1
  | .assign lhs op _ => assignOps.contains op && lhsOK c lhs
  | .chain lhs1 lhs2 op2 e =>
      assignOps.contains op2 && lhsOK c lhs1 && lhsOK c lhs2 && rereadable lhs2 && targetIndep lhs1 [lhs2, e]
  | .store w _ => w != 1
  | .ite _ t e => WFStmts c t && (match e with | some e => WFStmts c e | none => true)
  | .for_ v _ _ b => (match lookupS v c.types with | some t => t.width == 32 | none => false) && WFStmts c b
  | .jump e => !(readVars e).contains "jump_flag"
  | .skip _ => true
  | .exprstmt _ => true     -- a bare pure value: nothing is written (its expression is in `exprsOf`)
  | .ret _ => false
  | .vcall _ _ _ _ => false
def WFStmts (c : Ctx) : List CStmt → Bool
  | [] => true
  | s :: ss => WFStmt c s && WFStmts c ss
end

/-! ### T2: where the lowering as coded (`Cfg.asCode`) coincides with the repaired one (`Cfg.fixed`) -/

def fixedEnv (env : CEnv) : CEnv := { env with cfg := Cfg.fixed }
def codeEnv (env : CEnv) : CEnv := { env with cfg := Cfg.asCode }

/-- `init_a_cast(tgt, p)` emits the same IL under both configurations: no conversion needed, or a BOOL
    source that is a `BooleanOp`/`CompareOp` object, or not (signed source to unsigned target). -/
def castOK (tgt : VT) (p : CE) : Bool :=
  tgt.eqv p.ty ||
  (if p.ty.hasFlag VT.gBOOL && !(tgt.hasFlag VT.gBOOL) then p.kind == .boolObj
   else (!p.ty.signed || tgt.signed))

/-- a condition operand is wrapped in NON_ZERO the same way under both configurations -/
def condOK (cc : CE) : Bool := (cc.kind == .boolObj) == cc.ty.hasFlag VT.gBOOL

/-- conditions under which `compileAssign` emits the same IL under both configurations, given the
    compiled target `cd` and source `ce` -/
def assignCarve (op : String) (cd ce : CE) : Bool :=
  if op == "=" then castOK cd.ty ce
  else if op == "<<=" || op == ">>=" then decide (cd.ty.width ≥ 32) && castOK (VT.promoted ce.ty) ce
  else if op == "&=" || op == "|=" || op == "^=" then castOK cd.ty ce
  else decide (cd.ty.width ≥ 32) && castOK cd.ty ce

mutual
/-- Carve-out of statements: all expressions are in the expression carve-out `CarveE`, every conversion
    the statement itself applies is `castOK`, conditions are `condOK`, stored data is unsigned (or BOOL),
    and `+= -= *= <<= >>=` only on targets at least 32 bit wide. -/
def CarveS (CarveE : CExpr → Bool) (env : CEnv) : CStmt → Bool
  | .decl _ _ none => true
  | .decl t _ (some e) =>
      CarveE e && (match compileExpr (fixedEnv env) e with
        | .ok ce => castOK t.toVT ce
        | .error _ => true)
  | .assign lhs op e =>
      assignOps.contains op && CarveE lhs && CarveE e &&
      (match compileExpr (fixedEnv env) lhs, compileExpr (fixedEnv env) e with
       | .ok cd, .ok ce => assignCarve op cd ce
       | _, _ => true)
  | .chain lhs1 lhs2 op2 e =>
      assignOps.contains op2 && CarveE lhs1 && CarveE lhs2 && CarveE e &&
      (match compileExpr (fixedEnv env) lhs2, compileExpr (fixedEnv env) e with
       | .ok cd2, .ok ce =>
          assignCarve op2 cd2 ce &&
          (match compileAssign (fixedEnv env) lhs2 op2 ce, compileExpr (fixedEnv env) lhs1 with
           | .ok (_, srcInner), .ok cd1 => assignCarve "=" cd1 srcInner
           | _, _ => true)
       | _, _ => true)
  | .store w e =>
      CarveE e && (match compileExpr (fixedEnv env) e with
        | .ok ce => if ce.ty.hasFlag VT.gBOOL then
                      !(VT.eqv { signed := false, width := w, group := 1 } ce.ty) && castOK { signed := false, width := w, group := 1 } ce
                    else !ce.ty.signed
        | .error _ => true)
  | .ite c t e =>
      CarveE c && (match compileExpr (fixedEnv env) c with | .ok cc => condOK cc | .error _ => true) &&
      CarveSs CarveE env t && (match e with | some e => CarveSs CarveE env e | none => true)
  | .for_ _ c step b =>
      step == 0 && CarveE c && (match compileExpr (fixedEnv env) c with | .ok cc => condOK cc | .error _ => true) &&
      CarveSs CarveE env b
  | .jump e =>
      CarveE e && (match compileExpr (fixedEnv env) e with
        | .ok ce => ce.ty.width == 32 || castOK { signed := false, width := 32, group := 1 } ce
        | .error _ => true)
  | .skip _ => true
  | .exprstmt e => CarveE e
  | .ret _ => true
  | .vcall _ _ _ _ => true
def CarveSs (CarveE : CExpr → Bool) (env : CEnv) : List CStmt → Bool
  | [] => true
  | s :: ss => CarveS CarveE env s && CarveSs CarveE env ss
end

/-! ### the static context of a behaviour, inferred from its text (convenience for the driver) -/

/-- the immediate letters registered by the lowering of `prog` (what the `imm_assign` prologue sets) -/
def progImms (prog : List CStmt) : List String :=
  match compileStmts { assigned := assignedOfList prog, cfg := Cfg.fixed } { imms := [], hyb := 0 } prog with
  | .ok (_, st) => st.imms.map (·.1)
  | .error _ => []

mutual
/-- declared locals with their types (loop variables are the special identifiers typed `ut32`) -/
def declsOf : CStmt → List (String × CT)
  | .decl t n _ => [(n, t)]
  | .ite _ t e => declsOfList t ++ (match e with | some e => declsOfList e | none => [])
  | .for_ v _ _ b => (v, utT) :: declsOfList b
  | _ => []
def declsOfList : List CStmt → List (String × CT)
  | [] => []
  | s :: ss => declsOf s ++ declsOfList ss
end

mutual
/-- operand variables read through a source-kind token (`RsV`, `RssV`) -/
def srcRegs : CExpr → List String
  | .reg n .src _ => [opvarOf n .src]
  | .cast _ e => srcRegs e
  | .un _ e => srcRegs e
  | .not e => srcRegs e
  | .bin _ a b => srcRegs a ++ srcRegs b
  | .shift _ a b => srcRegs a ++ srcRegs b
  | .cmp _ a b => srcRegs a ++ srcRegs b
  | .log _ a b => srcRegs a ++ srcRegs b
  | .tern c a b => srcRegs c ++ (srcRegs a ++ srcRegs b)
  | .macro _ args _ _ => srcRegsList args
  | _ => []
def srcRegsList : List CExpr → List String
  | [] => []
  | a :: as => srcRegs a ++ srcRegsList as
end

/-- a context for `prog`: its declarations (first declaration of a name wins), the immediates the lowering
    registers, the source operands its expressions read -/
def inferCtx (prog : List CStmt) : Ctx :=
  { types := (declsOfList prog).foldl (fun acc p => if acc.any (fun q => q.1 == p.1) then acc else acc ++ [p]) [],
    imms := progImms prog,
    srcs := ((exprsOfList prog).flatMap srcRegs).eraseDups }

end Rzil
