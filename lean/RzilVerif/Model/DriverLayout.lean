import RzilVerif.Model.DriverText
import RzilVerif.Lemmas.LayoutPerm
import RzilVerif.Lemmas.LayoutDup
import RzilVerif.Lemmas.LayoutPermGen
import RzilVerif.Lemmas.LayoutDead
/-
  Driver request that relates the two output layouts of one behaviour (C16):

    (layout-rel "<READ_STATEMENTS text>" "<EXEC_CLASSES text>")
      ↦ (layout-rel (wf <0|1>) (hoist-equal <0|1>) (wf-dup <0|1>) (hoist-equal-dup <0|1>)
                     (perm-equal-dup <0|1>) (perm-equal-dead <0|1>))
      ↦ (layout-rel (error unparsed-rs)) / (layout-rel (error unparsed-ec))   when a text does not parse

  `wf`          : `LayoutWF` (Lemmas/LayoutPerm.lean) of the READ_STATEMENTS items — the hypothesis of
                  `hoist_denote` (Props/C16.lean);
  `hoist-equal` : the inlined declarations (type, name, right-hand side; in order) and the returned term of
                  `hoistPures rsItems` are those of the EXEC_CLASSES items (comments, operand declarations ignored).
  When both are 1, `hoist_denote` gives `denoteIL` equality of the two texts without comparing denotations.
  `wf-dup`          : `LayoutWF` of the READ_STATEMENTS items after erasing `DUP` in every right-hand side and returned
                      term (`Item.eraseDup`, Lemmas/LayoutDup.lean; equal to `wf` by `layoutWF_eraseDup`);
  `hoist-equal-dup` : `hoistEqualD` = `hoist-equal` of the `DUP`-erased item lists.
  When these two are 1, `layout_rel_sound_dup` (Props/C16.lean) gives `denoteIL` equality of the two texts.
  `perm-equal-dup`  : `permEqualD` (Lemmas/LayoutPermGen.lean) = on the `DUP`-erased item lists: names of the inlined
                      declarations of RS pairwise distinct, no forward reference in RS, none in EC, the inlined
                      declarations of EC are a permutation of those of RS, same returned term.
  When it is 1, `layout_rel_sound_perm` (Props/C16.lean) gives `denoteIL` equality of the two texts (no other field needed).
  `perm-equal-dead` : `permEqualDD` (Lemmas/LayoutDead.lean) = `perm-equal-dup` of the two item lists after `dropDeadDecls`
                      (every inlined declaration that no remaining later inlined right-hand side / returned term mentions
                      is removed, in either list).  When it is 1, `layout_rel_sound_dead` (Props/C16.lean) gives
                      `denoteIL` equality of the two texts as written (no other field needed).
-/
namespace Rzil
open Sexp

def handleLayout : List Sexp → Option Sexp
  | [.atom "layout-rel", .str rsText, .str ecText] =>
    match parseBody rsText, parseBody ecText with
    | none, _ => some (.list [.atom "layout-rel", .list [.atom "error", .atom "unparsed-rs"]])
    | _, none => some (.list [.atom "layout-rel", .list [.atom "error", .atom "unparsed-ec"]])
    | some rs, some ec =>
      some (.list [.atom "layout-rel",
        .list [.atom "wf", ofBool (LayoutWF rs.items)],
        .list [.atom "hoist-equal", ofBool (hoistEqual rs.items ec.items)],
        .list [.atom "wf-dup", ofBool (LayoutWF (rs.items.map Item.eraseDup))],
        .list [.atom "hoist-equal-dup", ofBool (hoistEqualD rs.items ec.items)],
        .list [.atom "perm-equal-dup", ofBool (permEqualD rs.items ec.items)],
        .list [.atom "perm-equal-dead", ofBool (permEqualDD rs.items ec.items)]])
  | _ => none

end Rzil
