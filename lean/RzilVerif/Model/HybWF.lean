import RzilVerif.Model.CompileH
/-
  Decidable predicates and measures about the hybrid machinery of `CompileH` (used by the C06 theorems
  and executable by a driver): which temporaries an effect tree sets, how many hybrids a program creates,
  which identifiers it mentions, whether a `?:` condition can fold to a constant.
-/
namespace Rzil

/-- The name of the `n`-th hybrid temporary. -/
def tmpName (n : Nat) : String := s!"h_tmp{n}"

/-- The names `h_tmp{lo}`, …, `h_tmp{hi-1}`. -/
def freshNames (lo hi : Nat) : List String := (List.range' lo (hi - lo)).map tmpName

mutual
/-- The `h_tmp` targets of all `SETL` in an effect tree, in tree order, with multiplicity. -/
def setTmps : ILEffect → List String
  | .setl n _ => if isHTmp n then [n] else []
  | .seqn es => setTmpsL es
  | .branch _ t e => setTmps t ++ setTmps e
  | .repeat_ _ b => setTmps b
  | _ => []
def setTmpsL : List ILEffect → List String
  | [] => []
  | e :: es => setTmps e ++ setTmpsL es
end

/-- What rendering a pending entry will set. -/
def Pend.sets (p : Pend) : List String := setTmpsL p.deps ++ (setTmps p.exec ++ setTmps p.setTmp)

def pendSets : List Pend → List String
  | [] => []
  | p :: ps => p.sets ++ pendSets ps

mutual
/-- The members of an effect tree with `SEQN` nesting flattened and `EMPTY` dropped (execution order). -/
def flatE : ILEffect → List ILEffect
  | .seqn es => flatEs es
  | .empty => []
  | e => [e]
def flatEs : List ILEffect → List ILEffect
  | [] => []
  | e :: es => flatE e ++ flatEs es
end

mutual
/-- The targets of all state-changing leaves of an effect tree, in tree (= execution) order:
    local names for `SETL`, operand names for `WRITE_REG`, `"mem"` for `STOREW`, the callee for calls. -/
def writeOrder : ILEffect → List String
  | .setl n _ => [n]
  | .writeReg _ r _ => [r.opvar]
  | .storew _ _ => ["mem"]
  | .seqn es => writeOrderL es
  | .branch _ t e => writeOrder t ++ writeOrder e
  | .repeat_ _ b => writeOrder b
  | .call f _ => [f]
  | _ => []
def writeOrderL : List ILEffect → List String
  | [] => []
  | e :: es => writeOrder e ++ writeOrderL es
end

/-! ### the states the hybrid constructors of `compileExprH` produce -/

def postPend (hyb : Nat) (v : String) (t : CT) (op : String) : Pend :=
  { tmp := tmpName hyb, deps := [],
    exec := .setl v (if op == "++" then .inc (.varl v) t.width else .dec (.varl v) t.width),
    setTmp := .setl (tmpName hyb) (.varl v), setFirst := true, gcc := false }

def postState (st : HSt) (v : String) (t : CT) (op : String) : HSt :=
  { st with hyb := st.hyb + 1, pending := st.pending ++ [postPend st.hyb v t op] }

def callPend (st : HSt) (name : String) (cargs : List ILPure) (ret : CT) : Pend :=
  { tmp := tmpName st.hyb, deps := (popPending st.pending (tmpsOfPures cargs)).1.map Pend.render,
    exec := .call ("hex_" ++ name) cargs,
    setTmp := .setl (tmpName st.hyb)
      (if ret.signed then .signed ret.width (.varl "ret_val") else .unsigned ret.width (.varl "ret_val")),
    setFirst := false, gcc := false }

def callState (st : HSt) (name : String) (cargs : List ILPure) (ret : CT) : HSt :=
  { st with hyb := st.hyb + 1,
            pending := (popPending st.pending (tmpsOfPures cargs)).2 ++ [callPend st name cargs ret] }

def gccPend (hyb : Nat) (v : String) (stmt : ILEffect) : Pend :=
  { tmp := tmpName hyb, deps := [], exec := stmt, setTmp := .setl (tmpName hyb) (.varl v),
    setFirst := false, gcc := true }

def gccState (st : HSt) (v : String) (il : ILPure) : HSt :=
  let r := chk st (.setl v il) []
  { r.2 with hyb := r.2.hyb + 1, pending := r.2.pending ++ [gccPend r.2.hyb v r.1] }

/-- the pending entry of `({ name(exts…, args…); val; })`: the void call, then `SETL(h_tmpN, val)` -/
def seqPend (st : HSt) (name : String) (exts : List String) (cargs : List ILPure) (v : ILPure) : Pend :=
  { tmp := tmpName st.hyb, deps := (popPending st.pending (tmpsOfPures cargs ++ tmpsOfPure v)).1.map Pend.render,
    exec := vcallEffect name exts cargs, setTmp := .setl (tmpName st.hyb) v, setFirst := false, gcc := true }

def seqState (st : HSt) (name : String) (exts : List String) (cargs : List ILPure) (v : ILPure) : HSt :=
  { st with hyb := st.hyb + 1,
            pending := (popPending st.pending (tmpsOfPures cargs ++ tmpsOfPure v)).2 ++ [seqPend st name exts cargs v] }

/-- the pending entry of a value call with pass-through arguments (`callPend` with the tokens in front) -/
def callxPend (st : HSt) (name : String) (exts : List String) (cargs : List ILPure) (ret : CT) : Pend :=
  { tmp := tmpName st.hyb, deps := (popPending st.pending (tmpsOfPures cargs)).1.map Pend.render,
    exec := callxEffect name exts cargs,
    setTmp := .setl (tmpName st.hyb)
      (if ret.signed then .signed ret.width (.varl "ret_val") else .unsigned ret.width (.varl "ret_val")),
    setFirst := false, gcc := false }

def callxState (st : HSt) (name : String) (exts : List String) (cargs : List ILPure) (ret : CT) : HSt :=
  { st with hyb := st.hyb + 1,
            pending := (popPending st.pending (tmpsOfPures cargs)).2 ++ [callxPend st name exts cargs ret] }

def wrapThen (st : HSt) (n : String) (c : ILPure) : HSt :=
  { st with pending := st.pending.map (fun p => if p.tmp == n then { p with exec := .branch c p.exec .empty } else p) }

def wrapElse (st : HSt) (n : String) (c : ILPure) : HSt :=
  { st with pending := st.pending.map (fun p => if p.tmp == n then { p with exec := .branch c .empty p.exec } else p) }

/-- The state after removing the dead arm of a `?:` with a constant condition. -/
def dropDead (cfg : Cfg) (st : HSt) (dead : ILPure) : HSt :=
  match dead with
  | .varl n => if isHTmp n then { st with pending := st.pending.filter (fun p => p.tmp != n) }
               else if cfg.literalTypeBySuffixOnly then { st with live := st.live.filter (· != n) }
               else st
  | _ => st

/-! ### measures on the source program -/

mutual
/-- Number of hybrids (temporaries) the compilation of an expression creates. -/
def hybCountE : CExpr → Nat
  | .cast _ e => hybCountE e
  | .un _ e => hybCountE e
  | .not e => hybCountE e
  | .bin _ a b => hybCountE a + hybCountE b
  | .shift _ a b => hybCountE a + hybCountE b
  | .cmp _ a b => hybCountE a + hybCountE b
  | .log _ a b => hybCountE a + hybCountE b
  | .tern c a b => hybCountE c + hybCountE a + hybCountE b
  | .macro _ args _ _ => hybCountEs args
  | .post _ _ _ => 1
  | .call _ args _ _ => hybCountEs args + 1
  | .stmtexpr _ _ e => hybCountE e + 1
  | .seqexpr _ _ args _ val => hybCountEs args + hybCountE val + 1
  | .callx _ _ args _ _ => hybCountEs args + 1
  | _ => 0
def hybCountEs : List CExpr → Nat
  | [] => 0
  | a :: as => hybCountE a + hybCountEs as
end

mutual
def hybCountS : CStmt → Nat
  | .decl _ _ none => 0
  | .decl _ _ (some e) => hybCountE e
  | .assign _ _ e => hybCountE e
  | .chain _ _ _ e => hybCountE e
  | .store _ e => hybCountE e
  | .ite c t none => hybCountE c + hybCountSs t
  | .ite c t (some e) => hybCountE c + hybCountSs t + hybCountSs e
  | .for_ _ cond step body => hybCountE cond + (if step == 0 then 1 else 0) + hybCountSs body
  | .jump e => hybCountE e
  | .exprstmt e => hybCountE e
  | .ret e => hybCountE e
  | .vcall _ _ args _ => hybCountEs args
  | .skip _ => 0
def hybCountSs : List CStmt → Nat
  | [] => 0
  | s :: ss => hybCountS s + hybCountSs ss
end

mutual
/-- Identifiers an expression mentions (locals, immediate letters, variables of hybrids). -/
def exprNames : CExpr → List String
  | .imm l _ => [l]
  | .var n _ => [n]
  | .cast _ e => exprNames e
  | .un _ e => exprNames e
  | .not e => exprNames e
  | .bin _ a b => exprNames a ++ exprNames b
  | .shift _ a b => exprNames a ++ exprNames b
  | .cmp _ a b => exprNames a ++ exprNames b
  | .log _ a b => exprNames a ++ exprNames b
  | .tern c a b => exprNames c ++ exprNames a ++ exprNames b
  | .macro _ args _ _ => exprsNames args
  | .post v _ _ => [v]
  | .call _ args _ _ => exprsNames args
  | .stmtexpr _ v e => v :: exprNames e
  | .seqexpr _ _ args _ val => exprsNames args ++ exprNames val
  | .callx _ _ args _ _ => exprsNames args
  | _ => []
def exprsNames : List CExpr → List String
  | [] => []
  | a :: as => exprNames a ++ exprsNames as
end

mutual
def stmtNames : CStmt → List String
  | .decl _ n none => [n]
  | .decl _ n (some e) => n :: exprNames e
  | .assign lhs _ e => exprNames lhs ++ exprNames e
  | .chain l1 l2 _ e => exprNames l1 ++ exprNames l2 ++ exprNames e
  | .store _ e => exprNames e
  | .ite c t none => exprNames c ++ stmtsNames t
  | .ite c t (some e) => exprNames c ++ stmtsNames t ++ stmtsNames e
  | .for_ v cond _ body => v :: (exprNames cond ++ stmtsNames body)
  | .jump e => exprNames e
  | .exprstmt e => exprNames e
  | .ret e => exprNames e
  | .vcall _ _ args _ => exprsNames args
  | .skip _ => []
def stmtsNames : List CStmt → List String
  | [] => []
  | s :: ss => stmtNames s ++ stmtsNames ss
end

/-- No identifier of the program collides with the temporaries' name space. -/
def namesOK (prog : List CStmt) : Bool := (stmtsNames prog).all (fun n => !isHTmp n)

/-- Over-approximation of "the compiled expression is a Python literal (`Number`/`Bool`)". -/
def isConstLike : CExpr → Bool
  | .lit _ _ _ => true
  | .cast _ e => isConstLike e
  | .un _ e => isConstLike e
  | .bin _ a b => isConstLike a && isConstLike b
  | .cmp _ a b => isConstLike a && isConstLike b
  | .tern c _ _ => isConstLike c
  | _ => false

mutual
/-- No `?:` whose condition can fold to a constant (so no dead arm is ever removed). -/
def noConstTernE : CExpr → Bool
  | .cast _ e => noConstTernE e
  | .un _ e => noConstTernE e
  | .not e => noConstTernE e
  | .bin _ a b => noConstTernE a && noConstTernE b
  | .shift _ a b => noConstTernE a && noConstTernE b
  | .cmp _ a b => noConstTernE a && noConstTernE b
  | .log _ a b => noConstTernE a && noConstTernE b
  | .tern c a b => !isConstLike c && noConstTernE c && noConstTernE a && noConstTernE b
  | .macro _ args _ _ => noConstTernEs args
  | .call _ args _ _ => noConstTernEs args
  | .stmtexpr _ _ e => noConstTernE e
  | .seqexpr _ _ args _ val => noConstTernEs args && noConstTernE val
  | .callx _ _ args _ _ => noConstTernEs args
  | _ => true
def noConstTernEs : List CExpr → Bool
  | [] => true
  | a :: as => noConstTernE a && noConstTernEs as
end

mutual
def noConstTernS : CStmt → Bool
  | .decl _ _ none => true
  | .decl _ _ (some e) => noConstTernE e
  | .assign _ _ e => noConstTernE e
  | .chain _ _ _ e => noConstTernE e
  | .store _ e => noConstTernE e
  | .ite c t none => noConstTernE c && noConstTernSs t
  | .ite c t (some e) => noConstTernE c && noConstTernSs t && noConstTernSs e
  | .for_ _ cond _ body => noConstTernE cond && noConstTernSs body
  | .jump e => noConstTernE e
  | .exprstmt e => noConstTernE e
  | .ret e => noConstTernE e
  | .vcall _ _ args _ => noConstTernEs args
  | .skip _ => true
def noConstTernSs : List CStmt → Bool
  | [] => true
  | s :: ss => noConstTernS s && noConstTernSs ss
end

end Rzil
