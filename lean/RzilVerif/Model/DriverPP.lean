import RzilVerif.Model.Sexp
import RzilVerif.Model.PPStrings
import RzilVerif.Model.PPMacros
import RzilVerif.Model.Grammar
namespace Rzil
open Sexp

def optPair : Option (String × String) → Sexp
  | none => .atom "none"
  | some (a, b) => .list [.str a, .str b]

def strList (xs : List String) : Sexp := .list (xs.map .str)

def gtokOfSexp : Sexp → Option Grammar.GTok
  | .list [.atom "atom", .str s] => some (.atom s)
  | .list [.atom "op", .str s] => some (.op s)
  | .atom "lp" => some .lp
  | .atom "rp" => some .rp
  | .list [.atom "ty", .str s] => some (.ty s)
  | _ => none

mutual
def cexprToSexp : Grammar.CExpr → Sexp
  | .atom s => .list [.atom "atom", .str s]
  | .call f args => .list (.atom "call" :: .str f :: cexprsToSexp args)
  | .post op a => .list [.atom "post", .str op, cexprToSexp a]
  | .un op a => .list [.atom "un", .str op, cexprToSexp a]
  | .cast ty a => .list [.atom "cast", .str ty, cexprToSexp a]
  | .bin op a b => .list [.atom "bin", .str op, cexprToSexp a, cexprToSexp b]
  | .tern c a b => .list [.atom "tern", cexprToSexp c, cexprToSexp a, cexprToSexp b]
  | .assign op a b => .list [.atom "assign", .str op, cexprToSexp a, cexprToSexp b]
  | .stmtExpr items e => .list [.atom "stmtexpr", .list (cstmtsToSexp items), cexprToSexp e]
def cexprsToSexp : List Grammar.CExpr → List Sexp
  | [] => []
  | e :: es => cexprToSexp e :: cexprsToSexp es
def cstmtToSexp : Grammar.CStmt → Sexp
  | .expr e => .list [.atom "expr", cexprToSexp e]
  | .empty => .list [.atom "empty"]
  | .block items => .list (.atom "block" :: cstmtsToSexp items)
  | .if_ c t => .list [.atom "if", cexprToSexp c, cstmtToSexp t]
  | .ifElse c t e => .list [.atom "ifelse", cexprToSexp c, cstmtToSexp t, cstmtToSexp e]
  | .for_ i c s b => .list [.atom "for", cexprToSexp i, cexprToSexp c, cexprToSexp s, cstmtToSexp b]
  | .decl t x => .list [.atom "decl", .str t, .str x]
  | .declInit t x e => .list [.atom "declinit", .str t, .str x, cexprToSexp e]
def cstmtsToSexp : List Grammar.CStmt → List Sexp
  | [] => []
  | s :: ss => cstmtToSexp s :: cstmtsToSexp ss
end

def handlePP : List Sexp → Option Sexp
  | [.atom "split-resolved", .str line] => some (optPair (PP.splitResolvedS line))
  | [.atom "split-compounds", .str beh] => some (optPair (PP.splitCompoundsS beh))
  | (.atom "load-behaviours" :: lines) => do
      let ls ← lines.mapM (fun l => match l with | .str s => some s | _ => none)
      match PP.loadBehavioursS ls with
      | none => pure (.atom "raise")
      | some m => pure (.list (m.map (fun (n, parts) => .list (.str n :: parts.map .str))))
  | [.atom "dowhile0", .str code] => some (.str (PPM.replaceDoWhile0S code))
  | [.atom "macro-name", .str line] => some (match PPM.macroNameS line with | none => .atom "none" | some n => .list [.str n])
  | [.atom "patch-macros", .str patchFile, .list macros] => do
      let ms ← macros.mapM (fun l => match l with | .str s => some s | _ => none)
      match PPM.patchMacrosFromFileS patchFile ms with
      | none => pure (.atom "raise")
      | some out => pure (strList out)
  | [.atom "join-continuations", .list lines] => do
      let ls ← lines.mapM (fun l => match l with | .str s => some s | _ => none)
      match PPM.joinContinuationsS ls with
      | none => pure (.atom "raise")
      | some out => pure (strList out)
  | (.atom "refparse" :: toks) => do
      let ts ← toks.mapM gtokOfSexp
      match Grammar.refParseAll ts with
      | none => pure (.atom "none")
      | some e => pure (cexprToSexp e)
  -- one statement (normally the outer `{ … }` of a behaviour) as token list -> statement tree
  | (.atom "refparse-stmt" :: toks) => do
      let ts ← toks.mapM gtokOfSexp
      match Grammar.refParseStmt ts with
      | none => pure (.atom "none")
      | some s => pure (cstmtToSexp s)
  | _ => none

end Rzil
