import RzilVerif.Model.Sexp
import RzilVerif.Model.Checks
import RzilVerif.Model.ILSort
import RzilVerif.Gen.ResourcesGen
/-
  Driver requests that read RAW emitted text:  (def-sub …)  and  (text …).
-/
namespace Rzil
open Sexp

structure DState where
  subs : List (String × SubSig) := []
  /-- compiled bodies of the registered sub-routines as read from their REAL emitted text -/
  subBodies : List (String × (List String × ILEffect)) := []
deriving Inhabited

def baseMacros : List (String × MacroSig) :=
  (Gen.macroRows.map (fun (_, rz, ret, ps) => (rz, ({ ret := ret, params := ps } : MacroSig)))) ++
  [("HEX_GET_NPC", { ret := some (.bv 32), params := [none] })]

def extraCallees : List String := ["HEX_GET_NPC", "HEX_STORE_SLOT_CANCELLED", "WRITE_REG"]

def sortOfSexp : Sexp → Option (Option ILSort)
  | .atom "ext" => some none
  | .atom "void" => some none
  | .list [.atom "bv", w] => do let w ← w.asNat?; pure (some (.bv w))
  | .list [.atom "float", w] => do let w ← w.asNat?; pure (some (.float w))
  | .atom "bool" => some (some .bool)
  | _ => none

/-! renaming of compiler-generated temporaries in order of first occurrence -/

mutual
def Term.strs : Term → List String
  | .str s => [s]
  | .app _ args => strsList args
  | .addr t => t.strs
  | .ccast _ t => t.strs
  | .arrow t _ => t.strs
  | _ => []
def strsList : List Term → List String
  | [] => []
  | t :: ts => t.strs ++ strsList ts
end

def isTmpName (s : String) : Bool :=
  s.startsWith "h_tmp" && s.length > 5 && (s.drop 5).all Char.isDigit

def tmpRenaming (t : Term) : List (String × String) :=
  let names := (t.strs.filter isTmpName).eraseDups
  names.zipIdx.map (fun (n, i) => (n, s!"h_tmp#{i}"))

mutual
def Term.renameStrs (m : List (String × String)) : Term → Term
  | .str s => .str ((lookupS s m).getD s)
  | .app f args => .app f (renameStrsList m args)
  | .addr t => .addr (t.renameStrs m)
  | .ccast ty t => .ccast ty (t.renameStrs m)
  | .arrow t f => .arrow (t.renameStrs m) f
  | t => t
def renameStrsList (m : List (String × String)) : List Term → List Term
  | [] => []
  | t :: ts => t.renameStrs m :: renameStrsList m ts
end

def canonTerm (t : Term) : Term := t.renameStrs (tmpRenaming t)

/-- `denote` keeping operand (`HexOp`) variables by name: only pure/effect/bool declarations are inlined. -/
def buildEnvIL : List Item → List (String × Term) → List (String × Term)
  | [], env => env
  | Item.decl ty name rhs :: rest, env =>
      if ty == "RzILOpPure *" || ty == "RzILOpEffect *" || ty == "RzILOpBool *"
      then buildEnvIL rest ((name, rhs.subst env) :: env)
      else buildEnvIL rest env
  | _ :: rest, env => buildEnvIL rest env

def denoteIL (b : Body) : Option Term := do
  let r ← returned b.items
  pure ((r.subst (buildEnvIL b.items [])).eraseDup)

/-- Operand declarations: variable name, declared type, slot look-up term. -/
def operandDecls (b : Body) : List (String × String × Term) :=
  b.items.filterMap (fun it => match it with
    | .decl ty name rhs => if ty == "const HexOp *" || ty == "const HexOp" then some (name, ty, rhs) else none
    | _ => none)

structure TextReport where
  parsed : Bool
  c11 : List String
  c12 : List String
  c10 : Option String           -- none = well-sorted
  hi : Bool
  pkt : Bool
  denoted : String
  operands : List (String × String × Term)
  locals : Locals

def analyse (st : DState) (pureParams : List (String × ILSort)) (text : String) : TextReport :=
  let toks := lex text
  match parseBody text with
  | none => { parsed := false, c11 := ["text does not parse as declarations + return"], c12 := [], c10 := some "unparsed",
              hi := mentionsId toks "hi", pkt := mentionsId toks "pkt", denoted := "", operands := [], locals := [] }
  | some b =>
    let ctx : BodyCtx := { given := ["bundle", "hi", "pkt"],
                           callees := baseMacros.map (·.1) ++ st.subs.map (fun (n, _) => "hex_" ++ n) ++ extraCallees }
    let c11 := wfBodyProblems ctx b ++ (if tokBalanced toks then [] else ["unbalanced parentheses/braces"])
    let c12 := linearProblems b
    let env : SortEnv := { params := pureParams, macros := baseMacros, subs := st.subs }
    match denoteIL b with
    | none => { parsed := true, c11 := c11, c12 := c12, c10 := some "no returned effect",
                hi := mentionsId toks "hi", pkt := mentionsId toks "pkt", denoted := "", operands := operandDecls b, locals := [] }
    | some t =>
      let seqOk := seqnCountsOk t
      let (c10, locals) := match wfEffect env [] (effectOfTerm t) with
        | .ok l => (if seqOk then none else some "SEQN count differs from its number of arguments", l)
        | .error e => (some e, [])
      { parsed := true, c11 := c11, c12 := c12, c10 := c10,
        hi := mentionsId toks "hi", pkt := mentionsId toks "pkt",
        denoted := (canonTerm t).render, operands := operandDecls b, locals := locals }

def TextReport.toSexp (r : TextReport) : Sexp :=
  .list [.atom "report",
    .list [.atom "parsed", ofBool r.parsed],
    .list (.atom "c11" :: r.c11.map .str),
    .list (.atom "c12" :: r.c12.map .str),
    .list (.atom "c10" :: (match r.c10 with | none => [] | some e => [.str e])),
    .list [.atom "hi", ofBool r.hi],
    .list [.atom "pkt", ofBool r.pkt],
    .list (.atom "operands" :: r.operands.map (fun (n, ty, t) => .list [.str n, .str ty, .str t.render])),
    .list [.atom "denote", .str r.denoted]]

def handleText (st : DState) : List Sexp → Option (DState × Sexp)
  | [.atom "text", .str text] => some (st, (analyse st [] text).toSexp)
  | [.atom "def-sub", name, ret, .list params, .str text] => do
      let name ← name.asAtom?
      let ret ← sortOfSexp ret
      let ps ← params.mapM (fun p => match p with
        | .list [n, s] => do let n ← n.asAtom?; let s ← sortOfSexp s; pure (n, s)
        | _ => none)
      let pureParams := ps.map (fun (n, s) => (n, s.getD .ext))
      let rep := analyse st pureParams text
      let sig : SubSig := { ret := ret, params := ps.map (·.2), locals := rep.locals }
      let body : ILEffect := match (parseBody text).bind denoteIL with
        | some t => effectOfTerm t
        | none => .call "?unparsed" []
      some ({ st with subs := st.subs.filter (fun (n, _) => n != name) ++ [(name, sig)],
                      subBodies := st.subBodies.filter (fun (n, _) => n != name) ++ [(name, (ps.map (·.1), body))] }, rep.toSexp)
  | [.atom "reads", .str x, n] => do
      -- the texts of n successive reads of the shared node held by the C variable x (Model/Checks.lean: readsOf)
      let n ← n.asNat?
      some (st, .list (.atom "reads" :: (readsOf x n).map (fun t => .str t.render)))
  | [.atom "reset"] => some ({}, .atom "ok")
  | _ => none

end Rzil
