/-
  Layer P: the pooled parser driver (`Parser.py`, `parse_single` + `Parser.parse`).

  Import-free, executable, total.  The model abstracts

  * the Earley parser as an arbitrary function `ParseOne` from a behaviour string to either a tree
    id or the class name of the raised exception,
  * `multiprocessing.Pool` as an arbitrary *completion order* `order : List Nat` of task indices
    (every pool size / chunking / worker speed yields some permutation of `range n`),
  * `Pool.imap` as the collector that hands the results back in *task* order whatever the
    completion order was, `Pool.imap_unordered` as the collector that hands them back in
    completion order,
  * `dict.update` on Python's insertion ordered `dict` as `dictInsert`/`dictUpdate` on association
    lists (an existing key keeps its position and gets the new value; a new key is appended).
-/
namespace Rzil.Pool

/-- One instruction handed to the pool (`InsnParsingBundle` minus the constant grammar). -/
structure Task where
  name  : String
  parts : List String
deriving DecidableEq, Repr, Inhabited

/-- `ParsedInsn`: `trees` are tree ids, `exc` the class name of the wrapped exception. -/
structure Entry where
  name       : String
  trees      : List Nat
  behaviours : List String
  exc        : Option String
deriving DecidableEq, Repr, Inhabited

/-- per-part parser outcome: tree id or the exception class name -/
abbrev ParseOne := String → Except String Nat

/-- The `for b in behaviors: asts.append(parser.parse(b))` loop inside the `try`:
    left to right, the first exception aborts the loop. -/
def parseParts (p : ParseOne) : List String → Except String (List Nat)
  | [] => .ok []
  | s :: rest =>
    match p s with
    | .error e => .error e
    | .ok t =>
      match parseParts p rest with
      | .error e => .error e
      | .ok ts => .ok (t :: ts)

/-- The error of the first failing part, if any (specification helper, not used by `parseSingle`). -/
def firstError (p : ParseOne) : List String → Option String
  | [] => none
  | s :: rest =>
    match p s with
    | .error e => some e
    | .ok _ => firstError p rest

/-- `parse_single`: all parts parsed ⇒ all trees, no exception;
    first failure ⇒ `trees := []`, `exc := some name`; behaviours always kept. -/
def parseSingle (p : ParseOne) (t : Task) : Entry :=
  match parseParts p t.parts with
  | .ok trees => { name := t.name, trees := trees, behaviours := t.parts, exc := none }
  | .error e  => { name := t.name, trees := [], behaviours := t.parts, exc := some e }

/-- A Python `dict[str, ParsedInsn]` in insertion order. -/
abbrev Dict := List (String × Entry)

/-- `d[k] = v` on an insertion ordered dict. -/
def dictInsert (d : Dict) (k : String) (v : Entry) : Dict :=
  match d with
  | [] => [(k, v)]
  | (k', v') :: rest => if k' == k then (k', v) :: rest else (k', v') :: dictInsert rest k v

/-- `d.update(res)`. -/
def dictUpdate (d res : Dict) : Dict :=
  res.foldl (fun acc kv => dictInsert acc kv.1 kv.2) d

/-- Finite-map equality: same lookup for every key. -/
def dictEquiv (a b : Dict) : Prop := ∀ k, a.lookup k = b.lookup k

/-- Executable finite-map equality: it suffices to compare on the keys that occur. -/
def dictEqb (a b : Dict) : Bool :=
  (a.map (·.1) ++ b.map (·.1)).all (fun k => a.lookup k == b.lookup k)

/-- What one worker call returns: the singleton dict `{name: pinsn}`. -/
def workerResult (p : ParseOne) (t : Task) : Dict := [(t.name, parseSingle p t)]

/-- `for res in yields: result.update(res)` starting from the empty dict. -/
def collect (yields : List Dict) : Dict := yields.foldl dictUpdate []

/-- The pool's result buffer: `(task index, result)` in *completion* order.
    Indices that are out of range name no task and produce nothing. -/
def produced (p : ParseOne) (order : List Nat) (ts : List Task) : List (Nat × Dict) :=
  order.filterMap (fun i => ts[i]?.map (fun t => (i, workerResult p t)))

/-- `Pool.imap`: yields the buffered results in task order `0, 1, …, n-1`
    regardless of completion order. -/
def imapYields (p : ParseOne) (order : List Nat) (ts : List Task) : List Dict :=
  (List.range ts.length).filterMap (fun i => (produced p order ts).lookup i)

/-- `Pool.imap_unordered`: yields in completion order. -/
def unorderedYields (p : ParseOne) (order : List Nat) (ts : List Task) : List Dict :=
  (produced p order ts).map (·.2)

/-- `Parser.parse` as written (with `pool.imap`). -/
def poolRunImap (p : ParseOne) (order : List Nat) (ts : List Task) : Dict :=
  collect (imapYields p order ts)

/-- `Parser.parse` with `pool.imap_unordered` instead. -/
def poolRunUnordered (p : ParseOne) (order : List Nat) (ts : List Task) : Dict :=
  collect (unorderedYields p order ts)

/-- Sequential in-process reference: `for a in args: result.update(parse_single(a))`. -/
def seqRun (p : ParseOne) (ts : List Task) : Dict :=
  collect (ts.map (workerResult p))

/-- Is `order` a legal schedule for `n` tasks (a permutation of `range n`)?  Executable. -/
def isSchedule (order : List Nat) (n : Nat) : Bool :=
  order.isPerm (List.range n)

/-- The `(key, value)` pair a task contributes to the result dict. -/
def pairOf (p : ParseOne) (t : Task) : String × Entry := (t.name, parseSingle p t)

/-- The keys of a dict, in insertion order. -/
def keys (d : Dict) : List String := d.map (·.1)

end Rzil.Pool
