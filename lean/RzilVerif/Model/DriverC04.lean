import RzilVerif.Model.Sexp
import RzilVerif.Model.Types
namespace Rzil
open Sexp

def vtOfSexp : Sexp → Option VT
  | .list [s, w, g] => do
      let s ← s.asBool?; let w ← w.asNat?; let g ← g.asNat?
      pure { signed := s, width := w, group := g }
  | _ => none

def vtToSexp (t : VT) : Sexp := .list [ofBool t.signed, ofNat t.width, ofNat t.group]

/-- request `(c11cast a b)`: reply `(ra rb common_signed common_width)` -/
def handleC04 : List Sexp → Option Sexp
  | [.atom "c11cast", a, b] => do
      let a ← vtOfSexp a; let b ← vtOfSexp b
      let (ra, rb) := VT.c11Cast a b
      let (cs, cw) := VT.common a b
      pure (.list [vtToSexp ra, vtToSexp rb, ofBool cs, ofNat cw])
  | [.atom "promoted", a] => do
      let a ← vtOfSexp a
      pure (vtToSexp (VT.promoted a))
  | [.atom "eqv", a, b] => do
      let a ← vtOfSexp a; let b ← vtOfSexp b
      pure (ofBool (VT.eqv a b))
  | [.atom "c11row", a, wmax] => do
      -- rolling hash over all (sb, wb), sb ∈ {0,1}, wb ∈ 1..wmax of the sign/width of both results
      let a ← vtOfSexp a; let wmax ← wmax.asNat?
      let m61 : Nat := 2305843009213693951
      let step (h v : Nat) : Nat := (h * 1000003 + v + 1) % m61
      let mut h : Nat := 1469598103934665603
      for sb in [false, true] do
        for wb in [1:wmax+1] do
          let (ra, rb) := VT.c11Cast a { signed := sb, width := wb, group := 1 }
          h := step h (ra.signed.toNat + 2 * ra.width)
          h := step h (rb.signed.toNat + 2 * rb.width)
      pure (ofNat h)
  | _ => none

end Rzil
