/-
  C19 — model of the string splitting done by `PreprocessorHexagon.load_insn_behavior`:

  * `split_resolved_shortcode`:  `re.search(r"insn\((\w+), (.+)\)$", line, re.ASCII)`
  * `split_compounds`:           `re.match(r"\{.*__COMPOUND_PART1__(\{.+})__COMPOUND_PART1__(.*)}$", beh)`
  * `load_insn_behavior`:        the loop over the lines of the resolved shortcode file.

  Everything is over `List Char` (with `String` wrappers at the end), total, structurally
  recursive, core Lean only.  The two regular expressions are modelled by *direct backtracking
  searches in the order Python's `re` tries the alternatives*:

  * `search`  = leftmost start position first;
  * greedy `.*` / `.+` = longest candidate first (the recursive call is tried before "here");
  * `.` never matches `'\n'`;
  * `$` matches at the very end or just before a final `'\n'`;
  * `\w` (re.ASCII) = `[A-Za-z0-9_]`.

  No precondition on where newlines occur is needed: the model follows `re` on arbitrary strings.
-/
namespace Rzil.PP

/-- `\w` under `re.ASCII`. -/
def isWord (c : Char) : Bool := c.isAlphanum || c == '_'

/-- `__COMPOUND_PART1__` -/
def marker : List Char :=
  ['_', '_', 'C', 'O', 'M', 'P', 'O', 'U', 'N', 'D', '_', 'P', 'A', 'R', 'T', '1', '_', '_']

/-- `insn(` -/
def insnOpen : List Char := ['i', 'n', 's', 'n', '(']

/-- `, ` -/
def commaSp : List Char := [',', ' ']

/-- `strip p l = some t` iff `l = p ++ t` (a literal piece of a regex). -/
def strip : List Char → List Char → Option (List Char)
  | [], l => some l
  | _ :: _, [] => none
  | p :: ps, c :: cs => if p = c then strip ps cs else none

/-- `X$` where `X` is a greedy run of `.`: the whole rest of the text, provided it contains no newline
    except possibly one as the very last character (which `$` skips). Returns the run. -/
def runToEnd : List Char → Option (List Char)
  | [] => some []
  | c :: cs =>
    if c = '\n' then (if cs = [] then some [] else none)
    else (runToEnd cs).map (c :: ·)

/-- `stripLast c r = some b` iff `r = b ++ [c]`. -/
def stripLast (c : Char) : List Char → Option (List Char)
  | [] => none
  | [d] => if d = c then some [] else none
  | d :: e :: es => (stripLast c (e :: es)).map (d :: ·)

/-- `(.*)c$` : the group, if the text matches. (Greedy `.*` runs to the end of the line, gives back
    exactly one char, which must be `c`; giving back more can never reach `$`.) -/
def matchTail (c : Char) (t : List Char) : Option (List Char) :=
  (runToEnd t).bind (stripLast c)

/-! ## `split_resolved_shortcode` -/

/-- The regex `insn\((\w+), (.+)\)$` anchored at the start of `t`. -/
def resolvedHere (t : List Char) : Option (List Char × List Char) :=
  match strip insnOpen t with
  | none => none
  | some u =>
    let w := u.takeWhile isWord
    if w = [] then none
    else match strip commaSp (u.dropWhile isWord) with
      | none => none
      | some z =>
        match matchTail ')' z with
        | none => none
        | some body => if body = [] then none else some (w, body)

/-- `re.search`: leftmost start position at which the regex matches. `none` = the `ValueError`. -/
def splitResolved : List Char → Option (List Char × List Char)
  | [] => none
  | c :: cs =>
    match resolvedHere (c :: cs) with
    | some r => some r
    | none => splitResolved cs

/-! ## `split_compounds` -/

/-- The part `.+})M(.*)}$` after the `{` that opens group 1.  `pre` = the characters already consumed by
    `.+` (reversed).  Longest `.+` first. Returns (group 1, group 2). -/
def p1Search (pre : List Char) : List Char → Option (List Char × List Char)
  | [] => none
  | c :: cs =>
    if c = '\n' then none
    else
      match p1Search (c :: pre) cs with
      | some r => some r
      | none =>
        if c = '}' ∧ pre ≠ [] then
          match strip marker cs with
          | none => none
          | some y => (matchTail '}' y).map fun g2 => ('{' :: (pre.reverse ++ ['}']), g2)
        else none

/-- `(\{.+})M(.*)}$` anchored at the start of `u`. -/
def afterMarker : List Char → Option (List Char × List Char)
  | '{' :: v => p1Search [] v
  | _ => none

/-- `M(\{.+})M(.*)}$` anchored at the start of `t`. -/
def compoundHere (t : List Char) : Option (List Char × List Char) :=
  (strip marker t).bind afterMarker

/-- `.*M(\{.+})M(.*)}$` anchored at the start of `t`: greedy `.*`, so the LAST position (not beyond a
    newline) at which `compoundHere` succeeds wins. -/
def aSearch : List Char → Option (List Char × List Char)
  | [] => none
  | c :: cs =>
    match (if c = '\n' then none else aSearch cs) with
    | some r => some r
    | none => compoundHere (c :: cs)

/-- `split_compounds`: `none` = the `AttributeError` raised by `match.group` on a failed match. -/
def splitCompounds : List Char → Option (List Char × List Char)
  | '{' :: t => (aSearch t).map fun g => (g.1, '{' :: (g.2 ++ ['}']))
  | _ => none

/-! ## `load_insn_behavior` -/

/-- Python `"__COMPOUND_PART1__" in s`. -/
def hasMarker : List Char → Bool
  | [] => false
  | c :: cs => (strip marker (c :: cs)).isSome || hasMarker cs

/-- `line[0] == "#"` (for a non-empty line). -/
def isHashLine : List Char → Bool
  | '#' :: _ => true
  | _ => false

/-- The body of one iteration for a non-`#` line: `none` = an exception escapes (`ValueError` from
    `split_resolved_shortcode`, `AttributeError` from `split_compounds`), otherwise the assignment
    `self.behaviors[name] = behaviours`. -/
def loadBody (line : List Char) : Option (List Char × List (List Char)) :=
  match splitResolved line with
  | none => none
  | some (name, beh) =>
    if hasMarker beh then
      match splitCompounds beh with
      | none => none
      | some (b1, b2) => some (name, [b1, b2])
    else some (name, [beh])

/-- One iteration of the loop.  `none` = an exception escapes (`IndexError` on an empty line, or one from
    `loadBody`); `some none` = line skipped; `some (some (name, behaviours))` = assignment done. -/
def loadLine (line : List Char) : Option (Option (List Char × List (List Char))) :=
  match line with
  | [] => none
  | '#' :: _ => some none
  | _ => (loadBody line).map some

/-- The whole loop: the list of assignments `behaviors[name] = parts` in file order, or `none` if any
    line raises (nothing is skipped silently). -/
def loadBehaviours : List (List Char) → Option (List (List Char × List (List Char)))
  | [] => some []
  | l :: ls =>
    match loadLine l with
    | none => none
    | some e =>
      match loadBehaviours ls with
      | none => none
      | some m => some (match e with | none => m | some x => x :: m)

/-- `self.behaviors.get(name)` after the assignments `m` (the last assignment wins). -/
def getBehaviour (m : List (List Char × List (List Char))) (name : List Char) : Option (List (List Char)) :=
  match m with
  | [] => none
  | (n, b) :: rest =>
    match getBehaviour rest name with
    | some b' => some b'
    | none => if n = name then some b else none

/-! ## `String` wrappers -/

def splitResolvedS (line : String) : Option (String × String) :=
  (splitResolved line.toList).map fun r => (String.ofList r.1, String.ofList r.2)

def splitCompoundsS (beh : String) : Option (String × String) :=
  (splitCompounds beh.toList).map fun r => (String.ofList r.1, String.ofList r.2)

def loadLineS (line : String) : Option (Option (String × List String)) :=
  (loadLine line.toList).map fun e => e.map fun x => (String.ofList x.1, x.2.map String.ofList)

def loadBehavioursS (lines : List String) : Option (List (String × List String)) :=
  (loadBehaviours (lines.map String.toList)).map fun m =>
    m.map fun x => (String.ofList x.1, x.2.map String.ofList)

end Rzil.PP
