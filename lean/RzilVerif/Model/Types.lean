/-
  Layer T: value types of the compiler (`ValueType.py`).
  Import-free, executable. Mirrors `c11_cast` (ValueType.py:244-275) step by step,
  including its copy-then-mutate shape, and `promoted_type` (278-285).
-/
namespace Rzil

/-- Flag bits of `VTGroup` that matter for integer types (bit positions as in the Python `Flag`). -/
structure VT where
  signed : Bool
  width  : Nat
  /-- `VTGroup` bitmask (PURE=1, BOOL=2, HYBRID_LVAR=4, EXTERNAL=8, ARCH_LONG=16, VOID=32, CONST=64, …).
      Carried along unchanged by every function here. -/
  group  : Nat := 1
deriving DecidableEq, Repr, Inhabited

namespace VT

def gPURE : Nat := 1
def gBOOL : Nat := 2
def gHYBRID : Nat := 4
def gEXTERNAL : Nat := 8
def gVOID : Nat := 32
def gCONST : Nat := 64
def gFLOAT : Nat := 128
def gDOUBLE : Nat := 256
def gIEEE : Nat := 512

def hasFlag (t : VT) (f : Nat) : Bool := (t.group &&& f) != 0

/-- `ValueType.__eq__` for non-float types: width and sign only, flags ignored. -/
def eqv (a b : VT) : Bool := a.width == b.width && a.signed == b.signed

/-- `c11_cast(a, b)`: returns the pair `(a', b')`.
    Written in the code's shape: early return of the arguments themselves, then
    copies `va`, `vb` that are mutated. -/
def c11Cast (a b : VT) : VT × VT :=
  let signMatch := a.signed == b.signed
  let rankMatch := a.width == b.width
  if signMatch && rankMatch then (a, b)
  else
    let va := a
    let vb := b
    if signMatch then
      if va.width < vb.width then ({ va with width := vb.width }, vb)
      else (va, { vb with width := va.width })
    else
      -- a_is_signed = va.signed ; unsigned = vb if a_is_signed else va ; signed = the other
      if va.signed then
        -- signed = va, unsigned = vb ; result (signed, unsigned)
        if vb.width ≥ va.width then
          ({ va with width := vb.width, signed := false }, vb)
        else
          (va, { vb with width := va.width, signed := true })
      else
        -- signed = vb, unsigned = va ; result (unsigned, signed)
        if va.width ≥ vb.width then
          (va, { vb with width := va.width, signed := false })
        else
          ({ va with width := vb.width, signed := true }, vb)

/-- `promoted_type`: the argument itself if at least 32 bit wide, else a fresh `st32`. -/
def promoted (t : VT) : VT :=
  if t.width ≥ 32 then t else { signed := true, width := 32, group := 1 }

/-- Specification side (written from C11 6.3.1.8 with rank = width, independent of the code):
    the common real type of two integer types. -/
def common (a b : VT) : Bool × Nat :=
  if a.signed == b.signed then (a.signed, max a.width b.width)
  else
    let (s, u) := if a.signed then (a, b) else (b, a)   -- s: the signed one, u: the unsigned one
    if u.width ≥ s.width then (false, u.width)           -- unsigned rank ≥ signed rank: unsigned type
    else (true, s.width)                                 -- signed type can represent all values of the unsigned one

end VT
end Rzil
