import RzilVerif.Model.IL
/-
  Per-output checkers run by Lean on the RAW emitted text:
  * `wfBody`  (C11): the text is a well-formed C body (declarations with initialiser + final return,
    declared once and before use, known callees, valid names);
  * `linear`  (C12): IL node ownership is linear (one consuming use, DUP for the rest, nothing unused).
-/
namespace Rzil

/-- Occurrences of identifiers in a term: `(name, underDup)`; the argument of `DUP(x)` counts as dup'ed
    only when it is exactly the identifier. Function heads are not identifiers. -/
def Term.uses : Term → List (String × Bool)
  | .id x => [(x, false)]
  | .app "DUP" [.id x] => [(x, true)]
  | .app _ args => usesList args
  | .addr t => t.uses
  | .ccast _ t => t.uses
  | .arrow t _ => t.uses
  | _ => []
where usesList : List Term → List (String × Bool)
  | [] => []
  | t :: ts => t.uses ++ usesList ts

/-- Function heads called in a term. -/
def Term.heads : Term → List String
  | .app f args => f :: headsList args
  | .addr t => t.heads
  | .ccast _ t => t.heads
  | .arrow t _ => t.heads
  | _ => []
where headsList : List Term → List String
  | [] => []
  | t :: ts => t.heads ++ headsList ts

def cKeywords : List String :=
  ["auto","break","case","char","const","continue","default","do","double","else","enum","extern","float",
   "for","goto","if","inline","int","long","register","restrict","return","short","signed","sizeof","static",
   "struct","switch","typedef","union","unsigned","void","volatile","while","_Bool"]

def knownDeclTypes : List String :=
  ["RzILOpPure *", "RzILOpEffect *", "RzILOpBool *", "const HexOp *", "const HexOp", "HexPkt *", "const HexInsn *"]

/-- IL constructor macros and plugin look-up macros (PluginInfo.py) the text may call. -/
def ilHeads : List String :=
  ["SN","UN","VARL","VARLP","READ_REG","WRITE_REG","U32","CAST","SIGNED","UNSIGNED","ITE","LET","LOADW","STOREW",
   "INC","DEC","LOGNOT","NEG","MSB","NON_ZERO","INV","ADD","SUB","MUL","DIV","MOD","LOGAND","LOGOR","LOGXOR",
   "SHIFTL0","SHIFTR0","SHIFTRA","EQ","ULT","ULE","UGT","UGE","SLT","SLE","SGT","SGE","AND","OR","DUP",
   "SETL","SEQN","SEQ2","BRANCH","REPEAT","EMPTY","NOP",
   "ISA2REG","ISA2IMM","ALIAS2OP","EXPLICIT2OP","NREG2OP",
   "FADD","FSUB","FMUL","FDIV","FEQ","FLT","FLE","FGT","FGE","BV2F","F2BV"]

structure BodyCtx where
  /-- identifiers available without declaration (getter context: bundle, hi, pkt; sub-routine: its parameters) -/
  given : List String
  /-- additional callable names: rzil macro names, `hex_<sub>` names, `HEX_<call>` names -/
  callees : List String
deriving Repr, Inhabited

/-- The list of well-formedness problems of a parsed body (empty = well-formed). -/
def wfBodyProblems (ctx : BodyCtx) (b : Body) : List String :=
  let items := b.items.filter (fun i => match i with | .comment _ => false | _ => true)
  let pre := match b.header with
    | some (_, ps) => ps.map Param.name
    | none => ctx.given
  let step := fun (acc : List String × List String × Bool) (it : Item) =>
    let (declared, probs, seenRet) := acc
    let probs := if seenRet then probs ++ ["statement after the final return"] else probs
    match it with
    | .comment _ => (declared, probs, seenRet)
    | .ret t =>
        let bad := t.uses.filter (fun (x, _) => !(declared.contains x || pre.contains x || isPluginConst x))
        let badH := t.heads.filter (fun f => !(ilHeads.contains f || ctx.callees.contains f))
        (declared, probs ++ bad.map (fun (x, _) => s!"identifier {x} used in return but not declared") ++
           badH.map (fun f => s!"unknown function {f}"), true)
    | .decl ty name rhs =>
        let p1 := if declared.contains name || pre.contains name then [s!"{name} declared twice"] else []
        let p2 := if cKeywords.contains name then [s!"{name} is a C keyword"] else []
        let p2c := if isPluginConst name then [s!"{name} is a plugin constant"] else []
        let p3 := if knownDeclTypes.contains ty then [] else [s!"declaration of {name} with unexpected type '{ty}'"]
        let bad := rhs.uses.filter (fun (x, _) => !(declared.contains x || pre.contains x || isPluginConst x))
        let p4 := bad.map (fun (x, _) => s!"identifier {x} used in the initialiser of {name} before/without declaration")
        let badH := rhs.heads.filter (fun f => !(ilHeads.contains f || ctx.callees.contains f))
        let p5 := badH.map (fun f => s!"unknown function {f} in the initialiser of {name}")
        (name :: declared, probs ++ p1 ++ p2 ++ p2c ++ p3 ++ p4 ++ p5, seenRet)
  let (_, probs, seenRet) := items.foldl step ([], [], false)
  if seenRet then probs else probs ++ ["no final return"]

def tokBalanced (ts : List Tok) : Bool :=
  let r := ts.foldl (fun (acc : Option (Int × Int)) t =>
    match acc, t with
    | none, _ => none
    | some (p, b), Tok.sym "(" => some (p + 1, b)
    | some (p, b), Tok.sym ")" => if p ≤ 0 then none else some (p - 1, b)
    | some (p, b), Tok.sym "{" => some (p, b + 1)
    | some (p, b), Tok.sym "}" => if b ≤ 0 then none else some (p, b - 1)
    | acc, _ => acc) (some (0, 0))
  r == some (0, 0)

/-- Does the token stream mention the identifier `x`? (specification side of needs_hi / needs_pkt) -/
def mentionsId (ts : List Tok) (x : String) : Bool := ts.any (· == Tok.id x)

/-! ### C12 linearity -/

def countUses (x : String) (dup : Bool) (us : List (String × Bool)) : Nat :=
  (us.filter (fun (y, d) => y == x && d == dup)).length

/-- All identifier uses after position of each declaration (later initialisers and the return). -/
def allUses (items : List Item) : List (String × Bool) :=
  items.foldr (fun it acc => match it with
    | .decl _ _ rhs => rhs.uses ++ acc
    | .ret t => t.uses ++ acc
    | .comment _ => acc) []

def linearProblems (b : Body) : List String :=
  let us := allUses b.items
  let declProbs := b.items.foldr (fun it acc => match it with
    | .decl ty name _ =>
        if ty == "RzILOpPure *" || ty == "RzILOpBool *" then
          let raw := countUses name false us
          let dup := countUses name true us
          if raw == 1 then acc
          else if raw == 0 && dup == 0 then s!"pure {name} is initialised but never used (leak)" :: acc
          else if raw == 0 then s!"pure {name} is only used through DUP, the original is never consumed (leak)" :: acc
          else s!"pure {name} is consumed {raw} times without DUP (double free)" :: acc
        else if ty == "RzILOpEffect *" then
          let n := countUses name false us + countUses name true us
          if n == 1 then acc
          else if n == 0 then s!"effect {name} is initialised but never used (leak)" :: acc
          else s!"effect {name} is used {n} times (double free)" :: acc
        else acc
    | _ => acc) []
  let paramProbs := match b.header with
    | none => []
    | some (_, ps) => ps.foldr (fun p acc =>
        if p.ty == "RZ_BORROW RzILOpPure *" then
          let raw := countUses p.name false us
          if raw ≤ 1 then acc else s!"borrowed parameter {p.name} is consumed {raw} times without DUP" :: acc
        else acc) []
  declProbs ++ paramProbs

/-! ### the read-counter protocol (`GlobalVar.il_read` / `PureExec.il_read` / `Parameter.il_read`) -/

/-- The text produced by the `k`-th read (0-based) of a non-inlined shared node `x`
    (`GlobalVar.il_read`: `reads < 1` → the variable, else `DUP(variable)`). -/
def readText (x : String) (k : Nat) : Term := if k < 1 then .id x else .app "DUP" [.id x]

/-- The texts of `n` successive reads. -/
def readsOf (x : String) (n : Nat) : List Term := (List.range n).map (readText x)


end Rzil
