import RzilVerif.Model.CText
/-
  Layer B (writing side, specification only): a token-level printer for the terms/items the parser of
  `CText.lean` reads, the *printable* fragment on which the parser is a left inverse of the printer
  (proved in `Props/C11.lean`), and the two naming schemes of the compiler (getter names, `add_op`
  names) as pure functions.
-/
namespace Rzil

/-! ### Token-level printer -/

mutual
/-- The token sequence of a term.  Non-negative integers are one `num` token holding the decimal
    representation, negative ones are `-` followed by the `num` token of the absolute value.
    (`.flt` prints its text as a `num` token but is not in the printable fragment.) -/
def Term.toToks : Term → List Tok
  | .id x => [Tok.id x]
  | .num n => if n < 0 then [Tok.sym "-", Tok.num (toString n.natAbs)] else [Tok.num (toString n.natAbs)]
  | .flt s => [Tok.num s]
  | .chr c => [Tok.chr c]
  | .str s => [Tok.str s]
  | .app f args => Tok.id f :: Tok.sym "(" :: argsToToks args
  | .addr t => Tok.sym "&" :: t.toToks
  | .ccast ty t => Tok.sym "(" :: Tok.id ty :: Tok.sym ")" :: t.toToks
  | .arrow t f => t.toToks ++ [Tok.sym "->", Tok.id f]
/-- `t1 , t2 , … , tn )` — the argument list *including* the closing parenthesis. -/
def argsToToks : List Term → List Tok
  | [] => [Tok.sym ")"]
  | [t] => t.toToks ++ [Tok.sym ")"]
  | t :: t' :: ts => t.toToks ++ Tok.sym "," :: argsToToks (t' :: ts)
end

/-- Terms that the parser reaches through `parsePostfix` (so `->` may follow them). -/
def Term.postfixable : Term → Bool
  | .addr _ => false
  | .ccast _ _ => false
  | .flt _ => false
  | _ => true

mutual
/-- The printable fragment (token level): no `.flt`; the base of `->` is a primary
    (`&x->f` is read as `&(x->f)` and `(T) x->f` as `(T)(x->f)`, so `.arrow (.addr _) _` and
    `.arrow (.ccast _ _) _` have no token sequence that parses back to them). -/
def Term.printable : Term → Bool
  | .id _ => true
  | .num _ => true
  | .flt _ => false
  | .chr _ => true
  | .str _ => true
  | .app _ args => printableList args
  | .addr t => t.printable
  | .ccast _ t => t.printable
  | .arrow t _ => t.postfixable && t.printable
def printableList : List Term → Bool
  | [] => true
  | t :: ts => t.printable && printableList ts
end

/-- A declaration type word: `*` is the symbol token, everything else an identifier token. -/
def wordTok (w : String) : Tok := if w = "*" then Tok.sym "*" else Tok.id w

/-- Split at every single space (structural, so that it evaluates in the kernel). -/
def splitSp : List Char → List Char → List (List Char)
  | [], cur => [cur.reverse]
  | c :: cs, cur => if c = ' ' then cur.reverse :: splitSp cs [] else splitSp cs (c :: cur)

/-- The words of a declaration type (the parser glues them back with `" ".intercalate`). -/
def tyWords (ty : String) : List String := (splitSp ty.toList []).map String.ofList

/-- The token sequence of an item, *including* the terminating `;` of declarations and `return`. -/
def Item.toToks : Item → List Tok
  | .comment s => [Tok.comment s]
  | .decl ty name rhs => (tyWords ty).map wordTok ++ Tok.id name :: Tok.sym "=" :: (rhs.toToks ++ [Tok.sym ";"])
  | .ret t => Tok.id "return" :: (t.toToks ++ [Tok.sym ";"])

def itemsToToks : List Item → List Tok
  | [] => []
  | i :: is => i.toToks ++ itemsToToks is

/-- Printable items: the first word of a declaration type is not `return` (it would be read as the
    `return` statement), the right-hand sides are printable terms.  (`tyWords ty` is never empty and
    `" ".intercalate (tyWords ty) = ty` always holds — `Props/C11.lean`.) -/
def Item.printable : Item → Bool
  | .comment _ => true
  | .decl ty _ rhs =>
      (match tyWords ty with
       | [] => false
       | w :: _ => w != "return") && rhs.printable
  | .ret t => t.printable

/-! ### Naming schemes -/

/-- `HexInsn` getter names: `hex_il_op_<insn lower-cased>[_part<i>]`. -/
def getterName (insn : String) (part : Option Nat) : String :=
  "hex_il_op_" ++ insn.toLower ++ (match part with | none => "" | some i => "_part" ++ toString i)

/-- `RZILTransformer.add_op`: `<base>_<id>` with `id` from `ILOpsHolder.get_op_count`. -/
def suffixName (base : List Char) (id : Nat) : List Char := base ++ '_' :: (toString id).toList

end Rzil
