import RzilVerif.Lemmas.ExprLemmas
import RzilVerif.Lemmas.ExprEqns
/-!
# C02 — the lowering of expressions preserves C semantics (operators), repaired configuration `Cfg.fixed`

`Good ms σ asg e` is the per-expression statement; one lemma `good_<constructor>` per expression form, assembled
by the recursor of `CExpr` (nested through `List` in `.macro`) in `RzilVerif/Props/C02.lean`.
-/
namespace Rzil

def Good (ms : MacroSem) (σ : MState) (asg : List String) (e : CExpr) : Prop :=
  WFE σ e = true → ∀ vC ce, evalC ms σ e = .ok vC → compileExpr ⟨asg, Cfg.fixed⟩ e = .ok ce →
    Sim ms σ ce (typeOfC e) vC ∧ (ce.ty.hasFlag VT.gBOOL = true → isBoolE e = true)

theorem good_reg (ms σ asg n k t) : Good ms σ asg (.reg n k t) := by
  intro hwf vC ce hC hI
  simp only [evalC_reg, Except.ok.injEq] at hC
  simp only [compileExpr_reg, Except.ok.injEq] at hI
  subst hC hI
  have hty : regVT Cfg.fixed n k t = t.toVT := by
    unfold regVT; cases k <;> rfl
  simp only [hty]
  refine ⟨?_, by intro h; simp at h⟩
  refine Sim.int (BitVec.ofNat t.width _) (toVT_noBool t) (vtCT_toVT t) ?_ rfl (kindOK_plain _ _)
  simp only [typeOfC]
  unfold regRead
  rw [WFE_reg] at hwf
  unfold wfReg at hwf
  cases k <;> simp only [reduceCtorEq, if_false, if_true, bne_self_eq_false, Bool.false_or, Bool.and_eq_true, beq_iff_eq, Bool.not_eq_true'] at hwf <;>
    simp only [Cfg.fixed, Bool.false_and, Bool.false_or, Bool.or_false, Bool.true_or, Bool.or_self, evalPure, hwf,
      Bool.false_eq_true, if_false, if_true]
  rw [hwf]

theorem good_imm (ms σ asg l sg) : Good ms σ asg (.imm l sg) := by
  intro hwf vC ce hC hI
  simp only [evalC_imm, Except.ok.injEq] at hC
  simp only [compileExpr_imm, Except.ok.injEq] at hI
  subst hC hI
  simp only [WFE_imm, decide_eq_true_eq] at hwf
  refine ⟨?_, by intro h; simp [VT.hasFlag, VT.gBOOL] at h⟩
  refine Sim.int (t := typeOfC (.imm l sg)) (BitVec.ofNat 32 (σ.imm l)) (by simp [VT.hasFlag, VT.gBOOL]) rfl ?_ rfl (kindOK_plain _ _)
  simp only [evalPure, hwf, typeOfC]

theorem litTypeC_width (v : Nat) (h : Bool) (sfx : String) :
    (litTypeC v h sfx).width = 32 ∨ (litTypeC v h sfx).width = 64 := by
  unfold litTypeC
  simp only
  split <;> (repeat' split) <;> simp

theorem litTypeC_inRange (v : Nat) (h : Bool) (sfx : String) (hv : v < 2 ^ 64) :
    InRangeI (litTypeC v h sfx).signed (litTypeC v h sfx).width v := by
  unfold litTypeC InRangeI
  simp only
  split <;> (repeat' split) <;> simp_all <;> omega

theorem good_lit (ms σ asg v h sfx) : Good ms σ asg (.lit v h sfx) := by
  intro hwf vC ce hC hI
  simp only [evalC_lit, Except.ok.injEq] at hC
  simp only [compileExpr_lit, Cfg.fixed, Bool.false_eq_true, if_false, Except.ok.injEq] at hI
  subst hC hI
  simp only [WFE_lit, decide_eq_true_eq] at hwf
  refine ⟨?_, by intro h; simp at h⟩
  refine Sim.int (t := typeOfC (.lit v h sfx)) (BitVec.ofNat _ v) (toVT_noBool _) (vtCT_toVT _) ?_ rfl ?_
  · simp only [numberIL, evalPure, typeOfC, BitVec.ofInt_natCast]; rfl
  · simp only [KindOK, true_and, toVT_noBool]
    refine ⟨?_, litTypeC_inRange v h sfx hwf⟩
    show 32 ≤ (litTypeC v h sfx).width
    rcases litTypeC_width v h sfx with h | h <;> omega

theorem good_var (ms σ asg n t) : Good ms σ asg (.var n t) := by
  intro hwf vC ce hC hI
  simp only [compileExpr_var, Except.ok.injEq] at hI
  subst hI
  simp only [WFE_var, wfVar] at hwf
  simp only [evalC_var] at hC
  refine ⟨?_, by intro h; simp at h⟩
  split at hwf
  · next w x hl =>
    simp only [beq_iff_eq] at hwf
    subst hwf
    rw [hl] at hC
    simp only [Except.ok.injEq] at hC
    subst hC
    refine Sim.int (t := typeOfC (.var n t)) x (toVT_noBool _) (vtCT_toVT _) ?_ rfl (kindOK_plain _ _)
    simp only [evalPure, hl]; rfl
  · cases hwf

theorem good_load (ms σ asg sg w t) : Good ms σ asg (.load sg w t) := by
  intro hwf vC ce hC hI
  simp only [compileExpr_load, Cfg.fixed, Bool.false_eq_true, if_false, Except.ok.injEq] at hI
  subst hI
  simp only [evalC_load] at hC
  refine ⟨?_, by intro h; simp at h⟩
  split at hC
  · next n ea hl =>
    simp only [convC, Except.ok.injEq] at hC
    subst hC
    refine Sim.int (t := typeOfC (.load sg w t)) _ (toVT_noBool _) (vtCT_toVT _) ?_ rfl (kindOK_plain _ _)
    have := ilCast_eq_convBits ⟨sg, w⟩ t (BitVec.ofNat w (loadBytes σ.mem ea.toNat (w / 8)))
    cases sg
    · simp only [Bool.false_eq_true, if_false] at this
      simp only [evalPure, hl, bind, Except.bind, Bool.false_eq_true, if_false, typeOfC, this]
    · simp only [if_true] at this
      simp only [evalPure, hl, bind, Except.bind, if_true, evalUn, typeOfC, this]
  · cases hC



theorem initACast_noBool (cfg : Cfg) (tgt : VT) (p : CE) (htf : tgt.hasFlag VT.gBOOL = false)
    (hne : p.ty.hasFlag VT.gBOOL = true → tgt.eqv p.ty = false) :
    (initACast cfg tgt p).ty.hasFlag VT.gBOOL = false := by
  unfold initACast
  split
  · next he =>
    cases hb : p.ty.hasFlag VT.gBOOL
    · rfl
    · rw [hne hb] at he; cases he
  · split <;> exact htf

theorem castIf_eq (cfg : Cfg) (t : VT) (ce : CE) :
    (if ce.ty.eqv t = true then (Except.ok ce : Except String CE) else .ok (initACast cfg t ce)) = .ok (initACast cfg t ce) := by
  split
  · next h => rw [initACast_of_eqv]; rw [eqv_comm]; exact h
  · rfl

theorem Sim.boolTy {ms σ ce t vC} (h : Sim ms σ ce t vC) (hb : ce.ty.hasFlag VT.gBOOL = true) :
    vtCT ce.ty = ⟨false, 1⟩ := by
  cases h with
  | int x hf => rw [hf] at hb; cases hb
  | bool b hf hw hs => simp [vtCT, hw, hs]

theorem good_cast (ms σ asg t e) (ih : Good ms σ asg e) : Good ms σ asg (.cast t e) := by
  intro hwf vC ce hC hI
  simp only [WFE_cast, Bool.and_eq_true, Bool.not_eq_true', Bool.and_eq_false_iff] at hwf
  simp only [evalC_cast, bind_ok_iff] at hC
  obtain ⟨v, hv, hC⟩ := hC
  simp only [compileExpr_cast, bind_ok_iff, castIf_eq, Except.ok.injEq] at hI
  obtain ⟨ce0, hce0, hI⟩ := hI
  subst hI
  obtain ⟨hs, hbool⟩ := ih hwf.1 v ce0 hv hce0
  obtain ⟨x, hx⟩ := hs.bv
  subst hx
  simp only [convC, Except.ok.injEq] at hC
  subst hC
  have hne : ce0.ty.hasFlag VT.gBOOL = true → t.toVT.eqv ce0.ty = false := by
    intro hb
    have h1 := hbool hb
    have h2 : t.isU1 = false := by
      rcases hwf.2 with h | h
      · rw [h1] at h; cases h
      · exact h
    rw [eqv_false_iff, hs.boolTy hb, vtCT_toVT]
    intro h3; subst h3; simp [CT.isU1] at h2
  refine ⟨sim_initACast hs t.toVT (toVT_noBool t) hne x rfl t (vtCT_toVT t), ?_⟩
  intro hb
  rw [initACast_noBool _ _ _ (toVT_noBool t) hne] at hb; cases hb



theorem Sim.int_inv {ms σ ce t} {x : BitVec t.width} (h : Sim ms σ ce t (.bv t.width x))
    (hf : ce.ty.hasFlag VT.gBOOL = false) :
    vtCT ce.ty = t ∧ evalPure ms σ [] ce.il = .ok (.bv t.width x) ∧ KindOK ce := by
  cases h with
  | int y hf' ht hev hv hk =>
    injection hv with _ hxy
    subst hxy
    exact ⟨ht, hev, hk⟩
  | bool b hf' => rw [hf] at hf'; cases hf'

theorem promotionCast_noBool {ms σ p t vC} (hs : Sim ms σ p t vC) :
    (promotionCast Cfg.fixed p).ty.hasFlag VT.gBOOL = false := by
  rw [promotionCast_eq]
  cases hs with
  | int y hf ht hev hv hk =>
    exact initACast_noBool _ _ _ (promoted_noBool _ hf) (by intro h; rw [hf] at h; cases h)
  | bool b hf hw hs' ht hev hv hk =>
    have hp : p.ty.promoted = { signed := true, width := 32, group := 1 } := by
      unfold VT.promoted; rw [if_neg (by omega)]
    apply initACast_noBool
    · rw [hp]; decide
    · intro _; rw [hp, eqv_false_iff]; simp [vtCT, hw]

theorem Sim.lit_inv {ms σ ce t v0} {x : BitVec t.width} (h : Sim ms σ ce t (.bv t.width x)) (hk : ce.kind = .lit v0) :
    ce.ty.hasFlag VT.gBOOL = false ∧ vtCT ce.ty = t ∧ 32 ≤ t.width ∧ InRangeI t.signed t.width v0 ∧
    x = BitVec.ofInt t.width v0 ∧ ce.il = numberIL ce.ty v0 := by
  have hko := h.kindOK
  simp only [KindOK, hk] at hko
  obtain ⟨hil, hw, hf, hr⟩ := hko
  obtain ⟨ht, hev, -⟩ := h.int_inv hf
  subst ht
  refine ⟨hf, rfl, hw, hr, ?_, hil⟩
  rw [hil] at hev
  simp only [numberIL, evalPure, Except.ok.injEq, Val.bv.injEq] at hev
  exact (eq_of_heq hev.2).symm

theorem unOfCE_lit_fixed (op : String) (ce : CE) (v0 : Int) (hk : ce.kind = .lit v0) :
    unOfCE Cfg.fixed op ce =
      { il := numberIL ce.ty.promoted (normInt ce.ty.promoted (if op == "-" then -(normInt ce.ty.promoted v0) else -(normInt ce.ty.promoted v0) - 1)),
        ty := ce.ty.promoted,
        kind := .lit (normInt ce.ty.promoted (if op == "-" then -(normInt ce.ty.promoted v0) else -(normInt ce.ty.promoted v0) - 1)) } := by
  unfold unOfCE
  split
  · next v0' h0 =>
    rw [hk] at h0; injection h0 with h0; subst h0
    simp only [Cfg.fixed, Bool.false_eq_true, if_false]
  · next hne => exact absurd hk (hne v0)

theorem promoted_of_ge (ty : VT) (h : 32 ≤ ty.width) : ty.promoted = ty := by
  unfold VT.promoted; rw [if_pos h]

theorem ofInt_not (w : Nat) (v : Int) : BitVec.ofInt w (-v - 1) = ~~~(BitVec.ofInt w v) := by
  rw [Int.sub_eq_add_neg, BitVec.ofInt_add, BitVec.ofInt_neg, BitVec.ofInt_neg]
  rw [BitVec.neg_eq_not_add (BitVec.ofInt w v)]
  simp only [BitVec.ofInt_ofNat]
  rw [BitVec.add_assoc, BitVec.add_right_neg]
  simp

theorem good_un (ms σ asg op e) (ih : Good ms σ asg e) : Good ms σ asg (.un op e) := by
  intro hwf vC ce hC hI
  rw [WFE_un] at hwf
  simp only [evalC_un, bind_ok_iff] at hC
  obtain ⟨v, hv, v', hv', hC⟩ := hC
  simp only [compileExpr_un, bind_ok_iff, Except.ok.injEq] at hI
  obtain ⟨ce0, hce0, hI⟩ := hI
  subst hI
  obtain ⟨hs, -⟩ := ih hwf v ce0 hv hce0
  obtain ⟨x, hx⟩ := hs.bv
  subst hx
  simp only [convC, Except.ok.injEq] at hv'
  subst hv'
  simp only at hC
  have hop : (if (op == "-") = true then (Except.ok (Val.bv (typeOfC e).promote.width (-(convBits (typeOfC e) (typeOfC e).promote x))) : Except Stuck Val)
      else .ok (.bv _ (~~~(convBits (typeOfC e) (typeOfC e).promote x)))) =
      .ok (.bv (typeOfC e).promote.width (if op == "-" then -(convBits (typeOfC e) (typeOfC e).promote x) else ~~~(convBits (typeOfC e) (typeOfC e).promote x))) := by
    split <;> rfl
  rw [hop] at hC
  simp only [Except.ok.injEq] at hC
  subst hC
  have hgen : ∀ (hk : ∀ v0, ce0.kind ≠ .lit v0),
      unOfCE Cfg.fixed op ce0 = { il := .un (if op == "-" then .neg else .lognot) (promotionCast Cfg.fixed ce0).il,
                                  ty := (promotionCast Cfg.fixed ce0).ty, kind := .plain } := by
    intro hk; unfold unOfCE; split
    · next v0 h0 => exact absurd h0 (hk v0)
    · rfl
  have hplain : (∀ v0, ce0.kind ≠ .lit v0) → Sim ms σ (unOfCE Cfg.fixed op ce0) (typeOfC (.un op e))
      (Val.bv (typeOfC e).promote.width
        (if (op == "-") = true then -convBits (typeOfC e) (typeOfC e).promote x
        else ~~~convBits (typeOfC e) (typeOfC e).promote x)) ∧
      ((unOfCE Cfg.fixed op ce0).ty.hasFlag VT.gBOOL = true → isBoolE (.un op e) = true) := by
    intro hk
    rw [hgen hk]
    have hp := sim_promotionCast hs x rfl
    have hnb := promotionCast_noBool hs
    obtain ⟨ht, hev, -⟩ := hp.int_inv hnb
    refine ⟨Sim.int _ hnb ht ?_ rfl (kindOK_plain _ _), by intro h; rw [hnb] at h; cases h⟩
    simp only [evalPure, hev, bind, Except.bind]
    split <;> rfl
  cases hk : ce0.kind with
  | lit v0 =>
    refine ⟨?_, ?_⟩
    · rw [unOfCE_lit_fixed op ce0 v0 hk]
      obtain ⟨hf, ht, hw, hr, hxv, hil⟩ := hs.lit_inv hk
      show Sim ms σ _ (typeOfC e).promote _
      have hpe : (typeOfC e).promote = typeOfC e := CT.promote_of_ge hw
      rw [hpe]
      simp only [convBits_self]
      generalize typeOfC e = te at *
      subst ht
      have hpt : ce0.ty.promoted = ce0.ty := promoted_of_ge _ hw
      rw [hpt, normInt_of_inRange ce0.ty v0 (by simp only [vtCT_width] at hw; omega) hr]
      refine Sim.int _ hf rfl ?_ rfl ?_
      · simp only [numberIL, evalPure, Except.ok.injEq, Val.bv.injEq, heq_eq_eq, true_and, vtCT_width]
        rw [normInt_spec, hxv]
        split
        · exact BitVec.ofInt_neg
        · exact ofInt_not _ _
      · simp only [KindOK, true_and]
        exact ⟨hw, hf, normInt_inRange _ _ (by simp only [vtCT_width] at hw; omega)⟩
    · rw [unOfCE_lit_fixed op ce0 v0 hk]
      obtain ⟨hf, ht, hw, -⟩ := hs.lit_inv hk
      intro hb
      have hw' : 32 ≤ ce0.ty.width := by rw [← ht] at hw; exact hw
      simp only [promoted_of_ge _ hw', hf] at hb
      cases hb
  | plain => exact hplain (by intro v0; rw [hk]; simp)
  | boolObj => exact hplain (by intro v0; rw [hk]; simp)
  | boolLit r => exact hplain (by intro v0; rw [hk]; simp)




theorem kindOK_boolObj (il : ILPure) (ty : VT) : KindOK { il := il, ty := ty, kind := .boolObj } := by
  simp [KindOK]

theorem good_not (ms σ asg e) (ih : Good ms σ asg e) : Good ms σ asg (.not e) := by
  intro hwf vC ce hC hI
  rw [WFE_not] at hwf
  simp only [evalC_not, bind_ok_iff, Except.ok.injEq] at hC
  obtain ⟨v, hv, b, hb, hC⟩ := hC
  simp only [compileExpr_not, bind_ok_iff, Except.ok.injEq] at hI
  obtain ⟨ce0, hce0, hI⟩ := hI
  subst hI hC
  obtain ⟨hs, -⟩ := ih hwf v ce0 hv hce0
  refine ⟨?_, fun _ => rfl⟩
  simp only [cfgsimp, Bool.false_eq_true, if_false]
  refine Sim.bool (!b) gBoolT_bool rfl rfl rfl ?_ rfl (kindOK_boolObj _ _)
  have := sim_cond hs hb
  simp only [evalPure, this, bind, Except.bind, evalUn]

theorem good_log (ms σ asg op a b) (iha : Good ms σ asg a) (ihb : Good ms σ asg b) : Good ms σ asg (.log op a b) := by
  intro hwf vC ce hC hI
  simp only [WFE_log, Bool.and_eq_true] at hwf
  simp only [evalC_log, bind_ok_iff, Except.ok.injEq] at hC
  obtain ⟨va, hva, vb, hvb, ba, hba, bb, hbb, hC⟩ := hC
  simp only [compileExpr_log, bind_ok_iff, Except.ok.injEq] at hI
  obtain ⟨ca, hca, cb, hcb, hI⟩ := hI
  subst hI hC
  obtain ⟨hsa, -⟩ := iha hwf.1 va ca hva hca
  obtain ⟨hsb, -⟩ := ihb hwf.2 vb cb hvb hcb
  refine ⟨?_, fun _ => rfl⟩
  simp only [cfgsimp, Bool.false_eq_true, if_false]
  refine Sim.bool _ gBoolT_bool rfl rfl rfl ?_ rfl (kindOK_boolObj _ _)
  obtain ⟨⟨ta', va', hsa', hta⟩, ⟨tb', vb', hsb', htb⟩⟩ := sim_castOperands_truth hsa hsb
  have h1 := sim_cond hsa' (hta.trans hba)
  have h2 := sim_cond hsb' (htb.trans hbb)
  simp only [evalPure, h1, h2, bind, Except.bind]
  split <;> rfl




/-- integer-typed simulation with the bit-vector exposed -/
def SimI (ms : MacroSem) (σ : MState) (ce : CE) (t : CT) (x : BitVec t.width) : Prop :=
  ce.ty.hasFlag VT.gBOOL = false ∧ vtCT ce.ty = t ∧ evalPure ms σ [] ce.il = .ok (.bv t.width x) ∧ KindOK ce

theorem SimI.sim {ms σ ce t x} (h : SimI ms σ ce t x) : Sim ms σ ce t (.bv t.width x) :=
  Sim.int x h.1 h.2.1 h.2.2.1 rfl h.2.2.2

theorem Sim.toI {ms σ ce t} {x : BitVec t.width} (h : Sim ms σ ce t (.bv t.width x))
    (hf : ce.ty.hasFlag VT.gBOOL = false) : SimI ms σ ce t x :=
  ⟨hf, h.int_inv hf⟩

theorem common_promote (a b : CT) : a.promote.common b.promote = a.common b := by
  unfold CT.common; rw [promote_promote, promote_promote]

theorem common_width_ge (a b : CT) : 32 ≤ (a.common b).width := by
  have ha := promote_width_ge a; have hb := promote_width_ge b
  unfold CT.common
  simp only
  split
  · simp only; omega
  · split <;> split <;> simp_all <;> omega

theorem castOperands_noBool {a b : CE} (hfa : a.ty.hasFlag VT.gBOOL = false) (hfb : b.ty.hasFlag VT.gBOOL = false) :
    (castOperands Cfg.fixed a b).1.ty.hasFlag VT.gBOOL = false ∧ (castOperands Cfg.fixed a b).2.ty.hasFlag VT.gBOOL = false := by
  rw [castOperands_eq]
  simp only [adjGroup_fixed]
  constructor
  · exact initACast_noBool _ _ _ (by simp [VT.hasFlag, VT.gBOOL]) (by intro h; rw [hfa] at h; cases h)
  · exact initACast_noBool _ _ _ (by simp [VT.hasFlag, VT.gBOOL]) (by intro h; rw [hfb] at h; cases h)

/-- the usual arithmetic conversions as the lowering performs them (promote both, then `castOperands`)
    agree with C's conversion of both operands to their common type -/
theorem sim_arith_operands {ms σ a b ta tb} {x : BitVec ta.width} {y : BitVec tb.width}
    (ha : Sim ms σ a ta (.bv ta.width x)) (hb : Sim ms σ b tb (.bv tb.width y)) :
    SimI ms σ (castOperands Cfg.fixed (promotionCast Cfg.fixed a) (promotionCast Cfg.fixed b)).1 (ta.common tb)
      (convBits ta (ta.common tb) x) ∧
    SimI ms σ (castOperands Cfg.fixed (promotionCast Cfg.fixed a) (promotionCast Cfg.fixed b)).2 (ta.common tb)
      (convBits tb (ta.common tb) y) := by
  have pa := sim_promotionCast ha x rfl
  have pb := sim_promotionCast hb y rfl
  have na := promotionCast_noBool ha
  have nb := promotionCast_noBool hb
  have h := sim_castOperands pa pb na nb (promote_width_ge ta) (promote_width_ge tb) _ rfl _ rfl
  have hn := castOperands_noBool na nb
  rw [common_promote, convBits_promote, convBits_promote] at h
  exact ⟨h.1.toI hn.1, h.2.toI hn.2⟩



theorem binC_eq (op : String) (va vb : Val) :
    binC op va vb = match binOp? op with
      | some o => evalBin o va vb
      | none => .error (.undef op) := by
  unfold binC binOp?
  split <;> rfl

def arith6 : BinOp → Bool
  | .add | .sub | .mul | .logand | .logor | .logxor => true
  | _ => false

theorem binOp?_arith {op o} (h : binOp? op = some o) : arith6 o = true := by
  unfold binOp? at h
  split at h <;> simp at h <;> subst h <;> rfl

theorem evalBin_arith {o : BinOp} (h : arith6 o = true) {w : Nat} (X Y : BitVec w) :
    ∃ Z : BitVec w, evalBin o (.bv w X) (.bv w Y) = .ok (.bv w Z) := by
  cases o <;> simp [arith6] at h <;> simp [evalBin, isShift]

theorem compileBin_good {ms σ asg op ca cb ta tb ce vC} {x : BitVec ta.width} {y : BitVec tb.width}
    (ha : Sim ms σ ca ta (.bv ta.width x)) (hb : Sim ms σ cb tb (.bv tb.width y))
    (hI : compileBin ⟨asg, Cfg.fixed⟩ op ca cb = .ok ce)
    (hC : binC op (.bv (ta.common tb).width (convBits ta (ta.common tb) x))
                  (.bv (ta.common tb).width (convBits tb (ta.common tb) y)) = .ok vC) :
    Sim ms σ ce (ta.common tb) vC ∧ ce.ty.hasFlag VT.gBOOL = false := by
  rw [compileBin_eq] at hI
  rw [binC_eq] at hC
  simp only at hI
  obtain ⟨h1, h2⟩ := sim_arith_operands ha hb
  cases ho : binOp? op with
  | none => rw [ho] at hC; cases hC
  | some o =>
    rw [ho] at hC hI
    simp only [Except.ok.injEq] at hI hC
    subst hI
    obtain ⟨Z, hZ⟩ := evalBin_arith (binOp?_arith ho) (convBits ta (ta.common tb) x) (convBits tb (ta.common tb) y)
    rw [hZ] at hC
    simp only [Except.ok.injEq] at hC
    subst hC
    refine ⟨Sim.int Z h1.1 h1.2.1 ?_ rfl (kindOK_plain _ _), h1.1⟩
    simp only [evalPure, h1.2.2.1, h2.2.2.1, bind, Except.bind, hZ]



theorem c11Cast_fst_group (a b : VT) : (VT.c11Cast a b).1.group = a.group := by
  unfold VT.c11Cast
  simp only
  (repeat' split) <;> rfl

theorem binOp?_plus : binOp? "+" = some .add := rfl
theorem binOp?_minus : binOp? "-" = some .sub := rfl
theorem binOp?_times : binOp? "*" = some .mul := rfl

theorem foldBin_fixed (op : String) (ca cb : CE) (va vb : Int) :
    foldBin Cfg.fixed op ca cb va vb =
      let t := (VT.c11Cast ca.ty cb.ty).1
      let r := normInt t (if op == "+" then normInt t va + normInt t vb
                          else if op == "-" then normInt t va - normInt t vb else normInt t va * normInt t vb)
      { il := numberIL t r, ty := t, kind := .lit r } := rfl

theorem hasFlag_group {a b : VT} (h : a.group = b.group) (f : Nat) : a.hasFlag f = b.hasFlag f := by
  unfold VT.hasFlag; rw [h]

theorem foldBin_good {ms σ op ca cb ta tb va vb vC} {x : BitVec ta.width} {y : BitVec tb.width}
    (ha : Sim ms σ ca ta (.bv ta.width x)) (hb : Sim ms σ cb tb (.bv tb.width y))
    (hka : ca.kind = .lit va) (hkb : cb.kind = .lit vb)
    (hop : (op == "+" || op == "-" || op == "*") = true)
    (hC : binC op (.bv (ta.common tb).width (convBits ta (ta.common tb) x))
                  (.bv (ta.common tb).width (convBits tb (ta.common tb) y)) = .ok vC) :
    Sim ms σ (foldBin Cfg.fixed op ca cb va vb) (ta.common tb) vC ∧
      (foldBin Cfg.fixed op ca cb va vb).ty.hasFlag VT.gBOOL = false := by
  obtain ⟨hfa, hta, hwa, hra, hxa, -⟩ := ha.lit_inv hka
  obtain ⟨hfb, htb, hwb, hrb, hxb, -⟩ := hb.lit_inv hkb
  rw [foldBin_fixed]
  simp only
  have hc := (c11Cast_common ca.ty cb.ty (by rw [← hta] at hwa; exact hwa) (by rw [← htb] at hwb; exact hwb)).1
  rw [hta, htb] at hc
  have hnb : (VT.c11Cast ca.ty cb.ty).1.hasFlag VT.gBOOL = false := by
    rw [hasFlag_group (c11Cast_fst_group _ _), hfa]
  have hw := common_width_ge ta tb
  rw [hxa, hxb, convBits_ofInt ta _ va (by omega) hra, convBits_ofInt tb _ vb (by omega) hrb, binC_eq] at hC
  generalize (VT.c11Cast ca.ty cb.ty).1 = t at *
  generalize ta.common tb = T at *
  subst hc
  simp only [vtCT_width] at hC hw
  have hpos : 0 < t.width := by omega
  refine ⟨Sim.int (BitVec.ofInt t.width
      (if op == "+" then normInt t va + normInt t vb
       else if op == "-" then normInt t va - normInt t vb else normInt t va * normInt t vb)) hnb rfl ?_ ?_ ?_, hnb⟩
  · simp only [numberIL, evalPure, normInt_spec, vtCT_width]
  · simp only [Bool.or_eq_true, beq_iff_eq] at hop
    rcases hop with (h | h) | h <;> subst h
    · simp only [binOp?_plus, evalBin, isShift, Bool.false_eq_true, if_false, dif_pos, Except.ok.injEq] at hC
      subst hC
      simp [BitVec.ofInt_add, normInt_spec]
    · simp only [binOp?_minus, evalBin, isShift, Bool.false_eq_true, if_false, dif_pos, Except.ok.injEq] at hC
      subst hC
      simp [Int.sub_eq_add_neg, BitVec.ofInt_add, BitVec.ofInt_neg, normInt_spec, BitVec.sub_eq_add_neg]
    · simp only [binOp?_times, evalBin, isShift, Bool.false_eq_true, if_false, dif_pos, Except.ok.injEq] at hC
      subst hC
      simp [BitVec.ofInt_mul, normInt_spec]
  · simp only [KindOK, true_and]
    exact ⟨hw, hnb, normInt_inRange _ _ hpos⟩



theorem good_bin (ms σ asg op a b) (iha : Good ms σ asg a) (ihb : Good ms σ asg b) : Good ms σ asg (.bin op a b) := by
  intro hwf vC ce hC hI
  simp only [WFE_bin, Bool.and_eq_true] at hwf
  simp only [evalC_bin, bind_ok_iff] at hC
  obtain ⟨va, hva, vb, hvb, va', hva', vb', hvb', hC⟩ := hC
  simp only [compileExpr_bin, bind_ok_iff] at hI
  obtain ⟨ca, hca, cb, hcb, hI⟩ := hI
  obtain ⟨hsa, -⟩ := iha hwf.1 va ca hva hca
  obtain ⟨hsb, -⟩ := ihb hwf.2 vb cb hvb hcb
  obtain ⟨x, hx⟩ := hsa.bv
  obtain ⟨y, hy⟩ := hsb.bv
  subst hx hy
  simp only [convC, Except.ok.injEq] at hva' hvb'
  subst hva' hvb'
  have key : Sim ms σ ce ((typeOfC a).common (typeOfC b)) vC ∧ ce.ty.hasFlag VT.gBOOL = false := by
    unfold binBody at hI
    split at hI
    · next va0 vb0 hka hkb =>
      split at hI
      · next hop =>
        simp only [Except.ok.injEq] at hI
        subst hI
        exact foldBin_good hsa hsb hka hkb hop hC
      · exact compileBin_good hsa hsb hI hC
    · exact compileBin_good hsa hsb hI hC
  exact ⟨key.1, by intro h; rw [key.2] at h; cases h⟩




theorem good_shift (ms σ asg op a b) (iha : Good ms σ asg a) (ihb : Good ms σ asg b) : Good ms σ asg (.shift op a b) := by
  intro hwf vC ce hC hI
  simp only [WFE_shift, Bool.and_eq_true, Bool.not_eq_true'] at hwf
  simp only [evalC_shift, bind_ok_iff] at hC
  obtain ⟨va, hva, vb, hvb, va', hva', hC⟩ := hC
  simp only [compileExpr_shift, bind_ok_iff, cfgsimp, Bool.false_eq_true, if_false, Except.ok.injEq] at hI
  obtain ⟨ca, hca, cb, hcb, hI⟩ := hI
  subst hI
  obtain ⟨hsa, -⟩ := iha hwf.1.1 va ca hva hca
  obtain ⟨hsb, hbb⟩ := ihb hwf.1.2 vb cb hvb hcb
  obtain ⟨x, hx⟩ := hsa.bv
  obtain ⟨y, hy⟩ := hsb.bv
  subst hx hy
  simp only [convC, Except.ok.injEq] at hva'
  subst hva'
  have hnb : cb.ty.hasFlag VT.gBOOL = false := by
    cases h : cb.ty.hasFlag VT.gBOOL
    · rfl
    · rw [hbb h] at hwf; cases hwf.2
  obtain ⟨-, hevb, -⟩ := hsb.int_inv hnb
  have hna := promotionCast_noBool hsa
  obtain ⟨hta, heva, -⟩ := (sim_promotionCast hsa x rfl).int_inv hna
  have hsg : (promotionCast Cfg.fixed ca).ty.signed = (typeOfC a).promote.signed := by rw [← hta]; rfl
  unfold shiftC at hC
  simp only at hC
  split at hC
  · cases hC
  · refine ⟨?_, by intro h; rw [hna] at h; cases h⟩
    show Sim ms σ _ (typeOfC a).promote _
    split at hC
    · next hop =>
      simp only [Except.ok.injEq] at hC; subst hC
      refine Sim.int _ hna hta ?_ rfl (kindOK_plain _ _)
      simp only [hop, if_true, evalPure, heva, hevb, bind, Except.bind, evalBin, isShift, shl_eq]
    · next hop =>
      rw [hsg]
      split at hC
      · next hs =>
        simp only [Except.ok.injEq] at hC; subst hC
        refine Sim.int _ hna hta ?_ rfl (kindOK_plain _ _)
        simp only [hop, hs, Bool.false_eq_true, if_true, if_false, evalPure, heva, hevb, bind, Except.bind, evalBin, isShift]
      · next hs =>
        simp only [Except.ok.injEq] at hC; subst hC
        refine Sim.int _ hna hta ?_ rfl (kindOK_plain _ _)
        simp only [hop, hs, Bool.false_eq_true, if_true, if_false, evalPure, heva, hevb, bind, Except.bind, evalBin, isShift]




/-- the IL of a run-time comparison -/
def cmpIL (op : String) (sg : Bool) (a b : ILPure) : ILPure :=
  match op with
  | "<" => .bin (if sg then .slt else .ult) a b
  | ">" => .bin (if sg then .sgt else .ugt) a b
  | "<=" => .bin (if sg then .sle else .ule) a b
  | ">=" => .bin (if sg then .sge else .uge) a b
  | "==" => .bin .eq a b
  | _ => .un .inv (.bin .eq a b)

theorem evalPure_cmpIL {ms σ} (op : String) (sg : Bool) {a b : ILPure} {w : Nat} {X Y : BitVec w}
    (ha : evalPure ms σ [] a = .ok (.bv w X)) (hb : evalPure ms σ [] b = .ok (.bv w Y)) :
    evalPure ms σ [] (cmpIL op sg a b) = .ok (.bool (cmpC op sg X Y)) := by
  unfold cmpIL cmpC
  split <;> cases sg <;>
    simp [evalPure, ha, hb, bind, Except.bind, evalBin, isShift, evalUn, bne]

theorem cmpOfCE_fixed (op : String) (ca cb : CE) :
    cmpOfCE Cfg.fixed op ca cb =
      let ab := castOperands Cfg.fixed (promotionCast Cfg.fixed ca) (promotionCast Cfg.fixed cb)
      { il := cmpIL op (ab.1.ty.signed || ab.2.ty.signed) ab.1.il ab.2.il, ty := gBoolT, kind := .boolObj } := rfl

theorem foldCmp_fixed (op : String) (ca cb : CE) (va vb : Int) :
    foldCmp Cfg.fixed op ca cb va vb =
      let t := (VT.c11Cast ca.ty cb.ty).1
      let r := cmpInt op (normInt t va) (normInt t vb)
      { il := if r then .btrue else .bfalse, ty := gBoolT, kind := .boolLit r } := rfl



theorem kindOK_boolLit (r : Bool) : KindOK { il := if r then .btrue else .bfalse, ty := gBoolT, kind := .boolLit r } := by
  simp [KindOK]

theorem good_cmp (ms σ asg op a b) (iha : Good ms σ asg a) (ihb : Good ms σ asg b) : Good ms σ asg (.cmp op a b) := by
  intro hwf vC ce hC hI
  simp only [WFE_cmp, Bool.and_eq_true] at hwf
  simp only [evalC_cmp, bind_ok_iff] at hC
  obtain ⟨va, hva, vb, hvb, va', hva', vb', hvb', hC⟩ := hC
  simp only [compileExpr_cmp, bind_ok_iff] at hI
  obtain ⟨ca, hca, cb, hcb, hI⟩ := hI
  unfold cmpBody at hI
  obtain ⟨hsa, -⟩ := iha hwf.1 va ca hva hca
  obtain ⟨hsb, -⟩ := ihb hwf.2 vb cb hvb hcb
  obtain ⟨x, hx⟩ := hsa.bv
  obtain ⟨y, hy⟩ := hsb.bv
  subst hx hy
  simp only [convC, Except.ok.injEq] at hva' hvb'
  subst hva' hvb'
  simp only [cmpVals, dif_pos, Except.ok.injEq] at hC
  subst hC
  refine ⟨?_, fun _ => rfl⟩
  show Sim ms σ ce intT _
  have hrun : ce = cmpOfCE Cfg.fixed op ca cb → Sim ms σ ce intT (boolVal (cmpC op ((typeOfC a).common (typeOfC b)).signed
      (convBits (typeOfC a) ((typeOfC a).common (typeOfC b)) x) (convBits (typeOfC b) ((typeOfC a).common (typeOfC b)) y))) := by
    intro hce
    subst hce
    rw [cmpOfCE_fixed]
    obtain ⟨h1, h2⟩ := sim_arith_operands hsa hsb
    simp only
    refine Sim.bool _ gBoolT_bool rfl rfl rfl ?_ rfl (kindOK_boolObj _ _)
    have hs1 : (castOperands Cfg.fixed (promotionCast Cfg.fixed ca) (promotionCast Cfg.fixed cb)).1.ty.signed =
        ((typeOfC a).common (typeOfC b)).signed := by rw [← h1.2.1]; rfl
    have hs2 : (castOperands Cfg.fixed (promotionCast Cfg.fixed ca) (promotionCast Cfg.fixed cb)).2.ty.signed =
        ((typeOfC a).common (typeOfC b)).signed := by rw [← h2.2.1]; rfl
    rw [hs1, hs2, Bool.or_self]
    exact evalPure_cmpIL op _ h1.2.2.1 h2.2.2.1
  split at hI
  · next va0 vb0 hka hkb =>
    simp only [Except.ok.injEq] at hI
    subst hI
    rw [foldCmp_fixed]
    simp only
    obtain ⟨hfa, hta, hwa, hra, hxa, -⟩ := hsa.lit_inv hka
    obtain ⟨hfb, htb, hwb, hrb, hxb, -⟩ := hsb.lit_inv hkb
    have hc := (c11Cast_common ca.ty cb.ty (by rw [← hta] at hwa; exact hwa) (by rw [← htb] at hwb; exact hwb)).1
    rw [hta, htb] at hc
    have hw := common_width_ge (typeOfC a) (typeOfC b)
    rw [hxa, hxb, convBits_ofInt _ _ va0 (by omega) hra, convBits_ofInt _ _ vb0 (by omega) hrb]
    generalize (VT.c11Cast ca.ty cb.ty).1 = t at *
    generalize (typeOfC a).common (typeOfC b) = T at *
    subst hc
    simp only [vtCT_width, vtCT_signed] at hw ⊢
    have hpos : 0 < t.width := by omega
    rw [← normInt_spec t va0, ← normInt_spec t vb0,
      cmpC_ofInt op t.signed hpos (normInt_inRange t va0 hpos) (normInt_inRange t vb0 hpos)]
    refine Sim.bool _ gBoolT_bool rfl rfl rfl ?_ rfl (kindOK_boolLit _)
    simp only
    split <;> simp_all [evalPure]
  · simp only [Except.ok.injEq] at hI
    exact hrun hI.symm




theorem ternOfCE_fixed (cc ca cb : CE) :
    ternOfCE Cfg.fixed cc ca cb =
      let fab := castOperands Cfg.fixed (promotionCast Cfg.fixed ca) (promotionCast Cfg.fixed cb)
      match cc.kind with
      | .lit v => if v != 0 then fab.1 else fab.2
      | .boolLit r => if r then fab.1 else fab.2
      | _ => { il := .ite (condIL Cfg.fixed cc) fab.1.il fab.2.il, ty := fab.1.ty, kind := .plain } := rfl

theorem inRange_zero (sg : Bool) (w : Nat) : InRangeI sg w 0 := by
  unfold InRangeI
  have := Nat.pow_pos (n := w - 1) (show 0 < 2 by omega)
  have := Nat.pow_pos (n := w) (show 0 < 2 by omega)
  cases sg <;> simp only [Bool.false_eq_true, if_false, if_true] <;> omega

theorem ofInt_toNat_ne_zero {sg : Bool} {w : Nat} (hw : 0 < w) {v : Int} (h : InRangeI sg w v) :
    ((BitVec.ofInt w v).toNat != 0) = (v != 0) := by
  rw [Bool.eq_iff_iff]
  simp only [bne_iff_ne, ne_eq]
  constructor
  · intro h1 h2; subst h2; simp at h1
  · intro h1 h2
    apply h1
    apply ofInt_inj_of_inRange hw h (inRange_zero sg w)
    apply BitVec.eq_of_toNat_eq
    simp [h2]

theorem good_tern (ms σ asg c a b) (ihc : Good ms σ asg c) (iha : Good ms σ asg a) (ihb : Good ms σ asg b) :
    Good ms σ asg (.tern c a b) := by
  intro hwf vC ce hC hI
  simp only [WFE_tern, Bool.and_eq_true] at hwf
  simp only [evalC_tern, bind_ok_iff] at hC
  obtain ⟨vc, hvc, bc, hbc, va, hva, vb, hvb, hC⟩ := hC
  simp only [compileExpr_tern, bind_ok_iff, Except.ok.injEq] at hI
  obtain ⟨cc, hcc, ca, hca, cb, hcb, hI⟩ := hI
  subst hI
  obtain ⟨hsc, -⟩ := ihc hwf.1.1 vc cc hvc hcc
  obtain ⟨hsa, -⟩ := iha hwf.1.2 va ca hva hca
  obtain ⟨hsb, -⟩ := ihb hwf.2 vb cb hvb hcb
  obtain ⟨x, hx⟩ := hsa.bv
  obtain ⟨y, hy⟩ := hsb.bv
  obtain ⟨z, hz⟩ := hsc.bv
  subst hx hy hz
  simp only [convC] at hC
  obtain ⟨h1, h2⟩ := sim_arith_operands hsa hsb
  show Sim ms σ _ ((typeOfC a).common (typeOfC b)) vC ∧ _
  rw [ternOfCE_fixed]
  simp only
  have hsel : ∀ r : Bool, r = bc →
      Sim ms σ (if r = true then (castOperands Cfg.fixed (promotionCast Cfg.fixed ca) (promotionCast Cfg.fixed cb)).1
                else (castOperands Cfg.fixed (promotionCast Cfg.fixed ca) (promotionCast Cfg.fixed cb)).2)
        ((typeOfC a).common (typeOfC b)) vC ∧
      ((if r = true then (castOperands Cfg.fixed (promotionCast Cfg.fixed ca) (promotionCast Cfg.fixed cb)).1
                else (castOperands Cfg.fixed (promotionCast Cfg.fixed ca) (promotionCast Cfg.fixed cb)).2).ty.hasFlag VT.gBOOL = true →
        isBoolE (.tern c a b) = true) := by
    intro r hr
    subst hr
    cases r
    · simp only [Bool.false_eq_true, if_false, Except.ok.injEq] at hC ⊢
      subst hC
      exact ⟨h2.sim, by intro h; rw [h2.1] at h; cases h⟩
    · simp only [if_true, Except.ok.injEq] at hC ⊢
      subst hC
      exact ⟨h1.sim, by intro h; rw [h1.1] at h; cases h⟩
  have hplain : (∀ v, cc.kind ≠ .lit v) → (∀ r, cc.kind ≠ .boolLit r) →
      Sim ms σ { il := .ite (condIL Cfg.fixed cc)
                  (castOperands Cfg.fixed (promotionCast Cfg.fixed ca) (promotionCast Cfg.fixed cb)).1.il
                  (castOperands Cfg.fixed (promotionCast Cfg.fixed ca) (promotionCast Cfg.fixed cb)).2.il,
                 ty := (castOperands Cfg.fixed (promotionCast Cfg.fixed ca) (promotionCast Cfg.fixed cb)).1.ty,
                 kind := .plain } ((typeOfC a).common (typeOfC b)) vC := by
    intro _ _
    have hcnd := sim_cond hsc hbc
    cases bc
    · simp only [Bool.false_eq_true, if_false, Except.ok.injEq] at hC
      subst hC
      refine Sim.int _ h1.1 h1.2.1 ?_ rfl (kindOK_plain _ _)
      simp [evalPure, hcnd, h1.2.2.1, h2.2.2.1, bind, Except.bind, Val.sort]
    · simp only [if_true, Except.ok.injEq] at hC
      subst hC
      refine Sim.int _ h1.1 h1.2.1 ?_ rfl (kindOK_plain _ _)
      simp [evalPure, hcnd, h1.2.2.1, h2.2.2.1, bind, Except.bind, Val.sort]
  cases hk : cc.kind with
  | lit v =>
    simp only
    obtain ⟨-, -, hw, hr, hzv, -⟩ := hsc.lit_inv hk
    apply hsel
    simp only [truthy, Except.ok.injEq] at hbc
    rw [← hbc, hzv, ofInt_toNat_ne_zero (by omega) hr]
  | boolLit r =>
    simp only
    apply hsel
    have hko := hsc.kindOK
    simp only [KindOK, hk] at hko
    cases hsc with
    | int z' hf => rw [hf] at hko; cases hko.2
    | bool b hf hw hs ht hev hv hk' =>
      rw [hv] at hbc
      rw [hko.1] at hev
      cases b <;> cases r <;> simp_all [evalPure, truthy, boolVal]
  | plain =>
    simp only
    exact ⟨hplain (by intro v; rw [hk]; simp) (by intro v; rw [hk]; simp), by intro h; rw [h1.1] at h; cases h⟩
  | boolObj =>
    simp only
    exact ⟨hplain (by intro v; rw [hk]; simp) (by intro v; rw [hk]; simp), by intro h; rw [h1.1] at h; cases h⟩




/-- What the theorem needs from the (uninterpreted) macro interpretation: for every macro of the table with a
    bit-vector result, the interpretation does not distinguish the C name from the RzIL name and returns a
    bit-vector of the table's width. -/
def MsOK (ms : MacroSem) : Prop :=
  ∀ name w, macroRetW name = some w →
    (∀ vs, ms (macroRzName name) vs = ms name vs) ∧ (∀ vs v, ms name vs = some v → ∃ x : BitVec w, v = .bv w x)

def GoodArgs (ms : MacroSem) (σ : MState) (asg : List String) (args : List CExpr) : Prop :=
  ∀ params, WFEs σ args params = true → ∀ vs ils, evalCArgs ms σ args params = .ok vs →
    compileArgs ⟨asg, Cfg.fixed⟩ args params = .ok ils → evalPures ms σ [] ils = .ok vs

theorem goodArgs_nil (ms σ asg) : GoodArgs ms σ asg [] := by
  intro params _ vs ils hC hI
  simp only [evalCArgs_nil, Except.ok.injEq] at hC
  simp only [compileArgs_nil, Except.ok.injEq] at hI
  subst hC hI
  simp only [evalPures]

theorem goodArgs_cons (ms σ asg a as) (iha : Good ms σ asg a) (ihas : GoodArgs ms σ asg as) :
    GoodArgs ms σ asg (a :: as) := by
  intro params hwf vs ils hC hI
  cases params with
  | nil => simp only [evalCArgs_cons_nil] at hC; cases hC
  | cons p ps =>
    simp only [WFEs_cons, Bool.and_eq_true, Bool.not_eq_true', Bool.and_eq_false_iff] at hwf
    simp only [evalCArgs_cons, bind_ok_iff, Except.ok.injEq] at hC
    obtain ⟨v, hv, v', hv', vs', hvs', hC⟩ := hC
    simp only [compileArgs_cons, bind_ok_iff, Except.ok.injEq] at hI
    obtain ⟨ca, hca, rest, hrest, hI⟩ := hI
    subst hC hI
    obtain ⟨hs, hbool⟩ := iha hwf.1.1 v ca hv hca
    obtain ⟨x, hx⟩ := hs.bv
    subst hx
    simp only [convC, Except.ok.injEq] at hv'
    subst hv'
    have hne : ca.ty.hasFlag VT.gBOOL = true → p.toVT.eqv ca.ty = false := by
      intro hb
      have h1 := hbool hb
      have h2 : p.isU1 = false := by
        rcases hwf.1.2 with h | h
        · rw [h1] at h; cases h
        · exact h
      rw [eqv_false_iff, hs.boolTy hb, vtCT_toVT]
      intro h3; subst h3; simp [CT.isU1] at h2
    have hcast : (if ca.ty.eqv p.toVT = true then ca else initACast Cfg.fixed p.toVT ca) = initACast Cfg.fixed p.toVT ca := by
      split
      · next h => rw [initACast_of_eqv]; rw [eqv_comm]; exact h
      · rfl
    rw [hcast]
    have hsim := sim_initACast hs p.toVT (toVT_noBool p) hne x rfl p (vtCT_toVT p)
    obtain ⟨-, hev, -⟩ := hsim.int_inv (initACast_noBool _ _ _ (toVT_noBool p) hne)
    simp only [evalPures, hev, ihas ps hwf.2 vs' rest hvs' hrest, bind, Except.bind]

theorem macroRetVT_eq (name : String) (w : Nat) (h : macroRetW name = some w) :
    macroRetVT name = { signed := (name == "sextract64"), width := w, group := 1 } := by
  unfold macroRetW at h
  unfold macroRetVT
  split at h
  · next heq => simp only [Option.some.injEq] at h; subst h; rw [heq]
  · cases h

theorem good_macro (ms σ asg name args ret params) (hms : MsOK ms) (ih : GoodArgs ms σ asg args) :
    Good ms σ asg (.macro name args ret params) := by
  intro hwf vC ce hC hI
  simp only [WFE_macro, Bool.and_eq_true] at hwf
  simp only [evalC_macro, bind_ok_iff] at hC
  obtain ⟨vs, hvs, hC⟩ := hC
  simp only [compileExpr_macro, bind_ok_iff, Except.ok.injEq] at hI
  obtain ⟨ils, hils, hI⟩ := hI
  subst hI
  have hargs := ih params hwf.1 vs ils hvs hils
  have hret := hwf.2
  unfold macroRetOK at hret
  split at hret
  · next w hw =>
    simp only [Bool.and_eq_true, beq_iff_eq] at hret
    obtain ⟨h1, h2⟩ := hms name w hw
    split at hC
    · next v hv =>
      simp only [Except.ok.injEq] at hC
      subst hC
      obtain ⟨x, hx⟩ := h2 vs v hv
      subst hx
      have hty : vtCT (macroRetVT name) = ret := by
        rw [macroRetVT_eq name w hw]
        cases ret with
        | mk s w' => simp only at hret; simp [vtCT, hret.1, hret.2]
      refine ⟨?_, by intro h; rw [macroRetVT_eq name w hw] at h; simp [VT.hasFlag, VT.gBOOL] at h⟩
      show Sim ms σ _ ret _
      subst hty
      have hw' : (macroRetVT name).width = w := by rw [macroRetVT_eq name w hw]
      subst hw'
      refine Sim.int x (by rw [macroRetVT_eq name _ hw]; simp [VT.hasFlag, VT.gBOOL]) rfl ?_ rfl (kindOK_plain _ _)
      simp only [evalPure, hargs, bind, Except.bind, h1, hv]
      rfl
    · cases hC
  · cases hret


end Rzil
