import RzilVerif.Lemmas.ExprBits
import RzilVerif.Model.ExprCarve
/-!
# Simulation relation between compiled expressions and C values, and the conversion lemmas
  (C03; used by C02 / C09)
-/
namespace Rzil

theorem bind_ok_iff {ε α β : Type} (x : Except ε α) (f : α → Except ε β) (b : β) :
    (x >>= f) = .ok b ↔ ∃ a, x = .ok a ∧ f a = .ok b := by
  cases x <;> simp [bind, Except.bind]

/-! ## definitions -/

/-- the C type denoted by a compiler type -/
def vtCT (ty : VT) : CT := ⟨ty.signed, ty.width⟩

/-- Value relation between the IL value and the C value of a compiled expression of compiler type `ty`. -/
def Rel (ty : VT) (vIL vC : Val) : Prop :=
  if ty.hasFlag VT.gBOOL then ∃ b, vIL = .bool b ∧ vC = boolVal b else vIL = vC

/-- Typing side condition: compiler type `ty` against C type `t` (and the C value has that type). -/
def TyOK (ty : VT) (t : CT) (vC : Val) : Prop :=
  if ty.hasFlag VT.gBOOL then t = intT ∧ ty.width = 1 ∧ ty.signed = false
  else ty.signed = t.signed ∧ ty.width = t.width ∧ ∃ x : BitVec t.width, vC = .bv t.width x

/-- Invariant of the object kinds: a literal is a `Number` of its own value, in the range of its type, at
    least `int` wide; a folded comparison is `IL_TRUE`/`IL_FALSE`. -/
def KindOK (ce : CE) : Prop :=
  match ce.kind with
  | .lit v => ce.il = numberIL ce.ty v ∧ 32 ≤ ce.ty.width ∧ ce.ty.hasFlag VT.gBOOL = false ∧
      InRangeI ce.ty.signed ce.ty.width v
  | .boolLit r => ce.il = (if r then .btrue else .bfalse) ∧ ce.ty.hasFlag VT.gBOOL = true
  | _ => True

/-- The compiled expression `ce` evaluates to an IL value related to the C value `vC` of C type `t`. -/
inductive Sim (ms : MacroSem) (σ : MState) (ce : CE) (t : CT) (vC : Val) : Prop
  | int (x : BitVec t.width) (hf : ce.ty.hasFlag VT.gBOOL = false) (ht : vtCT ce.ty = t)
      (hev : evalPure ms σ [] ce.il = .ok (.bv t.width x)) (hv : vC = .bv t.width x) (hk : KindOK ce)
  | bool (b : Bool) (hf : ce.ty.hasFlag VT.gBOOL = true) (hw : ce.ty.width = 1) (hs : ce.ty.signed = false)
      (ht : t = intT) (hev : evalPure ms σ [] ce.il = .ok (.bool b)) (hv : vC = boolVal b) (hk : KindOK ce)

theorem Sim.spec {ms σ ce t vC} (h : Sim ms σ ce t vC) :
    ∃ vIL, evalPure ms σ [] ce.il = .ok vIL ∧ Rel ce.ty vIL vC ∧ TyOK ce.ty t vC := by
  cases h with
  | int x hf ht hev hv hk =>
    refine ⟨_, hev, ?_, ?_⟩
    · simp only [Rel, hf, Bool.false_eq_true, if_false, hv]
    · simp only [TyOK, hf, Bool.false_eq_true, if_false]
      subst ht; exact ⟨rfl, rfl, x, hv⟩
  | bool b hf hw hs ht hev hv hk =>
    refine ⟨_, hev, ?_, ?_⟩
    · simp only [Rel, hf, if_true]; exact ⟨b, rfl, hv⟩
    · simp only [TyOK, hf, if_true]; exact ⟨ht, hw, hs⟩

theorem Sim.kindOK {ms σ ce t vC} (h : Sim ms σ ce t vC) : KindOK ce := by
  cases h <;> assumption

theorem Sim.bv {ms σ ce t vC} (h : Sim ms σ ce t vC) : ∃ x : BitVec t.width, vC = .bv t.width x := by
  cases h with
  | int x hf ht hev hv hk => exact ⟨x, hv⟩
  | bool b hf hw hs ht hev hv hk => subst ht; exact ⟨_, hv⟩

/-! ## small type facts -/

@[simp] theorem vtCT_toVT (t : CT) : vtCT t.toVT = t := rfl
@[simp] theorem toVT_noBool (t : CT) : t.toVT.hasFlag VT.gBOOL = false := by
  simp [VT.hasFlag, CT.toVT, VT.gBOOL]
@[simp] theorem gBoolT_bool : gBoolT.hasFlag VT.gBOOL = true := by decide
@[simp] theorem vtCT_width (ty : VT) : (vtCT ty).width = ty.width := rfl
@[simp] theorem vtCT_signed (ty : VT) : (vtCT ty).signed = ty.signed := rfl

theorem eqv_iff (a b : VT) : a.eqv b = true ↔ vtCT a = vtCT b := by
  unfold VT.eqv vtCT
  simp only [Bool.and_eq_true, beq_iff_eq, CT.mk.injEq]
  constructor <;> (intro h; exact ⟨h.2, h.1⟩)

theorem eqv_false_iff (a b : VT) : a.eqv b = false ↔ vtCT a ≠ vtCT b := by
  rw [← Bool.not_eq_true, eqv_iff]

theorem eqv_comm (a b : VT) : a.eqv b = b.eqv a := by
  rw [Bool.eq_iff_iff, eqv_iff, eqv_iff]; exact eq_comm

theorem vtCT_promoted (ty : VT) : vtCT ty.promoted = (vtCT ty).promote := by
  unfold VT.promoted CT.promote
  by_cases h : ty.width ≥ 32
  · rw [if_pos h, if_neg (by simp only [vtCT_width]; omega)]
  · rw [if_neg h, if_pos (by simp only [vtCT_width]; omega)]; rfl

theorem promoted_noBool (ty : VT) (h : ty.hasFlag VT.gBOOL = false) : ty.promoted.hasFlag VT.gBOOL = false := by
  unfold VT.promoted; split
  · exact h
  · rfl

theorem promote_width_ge (t : CT) : 32 ≤ t.promote.width := by
  unfold CT.promote; split
  · exact Nat.le_refl 32
  · omega

theorem promote_promote (t : CT) : t.promote.promote = t.promote :=
  CT.promote_of_ge (promote_width_ge t)

theorem convBits_self (s t : CT) (x : BitVec t.width) : convBits s t x = x := by
  unfold convBits; simp

theorem ilCast_eq_convBits (s d : CT) {n : Nat} (x : BitVec n) :
    ilCast d.width (if s.signed then x.msb else false) x = convBits s d x := by
  unfold convBits
  cases hs : s.signed
  · simp only [Bool.false_eq_true, if_false, ilCast_false_eq_setWidth]; split <;> rfl
  · simp only [if_true, ilCast_msb_eq_signExtend]
    split
    · next h => exact BitVec.signExtend_eq_setWidth_of_le x h
    · rfl

theorem convBits_bool (d : CT) (b : Bool) :
    convBits intT d (if b then (1 : BitVec 32) else 0) = if b then BitVec.ofInt d.width 1 else BitVec.ofInt d.width 0 := by
  cases b
  · have h := convBits_ofInt intT d 0 (by decide) (by decide)
    simpa [intT] using h
  · have h := convBits_ofInt intT d 1 (by decide) (by decide)
    simpa [intT] using h


/-! ## C03: `initACast` / `promotionCast` simulate the C conversion -/

theorem kindOK_plain (il : ILPure) (ty : VT) : KindOK { il := il, ty := ty, kind := .plain } := by
  simp [KindOK]

theorem sim_initACast {ms σ p src vC} (hs : Sim ms σ p src vC) (tgt : VT) (htf : tgt.hasFlag VT.gBOOL = false)
    (hne : p.ty.hasFlag VT.gBOOL = true → tgt.eqv p.ty = false)
    (x : BitVec src.width) (hx : vC = .bv src.width x) (d : CT) (hd : vtCT tgt = d) :
    Sim ms σ (initACast Cfg.fixed tgt p) d (.bv d.width (convBits src d x)) := by
  subst hd
  unfold initACast
  by_cases he : tgt.eqv p.ty = true
  · rw [if_pos he]
    cases hs with
    | int y hf ht hev hv hk =>
      have e : vtCT tgt = src := by rw [(eqv_iff _ _).mp he, ht]
      rw [e, convBits_self]
      subst hx
      exact Sim.int y hf ht hev hv hk
    | bool b hf hw hs' ht hev hv hk =>
      rw [hne hf] at he; exact absurd he (by simp)
  · rw [if_neg he]
    cases hs with
    | int y hf ht hev hv hk =>
      simp only [hf, Bool.false_and, Bool.false_eq_true, if_false, Cfg.fixed]
      subst ht
      subst hx
      injection hv with _ hxy
      subst hxy
      refine Sim.int _ htf rfl ?_ rfl (kindOK_plain _ _)
      simp only [evalPure, bind, Except.bind]
      cases hsg : p.ty.signed
      · simp only [Bool.false_eq_true, if_false, evalPure, hev]
        have := ilCast_eq_convBits (vtCT p.ty) (vtCT tgt) x
        simp only [vtCT_signed, hsg, Bool.false_eq_true, if_false, vtCT_width] at this
        simp only [vtCT_width, this]
      · simp only [if_true, evalPure, hev, bind, Except.bind, evalUn]
        have := ilCast_eq_convBits (vtCT p.ty) (vtCT tgt) x
        simp only [vtCT_signed, hsg, if_true, vtCT_width] at this
        simp only [vtCT_width, this]
    | bool b hf hw hs' ht hev hv hk =>
      simp only [hf, htf, Bool.not_false, Bool.and_self, if_true, Cfg.fixed, Bool.false_eq_true, if_false]
      subst ht
      rw [hx] at hv
      simp only [boolVal] at hv
      injection hv with _ hxy
      subst hxy
      show Sim ms σ _ (vtCT tgt) (.bv (vtCT tgt).width (@convBits intT (vtCT tgt) 32 (if b then 1 else 0)))
      rw [convBits_bool]
      refine Sim.int _ htf rfl ?_ rfl (kindOK_plain _ _)
      simp only [evalPure, bind, Except.bind, hev, numberIL, Val.sort, beq_self_eq_true, if_true, vtCT_width]
      cases b <;> rfl

theorem promotionCast_eq (cfg : Cfg) (p : CE) : promotionCast cfg p = initACast cfg p.ty.promoted p := by
  unfold promotionCast initACast
  simp only
  split <;> rfl

theorem sim_promotionCast {ms σ p src vC} (hs : Sim ms σ p src vC) (x : BitVec src.width) (hx : vC = .bv src.width x) :
    Sim ms σ (promotionCast Cfg.fixed p) src.promote (.bv src.promote.width (convBits src src.promote x)) := by
  rw [promotionCast_eq]
  cases hs with
  | int y hf ht hev hv hk =>
    apply sim_initACast (Sim.int y hf ht hev hv hk) _ (promoted_noBool _ hf) (by intro h; rw [hf] at h; cases h) x hx
    rw [vtCT_promoted, ht]
  | bool b hf hw hs' ht hev hv hk =>
    have hp : p.ty.promoted = { signed := true, width := 32, group := 1 } := by
      unfold VT.promoted; rw [if_neg (by omega)]
    apply sim_initACast (Sim.bool b hf hw hs' ht hev hv hk) _ (by rw [hp]; decide) _ x hx
    · rw [hp, ht]; rfl
    · intro _; rw [hp, eqv_false_iff]; simp [vtCT, hw]


/-! ## `c11Cast` / `castOperands` -/

theorem common_of_promoted (a b : CT) (ha : 32 ≤ a.width) (hb : 32 ≤ b.width) :
    a.common b = (if a.signed == b.signed then { signed := a.signed, width := max a.width b.width }
      else
        let s := if a.signed then a else b
        let u := if a.signed then b else a
        if u.width ≥ s.width then { signed := false, width := u.width } else { signed := true, width := s.width }) := by
  unfold CT.common
  rw [CT.promote_of_ge ha, CT.promote_of_ge hb]

theorem c11Cast_common (a b : VT) (ha : 32 ≤ a.width) (hb : 32 ≤ b.width) :
    vtCT (VT.c11Cast a b).1 = (vtCT a).common (vtCT b) ∧ vtCT (VT.c11Cast a b).2 = (vtCT a).common (vtCT b) := by
  rw [common_of_promoted _ _ ha hb]
  obtain ⟨sa, wa, ga⟩ := a
  obtain ⟨sb, wb, gb⟩ := b
  cases sa <;> cases sb <;> simp [VT.c11Cast, vtCT] <;> (repeat' split) <;> simp_all <;> omega

theorem c11Cast_width (a b : VT) :
    (VT.c11Cast a b).1.width = max a.width b.width ∧ (VT.c11Cast a b).2.width = max a.width b.width := by
  obtain ⟨sa, wa, ga⟩ := a
  obtain ⟨sb, wb, gb⟩ := b
  cases sa <;> cases sb <;> simp [VT.c11Cast] <;> (repeat' split) <;> simp_all <;> omega


def adjGroup (cfg : Cfg) (t : VT) : VT := if cfg.boolFlagCopied then t else { t with group := 1 }

theorem initACast_of_eqv (cfg : Cfg) (t : VT) (p : CE) (h : t.eqv p.ty = true) : initACast cfg t p = p := by
  unfold initACast; rw [if_pos h]

theorem castOperands_eq (cfg : Cfg) (a b : CE) :
    castOperands cfg a b = (initACast cfg (adjGroup cfg (VT.c11Cast a.ty b.ty).1) a,
                            initACast cfg (adjGroup cfg (VT.c11Cast a.ty b.ty).2) b) := by
  unfold castOperands
  by_cases he : a.ty.eqv b.ty = true
  · rw [if_pos he]
    have hc : VT.c11Cast a.ty b.ty = (a.ty, b.ty) := by
      unfold VT.c11Cast
      unfold VT.eqv at he
      simp only [Bool.and_eq_true] at he
      simp only [he.1, he.2, Bool.and_self, if_true]
    rw [hc]
    have h1 : (adjGroup cfg a.ty).eqv a.ty = true := by unfold adjGroup; split <;> simp [VT.eqv]
    have h2 : (adjGroup cfg b.ty).eqv b.ty = true := by unfold adjGroup; split <;> simp [VT.eqv]
    rw [initACast_of_eqv _ _ _ h1, initACast_of_eqv _ _ _ h2]
  · rw [if_neg he]
    have key : ∀ (t : VT) (p : CE), (if (t.width != p.ty.width || t.signed != p.ty.signed) = true then initACast cfg t p else p)
        = initACast cfg t p := by
      intro t p
      split
      · rfl
      · next h =>
        apply (initACast_of_eqv _ _ _ _).symm
        simp only [Bool.or_eq_true, bne_iff_ne, ne_eq, not_or, Decidable.not_not] at h
        simp [VT.eqv, h.1, h.2]
    cases hb : cfg.boolFlagCopied
    · simp only [adjGroup, hb, Bool.false_eq_true, if_false]
      exact congr (congrArg Prod.mk (key { (VT.c11Cast a.ty b.ty).1 with group := 1 } a))
        (key { (VT.c11Cast a.ty b.ty).2 with group := 1 } b)
    · simp only [adjGroup, hb, if_true]
      exact congr (congrArg Prod.mk (key (VT.c11Cast a.ty b.ty).1 a)) (key (VT.c11Cast a.ty b.ty).2 b)


theorem adjGroup_fixed (t : VT) : adjGroup Cfg.fixed t = { t with group := 1 } := rfl

theorem sim_castOperands {ms σ a b ta tb va vb} (ha : Sim ms σ a ta va) (hb : Sim ms σ b tb vb)
    (hfa : a.ty.hasFlag VT.gBOOL = false) (hfb : b.ty.hasFlag VT.gBOOL = false)
    (hwa : 32 ≤ ta.width) (hwb : 32 ≤ tb.width)
    (x : BitVec ta.width) (hx : va = .bv ta.width x) (y : BitVec tb.width) (hy : vb = .bv tb.width y) :
    Sim ms σ (castOperands Cfg.fixed a b).1 (ta.common tb) (.bv (ta.common tb).width (convBits ta (ta.common tb) x)) ∧
    Sim ms σ (castOperands Cfg.fixed a b).2 (ta.common tb) (.bv (ta.common tb).width (convBits tb (ta.common tb) y)) := by
  rw [castOperands_eq]
  have hta : vtCT a.ty = ta := by cases ha with
    | int _ _ ht _ _ _ => exact ht
    | bool _ hf _ _ _ _ _ _ => rw [hfa] at hf; cases hf
  have htb : vtCT b.ty = tb := by cases hb with
    | int _ _ ht _ _ _ => exact ht
    | bool _ hf _ _ _ _ _ _ => rw [hfb] at hf; cases hf
  have hc := c11Cast_common a.ty b.ty (by rw [← hta] at hwa; exact hwa) (by rw [← htb] at hwb; exact hwb)
  rw [hta, htb] at hc
  simp only [adjGroup_fixed]
  constructor
  · apply sim_initACast ha _ (by simp [VT.hasFlag, VT.gBOOL]) (by intro h; rw [hfa] at h; cases h) x hx
    exact hc.1
  · apply sim_initACast hb _ (by simp [VT.hasFlag, VT.gBOOL]) (by intro h; rw [hfb] at h; cases h) y hy
    exact hc.2

theorem sim_cond {ms σ c t vC b} (hs : Sim ms σ c t vC) (hb : truthy vC = .ok b) :
    evalPure ms σ [] (condIL Cfg.fixed c) = .ok (.bool b) := by
  unfold condIL
  simp only [Cfg.fixed, Bool.false_eq_true, if_false]
  cases hs with
  | int x hf ht hev hv hk =>
    subst hv
    simp only [hf, Bool.false_eq_true, if_false, evalPure, hev, bind, Except.bind, evalUn]
    simp only [truthy, Except.ok.injEq] at hb
    rw [hb]
  | bool b' hf hw hs' ht hev hv hk =>
    subst hv
    simp only [hf, if_true, hev]
    simp only [truthy, boolVal, Except.ok.injEq] at hb
    cases b' <;> simp_all

theorem sim_initACast_truth {ms σ p src vC} (hs : Sim ms σ p src vC) (tgt : VT) (htf : tgt.hasFlag VT.gBOOL = false)
    (hw : p.ty.width ≤ tgt.width) :
    ∃ d v', Sim ms σ (initACast Cfg.fixed tgt p) d v' ∧ truthy v' = truthy vC := by
  by_cases he : tgt.eqv p.ty = true
  · rw [initACast_of_eqv _ _ _ he]; exact ⟨_, _, hs, rfl⟩
  · obtain ⟨x, hx⟩ := hs.bv
    refine ⟨_, _, sim_initACast hs tgt htf (fun _ => by simpa using he) x hx (vtCT tgt) rfl, ?_⟩
    subst hx
    simp only [truthy, Except.ok.injEq]
    cases hs with
    | int y hf ht hev hv hk =>
      apply convBits_toNat_ne_zero
      rw [← ht]; exact hw
    | bool b hf hw' hs' ht hev hv hk =>
      subst ht
      simp only [boolVal] at hv
      injection hv with _ hxy
      subst hxy
      show ((@convBits intT (vtCT tgt) 32 (if b then 1 else 0)).toNat != 0) = _
      rw [convBits_bool]
      cases b
      · simp
      · have : 1 < 2 ^ tgt.width := Nat.one_lt_two_pow (by omega)
        simp [Nat.mod_eq_of_lt this]

/-- truth value of a C value is kept by the conversions `castOperands` applies (they never narrow an integer,
    and a comparison result is 0/1) -/
theorem sim_castOperands_truth {ms σ a b ta tb va vb} (ha : Sim ms σ a ta va) (hb : Sim ms σ b tb vb)
    :
    (∃ ta' va', Sim ms σ (castOperands Cfg.fixed a b).1 ta' va' ∧ truthy va' = truthy va) ∧
    (∃ tb' vb', Sim ms σ (castOperands Cfg.fixed a b).2 tb' vb' ∧ truthy vb' = truthy vb) := by
  rw [castOperands_eq]
  have hc := c11Cast_width a.ty b.ty
  simp only [adjGroup_fixed]
  constructor
  · apply sim_initACast_truth ha _ (by simp [VT.hasFlag, VT.gBOOL])
    show a.ty.width ≤ (VT.c11Cast a.ty b.ty).1.width; rw [hc.1]; omega
  · apply sim_initACast_truth hb _ (by simp [VT.hasFlag, VT.gBOOL])
    show b.ty.width ≤ (VT.c11Cast a.ty b.ty).2.width; rw [hc.2]; omega

end Rzil
