import RzilVerif.Lemmas.CallPend
import Std.Data.String.ToNat
/-!
  C08 helpers, part 6: the naming invariant of the pending hybrids.  Every pending entry is named `h_tmp<k>` with
  `k` below the hybrid counter; `compileExprH`/`compileArgsH` keep this and never decrease the counter.  Hence the
  temporary a call allocates is fresh: no pending entry carries its name.
-/
namespace Rzil
namespace C08

open C05 (bind_ok)

/-! ## names -/

theorem tmpName_inj {m n : Nat} (h : tmpName m = tmpName n) : m = n := by
  have h' : ("h_tmp" ++ Nat.repr m).toList = ("h_tmp" ++ Nat.repr n).toList := congrArg String.toList h
  simp only [String.toList_append, List.append_cancel_left_eq] at h'
  exact Nat.repr_inj.mp (String.toList_inj.mp h')

theorem isHTmp_tmpName (k : Nat) : isHTmp (tmpName k) = true := by
  show isHTmp ("h_tmp" ++ toString k) = true
  simp [isHTmp]

/-! ## the invariant -/

/-- every pending entry is named `h_tmp<k>` for some `k` below the counter -/
def PInv (st : HSt) : Prop := ∀ q ∈ st.pending, ∃ k, k < st.hyb ∧ q.tmp = tmpName k

theorem PInv.init (imms : List (String × Bool)) (live : List String) (hyb : Nat) :
    PInv { imms := imms, live := live, hyb := hyb, pending := [] } := by
  intro q hq; simp at hq

/-- the temporary the next hybrid gets is the name of no pending entry -/
theorem PInv.fresh {st : HSt} (h : PInv st) : ∀ q ∈ st.pending, q.tmp ≠ tmpName st.hyb := by
  intro q hq he
  obtain ⟨k, hk, hn⟩ := h q hq
  have := tmpName_inj (hn.symm.trans he)
  omega

/-- `st'` extends `st`: the counter did not decrease and the invariant is kept -/
structure Ext (st st' : HSt) : Prop where
  hyb : st.hyb ≤ st'.hyb
  inv : PInv st → PInv st'

theorem Ext.refl (st : HSt) : Ext st st := ⟨Nat.le_refl _, id⟩

theorem Ext.trans {a b c : HSt} (h1 : Ext a b) (h2 : Ext b c) : Ext a c :=
  ⟨Nat.le_trans h1.hyb h2.hyb, fun h => h2.inv (h1.inv h)⟩

theorem Ext.of_names {st st' : HSt} (hh : st.hyb ≤ st'.hyb)
    (hp : ∀ q ∈ st'.pending, (∃ q0 ∈ st.pending, q0.tmp = q.tmp) ∨ ∃ k, k < st'.hyb ∧ q.tmp = tmpName k) :
    Ext st st' := by
  refine ⟨hh, fun hi q hq => ?_⟩
  rcases hp q hq with ⟨q0, hq0, ht⟩ | h
  · obtain ⟨k, hk, hn⟩ := hi q0 hq0
    exact ⟨k, by omega, ht ▸ hn⟩
  · exact h

/-- same counter, and every pending name of `st'` is a pending name of `st` -/
structure NamesSub (st st' : HSt) : Prop where
  hyb : st'.hyb = st.hyb
  names : ∀ q ∈ st'.pending, ∃ q0 ∈ st.pending, q0.tmp = q.tmp

theorem NamesSub.ext {st st' : HSt} (h : NamesSub st st') : Ext st st' :=
  Ext.of_names (by rw [h.hyb]; exact Nat.le_refl _) (fun q hq => Or.inl (h.names q hq))

theorem NamesSub.refl (st : HSt) : NamesSub st st := ⟨rfl, fun q hq => ⟨q, hq, rfl⟩⟩

theorem NamesSub.trans {a b c : HSt} (h1 : NamesSub a b) (h2 : NamesSub b c) : NamesSub a c :=
  ⟨h2.hyb.trans h1.hyb, fun q hq => by
    obtain ⟨q1, hq1, e1⟩ := h2.names q hq
    obtain ⟨q0, hq0, e0⟩ := h1.names q1 hq1
    exact ⟨q0, hq0, e0.trans e1⟩⟩

theorem NamesSub.of_subset {st st' : HSt} (hh : st'.hyb = st.hyb) (hs : st'.pending ⊆ st.pending) : NamesSub st st' :=
  ⟨hh, fun q hq => ⟨q, hs hq, rfl⟩⟩

theorem NamesSub.of_map {st st' : HSt} (f : Pend → Pend) (hf : ∀ p, (f p).tmp = p.tmp) (hh : st'.hyb = st.hyb)
    (hs : st'.pending = st.pending.map f) : NamesSub st st' := by
  refine ⟨hh, fun q hq => ?_⟩
  rw [hs] at hq
  obtain ⟨p, hp, rfl⟩ := List.mem_map.mp hq
  exact ⟨p, hp, (hf p).symm⟩

/-- appending the entry of the next hybrid and stepping the counter -/
theorem Ext.push {st st' : HSt} (rest : List Pend) (p : Pend) (hrest : rest ⊆ st.pending) (hp : p.tmp = tmpName st.hyb)
    (hh : st'.hyb = st.hyb + 1) (hs : st'.pending = rest ++ [p]) : Ext st st' := by
  refine Ext.of_names (by omega) (fun q hq => ?_)
  rw [hs] at hq
  rcases List.mem_append.mp hq with hq | hq
  · exact Or.inl ⟨q, hrest hq, rfl⟩
  · simp only [List.mem_singleton] at hq; subst hq
    exact Or.inr ⟨st.hyb, by omega, hp⟩

theorem chk_namesSub (st : HSt) (e : ILEffect) (bare : List String) (after : Bool) :
    NamesSub st (chk st e bare after).2 := by
  unfold chk
  simp only
  split
  · exact NamesSub.refl _
  · exact NamesSub.of_subset rfl (popPending_rest_subset _ _)

/-- wrapping the statement of a statement-expression arm keeps the names -/
theorem gccWrap_namesSub (st : HSt) (o : Option String) (f : String → Pend → Pend) (hf : ∀ n p, (f n p).tmp = p.tmp) :
    NamesSub st (match o with
      | some n => { st with pending := st.pending.map (f n) }
      | none => st) := by
  cases o with
  | none => exact NamesSub.refl _
  | some n => exact NamesSub.of_map (f n) (hf n) rfl rfl

/-- the final state of a pure continuation is the state it was given -/
macro "same_state " h:ident : tactic => `(tactic| (
  repeat' split at $h:ident
  all_goals first
    | (injection $h:ident with $h:ident; injection $h:ident with _ $h:ident; exact ($h).symm)
    | (obtain ⟨_, _, $h:ident⟩ := bind_ok $h:ident
       injection $h:ident with $h:ident; injection $h:ident with _ $h:ident; exact ($h).symm)))

/-! ## compilation extends the hybrid state -/

mutual
theorem compileExprH_ext (env : CEnv) : ∀ (e : CExpr) (st : HSt) (ce : CE) (st' : HSt),
    compileExprH env st e = .ok (ce, st') → Ext st st'
  | .imm l s, st, ce, st', h => by
      rw [compileExprH] at h
      obtain ⟨r, _, h⟩ := bind_ok h
      injection h with h; injection h with _ h; subst h
      split
      · exact Ext.refl _
      · exact NamesSub.ext ⟨rfl, fun q hq => ⟨q, hq, rfl⟩⟩
  | .cast t e, st, ce, st', h => by
      rw [compileExprH] at h
      obtain ⟨⟨c1, st1⟩, h1, h⟩ := bind_ok h
      have : st' = st1 := by simp only at h; same_state h
      subst this; exact compileExprH_ext env e _ _ _ h1
  | .un op e, st, ce, st', h => by
      rw [compileExprH] at h
      obtain ⟨⟨c1, st1⟩, h1, h⟩ := bind_ok h
      have : st' = st1 := by simp only at h; same_state h
      subst this; exact compileExprH_ext env e _ _ _ h1
  | .not e, st, ce, st', h => by
      rw [compileExprH] at h
      obtain ⟨⟨c1, st1⟩, h1, h⟩ := bind_ok h
      have : st' = st1 := by simp only at h; same_state h
      subst this; exact compileExprH_ext env e _ _ _ h1
  | .bin op a b, st, ce, st', h => by
      rw [compileExprH] at h
      obtain ⟨⟨ca, st1⟩, h1, h⟩ := bind_ok h
      obtain ⟨⟨cb, st2⟩, h2, h⟩ := bind_ok h
      have : st' = st2 := by simp only at h; same_state h
      subst this
      exact (compileExprH_ext env a _ _ _ h1).trans (compileExprH_ext env b _ _ _ h2)
  | .shift op a b, st, ce, st', h => by
      rw [compileExprH] at h
      obtain ⟨⟨ca, st1⟩, h1, h⟩ := bind_ok h
      obtain ⟨⟨cb, st2⟩, h2, h⟩ := bind_ok h
      have : st' = st2 := by simp only at h; same_state h
      subst this
      exact (compileExprH_ext env a _ _ _ h1).trans (compileExprH_ext env b _ _ _ h2)
  | .cmp op a b, st, ce, st', h => by
      rw [compileExprH] at h
      obtain ⟨⟨ca, st1⟩, h1, h⟩ := bind_ok h
      obtain ⟨⟨cb, st2⟩, h2, h⟩ := bind_ok h
      have : st' = st2 := by simp only at h; same_state h
      subst this
      exact (compileExprH_ext env a _ _ _ h1).trans (compileExprH_ext env b _ _ _ h2)
  | .log op a b, st, ce, st', h => by
      rw [compileExprH] at h
      obtain ⟨⟨ca, st1⟩, h1, h⟩ := bind_ok h
      obtain ⟨⟨cb, st2⟩, h2, h⟩ := bind_ok h
      have : st' = st2 := by simp only at h; same_state h
      subst this
      exact (compileExprH_ext env a _ _ _ h1).trans (compileExprH_ext env b _ _ _ h2)
  | .tern c a b, st, ce, st', h => by
      rw [compileExprH] at h
      obtain ⟨⟨cc, st1⟩, h1, ha⟩ := bind_ok h; clear h
      obtain ⟨⟨ca, st2⟩, h2, hb⟩ := bind_ok ha; clear ha
      obtain ⟨⟨cb, st3⟩, h3, h⟩ := bind_ok hb; clear hb
      refine (compileExprH_ext env c _ _ _ h1).trans ((compileExprH_ext env a _ _ _ h2).trans
        ((compileExprH_ext env b _ _ _ h3).trans ?_))
      apply NamesSub.ext
      simp only at h
      split at h
      · -- folded condition: the dead arm's temporary leaves the pending list
        injection h with h; injection h with _ h; subst h
        split
        · split
          · exact NamesSub.of_subset rfl (fun x hx => (List.mem_filter.mp hx).1)
          · split
            · exact ⟨rfl, fun q hq => ⟨q, hq, rfl⟩⟩
            · exact NamesSub.refl _
        · exact NamesSub.refl _
      · -- statement-expression arms are wrapped, names unchanged
        injection h with h; injection h with _ h; subst h
        refine (gccWrap_namesSub st3 (gccTmpOf st3 ca)
          (fun n p => if p.tmp == n then { p with exec := ILEffect.branch (condILk cc) p.exec ILEffect.empty } else p)
          (fun n p => by split <;> rfl)).trans ?_
        exact gccWrap_namesSub _ (gccTmpOf _ cb)
          (fun n p => if p.tmp == n then { p with exec := ILEffect.branch (condILk cc) ILEffect.empty p.exec } else p)
          (fun n p => by split <;> rfl)
  | .macro name args ret params, st, ce, st', h => by
      rw [compileExprH] at h
      obtain ⟨⟨cargs, st1⟩, h1, h⟩ := bind_ok h
      have : st' = st1 := by simp only at h; same_state h
      subst this; exact compileArgsH_ext env args _ _ _ _ h1
  | .post v t op, st, ce, st', h => by
      rw [compileExprH] at h
      injection h with h; injection h with _ h; subst h
      exact Ext.push st.pending _ (List.Subset.refl _) rfl rfl rfl
  | .call name args ret params, st, ce, st', h => by
      obtain ⟨cargs, st1, h1, _, rfl⟩ := compileExprH_call h
      refine (compileArgsH_ext env args _ _ _ _ h1).trans ?_
      exact Ext.push _ _ (popPending_rest_subset _ _) rfl rfl rfl
  | .stmtexpr t v e, st, ce, st', h => by
      rw [compileExprH] at h
      obtain ⟨⟨c1, st1⟩, h1, h⟩ := bind_ok h
      refine (compileExprH_ext env e _ _ _ h1).trans ?_
      simp only at h
      injection h with h; injection h with _ h; subst h
      exact (chk_namesSub st1 _ [] false).ext.trans
        (Ext.push (chk st1 _ [] false).2.pending _ (List.Subset.refl _) rfl rfl rfl)
  | .seqexpr name exts args params val, st, ce, st', h => by
      rw [compileExprH] at h
      obtain ⟨⟨cargs, st1⟩, h1, h⟩ := bind_ok h
      obtain ⟨⟨cv, st2⟩, h2, h⟩ := bind_ok h
      refine (compileArgsH_ext env args _ _ _ _ h1).trans ((compileExprH_ext env val _ _ _ h2).trans ?_)
      simp only at h
      injection h with h; injection h with _ h; subst h
      exact Ext.push _ _ (popPending_rest_subset _ _) rfl rfl rfl
  | .callx name exts args ret params, st, ce, st', h => by
      rw [compileExprH] at h
      obtain ⟨⟨cargs, st1⟩, h1, h⟩ := bind_ok h
      refine (compileArgsH_ext env args _ _ _ _ h1).trans ?_
      simp only at h
      injection h with h; injection h with _ h; subst h
      exact Ext.push _ _ (popPending_rest_subset _ _) rfl rfl rfl
  | .xmacro name exts ret, st, ce, st', h => by
      rw [compileExprH] at h
      injection h with h; injection h with _ h; subst h; exact Ext.refl _
  | .reg n k t, st, ce, st', h => by
      simp only [compileExprH] at h
      obtain ⟨r, _, h⟩ := bind_ok h
      injection h with h; injection h with _ h; subst h; exact Ext.refl _
  | .lit v hx sfx, st, ce, st', h => by
      simp only [compileExprH] at h
      obtain ⟨r, _, h⟩ := bind_ok h
      injection h with h; injection h with _ h; subst h; exact Ext.refl _
  | .var n t, st, ce, st', h => by
      simp only [compileExprH] at h
      obtain ⟨r, _, h⟩ := bind_ok h
      injection h with h; injection h with _ h; subst h; exact Ext.refl _
  | .load s w t, st, ce, st', h => by
      simp only [compileExprH] at h
      obtain ⟨r, _, h⟩ := bind_ok h
      injection h with h; injection h with _ h; subst h; exact Ext.refl _
theorem compileArgsH_ext (env : CEnv) : ∀ (args : List CExpr) (st : HSt) (params : List CT) (ils : List ILPure) (st' : HSt),
    compileArgsH env st args params = .ok (ils, st') → Ext st st'
  | [], st, params, ils, st', h => by
      rw [compileArgsH] at h
      injection h with h; injection h with _ h; subst h; exact Ext.refl _
  | a :: as, st, [], ils, st', h => by
      rw [compileArgsH] at h; cases h
  | a :: as, st, p :: ps, ils, st', h => by
      obtain ⟨ca, st1, rest, h1, h2, _⟩ := compileArgsH_cons h
      exact (compileExprH_ext env a _ _ _ h1).trans (compileArgsH_ext env as _ _ _ _ h2)
end

end C08
end Rzil
