import RzilVerif.Lemmas.VCallSem
/-!
  C08 helpers: value calls with pass-through arguments (`CExpr.callx`: `get_usr_field(bundle, FIELD)`, `get_npc(pkt)`,
  routines with a by-reference register operand) and pass-through macros (`CExpr.xmacro`) on the two semantics.

  * the abstract cell: what `get_usr_field` reads after `set_usr_field`;
  * IL side: the call effects `hex_get_usr_field(bundle, FIELD)` / `HEX_GET_NPC(pkt)` (specification-level readings of
    `ILSem.lean`) put the value into `ret_val`; rendering the pending entry of the call sets the temporary;
  * C side: `evalCH` on the call gives the same value and leaves the state alone;
  * by-reference operands of C-side routines: the equation `evalCH` satisfies, the refusal when the operand is handed
    over under another name.
-/
namespace Rzil
namespace C08x
open C05 C06

/-! ## the abstract cell -/

theorem usrCell_inj {f g : String} (h : usrCell f = usrCell g) : f = g := by
  unfold usrCell at h
  have := congrArg String.toList h
  simp only [String.toList_append, List.append_cancel_left_eq] at this
  exact String.toList_inj.mp this

/-- `get_usr_field` after `set_usr_field` of the SAME field reads what was written -/
theorem readUsr_usrState_same (σ : MState) (fld : String) (x : BitVec 32) :
    readUsr (usrState σ fld x) fld = x.toNat := by
  simp [readUsr, usrState]

theorem usrVal_usrState_same (σ : MState) (fld : String) (x : BitVec 32) :
    usrVal (usrState σ fld x) fld = x := by
  unfold usrVal
  rw [readUsr_usrState_same]
  simp

/-- … of ANOTHER field: what was there before -/
theorem readUsr_usrState_other (σ : MState) {fld g : String} (x : BitVec 32) (h : g ≠ fld) :
    readUsr (usrState σ fld x) g = readUsr σ g := by
  have : (usrCell g == usrCell fld) = false := by
    simpa using fun e => h (usrCell_inj e)
  simp only [readUsr, usrState, this, Bool.false_eq_true, ↓reduceIte]

theorem usrVal_usrState_other (σ : MState) {fld g : String} (x : BitVec 32) (h : g ≠ fld) :
    usrVal (usrState σ fld x) g = usrVal σ g := by
  unfold usrVal; rw [readUsr_usrState_other σ x h]

/-- a cell nobody wrote in this instruction reads as its value before the instruction -/
theorem readUsr_unwritten (σ : MState) (fld : String) (h : σ.written (usrCell fld) = false) :
    readUsr σ fld = σ.cur (usrCell fld) := by
  simp [readUsr, h]

/-- setting a local does not touch the cells -/
theorem usrVal_setLocal (σ : MState) (n : String) (v : Val) (fld : String) :
    usrVal { σ with locals := setLocal σ.locals n v } fld = usrVal σ fld := rfl

/-! ## IL side -/

/-- the state after `hex_get_usr_field(bundle, fld)` -/
def getUsrState (σ : MState) (fld : String) : MState :=
  { σ with locals := setLocal σ.locals "ret_val" (.bv 64 ((usrVal σ fld).setWidth 64)) }

/-- the state after `HEX_GET_NPC(pkt)` -/
def npcState (σ : MState) : MState :=
  { σ with locals := setLocal σ.locals "ret_val" (.bv 64 (BitVec.ofNat 64 (σ.pktAddr + 4))) }

theorem evalPures_extArgs_only (ms : MacroSem) (σ : MState) (exts : List String) :
    evalPures ms σ [] (extArgs exts ++ []) = .ok (exts.map (fun _ => Val.ext) ++ []) :=
  evalPures_extArgs ms σ exts [] [] (by rw [evalPures])

theorem hex_get_usr_field_prefix : ("hex_get_usr_field" : String).startsWith "hex_" = true := by simp

/-- **IL semantics of the call effect.** With no compiled body supplied, `hex_get_usr_field(b, FIELD)` puts the 32-bit
    content of the cell of FIELD (zero-extended to 64 bit) into `ret_val` and changes nothing else. -/
theorem ExecIL_callx_get_usr (ms : MacroSem) (σ : MState) (b fld : String) :
    ExecIL ms (callxEffect "get_usr_field" [b, fld] []) σ (getUsrState σ fld) := by
  refine ExecIL_of_step (fun k => ?_)
  have hn : callxName "get_usr_field" = "hex_get_usr_field" := by decide
  unfold callxEffect
  rw [hn, execIL]
  refine bind_ok_of (evalPures_extArgs_only ms σ [b, fld]) ?_
  rw [if_pos hex_get_usr_field_prefix]
  have hl : lookupS (("hex_get_usr_field" : String).drop 4).toString ([] : SubEnv) = none := rfl
  rw [hl]
  simp only [getUsrFieldIL, extArgs, List.map_cons, List.map_nil, List.append_nil, extName]
  rw [if_neg (by decide), if_pos (by decide)]
  rfl

/-- `HEX_GET_NPC(pkt)` puts the packet address + 4 (64 bit) into `ret_val` -/
theorem ExecIL_callx_get_npc (ms : MacroSem) (σ : MState) (p : String) :
    ExecIL ms (callxEffect "get_npc" [p] []) σ (npcState σ) := by
  refine ExecIL_of_step (fun k => ?_)
  have hn : callxName "get_npc" = "HEX_GET_NPC" := by decide
  unfold callxEffect
  rw [hn, execIL]
  refine bind_ok_of (evalPures_extArgs_only ms σ [p]) ?_
  rw [if_neg (by simp), if_neg (by decide), if_pos (by decide)]
  rfl

/-- `UNSIGNED(32, VARL("ret_val"))` on a 64-bit `ret_val` keeps the low half -/
theorem eval_unsigned_ret (ms : MacroSem) (σ : MState) (r : BitVec 64)
    (h : lookupS "ret_val" σ.locals = some (.bv 64 r)) :
    evalPure ms σ [] (.unsigned 32 (.varl "ret_val")) = .ok (.bv 32 (r.setWidth 32)) := by
  simp only [evalPure, h, bind, Except.bind, ilCast]
  rfl

theorem lookupS_ret_setLocal (l : List (String × Val)) (v : Val) : lookupS "ret_val" (setLocal l "ret_val" v) = some v :=
  C05.lookupS_setLocal_self _ _ _

/-- the pending entry of a value call `uint32_t f(exts…)` without value arguments and with nothing pending -/
theorem callxPend_noargs (st : HSt) (name : String) (exts : List String) :
    callxPend st name exts [] ⟨false, 32⟩ =
      { tmp := tmpName st.hyb, deps := [], exec := callxEffect name exts [],
        setTmp := .setl (tmpName st.hyb) (.unsigned 32 (.varl "ret_val")), setFirst := false, gcc := false } := by
  have : (popPending st.pending (tmpsOfPures [])).1 = [] := by
    simp [tmpsOfPures, popPending]
  simp [callxPend, this]

/-- **rendering the entry of `get_usr_field(b, FIELD)`**: the temporary receives the content of the cell (32 bit) -/
theorem callx_get_usr_render (ms : MacroSem) (st : HSt) (b fld : String) (σ : MState) :
    ExecIL ms (callxPend st "get_usr_field" [b, fld] [] ⟨false, 32⟩).render σ
      { getUsrState σ fld with locals := setLocal (getUsrState σ fld).locals (tmpName st.hyb) (.bv 32 (usrVal σ fld)) } := by
  rw [callxPend_noargs]
  have hv : evalPure ms (getUsrState σ fld) [] (.unsigned 32 (.varl "ret_val")) = .ok (.bv 32 (usrVal σ fld)) := by
    rw [eval_unsigned_ret ms _ ((usrVal σ fld).setWidth 64) (lookupS_ret_setLocal _ _)]
    congr 2
    apply BitVec.eq_of_toNat_eq
    simp only [BitVec.toNat_setWidth]
    have := (usrVal σ fld).isLt
    omega
  exact execThenSet_render_exec ms (tmpName st.hyb) _ _ false σ (getUsrState σ fld) _ (ExecIL_callx_get_usr ms σ b fld) hv

/-- **rendering the entry of `get_npc(pkt)`**: the temporary receives the packet address + 4 (32 bit) -/
theorem callx_get_npc_render (ms : MacroSem) (st : HSt) (p : String) (σ : MState) :
    ExecIL ms (callxPend st "get_npc" [p] [] ⟨false, 32⟩).render σ
      { npcState σ with locals := setLocal (npcState σ).locals (tmpName st.hyb) (.bv 32 (BitVec.ofNat 32 (σ.pktAddr + 4))) } := by
  rw [callxPend_noargs]
  have hv : evalPure ms (npcState σ) [] (.unsigned 32 (.varl "ret_val")) = .ok (.bv 32 (BitVec.ofNat 32 (σ.pktAddr + 4))) := by
    rw [eval_unsigned_ret ms _ (BitVec.ofNat 64 (σ.pktAddr + 4)) (lookupS_ret_setLocal _ _)]
    congr 2
    apply BitVec.eq_of_toNat_eq
    simp only [BitVec.toNat_setWidth, BitVec.toNat_ofNat]
    omega
  exact execThenSet_render_exec ms (tmpName st.hyb) _ _ false σ (npcState σ) _ (ExecIL_callx_get_npc ms σ p) hv

/-! ## C side -/

theorem evalCHArgs_nil_eq (ms : MacroSem) (subs : CSubEnv) (f : Nat) (σ : MState) (ps : List CT) :
    evalCHArgs ms subs (f+1) σ [] ps = .ok ([], σ) := by rw [evalCHArgs]

/-- `get_usr_field(b, FIELD)` on the C side: the content of the cell, the state is left alone -/
theorem evalCH_callx_get_usr (ms : MacroSem) (subs : CSubEnv) (f : Nat) (σ : MState) (b fld : String) (ret : CT) :
    evalCH ms subs (f+2) σ (.callx "get_usr_field" [b, fld] [] ret []) = .ok (.bv 32 (usrVal σ fld), σ) := by
  rw [evalCH]
  refine bind_ok_of (evalCHArgs_nil_eq ms subs f σ []) ?_
  simp only [specCallC]

/-- `get_npc(pkt)` on the C side: the packet address + 4 -/
theorem evalCH_callx_get_npc (ms : MacroSem) (subs : CSubEnv) (f : Nat) (σ : MState) (p : String) (ret : CT) :
    evalCH ms subs (f+2) σ (.callx "get_npc" [p] [] ret []) = .ok (.bv 32 (BitVec.ofNat 32 (σ.pktAddr + 4)), σ) := by
  rw [evalCH]
  refine bind_ok_of (evalCHArgs_nil_eq ms subs f σ []) ?_
  simp only [specCallC]

/-- a pass-through macro on the C side: the uninterpreted function applied to payload-free arguments -/
theorem evalCH_xmacro (ms : MacroSem) (subs : CSubEnv) (f : Nat) (σ : MState) (name : String) (exts : List String)
    (ret : CT) (v : Val) (h : ms name (exts.map (fun _ => Val.ext)) = some v) :
    evalCH ms subs (f+1) σ (.xmacro name exts ret) = .ok (v, σ) := by
  rw [evalCH]; simp only [h]

/-- … and on the IL side: the same function on the same arguments (under the plugin's name of the macro) -/
theorem evalPure_xmacro (ms : MacroSem) (σ : MState) (name : String) (exts : List String) (v : Val)
    (h : ms (macroRzName name) (exts.map (fun _ => Val.ext)) = some v) :
    evalPure ms σ [] (.macro (macroRzName name) (extArgs exts)) = .ok v := by
  have := evalPures_extArgs_only ms σ exts
  simp only [List.append_nil] at this
  rw [evalPure]
  simp only [this, bind, Except.bind, h]

/-! ## by-reference operands of C-side routines -/

/-- **the call of a C-side routine with by-reference operands**: when the caller hands over exactly the operands the
    routine names (`refArgs exts = sub.refs`), the call runs the body in the routine's own scope and brings back the
    return value, memory AND the operand slots (`new`/`written`) — the body's writes to `RxV` are writes to the
    caller's `RxV` -/
theorem evalCH_callx_sub {ms : MacroSem} {subs : CSubEnv} {f : Nat} {σ σ1 σr : MState} {name : String} {exts : List String}
    {args : List CExpr} {ret : CT} {params : List CT} {vs : List Val} {sub : CSub} {v : Val}
    (hargs : evalCHArgs ms subs f σ args params = .ok (vs, σ1))
    (hspec : specCallC name exts σ1 = none) (hsub : lookupS name subs = some sub) (hrefs : refArgs exts = sub.refs)
    (hbody : execCHs ms subs f sub.body { σ1 with locals := (sub.params.map (·.1)).zip vs } = .ok σr)
    (hret : lookupS "$ret" σr.locals = some v) {v' : Val}
    (hconv : convC { signed := false, width := 64 } sub.ret v = .ok v') :
    evalCH ms subs (f+1) σ (.callx name exts args ret params) =
      .ok (v', { σ1 with mem := σr.mem, stores := σr.stores, new := σr.new, written := σr.written }) := by
  rw [evalCH]
  refine bind_ok_of hargs ?_
  simp only [hspec, hsub]
  rw [if_neg (by simpa using hrefs)]
  refine bind_ok_of hbody ?_
  simp only [hret, hconv, bind, Except.bind]

/-- … and is refused (no meaning, the state is not judged) when the operand is handed over under another name -/
theorem evalCH_callx_other_operand {ms : MacroSem} {subs : CSubEnv} {f : Nat} {σ σ1 : MState} {name : String}
    {exts : List String} {args : List CExpr} {ret : CT} {params : List CT} {vs : List Val} {sub : CSub}
    (hargs : evalCHArgs ms subs f σ args params = .ok (vs, σ1))
    (hspec : specCallC name exts σ1 = none) (hsub : lookupS name subs = some sub) (hrefs : refArgs exts ≠ sub.refs) :
    evalCH ms subs (f+1) σ (.callx name exts args ret params) =
      .error (.undef "by-reference operand handed over under another name") := by
  rw [evalCH, hargs]
  simp only [bind, Except.bind, hspec, hsub]
  rw [if_pos (by simpa using hrefs)]

end C08x
end Rzil
