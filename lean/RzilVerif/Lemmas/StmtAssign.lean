import RzilVerif.Lemmas.StmtCases
import RzilVerif.Lemmas.StmtBits
/-!
  C05 helpers, part 5: assignment (simple and compound) to locals and registers.
-/
namespace Rzil
namespace C05

theorem Sim.cval {ms σ ce t vC} (h : Sim ms σ ce t vC) : ∃ y : BitVec t.width, vC = .bv t.width y := by
  cases hcb : ce.ty.hasFlag VT.gBOOL with
  | false => obtain ⟨x, _, rfl, _⟩ := h.bv hcb; exact ⟨x, rfl⟩
  | true => obtain ⟨b, _, rfl, rfl, _⟩ := h.bool hcb; exact ⟨_, rfl⟩

theorem convC_bv_inv {src dst : CT} {n : Nat} {x : BitVec n} {y : BitVec dst.width}
    (h : convC src dst (.bv n x) = .ok (.bv dst.width y)) : y = convBits src dst x := by
  rw [convC_bv] at h
  simp only [Except.ok.injEq, Val.bv.injEq, heq_eq_eq, true_and] at h
  exact h.symm

/-- `if target.eqv p.ty then p else initACast cfg target p` is `initACast cfg target p` -/
theorem convTo_eq' (cfg : Cfg) (t : VT) (ce : CE) :
    (if t.eqv ce.ty then ce else initACast cfg t ce) = initACast cfg t ce := by
  unfold initACast
  split <;> rfl

/-- IL side of `+= -= *=`: computed in the promoted type of the target, converted back -/
theorem il_arithA {ms σ} {cd ce : CE} {tl te : CT} {xl : BitVec tl.width} {yE : BitVec te.width} {o : BinOp}
    (ho : isArith6 o = true)
    (hsd : Sim ms σ cd tl (.bv tl.width xl))
    (hse : Sim ms σ ce te (.bv te.width yE)) (h1 : tl.width ≠ 1) :
    Sim ms σ (initACast Cfg.fixed tl.toVT
      { il := .bin o (promotionCast Cfg.fixed cd).il (promotionCast Cfg.fixed (initACast Cfg.fixed tl.toVT ce)).il,
        ty := (promotionCast Cfg.fixed cd).ty, kind := .plain }) tl
      (.bv tl.width (bvBin o xl (convBits te tl yE))) ∧
    (initACast Cfg.fixed tl.toVT
      { il := .bin o (promotionCast Cfg.fixed cd).il (promotionCast Cfg.fixed (initACast Cfg.fixed tl.toVT ce)).il,
        ty := (promotionCast Cfg.fixed cd).ty, kind := .plain }).ty.hasFlag VT.gBOOL = false := by
  obtain ⟨y', hcy, hsy, _, _⟩ := sim_convTo tl hse h1
  have := convC_bv_inv hcy; subst this
  obtain ⟨xa, hca, hsa, hea, hab⟩ := sim_promote hsd
  have := convC_bv_inv hca; subst this
  obtain ⟨yb, hcb, hsb, heb, hbb⟩ := sim_promote hsy
  have := convC_bv_inv hcb; subst this
  obtain ⟨_, _, _, hsg, hwd⟩ := hsa.bv hab
  have hev0 : evalPure ms σ [] (.bin o (promotionCast Cfg.fixed cd).il
      (promotionCast Cfg.fixed (initACast Cfg.fixed tl.toVT ce)).il) = .ok (.bv tl.promote.width
        (bvBin o (convBits tl tl.promote xl) (convBits tl tl.promote (convBits te tl yE)))) := by
    simp only [evalPure, hea, heb, bind, Except.bind]
    exact evalBin_bvBin ho _ _
  have hs0 := @Sim.of_bv ms σ { il := _, ty := (promotionCast Cfg.fixed cd).ty, kind := .plain } tl.promote _ hab hev0 hsg hwd
  obtain ⟨z, hcz, hsz, _, hnz⟩ := sim_convTo tl hs0 h1
  have := convC_bv_inv hcz; subst this
  rw [narrow_bvBin ho tl tl.promote tl tl xl _ (promote_width_ge tl)] at hsz
  have : convBits tl tl (convBits te tl yE) = convBits te tl yE := by simp [convBits]
  rw [this] at hsz
  exact ⟨hsz, hnz⟩

/-- IL side of `&= |= ^=`: computed in the type of the target (no promotion) -/
theorem il_arithB {ms σ} {cd ce : CE} {tl te : CT} {xl : BitVec tl.width} {yE : BitVec te.width} {o : BinOp}
    (ho : isArith6 o = true)
    (hsd : Sim ms σ cd tl (.bv tl.width xl)) (hdb : cd.ty.hasFlag VT.gBOOL = false)
    (hse : Sim ms σ ce te (.bv te.width yE)) (h1 : tl.width ≠ 1) :
    Sim ms σ (initACast Cfg.fixed tl.toVT
      { il := .bin o cd.il (initACast Cfg.fixed tl.toVT ce).il, ty := cd.ty, kind := .plain }) tl
      (.bv tl.width (bvBin o xl (convBits te tl yE))) ∧
    (initACast Cfg.fixed tl.toVT
      { il := .bin o cd.il (initACast Cfg.fixed tl.toVT ce).il, ty := cd.ty, kind := .plain }).ty.hasFlag VT.gBOOL = false := by
  obtain ⟨y', hcy, hsy, hey, _⟩ := sim_convTo tl hse h1
  have := convC_bv_inv hcy; subst this
  obtain ⟨x', hed, hx, hsg, hwd⟩ := hsd.bv hdb
  simp only [Val.bv.injEq, heq_eq_eq, true_and] at hx; subst hx
  have hev0 : evalPure ms σ [] (.bin o cd.il (initACast Cfg.fixed tl.toVT ce).il) =
      .ok (.bv tl.width (bvBin o xl (convBits te tl yE))) := by
    simp only [evalPure, hed, hey, bind, Except.bind]
    exact evalBin_bvBin ho _ _
  have hs0 := @Sim.of_bv ms σ { il := _, ty := cd.ty, kind := .plain } tl _ hdb hev0 hsg hwd
  obtain ⟨z, hcz, hsz, _, hnz⟩ := sim_convTo tl hs0 h1
  have := convC_bv_inv hcz; subst this
  have : convBits tl tl (bvBin o xl (convBits te tl yE)) = bvBin o xl (convBits te tl yE) := by simp [convBits]
  rw [this] at hsz
  exact ⟨hsz, hnz⟩

def shiftRes {w : Nat} (shl sg : Bool) (x : BitVec w) (n : Nat) : BitVec w :=
  if shl then x <<< n else if sg then x.sshiftRight n else x >>> n

/-- IL side of `<<= >>=`: both operands promoted, shifted in the promoted type of the target, converted back -/
theorem il_shift {ms σ} {cd ce : CE} {tl te : CT} {xl : BitVec tl.width} {yE : BitVec te.width} (shl : Bool)
    (hsd : Sim ms σ cd tl (.bv tl.width xl))
    (hse : Sim ms σ ce te (.bv te.width yE)) (h1 : tl.width ≠ 1)
    (hamt : (te.signed && yE.msb) = false) :
    Sim ms σ (initACast Cfg.fixed tl.toVT
      { il := .bin (if shl then .shiftl0 else if (promotionCast Cfg.fixed cd).ty.signed then .shiftra else .shiftr0)
                (promotionCast Cfg.fixed cd).il (promotionCast Cfg.fixed ce).il,
        ty := (promotionCast Cfg.fixed cd).ty, kind := .plain }) tl
      (.bv tl.width (convBits tl.promote tl
          (shiftRes shl tl.promote.signed (convBits tl tl.promote xl) yE.toNat))) ∧
    (initACast Cfg.fixed tl.toVT
      { il := .bin (if shl then .shiftl0 else if (promotionCast Cfg.fixed cd).ty.signed then .shiftra else .shiftr0)
                (promotionCast Cfg.fixed cd).il (promotionCast Cfg.fixed ce).il,
        ty := (promotionCast Cfg.fixed cd).ty, kind := .plain }).ty.hasFlag VT.gBOOL = false := by
  obtain ⟨xa, hca, hsa, hea, hab⟩ := sim_promote hsd
  have := convC_bv_inv hca; subst this
  obtain ⟨yb, hcb, hsb, heb, hbb⟩ := sim_promote hse
  have := convC_bv_inv hcb; subst this
  obtain ⟨_, _, _, hsg, hwd⟩ := hsa.bv hab
  have hev0 : evalPure ms σ [] (.bin (if shl then .shiftl0 else if (promotionCast Cfg.fixed cd).ty.signed then .shiftra else .shiftr0)
      (promotionCast Cfg.fixed cd).il (promotionCast Cfg.fixed ce).il) = .ok (.bv tl.promote.width
        (shiftRes shl tl.promote.signed (convBits tl tl.promote xl) yE.toNat)) := by
    have htn := convBits_promote_toNat te yE hamt
    simp only [evalPure, hea, heb, bind, Except.bind, hsg, shiftRes]
    cases shl
    · cases tl.promote.signed <;> simp [evalBin, isShift, htn]
    · simp [evalBin, isShift, htn]
  have hs0 := @Sim.of_bv ms σ { il := _, ty := (promotionCast Cfg.fixed cd).ty, kind := .plain } tl.promote _ hab hev0 hsg hwd
  obtain ⟨z, hcz, hsz, _, hnz⟩ := sim_convTo tl hs0 h1
  have := convC_bv_inv hcz; subst this
  exact ⟨hsz, hnz⟩

/-! ### C side of compound assignment -/

def arithOpOf : String → Option BinOp
  | "+" => some .add | "-" => some .sub | "*" => some .mul
  | "&" => some .logand | "|" => some .logor | "^" => some .logxor | _ => none

theorem arithOpOf_isArith6 {cop o} (h : arithOpOf cop = some o) : isArith6 o = true := by
  unfold arithOpOf at h
  split at h <;> simp at h <;> subst h <;> rfl

theorem c_arith {ms σ} {lhs e : CExpr} {cop : String} {o : BinOp} (ho : arithOpOf cop = some o)
    {xl : BitVec (typeOfC lhs).width} {yE : BitVec (typeOfC e).width} {v v' : Val}
    (hL : evalC ms σ lhs = .ok (.bv _ xl)) (hEv : evalC ms σ e = .ok (.bv _ yE))
    (hv : evalC ms σ (.bin cop lhs e) = .ok v)
    (hv' : convC (typeOfC (.bin cop lhs e)) (typeOfC lhs) v = .ok v') :
    v' = .bv (typeOfC lhs).width (bvBin o xl (convBits (typeOfC e) (typeOfC lhs) yE)) := by
  have ho6 := arithOpOf_isArith6 ho
  have hval : v = .bv ((typeOfC lhs).common (typeOfC e)).width
      (bvBin o (convBits (typeOfC lhs) ((typeOfC lhs).common (typeOfC e)) xl)
               (convBits (typeOfC e) ((typeOfC lhs).common (typeOfC e)) yE)) := by
    simp only [evalC, hL, hEv, bind, Except.bind, convC_bv] at hv
    unfold arithOpOf at ho
    split at ho <;> simp at ho <;> subst ho <;>
      (simp only [evalBin_bvBin ho6] at hv; exact (Except.ok.inj hv).symm)
  subst hval
  simp only [typeOfC, convC_bv, Except.ok.injEq] at hv'
  rw [← hv', narrow_bvBin ho6 _ _ _ _ xl yE (common_width_ge_left _ _)]

theorem c_shift {ms σ} {lhs e : CExpr} (shl : Bool)
    {xl : BitVec (typeOfC lhs).width} {yE : BitVec (typeOfC e).width} {v v' : Val}
    (hL : evalC ms σ lhs = .ok (.bv _ xl)) (hEv : evalC ms σ e = .ok (.bv _ yE))
    (hv : evalC ms σ (.shift (if shl then "<<" else ">>") lhs e) = .ok v)
    (hv' : convC (typeOfC (.shift (if shl then "<<" else ">>") lhs e)) (typeOfC lhs) v = .ok v') :
    ((typeOfC e).signed && yE.msb) = false ∧
    v' = .bv (typeOfC lhs).width (convBits (typeOfC lhs).promote (typeOfC lhs)
          (shiftRes shl (typeOfC lhs).promote.signed (convBits (typeOfC lhs) (typeOfC lhs).promote xl) yE.toNat)) := by
  simp only [evalC, hL, hEv, bind, Except.bind, convC_bv] at hv
  split at hv
  · simp at hv
  · rename_i hcond
    simp only [Bool.or_eq_true, not_or, Bool.not_eq_true] at hcond
    refine ⟨hcond.1, ?_⟩
    have hval : v = .bv (typeOfC lhs).promote.width
        (shiftRes shl (typeOfC lhs).promote.signed (convBits (typeOfC lhs) (typeOfC lhs).promote xl) yE.toNat) := by
      cases shl
      · simp only [Bool.false_eq_true, ↓reduceIte, shiftRes] at hv ⊢
        have : (">>" == "<<") = false := by decide
        simp only [this, Bool.false_eq_true, ↓reduceIte] at hv
        split at hv <;> simp_all
      · simp only [↓reduceIte, shiftRes, beq_self_eq_true] at hv ⊢
        exact (Except.ok.inj hv).symm
    subst hval
    simp only [typeOfC, convC_bv, Except.ok.injEq] at hv'
    exact hv'.symm

/-! ### the value an assignment stores -/

/-- the value `lhs op= e` stores into `lhs` (type `tl`), from the old value `xl` of `lhs` and the value
    `yE` of `e` (type `te`), on bit patterns -/
def assignVal (op : String) (tl te : CT) (xl : BitVec tl.width) (yE : BitVec te.width) : BitVec tl.width :=
  match op with
  | "=" => convBits te tl yE
  | "+=" => bvBin .add xl (convBits te tl yE)
  | "-=" => bvBin .sub xl (convBits te tl yE)
  | "*=" => bvBin .mul xl (convBits te tl yE)
  | "&=" => bvBin .logand xl (convBits te tl yE)
  | "|=" => bvBin .logor xl (convBits te tl yE)
  | "^=" => bvBin .logxor xl (convBits te tl yE)
  | "<<=" => convBits tl.promote tl (shiftRes true tl.promote.signed (convBits tl tl.promote xl) yE.toNat)
  | ">>=" => convBits tl.promote tl (shiftRes false tl.promote.signed (convBits tl tl.promote xl) yE.toNat)
  | _ => xl

def isShiftOp (op : String) : Prop := op = "<<=" ∨ op = ">>="

/-- C side: `lhs op= e` evaluated as `lhs = lhs op e` yields `assignVal`; a defined shift has a
    non-negative amount -/
theorem c_assign {ms σ} {lhs : CExpr} {op : String} {e : CExpr} (hop : op ∈ assignOps)
    {xl : BitVec (typeOfC lhs).width} {yE : BitVec (typeOfC e).width} {v v' : Val}
    (hL : op ≠ "=" → evalC ms σ lhs = .ok (.bv _ xl)) (hEv : evalC ms σ e = .ok (.bv _ yE))
    (hv : evalC ms σ (compoundExpr lhs op e) = .ok v)
    (hv' : convC (typeOfC (compoundExpr lhs op e)) (typeOfC lhs) v = .ok v') :
    v' = .bv _ (assignVal op (typeOfC lhs) (typeOfC e) xl yE) ∧
      (isShiftOp op → ((typeOfC e).signed && yE.msb) = false) := by
  simp only [assignOps, List.mem_cons, List.not_mem_nil, or_false] at hop
  rcases hop with rfl | rfl | rfl | rfl | rfl | rfl | rfl | rfl | rfl
  · simp only [compoundExpr] at hv hv'
    rw [hEv] at hv; cases hv
    rw [convC_bv] at hv'; cases hv'
    exact ⟨rfl, fun h => by rcases h with h | h <;> simp at h⟩
  · exact ⟨c_arith (o := .add) rfl (hL (by decide)) hEv hv hv', fun h => by rcases h with h | h <;> simp at h⟩
  · exact ⟨c_arith (o := .sub) rfl (hL (by decide)) hEv hv hv', fun h => by rcases h with h | h <;> simp at h⟩
  · exact ⟨c_arith (o := .mul) rfl (hL (by decide)) hEv hv hv', fun h => by rcases h with h | h <;> simp at h⟩
  · exact ⟨c_arith (o := .logand) rfl (hL (by decide)) hEv hv hv', fun h => by rcases h with h | h <;> simp at h⟩
  · exact ⟨c_arith (o := .logor) rfl (hL (by decide)) hEv hv hv', fun h => by rcases h with h | h <;> simp at h⟩
  · exact ⟨c_arith (o := .logxor) rfl (hL (by decide)) hEv hv hv', fun h => by rcases h with h | h <;> simp at h⟩
  · obtain ⟨ha, hr⟩ := c_shift true (hL (by decide)) hEv hv hv'
    exact ⟨hr, fun _ => ha⟩
  · obtain ⟨ha, hr⟩ := c_shift false (hL (by decide)) hEv hv hv'
    exact ⟨hr, fun _ => ha⟩

theorem compileAssign_lhs {env lhs op ce r} (h : compileAssign env lhs op ce = .ok r) :
    ∃ cd, compileExpr env lhs = .ok cd := by
  unfold compileAssign at h
  obtain ⟨cd, hcd, _⟩ := bind_ok h
  exact ⟨cd, hcd⟩

/-- IL side: the source `compileAssign` emits (under `Cfg.fixed`) simulates `assignVal`, and the effect
    is the write of that source to the target -/
theorem il_assign {ms σ} {env : CEnv} (henv : env.cfg = Cfg.fixed) {lhs : CExpr} {op : String} {ce : CE}
    {eff : ILEffect} {src cd : CE} {tl te : CT} {xl : BitVec tl.width} {yE : BitVec te.width}
    (hcomp : compileAssign env lhs op ce = .ok (eff, src))
    (hcd : compileExpr env lhs = .ok cd) (hcdty : cd.ty = tl.toVT) (h1 : tl.width ≠ 1) (hop : op ∈ assignOps)
    (hsd : op ≠ "=" → Sim ms σ cd tl (.bv tl.width xl))
    (hse : Sim ms σ ce te (.bv te.width yE))
    (hamt : isShiftOp op → (te.signed && yE.msb) = false) :
    destWrite lhs src.il = .ok eff ∧ Sim ms σ src tl (.bv tl.width (assignVal op tl te xl yE)) ∧
      src.ty.hasFlag VT.gBOOL = false := by
  unfold compileAssign at hcomp
  rw [hcd] at hcomp
  simp only [bind, Except.bind, convTo_eq', convTo_eq, hcdty, henv] at hcomp
  have hcnb : Cfg.fixed.compoundNoConvertBack = false := rfl
  have hdb : cd.ty.hasFlag VT.gBOOL = false := by simp [hcdty, CT.toVT, VT.hasFlag, VT.gBOOL]
  simp only [assignOps, List.mem_cons, List.not_mem_nil, or_false] at hop
  rcases hop with rfl | rfl | rfl | rfl | rfl | rfl | rfl | rfl | rfl
  · -- "="
    simp (config := { decide := true }) only [Bool.false_eq_true, ↓reduceIte, Bool.or_true] at hcomp
    obtain ⟨x, hcv, hs, _, hnb⟩ := sim_convTo tl hse h1
    have := convC_bv_inv hcv; subst this
    split at hcomp
    · simp at hcomp
    · rename_i eff' hdw
      simp only [Except.ok.injEq, Prod.mk.injEq] at hcomp
      obtain ⟨rfl, rfl⟩ := hcomp
      exact ⟨hdw, hs, hnb⟩
  · -- "+="
    simp (config := { decide := true }) only [hcnb, Bool.false_eq_true, ↓reduceIte, Bool.or_false] at hcomp
    have hs := il_arithA (o := .add) rfl (hsd (by decide)) hse h1
    split at hcomp
    · simp at hcomp
    · rename_i eff' hdw
      simp only [Except.ok.injEq, Prod.mk.injEq] at hcomp
      obtain ⟨rfl, rfl⟩ := hcomp
      exact ⟨hdw, hs.1, hs.2⟩
  · -- "-="
    simp (config := { decide := true }) only [hcnb, Bool.false_eq_true, ↓reduceIte, Bool.or_false] at hcomp
    have hs := il_arithA (o := .sub) rfl (hsd (by decide)) hse h1
    split at hcomp
    · simp at hcomp
    · rename_i eff' hdw
      simp only [Except.ok.injEq, Prod.mk.injEq] at hcomp
      obtain ⟨rfl, rfl⟩ := hcomp
      exact ⟨hdw, hs.1, hs.2⟩
  · -- "*="
    simp (config := { decide := true }) only [hcnb, Bool.false_eq_true, ↓reduceIte, Bool.or_false] at hcomp
    have hs := il_arithA (o := .mul) rfl (hsd (by decide)) hse h1
    split at hcomp
    · simp at hcomp
    · rename_i eff' hdw
      simp only [Except.ok.injEq, Prod.mk.injEq] at hcomp
      obtain ⟨rfl, rfl⟩ := hcomp
      exact ⟨hdw, hs.1, hs.2⟩
  · -- "&="
    simp (config := { decide := true }) only [hcnb, Bool.false_eq_true, ↓reduceIte, Bool.or_false] at hcomp
    have hs := il_arithB (o := .logand) rfl (hsd (by decide)) hdb hse h1
    simp only [hcdty] at hs
    split at hcomp
    · simp at hcomp
    · rename_i eff' hdw
      simp only [Except.ok.injEq, Prod.mk.injEq] at hcomp
      obtain ⟨rfl, rfl⟩ := hcomp
      exact ⟨hdw, hs.1, hs.2⟩
  · -- "|="
    simp (config := { decide := true }) only [hcnb, Bool.false_eq_true, ↓reduceIte, Bool.or_false] at hcomp
    have hs := il_arithB (o := .logor) rfl (hsd (by decide)) hdb hse h1
    simp only [hcdty] at hs
    split at hcomp
    · simp at hcomp
    · rename_i eff' hdw
      simp only [Except.ok.injEq, Prod.mk.injEq] at hcomp
      obtain ⟨rfl, rfl⟩ := hcomp
      exact ⟨hdw, hs.1, hs.2⟩
  · -- "^="
    simp (config := { decide := true }) only [hcnb, Bool.false_eq_true, ↓reduceIte, Bool.or_false] at hcomp
    have hs := il_arithB (o := .logxor) rfl (hsd (by decide)) hdb hse h1
    simp only [hcdty] at hs
    split at hcomp
    · simp at hcomp
    · rename_i eff' hdw
      simp only [Except.ok.injEq, Prod.mk.injEq] at hcomp
      obtain ⟨rfl, rfl⟩ := hcomp
      exact ⟨hdw, hs.1, hs.2⟩
  · -- "<<="
    simp (config := { decide := true }) only [hcnb, Bool.false_eq_true, ↓reduceIte, Bool.or_false] at hcomp
    have hs := il_shift true (hsd (by decide)) hse h1 (hamt (Or.inl rfl))
    simp only [Bool.false_eq_true, ↓reduceIte] at hs
    split at hcomp
    · simp at hcomp
    · rename_i eff' hdw
      simp only [Except.ok.injEq, Prod.mk.injEq] at hcomp
      obtain ⟨rfl, rfl⟩ := hcomp
      exact ⟨hdw, hs.1, hs.2⟩
  · -- ">>="
    simp (config := { decide := true }) only [hcnb, Bool.false_eq_true, ↓reduceIte, Bool.or_false] at hcomp
    have hs := il_shift false (hsd (by decide)) hse h1 (hamt (Or.inr rfl))
    simp only [Bool.false_eq_true, ↓reduceIte] at hs
    split at hcomp
    · simp at hcomp
    · rename_i eff' hdw
      simp only [Except.ok.injEq, Prod.mk.injEq] at hcomp
      obtain ⟨rfl, rfl⟩ := hcomp
      exact ⟨hdw, hs.1, hs.2⟩

/-! ### the target -/

/-- the C side's write of a value to an assignment target -/
def writeLhsC (σ : MState) (lhs : CExpr) (v : Val) : Except Stuck MState :=
  match lhs with
  | .var n _ => .ok { σ with locals := setLocal σ.locals n v }
  | .reg n k _ => writeRegC σ n k v
  | .imm l _ => (match v with
      | .bv _ x => .ok { σ with imm := fun q => if q == l then x.toNat else σ.imm q }
      | _ => .error (.sort "immediate write"))
  | _ => .error (.undef "assignment target")

theorem execC_assign (ms : MacroSem) (f : Nat) (lhs : CExpr) (op : String) (e : CExpr) (σ : MState) :
    execC ms (f+1) (.assign lhs op e) σ = (do
      let v ← evalC ms σ (compoundExpr lhs op e)
      let v ← convC (typeOfC (compoundExpr lhs op e)) (typeOfC lhs) v
      writeLhsC σ lhs v) := by
  cases lhs <;> first | (simp only [execC, writeLhsC]; done) | (simp only [execC, writeLhsC]; rfl)

theorem lhs_facts {c : Ctx} {env : CEnv} (henv : env.cfg = Cfg.fixed) {lhs : CExpr}
    (hl : lhsOK c lhs = true) {cd : CE} (hcd : compileExpr env lhs = .ok cd) :
    cd.ty = (typeOfC lhs).toVT ∧ (typeOfC lhs).width ≠ 1 := by
  cases lhs with
  | var n t =>
    simp only [lhsOK, Bool.and_eq_true, bne_iff_ne, ne_eq] at hl
    simp only [compileExpr, Except.ok.injEq] at hcd
    subst hcd
    exact ⟨rfl, hl.2⟩
  | reg n k t =>
    simp only [lhsOK, Bool.and_eq_true, bne_iff_ne, ne_eq] at hl
    simp only [compileExpr, Except.ok.injEq] at hcd
    subst hcd
    refine ⟨?_, hl.2⟩
    simp only [regVT, henv, Cfg.fixed, Bool.false_eq_true, ↓reduceIte, typeOfC]
    cases k <;> rfl
  | imm l s =>
    simp only [compileExpr, Except.ok.injEq] at hcd
    subst hcd
    exact ⟨rfl, by simp [typeOfC]⟩
  | _ => simp [lhsOK] at hl

theorem destWrite_correct {ms : MacroSem} {c : Ctx} (hc : c.ok = true) {lhs : CExpr}
    (hl : lhsOK c lhs = true) {il : ILPure} {eff : ILEffect}
    (hd : destWrite lhs il = .ok eff) {σC σIL σC' : MState} (hinv : Inv c σC σIL)
    {x : BitVec (typeOfC lhs).width} (he : evalPure ms σIL [] il = .ok (.bv _ x))
    (hC : writeLhsC σC lhs (.bv _ x) = .ok σC') :
    ∃ σIL', ExecIL ms eff σIL σIL' ∧ Inv c σC' σIL' := by
  cases lhs with
  | var n t =>
    simp only [lhsOK, Bool.and_eq_true, bne_iff_ne, ne_eq] at hl
    obtain ⟨hl, _⟩ := hl
    simp only [destWrite, Except.ok.injEq] at hd
    subst hd
    simp only [writeLhsC, Except.ok.injEq] at hC
    subst hC
    cases ht : lookupS n c.types with
    | none => rw [ht] at hl; simp at hl
    | some t' =>
      rw [ht] at hl
      simp only [beq_iff_eq] at hl
      obtain ⟨ts', tw'⟩ := t'
      simp only at hl; subst hl
      exact ⟨_, ExecIL_setl he, hinv.setDeclared hc ht x⟩
  | reg n k t =>
    simp only [lhsOK, Bool.and_eq_true, bne_iff_ne, ne_eq, beq_iff_eq, Bool.not_eq_eq_eq_not, Bool.not_true,
      List.contains_eq_mem, decide_eq_false_iff_not] at hl
    obtain ⟨⟨hw, hsrc⟩, _⟩ := hl
    simp only [destWrite, Except.ok.injEq] at hd
    subst hd
    simp only [writeLhsC, writeRegC, Except.ok.injEq] at hC
    subst hC
    refine ⟨_, ExecIL_of_step (fun f => ?_), hinv.writeReg (opvarOf n k) x.toNat hsrc⟩
    rw [execIL]
    refine bind_ok_of he ?_
    simp only [hw, typeOfC, ↓reduceIte]
  | imm l s =>
    -- an assignable immediate: the IL sets the local of the letter, the C side its immediate
    simp only [lhsOK, List.contains_eq_mem, decide_eq_true_eq] at hl
    simp only [destWrite, Except.ok.injEq] at hd
    subst hd
    simp only [writeLhsC, Except.ok.injEq] at hC
    subst hC
    exact ⟨_, ExecIL_setl he, hinv.writeImm hc hl x⟩
  | _ => simp [lhsOK] at hl

section
variable {ms : MacroSem} {WF : MState → CExpr → Prop} (hE : ExprOK ms WF)
variable {c : Ctx} {env : CEnv} (henv : env.cfg = Cfg.fixed)
include hE henv

theorem compound_sims {lhs e : CExpr} {cd ce : CE} {σC σIL : MState} {vL vE : Val}
    (hWF : WFHyp ms WF c [lhs, e]) (hinv : Inv c σC σIL)
    (hcd : compileExpr env lhs = .ok cd) (hce : compileExpr env e = .ok ce)
    (hL : evalC ms σC lhs = .ok vL) (hEv : evalC ms σC e = .ok vE) :
    ∃ (xl : BitVec (typeOfC lhs).width) (yE : BitVec (typeOfC e).width),
      vL = .bv _ xl ∧ vE = .bv _ yE ∧
      Sim ms σIL cd (typeOfC lhs) (.bv _ xl) ∧ Sim ms σIL ce (typeOfC e) (.bv _ yE) := by
  have hsd := expr_sim hE henv (hinv.rel.agreeOn _ _ _) hinv.inv hinv.immVal (hWF.mono (by simp)) hL hcd
  have hse := expr_sim hE henv (hinv.rel.agreeOn _ _ _) hinv.inv hinv.immVal (hWF.mono (by simp)) hEv hce
  obtain ⟨xl, rfl⟩ := hsd.cval
  obtain ⟨yE, rfl⟩ := hse.cval
  exact ⟨xl, yE, rfl, rfl, hsd, hse⟩

omit hE henv in
theorem evalC_compound_parts {ms σ lhs op e v} (hop : op ∈ assignOps) (hne : op ≠ "=")
    (h : evalC ms σ (compoundExpr lhs op e) = .ok v) :
    ∃ va vb, evalC ms σ lhs = .ok va ∧ evalC ms σ e = .ok vb := by
  simp only [assignOps, List.mem_cons, List.not_mem_nil, or_false] at hop
  rcases hop with rfl | rfl | rfl | rfl | rfl | rfl | rfl | rfl | rfl
  · exact absurd rfl hne
  all_goals
    simp only [compoundExpr, evalC] at h
    obtain ⟨va, ha, h⟩ := bind_ok h
    obtain ⟨vb, hb, _⟩ := bind_ok h
    exact ⟨va, vb, ha, hb⟩

/-- the value an assignment stores: the emitted source simulates the C value -/
theorem assign_sim {lhs : CExpr} {op : String} {e : CExpr} {ce : CE} {eff : ILEffect} {src : CE}
    {σC σIL : MState} {v v' : Val} (hop : op ∈ assignOps) (hl : lhsOK c lhs = true)
    (hce : compileExpr env e = .ok ce) (hca : compileAssign env lhs op ce = .ok (eff, src))
    (hWF : WFHyp ms WF c (if op == "=" then [e] else [lhs, e])) (hinv : Inv c σC σIL)
    (hv : evalC ms σC (compoundExpr lhs op e) = .ok v)
    (hv' : convC (typeOfC (compoundExpr lhs op e)) (typeOfC lhs) v = .ok v') :
    ∃ x : BitVec (typeOfC lhs).width, v' = .bv _ x ∧ Sim ms σIL src (typeOfC lhs) (.bv _ x) ∧
      src.ty.hasFlag VT.gBOOL = false ∧ destWrite lhs src.il = .ok eff := by
  obtain ⟨cd, hcd⟩ := compileAssign_lhs hca
  obtain ⟨hcdty, h1⟩ := lhs_facts henv hl hcd
  by_cases heq : op = "="
  · subst heq
    simp only [beq_self_eq_true, ↓reduceIte] at hWF
    have hv0 := hv; simp only [compoundExpr] at hv0
    have hse := expr_sim hE henv (hinv.rel.agreeOn _ _ _) hinv.inv hinv.immVal hWF hv0 hce
    obtain ⟨yE, rfl⟩ := hse.cval
    obtain ⟨hres, _⟩ := c_assign (xl := 0) hop (fun h => absurd rfl h) hv0 hv hv'
    obtain ⟨hdw, hs, hnb⟩ := il_assign (xl := 0) henv hca hcd hcdty h1 hop (fun h => absurd rfl h) hse
      (fun h => by rcases h with h | h <;> simp at h)
    exact ⟨_, hres, hs, hnb, hdw⟩
  · have hb : (op == "=") = false := by simp [heq]
    simp only [hb, Bool.false_eq_true, ↓reduceIte] at hWF
    obtain ⟨vL, vE, hL, hEv⟩ := evalC_compound_parts hop heq hv
    obtain ⟨xl, yE, rfl, rfl, hsd, hse⟩ := compound_sims hE henv hWF hinv hcd hce hL hEv
    obtain ⟨hres, hamt⟩ := c_assign hop (fun _ => hL) hEv hv hv'
    obtain ⟨hdw, hs, hnb⟩ := il_assign henv hca hcd hcdty h1 hop (fun _ => hsd) hse hamt
    exact ⟨_, hres, hs, hnb, hdw⟩

/-- assignment: the value the C side stores is the value of the emitted source; both sides then write
    the same target (`assign_updates_only_target` is the frame part, see `Props/C05.lean`) -/
theorem assign_correct {st st' : TSt} {lhs : CExpr} {op : String} {e : CExpr} {eff : ILEffect}
    {σC σIL σC' : MState} {f : Nat} (hc : c.ok = true)
    (hcomp : compileStmt env st (.assign lhs op e) = .ok (eff, st'))
    (hwf : WFStmt c (.assign lhs op e) = true) (hWF : WFHyp ms WF c (exprsOf (.assign lhs op e)))
    (hinv : Inv c σC σIL)
    (hex : execC ms (f+1) (.assign lhs op e) σC = .ok σC') :
    ∃ σIL', ExecIL ms eff σIL σIL' ∧ Inv c σC' σIL' := by
  rw [execC_assign] at hex
  obtain ⟨v, hv, hex1⟩ := bind_ok hex
  obtain ⟨v', hv', hex2⟩ := bind_ok hex1
  clear hex hex1
  simp only [compileStmt] at hcomp
  obtain ⟨ce, hce, hcomp1⟩ := bind_ok hcomp
  obtain ⟨⟨eff', src⟩, hca, hcomp2⟩ := bind_ok hcomp1
  clear hcomp hcomp1
  simp only [Except.ok.injEq, Prod.mk.injEq] at hcomp2
  obtain ⟨rfl, _⟩ := hcomp2
  simp only [WFStmt, Bool.and_eq_true, List.contains_eq_mem, decide_eq_true_eq] at hwf
  obtain ⟨hop, hl⟩ := hwf
  simp only [exprsOf] at hWF
  obtain ⟨x, rfl, hs, hnb, hdw⟩ := assign_sim hE henv hop hl hce hca hWF hinv hv hv'
  exact destWrite_correct hc hl hdw hinv (hs.eval hnb).1 hex2

end
end C05
end Rzil
