import RzilVerif.Model.HybFree
/-!
  CompileH ≃ Compile, part 1: names of the hybrid temporaries, `popPending` / `chk` when nothing is named,
  the immediate list as a fold.
-/
namespace Rzil
namespace HEqv

/-! ### names of hybrid temporaries -/

/-- the name of the `n`-th hybrid temporary (what both models write as `s!"h_tmp{n}"`) -/
def hname (n : Nat) : String := s!"h_tmp{n}"

theorem hname_inj {a b : Nat} (h : hname a = hname b) : a = b := by
  have h1 : ("h_tmp" ++ toString a).toList = ("h_tmp" ++ toString b).toList := congrArg String.toList h
  simp only [String.toList_append, List.append_cancel_left_eq, Nat.toString_eq_repr, Nat.toList_repr] at h1
  have := congrArg (fun l => Nat.ofDigitChars 10 l 0) h1
  simpa only [Nat.ofDigitChars_ten_toDigits] using this

theorem hname_ne {a b : Nat} (h : a ≠ b) : hname a ≠ hname b := fun e => h (hname_inj e)

theorem isHTmp_iff (n : String) : isHTmp n = true ↔ "h_tmp".toList <+: n.toList := by
  unfold isHTmp; exact String.startsWith_string_iff

theorem isHTmp_EA : isHTmp "EA" = false := by decide
theorem isHTmp_jump_flag : isHTmp "jump_flag" = false := by
  rw [Bool.eq_false_iff]; intro h; rw [isHTmp_iff] at h; revert h; decide
theorem isHTmp_jump_target : isHTmp "jump_target" = false := by
  rw [Bool.eq_false_iff]; intro h; rw [isHTmp_iff] at h; revert h; decide

/-! ### `popPending` and `chk` -/

theorem popPending_none (P : List Pend) (leaves : List String)
    (h : ∀ n ∈ leaves, ∀ p ∈ P, p.tmp ≠ n) : popPending P leaves = ([], P) := by
  unfold popPending
  induction leaves with
  | nil => rfl
  | cons l ls ih =>
    simp only [List.foldl_cons]
    have : P.find? (fun p => p.tmp == l) = none := by
      simp only [List.find?_eq_none, beq_iff_eq]
      intro p hp; exact h l (List.mem_cons_self) p hp
    rw [this]
    exact ih (fun n hn => h n (List.mem_cons_of_mem _ hn))

theorem popPending_nil (leaves : List String) : popPending [] leaves = ([], []) :=
  popPending_none [] leaves (fun _ _ _ hp => by cases hp)

theorem popPending_append (P : List Pend) (l1 l2 : List String)
    (h : ∀ n ∈ l1, ∀ p ∈ P, p.tmp ≠ n) : popPending P (l1 ++ l2) = popPending P l2 := by
  have h1 := popPending_none P l1 h
  unfold popPending at h1 ⊢
  rw [List.foldl_append, h1]

/-- leaves that name nothing of what is left do not pop anything more -/
theorem popPending_append_none (P : List Pend) (l1 l2 : List String)
    (h : ∀ n ∈ l2, ∀ p ∈ (popPending P l1).2, p.tmp ≠ n) : popPending P (l1 ++ l2) = popPending P l1 := by
  unfold popPending at h ⊢
  rw [List.foldl_append]
  generalize List.foldl (fun (acc : List Pend × List Pend) n =>
    match acc.2.find? (fun p => p.tmp == n) with
    | some p => (acc.1 ++ [p], acc.2.filter (fun q => q.tmp != n))
    | none => acc) ([], P) l1 = acc at h ⊢
  induction l2 with
  | nil => rfl
  | cons l ls ih =>
    simp only [List.foldl_cons]
    have : acc.2.find? (fun p => p.tmp == l) = none := by
      simp only [List.find?_eq_none, beq_iff_eq]
      intro p hp; exact h l (List.mem_cons_self) p hp
    rw [this]
    exact ih (fun n hn => h n (List.mem_cons_of_mem _ hn))

/-- popping the last entry by its (fresh) name -/
theorem popPending_last (P : List Pend) (p : Pend) (h : ∀ q ∈ P, q.tmp ≠ p.tmp) :
    popPending (P ++ [p]) [p.tmp] = ([p], P) := by
  unfold popPending
  simp only [List.foldl_cons, List.foldl_nil]
  have hf : (P ++ [p]).find? (fun q => q.tmp == p.tmp) = some p := by
    rw [List.find?_append]
    have : P.find? (fun q => q.tmp == p.tmp) = none := by
      simp only [List.find?_eq_none, beq_iff_eq]; exact h
    rw [this]; simp
  rw [hf]
  have hfl : (P ++ [p]).filter (fun q => q.tmp != p.tmp) = P := by
    rw [List.filter_append]
    have h1 : P.filter (fun q => q.tmp != p.tmp) = P := by
      rw [List.filter_eq_self]; intro q hq; simpa using h q hq
    rw [h1]; simp
  simp only [List.nil_append, hfl]

/-- `chk` is the identity when no leaf names a pending entry -/
theorem chk_noleaf (st : HSt) (e : ILEffect) (bare : List String) (after : Bool)
    (h : ∀ n ∈ bare ++ tmpsOfEffect e, ∀ p ∈ st.pending, p.tmp ≠ n) : chk st e bare after = (e, st) := by
  unfold chk
  rw [popPending_none _ _ h]
  rfl

/-- `chk` is the identity when nothing is pending -/
theorem chk_nil (st : HSt) (e : ILEffect) (bare : List String) (after : Bool) (h : st.pending = []) :
    chk st e bare after = (e, st) :=
  chk_noleaf st e bare after (by rw [h]; intro _ _ _ hp; cases hp)

/-! ### the immediate list -/

/-- `addImms` on the bare list -/
def addImmsL (imms xs : List (String × Bool)) : List (String × Bool) :=
  xs.foldl (fun acc x => if acc.any (fun y => y.1 == x.1) then acc else acc ++ [x]) imms

theorem addImms_eq (st : TSt) (xs : List (String × Bool)) : addImms st xs = { st with imms := addImmsL st.imms xs } := rfl

theorem addImmsL_nil (imms : List (String × Bool)) : addImmsL imms [] = imms := rfl

theorem addImmsL_append (imms xs ys : List (String × Bool)) :
    addImmsL imms (xs ++ ys) = addImmsL (addImmsL imms xs) ys := by
  unfold addImmsL; rw [List.foldl_append]

theorem addImms_append (st : TSt) (xs ys : List (String × Bool)) :
    addImms st (xs ++ ys) = addImms (addImms st xs) ys := by
  simp only [addImms_eq, addImmsL_append]

/-- the pure model's state read off the hybrid model's state -/
def toT (st : HSt) : TSt := { imms := st.imms, hyb := st.hyb }

/-- the hybrid model's state after the pure model went from `toT st` to `t` -/
def fromT (st : HSt) (t : TSt) : HSt :=
  { imms := t.imms, live := t.imms.map (·.1), hyb := t.hyb, pending := st.pending }

/-- `st` with the immediates `xs` registered (first occurrences only); `pending` and `hyb` untouched -/
def stAdd (st : HSt) (xs : List (String × Bool)) : HSt :=
  { st with imms := addImmsL st.imms xs, live := (addImmsL st.imms xs).map (·.1) }

/-- every registered immediate is live (no `rm_op_by_name` happened) -/
def LiveOK (st : HSt) : Prop := st.live = st.imms.map (·.1)

theorem LiveOK_stAdd (st : HSt) (xs) : LiveOK (stAdd st xs) := rfl
theorem LiveOK_fromT (st : HSt) (t) : LiveOK (fromT st t) := rfl

@[simp] theorem stAdd_pending (st : HSt) (xs) : (stAdd st xs).pending = st.pending := rfl
@[simp] theorem stAdd_hyb (st : HSt) (xs) : (stAdd st xs).hyb = st.hyb := rfl
@[simp] theorem stAdd_imms (st : HSt) (xs) : (stAdd st xs).imms = addImmsL st.imms xs := rfl

theorem stAdd_nil (st : HSt) (h : LiveOK st) : stAdd st [] = st := by
  cases st; simp only [LiveOK] at h; simp only [stAdd, addImmsL_nil, h]

theorem stAdd_stAdd (st : HSt) (xs ys) : stAdd (stAdd st xs) ys = stAdd st (xs ++ ys) := by
  simp only [stAdd, addImmsL_append]

theorem stAdd_eq_fromT (st : HSt) (xs) : stAdd st xs = fromT st (addImms (toT st) xs) := rfl

theorem toT_stAdd (st : HSt) (xs) : toT (stAdd st xs) = addImms (toT st) xs := rfl

theorem stAdd_single (st : HSt) (h : LiveOK st) (l : String) (s : Bool) :
    (if st.live.contains l then st else { st with imms := st.imms ++ [(l, s)], live := st.live ++ [l] })
      = stAdd st [(l, s)] := by
  have hc : st.live.contains l = st.imms.any (fun y => y.1 == l) := by
    rw [h]; simp only [List.contains_eq_any_beq, List.any_map]
    congr 1; funext y; simp only [Function.comp]; exact Bool.beq_comm
  simp only [stAdd, addImmsL, List.foldl_cons, List.foldl_nil, hc]
  by_cases ha : st.imms.any (fun y => y.1 == l) = true
  · simp only [ha, ↓reduceIte]; cases st; simp only [LiveOK] at h; simp only [h]
  · have h' : st.live = st.imms.map (·.1) := h
    simp only [ha, Bool.false_eq_true, ↓reduceIte, List.map_append, List.map_cons, List.map_nil, h']

end HEqv
end Rzil
