import RzilVerif.Lemmas.ExprEqns
/-!
  The IL the pure lowering model builds for an expression never reads the machine state's immediates
  (`ILPure.imm`, the `ISA2IMM` read, occurs in the `imm_assign` prologue only): `ni_compileExpr`.  Hence its value does
  not depend on `MState.imm` (`evalPure_withImm`).  This is what lets the simulation invariant relate the IL local of an
  immediate letter to the C side's CURRENT immediate (an assignable immediate, `riV = riV & ~3`, changes the C side's
  `imm` but only a local on the IL side).
-/
namespace Rzil
namespace ImmFree

mutual
/-- the immediate letters an IL pure reads from the machine state (through `ISA2IMM`) -/
def immsOfPure : ILPure → List String
  | .imm _ _ _ l => [l]
  | .un _ a => immsOfPure a
  | .bin _ a b => immsOfPure a ++ immsOfPure b
  | .cast _ f a => immsOfPure f ++ immsOfPure a
  | .signed _ a => immsOfPure a
  | .unsigned _ a => immsOfPure a
  | .ite c a b => immsOfPure c ++ immsOfPure a ++ immsOfPure b
  | .let_ _ v b => immsOfPure v ++ immsOfPure b
  | .loadw _ a => immsOfPure a
  | .inc a _ => immsOfPure a
  | .dec a _ => immsOfPure a
  | .macro _ args => immsOfPures args
  | _ => []
def immsOfPures : List ILPure → List String
  | [] => []
  | a :: as => immsOfPure a ++ immsOfPures as
end

theorem bind_congr {ε α β : Type} {x y : Except ε α} {f : α → Except ε β} (h : x = y) : (x >>= f) = (y >>= f) := by
  rw [h]

mutual
/-- an IL pure that reads no immediate from the machine state has the same value whatever `MState.imm` is -/
theorem evalPure_withImm (ms : MacroSem) (σ : MState) (f : String → Nat) :
    (p : ILPure) → (lets : List (String × Val)) → immsOfPure p = [] →
      evalPure ms { σ with imm := f } lets p = evalPure ms σ lets p
  | .const _ _ _, _, _ => by simp only [evalPure]
  | .imm _ _ _ _, _, h => by simp [immsOfPure] at h
  | .btrue, _, _ => by simp only [evalPure]
  | .bfalse, _, _ => by simp only [evalPure]
  | .varl _, _, _ => by simp only [evalPure]
  | .varlp _, _, _ => by simp only [evalPure]
  | .readReg _ _, _, _ => by simp only [evalPure]
  | .pktAddr, _, _ => by simp only [evalPure]
  | .param _, _, _ => by simp only [evalPure]
  | .un op a, lets, h => by
      simp only [immsOfPure] at h
      simp only [evalPure, evalPure_withImm ms σ f a lets h]
  | .bin op a b, lets, h => by
      simp only [immsOfPure, List.append_eq_nil_iff] at h
      simp only [evalPure, evalPure_withImm ms σ f a lets h.1, evalPure_withImm ms σ f b lets h.2]
  | .cast w fl a, lets, h => by
      simp only [immsOfPure, List.append_eq_nil_iff] at h
      simp only [evalPure, evalPure_withImm ms σ f fl lets h.1, evalPure_withImm ms σ f a lets h.2]
  | .signed w a, lets, h => by
      simp only [immsOfPure] at h
      simp only [evalPure, evalPure_withImm ms σ f a lets h]
  | .unsigned w a, lets, h => by
      simp only [immsOfPure] at h
      simp only [evalPure, evalPure_withImm ms σ f a lets h]
  | .ite c a b, lets, h => by
      simp only [immsOfPure, List.append_eq_nil_iff] at h
      simp only [evalPure, evalPure_withImm ms σ f c lets h.1.1, evalPure_withImm ms σ f a lets h.1.2,
        evalPure_withImm ms σ f b lets h.2]
  | .let_ n v b, lets, h => by
      simp only [immsOfPure, List.append_eq_nil_iff] at h
      simp only [evalPure, evalPure_withImm ms σ f v lets h.1]
      apply bind_congr rfl |>.trans
      congr 1
      funext vv
      exact evalPure_withImm ms σ f b _ h.2
  | .loadw n a, lets, h => by
      simp only [immsOfPure] at h
      simp only [evalPure, evalPure_withImm ms σ f a lets h]
  | .inc a w, lets, h => by
      simp only [immsOfPure] at h
      simp only [evalPure, evalPure_withImm ms σ f a lets h]
  | .dec a w, lets, h => by
      simp only [immsOfPure] at h
      simp only [evalPure, evalPure_withImm ms σ f a lets h]
  | .macro g args, lets, h => by
      simp only [immsOfPure] at h
      simp only [evalPure, evalPures_withImm ms σ f args lets h]
  | .ext _, _, _ => by simp only [evalPure]
theorem evalPures_withImm (ms : MacroSem) (σ : MState) (f : String → Nat) :
    (ps : List ILPure) → (lets : List (String × Val)) → immsOfPures ps = [] →
      evalPures ms { σ with imm := f } lets ps = evalPures ms σ lets ps
  | [], _, _ => by simp only [evalPures]
  | a :: as, lets, h => by
      simp only [immsOfPures, List.append_eq_nil_iff] at h
      simp only [evalPures, evalPure_withImm ms σ f a lets h.1, evalPures_withImm ms σ f as lets h.2]
end

/-! ## the pure lowering model never emits an `ISA2IMM` read inside an expression -/

theorem ni_numberIL (t : VT) (v : Int) : immsOfPure (numberIL t v) = [] := by
  simp only [numberIL, immsOfPure]

theorem ni_regRead (env : CEnv) (n k) : immsOfPure (regRead env n k) = [] := by
  unfold regRead; split <;> simp only [immsOfPure]

theorem ni_condILk (c : CE) (h : immsOfPure c.il = []) : immsOfPure (condILk c) = [] := by
  unfold condILk; split <;> simp only [immsOfPure, h]

theorem ni_condIL (cfg : Cfg) (c : CE) (h : immsOfPure c.il = []) : immsOfPure (condIL cfg c) = [] := by
  unfold condIL; split
  · exact ni_condILk c h
  · split <;> simp only [immsOfPure, h]

theorem ni_initACast (cfg : Cfg) (t : VT) (p : CE) (h : immsOfPure p.il = []) :
    immsOfPure (initACast cfg t p).il = [] := by
  unfold initACast
  split
  · exact h
  · split
    · split <;> simp only [immsOfPure, ni_numberIL, ni_condILk p h, h, List.append_nil]
    · simp only
      split <;> split <;> simp only [immsOfPure, h, List.append_nil]

theorem ni_boolToInt (cfg : Cfg) (t : VT) (p : CE) (h : immsOfPure p.il = []) :
    immsOfPure (boolToInt cfg t p).il = [] := by
  unfold boolToInt
  split <;> simp only [immsOfPure, ni_numberIL, ni_condILk p h, h, List.append_nil]

theorem ni_conv (cfg : Cfg) (t : VT) (p : CE) (h : immsOfPure p.il = []) :
    immsOfPure (if p.ty.eqv t then p else initACast cfg t p).il = [] := by
  split
  · exact h
  · exact ni_initACast cfg t p h

theorem ni_promotionCast (cfg : Cfg) (p : CE) (h : immsOfPure p.il = []) :
    immsOfPure (promotionCast cfg p).il = [] := by
  unfold promotionCast
  simp only
  split
  · exact h
  · exact ni_initACast cfg _ p h

theorem ni_ite {c : Prop} [Decidable c] {x y : CE} (hx : immsOfPure x.il = []) (hy : immsOfPure y.il = []) :
    immsOfPure (if c then x else y).il = [] := by
  split <;> assumption

theorem ni_ite_pair {c : Prop} [Decidable c] {x y : CE × CE}
    (hx : immsOfPure x.1.il = [] ∧ immsOfPure x.2.il = []) (hy : immsOfPure y.1.il = [] ∧ immsOfPure y.2.il = []) :
    immsOfPure (if c then x else y).1.il = [] ∧ immsOfPure (if c then x else y).2.il = [] := by
  split <;> assumption

theorem ni_castOperands (cfg : Cfg) (a b : CE) (ha : immsOfPure a.il = []) (hb : immsOfPure b.il = []) :
    immsOfPure (castOperands cfg a b).1.il = [] ∧ immsOfPure (castOperands cfg a b).2.il = [] := by
  unfold castOperands
  split
  · exact ⟨ha, hb⟩
  · simp only
    exact ⟨ni_ite (ni_initACast cfg _ a ha) ha, ni_ite (ni_initACast cfg _ b hb) hb⟩

theorem ni_unOfCE (cfg : Cfg) (op : String) (ce : CE) (h : immsOfPure ce.il = []) :
    immsOfPure (unOfCE cfg op ce).il = [] := by
  unfold unOfCE
  split
  · simp only
    split
    · split <;> exact ni_numberIL _ _
    · exact ni_numberIL _ _
  · simp only [immsOfPure, ni_promotionCast cfg ce h]

theorem ni_foldBin (cfg op ca cb va vb) : immsOfPure (foldBin cfg op ca cb va vb).il = [] := by
  unfold foldBin; exact ni_numberIL _ _

theorem ni_compileBin (env : CEnv) (op : String) (ca cb r : CE) (ha : immsOfPure ca.il = [])
    (hb : immsOfPure cb.il = []) (h : compileBin env op ca cb = .ok r) : immsOfPure r.il = [] := by
  rw [compileBin_eq] at h
  simp only at h
  have hc := ni_castOperands env.cfg _ _ (ni_promotionCast env.cfg ca ha) (ni_promotionCast env.cfg cb hb)
  split at h
  · cases h; simp only [immsOfPure, hc.1, hc.2, List.append_nil]
  · cases h

theorem ni_binBody (env : CEnv) (op : String) (ca cb r : CE) (ha : immsOfPure ca.il = [])
    (hb : immsOfPure cb.il = []) (h : binBody env op ca cb = .ok r) : immsOfPure r.il = [] := by
  unfold binBody at h
  split at h
  · split at h
    · cases h; exact ni_foldBin _ _ _ _ _ _
    · exact ni_compileBin env op ca cb r ha hb h
  · exact ni_compileBin env op ca cb r ha hb h

theorem ni_bool_ite (b : Bool) : immsOfPure (if b then ILPure.btrue else ILPure.bfalse) = [] := by
  cases b <;> simp [immsOfPure]

theorem ni_foldCmp (cfg op ca cb va vb) : immsOfPure (foldCmp cfg op ca cb va vb).il = [] :=
  ni_bool_ite _

theorem ni_cmpOfCE (cfg : Cfg) (op : String) (ca cb : CE) (ha : immsOfPure ca.il = [])
    (hb : immsOfPure cb.il = []) : immsOfPure (cmpOfCE cfg op ca cb).il = [] := by
  unfold cmpOfCE
  simp only
  have hP := ni_ite_pair (c := cfg.cmpUnpromoted = true) (x := (ca, cb))
    (y := (promotionCast cfg ca, promotionCast cfg cb)) ⟨ha, hb⟩
    ⟨ni_promotionCast cfg ca ha, ni_promotionCast cfg cb hb⟩
  generalize (if cfg.cmpUnpromoted = true then (ca, cb) else (promotionCast cfg ca, promotionCast cfg cb)) = P at hP ⊢
  have hc := ni_castOperands cfg P.1 P.2 hP.1 hP.2
  split <;> simp only [immsOfPure, hc.1, hc.2, List.append_nil]

theorem ni_cmpBody (cfg : Cfg) (op : String) (ca cb : CE) (ha : immsOfPure ca.il = [])
    (hb : immsOfPure cb.il = []) : immsOfPure (cmpBody cfg op ca cb).il = [] := by
  unfold cmpBody
  split
  · exact ni_foldCmp _ _ _ _ _ _
  · exact ni_cmpOfCE cfg op ca cb ha hb

theorem ni_ternOfCE (cfg : Cfg) (cc ca cb : CE) (hc : immsOfPure cc.il = []) (ha : immsOfPure ca.il = [])
    (hb : immsOfPure cb.il = []) : immsOfPure (ternOfCE cfg cc ca cb).il = [] := by
  unfold ternOfCE
  have h1 := ni_castOperands cfg _ _ (ni_promotionCast cfg ca ha) (ni_promotionCast cfg cb hb)
  have hfab := ni_ite_pair (c := cfg.literalTypeBySuffixOnly = true) (x := (ca, cb))
    (y := castOperands cfg (promotionCast cfg ca) (promotionCast cfg cb)) ⟨ha, hb⟩ h1
  have hP := ni_ite_pair (c := cfg.cmpUnpromoted = true) (x := (ca, cb))
    (y := (promotionCast cfg ca, promotionCast cfg cb)) ⟨ha, hb⟩
    ⟨ni_promotionCast cfg ca ha, ni_promotionCast cfg cb hb⟩
  simp only
  generalize (if cfg.cmpUnpromoted = true then (ca, cb) else (promotionCast cfg ca, promotionCast cfg cb)) = P at hP ⊢
  have hc2 := ni_castOperands cfg P.1 P.2 hP.1 hP.2
  split
  · exact ni_ite hfab.1 hfab.2
  · exact ni_ite hfab.1 hfab.2
  · simp only [immsOfPure, ni_condIL cfg cc hc, hc2.1, hc2.2, List.append_nil]




theorem bind_ok {ε α β : Type} {x : Except ε α} {f : α → Except ε β} {b : β}
    (h : (x >>= f) = .ok b) : ∃ a, x = .ok a ∧ f a = .ok b := by
  cases x with
  | error e => simp [bind, Except.bind] at h
  | ok a => exact ⟨a, rfl, h⟩

mutual
/-- the IL of an expression reads no immediate from the machine state (an immediate is read through `VARL(letter)`) -/
theorem ni_compileExpr (env : CEnv) :
    (e : CExpr) → {ce : CE} → compileExpr env e = .ok ce → immsOfPure ce.il = []
  | .reg n k t, ce, h => by
      rw [compileExpr_reg] at h; cases h; exact ni_regRead env n k
  | .imm l s, ce, h => by
      rw [compileExpr_imm] at h; cases h
      simp only [immsOfPure]
  | .lit v hx sfx, ce, h => by
      rw [compileExpr_lit] at h
      split at h <;> (cases h; exact ni_numberIL _ _)
  | .var n t, ce, h => by
      rw [compileExpr_var] at h; cases h
      simp only [immsOfPure]
  | .cast t e, ce, h => by
      rw [compileExpr_cast] at h
      obtain ⟨c1, h1, h⟩ := bind_ok h
      have := ni_compileExpr env e h1
      split at h <;> cases h
      · exact this
      · exact ni_initACast _ _ _ this
  | .un op e, ce, h => by
      rw [compileExpr_un] at h
      obtain ⟨c1, h1, h⟩ := bind_ok h
      cases h; exact ni_unOfCE _ _ _ (ni_compileExpr env e h1)
  | .not e, ce, h => by
      rw [compileExpr_not] at h
      obtain ⟨c1, h1, h⟩ := bind_ok h
      cases h
      simp only [immsOfPure, ni_condIL _ _ (ni_compileExpr env e h1)]
  | .bin op a b, ce, h => by
      rw [compileExpr_bin] at h
      obtain ⟨c1, h1, h⟩ := bind_ok h
      obtain ⟨c2, h2, h⟩ := bind_ok h
      exact ni_binBody env op c1 c2 ce (ni_compileExpr env a h1) (ni_compileExpr env b h2) h
  | .shift op a b, ce, h => by
      rw [compileExpr_shift] at h
      obtain ⟨c1, h1, h⟩ := bind_ok h
      obtain ⟨c2, h2, h⟩ := bind_ok h
      have ha := ni_compileExpr env a h1
      have hb := ni_compileExpr env b h2
      cases h
      have : immsOfPure (if env.cfg.shiftLeftUnpromoted = true then c1 else promotionCast env.cfg c1).il = [] :=
        ni_ite ha (ni_promotionCast _ _ ha)
      simp only [immsOfPure, this, hb, List.append_nil]
  | .cmp op a b, ce, h => by
      rw [compileExpr_cmp] at h
      obtain ⟨c1, h1, h⟩ := bind_ok h
      obtain ⟨c2, h2, h⟩ := bind_ok h
      cases h
      exact ni_cmpBody _ op c1 c2 (ni_compileExpr env a h1) (ni_compileExpr env b h2)
  | .log op a b, ce, h => by
      rw [compileExpr_log] at h
      obtain ⟨c1, h1, h⟩ := bind_ok h
      obtain ⟨c2, h2, h⟩ := bind_ok h
      have hc := ni_castOperands env.cfg c1 c2 (ni_compileExpr env a h1) (ni_compileExpr env b h2)
      cases h
      simp only [immsOfPure, ni_condIL _ _ hc.1, ni_condIL _ _ hc.2, List.append_nil]
  | .tern c a b, ce, h => by
      rw [compileExpr_tern] at h
      obtain ⟨c0, h0, h⟩ := bind_ok h
      obtain ⟨c1, h1, h⟩ := bind_ok h
      obtain ⟨c2, h2, h⟩ := bind_ok h
      cases h
      exact ni_ternOfCE _ c0 c1 c2 (ni_compileExpr env c h0) (ni_compileExpr env a h1) (ni_compileExpr env b h2)
  | .macro name args ret params, ce, h => by
      rw [compileExpr_macro] at h
      obtain ⟨cs, h1, h⟩ := bind_ok h
      cases h
      simp only [immsOfPure, ni_compileArgs env args params h1]
  | .load s w t, ce, h => by
      rw [compileExpr_load] at h; cases h
      simp only [immsOfPure, List.append_nil]
      split <;> split <;> simp only [immsOfPure]
  | .post _ _ _, ce, h => by rw [compileExpr] at h; cases h
  | .call _ _ _ _, ce, h => by rw [compileExpr] at h; cases h
  | .stmtexpr _ _ _, ce, h => by rw [compileExpr] at h; cases h
  | .seqexpr _ _ _ _ _, ce, h => by rw [compileExpr] at h; cases h
theorem ni_compileArgs (env : CEnv) :
    (as : List CExpr) → (ps : List CT) → {cs : List ILPure} →
      compileArgs env as ps = .ok cs → immsOfPures cs = []
  | [], _, cs, h => by rw [compileArgs_nil] at h; cases h; simp only [immsOfPures]
  | _ :: _, [], cs, h => by rw [compileArgs_cons_nil] at h; cases h
  | a :: as, p :: ps, cs, h => by
      rw [compileArgs_cons] at h
      obtain ⟨c1, h1, h⟩ := bind_ok h
      obtain ⟨r, h2, h⟩ := bind_ok h
      cases h
      simp only [immsOfPures, ni_conv _ _ _ (ni_compileExpr env a h1), ni_compileArgs env as ps h2,
        List.append_nil]
end

/-- the value of a compiled expression does not depend on the machine state's immediates -/
theorem evalPure_compileExpr_withImm {env : CEnv} {e : CExpr} {ce : CE} (h : compileExpr env e = .ok ce)
    (ms : MacroSem) (σ : MState) (f : String → Nat) :
    evalPure ms { σ with imm := f } [] ce.il = evalPure ms σ [] ce.il :=
  evalPure_withImm ms σ f ce.il [] (ni_compileExpr env e h)

end ImmFree
end Rzil
