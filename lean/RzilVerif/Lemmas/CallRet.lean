import RzilVerif.Lemmas.CallArgs
/-!
  C08 helpers, part 3: the return value.  The callee leaves its value in the shared local `ret_val` (64 bit),
  the caller copies `SIGNED/UNSIGNED(ret.width, VARL ret_val)` into the call's own temporary.
-/
namespace Rzil
namespace C08

open C05 (bind_ok bind_ok_of Sim sim_convTo ilCast_fill_eq_convBits lookupS_setLocal_self)

/-! ## bit level -/

/-- narrowing keeps the low bits whatever the signedness -/
theorem convBits_trunc (s ret : CT) {n : Nat} (r : BitVec n) (h : ret.width ≤ n) :
    convBits s ret r = BitVec.ofNat ret.width r.toNat := by
  unfold convBits
  simp only [h, ↓reduceIte]
  exact (BitVec.ofNat_toNat ..).symm

theorem convBits_ofNat64 (sg : Bool) (ret : CT) (n : Nat) (hr : ret.width ≤ 64) :
    convBits ⟨sg, 64⟩ ret (BitVec.ofNat 64 n) = BitVec.ofNat ret.width n := by
  rw [convBits_trunc _ _ _ hr]
  apply BitVec.eq_of_toNat_eq
  simp only [BitVec.toNat_ofNat]
  exact Nat.mod_mod_of_dvd n (Nat.pow_dvd_pow 2 hr)

/-- `return e;` widens the value to 64 bit, the caller narrows it to the declared return type: together the
    C conversion from the type of `e` to the return type (both at most 64 bit wide). -/
theorem convBits_via_u64 (t ret : CT) (sg : Bool) {n : Nat} (x : BitVec n) (hn : n ≤ 64) (hr : ret.width ≤ 64) :
    convBits ⟨sg, 64⟩ ret (convBits t ⟨false, 64⟩ x) = convBits t ret x := by
  unfold convBits
  simp only [hr, ↓reduceIte]
  by_cases h64 : 64 ≤ n
  · have : n = 64 := by omega
    subst this
    simp only [Nat.le_refl, ↓reduceIte, hr]
    ext i hi
    simp only [BitVec.getElem_setWidth]
    simp
  · simp only [h64, ↓reduceIte]
    cases t.signed
    · simp only [Bool.false_eq_true, ↓reduceIte]
      split
      · ext i hi; simp; omega
      · ext i hi; simp; omega
    · simp only [↓reduceIte]
      split
      · ext i hi
        simp only [BitVec.getElem_setWidth, BitVec.getLsbD_signExtend]
        have h1 : i < 64 := by omega
        have h2 : i < n := by omega
        simp [h1, h2]
      · ext i hi
        simp only [BitVec.getElem_setWidth, BitVec.getLsbD_signExtend, BitVec.getElem_signExtend]
        have h1 : i < 64 := by omega
        by_cases h2 : i < n
        · simp [h1, h2]
        · simp [h1, h2]

/-! ## IL side -/

/-- reading the return value: `SIGNED/UNSIGNED(w, VARL ret_val)` is the conversion of the 64-bit `ret_val` to
    the declared return type -/
theorem evalPure_retRead {ms : MacroSem} {σ : MState} (ret : CT) {r : BitVec 64}
    (h : lookupS "ret_val" σ.locals = some (.bv 64 r)) :
    evalPure ms σ [] (retRead ret) = .ok (.bv ret.width (convBits ⟨ret.signed, 64⟩ ret r)) := by
  have := ilCast_fill_eq_convBits r ⟨ret.signed, 64⟩ ret
  unfold retRead
  cases hs : ret.signed
  · simp only [hs, Bool.false_eq_true, ↓reduceIte] at this ⊢
    simp only [evalPure, h, bind, Except.bind, this]
  · simp only [hs, ↓reduceIte] at this ⊢
    simp only [evalPure, h, bind, Except.bind, this]

/-- for return types of at most 64 bit: truncation of `ret_val` -/
theorem evalPure_retRead_trunc {ms : MacroSem} {σ : MState} (ret : CT) {r : BitVec 64}
    (h : lookupS "ret_val" σ.locals = some (.bv 64 r)) (hw : ret.width ≤ 64) :
    evalPure ms σ [] (retRead ret) = .ok (.bv ret.width (BitVec.ofNat ret.width r.toNat)) := by
  rw [evalPure_retRead ret h, convBits_trunc _ _ _ hw]

/-- executing the `setTmp` part of a call's entry copies the converted return value into the call's temporary -/
theorem exec_setTmp {ms : MacroSem} {subs : SubEnv} {f : Nat} {σ : MState} (st1 : HSt) (name : String)
    (cargs : List ILPure) (ret : CT) {r : BitVec 64} (h : lookupS "ret_val" σ.locals = some (.bv 64 r)) :
    execIL ms subs (f+1) (callEntry st1 name cargs ret).setTmp σ =
      .ok { σ with locals := setLocal σ.locals (tmpName st1.hyb) (.bv ret.width (convBits ⟨ret.signed, 64⟩ ret r)) } := by
  simp only [callEntry, execIL, evalPure_retRead ret h, bind, Except.bind]

/-- … after which the value handed to the consumer (`VARL h_tmpN`, typed with the return type) simulates it -/
theorem sim_callValue {ms : MacroSem} {σ : MState} (k : Nat) (ret : CT) (x : BitVec ret.width) :
    Sim ms { σ with locals := setLocal σ.locals (tmpName k) (.bv ret.width x) }
      { il := .varl (tmpName k), ty := ret.toVT, kind := .plain } ret (.bv ret.width x) := by
  refine C05.Sim.of_bv (by simp [CT.toVT, VT.hasFlag, VT.gBOOL]) ?_ rfl rfl
  simp only [evalPure, lookupS_setLocal_self]

/-! ## C side -/

/-- the integer a value denotes (0 for non-integers), as `evalCH` reads the result of `builtinSub` -/
def natOfVal : Val → Nat
  | .bv _ x => x.toNat
  | _ => 0

/-- a bundled routine with a closed form: the value, as an integer of the declared return type -/
theorem evalCH_call_builtin {ms : MacroSem} {csubs : CSubEnv} {f : Nat} {σ σ' : MState} {name : String}
    {args : List CExpr} {ret : CT} {params : List CT} {vs : List Val} {v : Val}
    (hargs : evalCHArgs ms csubs f σ args params = .ok (vs, σ')) (hsub : lookupS name csubs = none)
    (hb : builtinSub name vs = some v) :
    evalCH ms csubs (f+1) σ (.call name args ret params) =
      .ok (.bv ret.width (BitVec.ofNat ret.width (natOfVal v)), σ') := by
  rw [evalCH]
  simp only [hargs, hsub, hb, bind, Except.bind]
  cases v <;> rfl

/-- a generated routine runs in its own scope: the caller's locals are those after the arguments, whatever
    the body does to its own; only the return value, registers and memory come back -/
theorem evalCH_call_sub {ms : MacroSem} {csubs : CSubEnv} {f : Nat} {σ σ' σr : MState} {name : String}
    {args : List CExpr} {ret : CT} {params : List CT} {vs : List Val} {v : Val} {sub : CSub}
    (hargs : evalCHArgs ms csubs f σ args params = .ok (vs, σ')) (hsub : lookupS name csubs = some sub)
    (hbody : execCHs ms csubs f sub.body { σ' with locals := (sub.params.map (·.1)).zip vs } = .ok σr)
    (hret : lookupS "$ret" σr.locals = some v) {v' : Val}
    (hconv : convC { signed := false, width := 64 } sub.ret v = .ok v') :
    evalCH ms csubs (f+1) σ (.call name args ret params) =
      .ok (v', { σ' with mem := σr.mem, stores := σr.stores, new := σr.new, written := σr.written }) := by
  rw [evalCH]
  simp only [hargs, hsub, hbody, hret, hconv, bind, Except.bind]

/-- C-side isolation: a call changes no local of the caller beyond what its arguments do -/
theorem evalCH_call_locals {ms : MacroSem} {csubs : CSubEnv} {f : Nat} {σ σ2 : MState} {name : String}
    {args : List CExpr} {ret : CT} {params : List CT} {v : Val}
    (h : evalCH ms csubs (f+1) σ (.call name args ret params) = .ok (v, σ2)) :
    ∃ vs σ1, evalCHArgs ms csubs f σ args params = .ok (vs, σ1) ∧ σ2.locals = σ1.locals ∧ σ2.params = σ1.params := by
  rw [evalCH] at h
  obtain ⟨⟨vs, σ1⟩, h1, h⟩ := bind_ok h
  refine ⟨vs, σ1, h1, ?_⟩
  simp only at h
  split at h
  · obtain ⟨σr, _, h⟩ := bind_ok h
    split at h
    · obtain ⟨v', _, h⟩ := bind_ok h
      injection h with h; injection h with _ h; subst h; exact ⟨rfl, rfl⟩
    · cases h
  · split at h
    · injection h with h; injection h with _ h; subst h; exact ⟨rfl, rfl⟩
    · cases h

/-! ## the callee's `return e;` -/

/-- `return e;` (repaired lowering) leaves the value of `e`, converted to `uint64_t`, in `ret_val` -/
theorem ret_stmt_sets_ret_val {ms : MacroSem} {subs : SubEnv} {env : CEnv} {σ : MState} {st st' : HSt} {e : CExpr}
    {eff : ILEffect} {bare : List String} {f : Nat} {x : BitVec (typeOfC e).width}
    (hcfg : env.cfg = Cfg.fixed)
    (h : compileStmtH env st (.ret e) = .ok (some eff, bare, st'))
    (hsim : ∀ ce st1, compileExprH env st e = .ok (ce, st1) → Sim ms σ ce (typeOfC e) (.bv (typeOfC e).width x)) :
    execIL ms subs (f+1) eff σ =
      .ok { σ with locals := setLocal σ.locals "ret_val" (.bv 64 (convBits (typeOfC e) ⟨false, 64⟩ x)) } := by
  rw [compileStmtH] at h
  obtain ⟨⟨ce, st1⟩, h1, h⟩ := bind_ok h
  simp only at h
  injection h with h; injection h with h _; injection h with h
  subst h
  have hs := hsim ce st1 h1
  have hconv : convC (typeOfC e) ⟨false, 64⟩ (.bv (typeOfC e).width x) =
      .ok (.bv 64 (convBits (typeOfC e) ⟨false, 64⟩ x)) := rfl
  have key : evalPure ms σ [] (if (ce.ty.width != 64) = true then initACast env.cfg { signed := false, width := 64 } ce else ce).il =
      .ok (.bv 64 (convBits (typeOfC e) ⟨false, 64⟩ x)) := by
    by_cases hw : ce.ty.width = 64
    · have : (ce.ty.width != 64) = false := by simp [hw]
      rw [this]
      simp only [Bool.false_eq_true, ↓reduceIte]
      cases hb : ce.ty.hasFlag VT.gBOOL with
      | true =>
        obtain ⟨_, _, _, _, hw1, _⟩ := hs.bool hb
        omega
      | false =>
        obtain ⟨x', he, hv, _, hw'⟩ := hs.bv hb
        rw [he, ← hv]
        have h64 : (typeOfC e).width = 64 := by omega
        have := C05.convC_same_width (src := typeOfC e) (dst := ⟨false, 64⟩) x (by simp [h64])
        rw [hconv] at this
        exact this.symm
    · have : (ce.ty.width != 64) = true := by simp [hw]
      rw [this, hcfg]
      simp only [↓reduceIte]
      obtain ⟨x', hc, _, he, _⟩ := sim_convTo ⟨false, 64⟩ hs (by decide)
      rw [hconv] at hc
      injection hc with hc
      rw [hc]
      exact he
  simp only [execIL, key, bind, Except.bind]

end C08
end Rzil
