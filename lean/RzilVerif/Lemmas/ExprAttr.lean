import Lean.Meta.Tactic.Simp.RegisterCommand
/-! simp set for the projections of the two configurations -/
register_simp_attr cfgsimp
