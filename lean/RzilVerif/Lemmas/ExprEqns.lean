import RzilVerif.Model.ExprWF
/-!
# Unfolding equations of `compileExpr`, `evalC`, `WFE` per constructor
(stated once here: generating the equation lemmas of `compileExpr` costs ~8 s per file that asks for them)
-/
namespace Rzil

section compile
variable (env : CEnv)

theorem compileExpr_reg (n k t) : compileExpr env (.reg n k t) =
    .ok { il := regRead env n k, ty := regVT env.cfg n k t, kind := .plain } := by rw [compileExpr]

theorem compileExpr_imm (l s) : compileExpr env (.imm l s) =
    .ok { il := .varl l, ty := { signed := s, width := 32, group := 1 }, kind := .plain } := by rw [compileExpr]

theorem compileExpr_lit (v h sfx) : compileExpr env (.lit v h sfx) =
    (if env.cfg.literalTypeBySuffixOnly then
        let t := (litTypeCode sfx).toVT
        .ok { il := numberIL t v, ty := t, kind := .lit v }
      else
        let t := (litTypeC v h sfx).toVT
        .ok { il := numberIL t v, ty := t, kind := .lit v }) := by rw [compileExpr]

theorem compileExpr_var (n t) : compileExpr env (.var n t) = .ok { il := .varl n, ty := t.toVT, kind := .plain } := by
  rw [compileExpr]

theorem compileExpr_cast (t e) : compileExpr env (.cast t e) = (do
      let ce ← compileExpr env e
      if ce.ty.eqv t.toVT then .ok ce else .ok (initACast env.cfg t.toVT ce)) := by rw [compileExpr]

/-- the result of `-`/`~` on a compiled operand -/
def unOfCE (cfg : Cfg) (op : String) (ce : CE) : CE :=
  match ce.kind with
  | .lit v =>
      let pt := VT.promoted ce.ty
      if cfg.literalTypeBySuffixOnly then
        if op == "-" then
          let t : VT := { pt with signed := true }
          { il := numberIL t (-v), ty := t, kind := .lit (-v) }
        else
          { il := numberIL pt (-v - 1), ty := pt, kind := .lit (-v - 1) }
      else
        let r := normInt pt (if op == "-" then -(normInt pt v) else -(normInt pt v) - 1)
        { il := numberIL pt r, ty := pt, kind := .lit r }
  | _ =>
      let a := promotionCast cfg ce
      { il := .un (if op == "-" then .neg else .lognot) a.il, ty := a.ty, kind := .plain }

theorem compileExpr_un (op e) : compileExpr env (.un op e) = (do
      let ce ← compileExpr env e
      .ok (unOfCE env.cfg op ce)) := by
  rw [compileExpr]
  cases compileExpr env e with
  | error _ => rfl
  | ok ce =>
    cases hk : ce.kind <;> simp only [bind, Except.bind, unOfCE, hk] <;> (try split) <;> (try split) <;> rfl

theorem compileExpr_not (e) : compileExpr env (.not e) = (do
      let ce ← compileExpr env e
      .ok { il := .un .inv (condIL env.cfg ce),
            ty := if env.cfg.boolOpTypedAsOperand then ce.ty else { signed := false, width := 1, group := gBool },
            kind := .boolObj }) := by rw [compileExpr]

/-- folding of `+ - *` on two literals -/
def foldBin (cfg : Cfg) (op : String) (ca cb : CE) (va vb : Int) : CE :=
  let t := (VT.c11Cast ca.ty cb.ty).1
  let (va, vb) := if cfg.literalTypeBySuffixOnly then (va, vb) else (normInt t va, normInt t vb)
  let r := if op == "+" then va + vb else if op == "-" then va - vb else va * vb
  let r := if cfg.literalTypeBySuffixOnly then r else normInt t r
  { il := numberIL t r, ty := t, kind := .lit r }

/-- `+ - * & | ^` on two compiled operands: folded if both are literals and the operator is `+ - *` -/
def binBody (env : CEnv) (op : String) (ca cb : CE) : Except String CE :=
  match ca.kind, cb.kind with
  | .lit va, .lit vb =>
      if op == "+" || op == "-" || op == "*" then .ok (foldBin env.cfg op ca cb va vb)
      else compileBin env op ca cb
  | _, _ => compileBin env op ca cb

theorem compileExpr_bin (op a b) : compileExpr env (.bin op a b) = (do
      let ca ← compileExpr env a
      let cb ← compileExpr env b
      binBody env op ca cb) := by
  rw [compileExpr]; rfl

theorem compileExpr_shift (op a b) : compileExpr env (.shift op a b) = (do
      let ca ← compileExpr env a
      let cb ← compileExpr env b
      let ca := if env.cfg.shiftLeftUnpromoted then ca else promotionCast env.cfg ca
      let o : BinOp := if op == "<<" then .shiftl0 else if ca.ty.signed then .shiftra else .shiftr0
      .ok { il := .bin o ca.il cb.il, ty := ca.ty, kind := .plain }) := by rw [compileExpr]

/-- folding of a comparison of two literals -/
def foldCmp (cfg : Cfg) (op : String) (ca cb : CE) (va vb : Int) : CE :=
  let t := (VT.c11Cast ca.ty cb.ty).1
  let (va, vb) := if cfg.literalTypeBySuffixOnly then (va, vb) else (normInt t va, normInt t vb)
  let r := if op == "<" then decide (va < vb) else if op == ">" then decide (va > vb)
           else if op == "<=" then decide (va ≤ vb) else if op == ">=" then decide (va ≥ vb)
           else if op == "==" then decide (va = vb) else decide (va ≠ vb)
  { il := if r then .btrue else .bfalse, ty := { signed := false, width := 1, group := gBool }, kind := .boolLit r }

/-- the run-time comparison of two compiled operands -/
def cmpOfCE (cfg : Cfg) (op : String) (ca cb : CE) : CE :=
  let (ca, cb) := if cfg.cmpUnpromoted then (ca, cb) else (promotionCast cfg ca, promotionCast cfg cb)
  let (ca, cb) := castOperands cfg ca cb
  let sg := ca.ty.signed || cb.ty.signed
  let il : ILPure := match op with
    | "<" => .bin (if sg then .slt else .ult) ca.il cb.il
    | ">" => .bin (if sg then .sgt else .ugt) ca.il cb.il
    | "<=" => .bin (if sg then .sle else .ule) ca.il cb.il
    | ">=" => .bin (if sg then .sge else .uge) ca.il cb.il
    | "==" => .bin .eq ca.il cb.il
    | _ => .un .inv (.bin .eq ca.il cb.il)
  { il := il, ty := { signed := false, width := 1, group := gBool }, kind := .boolObj }

/-- a comparison of two compiled operands: folded if both are literals -/
def cmpBody (cfg : Cfg) (op : String) (ca cb : CE) : CE :=
  match ca.kind, cb.kind with
  | .lit va, .lit vb => foldCmp cfg op ca cb va vb
  | _, _ => cmpOfCE cfg op ca cb

theorem compileExpr_cmp (op a b) : compileExpr env (.cmp op a b) = (do
      let ca ← compileExpr env a
      let cb ← compileExpr env b
      .ok (cmpBody env.cfg op ca cb)) := by
  rw [compileExpr]
  cases compileExpr env a with
  | error _ => rfl
  | ok ca =>
  cases compileExpr env b with
  | error _ => rfl
  | ok cb =>
    simp only [bind, Except.bind]
    unfold cmpBody
    cases ca.kind <;> cases cb.kind <;> rfl

theorem compileExpr_log (op a b) : compileExpr env (.log op a b) = (do
      let ca ← compileExpr env a
      let cb ← compileExpr env b
      let cab := castOperands env.cfg ca cb
      .ok { il := .bin (if op == "&&" then .and else .or) (condIL env.cfg cab.1) (condIL env.cfg cab.2),
            ty := if env.cfg.boolOpTypedAsOperand then cab.1.ty else { signed := false, width := 1, group := gBool },
            kind := .boolObj }) := by
  rw [compileExpr]

/-- `?:` on compiled operands -/
def ternOfCE (cfg : Cfg) (cc ca cb : CE) : CE :=
  let fab := if cfg.literalTypeBySuffixOnly then (ca, cb)
             else castOperands cfg (promotionCast cfg ca) (promotionCast cfg cb)
  match cc.kind with
  | .lit v => if v != 0 then fab.1 else fab.2
  | .boolLit r => if r then fab.1 else fab.2
  | _ =>
      let cab := if cfg.cmpUnpromoted then (ca, cb) else (promotionCast cfg ca, promotionCast cfg cb)
      let cab := castOperands cfg cab.1 cab.2
      { il := .ite (condIL cfg cc) cab.1.il cab.2.il, ty := cab.1.ty, kind := .plain }

theorem compileExpr_tern (c a b) : compileExpr env (.tern c a b) = (do
      let cc ← compileExpr env c
      let ca ← compileExpr env a
      let cb ← compileExpr env b
      .ok (ternOfCE env.cfg cc ca cb)) := by
  rw [compileExpr]
  cases compileExpr env c with
  | error _ => rfl
  | ok cc =>
  cases compileExpr env a with
  | error _ => rfl
  | ok ca =>
  cases compileExpr env b with
  | error _ => rfl
  | ok cb =>
    cases hk : cc.kind <;> simp only [bind, Except.bind, ternOfCE, hk]

/-- return type of a macro call by the table -/
def macroRetVT (name : String) : VT :=
  match Gen.macroRows.find? (fun r => r.1 == name) with
  | some (_, _, some (.bv w), _) => { signed := (name == "sextract64"), width := w, group := 1 }
  | _ => { signed := false, width := 32, group := 1 }

theorem compileExpr_macro (name args ret params) : compileExpr env (.macro name args ret params) = (do
      let cargs ← compileArgs env args params
      .ok { il := .macro (macroRzName name) cargs, ty := macroRetVT name, kind := .plain }) := by
  rw [compileExpr]; rfl

theorem compileExpr_load (s w t) : compileExpr env (.load s w t) =
    .ok { il := .cast t.width (if env.cfg.castFillNeedsBothSigned then (if t.signed && s then .un .msb (.loadw w (.varl "EA")) else .bfalse)
                               else (if s then .un .msb (.loadw w (.varl "EA")) else .bfalse)) (.loadw w (.varl "EA")),
          ty := t.toVT, kind := .plain } := by
  rw [compileExpr]

theorem compileArgs_nil (ps) : compileArgs env [] ps = .ok [] := by rw [compileArgs]
theorem compileArgs_cons_nil (a as) : compileArgs env (a :: as) [] = .error "macro arity" := by rw [compileArgs]
theorem compileArgs_cons (a as p ps) : compileArgs env (a :: as) (p :: ps) = (do
      let ca ← compileExpr env a
      let ca := if ca.ty.eqv p.toVT then ca else initACast env.cfg p.toVT ca
      let rest ← compileArgs env as ps
      .ok (ca.il :: rest)) := by rw [compileArgs]

/-- the arithmetic/bitwise operator on compiled operands -/
def binOp? (op : String) : Option BinOp :=
  match op with
  | "+" => some .add | "-" => some .sub | "*" => some .mul
  | "&" => some .logand | "|" => some .logor | "^" => some .logxor | _ => none

theorem compileBin_eq (op ca cb) : compileBin env op ca cb =
    (let ab := castOperands env.cfg (promotionCast env.cfg ca) (promotionCast env.cfg cb)
     match binOp? op with
     | some o => .ok { il := .bin o ab.1.il ab.2.il, ty := ab.1.ty, kind := .plain }
     | none => .error s!"operator {op} not modelled") := by
  unfold compileBin binOp?
  rfl

end compile

section evalC
variable (ms : MacroSem) (σ : MState)

theorem evalC_reg (n k t) : evalC ms σ (.reg n k t) = .ok (readRegC σ n k t) := by rw [evalC]
theorem evalC_imm (l s) : evalC ms σ (.imm l s) = .ok (.bv 32 (BitVec.ofNat 32 (σ.imm l))) := by rw [evalC]
theorem evalC_lit (v h sfx) : evalC ms σ (.lit v h sfx) =
    .ok (.bv (litTypeC v h sfx).width (BitVec.ofNat (litTypeC v h sfx).width v)) := by rw [evalC]
theorem evalC_var (n t) : evalC ms σ (.var n t) = (match lookupS n σ.locals with
      | some v => .ok v
      | none => .error (.unbound n)) := by rw [evalC]; rfl
theorem evalC_cast (t e) : evalC ms σ (.cast t e) = (do
      let v ← evalC ms σ e
      convC (typeOfC e) t v) := by rw [evalC]
theorem evalC_un (op e) : evalC ms σ (.un op e) = (do
      let v ← evalC ms σ e
      let v ← convC (typeOfC e) (typeOfC e).promote v
      match v with
      | .bv w x => if op == "-" then .ok (.bv w (-x)) else .ok (.bv w (~~~x))
      | _ => .error (.sort "unary")) := by rw [evalC]; rfl
theorem evalC_not (e) : evalC ms σ (.not e) = (do
      let v ← evalC ms σ e
      let b ← truthy v
      .ok (boolVal (!b))) := by rw [evalC]

/-- C arithmetic/bitwise operator on two converted operands -/
def binC (op : String) (va vb : Val) : Except Stuck Val :=
  match op with
  | "+" => evalBin .add va vb
  | "-" => evalBin .sub va vb
  | "*" => evalBin .mul va vb
  | "&" => evalBin .logand va vb
  | "|" => evalBin .logor va vb
  | "^" => evalBin .logxor va vb
  | _ => .error (.undef op)

theorem evalC_bin (op a b) : evalC ms σ (.bin op a b) = (do
      let va ← evalC ms σ a
      let vb ← evalC ms σ b
      let va ← convC (typeOfC a) ((typeOfC a).common (typeOfC b)) va
      let vb ← convC (typeOfC b) ((typeOfC a).common (typeOfC b)) vb
      binC op va vb) := by rw [evalC]; rfl

/-- C shift on the converted left operand -/
def shiftC (op : String) (tsigned : Bool) (tbsigned : Bool) (va vb : Val) : Except Stuck Val :=
  match va, vb with
  | .bv w x, .bv _ y =>
      if (tbsigned && y.msb) || y.toNat ≥ w then .error (.undef "shift amount")
      else if op == "<<" then .ok (.bv w (x <<< y.toNat))
      else if tsigned then .ok (.bv w (x.sshiftRight y.toNat)) else .ok (.bv w (x >>> y.toNat))
  | _, _ => .error (.sort "shift")

theorem evalC_shift (op a b) : evalC ms σ (.shift op a b) = (do
      let va ← evalC ms σ a
      let vb ← evalC ms σ b
      let va ← convC (typeOfC a) (typeOfC a).promote va
      shiftC op (typeOfC a).promote.signed (typeOfC b).signed va vb) := by rw [evalC]; rfl

/-- C comparison of two converted operands -/
def cmpVals (op : String) (sg : Bool) (va vb : Val) : Except Stuck Val :=
  match va, vb with
  | .bv wa x, .bv wb y =>
      if h : wa = wb then .ok (boolVal (cmpC op sg x (h ▸ y))) else .error (.sort "compare")
  | _, _ => .error (.sort "compare")

theorem evalC_cmp (op a b) : evalC ms σ (.cmp op a b) = (do
      let va ← evalC ms σ a
      let vb ← evalC ms σ b
      let va ← convC (typeOfC a) ((typeOfC a).common (typeOfC b)) va
      let vb ← convC (typeOfC b) ((typeOfC a).common (typeOfC b)) vb
      cmpVals op ((typeOfC a).common (typeOfC b)).signed va vb) := by rw [evalC]; rfl

theorem evalC_log (op a b) : evalC ms σ (.log op a b) = (do
      let va ← evalC ms σ a
      let vb ← evalC ms σ b
      let ba ← truthy va
      let bb ← truthy vb
      .ok (boolVal (if op == "&&" then ba && bb else ba || bb))) := by rw [evalC]

theorem evalC_tern (c a b) : evalC ms σ (.tern c a b) = (do
      let vc ← evalC ms σ c
      let bc ← truthy vc
      let va ← evalC ms σ a
      let vb ← evalC ms σ b
      if bc then convC (typeOfC a) ((typeOfC a).common (typeOfC b)) va
      else convC (typeOfC b) ((typeOfC a).common (typeOfC b)) vb) := by rw [evalC]

theorem evalC_macro (name args ret params) : evalC ms σ (.macro name args ret params) = (do
      let vs ← evalCArgs ms σ args params
      match ms name vs with
      | some v => .ok v
      | none => .error (.undef name)) := by rw [evalC]; rfl

theorem evalC_load (s w t) : evalC ms σ (.load s w t) = (match lookupS "EA" σ.locals with
      | some (.bv _ ea) =>
          convC { signed := s, width := w } t (.bv w (BitVec.ofNat w (loadBytes σ.mem ea.toNat (w / 8))))
      | _ => .error (.unbound "EA")) := by rw [evalC]; rfl

theorem evalC_post (v t op) : evalC ms σ (.post v t op) = .error (.undef "hybrid: use evalCH") := by rw [evalC]
theorem evalC_call (n a r p) : evalC ms σ (.call n a r p) = .error (.undef "hybrid: use evalCH") := by rw [evalC]
theorem evalC_stmtexpr (t v e) : evalC ms σ (.stmtexpr t v e) = .error (.undef "hybrid: use evalCH") := by rw [evalC]
theorem evalC_seqexpr (n x a p v) : evalC ms σ (.seqexpr n x a p v) = .error (.undef "hybrid: use evalCH") := by rw [evalC]
theorem evalC_callx (n x a r p) : evalC ms σ (.callx n x a r p) = .error (.undef "hybrid: use evalCH") := by rw [evalC]
theorem evalC_xmacro (n x r) : evalC ms σ (.xmacro n x r) = .error (.undef "pass-through macro: use evalCH") := by rw [evalC]

theorem evalCArgs_nil (ps) : evalCArgs ms σ [] ps = .ok [] := by rw [evalCArgs]
theorem evalCArgs_cons_nil (a as) : evalCArgs ms σ (a :: as) [] = .error (.sort "macro arity") := by rw [evalCArgs]
theorem evalCArgs_cons (a as p ps) : evalCArgs ms σ (a :: as) (p :: ps) = (do
      let v ← evalC ms σ a
      let v ← convC (typeOfC a) p v
      let vs ← evalCArgs ms σ as ps
      .ok (v :: vs)) := by rw [evalCArgs]

end evalC

section wfe
variable (σ : MState)
theorem WFE_reg (n k t) : WFE σ (.reg n k t) = wfReg σ n k t := by rw [WFE]
theorem WFE_imm (l s) : WFE σ (.imm l s) = decide (lookupS l σ.locals = some (.bv 32 (BitVec.ofNat 32 (σ.imm l)))) := by
  rw [WFE]
theorem WFE_lit (v h s) : WFE σ (.lit v h s) = decide (v < 2 ^ 64) := by rw [WFE]
theorem WFE_var (n t) : WFE σ (.var n t) = wfVar σ n t := by rw [WFE]
theorem WFE_cast (t e) : WFE σ (.cast t e) = (WFE σ e && !(isBoolE e && t.isU1)) := by rw [WFE]
theorem WFE_un (op e) : WFE σ (.un op e) = WFE σ e := by rw [WFE]
theorem WFE_not (e) : WFE σ (.not e) = WFE σ e := by rw [WFE]
theorem WFE_bin (op a b) : WFE σ (.bin op a b) = (WFE σ a && WFE σ b) := by rw [WFE]
theorem WFE_shift (op a b) : WFE σ (.shift op a b) = (WFE σ a && WFE σ b && !isBoolE b) := by rw [WFE]
theorem WFE_cmp (op a b) : WFE σ (.cmp op a b) = (WFE σ a && WFE σ b) := by rw [WFE]
theorem WFE_log (op a b) : WFE σ (.log op a b) = (WFE σ a && WFE σ b) := by rw [WFE]
theorem WFE_tern (c a b) : WFE σ (.tern c a b) = (WFE σ c && WFE σ a && WFE σ b) := by rw [WFE]
theorem WFE_macro (name args ret params) : WFE σ (.macro name args ret params) =
    (WFEs σ args params && macroRetOK name ret) := by rw [WFE]
theorem WFE_load (s w t) : WFE σ (.load s w t) = true := by rw [WFE]
theorem WFEs_nil (ps) : WFEs σ [] ps = true := by rw [WFEs]
theorem WFEs_cons_nil (a as) : WFEs σ (a :: as) [] = true := by rw [WFEs]
theorem WFEs_cons (a as p ps) : WFEs σ (a :: as) (p :: ps) =
    (WFE σ a && !(isBoolE a && p.isU1) && WFEs σ as ps) := by rw [WFEs]
end wfe

end Rzil
