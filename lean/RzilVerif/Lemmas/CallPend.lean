import RzilVerif.Lemmas.CallArgs
/-!
  C08 helpers, part 4: `popPending` (`chk_hybrid_dep`) and the render order of a call's entry.
-/
namespace Rzil
namespace C08

/-! ## `popPending` -/

/-- one step of `popPending`: the leaf `n` takes the first pending entry named `n` with it -/
def popStep (acc : List Pend × List Pend) (n : String) : List Pend × List Pend :=
  match acc.2.find? (fun p => p.tmp == n) with
  | some p => (acc.1 ++ [p], acc.2.filter (fun q => q.tmp != n))
  | none => acc

theorem popPending_eq (pending : List Pend) (leaves : List String) :
    popPending pending leaves = leaves.foldl popStep ([], pending) := rfl

theorem popStep_fst_subset (acc : List Pend × List Pend) (n : String) : acc.1 ⊆ (popStep acc n).1 := by
  unfold popStep; split
  · exact List.subset_append_left _ _
  · exact List.Subset.refl _

theorem popStep_snd_subset (acc : List Pend × List Pend) (n : String) : (popStep acc n).2 ⊆ acc.2 := by
  unfold popStep; split
  · exact fun x hx => (List.mem_filter.mp hx).1
  · exact List.Subset.refl _

theorem popFold_fst_subset (leaves : List String) : ∀ acc : List Pend × List Pend,
    acc.1 ⊆ (leaves.foldl popStep acc).1 := by
  induction leaves with
  | nil => intro acc; exact List.Subset.refl _
  | cons n ls ih =>
    intro acc
    simp only [List.foldl_cons]
    exact List.Subset.trans (popStep_fst_subset acc n) (ih _)

theorem popFold_snd_subset (leaves : List String) : ∀ acc : List Pend × List Pend,
    (leaves.foldl popStep acc).2 ⊆ acc.2 := by
  induction leaves with
  | nil => intro acc; exact List.Subset.refl _
  | cons n ls ih =>
    intro acc
    simp only [List.foldl_cons]
    exact List.Subset.trans (ih _) (popStep_snd_subset acc n)

/-- what is popped was pending (or already popped) -/
theorem popFold_fst_mem (leaves : List String) : ∀ (acc : List Pend × List Pend) (q : Pend),
    q ∈ (leaves.foldl popStep acc).1 → q ∈ acc.1 ∨ q ∈ acc.2 := by
  induction leaves with
  | nil => intro acc q h; exact Or.inl h
  | cons n ls ih =>
    intro acc q h
    simp only [List.foldl_cons] at h
    rcases ih _ q h with h | h
    · unfold popStep at h
      split at h
      · rename_i p hp
        rcases List.mem_append.mp h with h | h
        · exact Or.inl h
        · simp only [List.mem_singleton] at h; subst h
          exact Or.inr (List.mem_of_find?_eq_some hp)
      · exact Or.inl h
    · exact Or.inr (popStep_snd_subset acc n h)

/-- what stays pending is named by no leaf -/
theorem popFold_snd_not_leaf (leaves : List String) : ∀ (acc : List Pend × List Pend) (q : Pend),
    q ∈ (leaves.foldl popStep acc).2 → q.tmp ∉ leaves := by
  induction leaves with
  | nil => intro acc q _; simp
  | cons n ls ih =>
    intro acc q h
    simp only [List.foldl_cons] at h
    have h1 := ih _ q h
    have h2 : q ∈ (popStep acc n).2 := popFold_snd_subset ls _ h
    intro hm
    rcases List.mem_cons.mp hm with hm | hm
    · -- `q` is named `n` and still there after the step for `n`: impossible
      unfold popStep at h2
      split at h2
      · simp [List.mem_filter, hm] at h2
      · rename_i hnone
        have := List.find?_eq_none.mp hnone q h2
        simp [hm] at this
    · exact h1 hm

/-- the entry named by a leaf is popped (if it is the only pending entry of that name) -/
theorem popFold_pops (leaves : List String) : ∀ (acc : List Pend × List Pend) (q : Pend),
    q ∈ acc.2 → (∀ q' ∈ acc.2, q'.tmp = q.tmp → q' = q) → q.tmp ∈ leaves →
    q ∈ (leaves.foldl popStep acc).1 := by
  induction leaves with
  | nil => intro acc q _ _ h; simp at h
  | cons n ls ih =>
    intro acc q hq hu hl
    simp only [List.foldl_cons]
    by_cases hn : q.tmp = n
    · -- this leaf takes `q`
      apply popFold_fst_subset ls
      unfold popStep
      cases hf : acc.2.find? (fun p => p.tmp == n) with
      | none =>
        have := List.find?_eq_none.mp hf q hq
        simp [hn] at this
      | some p =>
        have hp := List.find?_some hf
        have hpm := List.mem_of_find?_eq_some hf
        simp only [beq_iff_eq] at hp
        have : p = q := hu p hpm (hp.trans hn.symm)
        subst this
        simp
    · have hl' : q.tmp ∈ ls := by
        rcases List.mem_cons.mp hl with h | h
        · exact absurd h hn
        · exact h
      apply ih _ q _ _ hl'
      · unfold popStep
        split
        · simp only [List.mem_filter, bne_iff_ne, ne_eq]; exact ⟨hq, hn⟩
        · exact hq
      · intro q' hq' ht
        exact hu q' (popStep_snd_subset acc n hq') ht

theorem popPending_pops {pending : List Pend} {leaves : List String} {q : Pend}
    (hq : q ∈ pending) (hu : ∀ q' ∈ pending, q'.tmp = q.tmp → q' = q) (hl : q.tmp ∈ leaves) :
    q ∈ (popPending pending leaves).1 ∧ q ∉ (popPending pending leaves).2 := by
  rw [popPending_eq]
  exact ⟨popFold_pops leaves ([], pending) q hq hu hl,
    fun h => popFold_snd_not_leaf leaves ([], pending) q h hl⟩

theorem popPending_rest_subset (pending : List Pend) (leaves : List String) :
    (popPending pending leaves).2 ⊆ pending := by
  rw [popPending_eq]; exact popFold_snd_subset leaves ([], pending)

theorem popPending_popped_subset (pending : List Pend) (leaves : List String) :
    (popPending pending leaves).1 ⊆ pending := by
  rw [popPending_eq]
  intro q h
  rcases popFold_fst_mem leaves ([], pending) q h with h | h
  · simp at h
  · exact h

/-! ## render order -/

/-- an entry that is executed before its temporary is set renders as: its dependencies, then `[exec, setTmp]` -/
theorem render_execFirst (p : Pend) (h : p.setFirst = false) :
    p.render = mkSeq (p.deps ++ [.seqn [p.exec, p.setTmp]]) := by
  simp [Pend.render, h]

theorem render_callEntry (st1 : HSt) (name : String) (cargs : List ILPure) (ret : CT) :
    (callEntry st1 name cargs ret).render =
      mkSeq ((popPending st1.pending (tmpsOfPures cargs)).1.map Pend.render ++
        [.seqn [.call ("hex_" ++ name) cargs, .setl (tmpName st1.hyb) (retRead ret)]]) := rfl

/-- with nothing to pull in, the entry renders as `SEQN(call, SETL(tmp, ret_val))` -/
theorem render_callEntry_nodeps (st1 : HSt) (name : String) (cargs : List ILPure) (ret : CT)
    (h : (popPending st1.pending (tmpsOfPures cargs)).1 = []) :
    (callEntry st1 name cargs ret).render =
      .seqn [.call ("hex_" ++ name) cargs, .setl (tmpName st1.hyb) (retRead ret)] := by
  rw [render_callEntry, h]; rfl

/-- a rendered entry is never `EMPTY` (so `mkSeq` keeps it) -/
theorem render_ne_empty (p : Pend) : p.render ≠ .empty := by
  unfold Pend.render
  rw [C05.mkSeq_eq, List.filter_append]
  have hcore : List.filter C05.notEmpty
      [ILEffect.seqn (if p.setFirst = true then [p.setTmp, p.exec] else [p.exec, p.setTmp])] =
      [ILEffect.seqn (if p.setFirst = true then [p.setTmp, p.exec] else [p.exec, p.setTmp])] := by
    simp [List.filter, C05.notEmpty]
  rw [hcore]
  generalize List.filter _ p.deps = ds
  cases ds with
  | nil => simp
  | cons d ds =>
    cases ds with
    | nil => simp
    | cons d' ds => simp

/-- **render order**: a pending entry `q` whose temporary is used by an argument of the call is rendered inside
    the call's entry, in front of the `[call, setTmp]` pair, and leaves the pending list. -/
theorem callEntry_pulls {st1 : HSt} {name : String} {cargs : List ILPure} {ret : CT} {q : Pend}
    (hq : q ∈ st1.pending) (hu : ∀ q' ∈ st1.pending, q'.tmp = q.tmp → q' = q) (hl : q.tmp ∈ tmpsOfPures cargs) :
    (∃ pre post, (callEntry st1 name cargs ret).deps = pre ++ q.render :: post ∧
      (callEntry st1 name cargs ret).render =
        mkSeq (pre ++ q.render :: post ++ [.seqn [.call ("hex_" ++ name) cargs, .setl (tmpName st1.hyb) (retRead ret)]])) ∧
    q ∉ (popPending st1.pending (tmpsOfPures cargs)).2 := by
  obtain ⟨h1, h2⟩ := popPending_pops hq hu hl
  refine ⟨?_, h2⟩
  have : q.render ∈ (callEntry st1 name cargs ret).deps := List.mem_map.mpr ⟨q, h1, rfl⟩
  obtain ⟨pre, post, hd⟩ := List.append_of_mem this
  refine ⟨pre, post, hd, ?_⟩
  rw [render_execFirst _ rfl, hd]
  rfl

end C08
end Rzil
