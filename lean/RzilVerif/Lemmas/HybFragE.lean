import RzilVerif.Lemmas.HybFragA
import RzilVerif.Lemmas.HybHyb
import RzilVerif.Lemmas.ExprLemmas
/-!
  C06 helpers, part 13 (simulation fragment, E): on the fragment, every temporary created for a postfix operation
  is read by the compiled expression (so the consumer's `chk` pulls every one of them out).
-/
namespace Rzil
namespace C06
open C05 (bind_ok bind_ok_of)

theorem isConstLike_posts : (e : CExpr) → isConstLike e = true → postsOf e = []
  | .lit _ _ _, _ => rfl
  | .cast _ e, h => by simpa [postsOf] using isConstLike_posts e (by simpa [isConstLike] using h)
  | .un _ e, h => by simpa [postsOf] using isConstLike_posts e (by simpa [isConstLike] using h)
  | .bin _ a b, h => by
      simp only [isConstLike, Bool.and_eq_true] at h
      simp [postsOf, isConstLike_posts a h.1, isConstLike_posts b h.2]
  | .cmp _ a b, h => by
      simp only [isConstLike, Bool.and_eq_true] at h
      simp [postsOf, isConstLike_posts a h.1, isConstLike_posts b h.2]
  | .tern _ _ _, _ => rfl
  | .reg _ _ _, h => by simp [isConstLike] at h
  | .imm _ _, h => by simp [isConstLike] at h
  | .var _ _, h => by simp [isConstLike] at h
  | .not _, h => by simp [isConstLike] at h
  | .shift _ _ _, h => by simp [isConstLike] at h
  | .log _ _ _, h => by simp [isConstLike] at h
  | .macro _ _ _ _, h => by simp [isConstLike] at h
  | .load _ _ _, h => by simp [isConstLike] at h
  | .post _ _ _, h => by simp [isConstLike] at h
  | .call _ _ _ _, h => by simp [isConstLike] at h
  | .stmtexpr _ _ _, h => by simp [isConstLike] at h

/-- a compiled literal comes from an expression without postfix operations -/
theorem posts_of_fold {env : CEnv} {e : CExpr} {st st' : HSt} {c : CE} {v : Int}
    (h : compileExprH env st e = .ok (c, st')) (hf : foldVal env.cfg c = some v) : postsOf e = [] :=
  isConstLike_posts e (kind_const env e h (foldVal_isLit hf))

/-! ## the conversions keep the leaves -/

theorem tmps_condILk {t : String} {p : CE} (h : t ∈ tmpsOfPure p.il) : t ∈ tmpsOfPure (condILk p) := by
  unfold condILk; split <;> simp [tmpsOfPure, h]

theorem tmps_condIL {cfg : Cfg} {t : String} {p : CE} (h : t ∈ tmpsOfPure p.il) : t ∈ tmpsOfPure (condIL cfg p) := by
  unfold condIL
  split
  · exact tmps_condILk h
  · split <;> simp [tmpsOfPure, h]

theorem tmps_initACast {cfg : Cfg} {T : VT} {t : String} {p : CE} (h : t ∈ tmpsOfPure p.il) :
    t ∈ tmpsOfPure (initACast cfg T p).il := by
  unfold initACast
  split
  · exact h
  · split
    · simp only [tmpsOfPure, List.mem_append]
      left; left
      split
      · exact tmps_condILk h
      · exact h
    · simp only [tmpsOfPure, List.mem_append]
      right; exact h

theorem tmps_promotionCast {cfg : Cfg} {t : String} {p : CE} (h : t ∈ tmpsOfPure p.il) :
    t ∈ tmpsOfPure (promotionCast cfg p).il := by
  unfold promotionCast
  simp only
  split
  · exact h
  · exact tmps_initACast h

theorem tmps_gccSrc {cfg : Cfg} {T : CT} {t : String} {p : CE} (h : t ∈ tmpsOfPure p.il) :
    t ∈ tmpsOfPure (gccSrc cfg T p).il := by
  unfold gccSrc
  split
  · exact h
  · exact tmps_initACast h

theorem tmps_castOperands_1 {cfg : Cfg} {t : String} {a b : CE} (h : t ∈ tmpsOfPure a.il) :
    t ∈ tmpsOfPure (castOperands cfg a b).1.il := by
  rw [castOperands_eq]; exact tmps_initACast h

theorem tmps_castOperands_2 {cfg : Cfg} {t : String} {a b : CE} (h : t ∈ tmpsOfPure b.il) :
    t ∈ tmpsOfPure (castOperands cfg a b).2.il := by
  rw [castOperands_eq]; exact tmps_initACast h

theorem tmps_compileBin {env : CEnv} {op : String} {ca cb r : CE} {t : String}
    (hr : compileBin env op ca cb = .ok r) (h : t ∈ tmpsOfPure ca.il ∨ t ∈ tmpsOfPure cb.il) :
    t ∈ tmpsOfPure r.il := by
  simp only [compileBin] at hr
  split at hr
  · simp only [Except.ok.injEq] at hr; subst hr
    simp only [tmpsOfPure, List.mem_append]
    rcases h with h | h
    · exact Or.inl (tmps_castOperands_1 (tmps_promotionCast h))
    · exact Or.inr (tmps_castOperands_2 (tmps_promotionCast h))
  · cases hr

theorem tmps_cmpIL {op : String} {a b : CE} {t : String} (h : t ∈ tmpsOfPure a.il ∨ t ∈ tmpsOfPure b.il) :
    t ∈ tmpsOfPure (cmpIL op a b) := by
  unfold cmpIL
  simp only
  split <;> simp only [tmpsOfPure, List.mem_append] <;> exact h

theorem tmps_cmpOperands {cfg : Cfg} {ca cb : CE} {t : String}
    (h : t ∈ tmpsOfPure ca.il ∨ t ∈ tmpsOfPure cb.il) :
    t ∈ tmpsOfPure (cmpOperands cfg ca cb).1.il ∨ t ∈ tmpsOfPure (cmpOperands cfg ca cb).2.il := by
  unfold cmpOperands
  rcases h with h | h
  · left; apply tmps_castOperands_1; split
    · exact h
    · exact tmps_promotionCast h
  · right; apply tmps_castOperands_2; split
    · exact h
    · exact tmps_promotionCast h

/-! ## (E) -/

/-- on the fragment the counter advances by the number of postfix operations -/
theorem postOnly_count : (e : CExpr) → postOnly e = true → hybCountE e = (postsOf e).length
  | .reg _ _ _, _ => rfl
  | .imm _ _, _ => rfl
  | .lit _ _ _, _ => rfl
  | .var _ _, _ => rfl
  | .load _ _ _, _ => rfl
  | .cast _ e, h => by simpa [hybCountE, postsOf] using postOnly_count e (by simpa [postOnly] using h)
  | .un _ e, h => by simpa [hybCountE, postsOf] using postOnly_count e (by simpa [postOnly] using h)
  | .not e, h => by simpa [hybCountE, postsOf] using postOnly_count e (by simpa [postOnly] using h)
  | .bin _ a b, h => by
      simp only [postOnly, Bool.and_eq_true] at h
      simp [hybCountE, postsOf, postOnly_count a h.1, postOnly_count b h.2]
  | .shift _ a b, h => by
      simp only [postOnly, Bool.and_eq_true] at h
      simp [hybCountE, postsOf, postOnly_count a h.1, postOnly_count b h.2]
  | .cmp _ a b, h => by
      simp only [postOnly, Bool.and_eq_true] at h
      simp [hybCountE, postsOf, postOnly_count a h.1, postOnly_count b h.2]
  | .post _ _ _, _ => rfl
  | .log _ _ _, h => by simp [postOnly] at h
  | .tern _ _ _, h => by simp [postOnly] at h
  | .macro _ _ _ _, h => by simp [postOnly] at h
  | .call _ _ _ _, h => by simp [postOnly] at h
  | .stmtexpr _ _ _, h => by simp [postOnly] at h

theorem compileExprH_fragCount (env : CEnv) (e : CExpr) {st st' : HSt} {ce : CE} (hp : postOnly e = true)
    (h : compileExprH env st e = .ok (ce, st')) : st'.hyb = st.hyb + (postsOf e).length := by
  rw [← postOnly_count e hp]; exact compileExprH_hyb env e h

theorem tmpsOf_postPendsFrom_append (k : Nat) (xs ys : List (String × CT × String)) :
    tmpsOf (postPendsFrom k (xs ++ ys)) = tmpsOf (postPendsFrom k xs) ++ tmpsOf (postPendsFrom (k + xs.length) ys) := by
  rw [postPendsFrom_append]; simp [tmpsOf]

theorem frag_tmps_read (env : CEnv) : (e : CExpr) → {st st' : HSt} → {ce : CE} → postOnly e = true →
    compileExprH env st e = .ok (ce, st') →
    ∀ t ∈ tmpsOf (postPendsFrom st.hyb (postsOf e)), t ∈ tmpsOfPure ce.il
  | .reg _ _ _, _, _, _, _, _ => by simp [postsOf, postPendsFrom, tmpsOf]
  | .imm _ _, _, _, _, _, _ => by simp [postsOf, postPendsFrom, tmpsOf]
  | .lit _ _ _, _, _, _, _, _ => by simp [postsOf, postPendsFrom, tmpsOf]
  | .var _ _, _, _, _, _, _ => by simp [postsOf, postPendsFrom, tmpsOf]
  | .load _ _ _, _, _, _, _, _ => by simp [postsOf, postPendsFrom, tmpsOf]
  | .cast T e, st, st', ce, hp, h => by
      obtain ⟨c1, h1, rfl⟩ := inv_cast h
      intro t ht
      exact tmps_gccSrc (cfg := env.cfg) (T := T) (frag_tmps_read env e (by simpa [postOnly] using hp) h1 t (by simpa [postsOf] using ht))
  | .un op e, st, st', ce, hp, h => by
      obtain ⟨c1, h1, rfl⟩ := invX_un h
      intro t ht
      simp only [postsOf] at ht
      unfold unCE
      cases hf : foldVal env.cfg c1 with
      | some v => rw [posts_of_fold h1 hf] at ht; simp [postPendsFrom, tmpsOf] at ht
      | none =>
        simp only [tmpsOfPure]
        exact tmps_promotionCast (frag_tmps_read env e (by simpa [postOnly] using hp) h1 t ht)
  | .not e, st, st', ce, hp, h => by
      obtain ⟨c1, h1, rfl⟩ := invX_not h
      intro t ht
      simp only [postsOf] at ht
      simp only [notCE, tmpsOfPure]
      exact tmps_condIL (frag_tmps_read env e (by simpa [postOnly] using hp) h1 t ht)
  | .bin op a b, st, st', ce, hp, h => by
      obtain ⟨ca, s1, cb, h1, h2, h3⟩ := invX_bin h
      simp only [postOnly, Bool.and_eq_true] at hp
      intro t ht
      have hcount : s1.hyb = st.hyb + (postsOf a).length := compileExprH_fragCount env a hp.1 h1
      simp only [postsOf, tmpsOf_postPendsFrom_append, List.mem_append] at ht
      have hor : t ∈ tmpsOfPure ca.il ∨ t ∈ tmpsOfPure cb.il := by
        rcases ht with ht | ht
        · exact Or.inl (frag_tmps_read env a hp.1 h1 t ht)
        · exact Or.inr (frag_tmps_read env b hp.2 h2 t (by rw [hcount]; exact ht))
      unfold binCE at h3
      cases hfa : foldVal env.cfg ca with
      | none => rw [hfa] at h3; exact tmps_compileBin h3 hor
      | some va =>
        cases hfb : foldVal env.cfg cb with
        | none => rw [hfa, hfb] at h3; exact tmps_compileBin h3 hor
        | some vb =>
          exfalso
          rw [posts_of_fold h1 hfa, posts_of_fold h2 hfb] at ht
          simp [postPendsFrom, tmpsOf] at ht
  | .shift op a b, st, st', ce, hp, h => by
      obtain ⟨ca, s1, cb, h1, h2, rfl⟩ := invX_shift h
      simp only [postOnly, Bool.and_eq_true] at hp
      intro t ht
      have hcount : s1.hyb = st.hyb + (postsOf a).length := compileExprH_fragCount env a hp.1 h1
      simp only [postsOf, tmpsOf_postPendsFrom_append, List.mem_append] at ht
      simp only [shiftCE, tmpsOfPure, List.mem_append]
      rcases ht with ht | ht
      · left
        have := frag_tmps_read env a hp.1 h1 t ht
        unfold shiftL; split
        · exact this
        · exact tmps_promotionCast this
      · exact Or.inr (frag_tmps_read env b hp.2 h2 t (by rw [hcount]; exact ht))
  | .cmp op a b, st, st', ce, hp, h => by
      obtain ⟨ca, s1, cb, h1, h2, rfl⟩ := invX_cmp h
      simp only [postOnly, Bool.and_eq_true] at hp
      intro t ht
      have hcount : s1.hyb = st.hyb + (postsOf a).length := compileExprH_fragCount env a hp.1 h1
      simp only [postsOf, tmpsOf_postPendsFrom_append, List.mem_append] at ht
      have hor : t ∈ tmpsOfPure ca.il ∨ t ∈ tmpsOfPure cb.il := by
        rcases ht with ht | ht
        · exact Or.inl (frag_tmps_read env a hp.1 h1 t ht)
        · exact Or.inr (frag_tmps_read env b hp.2 h2 t (by rw [hcount]; exact ht))
      unfold cmpCE
      cases hfa : foldVal env.cfg ca with
      | none => exact tmps_cmpIL (tmps_cmpOperands hor)
      | some va =>
        cases hfb : foldVal env.cfg cb with
        | none => exact tmps_cmpIL (tmps_cmpOperands hor)
        | some vb =>
          exfalso
          rw [posts_of_fold h1 hfa, posts_of_fold h2 hfb] at ht
          simp [postPendsFrom, tmpsOf] at ht
  | .post v T op, st, st', ce, _, h => by
      obtain ⟨rfl, rfl⟩ := inv_post h
      intro t ht
      simp only [postsOf, postPendsFrom, tmpsOf, List.map_cons, List.map_nil, List.mem_singleton, postPend] at ht
      subst ht
      simp [tmpsOfPure, isHTmp_tmpName]
  | .log _ _ _, _, _, _, hp, _ => by simp [postOnly] at hp
  | .tern _ _ _, _, _, _, hp, _ => by simp [postOnly] at hp
  | .macro _ _ _ _, _, _, _, hp, _ => by simp [postOnly] at hp
  | .call _ _ _ _, _, _, _, hp, _ => by simp [postOnly] at hp
  | .stmtexpr _ _ _, _, _, _, hp, _ => by simp [postOnly] at hp

end C06
end Rzil
