import RzilVerif.Lemmas.HEqvTmps
/-!
  CompileH ≃ Compile, part 3: unfolding equations of `compileExprH` and the expression-level agreement.
-/
namespace Rzil
namespace HEqv
set_option linter.unusedSimpArgs false

section eqns
variable (env : CEnv) (st : HSt)

theorem compileExprH_reg (n k t) : compileExprH env st (.reg n k t) =
    (do let r ← compileExpr env (.reg n k t); .ok (r, st)) := by
  rw [compileExprH]; all_goals (intros; contradiction)
theorem compileExprH_lit (v h s) : compileExprH env st (.lit v h s) =
    (do let r ← compileExpr env (.lit v h s); .ok (r, st)) := by
  rw [compileExprH]; all_goals (intros; contradiction)
theorem compileExprH_var (n t) : compileExprH env st (.var n t) =
    (do let r ← compileExpr env (.var n t); .ok (r, st)) := by
  rw [compileExprH]; all_goals (intros; contradiction)
theorem compileExprH_load (s w t) : compileExprH env st (.load s w t) =
    (do let r ← compileExpr env (.load s w t); .ok (r, st)) := by
  rw [compileExprH]; all_goals (intros; contradiction)

theorem compileExprH_imm (l s) : compileExprH env st (.imm l s) =
    (do let r ← compileExpr env (.imm l s)
        .ok (r, if st.live.contains l then st else { st with imms := st.imms ++ [(l, s)], live := st.live ++ [l] })) := by
  rw [compileExprH]

theorem compileExprH_cast (t e) : compileExprH env st (.cast t e) = (do
      let r ← compileExprH env st e
      .ok ((if r.1.ty.eqv t.toVT then r.1 else initACast env.cfg t.toVT r.1), r.2)) := by
  rw [compileExprH]

/-- `-`/`~` on a compiled operand, hybrid model -/
def unH (cfg : Cfg) (op : String) (ce : CE) : CE :=
  match foldVal cfg ce with
  | some v => foldUnCE cfg op ce v
  | none =>
      let a := promotionCast cfg ce
      { il := .un (if op == "-" then .neg else .lognot) a.il, ty := a.ty, kind := .plain }

theorem compileExprH_un (op e) : compileExprH env st (.un op e) = (do
      let r ← compileExprH env st e
      .ok (unH env.cfg op r.1, r.2)) := by
  rw [compileExprH]
  cases compileExprH env st e with
  | error m => rfl
  | ok r =>
    obtain ⟨ce, st'⟩ := r
    simp only [bind, Except.bind, unH]
    cases foldVal env.cfg ce <;> rfl

theorem compileExprH_not (e) : compileExprH env st (.not e) = (do
      let r ← compileExprH env st e
      .ok ({ il := .un .inv (condIL env.cfg r.1),
             ty := if env.cfg.boolOpTypedAsOperand then r.1.ty else { signed := false, width := 1, group := gBool },
             kind := .boolObj }, r.2)) := by
  rw [compileExprH]

/-- `+ - * & | ^` on compiled operands, hybrid model -/
def binH (env : CEnv) (op : String) (ca cb : CE) : Except String CE :=
  match foldVal env.cfg ca, foldVal env.cfg cb with
  | some va, some vb =>
      (match foldBinCE env.cfg op ca cb va vb with
       | some r => .ok r
       | none => compileBin env op ca cb)
  | _, _ => compileBin env op ca cb

theorem compileExprH_bin (op a b) : compileExprH env st (.bin op a b) = (do
      let ra ← compileExprH env st a
      let rb ← compileExprH env ra.2 b
      let r ← binH env op ra.1 rb.1
      .ok (r, rb.2)) := by
  rw [compileExprH]
  cases compileExprH env st a with
  | error m => rfl
  | ok ra =>
    obtain ⟨ca, st1⟩ := ra
    simp only [bind, Except.bind]
    cases compileExprH env st1 b with
    | error m => rfl
    | ok rb =>
      obtain ⟨cb, st2⟩ := rb
      simp only [binH]
      cases foldVal env.cfg ca <;> cases foldVal env.cfg cb <;> simp only <;>
        first
        | (cases compileBin env op ca cb <;> rfl)
        | (cases foldBinCE env.cfg op ca cb _ _ <;> simp only <;>
            first | rfl | (cases compileBin env op ca cb <;> rfl))

theorem compileExprH_shift (op a b) : compileExprH env st (.shift op a b) = (do
      let ra ← compileExprH env st a
      let rb ← compileExprH env ra.2 b
      let ca := if env.cfg.shiftLeftUnpromoted then ra.1 else promotionCast env.cfg ra.1
      let o : BinOp := if op == "<<" then .shiftl0 else if ca.ty.signed then .shiftra else .shiftr0
      .ok ({ il := .bin o ca.il rb.1.il, ty := ca.ty, kind := .plain }, rb.2)) := by
  rw [compileExprH]

/-- a comparison of compiled operands, hybrid model -/
def cmpH (cfg : Cfg) (op : String) (ca cb : CE) : CE :=
  match foldVal cfg ca, foldVal cfg cb with
  | some va, some vb => foldCmpCE cfg op ca cb va vb
  | _, _ => cmpOfCE cfg op ca cb

theorem compileExprH_cmp (op a b) : compileExprH env st (.cmp op a b) = (do
      let ra ← compileExprH env st a
      let rb ← compileExprH env ra.2 b
      .ok (cmpH env.cfg op ra.1 rb.1, rb.2)) := by
  rw [compileExprH]
  cases compileExprH env st a with
  | error m => rfl
  | ok ra =>
    obtain ⟨ca, st1⟩ := ra
    simp only [bind, Except.bind]
    cases compileExprH env st1 b with
    | error m => rfl
    | ok rb =>
      obtain ⟨cb, st2⟩ := rb
      simp only [cmpH]
      cases foldVal env.cfg ca <;> cases foldVal env.cfg cb <;> rfl

theorem compileExprH_log (op a b) : compileExprH env st (.log op a b) = (do
      let ra ← compileExprH env st a
      let rb ← compileExprH env ra.2 b
      let cab := castOperands env.cfg ra.1 rb.1
      .ok ({ il := .bin (if op == "&&" then .and else .or) (condIL env.cfg cab.1) (condIL env.cfg cab.2),
             ty := if env.cfg.boolOpTypedAsOperand then cab.1.ty else { signed := false, width := 1, group := gBool },
             kind := .boolObj }, rb.2)) := by
  rw [compileExprH]

/-- constant condition of a `?:` -/
def ternFold (cc : CE) : Option Bool :=
  match cc.kind with
  | .lit v => some (v != 0)
  | .boolLit r => some r
  | _ => none

/-- the state after the dead arm of a constant `?:` was dropped -/
def ternDeadSt (env : CEnv) (st : HSt) (dead : CE) : HSt :=
  match dead.il with
  | .varl n => if isHTmp n then { st with pending := st.pending.filter (fun p => p.tmp != n) }
               else if env.cfg.literalTypeBySuffixOnly then { st with live := st.live.filter (· != n) }
               else st
  | _ => st

/-- the state after the arms of a run-time `?:` were looked up among the pending statement-expressions -/
def ternGccSt (st : HSt) (cc ca cb : CE) : HSt :=
  let condB : ILPure := condILk cc
  let st := match gccTmpOf st ca with
    | some n => { st with pending := st.pending.map (fun p => if p.tmp == n then { p with exec := .branch condB p.exec .empty } else p) }
    | none => st
  match gccTmpOf st cb with
    | some n => { st with pending := st.pending.map (fun p => if p.tmp == n then { p with exec := .branch condB .empty p.exec } else p) }
    | none => st

theorem compileExprH_tern (c a b) : compileExprH env st (.tern c a b) = (do
      let rc ← compileExprH env st c
      let ra ← compileExprH env rc.2 a
      let rb ← compileExprH env ra.2 b
      .ok (ternOfCE env.cfg rc.1 ra.1 rb.1,
           match ternFold rc.1 with
           | some live => ternDeadSt env rb.2 (if live then rb.1 else ra.1)
           | none => ternGccSt rb.2 rc.1 ra.1 rb.1)) := by
  rw [compileExprH]
  cases compileExprH env st c with
  | error m => rfl
  | ok rc =>
    obtain ⟨cc, st0⟩ := rc
    simp only [bind, Except.bind]
    cases compileExprH env st0 a with
    | error m => rfl
    | ok ra =>
      obtain ⟨ca, st1⟩ := ra
      simp only
      cases compileExprH env st1 b with
      | error m => rfl
      | ok rb =>
        obtain ⟨cb, st2⟩ := rb
        simp only [ternFold, ternOfCE]
        cases hk : cc.kind <;> rfl

theorem compileExprH_macro (name args ret params) : compileExprH env st (.macro name args ret params) = (do
      let r ← compileArgsH env st args params
      .ok ({ il := .macro (macroRzName name) r.1, ty := macroRetVT name, kind := .plain }, r.2)) := by
  rw [compileExprH]; rfl

theorem compileArgsH_nil (ps) : compileArgsH env st [] ps = .ok ([], st) := by rw [compileArgsH]
theorem compileArgsH_cons_nil (a as) : compileArgsH env st (a :: as) [] = .error "arity" := by rw [compileArgsH]
theorem compileArgsH_cons (a as p ps) : compileArgsH env st (a :: as) (p :: ps) = (do
      let ra ← compileExprH env st a
      let rest ← compileArgsH env ra.2 as ps
      .ok ((if ra.1.ty.eqv p.toVT then ra.1 else initACast env.cfg p.toVT ra.1).il :: rest.1, rest.2)) := by
  rw [compileArgsH]

end eqns


/-! ### the operator bodies agree -/

theorem unH_eq (cfg : Cfg) (op : String) (ce : CE)
    (h : (cfg.literalTypeBySuffixOnly && ce.kind.isBoolLit) = false) : unH cfg op ce = unOfCE cfg op ce := by
  unfold unH unOfCE foldVal
  cases hk : ce.kind with
  | lit v => simp only [foldUnCE]
  | plain => simp only [PKind.litVal, ite_self]
  | boolObj => simp only [PKind.litVal, ite_self]
  | boolLit r =>
    simp only [hk, PKind.isBoolLit, Bool.and_true] at h
    simp only [h, Bool.false_eq_true, ↓reduceIte]

theorem foldBinCE_eq (cfg : Cfg) (op : String) (ca cb : CE) (va vb : Int) :
    foldBinCE cfg op ca cb va vb = if op == "+" || op == "-" || op == "*" then some (foldBin cfg op ca cb va vb) else none := rfl

theorem binH_eq (env : CEnv) (op : String) (ca cb : CE)
    (h : (env.cfg.literalTypeBySuffixOnly && isFoldOp op && mixedFold ca.kind cb.kind) = false) :
    binH env op ca cb = binBody env op ca cb := by
  unfold binH binBody foldVal
  by_cases hop : (op == "+" || op == "-" || op == "*") = true
  · have hop' : isFoldOp op = true := hop
    by_cases hl : env.cfg.literalTypeBySuffixOnly = true
    · simp only [hl, hop', Bool.and_self, Bool.true_and, mixedFold] at h
      cases ha : ca.kind <;> cases hb : cb.kind <;>
        simp only [ha, hb, PKind.litVal, PKind.isBoolLit, Option.isSome_some, Option.isSome_none, Bool.and_self,
          Bool.or_self, Bool.or_true, Bool.or_false, Bool.true_or, Bool.false_eq_true, Bool.true_eq_false,
          Bool.and_true, Bool.and_false, Bool.false_and] at h ⊢ <;>
        simp only [hl, ↓reduceIte, foldBinCE_eq, hop]
    · simp only [hl, Bool.false_eq_true, ↓reduceIte]
      cases ha : ca.kind <;> cases hb : cb.kind <;> simp only [foldBinCE_eq, hop, ↓reduceIte]
  · cases ha : ca.kind <;> cases hb : cb.kind <;> simp only [foldBinCE_eq, hop, Bool.false_eq_true, ↓reduceIte] <;>
      split <;> rfl



theorem cmpH_eq (cfg : Cfg) (op : String) (ca cb : CE)
    (h : (cfg.literalTypeBySuffixOnly && mixedFold ca.kind cb.kind) = false) :
    cmpH cfg op ca cb = cmpBody cfg op ca cb := by
  unfold cmpH cmpBody foldVal
  by_cases hl : cfg.literalTypeBySuffixOnly = true
  · simp only [hl, Bool.true_and, mixedFold] at h
    cases ha : ca.kind <;> cases hb : cb.kind <;>
      simp only [ha, hb, PKind.litVal, PKind.isBoolLit, Option.isSome_some, Option.isSome_none, Bool.and_self,
        Bool.or_self, Bool.or_true, Bool.or_false, Bool.true_or, Bool.false_eq_true, Bool.true_eq_false,
        Bool.and_true, Bool.and_false, Bool.false_and] at h ⊢ <;>
      first | rfl | (simp only [hl, ↓reduceIte]; done) | (simp only [hl, ↓reduceIte]; rfl)
  · simp only [hl, Bool.false_eq_true, ↓reduceIte]
    cases ha : ca.kind <;> cases hb : cb.kind <;> rfl

/-! ### the `?:` state -/

/-- no pending entry belongs to a statement-expression -/
def NoGcc (st : HSt) : Prop := ∀ p ∈ st.pending, p.gcc = false

theorem NoGcc_stAdd {st : HSt} (h : NoGcc st) (xs) : NoGcc (stAdd st xs) := h

theorem gccTmpOf_none {st : HSt} (h : NoGcc st) (c : CE) : gccTmpOf st c = none := by
  unfold gccTmpOf
  split
  · rename_i n _
    have : st.pending.any (fun p => p.tmp == n && p.gcc) = false := by
      rw [List.any_eq_false]; intro p hp; simp [h p hp]
    simp only [this, Bool.false_eq_true, ↓reduceIte]
  · rfl

theorem ternGccSt_eq {st : HSt} (h : NoGcc st) (cc ca cb : CE) : ternGccSt st cc ca cb = st := by
  unfold ternGccSt
  simp only [gccTmpOf_none h]

def isVarlIL : ILPure → Bool
  | .varl _ => true
  | _ => false

theorem ternDeadSt_eq (env : CEnv) (st : HSt) (dead : CE) (hn : tmpsOfPure dead.il = [])
    (hd : (env.cfg.literalTypeBySuffixOnly && isVarlIL dead.il) = false) : ternDeadSt env st dead = st := by
  unfold ternDeadSt
  split
  · rename_i n hil
    rw [hil] at hn hd
    have h1 : isHTmp n = false := by
      cases hh : isHTmp n
      · rfl
      · simp [tmpsOfPure, hh] at hn
    simp only [isVarlIL, Bool.and_true] at hd
    simp only [h1, hd, Bool.false_eq_true, ↓reduceIte]
  · rfl

/-- what `deadIsVarl` says once the three operands are compiled -/
def deadIsVarlCE (c0 c1 c2 : CE) : Bool :=
  match c0.kind with
  | .lit v => if v != 0 then isVarlIL c2.il else isVarlIL c1.il
  | .boolLit r => if r then isVarlIL c2.il else isVarlIL c1.il
  | _ => false

theorem ternSt_eq (env : CEnv) (st : HSt) (c0 c1 c2 : CE) (hg : NoGcc st)
    (h1 : tmpsOfPure c1.il = []) (h2 : tmpsOfPure c2.il = [])
    (hd : (env.cfg.literalTypeBySuffixOnly && deadIsVarlCE c0 c1 c2) = false) :
    (match ternFold c0 with
     | some live => ternDeadSt env st (if live then c2 else c1)
     | none => ternGccSt st c0 c1 c2) = st := by
  unfold ternFold
  unfold deadIsVarlCE at hd
  cases hk : c0.kind with
  | plain => exact ternGccSt_eq hg _ _ _
  | boolObj => exact ternGccSt_eq hg _ _ _
  | lit v =>
    simp only [hk] at hd ⊢
    by_cases hv : (v != 0) = true
    · simp only [hv, ↓reduceIte] at hd ⊢; exact ternDeadSt_eq env st c2 h2 hd
    · simp only [hv, Bool.false_eq_true, ↓reduceIte] at hd ⊢; exact ternDeadSt_eq env st c1 h1 hd
  | boolLit r =>
    simp only [hk] at hd ⊢
    by_cases hv : r = true
    · simp only [hv, ↓reduceIte] at hd ⊢; exact ternDeadSt_eq env st c2 h2 hd
    · simp only [hv, Bool.false_eq_true, ↓reduceIte] at hd ⊢; exact ternDeadSt_eq env st c1 h1 hd

theorem kindOfE_ok {env : CEnv} {e : CExpr} {c : CE} (h : compileExpr env e = .ok c) : kindOfE env e = c.kind := by
  simp only [kindOfE, h]

theorem isVarlE_ok {env : CEnv} {e : CExpr} {c : CE} (h : compileExpr env e = .ok c) : isVarlE env e = isVarlIL c.il := by
  simp only [isVarlE, h]; cases c.il <;> rfl

theorem deadIsVarl_ok {env : CEnv} {c a b : CExpr} {c0 c1 c2 : CE} (h0 : compileExpr env c = .ok c0)
    (h1 : compileExpr env a = .ok c1) (h2 : compileExpr env b = .ok c2) :
    deadIsVarl env c a b = deadIsVarlCE c0 c1 c2 := by
  simp only [deadIsVarl, deadIsVarlCE, kindOfE_ok h0, isVarlE_ok h1, isVarlE_ok h2]
  cases c0.kind <;> rfl



/-! ### the expression-level agreement -/

theorem map_ok {ε α β : Type} (f : α → β) (a : α) : (Except.ok a : Except ε α).map f = .ok (f a) := rfl
theorem map_error {ε α β : Type} (f : α → β) (m : ε) : (Except.error m : Except ε α).map f = .error m := rfl

mutual
/-- **expression level**: on hybrid-free expressions satisfying `HSame` the hybrid model returns what the pure
    model returns, and its state changes only by the registration of the expression's immediates -/
theorem compileExprH_eq (env : CEnv) :
    (e : CExpr) → (st : HSt) → HybFree e = true → HSame env e = true → LiveOK st → NoGcc st →
      compileExprH env st e = (compileExpr env e).map (fun ce => (ce, stAdd st (immsOfExpr e)))
  | .reg n k t, st, _, _, hl, _ => by
      rw [compileExprH_reg]; simp only [immsOfExpr, stAdd_nil st hl]
      cases compileExpr env (.reg n k t) <;> rfl
  | .lit v h s, st, _, _, hl, _ => by
      rw [compileExprH_lit]; simp only [immsOfExpr, stAdd_nil st hl]
      cases compileExpr env (.lit v h s) <;> rfl
  | .var n t, st, _, _, hl, _ => by
      rw [compileExprH_var]; simp only [immsOfExpr, stAdd_nil st hl]
      cases compileExpr env (.var n t) <;> rfl
  | .load s w t, st, _, _, hl, _ => by
      rw [compileExprH_load]; simp only [immsOfExpr, stAdd_nil st hl]
      cases compileExpr env (.load s w t) <;> rfl
  | .imm l s, st, _, _, hl, _ => by
      rw [compileExprH_imm, stAdd_single st hl]; simp only [immsOfExpr]
      cases compileExpr env (.imm l s) <;> rfl
  | .cast t e, st, hf, hs, hl, hg => by
      simp only [HybFree] at hf
      simp only [HSame] at hs
      rw [compileExprH_cast, compileExpr_cast, compileExprH_eq env e st hf hs hl hg]
      simp only [immsOfExpr]
      cases compileExpr env e with
      | error m => rfl
      | ok c1 => simp only [map_ok, bind, Except.bind]; split <;> rfl
  | .un op e, st, hf, hs, hl, hg => by
      simp only [HybFree] at hf
      simp only [HSame, Bool.and_eq_true, Bool.not_eq_eq_eq_not, Bool.not_true] at hs
      rw [compileExprH_un, compileExpr_un, compileExprH_eq env e st hf hs.1 hl hg]
      simp only [immsOfExpr]
      cases h1 : compileExpr env e with
      | error m => rfl
      | ok c1 =>
        simp only [map_ok, bind, Except.bind]
        rw [unH_eq env.cfg op c1 (by rw [← kindOfE_ok h1]; exact hs.2)]
  | .not e, st, hf, hs, hl, hg => by
      simp only [HybFree] at hf
      simp only [HSame] at hs
      rw [compileExprH_not, compileExpr_not, compileExprH_eq env e st hf hs hl hg]
      simp only [immsOfExpr]
      cases compileExpr env e with
      | error m => rfl
      | ok c1 => rfl
  | .bin op a b, st, hf, hs, hl, hg => by
      simp only [HybFree, Bool.and_eq_true] at hf
      simp only [HSame, Bool.and_eq_true, Bool.not_eq_eq_eq_not, Bool.not_true] at hs
      rw [compileExprH_bin, compileExpr_bin, compileExprH_eq env a st hf.1 hs.1.1 hl hg]
      cases h1 : compileExpr env a with
      | error m => rfl
      | ok c1 =>
        simp only [map_ok, bind, Except.bind]
        rw [compileExprH_eq env b _ hf.2 hs.1.2 (LiveOK_stAdd _ _) (NoGcc_stAdd hg _)]
        cases h2 : compileExpr env b with
        | error m => rfl
        | ok c2 =>
          simp only [map_ok]
          rw [binH_eq env op c1 c2 (by rw [← kindOfE_ok h1, ← kindOfE_ok h2]; exact hs.2)]
          simp only [immsOfExpr, stAdd_stAdd]
          cases binBody env op c1 c2 <;> rfl
  | .shift op a b, st, hf, hs, hl, hg => by
      simp only [HybFree, Bool.and_eq_true] at hf
      simp only [HSame, Bool.and_eq_true] at hs
      rw [compileExprH_shift, compileExpr_shift, compileExprH_eq env a st hf.1 hs.1 hl hg]
      cases h1 : compileExpr env a with
      | error m => rfl
      | ok c1 =>
        simp only [map_ok, bind, Except.bind]
        rw [compileExprH_eq env b _ hf.2 hs.2 (LiveOK_stAdd _ _) (NoGcc_stAdd hg _)]
        cases h2 : compileExpr env b with
        | error m => rfl
        | ok c2 => simp only [map_ok, immsOfExpr, stAdd_stAdd]
  | .cmp op a b, st, hf, hs, hl, hg => by
      simp only [HybFree, Bool.and_eq_true] at hf
      simp only [HSame, Bool.and_eq_true, Bool.not_eq_eq_eq_not, Bool.not_true] at hs
      rw [compileExprH_cmp, compileExpr_cmp, compileExprH_eq env a st hf.1 hs.1.1 hl hg]
      cases h1 : compileExpr env a with
      | error m => rfl
      | ok c1 =>
        simp only [map_ok, bind, Except.bind]
        rw [compileExprH_eq env b _ hf.2 hs.1.2 (LiveOK_stAdd _ _) (NoGcc_stAdd hg _)]
        cases h2 : compileExpr env b with
        | error m => rfl
        | ok c2 =>
          simp only [map_ok]
          rw [cmpH_eq env.cfg op c1 c2 (by rw [← kindOfE_ok h1, ← kindOfE_ok h2]; exact hs.2)]
          simp only [immsOfExpr, stAdd_stAdd]
  | .log op a b, st, hf, hs, hl, hg => by
      simp only [HybFree, Bool.and_eq_true] at hf
      simp only [HSame, Bool.and_eq_true] at hs
      rw [compileExprH_log, compileExpr_log, compileExprH_eq env a st hf.1 hs.1 hl hg]
      cases h1 : compileExpr env a with
      | error m => rfl
      | ok c1 =>
        simp only [map_ok, bind, Except.bind]
        rw [compileExprH_eq env b _ hf.2 hs.2 (LiveOK_stAdd _ _) (NoGcc_stAdd hg _)]
        cases h2 : compileExpr env b with
        | error m => rfl
        | ok c2 => simp only [map_ok, immsOfExpr, stAdd_stAdd]
  | .tern c a b, st, hf, hs, hl, hg => by
      simp only [HybFree, Bool.and_eq_true] at hf
      simp only [HSame, Bool.and_eq_true, Bool.not_eq_eq_eq_not, Bool.not_true] at hs
      rw [compileExprH_tern, compileExpr_tern, compileExprH_eq env c st hf.1.1 hs.1.1.1 hl hg]
      cases h0 : compileExpr env c with
      | error m => rfl
      | ok c0 =>
        simp only [map_ok, bind, Except.bind]
        rw [compileExprH_eq env a _ hf.1.2 hs.1.1.2 (LiveOK_stAdd _ _) (NoGcc_stAdd hg _)]
        cases h1 : compileExpr env a with
        | error m => rfl
        | ok c1 =>
          simp only [map_ok]
          rw [compileExprH_eq env b _ hf.2 hs.1.2 (LiveOK_stAdd _ _) (NoGcc_stAdd (NoGcc_stAdd hg _) _)]
          cases h2 : compileExpr env b with
          | error m => rfl
          | ok c2 =>
            simp only [map_ok]
            rw [ternSt_eq env _ c0 c1 c2 (NoGcc_stAdd (NoGcc_stAdd (NoGcc_stAdd hg _) _) _)
              (nt_compileExpr env a hf.1.2 h1) (nt_compileExpr env b hf.2 h2)
              (by rw [← deadIsVarl_ok h0 h1 h2]; exact hs.2)]
            simp only [immsOfExpr, stAdd_stAdd, List.append_assoc]
  | .macro name args ret params, st, hf, hs, hl, hg => by
      simp only [HybFree] at hf
      simp only [HSame] at hs
      rw [compileExprH_macro, compileExpr_macro, compileArgsH_eq env args params st hf hs hl hg]
      simp only [immsOfExpr]
      cases compileArgs env args params <;> rfl
  | .post _ _ _, st, hf, _, _, _ => by simp [HybFree] at hf
  | .call _ _ _ _, st, hf, _, _, _ => by simp [HybFree] at hf
  | .stmtexpr _ _ _, st, hf, _, _, _ => by simp [HybFree] at hf
theorem compileArgsH_eq (env : CEnv) :
    (as : List CExpr) → (ps : List CT) → (st : HSt) → HybFreeL as ps = true → HSameL env as = true →
      LiveOK st → NoGcc st →
      compileArgsH env st as ps = (compileArgs env as ps).map (fun cs => (cs, stAdd st (immsOfExpr.immsOfList as)))
  | [], ps, st, _, _, hl, _ => by
      rw [compileArgsH_nil, compileArgs_nil]; simp only [immsOfExpr.immsOfList, stAdd_nil st hl, map_ok]
  | _ :: _, [], st, hf, _, _, _ => by simp [HybFreeL] at hf
  | a :: as, p :: ps, st, hf, hs, hl, hg => by
      simp only [HybFreeL, Bool.and_eq_true] at hf
      simp only [HSameL, Bool.and_eq_true] at hs
      rw [compileArgsH_cons, compileArgs_cons, compileExprH_eq env a st hf.1 hs.1 hl hg]
      cases h1 : compileExpr env a with
      | error m => rfl
      | ok c1 =>
        simp only [map_ok, bind, Except.bind]
        rw [compileArgsH_eq env as ps _ hf.2 hs.2 (LiveOK_stAdd _ _) (NoGcc_stAdd hg _)]
        cases h2 : compileArgs env as ps with
        | error m => rfl
        | ok cs => simp only [map_ok, immsOfExpr.immsOfList, stAdd_stAdd]
end

end HEqv
end Rzil
