import RzilVerif.Lemmas.StmtState
/-!
  C05 helpers, part 3: the interface to the expression theorem (`Rel`, `TyOK`, `ExprOK`, `Sim`) and
  the conversions applied by the statement lowering (`initACast`, `promotionCast`, `condIL`, the
  store cast) under `Cfg.fixed`.
-/
namespace Rzil
namespace C05

/-! ## interface to the expression theorem (same definitions as in the expression task) -/

def Rel (ty : VT) (vIL vC : Val) : Prop :=
  if ty.hasFlag VT.gBOOL then ∃ b, vIL = .bool b ∧ vC = boolVal b else vIL = vC

def TyOK (ty : VT) (t : CT) (vC : Val) : Prop :=
  if ty.hasFlag VT.gBOOL then t = intT ∧ ty.width = 1 ∧ ty.signed = false
  else ty.signed = t.signed ∧ ty.width = t.width ∧ ∃ x : BitVec t.width, vC = .bv t.width x

/-- The expression theorem `expr_correct_fixed`, for the macro interpretation `ms` and the expressions and
    states satisfying `WF` (instantiate `WF σ e := WFE σ e = true`; a side condition on `ms` such as `MsOK ms`
    is discharged when the hypothesis is supplied). -/
def ExprOK (ms : MacroSem) (WF : MState → CExpr → Prop) : Prop :=
  ∀ (σ : MState) (env : CEnv) (e : CExpr) (ce : CE) (vC : Val),
    env.cfg = Cfg.fixed → WF σ e → evalC ms σ e = .ok vC → compileExpr env e = .ok ce →
    ∃ vIL, evalPure ms σ [] ce.il = .ok vIL ∧ Rel ce.ty vIL vC ∧ TyOK ce.ty (typeOfC e) vC

/-- `ce`, evaluated in `σ`, simulates the C value `vC` of C type `t`. -/
def Sim (ms : MacroSem) (σ : MState) (ce : CE) (t : CT) (vC : Val) : Prop :=
  ∃ vIL, evalPure ms σ [] ce.il = .ok vIL ∧ Rel ce.ty vIL vC ∧ TyOK ce.ty t vC

theorem Sim.bool {ms σ ce t vC} (h : Sim ms σ ce t vC) (hb : ce.ty.hasFlag VT.gBOOL = true) :
    ∃ b, evalPure ms σ [] ce.il = .ok (.bool b) ∧ vC = boolVal b ∧ t = intT ∧ ce.ty.width = 1 ∧ ce.ty.signed = false := by
  obtain ⟨vIL, he, hr, ht⟩ := h
  simp only [Rel, hb, ↓reduceIte] at hr
  simp only [TyOK, hb, ↓reduceIte] at ht
  obtain ⟨b, rfl, rfl⟩ := hr
  exact ⟨b, he, rfl, ht⟩

theorem Sim.bv {ms σ ce t vC} (h : Sim ms σ ce t vC) (hb : ce.ty.hasFlag VT.gBOOL = false) :
    ∃ x : BitVec t.width, evalPure ms σ [] ce.il = .ok (.bv t.width x) ∧ vC = .bv t.width x ∧
      ce.ty.signed = t.signed ∧ ce.ty.width = t.width := by
  obtain ⟨vIL, he, hr, ht⟩ := h
  simp only [Rel, hb, Bool.false_eq_true, ↓reduceIte] at hr
  simp only [TyOK, hb, Bool.false_eq_true, ↓reduceIte] at ht
  obtain ⟨hs, hw, x, rfl⟩ := ht
  subst hr
  exact ⟨x, he, rfl, hs, hw⟩

theorem Sim.of_bv {ms σ} {ce : CE} {t : CT} {x : BitVec t.width} (hb : ce.ty.hasFlag VT.gBOOL = false)
    (he : evalPure ms σ [] ce.il = .ok (.bv t.width x)) (hs : ce.ty.signed = t.signed) (hw : ce.ty.width = t.width) :
    Sim ms σ ce t (.bv t.width x) := by
  refine ⟨_, he, ?_, ?_⟩
  · simp [Rel, hb]
  · simp only [TyOK, hb, Bool.false_eq_true, ↓reduceIte]; exact ⟨hs, hw, x, rfl⟩

/-! ## bit-level conversion facts -/

theorem ilCast_msb_eq_signExtend {n : Nat} (x : BitVec n) (w : Nat) : ilCast w x.msb x = x.signExtend w := by
  unfold ilCast
  by_cases h : w ≤ n
  · simp only [h, ↓reduceIte]; exact (BitVec.signExtend_eq_setWidth_of_le x h).symm
  · simp only [h, ↓reduceIte]
    cases hm : x.msb with
    | false => simp only [Bool.false_eq_true, ↓reduceIte]; exact (BitVec.signExtend_eq_setWidth_of_msb_false hm).symm
    | true =>
      simp only [↓reduceIte]
      ext i hi
      simp only [BitVec.getElem_or, BitVec.getElem_setWidth, BitVec.getElem_shiftLeft, BitVec.getElem_signExtend,
        BitVec.getElem_allOnes, hm]
      by_cases hin : i < n <;> simp [*]

theorem ilCast_false_eq_setWidth {n : Nat} (x : BitVec n) (w : Nat) : ilCast w false x = x.setWidth w := by
  unfold ilCast; split <;> simp

/-- `CAST(w, fill, x)` with the fill the repaired lowering emits is the C conversion. -/
theorem ilCast_fill_eq_convBits {n : Nat} (x : BitVec n) (src dst : CT) :
    ilCast dst.width (if src.signed then x.msb else false) x = convBits src dst x := by
  unfold convBits
  cases hs : src.signed with
  | false =>
    simp only [Bool.false_eq_true, ↓reduceIte, ilCast_false_eq_setWidth]; split <;> rfl
  | true =>
    simp only [↓reduceIte, ilCast_msb_eq_signExtend]
    split
    · rename_i h; exact BitVec.signExtend_eq_setWidth_of_le x h
    · rfl

theorem convC_same_width {src dst : CT} {n : Nat} (x : BitVec n) (h : dst.width = n) :
    convC src dst (.bv n x) = .ok (.bv n x) := by
  obtain ⟨ds, dw⟩ := dst
  simp only at h; subst h
  simp [convC, convBits]

theorem convC_bv (src dst : CT) {n : Nat} (x : BitVec n) :
    convC src dst (.bv n x) = .ok (.bv dst.width (convBits src dst x)) := rfl

theorem convBits_boolVal (dst : CT) (b : Bool) :
    convBits intT dst (if b then (1 : BitVec 32) else 0) = BitVec.ofInt dst.width (if b then 1 else 0) := by
  unfold convBits
  cases b
  · have hm : (0 : BitVec 32).msb = false := by decide
    simp only [Bool.false_eq_true, ↓reduceIte, intT, BitVec.signExtend_eq_setWidth_of_msb_false hm]
    simp
  · have hm : (1 : BitVec 32).msb = false := by decide
    simp only [↓reduceIte, intT, BitVec.signExtend_eq_setWidth_of_msb_false hm]
    simp
    apply BitVec.eq_of_toNat_eq
    simp

/-! ## `initACast` under `Cfg.fixed` simulates the C conversion -/

theorem eqv_comm (a b : VT) : a.eqv b = b.eqv a := by
  simp only [VT.eqv]
  rw [Bool.eq_iff_iff]; simp only [Bool.and_eq_true, beq_iff_eq]
  constructor <;> (rintro ⟨h1, h2⟩; exact ⟨h1.symm, h2.symm⟩)

/-- `if ce.ty.eqv t then ce else initACast cfg t ce` is `initACast cfg t ce` (which tests the same first) -/
theorem convTo_eq (cfg : Cfg) (t : VT) (ce : CE) :
    (if ce.ty.eqv t then ce else initACast cfg t ce) = initACast cfg t ce := by
  unfold initACast
  rw [eqv_comm t ce.ty]
  split <;> rfl

theorem promotionCast_eq (cfg : Cfg) (ce : CE) :
    promotionCast cfg ce = initACast cfg (VT.promoted ce.ty) ce := by
  unfold promotionCast initACast
  simp only
  split <;> rfl

theorem sim_initACast {ms σ ce src vC} (tgt : VT) (h : Sim ms σ ce src vC)
    (hb : tgt.hasFlag VT.gBOOL = false) (h1 : tgt.width ≠ 1) :
    ∃ v', convC src ⟨tgt.signed, tgt.width⟩ vC = .ok v' ∧
      Sim ms σ (initACast Cfg.fixed tgt ce) ⟨tgt.signed, tgt.width⟩ v' := by
  unfold initACast
  by_cases heq : tgt.eqv ce.ty = true
  · -- no conversion emitted: same width and sign
    simp only [heq, ↓reduceIte]
    simp only [VT.eqv, Bool.and_eq_true, beq_iff_eq] at heq
    have hnb : ce.ty.hasFlag VT.gBOOL = false := by
      cases hcb : ce.ty.hasFlag VT.gBOOL with
      | false => rfl
      | true => obtain ⟨b, _, _, _, hw, _⟩ := h.bool hcb; exact absurd (heq.1.trans hw) h1
    obtain ⟨x, he, rfl, hs, hw⟩ := h.bv hnb
    refine ⟨.bv src.width x, convC_same_width x (by simp only; omega), ?_⟩
    refine ⟨_, he, by simp [Rel, hnb], ?_⟩
    simp only [TyOK, hnb, Bool.false_eq_true, ↓reduceIte]
    refine ⟨heq.2.symm, heq.1.symm, ?_⟩
    have : tgt.width = src.width := by omega
    obtain ⟨ts, tw, tg⟩ := tgt
    simp only at this; subst this
    exact ⟨x, rfl⟩
  · simp only [heq, Bool.false_eq_true, ↓reduceIte, hb, Bool.not_false, Bool.and_true]
    cases hcb : ce.ty.hasFlag VT.gBOOL with
    | true =>
      obtain ⟨b, he, rfl, rfl, hw, hsg⟩ := h.bool hcb
      simp only [↓reduceIte, Cfg.fixed, Bool.false_eq_true]
      refine ⟨_, rfl, ?_⟩
      have hev : evalPure ms σ [] (.ite ce.il (numberIL tgt 1) (numberIL tgt 0)) =
          .ok (.bv tgt.width (BitVec.ofInt tgt.width (if b then 1 else 0))) := by
        simp only [evalPure, numberIL, he, bind, Except.bind, Val.sort, beq_self_eq_true, ↓reduceIte]
        cases b <;> rfl
      have := @Sim.of_bv ms σ { il := .ite ce.il (numberIL tgt 1) (numberIL tgt 0), ty := tgt, kind := .plain }
        ⟨tgt.signed, tgt.width⟩ (BitVec.ofInt tgt.width (if b then 1 else 0)) hb hev rfl rfl
      simp only [convBits_boolVal]
      exact this
    | false =>
      obtain ⟨x, he, rfl, hs, hw⟩ := h.bv hcb
      simp only [Bool.false_eq_true, ↓reduceIte, Cfg.fixed]
      refine ⟨_, rfl, ?_⟩
      have hev : evalPure ms σ [] (.cast tgt.width (if ce.ty.signed = true then .un .msb ce.il else .bfalse) ce.il) =
          .ok (.bv tgt.width (convBits src ⟨tgt.signed, tgt.width⟩ x)) := by
        rw [← ilCast_fill_eq_convBits x src ⟨tgt.signed, tgt.width⟩, ← hs]
        cases ce.ty.signed <;>
          simp only [evalPure, he, bind, Except.bind, evalUn, ↓reduceIte, Bool.false_eq_true]
      exact @Sim.of_bv ms σ { il := _, ty := tgt, kind := .plain } ⟨tgt.signed, tgt.width⟩ _ hb hev rfl rfl

theorem initACast_nonBool {ms σ ce src vC} (tgt : VT) (h : Sim ms σ ce src vC)
    (hb : tgt.hasFlag VT.gBOOL = false) (h1 : tgt.width ≠ 1) :
    (initACast Cfg.fixed tgt ce).ty.hasFlag VT.gBOOL = false := by
  unfold initACast
  by_cases heq : tgt.eqv ce.ty = true
  · simp only [heq, ↓reduceIte]
    simp only [VT.eqv, Bool.and_eq_true, beq_iff_eq] at heq
    cases hcb : ce.ty.hasFlag VT.gBOOL with
    | false => rfl
    | true => obtain ⟨b, _, _, _, hw, _⟩ := h.bool hcb; exact absurd (heq.1.trans hw) h1
  · simp only [heq, Bool.false_eq_true, ↓reduceIte]
    split <;> exact hb

/-- value form of a simulation at a non-BOOL type -/
theorem Sim.eval {ms σ ce t v} (h : Sim ms σ ce t v) (hb : ce.ty.hasFlag VT.gBOOL = false) :
    evalPure ms σ [] ce.il = .ok v ∧ ∃ x : BitVec t.width, v = .bv t.width x := by
  obtain ⟨x, he, rfl, _, _⟩ := h.bv hb
  exact ⟨he, x, rfl⟩

/-- conversion to a declared C type `t` (declaration, assignment, conversion back) -/
theorem sim_convTo {ms σ ce src vC} (t : CT) (h : Sim ms σ ce src vC) (h1 : t.width ≠ 1) :
    ∃ x : BitVec t.width, convC src t vC = .ok (.bv t.width x) ∧
      Sim ms σ (initACast Cfg.fixed t.toVT ce) t (.bv t.width x) ∧
      evalPure ms σ [] (initACast Cfg.fixed t.toVT ce).il = .ok (.bv t.width x) ∧
      (initACast Cfg.fixed t.toVT ce).ty.hasFlag VT.gBOOL = false := by
  have hb : t.toVT.hasFlag VT.gBOOL = false := by simp [CT.toVT, VT.hasFlag, VT.gBOOL]
  obtain ⟨v', hc, hs⟩ := sim_initACast t.toVT h hb h1
  have hnb := initACast_nonBool t.toVT h hb h1
  have hs' : Sim ms σ (initACast Cfg.fixed t.toVT ce) t v' := hs
  obtain ⟨he, x, rfl⟩ := hs'.eval hnb
  exact ⟨x, hc, hs', he, hnb⟩

theorem promote_of_tyOK {ty : VT} {src : CT} {v : Val} (h : TyOK ty src v) :
    (⟨(VT.promoted ty).signed, (VT.promoted ty).width⟩ : CT) = src.promote ∧
      (VT.promoted ty).hasFlag VT.gBOOL = false ∧ (VT.promoted ty).width ≠ 1 := by
  unfold TyOK at h
  split at h
  · obtain ⟨rfl, hw, hs⟩ := h
    simp [VT.promoted, hw, CT.promote, intT, VT.hasFlag, VT.gBOOL]
  · rename_i hb
    obtain ⟨hs, hw, _⟩ := h
    obtain ⟨ss, sw⟩ := src
    simp only at hs hw
    by_cases h32 : ty.width ≥ 32
    · simp only [VT.promoted, h32, ↓reduceIte, CT.promote]
      have : ¬ sw < 32 := by omega
      simp only [this, ↓reduceIte, hs, hw, true_and]
      exact ⟨by simpa using hb, by omega⟩
    · simp only [VT.promoted, h32, ↓reduceIte, CT.promote]
      have : sw < 32 := by omega
      simp [this, VT.hasFlag, VT.gBOOL]

/-- integer promotion of an operand -/
theorem sim_promote {ms σ ce src vC} (h : Sim ms σ ce src vC) :
    ∃ x : BitVec src.promote.width, convC src src.promote vC = .ok (.bv src.promote.width x) ∧
      Sim ms σ (promotionCast Cfg.fixed ce) src.promote (.bv src.promote.width x) ∧
      evalPure ms σ [] (promotionCast Cfg.fixed ce).il = .ok (.bv src.promote.width x) ∧
      (promotionCast Cfg.fixed ce).ty.hasFlag VT.gBOOL = false := by
  obtain ⟨hp, hb, h1⟩ := promote_of_tyOK h.choose_spec.2.2
  rw [promotionCast_eq]
  obtain ⟨v', hc, hs⟩ := sim_initACast (VT.promoted ce.ty) h hb h1
  have hnb := initACast_nonBool (VT.promoted ce.ty) h hb h1
  rw [hp] at hc hs
  obtain ⟨he, x, rfl⟩ := hs.eval hnb
  exact ⟨x, hc, hs, he, hnb⟩

/-- a condition operand: `condIL` yields the C truth value -/
theorem sim_cond {ms σ ce t vC b} (h : Sim ms σ ce t vC) (ht : truthy vC = .ok b) :
    evalPure ms σ [] (condIL Cfg.fixed ce) = .ok (.bool b) := by
  simp only [condIL, Cfg.fixed, Bool.false_eq_true, ↓reduceIte]
  cases hcb : ce.ty.hasFlag VT.gBOOL with
  | true =>
    obtain ⟨b', he, rfl, _⟩ := h.bool hcb
    simp only [↓reduceIte, he]
    cases b' <;> simp [truthy, boolVal] at ht <;> subst ht <;> rfl
  | false =>
    obtain ⟨x, he, rfl, _⟩ := h.bv hcb
    simp only [Bool.false_eq_true, ↓reduceIte, evalPure, he, bind, Except.bind, evalUn]
    simp only [truthy, Except.ok.injEq] at ht
    rw [ht]

/-- the data operand of `mem_store_u<w>` -/
theorem sim_storeCast {ms σ ce src vC} (w : Nat) (h : Sim ms σ ce src vC) (hw : w ≠ 1) :
    ∃ x : BitVec w, convC src ⟨false, w⟩ vC = .ok (.bv w x) ∧
      evalPure ms σ [] (if ce.ty.hasFlag VT.gBOOL then
          (if (⟨false, w, 1⟩ : VT).eqv ce.ty then boolToInt Cfg.fixed ⟨false, w, 1⟩ ce else initACast Cfg.fixed ⟨false, w, 1⟩ ce)
        else { il := .cast w (if Cfg.fixed.castFillNeedsBothSigned then .bfalse
                              else (if ce.ty.signed then .un .msb ce.il else .bfalse)) ce.il,
               ty := ⟨false, w, 1⟩, kind := .plain : CE }).il = .ok (.bv w x) := by
  cases hcb : ce.ty.hasFlag VT.gBOOL with
  | true =>
    obtain ⟨_, _, _, _, hw1, _⟩ := h.bool hcb
    have hne : (⟨false, w, 1⟩ : VT).eqv ce.ty = false := by
      simp only [VT.eqv, hw1, Bool.and_eq_false_imp, beq_iff_eq]
      intro h1; exact absurd h1 hw
    simp only [↓reduceIte, hne, Bool.false_eq_true]
    obtain ⟨x, hc, _, he, _⟩ := sim_convTo ⟨false, w⟩ h hw
    exact ⟨x, hc, he⟩
  | false =>
    obtain ⟨x, he, rfl, hs, hwd⟩ := h.bv hcb
    simp only [Bool.false_eq_true, ↓reduceIte, Cfg.fixed]
    refine ⟨_, rfl, ?_⟩
    rw [← ilCast_fill_eq_convBits x src ⟨false, w⟩, ← hs]
    cases ce.ty.signed <;>
      simp only [evalPure, he, bind, Except.bind, evalUn, ↓reduceIte, Bool.false_eq_true]

end C05
end Rzil
