import RzilVerif.Lemmas.StmtFuel
import RzilVerif.Lemmas.StmtState
import RzilVerif.Lemmas.StmtConv
import RzilVerif.Lemmas.StmtBits
import RzilVerif.Lemmas.StmtCases
import RzilVerif.Lemmas.StmtAssign
import RzilVerif.Lemmas.StmtLoop
import RzilVerif.Lemmas.StmtChain
import RzilVerif.Lemmas.StmtT2
/-!
  Helper lemmas of property C05 (statement lowering preserves C semantics), split into parts:
  `StmtFuel` (fuel monotonicity, `ExecIL`/`ExecC`, `mkSeq_exec`), `StmtState` (`StRel`, `SInv`, `Inv`,
  `evalC_congr`), `StmtConv` (interface to the expression theorem, conversions), `StmtBits`
  (bit-vector facts of compound assignment), `StmtCases` (declaration, store, jump, skip),
  `StmtAssign` (assignment via `compileAssign`), `StmtLoop` (loop init/steps, the `imm_assign` prologue),
  `StmtChain` (chained assignment), `StmtT2` (carve-out equality).
-/
