import RzilVerif.Lemmas.StmtFuel
import RzilVerif.Model.StmtWF
/-!
  C05 helpers, part 2: locals (`lookupS`/`setLocal`), the state relation `StRel`, the IL-side
  invariant `SInv`, and `evalC_congr` (an expression only depends on the locals it reads).
-/
namespace Rzil
namespace C05

/-! ## locals -/

theorem lookupS_filter_ne (k n : String) (ls : List (String × Val)) :
    lookupS k (ls.filter (fun p => p.1 != n)) = if k == n then none else lookupS k ls := by
  induction ls with
  | nil => simp [lookupS]
  | cons p ls ih =>
    obtain ⟨k', v⟩ := p
    by_cases hk' : k' = n
    · subst hk'
      simp only [List.filter, bne_self_eq_false, lookupS]
      rw [ih]
      by_cases h : k = k'
      · simp [h]
      · simp [h]
    · have : (k' != n) = true := by simp [hk']
      simp only [List.filter, this, lookupS]
      rw [ih]
      by_cases h : k = k'
      · subst h; simp [hk']
      · simp [h]

theorem lookupS_setLocal (k n : String) (v : Val) (ls : List (String × Val)) :
    lookupS k (setLocal ls n v) = if k == n then some v else lookupS k ls := by
  simp only [setLocal, lookupS, lookupS_filter_ne]
  by_cases h : k = n <;> simp [h]

theorem lookupS_setLocal_self (n : String) (v : Val) (ls : List (String × Val)) :
    lookupS n (setLocal ls n v) = some v := by simp [lookupS_setLocal]

theorem lookupS_setLocal_ne {k n : String} (h : k ≠ n) (v : Val) (ls : List (String × Val)) :
    lookupS k (setLocal ls n v) = lookupS k ls := by simp [lookupS_setLocal, h]

theorem lookupS_mem {α} {k : String} {l : List (String × α)} {v : α} (h : lookupS k l = some v) :
    (k, v) ∈ l := by
  induction l with
  | nil => simp [lookupS] at h
  | cons p l ih =>
    obtain ⟨k', v'⟩ := p
    simp only [lookupS] at h
    by_cases hk : k = k'
    · subst hk; simp at h; subst h; simp
    · simp [hk] at h; exact List.mem_cons_of_mem _ (ih h)

/-! ## state relation -/

/-- The C-side state and the IL-side state agree on everything observable; every C local has the
    same value on the IL side (the IL side has more locals: immediates by letter, `h_tmpN`).
    The two `imm` components are NOT related here: the immediates are an input of an instruction (its encoding), not
    an observable output, and after an assignment to an immediate (`riV = riV & ~3`) the C side holds the new value
    in `σC.imm` while the IL side holds it in the LOCAL of the letter (`MState.imm` is never written by an effect);
    that correspondence is `Inv.immVal`.  The two sides START from the same `imm` (one initial state). -/
structure StRel (σC σIL : MState) : Prop where
  cur : σC.cur = σIL.cur
  new : σC.new = σIL.new
  written : σC.written = σIL.written
  mem : σC.mem = σIL.mem
  pktAddr : σC.pktAddr = σIL.pktAddr
  stores : σC.stores = σIL.stores
  locals : ∀ n v, lookupS n σC.locals = some v → lookupS n σIL.locals = some v

theorem StRel.refl (σ : MState) : StRel σ σ := ⟨rfl, rfl, rfl, rfl, rfl, rfl, fun _ _ h => h⟩

/-- both sides set the same local to the same value -/
theorem StRel.setBoth {σC σIL : MState} (h : StRel σC σIL) (n : String) (v : Val) :
    StRel { σC with locals := setLocal σC.locals n v } { σIL with locals := setLocal σIL.locals n v } := by
  refine ⟨h.cur, h.new, h.written, h.mem, h.pktAddr, h.stores, ?_⟩
  intro k w hk
  simp only [lookupS_setLocal] at hk ⊢
  split
  · simpa [*] using hk
  · rename_i hne; simp only [hne] at hk; exact h.locals _ _ hk

/-- the IL side sets a local that is unbound on the C side -/
theorem StRel.setIL {σC σIL : MState} (h : StRel σC σIL) (n : String) (v : Val)
    (hn : lookupS n σC.locals = none) :
    StRel σC { σIL with locals := setLocal σIL.locals n v } := by
  refine ⟨h.cur, h.new, h.written, h.mem, h.pktAddr, h.stores, ?_⟩
  intro k w hk
  simp only [lookupS_setLocal]
  by_cases hkn : k = n
  · subst hkn; rw [hn] at hk; cases hk
  · simp [hkn]; exact h.locals _ _ hk

/-! ## IL-side invariant -/

/-- the IL-side state is TYPED: declared locals are bound to values of their declared width (if bound), every
    registered immediate letter is bound to a 32-bit value, source operands are unwritten.  (Which value an immediate
    letter holds is part of the two-state invariant `Inv.immVal` / of `ImmsCur`.) -/
structure SInv (c : Ctx) (σ : MState) : Prop where
  typed : ∀ n t v, lookupS n c.types = some t → lookupS n σ.locals = some v →
            ∃ x : BitVec t.width, v = .bv t.width x
  imms : ∀ l ∈ c.imms, ∃ x : BitVec 32, lookupS l σ.locals = some (.bv 32 x)
  srcs : ∀ ov ∈ c.srcs, σ.written ov = false

/-- in the ONE state `σ` the local of every registered immediate letter holds the 32-bit value of `σ.imm` (the state
    in which the expression theorem is applied: the IL-side state seen with the C side's current immediates) -/
def ImmsCur (c : Ctx) (σ : MState) : Prop :=
  ∀ l ∈ c.imms, lookupS l σ.locals = some (.bv 32 (BitVec.ofNat 32 (σ.imm l)))

/-- whole invariant between the two sides.  `immVal`: the IL local of every registered immediate letter holds the
    32-bit value of the C side's CURRENT immediate (`σC.imm`, which an assignment to the immediate changes; the IL side
    reads immediates through `VARL(letter)` everywhere but in the `imm_assign` prologue).  `immFresh`: no C-side local
    is named like a registered immediate letter. -/
structure Inv (c : Ctx) (σC σIL : MState) : Prop where
  rel : StRel σC σIL
  inv : SInv c σIL
  immVal : ∀ l ∈ c.imms, lookupS l σIL.locals = some (.bv 32 (BitVec.ofNat 32 (σC.imm l)))
  tmpFree : ∀ n, isTmp n = true → lookupS n σC.locals = none
  immFresh : ∀ l ∈ c.imms, lookupS l σC.locals = none

/-- the typed-state invariant does not mention `MState.imm` -/
theorem SInv.withImm {c : Ctx} {σ : MState} (h : SInv c σ) (f : String → Nat) : SInv c { σ with imm := f } :=
  ⟨h.typed, h.imms, h.srcs⟩

/-- the IL-side state seen with the C side's current immediates satisfies `ImmsCur` -/
theorem Inv.immsCur {c : Ctx} {σC σIL : MState} (h : Inv c σC σIL) : ImmsCur c { σIL with imm := σC.imm } :=
  h.immVal

theorem Ctx.ok_types {c : Ctx} (h : c.ok = true) {n : String} {t : CT} (hn : lookupS n c.types = some t) :
    isTmp n = false ∧ isSpecial n = false ∧ n ∉ c.imms := by
  have hm := lookupS_mem hn
  simp only [Ctx.ok, Bool.and_eq_true, List.all_eq_true] at h
  have := h.1 _ hm
  simpa [and_assoc] using this

theorem Ctx.ok_imms {c : Ctx} (h : c.ok = true) {l : String} (hl : l ∈ c.imms) :
    isTmp l = false ∧ isSpecial l = false := by
  simp only [Ctx.ok, Bool.and_eq_true, List.all_eq_true] at h
  have := h.2 _ hl
  simpa using this

/-- setting a local that is not an immediate letter, with a value of its declared width (if declared) -/
theorem SInv.setLocal {c : Ctx} {σ : MState} (h : SInv c σ) (n : String) (v : Val)
    (hty : ∀ t, lookupS n c.types = some t → ∃ x : BitVec t.width, v = .bv t.width x)
    (himm : n ∉ c.imms) :
    SInv c { σ with locals := setLocal σ.locals n v } := by
  refine ⟨?_, ?_, h.srcs⟩
  · intro k t w hk hw
    simp only [lookupS_setLocal] at hw
    by_cases hkn : k = n
    · subst hkn; simp at hw; subst hw; exact hty t hk
    · simp [hkn] at hw; exact h.typed _ _ _ hk hw
  · intro l hl
    have : l ≠ n := fun e => himm (e ▸ hl)
    simp only [lookupS_setLocal_ne this]
    exact h.imms l hl

/-- the IL side sets a local that is neither declared nor an immediate letter (a hybrid temporary) -/
theorem Inv.setIL {c : Ctx} {σC σIL : MState} (h : Inv c σC σIL) (n : String) (v : Val)
    (hn : lookupS n σC.locals = none) (hty : ∀ t, lookupS n c.types ≠ some t) (himm : n ∉ c.imms) :
    Inv c σC { σIL with locals := setLocal σIL.locals n v } := by
  refine ⟨h.rel.setIL n v hn, h.inv.setLocal n v (fun t ht => absurd ht (hty t)) himm, ?_, h.tmpFree, h.immFresh⟩
  intro l hl
  have : l ≠ n := fun e => himm (e ▸ hl)
  simp only [lookupS_setLocal_ne this]
  exact h.immVal l hl

/-! ## an expression depends only on the locals it reads -/

/-- the two states agree on the locals `vs`, the operand variables `rs` and the immediate letters `is` (and on
    memory and the packet address) -/
structure AgreeOn (vs rs is : List String) (σ1 σ2 : MState) : Prop where
  regs : ∀ ov ∈ rs, σ1.cur ov = σ2.cur ov ∧ σ1.new ov = σ2.new ov ∧ σ1.written ov = σ2.written ov
  mem : σ1.mem = σ2.mem
  imm : ∀ l ∈ is, σ1.imm l = σ2.imm l
  pktAddr : σ1.pktAddr = σ2.pktAddr
  locals : ∀ n ∈ vs, ∀ v, lookupS n σ1.locals = some v → lookupS n σ2.locals = some v

theorem AgreeOn.mono {vs ws rs ts is js : List String} {σ1 σ2 : MState} (h : AgreeOn ws ts js σ1 σ2)
    (hs : ∀ n ∈ vs, n ∈ ws) (hr : ∀ n ∈ rs, n ∈ ts) (hi : ∀ n ∈ is, n ∈ js) : AgreeOn vs rs is σ1 σ2 :=
  ⟨fun ov ho => h.regs ov (hr ov ho), h.mem, fun l hl => h.imm l (hi l hl), h.pktAddr,
   fun n hn v hv => h.locals n (hs n hn) v hv⟩

theorem AgreeOn.left {vs ws rs ts is js : List String} {σ1 σ2 : MState}
    (h : AgreeOn (vs ++ ws) (rs ++ ts) (is ++ js) σ1 σ2) : AgreeOn vs rs is σ1 σ2 :=
  h.mono (fun _ hn => List.mem_append_left _ hn) (fun _ hn => List.mem_append_left _ hn)
    (fun _ hn => List.mem_append_left _ hn)
theorem AgreeOn.right {vs ws rs ts is js : List String} {σ1 σ2 : MState}
    (h : AgreeOn (vs ++ ws) (rs ++ ts) (is ++ js) σ1 σ2) : AgreeOn ws ts js σ1 σ2 :=
  h.mono (fun _ hn => List.mem_append_right _ hn) (fun _ hn => List.mem_append_right _ hn)
    (fun _ hn => List.mem_append_right _ hn)

theorem AgreeOn.trans {vs rs is : List String} {σ1 σ2 σ3 : MState} (h1 : AgreeOn vs rs is σ1 σ2)
    (h2 : AgreeOn vs rs is σ2 σ3) : AgreeOn vs rs is σ1 σ3 :=
  ⟨fun ov ho => ⟨(h1.regs ov ho).1.trans (h2.regs ov ho).1, (h1.regs ov ho).2.1.trans (h2.regs ov ho).2.1,
      (h1.regs ov ho).2.2.trans (h2.regs ov ho).2.2⟩,
   h1.mem.trans h2.mem, fun l hl => (h1.imm l hl).trans (h2.imm l hl), h1.pktAddr.trans h2.pktAddr,
   fun n hn v hv => h2.locals n hn v (h1.locals n hn v hv)⟩

/-- the C-side state agrees with the IL-side state SEEN WITH THE C SIDE'S CURRENT IMMEDIATES on everything an
    expression can read -/
theorem StRel.agreeOn {σC σIL : MState} (h : StRel σC σIL) (vs rs is : List String) :
    AgreeOn vs rs is σC { σIL with imm := σC.imm } :=
  ⟨fun ov _ => ⟨congrFun h.cur ov, congrFun h.new ov, congrFun h.written ov⟩, h.mem, fun _ _ => rfl, h.pktAddr,
   fun n _ v hv => h.locals n v hv⟩

theorem readRegC_congr {σ1 σ2 : MState} {vs rs is} (h : AgreeOn vs rs is σ1 σ2) (n k t) (hm : opvarOf n k ∈ rs) :
    readRegC σ1 n k t = readRegC σ2 n k t := by
  obtain ⟨h1, h2, h3⟩ := h.regs _ hm
  simp only [readRegC, h1, h2, h3, h.pktAddr]

mutual
theorem evalC_congr (ms : MacroSem) {σ1 σ2 : MState} :
    (e : CExpr) → {v : Val} → AgreeOn (readVars e) (readRegs e) (readImms e) σ1 σ2 → evalC ms σ1 e = .ok v → evalC ms σ2 e = .ok v
  | .reg n k t, v, ha, h => by
      simp only [evalC] at h ⊢; rw [← readRegC_congr ha n k t (by simp [readRegs])]; exact h
  | .imm l s, v, ha, h => by
      simp only [evalC] at h ⊢; rw [← ha.imm l (by simp [readImms])]; exact h
  | .lit x hx sfx, v, ha, h => by
      simp only [evalC] at h ⊢; exact h
  | .var n t, v, ha, h => by
      simp only [evalC] at h ⊢
      cases hl : lookupS n σ1.locals with
      | none => rw [hl] at h; simp at h
      | some w =>
        rw [hl] at h
        rw [ha.locals n (by simp [readVars]) w hl]; exact h
  | .cast t e, v, ha, h => by
      simp only [evalC] at h ⊢
      obtain ⟨v1, h1, h⟩ := bind_ok h
      exact bind_ok_of (evalC_congr ms e (by simpa [readVars, readRegs, readImms] using ha) h1) h
  | .un op e, v, ha, h => by
      simp only [evalC] at h ⊢
      obtain ⟨v1, h1, h⟩ := bind_ok h
      exact bind_ok_of (evalC_congr ms e (by simpa [readVars, readRegs, readImms] using ha) h1) h
  | .not e, v, ha, h => by
      simp only [evalC] at h ⊢
      obtain ⟨v1, h1, h⟩ := bind_ok h
      exact bind_ok_of (evalC_congr ms e (by simpa [readVars, readRegs, readImms] using ha) h1) h
  | .bin op a b, v, ha, h => by
      simp only [evalC] at h ⊢
      simp only [readVars, readRegs, readImms] at ha
      obtain ⟨v1, h1, h⟩ := bind_ok h
      obtain ⟨v2, h2, h⟩ := bind_ok h
      exact bind_ok_of (evalC_congr ms a ha.left h1) (bind_ok_of (evalC_congr ms b ha.right h2) h)
  | .shift op a b, v, ha, h => by
      simp only [evalC] at h ⊢
      simp only [readVars, readRegs, readImms] at ha
      obtain ⟨v1, h1, h⟩ := bind_ok h
      obtain ⟨v2, h2, h⟩ := bind_ok h
      exact bind_ok_of (evalC_congr ms a ha.left h1) (bind_ok_of (evalC_congr ms b ha.right h2) h)
  | .cmp op a b, v, ha, h => by
      simp only [evalC] at h ⊢
      simp only [readVars, readRegs, readImms] at ha
      obtain ⟨v1, h1, h⟩ := bind_ok h
      obtain ⟨v2, h2, h⟩ := bind_ok h
      exact bind_ok_of (evalC_congr ms a ha.left h1) (bind_ok_of (evalC_congr ms b ha.right h2) h)
  | .log op a b, v, ha, h => by
      simp only [evalC] at h ⊢
      simp only [readVars, readRegs, readImms] at ha
      obtain ⟨v1, h1, h⟩ := bind_ok h
      obtain ⟨v2, h2, h⟩ := bind_ok h
      exact bind_ok_of (evalC_congr ms a ha.left h1) (bind_ok_of (evalC_congr ms b ha.right h2) h)
  | .tern c a b, v, ha, h => by
      simp only [evalC] at h ⊢
      simp only [readVars, readRegs, readImms] at ha
      obtain ⟨v0, h0, h⟩ := bind_ok h
      obtain ⟨b0, hb0, h⟩ := bind_ok h
      obtain ⟨v1, h1, h⟩ := bind_ok h
      obtain ⟨v2, h2, h⟩ := bind_ok h
      exact bind_ok_of (evalC_congr ms c ha.left h0) (bind_ok_of hb0
        (bind_ok_of (evalC_congr ms a ha.right.left h1) (bind_ok_of (evalC_congr ms b ha.right.right h2) h)))
  | .macro name args ret params, v, ha, h => by
      simp only [evalC] at h ⊢
      simp only [readVars, readRegs, readImms] at ha
      obtain ⟨vs, h1, h⟩ := bind_ok h
      exact bind_ok_of (evalCArgs_congr ms args params ha h1) h
  | .load s w t, v, ha, h => by
      simp only [evalC] at h ⊢
      cases hl : lookupS "EA" σ1.locals with
      | none => rw [hl] at h; simp at h
      | some w =>
        rw [hl] at h
        rw [ha.locals "EA" (by simp [readVars]) w hl, ← ha.mem]; exact h
  | .post _ _ _, v, ha, h => by simp [evalC] at h
  | .call _ _ _ _, v, ha, h => by simp [evalC] at h
  | .stmtexpr _ _ _, v, ha, h => by simp [evalC] at h
theorem evalCArgs_congr (ms : MacroSem) {σ1 σ2 : MState} :
    (as : List CExpr) → (ps : List CT) → {vs : List Val} → AgreeOn (readVarsList as) (readRegsList as) (readImmsList as) σ1 σ2 →
      evalCArgs ms σ1 as ps = .ok vs → evalCArgs ms σ2 as ps = .ok vs
  | [], _, vs, ha, h => by simp only [evalCArgs] at h ⊢; exact h
  | _ :: _, [], vs, ha, h => by simp [evalCArgs] at h
  | a :: as, p :: ps, vs, ha, h => by
      simp only [evalCArgs] at h ⊢
      simp only [readVarsList, readRegsList, readImmsList] at ha
      obtain ⟨v1, h1, h⟩ := bind_ok h
      obtain ⟨v2, h2, h⟩ := bind_ok h
      obtain ⟨v3, h3, h⟩ := bind_ok h
      exact bind_ok_of (evalC_congr ms a ha.left h1) (bind_ok_of h2 (bind_ok_of (evalCArgs_congr ms as ps ha.right h3) h))
end

theorem Inv.setBoth {c : Ctx} {σC σIL : MState} (h : Inv c σC σIL) (n : String) (v : Val)
    (hty : ∀ t, lookupS n c.types = some t → ∃ x : BitVec t.width, v = .bv t.width x)
    (himm : n ∉ c.imms) (htmp : isTmp n = false) :
    Inv c { σC with locals := setLocal σC.locals n v } { σIL with locals := setLocal σIL.locals n v } := by
  refine ⟨h.rel.setBoth n v, h.inv.setLocal n v hty himm, ?_, ?_, ?_⟩
  · intro l hl
    have : l ≠ n := fun e => himm (e ▸ hl)
    simp only [lookupS_setLocal_ne this]
    exact h.immVal l hl
  · intro k hk
    have : k ≠ n := fun e => by subst e; rw [htmp] at hk; cases hk
    simp only [lookupS_setLocal_ne this]
    exact h.tmpFree k hk
  · intro l hl
    have : l ≠ n := fun e => himm (e ▸ hl)
    simp only [lookupS_setLocal_ne this]
    exact h.immFresh l hl

/-- a declared local: setting it to a value of the declared width keeps the invariant -/
theorem Inv.setDeclared {c : Ctx} {σC σIL : MState} (h : Inv c σC σIL) (hc : c.ok = true) {n : String} {t : CT}
    (hn : lookupS n c.types = some t) (x : BitVec t.width) :
    Inv c { σC with locals := setLocal σC.locals n (.bv t.width x) }
          { σIL with locals := setLocal σIL.locals n (.bv t.width x) } := by
  obtain ⟨h1, _, h3⟩ := Ctx.ok_types hc hn
  refine h.setBoth n _ ?_ h3 h1
  intro t' ht'
  rw [hn] at ht'; cases ht'
  exact ⟨x, rfl⟩

/-- a special local (`jump_flag`, `jump_target`, `$slot_cancelled`): not declared, not an immediate -/
theorem Inv.setSpecial {c : Ctx} {σC σIL : MState} (h : Inv c σC σIL) (hc : c.ok = true) {n : String}
    (hn : isSpecial n = true) (htmp : isTmp n = false) (v : Val) :
    Inv c { σC with locals := setLocal σC.locals n v } { σIL with locals := setLocal σIL.locals n v } := by
  refine h.setBoth n v ?_ ?_ htmp
  · intro t ht
    have := (Ctx.ok_types hc ht).2.1
    rw [hn] at this; cases this
  · intro hm
    have := (Ctx.ok_imms hc hm).2
    rw [hn] at this; cases this

theorem isTmp_tmp (n : Nat) : isTmp s!"h_tmp{n}" = true := by
  show isTmp ("h_tmp" ++ toString n) = true
  simp only [isTmp, String.toList_append]
  rw [List.take_left' (by decide)]
  decide

/-- both sides store the same bytes -/
theorem Inv.store {c : Ctx} {σC σIL : MState} (h : Inv c σC σIL) (a v k : Nat) :
    Inv c { σC with mem := storeBytes σC.mem a v k, stores := a :: σC.stores }
          { σIL with mem := storeBytes σIL.mem a v k, stores := a :: σIL.stores } := by
  obtain ⟨r, i, iv, t, fr⟩ := h
  refine ⟨⟨r.cur, r.new, r.written, ?_, r.pktAddr, ?_, r.locals⟩, ⟨i.typed, i.imms, i.srcs⟩, iv, t, fr⟩
  · simp only [r.mem]
  · simp only [r.stores]

/-- both sides write the same register (not a source operand) -/
theorem Inv.writeReg {c : Ctx} {σC σIL : MState} (h : Inv c σC σIL) (ov : String) (x : Nat)
    (hsrc : ov ∉ c.srcs) :
    Inv c { σC with new := fun q => if q == ov then x else σC.new q,
                    written := fun q => if q == ov then true else σC.written q }
          { σIL with new := fun q => if q == ov then x else σIL.new q,
                     written := fun q => if q == ov then true else σIL.written q } := by
  obtain ⟨r, i, iv, t, fr⟩ := h
  refine ⟨⟨r.cur, ?_, ?_, r.mem, r.pktAddr, r.stores, r.locals⟩, ⟨i.typed, i.imms, ?_⟩, iv, t, fr⟩
  · simp only [r.new]
  · simp only [r.written]
  · intro q hq
    have : q ≠ ov := fun e => hsrc (e ▸ hq)
    simp only [beq_iff_eq, this, ↓reduceIte]
    exact i.srcs q hq

/-- an assignable immediate (`riV = e`): the C side updates its immediate, the IL side sets the local of the letter -/
theorem Inv.writeImm {c : Ctx} {σC σIL : MState} (h : Inv c σC σIL) (hc : c.ok = true) {l : String} (hl : l ∈ c.imms)
    (x : BitVec 32) :
    Inv c { σC with imm := fun q => if q == l then x.toNat else σC.imm q }
          { σIL with locals := setLocal σIL.locals l (.bv 32 x) } := by
  obtain ⟨r, i, iv, t, fr⟩ := h
  refine ⟨⟨r.cur, r.new, r.written, r.mem, r.pktAddr, r.stores, ?_⟩, ⟨?_, ?_, i.srcs⟩, ?_, t, fr⟩
  · intro n v hn
    have : n ≠ l := fun e => by subst e; rw [fr n hl] at hn; cases hn
    simp only [lookupS_setLocal_ne this]
    exact r.locals n v hn
  · intro n ty v hn hv
    have : n ≠ l := fun e => (Ctx.ok_types hc hn).2.2 (e ▸ hl)
    simp only [lookupS_setLocal_ne this] at hv
    exact i.typed n ty v hn hv
  · intro l' hl'
    by_cases e : l' = l
    · subst e; exact ⟨x, lookupS_setLocal_self _ _ _⟩
    · simp only [lookupS_setLocal_ne e]; exact i.imms l' hl'
  · intro l' hl'
    by_cases e : l' = l
    · subst e
      simp only [lookupS_setLocal_self, beq_self_eq_true, ↓reduceIte, BitVec.ofNat_toNat, BitVec.setWidth_eq]
    · have e' : (l' == l) = false := by simp [e]
      simp only [lookupS_setLocal_ne e, e', Bool.false_eq_true, ↓reduceIte]
      exact iv l' hl'

end C05
end Rzil
