import RzilVerif.Lemmas.HybRel
/-!
  C06 helpers, part 5: freshness of temporaries (`Fresh`, `PendOK`), shape of pending entries, and the
  counting of `SETL h_tmpN` occurrences on compiler states (expression level).
-/
namespace Rzil
namespace C06
open C05 (bind_ok bind_ok_of)

/-! ## `chk` -/

theorem chk_eq (s : HSt) (e : ILEffect) (bare : List String) (after : Bool) :
    chk s e bare after =
      if (popPending s.pending (bare ++ tmpsOfEffect e)).1.isEmpty then (e, s)
      else ((if after then .seqn ([e] ++ (popPending s.pending (bare ++ tmpsOfEffect e)).1.map Pend.render)
             else .seqn ((popPending s.pending (bare ++ tmpsOfEffect e)).1.map Pend.render ++ [e])),
            { s with pending := (popPending s.pending (bare ++ tmpsOfEffect e)).2 }) := rfl

theorem chk_snd (s : HSt) (e : ILEffect) (bare : List String) (after : Bool) :
    (chk s e bare after).2.hyb = s.hyb ∧ (chk s e bare after).2.imms = s.imms ∧
    (chk s e bare after).2.live = s.live ∧ (chk s e bare after).2.pending.Sublist s.pending := by
  rw [chk_eq]
  split
  · exact ⟨rfl, rfl, rfl, List.Sublist.refl _⟩
  · exact ⟨rfl, rfl, rfl, (popPending_spec _ _).2.1⟩

/-! ## freshness -/

def Fresh (st st' : HSt) : Prop :=
  st.hyb ≤ st'.hyb ∧ (tmpsOf st'.pending).Sublist (tmpsOf st.pending ++ freshNames st.hyb st'.hyb)

/-- The invariant on pending entries: pairwise distinct temporaries, all numbered below the counter. -/
def PendOK (st : HSt) : Prop :=
  (tmpsOf st.pending).Nodup ∧ ∀ t ∈ tmpsOf st.pending, ∃ n, n < st.hyb ∧ t = tmpName n

theorem Fresh.refl (s : HSt) : Fresh s s :=
  ⟨Nat.le_refl _, by simp [freshNames_self]⟩

theorem Fresh.trans {a b c : HSt} (h1 : Fresh a b) (h2 : Fresh b c) : Fresh a c := by
  refine ⟨Nat.le_trans h1.1 h2.1, h2.2.trans ?_⟩
  rw [← freshNames_append h1.1 h2.1, ← List.append_assoc]
  exact h1.2.append (List.Sublist.refl _)

/-- same counter, pending entries a sub-list (by name) -/
theorem Fresh.of_sublist {s s' : HSt} (hh : s'.hyb = s.hyb) (hs : (tmpsOf s'.pending).Sublist (tmpsOf s.pending)) :
    Fresh s s' := by
  refine ⟨by omega, ?_⟩
  rw [hh, freshNames_self, List.append_nil]; exact hs

/-- counter + 1, one entry appended carrying the new name -/
theorem Fresh.of_push {s s' : HSt} {rest : List Pend} {p : Pend} (hh : s'.hyb = s.hyb + 1)
    (hp : s'.pending = rest ++ [p]) (ht : p.tmp = tmpName s.hyb)
    (hs : (tmpsOf rest).Sublist (tmpsOf s.pending)) : Fresh s s' := by
  refine ⟨by omega, ?_⟩
  rw [hh, freshNames_succ, hp]
  simp only [tmpsOf, List.map_append, List.map_cons, List.map_nil, ht]
  exact hs.append (List.Sublist.refl _)

theorem tmpsOf_wrap (ps : List Pend) (n : String) (f : Pend → Pend) (hf : ∀ p, (f p).tmp = p.tmp) :
    tmpsOf (ps.map (fun p => if p.tmp == n then f p else p)) = tmpsOf ps := by
  simp only [tmpsOf, List.map_map]
  apply List.map_congr_left
  intro p _
  simp only [Function.comp]
  split <;> simp [hf]

theorem freshRelE : HRelE (fun _ => True) True Fresh where
  refl := Fresh.refl
  trans := Fresh.trans
  imm := fun s l sg _ => Fresh.of_sublist rfl (List.Sublist.refl _)
  dropDead := fun _ cfg s d => by
    unfold dropDead
    split
    · split
      · exact Fresh.of_sublist rfl (List.filter_sublist.map _)
      · split
        · exact Fresh.of_sublist rfl (List.Sublist.refl _)
        · exact Fresh.refl _
    · exact Fresh.refl _
  wrapThen := fun s n c => Fresh.of_sublist rfl (by
    have := tmpsOf_wrap s.pending n (fun p => { p with exec := .branch c p.exec .empty }) (fun _ => rfl)
    simp only [wrapThen]; rw [this]; exact List.Sublist.refl _)
  wrapElse := fun s n c => Fresh.of_sublist rfl (by
    have := tmpsOf_wrap s.pending n (fun p => { p with exec := .branch c .empty p.exec }) (fun _ => rfl)
    simp only [wrapElse]; rw [this]; exact List.Sublist.refl _)
  post := fun s v t op _ => Fresh.of_push (rest := s.pending) (p := postPend s.hyb v t op) rfl rfl rfl
    (List.Sublist.refl _)
  call := fun s name cargs ret => Fresh.of_push (p := callPend s name cargs ret) rfl rfl rfl
    ((popPending_spec _ _).2.1.map _)
  gcc := fun s v il _ => by
    obtain ⟨h1, _, _, h4⟩ := chk_snd s (.setl v il) [] false
    refine Fresh.of_push (s' := gccState s v il) (p := gccPend (chk s (.setl v il) []).2.hyb v (chk s (.setl v il) []).1)
      (rest := (chk s (.setl v il) []).2.pending) ?_ rfl ?_ (h4.map _)
    · simp only [gccState]; rw [h1]
    · simp only [gccPend]; rw [h1]
  seq := fun s name exts cargs v => Fresh.of_push (p := seqPend s name exts cargs v) rfl rfl rfl
    ((popPending_spec _ _).2.1.map _)
  callx := fun s name exts cargs ret => Fresh.of_push (p := callxPend s name exts cargs ret) rfl rfl rfl
    ((popPending_spec _ _).2.1.map _)

theorem freshRel : HRel (fun _ => True) True Fresh where
  toHRelE := freshRelE
  chk := fun s e bare after => by
    obtain ⟨h1, _, _, h4⟩ := chk_snd s e bare after
    exact Fresh.of_sublist h1 (h4.map _)

theorem Fresh.pendOK {s s' : HSt} (h : Fresh s s') (hs : PendOK s) : PendOK s' := by
  refine ⟨List.Sublist.nodup h.2 ?_, ?_⟩
  · rw [List.nodup_append]
    refine ⟨hs.1, freshNames_nodup _ _, ?_⟩
    intro a ha b hb e
    obtain ⟨n, hn, rfl⟩ := hs.2 a ha
    obtain ⟨m, hm, _, rfl⟩ := mem_freshNames.mp hb
    have := tmpName_inj e
    omega
  · intro t ht
    rcases List.mem_append.mp (h.2.subset ht) with ht | ht
    · obtain ⟨n, hn, rfl⟩ := hs.2 t ht
      exact ⟨n, Nat.lt_of_lt_of_le hn h.1, rfl⟩
    · obtain ⟨m, _, hm, rfl⟩ := mem_freshNames.mp ht
      exact ⟨m, hm, rfl⟩

/-- every pending entry afterwards is (by name) one of before or numbered in `[st.hyb, st'.hyb)` -/
theorem Fresh.mem {s s' : HSt} (h : Fresh s s') {p : Pend} (hp : p ∈ s'.pending) :
    (∃ q ∈ s.pending, q.tmp = p.tmp) ∨ ∃ n, s.hyb ≤ n ∧ n < s'.hyb ∧ p.tmp = tmpName n := by
  have : p.tmp ∈ tmpsOf s'.pending := List.mem_map_of_mem (f := (·.tmp)) hp
  rcases List.mem_append.mp (h.2.subset this) with ht | ht
  · obtain ⟨q, hq, e⟩ := List.mem_map.mp ht
    exact Or.inl ⟨q, hq, e⟩
  · exact Or.inr (mem_freshNames.mp ht)

/-! ## shape of the entries -/

/-- every entry sets exactly its own temporary, and that is an `h_tmp` name -/
def shapeOK (p : Pend) : Prop := (∃ v, p.setTmp = .setl p.tmp v) ∧ isHTmp p.tmp = true

def ShapeRel (st st' : HSt) : Prop := (∀ p ∈ st.pending, shapeOK p) → ∀ p ∈ st'.pending, shapeOK p

theorem ShapeRel.of_sublist {s s' : HSt} (h : s'.pending.Sublist s.pending) : ShapeRel s s' :=
  fun hs p hp => hs p (h.subset hp)

theorem ShapeRel.of_push {s s' : HSt} {rest : List Pend} {p : Pend} (hp : s'.pending = rest ++ [p])
    (hs : rest.Sublist s.pending) (hok : shapeOK p) : ShapeRel s s' := by
  intro h q hq
  rw [hp] at hq
  rcases List.mem_append.mp hq with hq | hq
  · exact h q (hs.subset hq)
  · simp only [List.mem_singleton] at hq; subst hq; exact hok

theorem ShapeRel.of_wrap {s : HSt} {n : String} (f : Pend → Pend)
    (hf : ∀ p, (f p).tmp = p.tmp ∧ (f p).setTmp = p.setTmp) :
    ShapeRel s { s with pending := s.pending.map (fun p => if p.tmp == n then f p else p) } := by
  intro h q hq
  simp only [List.mem_map] at hq
  obtain ⟨p, hp, rfl⟩ := hq
  split
  · have := h p hp
    simp only [shapeOK, (hf p).1, (hf p).2]
    exact this
  · exact h p hp

theorem shapeRelE : HRelE (fun _ => True) True ShapeRel where
  refl := fun _ h => h
  trans := fun h1 h2 h => h2 (h1 h)
  imm := fun s l sg _ => ShapeRel.of_sublist (List.Sublist.refl _)
  dropDead := fun _ cfg s d => by
    unfold dropDead
    split
    · split
      · exact ShapeRel.of_sublist List.filter_sublist
      · split
        · exact ShapeRel.of_sublist (List.Sublist.refl _)
        · exact fun h => h
    · exact fun h => h
  wrapThen := fun s n c => ShapeRel.of_wrap _ (fun _ => ⟨rfl, rfl⟩)
  wrapElse := fun s n c => ShapeRel.of_wrap _ (fun _ => ⟨rfl, rfl⟩)
  post := fun s v t op _ => ShapeRel.of_push (p := postPend s.hyb v t op) rfl (List.Sublist.refl _)
    ⟨⟨_, rfl⟩, isHTmp_tmpName _⟩
  call := fun s name cargs ret => ShapeRel.of_push (p := callPend s name cargs ret) rfl (popPending_spec _ _).2.1
    ⟨⟨_, rfl⟩, isHTmp_tmpName _⟩
  gcc := fun s v il _ => ShapeRel.of_push (s' := gccState s v il)
    (p := gccPend (chk s (.setl v il) []).2.hyb v (chk s (.setl v il) []).1) rfl (chk_snd _ _ _ _).2.2.2
    ⟨⟨_, rfl⟩, isHTmp_tmpName _⟩
  seq := fun s name exts cargs v => ShapeRel.of_push (p := seqPend s name exts cargs v) rfl (popPending_spec _ _).2.1
    ⟨⟨_, rfl⟩, isHTmp_tmpName _⟩
  callx := fun s name exts cargs ret => ShapeRel.of_push (p := callxPend s name exts cargs ret) rfl (popPending_spec _ _).2.1
    ⟨⟨_, rfl⟩, isHTmp_tmpName _⟩

theorem shapeRel : HRel (fun _ => True) True ShapeRel where
  toHRelE := shapeRelE
  chk := fun _ _ _ _ => ShapeRel.of_sublist (chk_snd _ _ _ _).2.2.2

/-! ## immediates -/

def ImmRel (st st' : HSt) : Prop :=
  (∀ x ∈ st.imms, isHTmp x.1 = false) → ∀ x ∈ st'.imms, isHTmp x.1 = false

theorem immRelE : HRelE (fun n => isHTmp n = false) True ImmRel where
  refl := fun _ h => h
  trans := fun h1 h2 h => h2 (h1 h)
  imm := fun s l sg hv h x hx => by
    rcases List.mem_append.mp hx with hx | hx
    · exact h x hx
    · simp only [List.mem_singleton] at hx; subst hx; exact hv
  dropDead := fun _ cfg s d => by
    unfold dropDead
    split
    · split
      · exact fun h => h
      · split <;> exact fun h => h
    · exact fun h => h
  wrapThen := fun s n c h => h
  wrapElse := fun s n c h => h
  post := fun s v t op _ h => h
  call := fun s name cargs ret h => h
  gcc := fun s v il _ h x hx => by
    have : (gccState s v il).imms = s.imms := (chk_snd s (.setl v il) [] false).2.1
    rw [this] at hx; exact h x hx
  seq := fun s name exts cargs v h => h
  callx := fun s name exts cargs ret h => h

theorem immRel : HRel (fun n => isHTmp n = false) True ImmRel where
  toHRelE := immRelE
  chk := fun s e bare after h x hx => by
    rw [(chk_snd s e bare after).2.1] at hx; exact h x hx

end C06
end Rzil
