import RzilVerif.Lemmas.HybCount
/-!
  C06 helpers, part 6: counting `SETL h_tmpN` occurrences.  `R false` is `≤` (always), `R true` is `=`
  (no constant `?:` condition, distinct pending names).
-/
namespace Rzil
namespace C06
open C05 (bind_ok bind_ok_of)

/-- comparison mode: `R false a b` is `a ≤ b`, `R true a b` is `a = b` -/
def R (eq : Bool) (a b : Nat) : Prop := a ≤ b ∧ (eq = true → a = b)

@[simp] theorem R_false (a b : Nat) : R false a b ↔ a ≤ b := by simp [R]
@[simp] theorem R_true (a b : Nat) : R true a b ↔ a = b := by
  simp only [R, forall_const]; omega

theorem R.of_eq {eq : Bool} {a b : Nat} (h : a = b) : R eq a b := ⟨by omega, fun _ => h⟩

/-! ## `setTmps` algebra -/

theorem setTmpsL_append (xs ys : List ILEffect) : setTmpsL (xs ++ ys) = setTmpsL xs ++ setTmpsL ys := by
  induction xs with
  | nil => simp [setTmpsL]
  | cons x xs ih => simp [setTmpsL, ih]

theorem setTmpsL_filter (es : List ILEffect) : setTmpsL (es.filter C05.notEmpty) = setTmpsL es := by
  induction es with
  | nil => rfl
  | cons e es ih =>
    cases e <;> simp [List.filter, C05.notEmpty, setTmpsL, setTmps, ih]

theorem setTmps_mkSeq (es : List ILEffect) : setTmps (mkSeq es) = setTmpsL es := by
  rw [C05.mkSeq_eq, ← setTmpsL_filter es]
  generalize es.filter C05.notEmpty = l
  match l with
  | [] => simp [setTmps, setTmpsL]
  | [e] => simp [setTmpsL]
  | e1 :: e2 :: l => simp [setTmps]

theorem setTmps_setl_of {n : String} (v : ILPure) (h : isHTmp n = false) : setTmps (.setl n v) = [] := by
  simp [setTmps, h]

theorem setTmps_setl_tmp (k : Nat) (v : ILPure) : setTmps (.setl (tmpName k) v) = [tmpName k] := by
  simp [setTmps, isHTmp_tmpName]

theorem count_render (x : String) (p : Pend) : (setTmps p.render).count x = p.sets.count x := by
  unfold Pend.render Pend.sets
  simp only [setTmps_mkSeq, setTmpsL_append, setTmpsL, setTmps, List.append_nil, List.count_append]
  cases p.setFirst <;> simp [setTmpsL, List.count_append] <;> omega

theorem count_pendSets (x : String) (ps : List Pend) :
    (pendSets ps).count x = (ps.map (fun p => p.sets.count x)).sum := by
  induction ps with
  | nil => simp [pendSets]
  | cons p ps ih => simp [pendSets, List.count_append, ih]

theorem count_renders (x : String) (ps : List Pend) :
    (setTmpsL (ps.map Pend.render)).count x = (ps.map (fun p => p.sets.count x)).sum := by
  induction ps with
  | nil => simp [setTmpsL]
  | cons p ps ih => simp [setTmpsL, List.count_append, ih, count_render]

theorem pendSets_append (xs ys : List Pend) : pendSets (xs ++ ys) = pendSets xs ++ pendSets ys := by
  induction xs with
  | nil => simp [pendSets]
  | cons x xs ih => simp [pendSets, ih]

theorem count_pendSets_filter_le (x : String) (q : Pend → Bool) (ps : List Pend) :
    (pendSets (ps.filter q)).count x ≤ (pendSets ps).count x := by
  rw [count_pendSets, count_pendSets]; exact sum_filter_le_sum _ _ _

theorem pendSets_wrap (ps : List Pend) (n : String) (f : Pend → Pend) (hf : ∀ p, (f p).sets = p.sets) :
    pendSets (ps.map (fun p => if p.tmp == n then f p else p)) = pendSets ps := by
  induction ps with
  | nil => rfl
  | cons p ps ih =>
    simp only [List.map_cons, pendSets, ih]
    split <;> simp [hf]

/-- popping in count form -/
theorem pop_count (eq : Bool) (ps : List Pend) (l : List String) (hnd : eq = true → (tmpsOf ps).Nodup) (x : String) :
    R eq ((setTmpsL ((popPending ps l).1.map Pend.render)).count x + (pendSets (popPending ps l).2).count x)
      ((pendSets ps).count x) := by
  rw [count_renders, count_pendSets, count_pendSets]
  refine ⟨(popPending_spec ps l).2.2.2.2.2.1 _, fun h => popPending_sum_eq ps l (hnd h) _⟩

/-- `chk` moves the popped entries' sets from the state into the effect -/
theorem chk_count (eq : Bool) (s : HSt) (e : ILEffect) (bare : List String) (after : Bool)
    (hnd : eq = true → (tmpsOf s.pending).Nodup) (x : String) :
    R eq ((setTmps (chk s e bare after).1).count x + (pendSets (chk s e bare after).2.pending).count x)
      ((setTmps e).count x + (pendSets s.pending).count x) := by
  rw [chk_eq]
  split
  · exact R.of_eq rfl
  · have := pop_count eq s.pending (bare ++ tmpsOfEffect e) hnd x
    cases after <;>
    · simp only [Bool.false_eq_true, ↓reduceIte, setTmps, setTmpsL_append, setTmpsL, List.append_nil, List.count_append]
      cases eq <;> simp only [R_false, R_true] at this ⊢ <;> omega

/-! ## the counting relation on states (expression level) -/

def Cnt (eq : Bool) (st st' : HSt) : Prop :=
  (eq = true → PendOK st) →
    (eq = true → PendOK st') ∧ st.hyb ≤ st'.hyb ∧
    ∀ x, R eq ((pendSets st'.pending).count x)
              ((pendSets st.pending).count x + (freshNames st.hyb st'.hyb).count x)

theorem Cnt.of_same {eq : Bool} {s s' : HSt} (hf : Fresh s s') (hh : s'.hyb = s.hyb)
    (hc : ∀ x, (eq = true → (tmpsOf s.pending).Nodup) →
      R eq ((pendSets s'.pending).count x) ((pendSets s.pending).count x)) : Cnt eq s s' := by
  intro hok
  refine ⟨fun h => hf.pendOK (hok h), hf.1, fun x => ?_⟩
  rw [hh, freshNames_self]
  simpa using hc x (fun h => (hok h).1)

theorem Cnt.of_push {eq : Bool} {s s' : HSt} (hf : Fresh s s') (hh : s'.hyb = s.hyb + 1)
    (hc : ∀ x, (eq = true → (tmpsOf s.pending).Nodup) →
      R eq ((pendSets s'.pending).count x) ((pendSets s.pending).count x + [tmpName s.hyb].count x)) :
    Cnt eq s s' := by
  intro hok
  refine ⟨fun h => hf.pendOK (hok h), hf.1, fun x => ?_⟩
  rw [hh, freshNames_succ]
  exact hc x (fun h => (hok h).1)

theorem Cnt.refl (eq : Bool) (s : HSt) : Cnt eq s s :=
  Cnt.of_same (Fresh.refl s) rfl (fun _ _ => R.of_eq rfl)

theorem Cnt.trans {eq : Bool} {a b c : HSt} (h1 : Cnt eq a b) (h2 : Cnt eq b c) : Cnt eq a c := by
  intro hok
  obtain ⟨okb, le1, c1⟩ := h1 hok
  obtain ⟨okc, le2, c2⟩ := h2 okb
  refine ⟨okc, Nat.le_trans le1 le2, fun x => ?_⟩
  have e1 := c1 x
  have e2 := c2 x
  rw [← freshNames_append le1 le2, List.count_append]
  cases eq <;> simp only [R_false, R_true] at e1 e2 ⊢ <;> omega

theorem postPend_sets {hyb : Nat} {v : String} {t : CT} {op : String} (hv : isHTmp v = false) :
    (postPend hyb v t op).sets = [tmpName hyb] := by
  simp [Pend.sets, postPend, setTmpsL, setTmps, hv, isHTmp_tmpName]

theorem cntRelE (eq : Bool) : HRelE (fun n => isHTmp n = false) (eq = false) (Cnt eq) where
  refl := Cnt.refl eq
  trans := Cnt.trans
  imm := fun s l sg _ => Cnt.of_same (freshRelE.imm s l sg trivial) rfl (fun _ _ => R.of_eq rfl)
  dropDead := fun hd cfg s d => by
    subst hd
    refine Cnt.of_same (freshRelE.dropDead trivial cfg s d) ?_ (fun x _ => ?_)
    · unfold dropDead; split
      · split
        · rfl
        · split <;> rfl
      · rfl
    · simp only [R_false]
      unfold dropDead; split
      · split
        · exact count_pendSets_filter_le _ _ _
        · split <;> exact Nat.le_refl _
      · exact Nat.le_refl _
  wrapThen := fun s n c => Cnt.of_same (freshRelE.wrapThen s n c) rfl (fun x _ => R.of_eq (by
    have := pendSets_wrap s.pending n (fun p => { p with exec := .branch c p.exec .empty })
      (fun p => by simp [Pend.sets, setTmps])
    simp only [wrapThen]; rw [this]))
  wrapElse := fun s n c => Cnt.of_same (freshRelE.wrapElse s n c) rfl (fun x _ => R.of_eq (by
    have := pendSets_wrap s.pending n (fun p => { p with exec := .branch c .empty p.exec })
      (fun p => by simp [Pend.sets, setTmps])
    simp only [wrapElse]; rw [this]))
  post := fun s v t op hv => Cnt.of_push (freshRelE.post s v t op trivial) rfl (fun x _ => R.of_eq (by
    simp only [postState, pendSets_append, pendSets, postPend_sets hv, List.append_nil, List.count_append]))
  call := fun s name cargs ret => Cnt.of_push (freshRelE.call s name cargs ret) rfl (fun x hnd => by
    have := pop_count eq s.pending (tmpsOfPures cargs) hnd x
    have hs : (callPend s name cargs ret).sets
        = setTmpsL ((popPending s.pending (tmpsOfPures cargs)).1.map Pend.render) ++ [tmpName s.hyb] := by
      simp [Pend.sets, callPend, setTmps, isHTmp_tmpName]
    simp only [callState, pendSets_append, pendSets, hs, List.append_nil, List.count_append]
    cases eq <;> simp only [R_false, R_true] at this ⊢ <;> omega)
  gcc := fun s v il hv => by
    obtain ⟨h1, _, _, _⟩ := chk_snd s (.setl v il) [] false
    refine Cnt.of_push (freshRelE.gcc s v il trivial) (by simp only [gccState]; rw [h1]) (fun x hnd => ?_)
    have := chk_count eq s (.setl v il) [] false hnd x
    rw [setTmps_setl_of _ hv] at this
    have hs : (gccPend (chk s (.setl v il) []).2.hyb v (chk s (.setl v il) []).1).sets
        = setTmps (chk s (.setl v il) []).1 ++ [tmpName s.hyb] := by
      simp [Pend.sets, gccPend, setTmpsL, setTmps, isHTmp_tmpName, h1]
    simp only [gccState, pendSets_append, pendSets, hs, List.append_nil, List.count_append]
    simp only [List.count_nil, Nat.zero_add] at this
    cases eq <;> simp only [R_false, R_true] at this ⊢ <;> omega
  seq := fun s name exts cargs v => Cnt.of_push (freshRelE.seq s name exts cargs v) rfl (fun x hnd => by
    have := pop_count eq s.pending (tmpsOfPures cargs ++ tmpsOfPure v) hnd x
    have hs : (seqPend s name exts cargs v).sets
        = setTmpsL ((popPending s.pending (tmpsOfPures cargs ++ tmpsOfPure v)).1.map Pend.render) ++ [tmpName s.hyb] := by
      simp [Pend.sets, seqPend, vcallEffect, setTmps, isHTmp_tmpName]
    simp only [seqState, pendSets_append, pendSets, hs, List.append_nil, List.count_append]
    cases eq <;> simp only [R_false, R_true] at this ⊢ <;> omega)
  callx := fun s name exts cargs ret => Cnt.of_push (freshRelE.callx s name exts cargs ret) rfl (fun x hnd => by
    have := pop_count eq s.pending (tmpsOfPures cargs) hnd x
    have hs : (callxPend s name exts cargs ret).sets
        = setTmpsL ((popPending s.pending (tmpsOfPures cargs)).1.map Pend.render) ++ [tmpName s.hyb] := by
      simp [Pend.sets, callxPend, callxEffect, setTmps, isHTmp_tmpName]
    simp only [callxState, pendSets_append, pendSets, hs, List.append_nil, List.count_append]
    cases eq <;> simp only [R_false, R_true] at this ⊢ <;> omega)

end C06
end Rzil
