import RzilVerif.Lemmas.SemEquiv
import RzilVerif.Props.C05Compose
/-!
# The repaired lowering is sort-sound on typed states

`SortOK ms σ ce`: if the IL of the compiled expression `ce` evaluates in `σ` at all, and its compiler type carries no
BOOL flag, the value is a bit-vector of exactly the width of that type.  `sortOK_fixed`: every result of
`compileExpr` under `Cfg.fixed` is `SortOK` in every typed state (`SInv c σ`), for expressions that are statically
well-formed in the context `c` (`WFES c e`) and a macro interpretation returning the table's widths (`MsOK ms`).
This is where the width of the value of `x` in `CAST(w, fill, x)` comes from in the semantic carve-out.
-/
namespace Rzil
namespace Sem

def SortOK (ms : MacroSem) (σ : MState) (ce : CE) : Prop :=
  ∀ v, evalPure ms σ [] ce.il = .ok v → ce.ty.hasFlag VT.gBOOL = false →
    ∃ x : BitVec ce.ty.width, v = .bv ce.ty.width x

theorem SortOK.of_flag {ms σ} {ce : CE} (h : ce.ty.hasFlag VT.gBOOL = true) : SortOK ms σ ce := by
  intro v _ hf; rw [h] at hf; cases hf

/-! ## value-level facts -/

theorem castVal_ok {w : Nat} {vf va v : Val} (h : castVal w vf va = .ok v) : ∃ x : BitVec w, v = .bv w x := by
  unfold castVal at h
  split at h
  · exact ⟨_, (Except.ok.inj h).symm⟩
  · cases h

theorem iteVal_ok {vc va vb v : Val} (h : iteVal vc va vb = .ok v) : va.sort = vb.sort ∧ (v = va ∨ v = vb) := by
  unfold iteVal at h
  split at h
  · split at h
    · rename_i hs
      have := (Except.ok.inj h).symm
      refine ⟨by simpa using hs, ?_⟩
      rename_i cb
      cases cb
      · exact Or.inr (by simpa using this)
      · exact Or.inl (by simpa using this)
    · cases h
  · cases h

theorem bv_width_cast {w w' : Nat} (h : w = w') (x : BitVec w) : ∃ x' : BitVec w', Val.bv w x = Val.bv w' x' := by
  subst h; exact ⟨x, rfl⟩

theorem bv_of_sort {v : Val} {w : Nat} (h : v.sort = .bv w) : ∃ x : BitVec w, v = .bv w x := by
  cases v with
  | bv n x => simp only [Val.sort, ILSort.bv.injEq] at h; subst h; exact ⟨x, rfl⟩
  | bool b => cases h
  | flt n x => cases h
  | ext => cases h

theorem evalUn_neg_lognot {op : UnOp} (hop : op = .neg ∨ op = .lognot) {w : Nat} {x : BitVec w} {v : Val}
    (h : evalUn op (.bv w x) = .ok v) : ∃ z : BitVec w, v = .bv w z := by
  rcases hop with rfl | rfl <;> (simp only [evalUn, Except.ok.injEq] at h; exact ⟨_, h.symm⟩)

theorem evalBin_arith_bv {op : BinOp} (hop : isArith op = true) {wa : Nat} {x : BitVec wa} {vb v : Val}
    (h : evalBin op (.bv wa x) vb = .ok v) : ∃ z : BitVec wa, v = .bv wa z := by
  cases vb with
  | bv wb y =>
    have hs : isShift op = false := by cases op <;> simp_all [isArith, isShift]
    simp only [evalBin, hs, Bool.false_eq_true, if_false] at h
    split at h
    · cases op <;> simp only [isArith, Bool.false_eq_true] at hop <;>
        (simp only [Except.ok.injEq] at h; exact ⟨_, h.symm⟩)
    · cases h
  | bool b => simp [evalBin] at h
  | flt n y => simp [evalBin] at h
  | ext => simp [evalBin] at h

theorem evalBin_shift_bv {op : BinOp} (hop : isShift op = true) {wa : Nat} {x : BitVec wa} {vb v : Val}
    (h : evalBin op (.bv wa x) vb = .ok v) : ∃ z : BitVec wa, v = .bv wa z := by
  cases vb with
  | bv wb y =>
    simp only [evalBin, hop, if_true] at h
    cases op <;> simp only [isShift, Bool.false_eq_true] at hop <;>
      (simp only [Except.ok.injEq] at h; exact ⟨_, h.symm⟩)
  | bool b => simp [evalBin] at h
  | flt n y => simp [evalBin] at h
  | ext => simp [evalBin] at h

theorem binOp?_isArith {op : String} {o : BinOp} (h : binOp? op = some o) : isArith o = true := by
  unfold binOp? at h
  split at h <;> first | (cases h; rfl) | cases h

theorem gBoolT_flag : VT.hasFlag { signed := false, width := 1, group := gBool } VT.gBOOL = true := by decide

theorem toVT_noflag (t : CT) : t.toVT.hasFlag VT.gBOOL = false := by
  simp [CT.toVT, VT.hasFlag, VT.gBOOL]

/-! ## `SortOK` through the conversions (any configuration) -/

section
variable {ms : MacroSem} {σ : MState}

theorem sortOK_numberIL (t : VT) (v : Int) (k : PKind) : SortOK ms σ { il := numberIL t v, ty := t, kind := k } := by
  intro w hw _
  simp only [numberIL, evalPure_const, Except.ok.injEq] at hw
  exact ⟨_, hw.symm⟩

theorem sortOK_cast (w : Nat) (f x : ILPure) (t : VT) (k : PKind) (hw : t.width = w) :
    SortOK ms σ { il := .cast w f x, ty := t, kind := k } := by
  intro v hv _
  simp only [evalPure_cast] at hv
  obtain ⟨vf, _, hv⟩ := C05.bind_ok hv
  obtain ⟨va, _, hv⟩ := C05.bind_ok hv
  subst hw
  exact castVal_ok hv

theorem sortOK_initACast (cfg : Cfg) (tgt : VT) (p : CE) (hp : SortOK ms σ p) : SortOK ms σ (initACast cfg tgt p) := by
  unfold initACast
  split
  · exact hp
  · split
    · intro v hv _
      simp only [evalPure_ite, numberIL, evalPure_const] at hv
      obtain ⟨vc, _, hv⟩ := C05.bind_ok hv
      simp only [bind, Except.bind] at hv
      obtain ⟨_, h⟩ := iteVal_ok hv
      rcases h with h | h <;> exact ⟨_, h⟩
    · exact sortOK_cast _ _ _ _ _ rfl

theorem sortOK_promotionCast (cfg : Cfg) (p : CE) (hp : SortOK ms σ p) : SortOK ms σ (promotionCast cfg p) := by
  rw [promotionCast_eq]; exact sortOK_initACast _ _ _ hp

theorem sortOK_castOperands (cfg : Cfg) (a b : CE) (ha : SortOK ms σ a) (hb : SortOK ms σ b) :
    SortOK ms σ (castOperands cfg a b).1 ∧ SortOK ms σ (castOperands cfg a b).2 := by
  rw [castOperands_eq]
  exact ⟨sortOK_initACast _ _ _ ha, sortOK_initACast _ _ _ hb⟩

/-- a unary arithmetic operator on a `SortOK` operand -/
theorem sortOK_un (o : UnOp) (ho : o = .neg ∨ o = .lognot) (a : CE) (ha : SortOK ms σ a) :
    SortOK ms σ { il := .un o a.il, ty := a.ty, kind := .plain } := by
  intro v hv hf
  simp only [evalPure_un] at hv
  obtain ⟨va, hva, hv⟩ := C05.bind_ok hv
  obtain ⟨x, rfl⟩ := ha va hva hf
  exact evalUn_neg_lognot ho hv

theorem sortOK_bin (o : BinOp) (ho : isArith o = true ∨ isShift o = true) (a : CE) (bil : ILPure) (ha : SortOK ms σ a) :
    SortOK ms σ { il := .bin o a.il bil, ty := a.ty, kind := .plain } := by
  intro v hv hf
  simp only [evalPure_bin] at hv
  obtain ⟨va, hva, hv⟩ := C05.bind_ok hv
  obtain ⟨vb, _, hv⟩ := C05.bind_ok hv
  obtain ⟨x, rfl⟩ := ha va hva hf
  rcases ho with ho | ho
  · exact evalBin_arith_bv ho hv
  · exact evalBin_shift_bv ho hv

theorem sortOK_ite (c : ILPure) (a b : CE) (ha : SortOK ms σ a) :
    SortOK ms σ { il := .ite c a.il b.il, ty := a.ty, kind := .plain } := by
  intro v hv hf
  simp only [evalPure_ite] at hv
  obtain ⟨vc, _, hv⟩ := C05.bind_ok hv
  obtain ⟨va, hva, hv⟩ := C05.bind_ok hv
  obtain ⟨vb, _, hv⟩ := C05.bind_ok hv
  obtain ⟨hs, h⟩ := iteVal_ok hv
  obtain ⟨x, rfl⟩ := ha va hva hf
  rcases h with h | h
  · exact ⟨x, h⟩
  · subst h
    exact bv_of_sort hs.symm

end

/-! ## the compiled forms under `Cfg.fixed` -/

section
variable {ms : MacroSem} {σ : MState}

theorem sortOK_unOfCE_fixed (op : String) (ce : CE) (h : SortOK ms σ ce) : SortOK ms σ (unOfCE Cfg.fixed op ce) := by
  unfold unOfCE
  split
  · simp only [cfgsimp, Bool.false_eq_true, if_false]
    exact sortOK_numberIL _ _ _
  · exact sortOK_un _ (by split <;> simp) _ (sortOK_promotionCast _ _ h)

theorem sortOK_compileBin (env : CEnv) (op : String) (ca cb ce : CE) (ha : SortOK ms σ ca) (hb : SortOK ms σ cb)
    (h : compileBin env op ca cb = .ok ce) : SortOK ms σ ce := by
  rw [compileBin_eq] at h
  simp only at h
  cases ho : binOp? op with
  | none => rw [ho] at h; cases h
  | some o =>
    rw [ho] at h
    simp only [Except.ok.injEq] at h
    subst h
    have := sortOK_castOperands env.cfg _ _ (sortOK_promotionCast env.cfg _ ha) (sortOK_promotionCast env.cfg _ hb)
    exact sortOK_bin o (Or.inl (binOp?_isArith ho)) _ _ this.1

theorem sortOK_binBody (env : CEnv) (op : String) (ca cb ce : CE) (ha : SortOK ms σ ca) (hb : SortOK ms σ cb)
    (h : binBody env op ca cb = .ok ce) : SortOK ms σ ce := by
  unfold binBody at h
  split at h
  · split at h
    · simp only [Except.ok.injEq] at h
      subst h
      exact sortOK_numberIL _ _ _
    · exact sortOK_compileBin env op ca cb ce ha hb h
  · exact sortOK_compileBin env op ca cb ce ha hb h

theorem sortOK_cmpBody (cfg : Cfg) (op : String) (ca cb : CE) : SortOK ms σ (cmpBody cfg op ca cb) := by
  apply SortOK.of_flag
  unfold cmpBody
  split
  · exact gBoolT_flag
  · exact gBoolT_flag

theorem sortOK_ternOfCE_fixed (cc ca cb : CE) (ha : SortOK ms σ ca) (hb : SortOK ms σ cb) :
    SortOK ms σ (ternOfCE Cfg.fixed cc ca cb) := by
  have h := sortOK_castOperands Cfg.fixed _ _ (sortOK_promotionCast Cfg.fixed _ ha) (sortOK_promotionCast Cfg.fixed _ hb)
  unfold ternOfCE
  simp only [cfgsimp, Bool.false_eq_true, if_false]
  split
  · split
    · exact h.1
    · exact h.2
  · split
    · exact h.1
    · exact h.2
  · exact sortOK_ite _ _ _ h.1

end

/-! ## leaves: the state invariant `SInv c σ` and the static context -/

theorem macroRetVT_width {name : String} {w : Nat} (h : macroRetW name = some w) : (macroRetVT name).width = w := by
  unfold macroRetW at h
  unfold macroRetVT
  split at h
  · rename_i heq
    rw [heq]
    simp only [Option.some.injEq] at h
    exact h
  · cases h

theorem macroRetOK_some {name : String} {ret : CT} (h : macroRetOK name ret = true) : ∃ w, macroRetW name = some w := by
  unfold macroRetOK at h
  split at h
  · exact ⟨_, by assumption⟩
  · cases h

section
variable {ms : MacroSem} {c : Ctx} {σ : MState}

theorem sortOK_reg (asg : List String) (n : String) (k : RegKind) (t : CT)
    (hwf : wfRegS c n k t = true) :
    SortOK ms σ { il := regRead ⟨asg, Cfg.fixed⟩ n k, ty := regVT Cfg.fixed n k t, kind := .plain } := by
  have hty : regVT Cfg.fixed n k t = t.toVT := by
    unfold regVT; cases k <;> simp only [cfgsimp, Bool.false_eq_true, if_false]
  rw [hty]
  intro v hv _
  change evalPure ms σ [] (regRead ⟨asg, Cfg.fixed⟩ n k) = .ok v at hv
  change ∃ x : BitVec t.width, v = .bv t.width x
  unfold wfRegS at hwf
  by_cases hk : k = .pc
  · subst hk
    simp only [if_true, beq_iff_eq] at hwf
    have hil : regRead ⟨asg, Cfg.fixed⟩ n .pc = .pktAddr := rfl
    rw [hil, evalPure] at hv
    simp only [Except.ok.injEq] at hv
    subst hv
    exact bv_width_cast hwf.symm _
  · simp only [hk, if_false, Bool.and_eq_true, beq_iff_eq] at hwf
    have hil : ∃ d nw, regRead ⟨asg, Cfg.fixed⟩ n k = .readReg { opvar := opvarOf n k, deref := d } nw := by
      unfold regRead
      cases k <;> first | exact absurd rfl hk | exact ⟨_, _, rfl⟩
    obtain ⟨d, nw, hil⟩ := hil
    rw [hil, evalPure] at hv
    simp only [hwf.1, Except.ok.injEq] at hv
    exact ⟨_, hv.symm⟩

theorem sortOK_imm (hinv : C05.SInv c σ) (l : String) (s : Bool) (hwf : c.imms.contains l = true) :
    SortOK ms σ { il := .varl l, ty := { signed := s, width := 32, group := 1 }, kind := .plain } := by
  intro v hv _
  obtain ⟨x, hl⟩ := hinv.imms l (by simpa using hwf)
  rw [evalPure] at hv
  simp only [hl, Except.ok.injEq] at hv
  exact ⟨_, hv.symm⟩

theorem sortOK_var (hinv : C05.SInv c σ) (n : String) (t : CT) (hwf : wfVarS c n t = true) :
    SortOK ms σ { il := .varl n, ty := t.toVT, kind := .plain } := by
  intro v hv _
  unfold wfVarS at hwf
  rw [evalPure] at hv
  cases hl : lookupS n σ.locals with
  | none => rw [hl] at hv; cases hv
  | some w =>
    rw [hl] at hv
    simp only [Except.ok.injEq] at hv
    subst hv
    cases ht : lookupS n c.types with
    | none => rw [ht] at hwf; cases hwf
    | some t' =>
      rw [ht] at hwf
      simp only [beq_iff_eq] at hwf
      obtain ⟨x, rfl⟩ := hinv.typed n t' w ht hl
      exact bv_width_cast hwf x

theorem sortOK_macro (hms : MsOK ms) (name : String) (cargs : List ILPure) (ret : CT) (hr : macroRetOK name ret = true) :
    SortOK ms σ { il := .macro (macroRzName name) cargs, ty := macroRetVT name, kind := .plain } := by
  intro v hv _
  obtain ⟨w, hw⟩ := macroRetOK_some hr
  obtain ⟨h1, h2⟩ := hms name w hw
  simp only [evalPure_macro] at hv
  obtain ⟨vs, _, hv⟩ := C05.bind_ok hv
  unfold macroVal at hv
  rw [h1 vs] at hv
  cases hm : ms name vs with
  | none => rw [hm] at hv; cases hv
  | some v' =>
    rw [hm] at hv
    simp only [Except.ok.injEq] at hv
    subst hv
    obtain ⟨x, rfl⟩ := h2 vs v' hm
    exact bv_width_cast (macroRetVT_width hw).symm x

end

/-! ## all expressions -/

/-- the statement for one expression -/
def SortGood (ms : MacroSem) (c : Ctx) (σ : MState) (asg : List String) (e : CExpr) : Prop :=
  WFES c e = true → ∀ ce, compileExpr ⟨asg, Cfg.fixed⟩ e = .ok ce → SortOK ms σ ce

theorem sortGood_all (ms : MacroSem) (hms : MsOK ms) (c : Ctx) (σ : MState) (hinv : C05.SInv c σ) (asg : List String)
    (e : CExpr) : SortGood ms c σ asg e := by
  refine CExpr.rec (motive_1 := SortGood ms c σ asg) (motive_2 := fun _ => True)
    ?reg ?imm ?lit ?var ?cast ?un ?not ?bin ?shift ?cmp ?log ?tern ?macroc ?load ?post ?call ?stmtexpr ?seqexpr ?callx ?xmacro ?nil ?cons e
  case reg =>
    intro n k t hwf ce hce
    simp only [WFES] at hwf
    simp only [compileExpr_reg, Except.ok.injEq] at hce
    subst hce
    exact sortOK_reg asg n k t hwf
  case imm =>
    intro l s hwf ce hce
    simp only [WFES] at hwf
    simp only [compileExpr_imm, Except.ok.injEq] at hce
    subst hce
    exact sortOK_imm hinv l s hwf
  case lit =>
    intro v h sfx _ ce hce
    simp only [compileExpr_lit, cfgsimp, Bool.false_eq_true, if_false, Except.ok.injEq] at hce
    subst hce
    exact sortOK_numberIL _ _ _
  case var =>
    intro n t hwf ce hce
    simp only [WFES] at hwf
    simp only [compileExpr_var, Except.ok.injEq] at hce
    subst hce
    exact sortOK_var hinv n t hwf
  case cast =>
    intro t e ih hwf ce hce
    simp only [WFES, Bool.and_eq_true] at hwf
    rw [compileExpr_cast] at hce
    obtain ⟨ce0, h0, hce⟩ := C05.bind_ok hce
    have := ih hwf.1 ce0 h0
    split at hce
    · simp only [Except.ok.injEq] at hce; subst hce; exact this
    · simp only [Except.ok.injEq] at hce; subst hce; exact sortOK_initACast _ _ _ this
  case un =>
    intro op e ih hwf ce hce
    simp only [WFES] at hwf
    rw [compileExpr_un] at hce
    obtain ⟨ce0, h0, hce⟩ := C05.bind_ok hce
    simp only [Except.ok.injEq] at hce; subst hce
    exact sortOK_unOfCE_fixed op ce0 (ih hwf ce0 h0)
  case not =>
    intro e _ _ ce hce
    rw [compileExpr_not] at hce
    obtain ⟨ce0, _, hce⟩ := C05.bind_ok hce
    simp only [Except.ok.injEq, cfgsimp, Bool.false_eq_true, if_false] at hce; subst hce
    exact SortOK.of_flag gBoolT_flag
  case bin =>
    intro op a b iha ihb hwf ce hce
    simp only [WFES, Bool.and_eq_true] at hwf
    rw [compileExpr_bin] at hce
    obtain ⟨ca, h1, hce⟩ := C05.bind_ok hce
    obtain ⟨cb, h2, hce⟩ := C05.bind_ok hce
    exact sortOK_binBody _ op ca cb ce (iha hwf.1 ca h1) (ihb hwf.2 cb h2) hce
  case shift =>
    intro op a b iha _ hwf ce hce
    simp only [WFES, Bool.and_eq_true] at hwf
    rw [compileExpr_shift] at hce
    obtain ⟨ca, h1, hce⟩ := C05.bind_ok hce
    obtain ⟨cb, h2, hce⟩ := C05.bind_ok hce
    simp only [Except.ok.injEq, cfgsimp, Bool.false_eq_true, if_false] at hce; subst hce
    refine sortOK_bin _ (Or.inr ?_) _ _ (sortOK_promotionCast _ _ (iha hwf.1.1 ca h1))
    split
    · rfl
    · split <;> rfl
  case cmp =>
    intro op a b _ _ _ ce hce
    rw [compileExpr_cmp] at hce
    obtain ⟨ca, _, hce⟩ := C05.bind_ok hce
    obtain ⟨cb, _, hce⟩ := C05.bind_ok hce
    simp only [Except.ok.injEq] at hce; subst hce
    exact sortOK_cmpBody _ op ca cb
  case log =>
    intro op a b _ _ _ ce hce
    rw [compileExpr_log] at hce
    obtain ⟨ca, _, hce⟩ := C05.bind_ok hce
    obtain ⟨cb, _, hce⟩ := C05.bind_ok hce
    simp only [Except.ok.injEq, cfgsimp, Bool.false_eq_true, if_false] at hce; subst hce
    exact SortOK.of_flag gBoolT_flag
  case tern =>
    intro x a b _ iha ihb hwf ce hce
    simp only [WFES, Bool.and_eq_true] at hwf
    rw [compileExpr_tern] at hce
    obtain ⟨cc, _, hce⟩ := C05.bind_ok hce
    obtain ⟨ca, h1, hce⟩ := C05.bind_ok hce
    obtain ⟨cb, h2, hce⟩ := C05.bind_ok hce
    simp only [Except.ok.injEq] at hce; subst hce
    exact sortOK_ternOfCE_fixed cc ca cb (iha hwf.1.2 ca h1) (ihb hwf.2 cb h2)
  case macroc =>
    intro name args ret params _ hwf ce hce
    simp only [WFES, Bool.and_eq_true] at hwf
    rw [compileExpr_macro] at hce
    obtain ⟨cargs, _, hce⟩ := C05.bind_ok hce
    simp only [Except.ok.injEq] at hce; subst hce
    exact sortOK_macro hms name cargs ret hwf.2
  case load =>
    intro s w t _ ce hce
    simp only [compileExpr_load, Except.ok.injEq] at hce
    subst hce
    exact sortOK_cast _ _ _ _ _ rfl
  case post => intro v t op hwf; simp [WFES] at hwf
  case call => intro n a r p _ hwf; simp [WFES] at hwf
  case stmtexpr => intro t v e _ hwf; simp [WFES] at hwf
  case seqexpr => intro n x a p v _ _ hwf; simp [WFES] at hwf
  case callx => intro n x a r p _ hwf; simp [WFES] at hwf
  case xmacro => intro n x r hwf; simp [WFES] at hwf
  case nil => trivial
  case cons => intros; trivial

/-- **Sort soundness of the repaired lowering**: on a typed state the IL of a statically well-formed expression
    evaluates, if at all, to a bit-vector of the width of its compiler type (unless that type is BOOL-flagged). -/
theorem sortOK_fixed {ms : MacroSem} (hms : MsOK ms) {c : Ctx} {σ : MState} (hinv : C05.SInv c σ) {env : CEnv}
    (henv : env.cfg = Cfg.fixed) {e : CExpr} (hwf : WFES c e = true) {ce : CE} (hce : compileExpr env e = .ok ce) :
    SortOK ms σ ce := by
  obtain ⟨asg, cfg⟩ := env
  simp only at henv; subst henv
  exact sortGood_all ms hms c σ hinv asg e hwf ce hce

/-- the width of the value, in the form the base lemma `cast_bfalse_msb` asks for -/
theorem SortOK.width_le {ms σ} {ce : CE} (h : SortOK ms σ ce) (hf : ce.ty.hasFlag VT.gBOOL = false) {w : Nat}
    (hw : w ≤ ce.ty.width) : ∀ n (y : BitVec n), evalPure ms σ [] ce.il = .ok (.bv n y) → w ≤ n := by
  intro n y hy
  obtain ⟨x, hx⟩ := h _ hy hf
  simp only [Val.bv.injEq] at hx
  omega

/-! ## a typed state exists for every consistent context -/

theorem lookupS_map_const {α : Type} (v : α) (l : String) : ∀ (L : List String), l ∈ L →
    lookupS l (L.map (fun k => (k, v))) = some v
  | [], h => by cases h
  | k :: L, h => by
    simp only [List.map_cons, lookupS]
    by_cases hk : l = k
    · simp [hk]
    · have : l ∈ L := by
        rcases List.mem_cons.1 h with h | h
        · exact absurd h hk
        · exact h
      simp only [beq_iff_eq, hk, if_false]
      exact lookupS_map_const v l L this

theorem mem_of_lookupS_map_const {α : Type} (v : α) (l : String) : ∀ (L : List String) (w : α),
    lookupS l (L.map (fun k => (k, v))) = some w → l ∈ L
  | [], w, h => by simp [lookupS] at h
  | k :: L, w, h => by
    simp only [List.map_cons, lookupS] at h
    by_cases hk : l = k
    · exact hk ▸ List.mem_cons_self
    · simp only [beq_iff_eq, hk, if_false] at h
      exact List.mem_cons_of_mem _ (mem_of_lookupS_map_const v l L w h)

/-- the canonical typed state of a context: every immediate letter bound to the immediate 0, nothing else -/
def typedState (c : Ctx) : MState :=
  { (default : MState) with locals := c.imms.map (fun l => (l, Val.bv 32 (BitVec.ofNat 32 0))) }

theorem typedState_SInv {c : Ctx} (hc : c.ok = true) : C05.SInv c (typedState c) := by
  refine ⟨?_, ?_, ?_⟩
  · intro n t v hn hv
    have := mem_of_lookupS_map_const _ n c.imms v hv
    exact absurd this (C05.Ctx.ok_types hc hn).2.2
  · intro l hl
    exact ⟨_, lookupS_map_const _ l c.imms hl⟩
  · intro ov _; rfl

end Sem
end Rzil
