import RzilVerif.Model.HybWF
/-!
  C06 helpers, part 1: temporaries' names (`tmpName` is injective, `isHTmp` recognises them),
  and `popPending` (a fold over the leaf names).
-/
namespace Rzil
namespace C06

/-! ## names -/

theorem tmpName_toList (n : Nat) : (tmpName n).toList = "h_tmp".toList ++ Nat.toDigits 10 n := by
  show ("h_tmp" ++ toString n).toList = _
  simp [String.toList_append]

theorem tmpName_inj {a b : Nat} (h : tmpName a = tmpName b) : a = b := by
  have h' := congrArg String.toList h
  rw [tmpName_toList, tmpName_toList] at h'
  have h2 := List.append_cancel_left h'
  have := congrArg (fun l => Nat.ofDigitChars 10 l 0) h2
  simpa using this

theorem isHTmp_iff (s : String) : isHTmp s = true ↔ "h_tmp".toList <+: s.toList := by
  simp [isHTmp]

theorem isHTmp_tmpName (n : Nat) : isHTmp (tmpName n) = true := by
  rw [isHTmp_iff, tmpName_toList]
  exact List.prefix_append _ _

/-- decidable characterisation usable on literals (`String.startsWith` itself does not reduce) -/
theorem isHTmp_eq (s : String) : isHTmp s = ("h_tmp".toList).isPrefixOf s.toList := by
  cases h : ("h_tmp".toList).isPrefixOf s.toList with
  | true => rw [isHTmp_iff]; exact List.isPrefixOf_iff_prefix.mp h
  | false =>
    cases h2 : isHTmp s with
    | false => rfl
    | true =>
      rw [isHTmp_iff] at h2
      rw [List.isPrefixOf_iff_prefix.mpr h2] at h
      cases h

theorem freshNames_self (a : Nat) : freshNames a a = [] := by simp [freshNames]

theorem freshNames_succ (a : Nat) : freshNames a (a + 1) = [tmpName a] := by
  simp [freshNames]

theorem freshNames_append {a b c : Nat} (h1 : a ≤ b) (h2 : b ≤ c) :
    freshNames a b ++ freshNames b c = freshNames a c := by
  unfold freshNames
  rw [← List.map_append]
  congr 1
  have := @List.range'_append a (b - a) (c - b) 1
  rw [Nat.one_mul, show a + (b - a) = b by omega, show b - a + (c - b) = c - a by omega] at this
  exact this

theorem mem_freshNames {a b : Nat} {s : String} :
    s ∈ freshNames a b ↔ ∃ n, a ≤ n ∧ n < b ∧ s = tmpName n := by
  simp only [freshNames, List.mem_map, List.mem_range'_1]
  constructor
  · rintro ⟨n, ⟨h1, h2⟩, rfl⟩; exact ⟨n, h1, by omega, rfl⟩
  · rintro ⟨n, h1, h2, rfl⟩; exact ⟨n, ⟨h1, by omega⟩, rfl⟩

theorem freshNames_nodup (a b : Nat) : (freshNames a b).Nodup := by
  unfold freshNames
  refine List.Pairwise.map _ (fun x y (h : x ≠ y) => ?_) (List.nodup_range' (s := a) (n := b - a))
  exact fun e => h (tmpName_inj e)

theorem length_freshNames (a b : Nat) : (freshNames a b).length = b - a := by
  simp [freshNames]

/-! ## `popPending` -/

def popStep (acc : List Pend × List Pend) (n : String) : List Pend × List Pend :=
  match acc.2.find? (fun p => p.tmp == n) with
  | some p => (acc.1 ++ [p], acc.2.filter (fun q => q.tmp != n))
  | none => acc

theorem popPending_eq (p : List Pend) (l : List String) : popPending p l = l.foldl popStep ([], p) := rfl

def tmpsOf (ps : List Pend) : List String := ps.map (·.tmp)

/-- one step, found: the entry found is in the rest list and carries the name -/
theorem popStep_some {a b : List Pend} {n : String} {p : Pend}
    (h : b.find? (fun p => p.tmp == n) = some p) :
    popStep (a, b) n = (a ++ [p], b.filter (fun q => q.tmp != n)) ∧ p ∈ b ∧ p.tmp = n := by
  refine ⟨by simp only [popStep, h], List.mem_of_find?_eq_some h, ?_⟩
  simpa using List.find?_some h

theorem popStep_none {a b : List Pend} {n : String}
    (h : b.find? (fun p => p.tmp == n) = none) :
    popStep (a, b) n = (a, b) ∧ ∀ q ∈ b, q.tmp ≠ n := by
  refine ⟨by simp only [popStep, h], ?_⟩
  intro q hq
  have := List.find?_eq_none.mp h q hq
  simpa using this

/-- with distinct names, removing all entries named like a found entry removes exactly that entry -/
theorem perm_cons_filter {b : List Pend} {n : String} {p : Pend}
    (hnd : (tmpsOf b).Nodup) (h : b.find? (fun p => p.tmp == n) = some p) :
    b.Perm (p :: b.filter (fun q => q.tmp != n)) := by
  induction b with
  | nil => simp at h
  | cons x xs ih =>
    simp only [tmpsOf, List.map_cons, List.nodup_cons] at hnd
    by_cases hx : x.tmp = n
    · have hxb : (x.tmp == n) = true := by simp [hx]
      simp only [List.find?_cons, hxb] at h
      cases h
      have hflt : xs.filter (fun q => q.tmp != n) = xs := by
        apply List.filter_eq_self.mpr
        intro q hq
        have : q.tmp ≠ p.tmp := fun e => hnd.1 (e ▸ List.mem_map_of_mem (f := (·.tmp)) hq)
        simp [← hx, this]
      simp only [List.filter_cons, hx, bne_self_eq_false, hflt]
      exact List.Perm.refl _
    · have hxb : (x.tmp == n) = false := by simp [hx]
      have hxb' : (x.tmp != n) = true := by simp [hx]
      simp only [List.find?_cons, hxb] at h
      simp only [List.filter_cons, hxb', ↓reduceIte]
      exact (List.Perm.cons x (ih hnd.2 h)).trans (List.Perm.swap _ _ _)

theorem sum_filter_le_sum (f : Pend → Nat) (q : Pend → Bool) (xs : List Pend) :
    ((xs.filter q).map f).sum ≤ (xs.map f).sum := by
  induction xs with
  | nil => simp
  | cons x xs ih =>
    simp only [List.filter_cons]
    split <;> simp only [List.map_cons, List.sum_cons] <;> omega

/-- additive measures: one found entry plus what the filter leaves is at most the whole -/
theorem sum_filter_le (f : Pend → Nat) {b : List Pend} {n : String} {p : Pend}
    (h : b.find? (fun p => p.tmp == n) = some p) :
    f p + ((b.filter (fun q => q.tmp != n)).map f).sum ≤ (b.map f).sum := by
  induction b with
  | nil => simp at h
  | cons x xs ih =>
    by_cases hx : x.tmp = n
    · have hxb : (x.tmp == n) = true := by simp [hx]
      simp only [List.find?_cons, hxb] at h
      cases h
      simp only [List.filter_cons, hx, bne_self_eq_false, List.map_cons, List.sum_cons]
      have : ((xs.filter (fun q => q.tmp != n)).map f).sum ≤ (xs.map f).sum :=
        sum_filter_le_sum f _ xs
      simpa using this
    · have hxb : (x.tmp == n) = false := by simp [hx]
      have hxb' : (x.tmp != n) = true := by simp [hx]
      simp only [List.find?_cons, hxb] at h
      simp only [List.filter_cons, hxb', ↓reduceIte, List.map_cons, List.sum_cons]
      have := ih h
      omega

/-- The fold, all facts at once. -/
theorem popFold_spec (l : List String) : ∀ (a0 b0 a b : List Pend), l.foldl popStep (a0, b0) = (a, b) →
    (∃ a', a = a0 ++ a' ∧ (∀ x ∈ a', x ∈ b0 ∧ x.tmp ∈ l)) ∧
    b.Sublist b0 ∧
    (∀ x ∈ b, x.tmp ∉ l) ∧
    (∀ x ∈ b0, x.tmp ∈ l → ∃ y ∈ a, y.tmp = x.tmp) ∧
    (∀ x ∈ b0, x.tmp ∉ l → x ∈ b) ∧
    (∀ f : Pend → Nat, (a.map f).sum + (b.map f).sum ≤ (a0.map f).sum + (b0.map f).sum) ∧
    ((tmpsOf b0).Nodup → (a ++ b).Perm (a0 ++ b0)) := by
  induction l with
  | nil =>
    intro a0 b0 a b h
    simp only [List.foldl_nil, Prod.mk.injEq] at h
    obtain ⟨rfl, rfl⟩ := h
    refine ⟨⟨[], by simp, by simp⟩, List.Sublist.refl _, by simp, by simp, by simp, fun f => Nat.le_refl _,
      fun _ => List.Perm.refl _⟩
  | cons n ns ih =>
    intro a0 b0 a b h
    rw [List.foldl_cons] at h
    cases hf : b0.find? (fun p => p.tmp == n) with
    | none =>
      obtain ⟨hs, hne⟩ := popStep_none (a := a0) hf
      rw [hs] at h
      obtain ⟨⟨a', ha, ha'⟩, h2, h3, h4, h5, h6, h7⟩ := ih a0 b0 a b h
      refine ⟨⟨a', ha, fun x hx => ⟨(ha' x hx).1, List.mem_cons_of_mem _ (ha' x hx).2⟩⟩, h2, ?_, ?_, ?_, h6, h7⟩
      · intro x hx hm
        rcases List.mem_cons.mp hm with e | e
        · exact hne x (h2.subset hx) e
        · exact h3 x hx e
      · intro x hx hm
        rcases List.mem_cons.mp hm with e | e
        · exact absurd e (hne x hx)
        · exact h4 x hx e
      · intro x hx hm
        exact h5 x hx (fun e => hm (List.mem_cons_of_mem _ e))
    | some p =>
      obtain ⟨hs, hpb, hpn⟩ := popStep_some (a := a0) hf
      rw [hs] at h
      obtain ⟨⟨a', ha, ha'⟩, h2, h3, h4, h5, h6, h7⟩ := ih _ _ a b h
      refine ⟨⟨p :: a', by simp [ha], ?_⟩, h2.trans List.filter_sublist, ?_, ?_, ?_, ?_, ?_⟩
      · intro x hx
        rcases List.mem_cons.mp hx with e | e
        · subst e; exact ⟨hpb, by simp [hpn]⟩
        · exact ⟨(List.mem_filter.mp (ha' x e).1).1, List.mem_cons_of_mem _ (ha' x e).2⟩
      · intro x hx hm
        rcases List.mem_cons.mp hm with e | e
        · have := (List.mem_filter.mp (h2.subset hx)).2
          simp [e] at this
        · exact h3 x hx e
      · intro x hx hm
        by_cases e : x.tmp = n
        · refine ⟨p, ?_, by rw [hpn, e]⟩
          rw [ha]; simp
        · rcases List.mem_cons.mp hm with e' | e'
          · exact absurd e' e
          · exact h4 x (List.mem_filter.mpr ⟨hx, by simp [e]⟩) e'
      · intro x hx hm
        have hxn : x.tmp ≠ n := fun e => hm (e ▸ List.mem_cons_self)
        exact h5 x (List.mem_filter.mpr ⟨hx, by simp [hxn]⟩) (fun e => hm (List.mem_cons_of_mem _ e))
      · intro f
        have := h6 f
        have hle := sum_filter_le f hf
        simp only [List.map_append, List.sum_append, List.map_cons, List.map_nil, List.sum_cons, List.sum_nil] at this
        omega
      · intro hnd
        have hnd' : (tmpsOf (b0.filter (fun q => q.tmp != n))).Nodup :=
          List.Sublist.nodup (List.filter_sublist.map _) hnd
        refine (h7 hnd').trans ?_
        have hp := perm_cons_filter hnd hf
        -- (a0 ++ [p]) ++ filter ~ a0 ++ (p :: filter) ~ a0 ++ b0
        rw [List.append_assoc]
        exact List.Perm.append_left a0 hp.symm

/-- `popPending` on its own: what is popped (`.1`) and what stays (`.2`). -/
theorem popPending_spec (p : List Pend) (l : List String) :
    (∀ x ∈ (popPending p l).1, x ∈ p ∧ x.tmp ∈ l) ∧
    (popPending p l).2.Sublist p ∧
    (∀ x ∈ (popPending p l).2, x.tmp ∉ l) ∧
    (∀ x ∈ p, x.tmp ∈ l → ∃ y ∈ (popPending p l).1, y.tmp = x.tmp) ∧
    (∀ x ∈ p, x.tmp ∉ l → x ∈ (popPending p l).2) ∧
    (∀ f : Pend → Nat, (((popPending p l).1).map f).sum + (((popPending p l).2).map f).sum ≤ (p.map f).sum) ∧
    ((tmpsOf p).Nodup → ((popPending p l).1 ++ (popPending p l).2).Perm p) := by
  obtain ⟨⟨a', ha, ha'⟩, h2, h3, h4, h5, h6, h7⟩ :=
    popFold_spec l [] p (popPending p l).1 (popPending p l).2 (by rw [popPending_eq])
  simp only [List.nil_append] at ha
  refine ⟨fun x hx => ha' x (ha ▸ hx), h2, h3, h4, h5, fun f => by simpa using h6 f, fun hnd => by simpa using h7 hnd⟩

theorem popPending_sum_eq (p : List Pend) (l : List String) (hnd : (tmpsOf p).Nodup) (f : Pend → Nat) :
    (((popPending p l).1).map f).sum + (((popPending p l).2).map f).sum = (p.map f).sum := by
  have := (popPending_spec p l).2.2.2.2.2.2 hnd
  have := List.Perm.sum_nat (this.map f)
  simpa using this

end C06
end Rzil
