import RzilVerif.Lemmas.HybFragC
import RzilVerif.Lemmas.HybChk
import RzilVerif.Lemmas.StmtCases
/-!
  C06 helpers, part 16 (simulation fragment, D): a right-hand side of the fragment, compiled from a state without
  pending entries and consumed by an effect that reads the compiled expression: the emitted effect first runs the
  postfix entries, reaching a state that is related (`Inv`) to C's state after the expression and in which the
  compiled expression simulates C's value (`Sim`); then the consumer runs.
-/
namespace Rzil
namespace C06
open C05

theorem isTmp_eq_isHTmp (n : String) : isTmp n = isHTmp n := by
  have hp : "h_tmp".toList = ['h', '_', 't', 'm', 'p'] := by decide
  cases h : isHTmp n with
  | true =>
    rw [isHTmp_iff, hp, List.prefix_iff_eq_take] at h
    simp only [isTmp, beq_iff_eq]
    exact h.symm
  | false =>
    cases h2 : isTmp n with
    | false => rfl
    | true =>
      simp only [isTmp, beq_iff_eq] at h2
      have : isHTmp n = true := by
        rw [isHTmp_iff, hp, List.prefix_iff_eq_take]; exact h2.symm
      rw [this] at h; cases h

theorem postsTyped_mem {c : Ctx} {e : CExpr} (h : postsTyped c e = true) {p : String × CT × String}
    (hp : p ∈ postsOf e) : ∃ t', lookupS p.1 c.types = some t' ∧ t'.width = p.2.1.width := by
  have := List.all_eq_true.mp h p hp
  split at this
  · rename_i t' ht'; exact ⟨t', ht', by simpa using this⟩
  · cases this

theorem postsIndep_spec {e : CExpr} (h : postsIndep e = true) :
    ((postsOf e).map (·.1)).Nodup ∧ (∀ v ∈ (postsOf e).map (·.1), isHTmp v = false ∧ v ∉ readVars e) ∧
    (∀ n ∈ readVars e, isHTmp n = false) := by
  simp only [postsIndep, Bool.and_eq_true, decide_eq_true_eq, List.all_eq_true, Bool.not_eq_true',
    List.contains_iff_mem] at h
  refine ⟨h.1.1, ?_, h.2⟩
  intro v hv
  have := h.1.2 v hv
  simpa using this

section
variable {ms : MacroSem} {c : Ctx}

/-- the invariant after the postfix operations (C side: `applyPosts`; IL side: the rendered entries, in any order) -/
theorem inv_after_posts (hc : c.ok = true) {σC σIL : MState} (hinv : Inv c σC σIL)
    (k : Nat) (posts : List (String × CT × String)) (popped : List Pend) (locals' : List (String × Val))
    (hperm : popped.Perm (postPendsFrom k posts))
    (hnd : (posts.map (·.1)).Nodup)
    (hdecl : ∀ p ∈ posts, ∃ t', lookupS p.1 c.types = some t')
    (hres : ∀ p ∈ popped, lookupS p.tmp locals' = lookupS (postVar p) σIL.locals ∧
                 lookupS (postVar p) locals' = (lookupS (postVar p) σIL.locals).map (stepVal (postInc p)))
    (hrest : ∀ n, (∀ p ∈ popped, n ≠ p.tmp ∧ n ≠ postVar p) → lookupS n locals' = lookupS n σIL.locals) :
    Inv c (applyPosts posts σC) { σIL with locals := locals' } := by
  obtain ⟨f1, f2, f3, f4, f5, f6, f7, _⟩ := applyPosts_fields posts σC
  -- every popped entry is the entry of some postfix operation
  have hpop : ∀ p ∈ popped, ∃ j q, posts[j]? = some q ∧ p = postPend (k + j) q.1 q.2.1 q.2.2 :=
    fun p hp => mem_postPendsFrom.mp (hperm.subset hp)
  have hvar_pop : ∀ q ∈ posts, ∃ p ∈ popped, postVar p = q.1 ∧ postInc p = (q.2.2 == "++") := by
    intro q hq
    obtain ⟨j, hj⟩ := List.getElem?_of_mem hq
    have : postPend (k + j) q.1 q.2.1 q.2.2 ∈ postPendsFrom k posts := mem_postPendsFrom.mpr ⟨j, q, hj, rfl⟩
    exact ⟨_, hperm.symm.subset this, postVar_postPend _ _ _ _, postInc_postPend _ _ _ _⟩
  have hnotTmpDecl : ∀ {n t'}, lookupS n c.types = some t' → isTmp n = false ∧ n ∉ c.imms :=
    fun h => ⟨(Ctx.ok_types hc h).1, (Ctx.ok_types hc h).2.2⟩
  -- a name that is neither a temporary nor a postfix variable is untouched on the IL side
  have huntouched : ∀ n, isTmp n = false → n ∉ posts.map (·.1) → lookupS n locals' = lookupS n σIL.locals := by
    intro n hnt hnp
    apply hrest
    intro p hp
    obtain ⟨j, q, hj, rfl⟩ := hpop p hp
    refine ⟨fun e => ?_, fun e => hnp ?_⟩
    · have : isTmp (postPend (k + j) q.1 q.2.1 q.2.2).tmp = true := isTmp_tmp _
      rw [← e, hnt] at this; cases this
    · rw [postVar_postPend] at e
      exact e ▸ List.mem_map_of_mem (f := (·.1)) (List.mem_of_getElem? hj)
  have himmloc : ∀ l ∈ c.imms, lookupS l locals' = lookupS l σIL.locals := by
    intro l hl
    have hlt := (Ctx.ok_imms hc hl).1
    have hlp : l ∉ posts.map (·.1) := by
      intro hm
      obtain ⟨q, hq, rfl⟩ := List.mem_map.mp hm
      obtain ⟨t', ht'⟩ := hdecl q hq
      exact (hnotTmpDecl ht').2 hl
    exact huntouched l hlt hlp
  refine ⟨⟨?_, ?_, ?_, ?_, ?_, ?_, ?_⟩, ⟨?_, ?_, ?_⟩, ?_, ?_, ?_⟩
  · rw [f1]; exact hinv.rel.cur
  · rw [f2]; exact hinv.rel.new
  · rw [f3]; exact hinv.rel.written
  · rw [f4]; exact hinv.rel.mem
  · rw [f6]; exact hinv.rel.pktAddr
  · rw [f7]; exact hinv.rel.stores
  · -- locals
    intro n v hv
    by_cases hn : n ∈ posts.map (·.1)
    · obtain ⟨q, hq, rfl⟩ := List.mem_map.mp hn
      obtain ⟨v', t, op⟩ := q
      rw [applyPosts_lookup_mem posts σC v' t op hnd hq] at hv
      obtain ⟨p, hp, hpv, hpi⟩ := hvar_pop _ hq
      simp only at hpv hpi
      have := (hres p hp).2
      rw [hpv, hpi] at this
      show lookupS v' locals' = some v
      rw [this]
      cases hl : lookupS v' σC.locals with
      | none => rw [hl] at hv; cases hv
      | some u =>
        rw [hl] at hv
        rw [hinv.rel.locals _ _ hl]; exact hv
    · rw [applyPosts_lookup_ne posts σC hn] at hv
      have hnt : isTmp n = false := by
        cases h : isTmp n with
        | false => rfl
        | true => rw [hinv.tmpFree n h] at hv; cases hv
      show lookupS n locals' = some v
      rw [huntouched n hnt hn]
      exact hinv.rel.locals _ _ hv
  · -- typed
    intro n t v hn hv
    simp only at hv
    obtain ⟨hnt, _⟩ := hnotTmpDecl hn
    by_cases hnp : n ∈ posts.map (·.1)
    · obtain ⟨q, hq, rfl⟩ := List.mem_map.mp hnp
      obtain ⟨p, hp, hpv, hpi⟩ := hvar_pop _ hq
      have := (hres p hp).2
      rw [hpv] at this
      rw [this] at hv
      cases hl : lookupS q.1 σIL.locals with
      | none => rw [hl] at hv; cases hv
      | some u =>
        rw [hl] at hv
        obtain ⟨x, rfl⟩ := hinv.inv.typed _ _ _ hn hl
        simp only [Option.map_some, Option.some.injEq, stepVal] at hv
        exact ⟨_, hv.symm⟩
    · rw [huntouched n hnt hnp] at hv
      exact hinv.inv.typed _ _ _ hn hv
  · -- imms
    intro l hl
    obtain ⟨x, hx⟩ := hinv.inv.imms l hl
    exact ⟨x, by show lookupS l locals' = _; rw [himmloc l hl]; exact hx⟩
  · exact hinv.inv.srcs
  · -- immVal
    intro l hl
    show lookupS l locals' = _
    rw [himmloc l hl, f5]
    exact hinv.immVal l hl
  · -- tmpFree
    intro n hn
    have hnp : n ∉ posts.map (·.1) := by
      intro hm
      obtain ⟨q, hq, rfl⟩ := List.mem_map.mp hm
      obtain ⟨t', ht'⟩ := hdecl q hq
      rw [(hnotTmpDecl ht').1] at hn; cases hn
    rw [applyPosts_lookup_ne posts σC hnp]
    exact hinv.tmpFree n hn
  · -- immFresh
    intro l hl
    have hlp : l ∉ posts.map (·.1) := by
      intro hm
      obtain ⟨q, hq, rfl⟩ := List.mem_map.mp hm
      obtain ⟨t', ht'⟩ := hdecl q hq
      exact (hnotTmpDecl ht').2 hl
    rw [applyPosts_lookup_ne posts σC hlp]
    exact hinv.immFresh l hl

end

/-- the temporaries of the postfix operations of `e` (numbered from `k`) are bound to values of the operations' widths -/
def TmpsTyped (k : Nat) (posts : List (String × CT × String)) (σ : MState) : Prop :=
  ∀ j q, posts[j]? = some q → ∃ x : BitVec q.2.1.width, lookupS (tmpName (k + j)) σ.locals = some (.bv q.2.1.width x)

/-- The well-formedness `WF` of the expression theorem holds for the translated right-hand side in every
    IL-side state that satisfies the invariant and binds the temporaries at the right widths. -/
def WFHypT (ms : MacroSem) (WF : MState → CExpr → Prop) (c : Ctx) (k : Nat) (e : CExpr) : Prop :=
  ∀ σ vC, SInv c σ → ImmsCur c σ → TmpsTyped k (postsOf e) σ → evalC ms σ (unhyb k e) = .ok vC → WF σ (unhyb k e)

section
variable {ms : MacroSem} {WF : MState → CExpr → Prop} (hE : C05.ExprOK ms WF)
variable {c : Ctx} {env : CEnv} (henv : env.cfg = Cfg.fixed) (hc : c.ok = true)
include hE henv hc

/-- (D) A right-hand side `e` of the fragment, compiled from a state without pending entries, consumed by an
    effect `base` that reads every leaf of the compiled expression. -/
theorem rhs_sim {st s1 : HSt} {e : CExpr} {c1 : CE} (hst : st.pending = [])
    (hcomp : compileExprH env st e = .ok (c1, s1))
    (hfrag : postOnly e = true) (hind : postsIndep e = true) (hty : postsTyped c e = true)
    (hWF : WFHypT ms WF c st.hyb e)
    {subs : CSubEnv} {σC σIL σC1 : MState} {v1 : Val} {f : Nat}
    (hinv : Inv c σC σIL) (hev : evalCH ms subs f σC e = .ok (v1, σC1))
    (base : ILEffect) (hbase : ∀ t ∈ tmpsOfPure c1.il, t ∈ tmpsOfEffect base) :
    ∃ σIL1, (∀ σ', ExecIL ms base σIL1 σ' → ExecIL ms (chk s1 base []).1 σIL σ') ∧
      (chk s1 base []).2.pending = [] ∧ Inv c σC1 σIL1 ∧ C05.Sim ms σIL1 c1 (typeOfC e) v1 := by
  have hcfg : env.cfg.literalTypeBySuffixOnly = false := by rw [henv]; rfl
  obtain ⟨hnd, hdis, hrd⟩ := postsIndep_spec hind
  have hA := compileExprH_frag env hcfg e hfrag hcomp
  have hpend : s1.pending = postPendsFrom st.hyb (postsOf e) := by rw [hA.pending, hst, List.nil_append]
  have hread := frag_tmps_read env e hfrag hcomp
  -- C side
  obtain ⟨hσ1, hbound, hevalC⟩ := evalCH_frag ms subs e hfrag hnd (fun v hv => (hdis v hv).2) f σC σC1 v1 hev
  subst hσ1
  -- what `chk` pops: all entries, in some order
  obtain ⟨p1, p2, p3, p4, p5, _, p7⟩ := popPending_spec s1.pending ([] ++ tmpsOfEffect base)
  have hall : ∀ x ∈ s1.pending, x.tmp ∈ [] ++ tmpsOfEffect base := by
    intro x hx
    rw [List.nil_append]
    apply hbase
    apply hread
    rw [← hpend]
    exact List.mem_map_of_mem (f := (·.tmp)) hx
  have hrest : (popPending s1.pending ([] ++ tmpsOfEffect base)).2 = [] := by
    apply List.eq_nil_iff_forall_not_mem.mpr
    intro x hx
    exact p3 x hx (hall x (p2.subset hx))
  have hperm : (chkPopped s1 base []).Perm (postPendsFrom st.hyb (postsOf e)) := by
    have := p7 (by rw [hpend]; exact tmpsOf_postPendsFrom_nodup _ _)
    rw [hrest, List.append_nil, hpend] at this
    unfold chkPopped
    rw [hpend]; exact this
  -- the popped entries are postfix entries whose variables are bound with the right width
  have hboundIL : ∀ q ∈ postsOf e, ∃ x : BitVec q.2.1.width, lookupS q.1 σIL.locals = some (.bv q.2.1.width x) := by
    intro q hq
    obtain ⟨w, x, hl⟩ := hbound q hq
    obtain ⟨t', ht', hw⟩ := postsTyped_mem hty hq
    have hl' := hinv.rel.locals _ _ hl
    obtain ⟨x', hx'⟩ := hinv.inv.typed _ _ _ ht' hl'
    have hww : w = q.2.1.width := by
      have := congrArg Val.sort hx'
      simp only [Val.sort, ILSort.bv.injEq] at this
      omega
    subst hww
    exact ⟨x, hl'⟩
  have hpost : ∀ p ∈ chkPopped s1 base [], IsPostAt σIL p := by
    intro p hp
    obtain ⟨j, q, hj, rfl⟩ := mem_postPendsFrom.mp (hperm.subset hp)
    have hq := List.mem_of_getElem? hj
    obtain ⟨x, hl'⟩ := hboundIL q hq
    exact ⟨st.hyb + j, q.1, q.2.1, q.2.2, x, rfl, (hdis q.1 (List.mem_map_of_mem hq)).1, hl'⟩
  have hpw : (chkPopped s1 base []).Pairwise Indep :=
    hperm.symm.pairwise (postPendsFrom_pairwise _ _ hnd) (fun h => ⟨Ne.symm h.1, Ne.symm h.2⟩)
  obtain ⟨locals', hx, hres, hrest'⟩ := exec_posts ms (chkPopped s1 base []) σIL hpost hpw
  have hinv1 := inv_after_posts hc hinv st.hyb (postsOf e) (chkPopped s1 base []) locals' hperm hnd
    (fun p hp => by obtain ⟨t', ht', _⟩ := postsTyped_mem hty hp; exact ⟨t', ht'⟩) hres hrest'
  refine ⟨{ σIL with locals := locals' }, ?_, ?_, hinv1, ?_⟩
  · -- execution of the emitted effect
    intro σ' hb
    rcases chk_shape s1 base [] false with ⟨h1, h2⟩ | ⟨_, h2, _⟩
    · rw [h2]
      rw [h1] at hx
      simp only [List.map_nil] at hx
      rw [← ExecSeqIL_nil_inv hx]; exact hb
    · rw [h2]
      simp only [Bool.false_eq_true, ↓reduceIte]
      exact ExecIL_seqn.mpr (ExecSeqIL_append hx (ExecSeqIL_cons hb ExecSeqIL_nil))
  · rcases chk_shape s1 base [] false with ⟨h1, h2⟩ | ⟨_, _, h2⟩
    · rw [h2, hpend]
      have := hperm.length_eq
      rw [h1] at this
      exact List.eq_nil_of_length_eq_zero this.symm
    · rw [h2]; exact hrest
  · -- the value
    -- the expression theorem is applied in the IL-side state seen with the C side's current immediates
    have hext : Ext st.hyb (readVars e) (postsOf e) σC { σIL with locals := locals', imm := σC.imm } := by
      refine ⟨hinv.rel.cur.symm, hinv.rel.new.symm, hinv.rel.written.symm, hinv.rel.mem.symm, rfl,
        hinv.rel.pktAddr.symm, ?_, ?_⟩
      · intro n hn v hv
        show lookupS n locals' = some v
        rw [hrest' n ?_]
        · exact hinv.rel.locals _ _ hv
        · intro p hp
          obtain ⟨j, q, hj, rfl⟩ := mem_postPendsFrom.mp (hperm.subset hp)
          refine ⟨fun e' => ?_, fun e' => ?_⟩
          · have := hrd n hn
            rw [e'] at this
            simp only [postPend, isHTmp_tmpName] at this
            cases this
          · rw [postVar_postPend] at e'
            exact (hdis q.1 (List.mem_map_of_mem (List.mem_of_getElem? hj))).2 (e' ▸ hn)
      · intro j q hj v hv
        have hm : postPend (st.hyb + j) q.1 q.2.1 q.2.2 ∈ chkPopped s1 base [] :=
          hperm.symm.subset (mem_postPendsFrom.mpr ⟨j, q, hj, rfl⟩)
        have := (hres _ hm).1
        rw [postVar_postPend] at this
        show lookupS (tmpName (st.hyb + j)) locals' = some v
        simp only [postPend] at this
        rw [this]
        exact hinv.rel.locals _ _ hv
    have hC := hevalC st.hyb _ hext
    have htt : TmpsTyped st.hyb (postsOf e) { σIL with locals := locals', imm := σC.imm } := by
      intro j q hj
      have hm : postPend (st.hyb + j) q.1 q.2.1 q.2.2 ∈ chkPopped s1 base [] :=
        hperm.symm.subset (mem_postPendsFrom.mpr ⟨j, q, hj, rfl⟩)
      obtain ⟨x, hl'⟩ := hboundIL q (List.mem_of_getElem? hj)
      have h1 := (hres _ hm).1
      rw [postVar_postPend, hl'] at h1
      exact ⟨x, h1⟩
    have himm1 : ImmsCur c { σIL with locals := locals', imm := σC.imm } := by
      intro l hl
      have := hinv1.immVal l hl
      rw [(applyPosts_fields (postsOf e) σC).2.2.2.2.1] at this
      exact this
    obtain ⟨vIL, h1, h2, h3⟩ := hE { σIL with locals := locals', imm := σC.imm } env (unhyb st.hyb e) c1 v1 henv
      (hWF _ v1 (hinv1.inv.withImm _) himm1 htt hC) hC hA.plain
    have h1' : evalPure ms { σIL with locals := locals' } [] c1.il = .ok vIL := by
      rw [← ImmFree.evalPure_compileExpr_withImm hA.plain ms { σIL with locals := locals' } σC.imm]; exact h1
    rw [typeOfC_unhyb e st.hyb hfrag] at h3
    exact ⟨vIL, h1', h2, h3⟩

omit hE hc in
theorem gccSrc_fixed (t : CT) (c1 : CE) : gccSrc env.cfg t c1 = initACast Cfg.fixed t.toVT c1 := by
  simp only [gccSrc, henv]; exact convTo_eq _ _ _

/-- (7) `T n = e;` with postfix operations in `e`: the emitted effect, run from a related state, ends in a
    state related to the result of the C statement, and nothing stays pending. -/
theorem decl_post_correct {st st' : HSt} {t : CT} {n : String} {e : CExpr} {eff : Option ILEffect} {b : List String}
    (hst : st.pending = [])
    (hcomp : compileStmtH env st (.decl t n (some e)) = .ok (eff, b, st'))
    (hdecl : lookupS n c.types = some t) (hw : t.width ≠ 1)
    (hfrag : postOnly e = true) (hind : postsIndep e = true) (hty : postsTyped c e = true)
    (hWF : WFHypT ms WF c st.hyb e)
    {subs : CSubEnv} {σC σIL σC' : MState} {f : Nat}
    (hinv : Inv c σC σIL) (hex : execCH ms subs (f+1) (.decl t n (some e)) σC = .ok σC') :
    ∃ effIL σIL', eff = some effIL ∧ ExecIL ms effIL σIL σIL' ∧ Inv c σC' σIL' ∧ st'.pending = [] := by
  obtain ⟨c1, s1, h1, rfl, _, rfl⟩ := invS_decl hcomp
  simp only [execCH] at hex
  obtain ⟨⟨v1, σ1⟩, hv, hex⟩ := bind_ok hex
  obtain ⟨v', hv', hex⟩ := bind_ok hex
  simp only [Except.ok.injEq] at hex
  subst hex
  obtain ⟨σIL1, hx, hp, hinv1, hsim⟩ := rhs_sim hE henv hc hst h1 hfrag hind hty hWF hinv hv
    (.setl n (gccSrc env.cfg t c1).il)
    (fun t' ht' => by simp only [tmpsOfEffect, List.mem_append]; exact Or.inr (tmps_gccSrc ht'))
  obtain ⟨x, hcv, _, he, _⟩ := sim_convTo t hsim hw
  rw [hcv] at hv'; cases hv'
  rw [gccSrc_fixed henv] at hx hp ⊢
  exact ⟨_, _, rfl, hx _ (ExecIL_setl he), hinv1.setDeclared hc hdecl x, hp⟩

omit hE henv hc in
theorem compileAssign_var_eq (env : CEnv) (n : String) (tn : CT) (c1 : CE) :
    compileAssign env (.var n tn) "=" c1 =
      .ok (.setl n (initACast env.cfg tn.toVT c1).il, initACast env.cfg tn.toVT c1) := by
  have h : (if tn.toVT.eqv c1.ty then c1 else initACast env.cfg tn.toVT c1) = initACast env.cfg tn.toVT c1 := by
    unfold initACast; split <;> rfl
  simp [compileAssign, compileExpr, destWrite, bind, Except.bind, h]

/-- (7) `n = e;` (plain assignment to a declared local) with postfix operations in `e`. -/
theorem assign_post_correct {st st' : HSt} {tn : CT} {n : String} {e : CExpr} {eff : Option ILEffect} {b : List String}
    (hst : st.pending = [])
    (hcomp : compileStmtH env st (.assign (.var n tn) "=" e) = .ok (eff, b, st'))
    (hdecl : lookupS n c.types = some tn) (hw : tn.width ≠ 1)
    (hfrag : postOnly e = true) (hind : postsIndep e = true) (hty : postsTyped c e = true)
    (hWF : WFHypT ms WF c st.hyb e)
    {subs : CSubEnv} {σC σIL σC' : MState} {f : Nat}
    (hinv : Inv c σC σIL) (hex : execCH ms subs (f+1) (.assign (.var n tn) "=" e) σC = .ok σC') :
    ∃ effIL σIL', eff = some effIL ∧ ExecIL ms effIL σIL σIL' ∧ Inv c σC' σIL' ∧ st'.pending = [] := by
  obtain ⟨c1, s1, eff0, src, h1, h2, rfl, _, rfl⟩ := invS_assign hcomp
  rw [compileAssign_var_eq] at h2
  simp only [Except.ok.injEq, Prod.mk.injEq] at h2
  obtain ⟨rfl, rfl⟩ := h2
  simp only [execCH, compoundExpr, typeOfC] at hex
  obtain ⟨⟨v1, σ1⟩, hv, hex⟩ := bind_ok hex
  obtain ⟨v', hv', hex⟩ := bind_ok hex
  simp only [Except.ok.injEq] at hex
  subst hex
  obtain ⟨σIL1, hx, hp, hinv1, hsim⟩ := rhs_sim hE henv hc hst h1 hfrag hind hty hWF hinv hv
    (.setl n (initACast env.cfg tn.toVT c1).il)
    (fun t' ht' => by simp only [tmpsOfEffect, List.mem_append]; exact Or.inr (tmps_initACast ht'))
  obtain ⟨x, hcv, _, he, _⟩ := sim_convTo tn hsim hw
  rw [hcv] at hv'; cases hv'
  rw [henv] at hx hp ⊢
  exact ⟨_, _, rfl, hx _ (ExecIL_setl he), hinv1.setDeclared hc hdecl x, hp⟩

end

end C06
end Rzil
