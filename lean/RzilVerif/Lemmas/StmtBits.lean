import RzilVerif.Lemmas.StmtConv
/-!
  C05 helpers, part 3b: bit-vector facts behind compound assignment
  (`a op= e` computed in the promoted type of `a` after converting `e` to the type of `a`, versus
   C's `a = a op e` computed in the common type).
-/
namespace Rzil
namespace C05

/-- the six arithmetic/bitwise operators of compound assignment, on one width -/
def bvBin {w : Nat} (o : BinOp) (x y : BitVec w) : BitVec w :=
  match o with
  | .add => x + y | .sub => x - y | .mul => x * y
  | .logand => x &&& y | .logor => x ||| y | .logxor => x ^^^ y
  | _ => x

def isArith6 : BinOp → Bool
  | .add | .sub | .mul | .logand | .logor | .logxor => true
  | _ => false

theorem evalBin_bvBin {w : Nat} {o : BinOp} (ho : isArith6 o = true) (x y : BitVec w) :
    evalBin o (.bv w x) (.bv w y) = .ok (.bv w (bvBin o x y)) := by
  cases o <;> simp [isArith6] at ho <;> simp [evalBin, isShift, bvBin]

theorem setWidth_sub {w k : Nat} (x y : BitVec w) (h : k ≤ w) :
    (x - y).setWidth k = x.setWidth k - y.setWidth k := by
  rw [BitVec.sub_eq_add_neg, BitVec.sub_eq_add_neg, BitVec.setWidth_add _ _ h]
  congr 1
  rw [BitVec.neg_eq_not_add, BitVec.neg_eq_not_add, BitVec.setWidth_add _ _ h, BitVec.setWidth_not h]
  congr 1
  ext i hi; simp; omega

theorem setWidth_bvBin {w k : Nat} {o : BinOp} (ho : isArith6 o = true) (x y : BitVec w) (h : k ≤ w) :
    (bvBin o x y).setWidth k = bvBin o (x.setWidth k) (y.setWidth k) := by
  cases o <;> simp [isArith6] at ho <;> simp only [bvBin]
  · exact BitVec.setWidth_add _ _ h
  · exact setWidth_sub _ _ h
  · exact BitVec.setWidth_mul _ _ h
  · exact BitVec.setWidth_and
  · exact BitVec.setWidth_or
  · exact BitVec.setWidth_xor

theorem setWidth_signExtend {n d k : Nat} (x : BitVec n) (h : k ≤ d) :
    (x.signExtend d).setWidth k = if k ≤ n then x.setWidth k else x.signExtend k := by
  split
  · rename_i hk
    ext i hi
    simp only [BitVec.getElem_setWidth, BitVec.getLsbD_signExtend]
    have h1 : i < d := by omega
    have h2 : i < n := by omega
    simp [h1, h2]
  · rename_i hk
    ext i hi
    simp only [BitVec.getElem_setWidth, BitVec.getLsbD_signExtend, BitVec.getElem_signExtend]
    have h1 : i < d := by omega
    simp only [h1, decide_true, Bool.true_and]
    split
    · rename_i hin; exact BitVec.getLsbD_eq_getElem hin
    · rfl

/-- truncating a converted value is converting to the narrower type directly -/
theorem setWidth_convBits {n k : Nat} (src dst : CT) (b : Bool) (x : BitVec n) (h : k ≤ dst.width) :
    (convBits src dst x).setWidth k = convBits src ⟨b, k⟩ x := by
  unfold convBits
  simp only
  by_cases hd : dst.width ≤ n
  · have hk : k ≤ n := by omega
    simp only [hd, hk, ↓reduceIte]
    exact BitVec.setWidth_setWidth_of_le x h
  · simp only [hd, ↓reduceIte]
    cases hs : src.signed with
    | false =>
      simp only [Bool.false_eq_true, ↓reduceIte]
      rw [BitVec.setWidth_setWidth_of_le x h]
      split <;> rfl
    | true =>
      simp only [↓reduceIte]
      exact setWidth_signExtend x h

theorem convBits_self {n : Nat} (src : CT) (b : Bool) (x : BitVec n) : convBits src ⟨b, n⟩ x = x := by
  simp [convBits]

/-- converting to a type at least as wide as `k` and truncating back to `k = n` gives `x` back -/
theorem setWidth_convBits_self {n : Nat} (src dst : CT) (x : BitVec n) (h : n ≤ dst.width) :
    (convBits src dst x).setWidth n = x := by
  rw [setWidth_convBits src dst false x h, convBits_self]

theorem promote_width_ge (t : CT) : t.width ≤ t.promote.width := by
  unfold CT.promote; split <;> simp <;> omega

theorem common_width_ge_left (a b : CT) : a.width ≤ (a.common b).width := by
  have := promote_width_ge a
  unfold CT.common
  simp only
  split
  · simp only; omega
  · split <;> split <;> simp only <;> (try split) <;> simp_all <;> omega

/-- `a op e` computed in any type `T` at least as wide as `a`, then truncated back to the type of `a`,
    is `a op (e converted to the type of a)` -/
theorem narrow_bvBin {n : Nat} {o : BinOp} (ho : isArith6 o = true) (tl T s1 s2 : CT)
    (x : BitVec tl.width) (y : BitVec n) (h : tl.width ≤ T.width) :
    convBits T tl (bvBin o (convBits s1 T x) (convBits s2 T y)) = bvBin o x (convBits s2 tl y) := by
  have : convBits T tl (bvBin o (convBits s1 T x) (convBits s2 T y)) =
      (bvBin o (convBits s1 T x) (convBits s2 T y)).setWidth tl.width := by
    simp [convBits, h]
  rw [this, setWidth_bvBin ho _ _ h, setWidth_convBits_self s1 T x h, setWidth_convBits s2 T tl.signed y h]

theorem convBits_promote_toNat (te : CT) (y : BitVec te.width) (h : (te.signed && y.msb) = false) :
    (convBits te te.promote y).toNat = y.toNat := by
  unfold convBits
  by_cases h32 : te.width < 32
  · have hp : te.promote = ⟨true, 32⟩ := by simp [CT.promote, h32]
    have hlt : y.toNat < 2 ^ 32 := Nat.lt_of_lt_of_le y.isLt (Nat.pow_le_pow_right (by omega) (by omega))
    rw [hp]
    have hn : ¬ (32 ≤ te.width) := by omega
    simp only [hn, ↓reduceIte]
    cases hs : te.signed with
    | false => simp [Nat.mod_eq_of_lt hlt]
    | true =>
      rw [hs] at h
      simp only [Bool.true_and] at h
      simp only [↓reduceIte, BitVec.signExtend_eq_setWidth_of_msb_false h]
      simp [Nat.mod_eq_of_lt hlt]
  · have hp : te.promote = te := by simp [CT.promote, h32]
    rw [hp]; simp

end C05
end Rzil
