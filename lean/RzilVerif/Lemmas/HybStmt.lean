import RzilVerif.Lemmas.HybSets
/-!
  C06 helpers, part 7: counting `SETL h_tmpN` occurrences through statements: what the emitted effects set
  plus what the pending entries will set is (at most / exactly) what was pending before plus one per new hybrid.
-/
namespace Rzil
namespace C06
open C05 (bind_ok bind_ok_of)

def Acc (eq : Bool) (st : HSt) (X : List String) (st' : HSt) : Prop :=
  (eq = true → PendOK st) →
    (eq = true → PendOK st') ∧ st.hyb ≤ st'.hyb ∧
    ∀ x, R eq (X.count x + (pendSets st'.pending).count x)
              ((pendSets st.pending).count x + (freshNames st.hyb st'.hyb).count x)

theorem Acc.of_cnt {eq : Bool} {s s' : HSt} (h : Cnt eq s s') : Acc eq s [] s' := by
  intro hok
  obtain ⟨a, b, c⟩ := h hok
  exact ⟨a, b, fun x => by simpa using c x⟩

/-- visiting the assignment target first touches neither the pending hybrids nor the counter -/
theorem Acc.regLhs {eq : Bool} {st st' : HSt} {lhs : CExpr} {X : List String}
    (h : Acc eq (regLhsH st lhs) X st') : Acc eq st X st' := by
  intro hok
  have h' := h (fun e => by have := hok e; simpa only [PendOK, regLhsH_hyb, regLhsH_pending] using this)
  simpa only [regLhsH_hyb, regLhsH_pending] using h'

theorem Acc.refl (eq : Bool) (s : HSt) : Acc eq s [] s := Acc.of_cnt (Cnt.refl eq s)

theorem Acc.congr {eq : Bool} {s s' : HSt} {X Y : List String} (h : Acc eq s X s')
    (hxy : ∀ x, Y.count x = X.count x) : Acc eq s Y s' := by
  intro hok
  obtain ⟨a, b, c⟩ := h hok
  exact ⟨a, b, fun x => by rw [hxy x]; exact c x⟩

theorem Acc.trans {eq : Bool} {a b c : HSt} {X Y : List String} (h1 : Acc eq a X b) (h2 : Acc eq b Y c) :
    Acc eq a (X ++ Y) c := by
  intro hok
  obtain ⟨okb, le1, c1⟩ := h1 hok
  obtain ⟨okc, le2, c2⟩ := h2 okb
  refine ⟨okc, Nat.le_trans le1 le2, fun x => ?_⟩
  have e1 := c1 x
  have e2 := c2 x
  rw [← freshNames_append le1 le2, List.count_append, List.count_append]
  cases eq <;> simp only [R_false, R_true] at e1 e2 ⊢ <;> omega

/-- `chk` on an effect `e` whose sets are part of what is accounted so far -/
theorem Acc.chk {eq : Bool} {a b : HSt} {X : List String} (h : Acc eq a X b) (X0 Y : List String)
    (e : ILEffect) (bare : List String) (after : Bool)
    (hX : ∀ x, X.count x = X0.count x + (setTmps e).count x)
    (hY : ∀ x, Y.count x = X0.count x + (setTmps (Rzil.chk b e bare after).1).count x) :
    Acc eq a Y (Rzil.chk b e bare after).2 := by
  intro hok
  obtain ⟨okb, le1, c1⟩ := h hok
  obtain ⟨h1, _, _, _⟩ := chk_snd b e bare after
  refine ⟨fun h => (freshRel.chk b e bare after).pendOK (okb h), by rw [h1]; exact le1, fun x => ?_⟩
  have e1 := c1 x
  have e2 := chk_count eq b e bare after (fun h => (okb h).1) x
  rw [h1, hY x]
  rw [hX x] at e1
  cases eq <;> simp only [R_false, R_true] at e1 e2 ⊢ <;> omega

theorem destWrite_sets {lhs : CExpr} {v : ILPure} {eff : ILEffect} (h : destWrite lhs v = .ok eff)
    (hv : ∀ n ∈ exprNames lhs, isHTmp n = false) : setTmps eff = [] := by
  unfold destWrite at h
  split at h
  · simp only [Except.ok.injEq] at h; subst h
    exact setTmps_setl_of _ (hv _ (by simp [exprNames]))
  · simp only [Except.ok.injEq] at h; subst h; simp [setTmps]
  · simp only [Except.ok.injEq] at h; subst h
    exact setTmps_setl_of _ (hv _ (by simp [exprNames]))
  · cases h

theorem compileAssign_sets {env : CEnv} {lhs : CExpr} {op : String} {ce src : CE} {eff : ILEffect}
    (h : compileAssign env lhs op ce = .ok (eff, src))
    (hv : ∀ n ∈ exprNames lhs, isHTmp n = false) : setTmps eff = [] := by
  simp only [compileAssign] at h
  obtain ⟨cd, _, h⟩ := bind_ok h
  obtain ⟨s1, _, h⟩ := bind_ok h
  obtain ⟨e1, he, h⟩ := bind_ok h
  simp only [Except.ok.injEq, Prod.mk.injEq] at h
  obtain ⟨rfl, _⟩ := h
  exact destWrite_sets he hv

def effL : Option ILEffect → List ILEffect
  | some e => [e]
  | none => []

section
variable (eq : Bool) (env : CEnv)

local macro "cnt_side" : tactic =>
  `(tactic| (simp only [effL, setTmpsL, setTmps, setTmps_mkSeq, setTmpsL_append, List.count_append, List.count_nil,
      List.append_nil, List.nil_append, Nat.zero_add, Nat.add_zero] <;> omega))

theorem exprAcc {e : CExpr} {st st' : HSt} {ce : CE} (hv : ∀ n ∈ exprNames e, isHTmp n = false)
    (hd : eq = false ∨ noConstTernE e = true) (h : compileExprH env st e = .ok (ce, st')) : Acc eq st [] st' :=
  Acc.of_cnt (compileExprH_rel (cntRelE eq) env e hv hd h)

mutual
theorem compileStmtH_acc : (s : CStmt) → {st st' : HSt} → {eff : Option ILEffect} → {b : List String} →
    (∀ n ∈ stmtNames s, isHTmp n = false) → (eq = false ∨ noConstTernS s = true) →
    compileStmtH env st s = .ok (eff, b, st') → Acc eq st (setTmpsL (effL eff)) st'
  | .decl t n none, st, st', eff, b, _, _, h => by
      obtain ⟨rfl, _, rfl⟩ := invS_decl_none h
      exact Acc.refl eq _
  | .decl t n (some e), st, st', eff, b, hv, hd, h => by
      obtain ⟨c1, s1, h1, rfl, _, rfl⟩ := invS_decl h
      simp only [stmtNames, List.mem_cons] at hv
      have hn : isHTmp n = false := hv n (Or.inl rfl)
      have hE := exprAcc eq env (fun n hn => hv n (Or.inr hn)) (by simpa [noConstTernS] using hd) h1
      refine hE.chk [] _ _ _ _ (fun x => ?_) (fun x => ?_)
      · simp [setTmps_setl_of _ hn]
      · cnt_side
  | .assign lhs op e, st, st', eff, b, hv, hd, h => by
      obtain ⟨c1, s1, eff0, src, h1, h2, rfl, _, rfl⟩ := invS_assign h
      simp only [stmtNames, List.mem_append] at hv
      have hs := compileAssign_sets h2 (fun n hn => hv n (Or.inl hn))
      have hE := (exprAcc eq env (fun n hn => hv n (Or.inr hn)) (by simpa [noConstTernS] using hd) h1).regLhs
      refine hE.chk [] _ _ _ _ (fun x => ?_) (fun x => ?_)
      · simp [hs]
      · cnt_side
  | .chain l1 l2 op2 e, st, st', eff, b, hv, hd, h => by
      obtain ⟨c1, s1, effI, srcI, effO, srcO, h1, h2, h3, rfl, _, rfl⟩ := invS_chain h
      simp only [stmtNames, List.mem_append] at hv
      have hsI := compileAssign_sets h2 (fun n hn => hv n (Or.inl (Or.inr hn)))
      have hsO := compileAssign_sets h3 (fun n hn => hv n (Or.inl (Or.inl hn)))
      have hE := (exprAcc eq env (fun n hn => hv n (Or.inr hn)) (by simpa [noConstTernS] using hd) h1).regLhs.regLhs
      have a1 := hE.chk [] (setTmps (chk s1 effI []).1) effI [] false (fun x => by simp [hsI]) (fun x => by simp)
      have a2 := a1.chk (setTmps (chk s1 effI []).1)
        (setTmps (chk s1 effI []).1 ++ setTmps (chk (chk s1 effI []).2 effO []).1) effO [] false
        (fun x => by simp [hsO]) (fun x => by simp [List.count_append])
      refine a2.chk [] _ (mkSeq [(chk (chk s1 effI []).2 effO []).1, (chk s1 effI []).1]) [] false
        (fun x => ?_) (fun x => ?_)
      · cnt_side
      · cnt_side
  | .store w e, st, st', eff, b, hv, hd, h => by
      obtain ⟨c1, s1, data, h1, rfl, _, rfl⟩ := invS_store h
      have hE := exprAcc eq env (by simpa [stmtNames] using hv) (by simpa [noConstTernS] using hd) h1
      refine hE.chk [] _ _ _ _ (fun x => ?_) (fun x => ?_)
      · simp [setTmps]
      · cnt_side
  | .ite c t none, st, st', eff, b, hv, hd, h => by
      obtain ⟨cc, s1, ts, tb, s2, h1, h2, rfl, _, rfl⟩ := invS_ite_none h
      simp only [stmtNames, List.mem_append] at hv
      simp only [noConstTernS, Bool.and_eq_true] at hd
      have hC := exprAcc eq env (fun n hn => hv n (Or.inl hn)) (hd.imp id And.left) h1
      have hT := compileStmtsH_acc t (fun n hn => hv n (Or.inr hn)) (hd.imp id And.right) h2
      have a1 := (hC.trans hT).chk [] (setTmps (chk s2 (mkSeq ts) tb).1) (mkSeq ts) tb false
        (fun x => by cnt_side) (fun x => by simp)
      refine a1.chk [] _ (.branch (condIL env.cfg cc) (chk s2 (mkSeq ts) tb).1 .empty) [] false
        (fun x => ?_) (fun x => ?_)
      · cnt_side
      · cnt_side
  | .ite c t (some e), st, st', eff, b, hv, hd, h => by
      obtain ⟨cc, s1, ts, tb, s2, es, eb, s3, h1, h2, h3, rfl, _, rfl⟩ := invS_ite_some h
      simp only [stmtNames, List.mem_append] at hv
      simp only [noConstTernS, Bool.and_eq_true] at hd
      have hC := exprAcc eq env (fun n hn => hv n (Or.inl (Or.inl hn))) (hd.imp id (fun x => x.1.1)) h1
      have hT := compileStmtsH_acc t (fun n hn => hv n (Or.inl (Or.inr hn))) (hd.imp id (fun x => x.1.2)) h2
      have a1 := (hC.trans hT).chk [] (setTmps (chk s2 (mkSeq ts) tb).1) (mkSeq ts) tb false
        (fun x => by cnt_side) (fun x => by simp)
      have hEl := compileStmtsH_acc e (fun n hn => hv n (Or.inr hn)) (hd.imp id (fun x => x.2)) h3
      have a2 := (a1.trans hEl).chk (setTmps (chk s2 (mkSeq ts) tb).1)
        (setTmps (chk s2 (mkSeq ts) tb).1 ++ setTmps (chk s3 (mkSeq es) eb).1) (mkSeq es) eb false
        (fun x => by cnt_side) (fun x => by simp [List.count_append])
      refine a2.chk [] _ (.branch (condIL env.cfg cc) (chk s2 (mkSeq ts) tb).1 (chk s3 (mkSeq es) eb).1) [] false
        (fun x => ?_) (fun x => ?_)
      · cnt_side
      · cnt_side
  | .for_ v cond 0 body, st, st', eff, b, hv, hd, h => by
      obtain ⟨x0, cc, s1, bs, bb, s3, _, h1, h3, rfl, _, rfl⟩ := invS_for0 h
      simp only [stmtNames, List.mem_cons, List.mem_append] at hv
      simp only [noConstTernS, Bool.and_eq_true] at hd
      have hn : isHTmp v = false := hv v (Or.inl rfl)
      have a0 := (Acc.refl eq st).chk [] (setTmps (chk st (forInit v x0) []).1) (forInit v x0) [] false
        (fun x => by simp [forInit, setTmps_setl_of _ hn]) (fun x => by simp)
      have hC := exprAcc eq env (fun n hn => hv n (Or.inr (Or.inl hn))) (hd.imp id And.left) h1
      have hP : Acc eq s1 [] (postState s1 v (loopVarTy v cond) "++") :=
        Acc.of_cnt ((cntRelE eq).post s1 v (loopVarTy v cond) "++" hn)
      have hB := compileStmtsH_acc body (fun n hn => hv n (Or.inr (Or.inr hn))) (hd.imp id And.right) h3
      have a1 := (((a0.trans hC).trans hP).trans hB).chk (setTmps (chk st (forInit v x0) []).1)
        (setTmps (chk st (forInit v x0) []).1 ++ setTmps (chk s3 (mkSeq bs) (bb ++ [tmpName s1.hyb]) true).1)
        (mkSeq bs) (bb ++ [tmpName s1.hyb]) true
        (fun x => by cnt_side) (fun x => by simp [List.count_append])
      refine a1.chk [] _ (.seqn [(chk st (forInit v x0) []).1,
        .repeat_ (condIL env.cfg cc) (chk s3 (mkSeq bs) (bb ++ [tmpName s1.hyb]) true).1]) [] false
        (fun x => ?_) (fun x => ?_)
      · cnt_side
      · cnt_side
  | .for_ v cond (k+1) body, st, st', eff, b, hv, hd, h => by
      obtain ⟨x0, cc, s1, stepEff, stepSrc, bs, bb, s3, _, h1, h2, h3, rfl, _, rfl⟩ := invS_forK (Nat.succ_ne_zero k) h
      simp only [stmtNames, List.mem_cons, List.mem_append] at hv
      simp only [noConstTernS, Bool.and_eq_true] at hd
      have hn : isHTmp v = false := hv v (Or.inl rfl)
      have hs := compileAssign_sets h2 (by simpa [exprNames] using hn)
      have a0 := (Acc.refl eq st).chk [] (setTmps (chk st (forInit v x0) []).1) (forInit v x0) [] false
        (fun x => by simp [forInit, setTmps_setl_of _ hn]) (fun x => by simp)
      have hC := exprAcc eq env (fun n hn => hv n (Or.inr (Or.inl hn))) (hd.imp id And.left) h1
      have hB := compileStmtsH_acc body (fun n hn => hv n (Or.inr (Or.inr hn))) (hd.imp id And.right) h3
      have a1 := ((a0.trans hC).trans hB).chk (setTmps (chk st (forInit v x0) []).1)
        (setTmps (chk st (forInit v x0) []).1 ++ setTmps (chk s3 (mkSeq (bs ++ [stepEff])) bb true).1)
        (mkSeq (bs ++ [stepEff])) bb true
        (fun x => by simp only [setTmps_mkSeq, setTmpsL_append, setTmpsL, hs]; cnt_side)
        (fun x => by simp [List.count_append])
      refine a1.chk [] _ (.seqn [(chk st (forInit v x0) []).1,
        .repeat_ (condIL env.cfg cc) (chk s3 (mkSeq (bs ++ [stepEff])) bb true).1]) [] false
        (fun x => ?_) (fun x => ?_)
      · cnt_side
      · cnt_side
  | .jump e, st, st', eff, b, hv, hd, h => by
      obtain ⟨c1, s1, ta, h1, rfl, _, rfl⟩ := invS_jump h
      have hE := exprAcc eq env (by simpa [stmtNames] using hv) (by simpa [noConstTernS] using hd) h1
      have hj1 : isHTmp "jump_flag" = false := by rw [isHTmp_eq]; decide
      have hj2 : isHTmp "jump_target" = false := by rw [isHTmp_eq]; decide
      refine hE.chk [] _ _ _ _ (fun x => ?_) (fun x => ?_)
      · simp [setTmps, setTmpsL, hj1, hj2]
      · cnt_side
  | .exprstmt e, st, st', eff, b, hv, hd, h => by
      obtain ⟨c1, h1, rfl, _⟩ := invS_exprstmt h
      exact exprAcc eq env (by simpa [stmtNames] using hv) (by simpa [noConstTernS] using hd) h1
  | .ret e, st, st', eff, b, hv, hd, h => by
      obtain ⟨c1, src, h1, rfl, _⟩ := invS_ret h
      have hr : isHTmp "ret_val" = false := by rw [isHTmp_eq]; decide
      refine (exprAcc eq env (by simpa [stmtNames] using hv) (by simpa [noConstTernS] using hd) h1).congr ?_
      intro x; simp [effL, setTmpsL, setTmps, hr]
  | .vcall name exts args params, st, st', eff, b, hv, hd, h => by
      obtain ⟨cargs, h1, rfl, _⟩ := invS_vcall h
      have hA : Acc eq st [] st' := Acc.of_cnt (compileArgsH_rel (cntRelE eq) env args params
        (by simpa [stmtNames] using hv) (by simpa [noConstTernS] using hd) h1)
      refine hA.congr ?_
      intro x; simp [effL, setTmpsL, setTmps, vcallEffect]
  | .skip w, st, st', eff, b, _, _, h => by
      obtain ⟨⟨x, rfl, hx⟩, _, rfl⟩ := invS_skip h
      refine (Acc.refl eq _).congr ?_
      intro y; simp [effL, setTmpsL, hx]
theorem compileStmtsH_acc : (ss : List CStmt) → {st st' : HSt} → {es : List ILEffect} → {b : List String} →
    (∀ n ∈ stmtsNames ss, isHTmp n = false) → (eq = false ∨ noConstTernSs ss = true) →
    compileStmtsH env st ss = .ok (es, b, st') → Acc eq st (setTmpsL es) st'
  | [], st, st', es, b, _, _, h => by
      obtain ⟨rfl, _, rfl⟩ := invS_nil h
      exact Acc.refl eq _
  | s :: ss, st, st', es, b, hv, hd, h => by
      obtain ⟨e, b1, s1, es', b2, h1, h2, rfl, _⟩ := invS_cons h
      simp only [stmtsNames, List.mem_append] at hv
      simp only [noConstTernSs, Bool.and_eq_true] at hd
      have a1 := compileStmtH_acc s (fun n hn => hv n (Or.inl hn)) (hd.imp id And.left) h1
      have a2 := compileStmtsH_acc ss (fun n hn => hv n (Or.inr hn)) (hd.imp id And.right) h2
      refine (a1.trans a2).congr ?_
      intro x
      cases e <;> simp [effL, setTmpsL]
end

end

end C06
end Rzil
