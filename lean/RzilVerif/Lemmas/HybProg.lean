import RzilVerif.Lemmas.HybStmt
import RzilVerif.Lemmas.HybHyb
/-!
  C06 helpers, part 9: the whole behaviour (`compileProgH`): counting of `SETL h_tmpN` in the emitted tree.
-/
namespace Rzil
namespace C06
open C05 (bind_ok bind_ok_of)

theorem length_le_of_count_le : ∀ (l m : List String), (∀ x, l.count x ≤ m.count x) → l.length ≤ m.length
  | [], m, _ => Nat.zero_le _
  | a :: l, m, h => by
    have ha : a ∈ m := by
      have := h a
      simp only [List.count_cons_self] at this
      exact List.count_pos_iff.mp (by omega)
    have ih := length_le_of_count_le l (m.erase a) (fun x => by
      have := h x
      rw [List.count_erase]
      simp only [List.count_cons] at this
      split <;> simp_all <;> omega)
    rw [List.length_erase_of_mem ha] at ih
    have : 0 < m.length := List.length_pos_of_mem ha
    simp only [List.length_cons]; omega

def initSt (hyb0 : Nat) : HSt := { imms := [], live := [], hyb := hyb0, pending := [] }

def progEnv (cfg : Cfg) (prog : List CStmt) : CEnv := { assigned := assignedOfList prog, cfg := cfg }

theorem compileProgH_inv {cfg : Cfg} {prog : List CStmt} {hyb0 : Nat} {eff : ILEffect}
    (h : compileProgH cfg prog hyb0 = .ok eff) :
    ∃ es b st, compileStmtsH (progEnv cfg prog) (initSt hyb0) prog = .ok (es, b, st) ∧
      eff = mkSeq (st.imms.map immSetEffect ++ st.pending.map Pend.render ++ es) := by
  simp only [compileProgH] at h
  obtain ⟨⟨es, b, st⟩, h1, h⟩ := bind_ok h
  simp only [Except.ok.injEq] at h
  exact ⟨es, b, st, h1, h.symm⟩

theorem pendOK_init (hyb0 : Nat) : PendOK (initSt hyb0) := by
  simp [PendOK, initSt, tmpsOf]

theorem setTmpsL_imms (imms : List (String × Bool)) (h : ∀ x ∈ imms, isHTmp x.1 = false) :
    setTmpsL (imms.map immSetEffect) = [] := by
  induction imms with
  | nil => rfl
  | cons x xs ih =>
    simp only [List.map_cons, setTmpsL, immSetEffect, setTmps, h x (by simp), Bool.false_eq_true, ↓reduceIte,
      List.nil_append]
    exact ih (fun y hy => h y (List.mem_cons_of_mem _ hy))

/-- The counting statement for the whole behaviour, in both modes. -/
theorem compileProgH_count (eq : Bool) {cfg : Cfg} {prog : List CStmt} {hyb0 : Nat} {eff : ILEffect}
    (hn : namesOK prog = true) (hd : eq = false ∨ noConstTernSs prog = true)
    (h : compileProgH cfg prog hyb0 = .ok eff) (x : String) :
    R eq ((setTmps eff).count x) ((freshNames hyb0 (hyb0 + hybCountSs prog)).count x) := by
  obtain ⟨es, b, st, h1, rfl⟩ := compileProgH_inv h
  have hv : ∀ n ∈ stmtsNames prog, isHTmp n = false := by
    intro n hn'
    have := List.all_eq_true.mp hn n hn'
    simpa using this
  have hacc := compileStmtsH_acc eq (progEnv cfg prog) prog hv hd h1
  obtain ⟨_, _, hc⟩ := hacc (fun _ => pendOK_init hyb0)
  have himm : ∀ y ∈ st.imms, isHTmp y.1 = false :=
    compileStmtsH_rel immRel (progEnv cfg prog) prog hv (Or.inl trivial) h1 (by simp [initSt])
  have hh := compileStmtsH_hyb (progEnv cfg prog) prog h1
  have hcx := hc x
  simp only [initSt, pendSets, List.count_nil, Nat.zero_add] at hcx hh
  rw [hh] at hcx
  simp only [setTmps_mkSeq, setTmpsL_append, setTmpsL_imms _ himm, List.nil_append, List.count_append,
    count_renders, ← count_pendSets]
  cases eq <;> simp only [R_false, R_true] at hcx ⊢ <;> omega

end C06
end Rzil
