import RzilVerif.Lemmas.HybSets
/-!
  C06 helpers, part 11: where `chk` puts the popped entries (shape and flattened order), and that every
  pending temporary the consumer reads is set in that prefix.
-/
namespace Rzil
namespace C06
open C05 (bind_ok bind_ok_of)

theorem flatEs_append (xs ys : List ILEffect) : flatEs (xs ++ ys) = flatEs xs ++ flatEs ys := by
  induction xs with
  | nil => simp [flatEs]
  | cons x xs ih => simp [flatEs, ih]

theorem flatEs_filter (es : List ILEffect) : flatEs (es.filter C05.notEmpty) = flatEs es := by
  induction es with
  | nil => rfl
  | cons e es ih => cases e <;> simp [List.filter, C05.notEmpty, flatEs, flatE, ih]

theorem flatE_mkSeq (es : List ILEffect) : flatE (mkSeq es) = flatEs es := by
  rw [C05.mkSeq_eq, ← flatEs_filter es]
  generalize es.filter C05.notEmpty = l
  match l with
  | [] => simp [flatE, flatEs]
  | [e] => simp [flatEs]
  | e1 :: e2 :: l => simp [flatE]

/-- a rendered entry, flattened: the pulled-in dependencies first, then set-then-exec (postfix) or exec-then-set -/
theorem flatE_render (p : Pend) :
    flatE p.render = flatEs p.deps ++
      (if p.setFirst then flatE p.setTmp ++ flatE p.exec else flatE p.exec ++ flatE p.setTmp) := by
  unfold Pend.render
  rw [flatE_mkSeq, flatEs_append]
  cases p.setFirst <;> simp [flatEs, flatE]

theorem flatEs_map_render (ps : List Pend) :
    flatEs (ps.map Pend.render) = ps.flatMap (fun p => flatE p.render) := by
  induction ps with
  | nil => rfl
  | cons p ps ih => simp [flatEs, ih]

/-- the popped entries of a `chk` call -/
def chkPopped (st : HSt) (e : ILEffect) (bare : List String) : List Pend :=
  (popPending st.pending (bare ++ tmpsOfEffect e)).1

/-- (4) shape: nothing popped → unchanged; else the rendered entries in front of `e` (after it for a loop step) -/
theorem chk_shape (st : HSt) (e : ILEffect) (bare : List String) (after : Bool) :
    (chkPopped st e bare = [] ∧ chk st e bare after = (e, st)) ∨
    (chkPopped st e bare ≠ [] ∧
      (chk st e bare after).1 = (if after then .seqn (e :: (chkPopped st e bare).map Pend.render)
                                 else .seqn ((chkPopped st e bare).map Pend.render ++ [e])) ∧
      (chk st e bare after).2 = { st with pending := (popPending st.pending (bare ++ tmpsOfEffect e)).2 }) := by
  rw [chk_eq]
  unfold chkPopped
  cases h : (popPending st.pending (bare ++ tmpsOfEffect e)).1 with
  | nil => left; simp
  | cons p ps => right; simp

/-- (4) flattened: the popped entries' members, then `e`'s members, and nothing else (`after = false`) -/
theorem chk_flat_before (st : HSt) (e : ILEffect) (bare : List String) :
    flatE (chk st e bare false).1 = (chkPopped st e bare).flatMap (fun p => flatE p.render) ++ flatE e := by
  rcases chk_shape st e bare false with ⟨h1, h2⟩ | ⟨_, h2, _⟩
  · rw [h2, h1]; simp
  · rw [h2]; simp [flatE, flatEs_append, flatEs_map_render, flatEs]

/-- (4) the loop-step case puts them after the body -/
theorem chk_flat_after (st : HSt) (e : ILEffect) (bare : List String) :
    flatE (chk st e bare true).1 = flatE e ++ (chkPopped st e bare).flatMap (fun p => flatE p.render) := by
  rcases chk_shape st e bare true with ⟨h1, h2⟩ | ⟨_, h2, _⟩
  · rw [h2, h1]; simp
  · rw [h2]; simp [flatE, flatEs, flatEs_map_render]

/-- an entry of the right shape: its `SETL(tmp, …)` is a member of its rendering -/
theorem setTmp_mem_render {p : Pend} (hp : shapeOK p) : p.setTmp ∈ flatE p.render := by
  obtain ⟨⟨v, hv⟩, _⟩ := hp
  rw [flatE_render]
  have : flatE p.setTmp = [p.setTmp] := by rw [hv]; rfl
  cases p.setFirst <;> simp [this]

theorem tmp_mem_setTmps_render {p : Pend} (hp : shapeOK p) : p.tmp ∈ setTmps p.render := by
  obtain ⟨⟨v, hv⟩, ht⟩ := hp
  apply List.count_pos_iff.mp
  rw [count_render]
  simp only [Pend.sets, List.count_append, hv, setTmps, ht, ↓reduceIte, List.count_cons_self]
  omega

theorem mem_setTmpsL_of_mem {e : ILEffect} {es : List ILEffect} {t : String} (he : e ∈ es)
    (ht : t ∈ setTmps e) : t ∈ setTmpsL es := by
  induction es with
  | nil => cases he
  | cons x xs ih =>
    simp only [setTmpsL, List.mem_append]
    rcases List.mem_cons.mp he with rfl | h
    · exact Or.inl ht
    · exact Or.inr (ih h)

/-- (4) written before read at the consumer: every pending temporary named among the consumer's leaves
    (or carried by a bare expression statement) is set by the entries `chk` pulls out. -/
theorem chk_sets_what_is_read (st : HSt) (e : ILEffect) (bare : List String)
    (hs : ∀ p ∈ st.pending, shapeOK p) {t : String} (ht : t ∈ bare ++ tmpsOfEffect e)
    (hp : ∃ p ∈ st.pending, p.tmp = t) :
    t ∈ setTmpsL ((chkPopped st e bare).map Pend.render) := by
  obtain ⟨p, hp, rfl⟩ := hp
  obtain ⟨h1, _, _, h4, _⟩ := popPending_spec st.pending (bare ++ tmpsOfEffect e)
  obtain ⟨y, hy, hyt⟩ := h4 p hp ht
  have hyok := hs y (h1 y hy).1
  rw [← hyt]
  exact mem_setTmpsL_of_mem (List.mem_map_of_mem hy) (tmp_mem_setTmps_render hyok)

/-- (4) afterwards no pending entry is named among the consumer's leaves any more -/
theorem chk_rest_unread (st : HSt) (e : ILEffect) (bare : List String) (after : Bool) :
    ∀ p ∈ (chk st e bare after).2.pending, p.tmp ∉ bare ++ tmpsOfEffect e := by
  obtain ⟨_, _, h3, _, h5, _⟩ := popPending_spec st.pending (bare ++ tmpsOfEffect e)
  rcases chk_shape st e bare after with ⟨h1, h2⟩ | ⟨_, _, h2⟩
  · rw [h2]
    intro p hp hm
    obtain ⟨_, _, _, h4, _⟩ := popPending_spec st.pending (bare ++ tmpsOfEffect e)
    obtain ⟨y, hy, _⟩ := h4 p hp hm
    unfold chkPopped at h1
    rw [h1] at hy; cases hy
  · rw [h2]; exact h3

end C06
end Rzil
