import RzilVerif.Model.Compile
/-!
  Helper lemmas for C05 (statement lowering preserves C semantics).
  Part 1: fuel monotonicity of `execIL`/`execSeq` and `execC`/`execCs`/`loopC`, "eventually" predicates.
-/
namespace Rzil
namespace C05

/-! ## Except helpers -/

theorem bind_ok {ε α β : Type} {x : Except ε α} {f : α → Except ε β} {b : β}
    (h : (x >>= f) = .ok b) : ∃ a, x = .ok a ∧ f a = .ok b := by
  cases x with
  | error e => simp [bind, Except.bind] at h
  | ok a => exact ⟨a, rfl, h⟩

theorem bind_ok_of {ε α β : Type} {x : Except ε α} {f : α → Except ε β} {a : α} {b : β}
    (h1 : x = .ok a) (h2 : f a = .ok b) : (x >>= f) = .ok b := by
  subst h1; exact h2

/-! ## fuel monotonicity: IL side -/

theorem execIL_mono_aux (ms : MacroSem) (subs : SubEnv) (f : Nat) :
    (∀ e σ σ', execIL ms subs f e σ = .ok σ' → execIL ms subs (f+1) e σ = .ok σ') ∧
    (∀ es σ σ', execSeq ms subs f es σ = .ok σ' → execSeq ms subs (f+1) es σ = .ok σ') := by
  induction f with
  | zero =>
    constructor
    · intro e σ σ' h; simp [execIL] at h
    · intro es σ σ' h; simp [execSeq] at h
  | succ f ih =>
    obtain ⟨ihE, ihS⟩ := ih
    constructor
    · intro e σ σ' h
      cases e with
      | setl n v => simpa [execIL] using h
      | writeReg c r v => simpa [execIL] using h
      | storew a v => simpa [execIL] using h
      | seqn es =>
        rw [execIL] at h ⊢
        exact ihS _ _ _ h
      | branch c t e =>
        rw [execIL] at h ⊢
        obtain ⟨vc, hvc, h⟩ := bind_ok h
        refine bind_ok_of hvc ?_
        split at h
        · exact ihE _ _ _ h
        · exact ihE _ _ _ h
        · simp at h
      | repeat_ c body =>
        rw [execIL] at h ⊢
        obtain ⟨vc, hvc, h⟩ := bind_ok h
        refine bind_ok_of hvc ?_
        split at h
        · obtain ⟨σ1, h1, h2⟩ := bind_ok h
          exact bind_ok_of (ihE _ _ _ h1) (ihE _ _ _ h2)
        · exact h
        · simp at h
      | empty => simpa [execIL] using h
      | nop => simpa [execIL] using h
      | call fn args =>
        rw [execIL] at h ⊢
        obtain ⟨vs, hvs, h⟩ := bind_ok h
        refine bind_ok_of hvs ?_
        by_cases hs : fn.startsWith "hex_" = true
        · rw [if_pos hs] at h ⊢
          cases hl : lookupS (fn.drop 4).toString subs with
          | none => rw [hl] at h; exact h     -- specification-level routines: no fuel involved
          | some pb =>
            obtain ⟨ps, body⟩ := pb
            rw [hl] at h
            simp only at h ⊢
            obtain ⟨σ1, h1, h2⟩ := bind_ok h
            exact bind_ok_of (ihE _ _ _ h1) h2
        · rw [if_neg hs] at h ⊢; exact h
    · intro es σ σ' h
      cases es with
      | nil => simpa [execSeq] using h
      | cons e es =>
        rw [execSeq] at h ⊢
        obtain ⟨σ1, h1, h2⟩ := bind_ok h
        exact bind_ok_of (ihE _ _ _ h1) (ihS _ _ _ h2)

theorem execIL_mono {ms : MacroSem} {subs : SubEnv} {f : Nat} {e : ILEffect} {σ σ' : MState}
    (h : execIL ms subs f e σ = .ok σ') : ∀ f' ≥ f, execIL ms subs f' e σ = .ok σ' := by
  intro f' hf
  induction hf with
  | refl => exact h
  | step _ ih => exact (execIL_mono_aux ms subs _).1 _ _ _ ih

theorem execSeq_mono {ms : MacroSem} {subs : SubEnv} {f : Nat} {es : List ILEffect} {σ σ' : MState}
    (h : execSeq ms subs f es σ = .ok σ') : ∀ f' ≥ f, execSeq ms subs f' es σ = .ok σ' := by
  intro f' hf
  induction hf with
  | refl => exact h
  | step _ ih => exact (execIL_mono_aux ms subs _).2 _ _ _ ih

/-! ## fuel monotonicity: C side -/

theorem execC_mono_aux (ms : MacroSem) (f : Nat) :
    (∀ s σ σ', execC ms f s σ = .ok σ' → execC ms (f+1) s σ = .ok σ') ∧
    (∀ ss σ σ', execCs ms f ss σ = .ok σ' → execCs ms (f+1) ss σ = .ok σ') ∧
    (∀ v c k b σ σ', loopC ms f v c k b σ = .ok σ' → loopC ms (f+1) v c k b σ = .ok σ') := by
  induction f with
  | zero =>
    refine ⟨?_, ?_, ?_⟩
    · intro s σ σ' h; simp [execC] at h
    · intro ss σ σ' h; simp [execCs] at h
    · intro v c k b σ σ' h; simp [loopC] at h
  | succ f ih =>
    obtain ⟨ihE, ihS, ihL⟩ := ih
    refine ⟨?_, ?_, ?_⟩
    · intro s σ σ' h
      cases s with
      | decl t n init =>
        cases init with
        | none => simpa [execC] using h
        | some e => simpa [execC] using h
      | assign lhs op e => simp only [execC] at h ⊢; exact h
      | store w e => simp only [execC] at h ⊢; exact h
      | ite c t e =>
        simp only [execC] at h ⊢
        obtain ⟨vc, hvc, h⟩ := bind_ok h
        refine bind_ok_of hvc ?_
        obtain ⟨b, hb, h⟩ := bind_ok h
        refine bind_ok_of hb ?_
        cases b with
        | true => simp only [↓reduceIte] at h ⊢; exact ihS _ _ _ h
        | false =>
          simp only [Bool.false_eq_true, ↓reduceIte] at h ⊢
          cases e with
          | none => exact h
          | some e => exact ihS _ _ _ h
      | for_ v c k b =>
        simp only [execC] at h ⊢
        exact ihL _ _ _ _ _ _ h
      | chain l1 l2 op2 e =>
        simp only [execC] at h ⊢
        obtain ⟨σ1, h1, h2⟩ := bind_ok h
        exact bind_ok_of (ihE _ _ _ h1) (ihE _ _ _ h2)
      | jump e => simp only [execC] at h ⊢; exact h
      | skip w => simp only [execC] at h ⊢; exact h
      | exprstmt e => simp only [execC] at h ⊢; exact h
      | ret e => simp [execC] at h
      | vcall n x a p => simp [execC] at h
    · intro ss σ σ' h
      cases ss with
      | nil => simpa [execCs] using h
      | cons s ss =>
        rw [execCs] at h ⊢
        obtain ⟨σ1, h1, h2⟩ := bind_ok h
        exact bind_ok_of (ihE _ _ _ h1) (ihS _ _ _ h2)
    · intro v c k b σ σ' h
      rw [loopC] at h ⊢
      obtain ⟨vc, hvc, h⟩ := bind_ok h
      refine bind_ok_of hvc ?_
      obtain ⟨bb, hb, h⟩ := bind_ok h
      refine bind_ok_of hb ?_
      cases bb with
      | false => exact h
      | true =>
        simp only [↓reduceIte] at h ⊢
        obtain ⟨σ1, h1, h2⟩ := bind_ok h
        refine bind_ok_of (ihS _ _ _ h1) ?_
        split at h2
        · rename_i w x hx
          exact ihL _ _ _ _ _ _ h2
        · simp at h2

theorem execC_mono {ms : MacroSem} {f : Nat} {s : CStmt} {σ σ' : MState}
    (h : execC ms f s σ = .ok σ') : ∀ f' ≥ f, execC ms f' s σ = .ok σ' := by
  intro f' hf
  induction hf with
  | refl => exact h
  | step _ ih => exact (execC_mono_aux ms _).1 _ _ _ ih

theorem execCs_mono {ms : MacroSem} {f : Nat} {ss : List CStmt} {σ σ' : MState}
    (h : execCs ms f ss σ = .ok σ') : ∀ f' ≥ f, execCs ms f' ss σ = .ok σ' := by
  intro f' hf
  induction hf with
  | refl => exact h
  | step _ ih => exact (execC_mono_aux ms _).2.1 _ _ _ ih

theorem loopC_mono {ms : MacroSem} {f : Nat} {v : String} {c : CExpr} {k : Nat} {b : List CStmt} {σ σ' : MState}
    (h : loopC ms f v c k b σ = .ok σ') : ∀ f' ≥ f, loopC ms f' v c k b σ = .ok σ' := by
  intro f' hf
  induction hf with
  | refl => exact h
  | step _ ih => exact (execC_mono_aux ms _).2.2 _ _ _ _ _ _ ih

/-! ## "eventually" predicates -/

/-- the effect runs from `σ` to `σ'` for every fuel large enough (no sub-routine environment) -/
def ExecIL (ms : MacroSem) (e : ILEffect) (σ σ' : MState) : Prop :=
  ∃ F, ∀ f ≥ F, execIL ms [] f e σ = .ok σ'
def ExecSeqIL (ms : MacroSem) (es : List ILEffect) (σ σ' : MState) : Prop :=
  ∃ F, ∀ f ≥ F, execSeq ms [] f es σ = .ok σ'
def ExecC (ms : MacroSem) (s : CStmt) (σ σ' : MState) : Prop :=
  ∃ F, ∀ f ≥ F, execC ms f s σ = .ok σ'
def ExecCs (ms : MacroSem) (ss : List CStmt) (σ σ' : MState) : Prop :=
  ∃ F, ∀ f ≥ F, execCs ms f ss σ = .ok σ'
def LoopC (ms : MacroSem) (v : String) (c : CExpr) (k : Nat) (b : List CStmt) (σ σ' : MState) : Prop :=
  ∃ F, ∀ f ≥ F, loopC ms f v c k b σ = .ok σ'

theorem ExecIL_iff {ms e σ σ'} : ExecIL ms e σ σ' ↔ ∃ f, execIL ms [] f e σ = .ok σ' :=
  ⟨fun ⟨F, h⟩ => ⟨F, h F (Nat.le_refl _)⟩, fun ⟨f, h⟩ => ⟨f, execIL_mono h⟩⟩
theorem ExecSeqIL_iff {ms es σ σ'} : ExecSeqIL ms es σ σ' ↔ ∃ f, execSeq ms [] f es σ = .ok σ' :=
  ⟨fun ⟨F, h⟩ => ⟨F, h F (Nat.le_refl _)⟩, fun ⟨f, h⟩ => ⟨f, execSeq_mono h⟩⟩
theorem ExecC_iff {ms s σ σ'} : ExecC ms s σ σ' ↔ ∃ f, execC ms f s σ = .ok σ' :=
  ⟨fun ⟨F, h⟩ => ⟨F, h F (Nat.le_refl _)⟩, fun ⟨f, h⟩ => ⟨f, execC_mono h⟩⟩
theorem ExecCs_iff {ms ss σ σ'} : ExecCs ms ss σ σ' ↔ ∃ f, execCs ms f ss σ = .ok σ' :=
  ⟨fun ⟨F, h⟩ => ⟨F, h F (Nat.le_refl _)⟩, fun ⟨f, h⟩ => ⟨f, execCs_mono h⟩⟩
theorem LoopC_iff {ms v c k b σ σ'} : LoopC ms v c k b σ σ' ↔ ∃ f, loopC ms f v c k b σ = .ok σ' :=
  ⟨fun ⟨F, h⟩ => ⟨F, h F (Nat.le_refl _)⟩, fun ⟨f, h⟩ => ⟨f, loopC_mono h⟩⟩

/-- the IL semantics is deterministic (a function of the fuel), so "eventually" results are unique -/
theorem ExecIL_det {ms e σ σ1 σ2} (h1 : ExecIL ms e σ σ1) (h2 : ExecIL ms e σ σ2) : σ1 = σ2 := by
  obtain ⟨F1, h1⟩ := h1; obtain ⟨F2, h2⟩ := h2
  have a := h1 (max F1 F2) (Nat.le_max_left _ _)
  have b := h2 (max F1 F2) (Nat.le_max_right _ _)
  rw [a] at b; exact Except.ok.inj b

/-! ### composition rules for the IL side -/

theorem ExecIL_of_step {ms e σ σ'} (h : ∀ f, execIL ms [] (f+1) e σ = .ok σ') : ExecIL ms e σ σ' :=
  ⟨1, fun f hf => by obtain ⟨k, rfl⟩ := Nat.exists_eq_add_of_le' hf; exact h k⟩

theorem ExecIL_empty {ms σ} : ExecIL ms .empty σ σ := ExecIL_of_step (fun _ => rfl)
theorem ExecIL_nop {ms σ} : ExecIL ms .nop σ σ := ExecIL_of_step (fun _ => rfl)

theorem ExecIL_setl {ms σ n v vv} (h : evalPure ms σ [] v = .ok vv) :
    ExecIL ms (.setl n v) σ { σ with locals := setLocal σ.locals n vv } :=
  ExecIL_of_step (fun _ => by rw [execIL]; exact bind_ok_of h rfl)

theorem ExecSeqIL_nil {ms σ} : ExecSeqIL ms [] σ σ :=
  ⟨1, fun f hf => by obtain ⟨k, rfl⟩ := Nat.exists_eq_add_of_le' hf; rfl⟩

theorem ExecSeqIL_cons {ms e es σ σ1 σ2} (h1 : ExecIL ms e σ σ1) (h2 : ExecSeqIL ms es σ1 σ2) :
    ExecSeqIL ms (e :: es) σ σ2 := by
  obtain ⟨F1, h1⟩ := h1; obtain ⟨F2, h2⟩ := h2
  refine ⟨max F1 F2 + 1, fun f hf => ?_⟩
  obtain ⟨k, rfl⟩ := Nat.exists_eq_add_of_le' (Nat.le_trans (Nat.le_add_left 1 _) hf)
  rw [execSeq]
  exact bind_ok_of (h1 k (by omega)) (h2 k (by omega))

theorem ExecSeqIL_cons_inv {ms e es σ σ2} (h : ExecSeqIL ms (e :: es) σ σ2) :
    ∃ σ1, ExecIL ms e σ σ1 ∧ ExecSeqIL ms es σ1 σ2 := by
  obtain ⟨F, h⟩ := h
  have h' := h (F+1) (by omega)
  rw [execSeq] at h'
  obtain ⟨σ1, a, b⟩ := bind_ok h'
  exact ⟨σ1, ⟨F, execIL_mono a⟩, ⟨F, execSeq_mono b⟩⟩

theorem ExecSeqIL_nil_inv {ms σ σ'} (h : ExecSeqIL ms [] σ σ') : σ' = σ := by
  obtain ⟨F, h⟩ := h
  have h' := h (F+1) (by omega)
  rw [execSeq] at h'
  exact (Except.ok.inj h').symm

theorem ExecSeqIL_append {ms es1 es2 σ σ1 σ2} (h1 : ExecSeqIL ms es1 σ σ1) (h2 : ExecSeqIL ms es2 σ1 σ2) :
    ExecSeqIL ms (es1 ++ es2) σ σ2 := by
  induction es1 generalizing σ with
  | nil => rw [ExecSeqIL_nil_inv h1] at h2; exact h2
  | cons e es ih =>
    obtain ⟨σm, a, b⟩ := ExecSeqIL_cons_inv h1
    exact ExecSeqIL_cons a (ih b)

theorem ExecIL_seqn {ms es σ σ'} : ExecIL ms (.seqn es) σ σ' ↔ ExecSeqIL ms es σ σ' := by
  constructor
  · rintro ⟨F, h⟩
    refine ⟨F, fun f hf => ?_⟩
    have := h (f+1) (by omega)
    rw [execIL] at this; exact this
  · rintro ⟨F, h⟩
    refine ⟨F+1, fun f hf => ?_⟩
    obtain ⟨k, rfl⟩ := Nat.exists_eq_add_of_le' (Nat.le_trans (Nat.le_add_left 1 _) hf)
    rw [execIL]; exact h k (by omega)

theorem ExecIL_branch {ms c t e σ σ'} {b : Bool} (hc : evalPure ms σ [] c = .ok (.bool b))
    (h : ExecIL ms (if b then t else e) σ σ') : ExecIL ms (.branch c t e) σ σ' := by
  obtain ⟨F, h⟩ := h
  refine ⟨F+1, fun f hf => ?_⟩
  obtain ⟨k, rfl⟩ := Nat.exists_eq_add_of_le' (Nat.le_trans (Nat.le_add_left 1 _) hf)
  rw [execIL]
  refine bind_ok_of hc ?_
  cases b with
  | true => exact h k (by omega)
  | false => exact h k (by omega)

theorem ExecIL_repeat_false {ms c body σ} (hc : evalPure ms σ [] c = .ok (.bool false)) :
    ExecIL ms (.repeat_ c body) σ σ :=
  ExecIL_of_step (fun _ => by rw [execIL]; exact bind_ok_of hc rfl)

theorem ExecIL_repeat_true {ms c body σ σ1 σ2} (hc : evalPure ms σ [] c = .ok (.bool true))
    (h1 : ExecIL ms body σ σ1) (h2 : ExecIL ms (.repeat_ c body) σ1 σ2) :
    ExecIL ms (.repeat_ c body) σ σ2 := by
  obtain ⟨F1, h1⟩ := h1; obtain ⟨F2, h2⟩ := h2
  refine ⟨max F1 F2 + 1, fun f hf => ?_⟩
  obtain ⟨k, rfl⟩ := Nat.exists_eq_add_of_le' (Nat.le_trans (Nat.le_add_left 1 _) hf)
  rw [execIL]
  refine bind_ok_of hc ?_
  exact bind_ok_of (h1 k (by omega)) (h2 k (by omega))

/-! ### `mkSeq` -/

def notEmpty : ILEffect → Bool
  | .empty => false
  | _ => true

theorem mkSeq_eq (es : List ILEffect) :
    mkSeq es = match es.filter notEmpty with
      | [] => .empty
      | [e] => e
      | es' => .seqn es' := by
  unfold mkSeq
  rw [List.filter_congr (q := notEmpty) (fun e _ => by cases e <;> rfl)]
  rfl

theorem ExecSeqIL_filter {ms es σ σ'} : ExecSeqIL ms (es.filter notEmpty) σ σ' ↔ ExecSeqIL ms es σ σ' := by
  induction es generalizing σ with
  | nil => simp
  | cons e es ih =>
    cases e with
    | empty =>
      simp only [List.filter, notEmpty]
      rw [ih]
      constructor
      · intro h; exact ExecSeqIL_cons ExecIL_empty h
      · intro h
        obtain ⟨σ1, a, b⟩ := ExecSeqIL_cons_inv h
        rw [ExecIL_det a ExecIL_empty] at b; exact b
    | _ =>
      simp only [List.filter, notEmpty]
      constructor
      · intro h
        obtain ⟨σ1, a, b⟩ := ExecSeqIL_cons_inv h
        exact ExecSeqIL_cons a (ih.1 b)
      · intro h
        obtain ⟨σ1, a, b⟩ := ExecSeqIL_cons_inv h
        exact ExecSeqIL_cons a (ih.2 b)

/-- `mkSeq_exec`: running `mkSeq es` is running the members of `es` in order
    (EMPTY members dropped, a single remaining member unwrapped), for every fuel large enough. -/
theorem mkSeq_exec {ms es σ σ'} : ExecIL ms (mkSeq es) σ σ' ↔ ExecSeqIL ms es σ σ' := by
  rw [← ExecSeqIL_filter, mkSeq_eq]
  generalize es.filter notEmpty = l
  match l with
  | [] =>
    simp only
    constructor
    · intro h; rw [ExecIL_det h ExecIL_empty]; exact ExecSeqIL_nil
    · intro h; rw [ExecSeqIL_nil_inv h]; exact ExecIL_empty
  | [e] =>
    simp only
    constructor
    · intro h; exact ExecSeqIL_cons h ExecSeqIL_nil
    · intro h
      obtain ⟨σ1, a, b⟩ := ExecSeqIL_cons_inv h
      rw [ExecSeqIL_nil_inv b]; exact a
  | e1 :: e2 :: l' => exact ExecIL_seqn

end C05
end Rzil
