import RzilVerif.Lemmas.LayoutPerm
/-!
# What `wfBodyProblems ctx b = []` (check C11) implies

* `wfStep` / `wfBodyProblems_eq`: the checker as a named fold;
* `WfFrom pre D items`: the recursive reading of "declared once, before use, one final return";
* `wfFrom_of_fold`: an empty problem list gives `WfFrom`;
* bridges `Term.mentions` ↔ `Term.uses`, `eraseDup`/`subst` and `mentions`;
* `closed_aux`: the environment built by `buildEnvIL` from a `WfFrom` list has closed values.
-/
namespace Rzil

def Item.isComment : Item → Bool
  | .comment _ => true
  | _ => false

/-- The comment-free item list the checker folds over. -/
def noComments (items : List Item) : List Item :=
  items.filter (fun i => match i with | .comment _ => false | _ => true)

/-- The names available without declaration: the parameters of a sub-routine, else `ctx.given`. -/
def bodyPre (ctx : BodyCtx) (b : Body) : List String :=
  match b.header with
  | some (_, ps) => ps.map Param.name
  | none => ctx.given

/-- One step of the fold of `wfBodyProblems` (same text). -/
def wfStep (ctx : BodyCtx) (pre : List String) (acc : List String × List String × Bool) (it : Item) :
    List String × List String × Bool :=
  let (declared, probs, seenRet) := acc
  let probs := if seenRet then probs ++ ["statement after the final return"] else probs
  match it with
  | .comment _ => (declared, probs, seenRet)
  | .ret t =>
      let bad := t.uses.filter (fun (x, _) => !(declared.contains x || pre.contains x || isPluginConst x))
      let badH := t.heads.filter (fun f => !(ilHeads.contains f || ctx.callees.contains f))
      (declared, probs ++ bad.map (fun (x, _) => s!"identifier {x} used in return but not declared") ++
         badH.map (fun f => s!"unknown function {f}"), true)
  | .decl ty name rhs =>
      let p1 := if declared.contains name || pre.contains name then [s!"{name} declared twice"] else []
      let p2 := if cKeywords.contains name then [s!"{name} is a C keyword"] else []
      let p3 := if knownDeclTypes.contains ty then [] else [s!"declaration of {name} with unexpected type '{ty}'"]
      let bad := rhs.uses.filter (fun (x, _) => !(declared.contains x || pre.contains x || isPluginConst x))
      let p4 := bad.map (fun (x, _) => s!"identifier {x} used in the initialiser of {name} before/without declaration")
      let badH := rhs.heads.filter (fun f => !(ilHeads.contains f || ctx.callees.contains f))
      let p5 := badH.map (fun f => s!"unknown function {f} in the initialiser of {name}")
      (name :: declared, probs ++ p1 ++ p2 ++ p3 ++ p4 ++ p5, seenRet)

theorem wfBodyProblems_eq (ctx : BodyCtx) (b : Body) :
    wfBodyProblems ctx b =
      (let r := (noComments b.items).foldl (wfStep ctx (bodyPre ctx b)) ([], [], false)
       if r.2.2 then r.2.1 else r.2.1 ++ ["no final return"]) := rfl

/-- An identifier that may be used when the names `D` are declared. -/
def okUse (pre D : List String) (x : String) : Bool := D.contains x || pre.contains x || isPluginConst x

/-- Recursive reading of well-formedness, `D` = names declared so far. -/
def WfFrom (pre : List String) : List String → List Item → Prop
  | _, [] => False
  | _, .comment _ :: _ => False
  | D, .ret t :: rest => rest = [] ∧ ∀ u ∈ t.uses, okUse pre D u.1 = true
  | D, .decl _ n rhs :: rest =>
      D.contains n = false ∧ pre.contains n = false ∧ (∀ u ∈ rhs.uses, okUse pre D u.1 = true) ∧
      WfFrom pre (n :: D) rest

theorem wfStep_probs_nil (ctx : BodyCtx) (pre : List String) (acc : List String × List String × Bool) (it : Item)
    (h : (wfStep ctx pre acc it).2.1 = []) : acc.2.1 = [] ∧ acc.2.2 = false := by
  obtain ⟨D, p, s⟩ := acc
  cases it <;> cases s <;> simp_all [wfStep, List.append_eq_nil_iff]

theorem foldl_probs_nil (ctx : BodyCtx) (pre : List String) (items : List Item) :
    ∀ acc, (items.foldl (wfStep ctx pre) acc).2.1 = [] → acc.2.1 = [] := by
  induction items with
  | nil => intro acc h; exact h
  | cons it rest ih =>
    intro acc h
    exact (wfStep_probs_nil ctx pre acc it (ih _ h)).1

theorem wfFrom_of_fold (ctx : BodyCtx) (pre : List String) (items : List Item)
    (hnc : ∀ it ∈ items, it.isComment = false) (D : List String)
    (h1 : (items.foldl (wfStep ctx pre) (D, [], false)).2.1 = [])
    (h2 : (items.foldl (wfStep ctx pre) (D, [], false)).2.2 = true) : WfFrom pre D items := by
  induction items generalizing D with
  | nil => simp at h2
  | cons it rest ih =>
    have hrest : ∀ it ∈ rest, it.isComment = false := fun x hx => hnc x (List.mem_cons_of_mem _ hx)
    rw [List.foldl_cons] at h1 h2
    have hP := foldl_probs_nil ctx pre rest _ h1
    cases it with
    | comment s => simpa [Item.isComment] using hnc _ List.mem_cons_self
    | ret t =>
      have hrest_nil : rest = [] := by
        cases rest with
        | nil => rfl
        | cons x xs =>
          rw [List.foldl_cons] at h1
          have := (wfStep_probs_nil ctx pre _ x (foldl_probs_nil ctx pre xs _ h1)).2
          simp [wfStep] at this
      refine ⟨hrest_nil, ?_⟩
      simp only [wfStep, List.nil_append, List.append_eq_nil_iff, List.map_eq_nil_iff, List.filter_eq_nil_iff,
        Bool.false_eq_true, if_false] at hP
      intro u hu
      have := hP.1 u hu
      simp [okUse] at this ⊢
      by_cases a : u.1 ∈ D
      · exact Or.inl (Or.inl a)
      · by_cases b : u.1 ∈ pre
        · exact Or.inl (Or.inr b)
        · exact Or.inr (this a b)
    | decl ty n rhs =>
      have hst : wfStep ctx pre (D, [], false) (Item.decl ty n rhs) = (n :: D, [], false) := by
        apply Prod.ext
        · rfl
        · apply Prod.ext
          · exact hP
          · rfl
      rw [hst] at h1 h2
      have ihr := ih hrest (n :: D) h1 h2
      simp only [wfStep, List.nil_append, List.append_eq_nil_iff, List.map_eq_nil_iff, List.filter_eq_nil_iff,
        Bool.false_eq_true, if_false] at hP
      obtain ⟨⟨⟨⟨hp1, _⟩, _⟩, hp4⟩, _⟩ := hP
      have hp1' : (D.contains n || pre.contains n) = false := by
        cases hc : (D.contains n || pre.contains n) with
        | false => rfl
        | true => rw [hc] at hp1; simp at hp1
      simp only [Bool.or_eq_false_iff] at hp1'
      refine ⟨hp1'.1, hp1'.2, ?_, ihr⟩
      intro u hu
      have := hp4 u hu
      simp [okUse] at this ⊢
      by_cases a : u.1 ∈ D
      · exact Or.inl (Or.inl a)
      · by_cases b : u.1 ∈ pre
        · exact Or.inl (Or.inr b)
        · exact Or.inr (this a b)

/-! ### `Term.mentions` and `Term.uses` name the same identifiers -/

theorem uses_app_cases (f : String) (args : List Term) :
    (∃ y, f = "DUP" ∧ args = [.id y] ∧ (Term.app f args).uses = [(y, true)]) ∨
    (Term.app f args).uses = Term.uses.usesList args := by
  unfold Term.uses
  split
  · simp_all
  · simp_all
  all_goals simp_all

mutual
theorem mem_uses_of_mentions (x : String) : ∀ t : Term, t.mentions x = true → x ∈ t.uses.map Prod.fst
  | .id y, h => by
      simp only [Term.mentions, beq_iff_eq] at h
      simp [Term.uses, h]
  | .app f args, h => by
      simp only [Term.mentions] at h
      rcases uses_app_cases f args with ⟨y, _, ha, hu⟩ | hu
      · subst ha
        simp only [mentionsList, Term.mentions, Bool.or_false, beq_iff_eq] at h
        rw [hu]; simp [h]
      · rw [hu]; exact mem_usesList_of_mentions x args h
  | .addr t, h => by
      simp only [Term.mentions] at h
      simpa [Term.uses] using mem_uses_of_mentions x t h
  | .ccast _ t, h => by
      simp only [Term.mentions] at h
      simpa [Term.uses] using mem_uses_of_mentions x t h
  | .arrow t _, h => by
      simp only [Term.mentions] at h
      simpa [Term.uses] using mem_uses_of_mentions x t h
  | .num _, h => by simp [Term.mentions] at h
  | .flt _, h => by simp [Term.mentions] at h
  | .chr _, h => by simp [Term.mentions] at h
  | .str _, h => by simp [Term.mentions] at h
theorem mem_usesList_of_mentions (x : String) :
    ∀ ts : List Term, mentionsList x ts = true → x ∈ (Term.uses.usesList ts).map Prod.fst
  | [], h => by simp [mentionsList] at h
  | t :: ts, h => by
      simp only [mentionsList, Bool.or_eq_true] at h
      simp only [Term.uses.usesList, List.map_append, List.mem_append]
      rcases h with h | h
      · exact Or.inl (mem_uses_of_mentions x t h)
      · exact Or.inr (mem_usesList_of_mentions x ts h)
end

mutual
theorem mentions_of_mem_uses (x : String) : ∀ t : Term, x ∈ t.uses.map Prod.fst → t.mentions x = true
  | .id y, h => by
      simp only [Term.uses, List.map_cons, List.map_nil, List.mem_singleton] at h
      simp [Term.mentions, h]
  | .app f args, h => by
      simp only [Term.mentions]
      rcases uses_app_cases f args with ⟨y, _, ha, hu⟩ | hu
      · subst ha
        rw [hu] at h
        simp only [List.map_cons, List.map_nil, List.mem_singleton] at h
        simp [mentionsList, Term.mentions, h]
      · rw [hu] at h; exact mentionsList_of_mem_usesList x args h
  | .addr t, h => by
      simp only [Term.uses] at h
      simpa [Term.mentions] using mentions_of_mem_uses x t h
  | .ccast _ t, h => by
      simp only [Term.uses] at h
      simpa [Term.mentions] using mentions_of_mem_uses x t h
  | .arrow t _, h => by
      simp only [Term.uses] at h
      simpa [Term.mentions] using mentions_of_mem_uses x t h
  | .num _, h => by simp [Term.uses] at h
  | .flt _, h => by simp [Term.uses] at h
  | .chr _, h => by simp [Term.uses] at h
  | .str _, h => by simp [Term.uses] at h
theorem mentionsList_of_mem_usesList (x : String) :
    ∀ ts : List Term, x ∈ (Term.uses.usesList ts).map Prod.fst → mentionsList x ts = true
  | [], h => by simp [Term.uses.usesList] at h
  | t :: ts, h => by
      simp only [Term.uses.usesList, List.map_append, List.mem_append] at h
      simp only [mentionsList, Bool.or_eq_true]
      rcases h with h | h
      · exact Or.inl (mentions_of_mem_uses x t h)
      · exact Or.inr (mentionsList_of_mem_usesList x ts h)
end

/-- The two notions coincide on every constructor (`DUP(x)` counts as a use of `x` in both; field names of `->`,
    strings and function heads count in neither). -/
theorem mentions_iff_mem_uses (x : String) (t : Term) : t.mentions x = true ↔ x ∈ t.uses.map Prod.fst :=
  ⟨mem_uses_of_mentions x t, mentions_of_mem_uses x t⟩

end Rzil
