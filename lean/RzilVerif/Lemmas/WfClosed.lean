import RzilVerif.Lemmas.LayoutPerm
/-!
# What `wfBodyProblems ctx b = []` (check C11) implies

* `wfStep` / `wfBodyProblems_eq`: the checker as a named fold;
* `WfFrom pre D items`: the recursive reading of "declared once, before use, one final return";
* `wfFrom_of_fold`: an empty problem list gives `WfFrom`;
* bridges `Term.mentions` ↔ `Term.uses`, `eraseDup`/`subst` and `mentions`;
* `closed_aux`: the environment built by `buildEnvIL` from a `WfFrom` list has closed values.
-/
namespace Rzil

def Item.isComment : Item → Bool
  | .comment _ => true
  | _ => false

/-- The comment-free item list the checker folds over. -/
def noComments (items : List Item) : List Item :=
  items.filter (fun i => match i with | .comment _ => false | _ => true)

/-- The names available without declaration: the parameters of a sub-routine, else `ctx.given`. -/
def bodyPre (ctx : BodyCtx) (b : Body) : List String :=
  match b.header with
  | some (_, ps) => ps.map Param.name
  | none => ctx.given

/-- One step of the fold of `wfBodyProblems` (same text). -/
def wfStep (ctx : BodyCtx) (pre : List String) (acc : List String × List String × Bool) (it : Item) :
    List String × List String × Bool :=
  let (declared, probs, seenRet) := acc
  let probs := if seenRet then probs ++ ["statement after the final return"] else probs
  match it with
  | .comment _ => (declared, probs, seenRet)
  | .ret t =>
      let bad := t.uses.filter (fun (x, _) => !(declared.contains x || pre.contains x || isPluginConst x))
      let badH := t.heads.filter (fun f => !(ilHeads.contains f || ctx.callees.contains f))
      (declared, probs ++ bad.map (fun (x, _) => s!"identifier {x} used in return but not declared") ++
         badH.map (fun f => s!"unknown function {f}"), true)
  | .decl ty name rhs =>
      let p1 := if declared.contains name || pre.contains name then [s!"{name} declared twice"] else []
      let p2 := if cKeywords.contains name then [s!"{name} is a C keyword"] else []
      let p2c := if isPluginConst name then [s!"{name} is a plugin constant"] else []
      let p3 := if knownDeclTypes.contains ty then [] else [s!"declaration of {name} with unexpected type '{ty}'"]
      let bad := rhs.uses.filter (fun (x, _) => !(declared.contains x || pre.contains x || isPluginConst x))
      let p4 := bad.map (fun (x, _) => s!"identifier {x} used in the initialiser of {name} before/without declaration")
      let badH := rhs.heads.filter (fun f => !(ilHeads.contains f || ctx.callees.contains f))
      let p5 := badH.map (fun f => s!"unknown function {f} in the initialiser of {name}")
      (name :: declared, probs ++ p1 ++ p2 ++ p2c ++ p3 ++ p4 ++ p5, seenRet)

theorem wfBodyProblems_eq (ctx : BodyCtx) (b : Body) :
    wfBodyProblems ctx b =
      (let r := (noComments b.items).foldl (wfStep ctx (bodyPre ctx b)) ([], [], false)
       if r.2.2 then r.2.1 else r.2.1 ++ ["no final return"]) := rfl

/-- An identifier that may be used when the names `D` are declared. -/
def okUse (pre D : List String) (x : String) : Bool := D.contains x || pre.contains x || isPluginConst x

/-- Recursive reading of well-formedness, `D` = names declared so far. -/
def WfFrom (pre : List String) : List String → List Item → Prop
  | _, [] => False
  | _, .comment _ :: _ => False
  | D, .ret t :: rest => rest = [] ∧ ∀ u ∈ t.uses, okUse pre D u.1 = true
  | D, .decl _ n rhs :: rest =>
      D.contains n = false ∧ pre.contains n = false ∧ (∀ u ∈ rhs.uses, okUse pre D u.1 = true) ∧
      WfFrom pre (n :: D) rest

theorem wfStep_probs_nil (ctx : BodyCtx) (pre : List String) (acc : List String × List String × Bool) (it : Item)
    (h : (wfStep ctx pre acc it).2.1 = []) : acc.2.1 = [] ∧ acc.2.2 = false := by
  obtain ⟨D, p, s⟩ := acc
  cases it <;> cases s <;> simp_all [wfStep, List.append_eq_nil_iff]

theorem foldl_probs_nil (ctx : BodyCtx) (pre : List String) (items : List Item) :
    ∀ acc, (items.foldl (wfStep ctx pre) acc).2.1 = [] → acc.2.1 = [] := by
  induction items with
  | nil => intro acc h; exact h
  | cons it rest ih =>
    intro acc h
    exact (wfStep_probs_nil ctx pre acc it (ih _ h)).1

theorem wfFrom_of_fold (ctx : BodyCtx) (pre : List String) (items : List Item)
    (hnc : ∀ it ∈ items, it.isComment = false) (D : List String)
    (h1 : (items.foldl (wfStep ctx pre) (D, [], false)).2.1 = [])
    (h2 : (items.foldl (wfStep ctx pre) (D, [], false)).2.2 = true) : WfFrom pre D items := by
  induction items generalizing D with
  | nil => simp at h2
  | cons it rest ih =>
    have hrest : ∀ it ∈ rest, it.isComment = false := fun x hx => hnc x (List.mem_cons_of_mem _ hx)
    rw [List.foldl_cons] at h1 h2
    have hP := foldl_probs_nil ctx pre rest _ h1
    cases it with
    | comment s => simpa [Item.isComment] using hnc _ List.mem_cons_self
    | ret t =>
      have hrest_nil : rest = [] := by
        cases rest with
        | nil => rfl
        | cons x xs =>
          rw [List.foldl_cons] at h1
          have := (wfStep_probs_nil ctx pre _ x (foldl_probs_nil ctx pre xs _ h1)).2
          simp [wfStep] at this
      refine ⟨hrest_nil, ?_⟩
      simp only [wfStep, List.nil_append, List.append_eq_nil_iff, List.map_eq_nil_iff, List.filter_eq_nil_iff,
        Bool.false_eq_true, if_false] at hP
      intro u hu
      have := hP.1 u hu
      simp [okUse] at this ⊢
      by_cases a : u.1 ∈ D
      · exact Or.inl (Or.inl a)
      · by_cases b : u.1 ∈ pre
        · exact Or.inl (Or.inr b)
        · exact Or.inr (this a b)
    | decl ty n rhs =>
      have hst : wfStep ctx pre (D, [], false) (Item.decl ty n rhs) = (n :: D, [], false) := by
        apply Prod.ext
        · rfl
        · apply Prod.ext
          · exact hP
          · rfl
      rw [hst] at h1 h2
      have ihr := ih hrest (n :: D) h1 h2
      simp only [wfStep, List.nil_append, List.append_eq_nil_iff, List.map_eq_nil_iff, List.filter_eq_nil_iff,
        Bool.false_eq_true, if_false] at hP
      obtain ⟨⟨⟨⟨⟨hp1, _⟩, _⟩, _⟩, hp4⟩, _⟩ := hP
      have hp1' : (D.contains n || pre.contains n) = false := by
        cases hc : (D.contains n || pre.contains n) with
        | false => rfl
        | true => rw [hc] at hp1; simp at hp1
      simp only [Bool.or_eq_false_iff] at hp1'
      refine ⟨hp1'.1, hp1'.2, ?_, ihr⟩
      intro u hu
      have := hp4 u hu
      simp [okUse] at this ⊢
      by_cases a : u.1 ∈ D
      · exact Or.inl (Or.inl a)
      · by_cases b : u.1 ∈ pre
        · exact Or.inl (Or.inr b)
        · exact Or.inr (this a b)

/-! ### `Term.mentions` and `Term.uses` name the same identifiers -/

theorem uses_app_cases (f : String) (args : List Term) :
    (∃ y, f = "DUP" ∧ args = [.id y] ∧ (Term.app f args).uses = [(y, true)]) ∨
    (Term.app f args).uses = Term.uses.usesList args := by
  unfold Term.uses
  split
  · simp_all
  · simp_all
  all_goals simp_all

mutual
theorem mem_uses_of_mentions (x : String) : ∀ t : Term, t.mentions x = true → x ∈ t.uses.map Prod.fst
  | .id y, h => by
      simp only [Term.mentions, beq_iff_eq] at h
      simp [Term.uses, h]
  | .app f args, h => by
      simp only [Term.mentions] at h
      rcases uses_app_cases f args with ⟨y, _, ha, hu⟩ | hu
      · subst ha
        simp only [mentionsList, Term.mentions, Bool.or_false, beq_iff_eq] at h
        rw [hu]; simp [h]
      · rw [hu]; exact mem_usesList_of_mentions x args h
  | .addr t, h => by
      simp only [Term.mentions] at h
      simpa [Term.uses] using mem_uses_of_mentions x t h
  | .ccast _ t, h => by
      simp only [Term.mentions] at h
      simpa [Term.uses] using mem_uses_of_mentions x t h
  | .arrow t _, h => by
      simp only [Term.mentions] at h
      simpa [Term.uses] using mem_uses_of_mentions x t h
  | .num _, h => by simp [Term.mentions] at h
  | .flt _, h => by simp [Term.mentions] at h
  | .chr _, h => by simp [Term.mentions] at h
  | .str _, h => by simp [Term.mentions] at h
theorem mem_usesList_of_mentions (x : String) :
    ∀ ts : List Term, mentionsList x ts = true → x ∈ (Term.uses.usesList ts).map Prod.fst
  | [], h => by simp [mentionsList] at h
  | t :: ts, h => by
      simp only [mentionsList, Bool.or_eq_true] at h
      simp only [Term.uses.usesList, List.map_append, List.mem_append]
      rcases h with h | h
      · exact Or.inl (mem_uses_of_mentions x t h)
      · exact Or.inr (mem_usesList_of_mentions x ts h)
end

mutual
theorem mentions_of_mem_uses (x : String) : ∀ t : Term, x ∈ t.uses.map Prod.fst → t.mentions x = true
  | .id y, h => by
      simp only [Term.uses, List.map_cons, List.map_nil, List.mem_singleton] at h
      simp [Term.mentions, h]
  | .app f args, h => by
      simp only [Term.mentions]
      rcases uses_app_cases f args with ⟨y, _, ha, hu⟩ | hu
      · subst ha
        rw [hu] at h
        simp only [List.map_cons, List.map_nil, List.mem_singleton] at h
        simp [mentionsList, Term.mentions, h]
      · rw [hu] at h; exact mentionsList_of_mem_usesList x args h
  | .addr t, h => by
      simp only [Term.uses] at h
      simpa [Term.mentions] using mentions_of_mem_uses x t h
  | .ccast _ t, h => by
      simp only [Term.uses] at h
      simpa [Term.mentions] using mentions_of_mem_uses x t h
  | .arrow t _, h => by
      simp only [Term.uses] at h
      simpa [Term.mentions] using mentions_of_mem_uses x t h
  | .num _, h => by simp [Term.uses] at h
  | .flt _, h => by simp [Term.uses] at h
  | .chr _, h => by simp [Term.uses] at h
  | .str _, h => by simp [Term.uses] at h
theorem mentionsList_of_mem_usesList (x : String) :
    ∀ ts : List Term, x ∈ (Term.uses.usesList ts).map Prod.fst → mentionsList x ts = true
  | [], h => by simp [Term.uses.usesList] at h
  | t :: ts, h => by
      simp only [Term.uses.usesList, List.map_append, List.mem_append] at h
      simp only [mentionsList, Bool.or_eq_true]
      rcases h with h | h
      · exact Or.inl (mentions_of_mem_uses x t h)
      · exact Or.inr (mentionsList_of_mem_usesList x ts h)
end

/-- The two notions coincide on every constructor (`DUP(x)` counts as a use of `x` in both; field names of `->`,
    strings and function heads count in neither). -/
theorem mentions_iff_mem_uses (x : String) (t : Term) : t.mentions x = true ↔ x ∈ t.uses.map Prod.fst :=
  ⟨mem_uses_of_mentions x t, mentions_of_mem_uses x t⟩

/-! ### Freshness of declared names; the layout predicates of C16 -/

/-- Names of all declarations (any type), in order. -/
def declNames : List Item → List String
  | [] => []
  | .decl _ n _ :: rest => n :: declNames rest
  | _ :: rest => declNames rest

/-- Names of the declarations `buildEnvIL` inlines, in order. -/
def ilNames : List Item → List String
  | [] => []
  | .decl ty n _ :: rest => if isILTy ty then n :: ilNames rest else ilNames rest
  | _ :: rest => ilNames rest

/-- Side condition: no declared name is a plugin constant (`true`, `IL_TRUE`, `HEX_…`): the checker accepts a use
    of such a name without looking for a declaration.  Implied by an empty problem list (`constFree_of_fold`). -/
def constFree (items : List Item) : Bool := (declNames items).all (fun n => !isPluginConst n)

theorem ilNames_sub_declNames : ∀ (items : List Item) (x : String), x ∈ ilNames items → x ∈ declNames items
  | [], _, h => by simp [ilNames] at h
  | .comment _ :: rest, x, h => ilNames_sub_declNames rest x h
  | .ret _ :: rest, x, h => ilNames_sub_declNames rest x h
  | .decl ty n _ :: rest, x, h => by
      simp only [ilNames] at h
      simp only [declNames, List.mem_cons]
      split at h
      · rcases List.mem_cons.1 h with h | h
        · exact Or.inl h
        · exact Or.inr (ilNames_sub_declNames rest x h)
      · exact Or.inr (ilNames_sub_declNames rest x h)

theorem name_mem_declNames : ∀ (items : List Item) (d : Item), d ∈ items → d.isILDecl = true →
    d.name ∈ declNames items
  | [], _, h, _ => by simp at h
  | it :: rest, d, h, hd => by
      rcases List.mem_cons.1 h with h | h
      · subst h
        cases d with
        | comment s => simp [Item.isILDecl] at hd
        | ret t => simp [Item.isILDecl] at hd
        | decl ty n rhs => simp [declNames, Item.name]
      · have := name_mem_declNames rest d h hd
        cases it with
        | comment s => exact this
        | ret t => exact this
        | decl ty n rhs => exact List.mem_cons_of_mem _ this

theorem wfFrom_fresh (pre : List String) : ∀ (items : List Item) (D : List String), WfFrom pre D items →
    ∀ n ∈ declNames items, n ∉ D ∧ n ∉ pre
  | [], _, h, _, _ => by simp [WfFrom] at h
  | .comment _ :: _, _, h, _, _ => by simp [WfFrom] at h
  | .ret _ :: rest, D, h, n, hn => by
      simp only [WfFrom] at h
      rw [h.1] at hn
      simp [declNames] at hn
  | .decl _ m _ :: rest, D, h, n, hn => by
      simp only [WfFrom] at h
      obtain ⟨hD, hpre, _, hrest⟩ := h
      simp only [declNames, List.mem_cons] at hn
      rcases hn with hn | hn
      · subst hn
        exact ⟨by simpa using hD, by simpa using hpre⟩
      · have := wfFrom_fresh pre rest (n := n) (m :: D) hrest hn
        exact ⟨fun h => this.1 (List.mem_cons_of_mem _ h), this.2⟩

theorem okUse_fresh_false {pre D : List String} {x : String} (h : okUse pre D x = true)
    (h1 : x ∉ D) (h2 : x ∉ pre) (h3 : isPluginConst x = false) : False := by
  simp only [okUse, Bool.or_eq_true, List.contains_iff_mem] at h
  rcases h with (h | h) | h
  · exact h1 h
  · exact h2 h
  · rw [h3] at h; cases h

theorem constFree_tail (it : Item) (rest : List Item) (h : constFree (it :: rest) = true) : constFree rest = true := by
  cases it with
  | comment s => exact h
  | ret t => exact h
  | decl ty n rhs =>
    simp only [constFree, declNames, List.all_cons, Bool.and_eq_true] at h
    exact h.2

theorem constFree_mem (items : List Item) (h : constFree items = true) (n : String) (hn : n ∈ declNames items) :
    isPluginConst n = false := by
  have := List.all_eq_true.1 h n hn
  simpa using this

/-- A use-checked right-hand side mentions no name declared later. -/
theorem wfFrom_rhs_later (pre : List String) (D : List String) (n : String) (rhs : Term) (rest : List Item)
    (hD : D.contains n = false) (hpre : pre.contains n = false)
    (huse : ∀ u ∈ rhs.uses, okUse pre D u.1 = true) (hrest : WfFrom pre (n :: D) rest)
    (hc : isPluginConst n = false) (hcr : constFree rest = true) (x : String) (hm : rhs.mentions x = true) :
    x ≠ n ∧ x ∉ declNames rest := by
  obtain ⟨u, hu, hux⟩ := List.mem_map.1 (mem_uses_of_mentions x rhs hm)
  have hok := huse u hu
  rw [hux] at hok
  constructor
  · intro hxn
    subst hxn
    exact okUse_fresh_false hok (by simpa using hD) (by simpa using hpre) hc
  · intro hx
    have hf := wfFrom_fresh pre rest (n :: D) hrest x hx
    exact okUse_fresh_false hok (fun h => hf.1 (List.mem_cons_of_mem _ h)) hf.2 (constFree_mem rest hcr x hx)

theorem wfFrom_layout (pre : List String) : ∀ (items : List Item) (D : List String), WfFrom pre D items →
    constFree items = true → namesDistinct items = true ∧ noForwardRef items = true
  | [], _, h, _ => by simp [WfFrom] at h
  | .comment _ :: _, _, h, _ => by simp [WfFrom] at h
  | .ret _ :: rest, D, h, _ => by
      simp only [WfFrom] at h
      rw [h.1]
      simp [namesDistinct, noForwardRef, Item.isILDecl]
  | .decl ty n rhs :: rest, D, h, hc => by
      simp only [WfFrom] at h
      obtain ⟨hD, hpre, huse, hrest⟩ := h
      have hcr := constFree_tail _ _ hc
      have hcn : isPluginConst n = false := constFree_mem _ hc n (by simp [declNames])
      have ih := wfFrom_layout pre rest (n :: D) hrest hcr
      constructor
      · simp only [namesDistinct, Bool.and_eq_true, Bool.or_eq_true]
        refine ⟨Or.inr (List.all_eq_true.2 ?_), ih.1⟩
        intro d hd
        obtain ⟨hdm, hdi⟩ := List.mem_filter.1 hd
        have hf := wfFrom_fresh pre rest (n :: D) hrest _ (name_mem_declNames rest d hdm hdi)
        have hn' : (Item.decl ty n rhs).name = n := rfl
        rw [hn']
        simp only [bne_iff_ne, ne_eq]
        intro he
        exact hf.1 (by rw [he]; exact List.mem_cons_self)
      · simp only [noForwardRef, Bool.and_eq_true, Bool.or_eq_true]
        refine ⟨Or.inr (List.all_eq_true.2 ?_), ih.2⟩
        intro d hd
        obtain ⟨hdm, hdi⟩ := List.mem_filter.1 hd
        simp only [Item.rhs, Bool.not_eq_true']
        cases hm : rhs.mentions d.name with
        | false => rfl
        | true =>
          exact absurd (name_mem_declNames rest d hdm hdi)
            (wfFrom_rhs_later pre D n rhs rest hD hpre huse hrest hcn hcr _ hm).2

/-! ### Comments are invisible to the layout predicates and to `buildEnvIL` -/

theorem noComments_comment (s : String) (rest : List Item) : noComments (.comment s :: rest) = noComments rest := rfl
theorem noComments_ret (t : Term) (rest : List Item) : noComments (.ret t :: rest) = .ret t :: noComments rest := rfl
theorem noComments_decl (ty n : String) (rhs : Term) (rest : List Item) :
    noComments (.decl ty n rhs :: rest) = .decl ty n rhs :: noComments rest := rfl

theorem noComments_no_comment (items : List Item) : ∀ it ∈ noComments items, it.isComment = false := by
  intro it h
  have := (List.mem_filter.1 h).2
  cases it <;> simp_all [Item.isComment]

theorem filter_il_noComments : ∀ items : List Item,
    (noComments items).filter Item.isILDecl = items.filter Item.isILDecl
  | [] => rfl
  | .comment s :: rest => by
      rw [noComments_comment, filter_il_noComments rest]
      simp [Item.isILDecl]
  | .ret t :: rest => by
      rw [noComments_ret, List.filter_cons, List.filter_cons, filter_il_noComments rest]
  | .decl ty n rhs :: rest => by
      rw [noComments_decl, List.filter_cons, List.filter_cons, filter_il_noComments rest]

theorem namesDistinct_noComments : ∀ items : List Item, namesDistinct (noComments items) = namesDistinct items
  | [] => rfl
  | .comment s :: rest => by
      rw [noComments_comment, namesDistinct_noComments rest]
      simp [namesDistinct, Item.isILDecl]
  | .ret t :: rest => by
      rw [noComments_ret]
      simp only [namesDistinct, filter_il_noComments, namesDistinct_noComments rest]
  | .decl ty n rhs :: rest => by
      rw [noComments_decl]
      simp only [namesDistinct, filter_il_noComments, namesDistinct_noComments rest]

theorem noForwardRef_noComments : ∀ items : List Item, noForwardRef (noComments items) = noForwardRef items
  | [] => rfl
  | .comment s :: rest => by
      rw [noComments_comment, noForwardRef_noComments rest]
      simp [noForwardRef, Item.isILDecl]
  | .ret t :: rest => by
      rw [noComments_ret]
      simp only [noForwardRef, filter_il_noComments, noForwardRef_noComments rest]
  | .decl ty n rhs :: rest => by
      rw [noComments_decl]
      simp only [noForwardRef, filter_il_noComments, noForwardRef_noComments rest]

theorem declNames_noComments : ∀ items : List Item, declNames (noComments items) = declNames items
  | [] => rfl
  | .comment s :: rest => by rw [noComments_comment, declNames_noComments rest]; rfl
  | .ret t :: rest => by rw [noComments_ret]; simp only [declNames, declNames_noComments rest]
  | .decl ty n rhs :: rest => by rw [noComments_decl]; simp only [declNames, declNames_noComments rest]

theorem constFree_noComments (items : List Item) : constFree (noComments items) = constFree items := by
  simp only [constFree, declNames_noComments]

/-- A declaration step that reports nothing declares no plugin constant. -/
theorem wfStep_decl_const (ctx : BodyCtx) (pre : List String) (acc : List String × List String × Bool)
    (ty n : String) (rhs : Term) (h : (wfStep ctx pre acc (Item.decl ty n rhs)).2.1 = []) : isPluginConst n = false := by
  obtain ⟨D, p, s⟩ := acc
  cases hc : isPluginConst n with
  | false => rfl
  | true => cases s <;> simp [wfStep, hc, List.append_eq_nil_iff] at h

/-- A fold of the checker that ends without problems went over `constFree` items. -/
theorem constFree_of_fold (ctx : BodyCtx) (pre : List String) (items : List Item) :
    ∀ acc, (items.foldl (wfStep ctx pre) acc).2.1 = [] → constFree items = true := by
  induction items with
  | nil => intro _ _; rfl
  | cons it rest ih =>
    intro acc h
    rw [List.foldl_cons] at h
    have hr := ih _ h
    cases it with
    | comment s => exact hr
    | ret t => exact hr
    | decl ty n rhs =>
      have hn := wfStep_decl_const ctx pre acc ty n rhs (foldl_probs_nil ctx pre rest _ h)
      simp only [constFree, declNames, List.all_cons, Bool.and_eq_true] at hr ⊢
      exact ⟨by simp [hn], hr⟩

theorem buildEnvIL_noComments : ∀ (items : List Item) (env : Env),
    buildEnvIL (noComments items) env = buildEnvIL items env
  | [], _ => rfl
  | .comment s :: rest, env => by rw [noComments_comment, buildEnvIL_noComments rest env]; rfl
  | .ret t :: rest, env => by rw [noComments_ret]; simp only [buildEnvIL, buildEnvIL_noComments rest]
  | .decl ty n rhs :: rest, env => by
      rw [noComments_decl, buildEnvIL_decl, buildEnvIL_decl, buildEnvIL_noComments rest, buildEnvIL_noComments rest]

/-! ### Closedness of the inlined environment -/

theorem lookup_mem : ∀ (env : Env) (y : String) (v : Term), env.lookup y = some v → (y, v) ∈ env
  | [], _, _, h => by simp at h
  | (k, w) :: env, y, v, h => by
      simp only [List.lookup_cons] at h
      split at h
      · rename_i hk
        simp only [beq_iff_eq] at hk
        simp only [Option.some.injEq] at h
        subst hk; subst h
        exact List.mem_cons_self
      · exact List.mem_cons_of_mem _ (lookup_mem env y v h)

mutual
/-- What a substituted term mentions: an unbound identifier of the term, or something a bound value mentions. -/
theorem subst_mentions (env : Env) (x : String) : ∀ t : Term, (t.subst env).mentions x = true →
    (t.mentions x = true ∧ env.lookup x = none) ∨ ∃ p ∈ env, p.2.mentions x = true
  | .id y, h => by
      simp only [Term.subst] at h
      cases hl : env.lookup y with
      | none =>
        rw [hl] at h
        simp only [Term.mentions, beq_iff_eq] at h
        subst h
        exact Or.inl ⟨by simp [Term.mentions], hl⟩
      | some v =>
        rw [hl] at h
        exact Or.inr ⟨(y, v), lookup_mem env y v hl, h⟩
  | .app f args, h => by
      simp only [Term.subst, Term.mentions] at h ⊢
      exact substList_mentions env x args h
  | .addr t, h => by
      simp only [Term.subst, Term.mentions] at h ⊢
      exact subst_mentions env x t h
  | .ccast _ t, h => by
      simp only [Term.subst, Term.mentions] at h ⊢
      exact subst_mentions env x t h
  | .arrow t _, h => by
      simp only [Term.subst, Term.mentions] at h ⊢
      exact subst_mentions env x t h
  | .num _, h => by simp [Term.subst, Term.mentions] at h
  | .flt _, h => by simp [Term.subst, Term.mentions] at h
  | .chr _, h => by simp [Term.subst, Term.mentions] at h
  | .str _, h => by simp [Term.subst, Term.mentions] at h
theorem substList_mentions (env : Env) (x : String) : ∀ ts : List Term, mentionsList x (substList env ts) = true →
    (mentionsList x ts = true ∧ env.lookup x = none) ∨ ∃ p ∈ env, p.2.mentions x = true
  | [], h => by simp [substList, mentionsList] at h
  | t :: ts, h => by
      simp only [substList, mentionsList, Bool.or_eq_true] at h ⊢
      rcases h with h | h
      · rcases subst_mentions env x t h with ⟨a, b⟩ | r
        · exact Or.inl ⟨Or.inl a, b⟩
        · exact Or.inr r
      · rcases substList_mentions env x ts h with ⟨a, b⟩ | r
        · exact Or.inl ⟨Or.inr a, b⟩
        · exact Or.inr r
end

theorem eraseDup_app_cases (f : String) (args : List Term) :
    (∃ a, args = [a] ∧ (Term.app f args).eraseDup = a.eraseDup) ∨
    (Term.app f args).eraseDup = .app f (eraseDupList args) := by
  by_cases h : ∃ a, f = "DUP" ∧ args = [a]
  · obtain ⟨a, hf, ha⟩ := h
    subst hf; subst ha
    exact Or.inl ⟨a, rfl, by rw [Term.eraseDup]⟩
  · refine Or.inr ?_
    rw [Term.eraseDup]
    intro t hf ha
    exact h ⟨t, hf, ha⟩

mutual
/-- Erasing `DUP` introduces no identifier. -/
theorem eraseDup_mentions (x : String) : ∀ t : Term, t.eraseDup.mentions x = true → t.mentions x = true
  | .app f args, h => by
      simp only [Term.mentions]
      apply eraseDupList_mentions x args
      rcases eraseDup_app_cases f args with ⟨a, ha, he⟩ | he
      · rw [he] at h
        rw [ha]
        simp [eraseDupList, mentionsList, h]
      · rw [he] at h
        simpa only [Term.mentions] using h
  | .addr t, h => by
      simp only [Term.eraseDup, Term.mentions] at h ⊢
      exact eraseDup_mentions x t h
  | .ccast _ t, h => by
      simp only [Term.eraseDup, Term.mentions] at h ⊢
      exact eraseDup_mentions x t h
  | .arrow t _, h => by
      simp only [Term.eraseDup, Term.mentions] at h ⊢
      exact eraseDup_mentions x t h
  | .id _, h => by simpa [Term.eraseDup] using h
  | .num _, h => by simpa [Term.eraseDup] using h
  | .flt _, h => by simpa [Term.eraseDup] using h
  | .chr _, h => by simpa [Term.eraseDup] using h
  | .str _, h => by simpa [Term.eraseDup] using h
theorem eraseDupList_mentions (x : String) : ∀ ts : List Term, mentionsList x (eraseDupList ts) = true →
    mentionsList x ts = true
  | [], h => by simp [eraseDupList, mentionsList] at h
  | t :: ts, h => by
      simp only [eraseDupList, mentionsList, Bool.or_eq_true] at h ⊢
      rcases h with h | h
      · exact Or.inl (eraseDup_mentions x t h)
      · exact Or.inr (eraseDupList_mentions x ts h)
end

/-- Every value of the environment mentions neither a bound name nor a name in `later`. -/
def EnvClosed (env : Env) (later : List String) : Prop :=
  ∀ p ∈ env, ∀ x, p.2.mentions x = true → x ∉ env.map Prod.fst ∧ x ∉ later

theorem closed_aux (pre : List String) : ∀ (items : List Item) (D : List String) (env : Env),
    WfFrom pre D items → constFree items = true → EnvClosed env (ilNames items) →
    EnvClosed (buildEnvIL items env) []
  | [], _, _, h, _, _ => by simp [WfFrom] at h
  | .comment _ :: _, _, _, h, _, _ => by simp [WfFrom] at h
  | .ret _ :: rest, D, env, h, _, hE => by
      simp only [WfFrom] at h
      rw [h.1]
      intro p hp x hx
      exact ⟨(hE p hp x hx).1, by simp⟩
  | .decl ty n rhs :: rest, D, env, h, hc, hE => by
      simp only [WfFrom] at h
      obtain ⟨hD, hpre, huse, hrest⟩ := h
      have hcr := constFree_tail _ _ hc
      have hcn : isPluginConst n = false := constFree_mem _ hc n (by simp [declNames])
      rw [buildEnvIL_decl]
      by_cases hil : isILTy ty = true
      · rw [if_pos hil]
        apply closed_aux pre rest (n :: D) _ hrest hcr
        have hnames : ilNames (Item.decl ty n rhs :: rest) = n :: ilNames rest := by simp [ilNames, hil]
        rw [hnames] at hE
        intro p hp x hx
        rcases List.mem_cons.1 hp with hp | hp
        · subst hp
          rcases subst_mentions env x rhs hx with ⟨hm, hl⟩ | ⟨q, hq, hqx⟩
          · have hlater := wfFrom_rhs_later pre D n rhs rest hD hpre huse hrest hcn hcr x hm
            have hdom : x ∉ env.map Prod.fst := by
              intro hmem
              obtain ⟨q, hq, hqx⟩ := List.mem_map.1 hmem
              have := List.lookup_eq_none_iff.1 hl q hq
              simp [hqx] at this
            refine ⟨?_, fun hx' => hlater.2 (ilNames_sub_declNames rest x hx')⟩
            simp only [List.map_cons, List.mem_cons, not_or]
            exact ⟨hlater.1, hdom⟩
          · have := hE q hq x hqx
            simp only [List.mem_cons, not_or] at this
            refine ⟨?_, this.2.2⟩
            simp only [List.map_cons, List.mem_cons, not_or]
            exact ⟨this.2.1, this.1⟩
        · have := hE p hp x hx
          simp only [List.mem_cons, not_or] at this
          refine ⟨?_, this.2.2⟩
          simp only [List.map_cons, List.mem_cons, not_or]
          exact ⟨this.2.1, this.1⟩
      · rw [if_neg hil]
        apply closed_aux pre rest (n :: D) _ hrest hcr
        have hnames : ilNames (Item.decl ty n rhs :: rest) = ilNames rest := by simp [ilNames, hil]
        rw [hnames] at hE
        exact hE

theorem buildEnvIL_dom : ∀ (items : List Item) (env : Env) (x : String),
    (x ∈ ilNames items ∨ x ∈ env.map Prod.fst) → x ∈ (buildEnvIL items env).map Prod.fst
  | [], env, x, h => by
      rcases h with h | h
      · simp [ilNames] at h
      · exact h
  | .comment _ :: rest, env, x, h => buildEnvIL_dom rest env x h
  | .ret _ :: rest, env, x, h => buildEnvIL_dom rest env x h
  | .decl ty n rhs :: rest, env, x, h => by
      rw [buildEnvIL_decl]
      simp only [ilNames] at h
      split
      · rename_i hil
        rw [if_pos hil] at h
        apply buildEnvIL_dom rest
        rcases h with h | h
        · rcases List.mem_cons.1 h with h | h
          · exact Or.inr (by simp [h])
          · exact Or.inl h
        · exact Or.inr (by simp only [List.map_cons, List.mem_cons]; exact Or.inr h)
      · rename_i hil
        rw [if_neg hil] at h
        exact buildEnvIL_dom rest env x h

/-- A closed environment closes every term it is substituted into. -/
theorem subst_closed (env : Env) (hE : EnvClosed env []) (r : Term) (x : String) (hx : x ∈ env.map Prod.fst) :
    (r.subst env).mentions x = false := by
  cases hm : (r.subst env).mentions x with
  | false => rfl
  | true =>
    rcases subst_mentions env x r hm with ⟨_, hl⟩ | ⟨q, hq, hqx⟩
    · obtain ⟨q, hq, hqx⟩ := List.mem_map.1 hx
      have := List.lookup_eq_none_iff.1 hl q hq
      simp [hqx] at this
    · exact absurd hx (hE q hq x hqx).1

/-! ### The positional reading -/

theorem okUse_cases {pre D : List String} {x : String} (h : okUse pre D x = true) :
    x ∈ D ∨ x ∈ pre ∨ isPluginConst x = true := by
  simp only [okUse, Bool.or_eq_true, List.contains_iff_mem] at h
  rcases h with (h | h) | h
  · exact Or.inl h
  · exact Or.inr (Or.inl h)
  · exact Or.inr (Or.inr h)

theorem wfFrom_positional (pre : List String) : ∀ (items : List Item) (D : List String), WfFrom pre D items →
    ∃ ds t, items = ds ++ [Item.ret t] ∧
      (∀ d ∈ ds, ∃ ty n rhs, d = Item.decl ty n rhs) ∧
      (declNames ds).Nodup ∧
      (∀ n ∈ declNames ds, n ∉ D ∧ n ∉ pre) ∧
      (∀ i ty n rhs, ds[i]? = some (Item.decl ty n rhs) → ∀ u ∈ rhs.uses,
          u.1 ∈ declNames (ds.take i) ∨ u.1 ∈ D ∨ u.1 ∈ pre ∨ isPluginConst u.1 = true) ∧
      (∀ u ∈ t.uses, u.1 ∈ declNames ds ∨ u.1 ∈ D ∨ u.1 ∈ pre ∨ isPluginConst u.1 = true)
  | [], _, h => by simp [WfFrom] at h
  | .comment _ :: _, _, h => by simp [WfFrom] at h
  | .ret t :: rest, D, h => by
      simp only [WfFrom] at h
      refine ⟨[], t, by rw [h.1]; rfl, by simp, by simp [declNames], by simp [declNames], by simp, ?_⟩
      intro u hu
      exact Or.inr (okUse_cases (h.2 u hu))
  | .decl ty n rhs :: rest, D, h => by
      simp only [WfFrom] at h
      obtain ⟨hD, hpre, huse, hrest⟩ := h
      obtain ⟨ds, t, hit, hall, hnd, hfr, hpos, hret⟩ := wfFrom_positional pre rest (n :: D) hrest
      refine ⟨Item.decl ty n rhs :: ds, t, by rw [hit]; rfl, ?_, ?_, ?_, ?_, ?_⟩
      · intro d hd
        rcases List.mem_cons.1 hd with hd | hd
        · exact ⟨ty, n, rhs, hd⟩
        · exact hall d hd
      · simp only [declNames, List.nodup_cons]
        exact ⟨fun hn => (hfr n hn).1 List.mem_cons_self, hnd⟩
      · intro m hm
        simp only [declNames, List.mem_cons] at hm
        rcases hm with hm | hm
        · subst hm; exact ⟨by simpa using hD, by simpa using hpre⟩
        · exact ⟨fun h => (hfr m hm).1 (List.mem_cons_of_mem _ h), (hfr m hm).2⟩
      · intro i ty' n' rhs' hi u hu
        cases i with
        | zero =>
          simp only [List.getElem?_cons_zero, Option.some.injEq, Item.decl.injEq] at hi
          obtain ⟨_, _, hr⟩ := hi
          subst hr
          exact Or.inr (okUse_cases (huse u hu))
        | succ i =>
          simp only [List.getElem?_cons_succ] at hi
          simp only [List.take_succ_cons, declNames, List.mem_cons]
          rcases hpos i ty' n' rhs' hi u hu with h | h | h
          · exact Or.inl (Or.inr h)
          · rcases List.mem_cons.1 h with h | h
            · exact Or.inl (Or.inl h)
            · exact Or.inr (Or.inl h)
          · exact Or.inr (Or.inr h)
      · intro u hu
        simp only [declNames, List.mem_cons]
        rcases hret u hu with h | h | h
        · exact Or.inl (Or.inr h)
        · rcases List.mem_cons.1 h with h | h
          · exact Or.inl (Or.inl h)
          · exact Or.inr (Or.inl h)
        · exact Or.inr (Or.inr h)

theorem returned_noComments : ∀ items : List Item, returned (noComments items) = returned items
  | [] => rfl
  | .comment s :: rest => by rw [noComments_comment, returned_noComments rest]; rfl
  | .ret t :: rest => rfl
  | .decl ty n rhs :: rest => by rw [noComments_decl]; simp only [returned, returned_noComments rest]

end Rzil
