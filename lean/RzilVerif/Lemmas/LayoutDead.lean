import RzilVerif.Lemmas.LayoutPermGen
/-!
# Dead inlined declarations (used by C16)

An inlined declaration `decl ty n rhs` only adds the binding `n ↦ rhs.subst env` to the environment.  If no inlined
right-hand side behind it and not the returned term mentions `n`, nobody ever looks `n` up: the environments with and
without the declaration agree on every name except `n` (`EnvEqExcept n`), this is preserved by every later declaration
(its right-hand side does not mention `n`, so it is substituted to the same term), and the returned term is replaced by
the same term.  No hypothesis on the names is needed (a second declaration of `n` elsewhere is harmless).
-/
namespace Rzil

/-- Two environments agree on every look-up except possibly that of `n`. -/
def EnvEqExcept (n : String) (e1 e2 : Env) : Prop := ∀ x, x ≠ n → e1.lookup x = e2.lookup x

theorem EnvEqExcept.refl (n : String) (e : Env) : EnvEqExcept n e e := fun _ _ => rfl

theorem EnvEqExcept.cons {n : String} {e1 e2 : Env} (h : EnvEqExcept n e1 e2) (m : String) (v : Term) :
    EnvEqExcept n ((m, v) :: e1) ((m, v) :: e2) := by
  intro x hx
  simp only [List.lookup_cons]
  split
  · rfl
  · exact h x hx

/-- A binding of `n` itself is invisible. -/
theorem EnvEqExcept.drop (n : String) (v : Term) (e : Env) : EnvEqExcept n ((n, v) :: e) e := by
  intro x hx
  have hb : (x == n) = false := by simpa using hx
  simp only [List.lookup_cons, hb]

mutual
/-- A term that does not mention `n` is substituted alike by environments that agree except on `n`. -/
theorem Term.subst_congr_except {n : String} {e1 e2 : Env} (h : EnvEqExcept n e1 e2) :
    ∀ t : Term, t.mentions n = false → t.subst e1 = t.subst e2
  | .id x, hm => by
      have hx : x ≠ n := by simpa [Term.mentions] using hm
      simp only [Term.subst, h x hx]
  | .app f args, hm => by
      simp only [Term.mentions] at hm
      simp only [Term.subst, substList_congr_except h args hm]
  | .addr t, hm => by
      simp only [Term.mentions] at hm
      simp only [Term.subst, Term.subst_congr_except h t hm]
  | .ccast ty t, hm => by
      simp only [Term.mentions] at hm
      simp only [Term.subst, Term.subst_congr_except h t hm]
  | .arrow t f, hm => by
      simp only [Term.mentions] at hm
      simp only [Term.subst, Term.subst_congr_except h t hm]
  | .num _, _ => by simp only [Term.subst]
  | .flt _, _ => by simp only [Term.subst]
  | .chr _, _ => by simp only [Term.subst]
  | .str _, _ => by simp only [Term.subst]
theorem substList_congr_except {n : String} {e1 e2 : Env} (h : EnvEqExcept n e1 e2) :
    ∀ ts : List Term, mentionsList n ts = false → substList e1 ts = substList e2 ts
  | [], _ => by simp only [substList]
  | t :: ts, hm => by
      simp only [mentionsList, Bool.or_eq_false_iff] at hm
      simp only [substList, Term.subst_congr_except h t hm.1, substList_congr_except h ts hm.2]
end

/-- `i.mentionsIL n`: `denoteIL` may look `n` up because of item `i` — an inlined right-hand side or a returned term
    mentions it (operand declarations and comments are never substituted). -/
def Item.mentionsIL (n : String) : Item → Bool
  | .decl ty _ rhs => isILTy ty && rhs.mentions n
  | .ret t => t.mentions n
  | .comment _ => false

theorem buildEnvIL_cons_comment (s : String) (rest : List Item) (env : Env) :
    buildEnvIL (Item.comment s :: rest) env = buildEnvIL rest env := by
  simp [buildEnvIL]

theorem buildEnvIL_cons_ret (t : Term) (rest : List Item) (env : Env) :
    buildEnvIL (Item.ret t :: rest) env = buildEnvIL rest env := by
  simp [buildEnvIL]

/-- Items that do not mention `n` keep two environments equal except on `n`. -/
theorem buildEnvIL_except (n : String) (items : List Item) (hm : ∀ i ∈ items, i.mentionsIL n = false) :
    ∀ {e1 e2 : Env}, EnvEqExcept n e1 e2 → EnvEqExcept n (buildEnvIL items e1) (buildEnvIL items e2) := by
  induction items with
  | nil => intro e1 e2 h; exact h
  | cons x xs ih =>
    intro e1 e2 h
    have hx := hm x List.mem_cons_self
    have ih' : ∀ {e1 e2 : Env}, EnvEqExcept n e1 e2 → EnvEqExcept n (buildEnvIL xs e1) (buildEnvIL xs e2) :=
      fun h => ih (fun i hi => hm i (List.mem_cons_of_mem _ hi)) h
    cases x with
    | comment s => rw [buildEnvIL_cons_comment, buildEnvIL_cons_comment]; exact ih' h
    | ret t => rw [buildEnvIL_cons_ret, buildEnvIL_cons_ret]; exact ih' h
    | decl ty m rhs =>
      rw [buildEnvIL_decl, buildEnvIL_decl]
      by_cases hil : isILTy ty = true
      · rw [if_pos hil, if_pos hil]
        have hr : rhs.mentions n = false := by simpa [Item.mentionsIL, hil] using hx
        rw [Term.subst_congr_except h rhs hr]
        exact ih' (h.cons _ _)
      · rw [if_neg hil, if_neg hil]; exact ih' h

/-- The environment form of `dead_decl_irrelevant` (Props/C16.lean): a declaration of `n`, at any position, that no
    item behind it mentions changes the final environment at most in the look-up of `n`. -/
theorem buildEnvIL_dead (pre post : List Item) (ty n : String) (rhs : Term)
    (hpost : ∀ i ∈ post, i.mentionsIL n = false) (env : Env) :
    EnvEqExcept n (buildEnvIL (pre ++ Item.decl ty n rhs :: post) env) (buildEnvIL (pre ++ post) env) := by
  rw [buildEnvIL_app, buildEnvIL_app, buildEnvIL_decl]
  split
  · exact buildEnvIL_except n post hpost (EnvEqExcept.drop _ _ _)
  · exact EnvEqExcept.refl _ _

theorem returned_cons_decl (ty n : String) (rhs : Term) (rest : List Item) :
    returned (Item.decl ty n rhs :: rest) = returned rest := rfl

theorem returned_cons_comment (s : String) (rest : List Item) :
    returned (Item.comment s :: rest) = returned rest := rfl

theorem returned_append_decl (pre post : List Item) (ty n : String) (rhs : Term) :
    returned (pre ++ Item.decl ty n rhs :: post) = returned (pre ++ post) := by
  induction pre with
  | nil => rfl
  | cons x xs ih =>
    cases x with
    | comment s => rw [List.cons_append, List.cons_append, returned_cons_comment, returned_cons_comment]; exact ih
    | ret t => rfl
    | decl ty' m r => rw [List.cons_append, List.cons_append, returned_cons_decl, returned_cons_decl]; exact ih

/-! ### Removing every dead declaration: one pass from right to left -/

def optMentions (n : String) : Option Term → Bool
  | some t => t.mentions n
  | none => false

/-- `rest'` is the already cleaned tail: drop the declaration iff it is inlined, the returned term does not mention its
    name and no item kept behind it does. -/
def dropStep (r : Option Term) (ty n : String) (rhs : Term) (rest' : List Item) : List Item :=
  if isILTy ty && !optMentions n r && rest'.all (fun i => !i.mentionsIL n) then rest' else Item.decl ty n rhs :: rest'

/-- `r` = the returned term of the WHOLE list (it may stand anywhere). -/
def dropDeadDeclsAux (r : Option Term) : List Item → List Item
  | [] => []
  | .decl ty n rhs :: rest => dropStep r ty n rhs (dropDeadDeclsAux r rest)
  | .comment s :: rest => .comment s :: dropDeadDeclsAux r rest
  | .ret t :: rest => .ret t :: dropDeadDeclsAux r rest

/-- Remove every inlined declaration that nothing (still present) behind it mentions.  A declaration only mentioned by
    dead declarations is dead as well: the tail is cleaned first. -/
def dropDeadDecls (items : List Item) : List Item := dropDeadDeclsAux (returned items) items

theorem returned_dropDeadDeclsAux (r : Option Term) (items : List Item) :
    returned (dropDeadDeclsAux r items) = returned items := by
  induction items with
  | nil => rfl
  | cons x rest ih =>
    cases x with
    | comment s => simp only [dropDeadDeclsAux, returned_cons_comment]; exact ih
    | ret t => rfl
    | decl ty n rhs =>
      simp only [dropDeadDeclsAux, dropStep, returned_cons_decl]
      split
      · exact ih
      · rw [returned_cons_decl]; exact ih

theorem returned_dropDeadDecls (items : List Item) : returned (dropDeadDecls items) = returned items :=
  returned_dropDeadDeclsAux _ items

/-- The cleaned list replaces the returned term `r` by the same term, from every start environment. -/
theorem dropDeadDeclsAux_subst (r : Term) (items : List Item) :
    ∀ env : Env, r.subst (buildEnvIL (dropDeadDeclsAux (some r) items) env) = r.subst (buildEnvIL items env) := by
  induction items with
  | nil => intro env; rfl
  | cons x rest ih =>
    intro env
    cases x with
    | comment s => simp only [dropDeadDeclsAux, buildEnvIL_cons_comment]; exact ih env
    | ret t => simp only [dropDeadDeclsAux, buildEnvIL_cons_ret]; exact ih env
    | decl ty n rhs =>
      simp only [dropDeadDeclsAux, dropStep]
      split
      · rename_i hc
        simp only [Bool.and_eq_true, Bool.not_eq_true', List.all_eq_true] at hc
        obtain ⟨⟨hil, hr⟩, hall⟩ := hc
        rw [buildEnvIL_decl_il hil, ← ih]
        have hex := buildEnvIL_except n (dropDeadDeclsAux (some r) rest) hall (EnvEqExcept.drop n (rhs.subst env) env)
        exact (Term.subst_congr_except hex r hr).symm
      · rw [buildEnvIL_decl, buildEnvIL_decl]
        split
        · exact ih _
        · exact ih _

/-- The new comparison: the permutation test of `permEqualD` after removing the dead declarations of either list. -/
def permEqualDD (rs ec : List Item) : Bool := permEqualD (dropDeadDecls rs) (dropDeadDecls ec)

end Rzil
