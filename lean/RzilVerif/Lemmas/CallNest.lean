import RzilVerif.Lemmas.CallInv
/-!
  C08 helpers, part 7: nested calls.  The entry of an inner call `g(…)` that is the last argument of an outer call
  `f(…, g(…))` is pulled into the outer entry: its rendered sequence stands in front of the outer `[call, setTmp]`.
-/
namespace Rzil
namespace C08

open C05 (bind_ok)

theorem tmpsOfPures_append (as bs : List ILPure) : tmpsOfPures (as ++ bs) = tmpsOfPures as ++ tmpsOfPures bs := by
  induction as with
  | nil => simp [tmpsOfPures]
  | cons a as ih => simp [tmpsOfPures, ih]

/-- the temporary of a hybrid value survives the conversion to a parameter type -/
theorem tmp_mem_initACast (cfg : Cfg) (t : VT) (n : String) (ty : VT) (hn : isHTmp n = true)
    (hb : ty.hasFlag VT.gBOOL = false) :
    n ∈ tmpsOfPure (initACast cfg t { il := .varl n, ty := ty, kind := .plain }).il := by
  unfold initACast
  split
  · simp [tmpsOfPure, hn]
  · simp only [hb, Bool.false_and, Bool.false_eq_true, ↓reduceIte]
    simp [tmpsOfPure, hn]

/-- the last argument of an argument list, compiled in an extension of the initial hybrid state -/
theorem compileArgsH_snoc {env : CEnv} {a : CExpr} : ∀ {pre : List CExpr} {st : HSt} {params : List CT}
    {ils : List ILPure} {st1 : HSt}, compileArgsH env st (pre ++ [a]) params = .ok (ils, st1) →
    ∃ (stp : HSt) (ilsPre : List ILPure) (ca : CE) (p : CT), Ext st stp ∧ compileExprH env stp a = .ok (ca, st1) ∧
      ils = ilsPre ++ [(initACast env.cfg p.toVT ca).il] := by
  intro pre
  induction pre with
  | nil =>
    intro st params ils st1 h
    cases params with
    | nil => rw [List.nil_append, compileArgsH] at h; cases h
    | cons p ps =>
      obtain ⟨ca, st', rest, h1, h2, rfl⟩ := compileArgsH_cons h
      rw [compileArgsH] at h2
      injection h2 with h2; injection h2 with h3 h4
      subst h3 h4
      exact ⟨st, [], ca, p, Ext.refl _, h1, rfl⟩
  | cons b pre ih =>
    intro st params ils st1 h
    cases params with
    | nil => rw [List.cons_append, compileArgsH] at h; cases h
    | cons p ps =>
      obtain ⟨cb, st', rest, h1, h2, rfl⟩ := compileArgsH_cons h
      obtain ⟨stp, ilsPre, ca, p', hext, h3, rfl⟩ := ih h2
      exact ⟨stp, _ :: ilsPre, ca, p', (compileExprH_ext env b _ _ _ h1).trans hext, h3, rfl⟩

/-- **Nested calls.** In `f(pre…, g(gargs…))`, compiled from a state satisfying the naming invariant (e.g. the
    initial one), the entry created for `g` does not stay pending on its own: it is rendered inside `f`'s entry,
    in front of `f`'s `[call, setTmp]` pair, hence `g` is executed (and its value copied to its temporary) before
    `f` is called.  For all argument lists `pre`, `gargs`. -/
theorem nested_call_order {env : CEnv} {st st' : HSt} {f g : String} {pre gargs : List CExpr} {gret fret : CT}
    {gparams fparams : List CT} {ce : CE} (hinv : PInv st)
    (h : compileExprH env st (.call f (pre ++ [.call g gargs gret gparams]) fret fparams) = .ok (ce, st')) :
    ∃ (stp stg st1 : HSt) (gc fc : List ILPure) (pre' post' : List ILEffect),
      -- `g`'s arguments are compiled after `pre`, `g`'s entry is `callEntry stg g gc gret`
      compileArgsH env stp gargs gparams = .ok (gc, stg) ∧
      compileArgsH env st (pre ++ [.call g gargs gret gparams]) fparams = .ok (fc, st1) ∧
      -- `f`'s entry is the last pending one, `g`'s is not pending any more
      st'.pending = (popPending st1.pending (tmpsOfPures fc)).2 ++ [callEntry st1 f fc fret] ∧
      callEntry stg g gc gret ∉ (popPending st1.pending (tmpsOfPures fc)).2 ∧
      -- render order
      (callEntry st1 f fc fret).render =
        mkSeq (pre' ++ (callEntry stg g gc gret).render :: post' ++
          [.seqn [.call ("hex_" ++ f) fc, .setl (tmpName st1.hyb) (retRead fret)]]) := by
  obtain ⟨fc, st1, hfa, _, rfl⟩ := compileExprH_call h
  obtain ⟨stp, ilsPre, ca, p, hext, hg, rfl⟩ := compileArgsH_snoc hfa
  obtain ⟨gc, stg, hga, rfl, rfl⟩ := compileExprH_call hg
  have hinvg : PInv stg := (compileArgsH_ext env gargs _ _ _ _ hga).inv (hext.inv hinv)
  -- `g`'s entry is pending after the arguments of `f`, under a name of its own
  have hmem : callEntry stg g gc gret ∈
      ((popPending stg.pending (tmpsOfPures gc)).2 ++ [callEntry stg g gc gret]) := by simp
  have huniq : ∀ q' ∈ (popPending stg.pending (tmpsOfPures gc)).2 ++ [callEntry stg g gc gret],
      q'.tmp = (callEntry stg g gc gret).tmp → q' = callEntry stg g gc gret := by
    intro q' hq' ht
    rcases List.mem_append.mp hq' with hq' | hq'
    · exact absurd ht (hinvg.fresh q' (popPending_rest_subset _ _ hq'))
    · simpa using hq'
  have hleaf : (callEntry stg g gc gret).tmp ∈
      tmpsOfPures (ilsPre ++ [(initACast env.cfg p.toVT { il := .varl (tmpName stg.hyb), ty := gret.toVT, kind := .plain }).il]) := by
    rw [tmpsOfPures_append]
    apply List.mem_append_right
    simp only [tmpsOfPures, List.append_nil]
    exact tmp_mem_initACast _ _ _ _ (isHTmp_tmpName _) (by simp [CT.toVT, VT.hasFlag, VT.gBOOL])
  obtain ⟨⟨pre', post', _, hr⟩, hnot⟩ :=
    callEntry_pulls (st1 := HSt.mk stg.imms stg.live (stg.hyb + 1)
        ((popPending stg.pending (tmpsOfPures gc)).2 ++ [callEntry stg g gc gret]))
      (name := f) (ret := fret) hmem huniq hleaf
  exact ⟨stp, stg, _, gc, _, pre', post', hga, hfa, rfl, hnot, hr⟩

end C08
end Rzil
