import RzilVerif.Lemmas.ExprT2
/-!
# C09 helpers: folded result vs. run-time evaluation, per folding site (repaired lowering)
-/
namespace Rzil

/-- two compiled expressions simulating the same C value evaluate to the same IL value and have the same type -/
theorem Sim.agree {ms σ c1 c2 t vC} (h1 : Sim ms σ c1 t vC) (h2 : Sim ms σ c2 t vC)
    (hb : c1.ty.hasFlag VT.gBOOL = c2.ty.hasFlag VT.gBOOL) :
    evalPure ms σ [] c1.il = evalPure ms σ [] c2.il ∧ vtCT c1.ty = vtCT c2.ty := by
  cases h1 with
  | int x hf ht hev hv hk =>
    cases h2 with
    | int x' hf' ht' hev' hv' hk' =>
      rw [hv] at hv'; injection hv' with _ hxx; subst hxx
      exact ⟨by rw [hev, hev'], by rw [ht, ht']⟩
    | bool b' hf' => rw [hf, hf'] at hb; cases hb
  | bool b hf hw hs ht hev hv hk =>
    cases h2 with
    | int x' hf' => rw [hf, hf'] at hb; cases hb
    | bool b' hf' hw' hs' ht' hev' hv' hk' =>
      have : b = b' := by
        rw [hv] at hv'; simp only [boolVal, Val.bv.injEq, heq_eq_eq, true_and] at hv'
        cases b <;> cases b' <;> simp_all
      subst this
      exact ⟨by rw [hev, hev'], by simp [vtCT, hw, hw', hs, hs']⟩

/-! ## site 1: unary `-` / `~` -/

/-- the run-time (unfolded) form of a unary operator -/
def unRun (cfg : Cfg) (op : String) (ce : CE) : CE :=
  { il := .un (if op == "-" then .neg else .lognot) (promotionCast cfg ce).il, ty := (promotionCast cfg ce).ty, kind := .plain }

theorem sim_unRun {ms σ ce te} {x : BitVec te.width} (op : String) (hs : Sim ms σ ce te (.bv te.width x)) :
    Sim ms σ (unRun Cfg.fixed op ce) te.promote
      (.bv te.promote.width (if op == "-" then -(convBits te te.promote x) else ~~~(convBits te te.promote x))) ∧
    (unRun Cfg.fixed op ce).ty.hasFlag VT.gBOOL = false := by
  have hp := sim_promotionCast hs x rfl
  have hnb := promotionCast_noBool hs
  obtain ⟨ht, hev, -⟩ := hp.int_inv hnb
  refine ⟨Sim.int _ hnb ht ?_ rfl (kindOK_plain _ _), hnb⟩
  simp only [unRun, evalPure, hev, bind, Except.bind]
  split <;> rfl

theorem sim_unFold {ms σ ce te v0} {x : BitVec te.width} (op : String) (hs : Sim ms σ ce te (.bv te.width x))
    (hk : ce.kind = .lit v0) :
    Sim ms σ (unOfCE Cfg.fixed op ce) te.promote
      (.bv te.promote.width (if op == "-" then -(convBits te te.promote x) else ~~~(convBits te te.promote x))) ∧
    (unOfCE Cfg.fixed op ce).ty.hasFlag VT.gBOOL = false := by
  rw [unOfCE_lit_fixed op ce v0 hk]
  obtain ⟨hf, ht, hw, hr, hxv, hil⟩ := hs.lit_inv hk
  have hpe : te.promote = te := CT.promote_of_ge hw
  rw [hpe]
  simp only [convBits_self]
  subst ht
  have hpt : ce.ty.promoted = ce.ty := promoted_of_ge _ hw
  rw [hpt, normInt_of_inRange ce.ty v0 (by simp only [vtCT_width] at hw; omega) hr]
  refine ⟨Sim.int _ hf rfl ?_ rfl ?_, hf⟩
  · simp only [numberIL, evalPure, Except.ok.injEq, Val.bv.injEq, heq_eq_eq, true_and, vtCT_width]
    rw [normInt_spec, hxv]
    split
    · exact BitVec.ofInt_neg
    · exact ofInt_not _ _
  · simp only [KindOK, true_and]
    exact ⟨hw, hf, normInt_inRange _ _ (by simp only [vtCT_width] at hw; omega)⟩

/-! ## site 3: comparisons -/

theorem sim_cmpRun {ms σ ca cb ta tb} {x : BitVec ta.width} {y : BitVec tb.width} (op : String)
    (hsa : Sim ms σ ca ta (.bv ta.width x)) (hsb : Sim ms σ cb tb (.bv tb.width y)) :
    Sim ms σ (cmpOfCE Cfg.fixed op ca cb) intT
      (boolVal (cmpC op (ta.common tb).signed (convBits ta (ta.common tb) x) (convBits tb (ta.common tb) y))) := by
  rw [cmpOfCE_fixed]
  obtain ⟨h1, h2⟩ := sim_arith_operands hsa hsb
  simp only
  refine Sim.bool _ gBoolT_bool rfl rfl rfl ?_ rfl (kindOK_boolObj _ _)
  have hs1 : (castOperands Cfg.fixed (promotionCast Cfg.fixed ca) (promotionCast Cfg.fixed cb)).1.ty.signed =
      (ta.common tb).signed := by rw [← h1.2.1]; rfl
  have hs2 : (castOperands Cfg.fixed (promotionCast Cfg.fixed ca) (promotionCast Cfg.fixed cb)).2.ty.signed =
      (ta.common tb).signed := by rw [← h2.2.1]; rfl
  rw [hs1, hs2, Bool.or_self]
  exact evalPure_cmpIL op _ h1.2.2.1 h2.2.2.1

theorem sim_cmpFold {ms σ ca cb ta tb va0 vb0} {x : BitVec ta.width} {y : BitVec tb.width} (op : String)
    (hsa : Sim ms σ ca ta (.bv ta.width x)) (hsb : Sim ms σ cb tb (.bv tb.width y))
    (hka : ca.kind = .lit va0) (hkb : cb.kind = .lit vb0) :
    Sim ms σ (foldCmp Cfg.fixed op ca cb va0 vb0) intT
      (boolVal (cmpC op (ta.common tb).signed (convBits ta (ta.common tb) x) (convBits tb (ta.common tb) y))) := by
  rw [foldCmp_fixed]
  simp only
  obtain ⟨hfa, hta, hwa, hra, hxa, -⟩ := hsa.lit_inv hka
  obtain ⟨hfb, htb, hwb, hrb, hxb, -⟩ := hsb.lit_inv hkb
  have hc := (c11Cast_common ca.ty cb.ty (by rw [← hta] at hwa; exact hwa) (by rw [← htb] at hwb; exact hwb)).1
  rw [hta, htb] at hc
  have hw := common_width_ge ta tb
  rw [hxa, hxb, convBits_ofInt _ _ va0 (by omega) hra, convBits_ofInt _ _ vb0 (by omega) hrb]
  generalize (VT.c11Cast ca.ty cb.ty).1 = t at *
  generalize ta.common tb = T at *
  subst hc
  simp only [vtCT_width, vtCT_signed] at hw ⊢
  have hpos : 0 < t.width := by omega
  rw [← normInt_spec t va0, ← normInt_spec t vb0,
    cmpC_ofInt op t.signed hpos (normInt_inRange t va0 hpos) (normInt_inRange t vb0 hpos)]
  refine Sim.bool _ gBoolT_bool rfl rfl rfl ?_ rfl (kindOK_boolLit _)
  simp only
  split <;> simp_all [evalPure]

/-! ## site 4: `?:` with a constant condition -/

/-- the run-time (unfolded) form of `?:` -/
def ternRun (cfg : Cfg) (cc ca cb : CE) : CE :=
  let fab := castOperands cfg (promotionCast cfg ca) (promotionCast cfg cb)
  { il := .ite (condIL cfg cc) fab.1.il fab.2.il, ty := fab.1.ty, kind := .plain }

theorem sim_ternRun {ms σ cc ca cb tc ta tb vc bc} {x : BitVec ta.width} {y : BitVec tb.width}
    (hsc : Sim ms σ cc tc vc) (hbc : truthy vc = .ok bc)
    (hsa : Sim ms σ ca ta (.bv ta.width x)) (hsb : Sim ms σ cb tb (.bv tb.width y)) :
    Sim ms σ (ternRun Cfg.fixed cc ca cb) (ta.common tb)
      (.bv (ta.common tb).width (if bc then convBits ta (ta.common tb) x else convBits tb (ta.common tb) y)) ∧
    (ternRun Cfg.fixed cc ca cb).ty.hasFlag VT.gBOOL = false := by
  obtain ⟨h1, h2⟩ := sim_arith_operands hsa hsb
  have hcnd := sim_cond hsc hbc
  refine ⟨Sim.int _ h1.1 h1.2.1 ?_ rfl (kindOK_plain _ _), h1.1⟩
  cases bc <;> simp [ternRun, evalPure, hcnd, h1.2.2.1, h2.2.2.1, bind, Except.bind, Val.sort]

/-- the folded form: the selected arm, converted to the common type of both arms -/
theorem sim_ternFold {ms σ cc ca cb tc ta tb vc bc} {x : BitVec ta.width} {y : BitVec tb.width}
    (hsc : Sim ms σ cc tc vc) (hbc : truthy vc = .ok bc)
    (hsa : Sim ms σ ca ta (.bv ta.width x)) (hsb : Sim ms σ cb tb (.bv tb.width y))
    (hk : (∃ v, cc.kind = .lit v) ∨ (∃ r, cc.kind = .boolLit r)) :
    Sim ms σ (ternOfCE Cfg.fixed cc ca cb) (ta.common tb)
      (.bv (ta.common tb).width (if bc then convBits ta (ta.common tb) x else convBits tb (ta.common tb) y)) ∧
    (ternOfCE Cfg.fixed cc ca cb).ty.hasFlag VT.gBOOL = false := by
  obtain ⟨h1, h2⟩ := sim_arith_operands hsa hsb
  obtain ⟨z, hz⟩ := hsc.bv
  subst hz
  rw [ternOfCE_fixed]
  simp only
  have hsel : ∀ r : Bool, r = bc →
      Sim ms σ (if r = true then (castOperands Cfg.fixed (promotionCast Cfg.fixed ca) (promotionCast Cfg.fixed cb)).1
                else (castOperands Cfg.fixed (promotionCast Cfg.fixed ca) (promotionCast Cfg.fixed cb)).2)
        (ta.common tb) (.bv (ta.common tb).width (if bc then convBits ta (ta.common tb) x else convBits tb (ta.common tb) y)) ∧
      (if r = true then (castOperands Cfg.fixed (promotionCast Cfg.fixed ca) (promotionCast Cfg.fixed cb)).1
                else (castOperands Cfg.fixed (promotionCast Cfg.fixed ca) (promotionCast Cfg.fixed cb)).2).ty.hasFlag VT.gBOOL = false := by
    intro r hr
    subst hr
    cases r
    · simp only [Bool.false_eq_true, if_false]; exact ⟨h2.sim, h2.1⟩
    · simp only [if_true]; exact ⟨h1.sim, h1.1⟩
  rcases hk with ⟨v, hk⟩ | ⟨r, hk⟩
  · simp only [hk]
    obtain ⟨-, -, hw, hr, hzv, -⟩ := hsc.lit_inv hk
    apply hsel
    simp only [truthy, Except.ok.injEq] at hbc
    rw [← hbc, hzv, ofInt_toNat_ne_zero (by omega) hr]
  · simp only [hk]
    apply hsel
    have hko := hsc.kindOK
    simp only [KindOK, hk] at hko
    cases hsc with
    | int z' hf => rw [hf] at hko; cases hko.2
    | bool b hf hw hs ht hev hv hk' =>
      rw [hv] at hbc
      rw [hko.1] at hev
      cases b <;> cases r <;> simp_all [evalPure, truthy, boolVal]

end Rzil
