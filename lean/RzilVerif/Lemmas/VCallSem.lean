import RzilVerif.Lemmas.HybFragD
/-!
  C06 helpers, part 17: void sub-routine call statements `f(exts…, args…);` and call statement-expressions
  `({ f(exts…, args…); val; })` on the two semantics.

  * IL side: the call effect `hex_set_usr_field(bundle, FIELD, v)` (specification-level reading of `ILSem.lean`)
    writes the abstract cell of FIELD; rendering the pending entry of a call statement-expression runs the call,
    then sets the temporary to the value.
  * C side: `execCH` on the call statement does the same write with the converted argument.
  * both: for an argument of the hybrid-free part of the C06 fragment (`postOnly`, no postfix operation) the
    statement `set_usr_field(bundle, FIELD, a);` lowered with the repaired configuration simulates the C statement.
-/
namespace Rzil
namespace C06
open C05

/-! ## the abstract cell -/

/-- the state after `set_usr_field(bundle, fld, x)` -/
def usrState (σ : MState) (fld : String) (x : BitVec 32) : MState :=
  { σ with new := fun k => if k == usrCell fld then x.toNat else σ.new k,
           written := fun k => if k == usrCell fld then true else σ.written k }

theorem writeUsr_bv32 (σ : MState) (fld : String) (x : BitVec 32) :
    writeUsr σ fld (.bv 32 x) = .ok (usrState σ fld x) := by
  simp [writeUsr, usrState]

/-- only a 32-bit value is written -/
theorem writeUsr_ok {σ σ' : MState} {fld : String} {v : Val} (h : writeUsr σ fld v = .ok σ') :
    ∃ x : BitVec 32, v = .bv 32 x ∧ σ' = usrState σ fld x := by
  unfold writeUsr at h
  split at h
  · rename_i w x
    split at h
    · rename_i hw
      subst hw
      injection h with h
      exact ⟨x, rfl, h.symm⟩
    · cases h
  · cases h

@[simp] theorem usrState_locals (σ : MState) (fld : String) (x : BitVec 32) : (usrState σ fld x).locals = σ.locals := rfl
@[simp] theorem usrState_mem (σ : MState) (fld : String) (x : BitVec 32) : (usrState σ fld x).mem = σ.mem := rfl
@[simp] theorem usrState_cur (σ : MState) (fld : String) (x : BitVec 32) : (usrState σ fld x).cur = σ.cur := rfl
@[simp] theorem usrState_imm (σ : MState) (fld : String) (x : BitVec 32) : (usrState σ fld x).imm = σ.imm := rfl

/-- the cell holds the value afterwards and counts as written; every other operand is untouched -/
theorem usrState_cell (σ : MState) (fld : String) (x : BitVec 32) :
    (usrState σ fld x).new (usrCell fld) = x.toNat ∧ (usrState σ fld x).written (usrCell fld) = true ∧
    ∀ k, k ≠ usrCell fld → (usrState σ fld x).new k = σ.new k ∧ (usrState σ fld x).written k = σ.written k := by
  refine ⟨by simp [usrState], by simp [usrState], fun k hk => ?_⟩
  have : (k == usrCell fld) = false := by simpa using hk
  simp only [usrState, this, Bool.false_eq_true, ↓reduceIte, and_self]

/-! ## IL side -/

theorem evalPures_extArgs (ms : MacroSem) (σ : MState) (exts : List String) (cargs : List ILPure) (vs : List Val)
    (h : evalPures ms σ [] cargs = .ok vs) :
    evalPures ms σ [] (extArgs exts ++ cargs) = .ok (exts.map (fun _ => Val.ext) ++ vs) := by
  induction exts with
  | nil => simpa [extArgs] using h
  | cons x xs ih =>
    have ih' : evalPures ms σ [] (extArgs xs ++ cargs) = .ok (xs.map (fun _ => Val.ext) ++ vs) := ih
    simp only [extArgs, List.map_cons, List.cons_append] at ih' ⊢
    rw [evalPures]
    simp only [evalPure, bind, Except.bind]
    rw [ih']

theorem hex_set_usr_field_prefix : ("hex_" ++ "set_usr_field").startsWith "hex_" = true := by simp

/-- **IL semantics of the call effect.** With no compiled body supplied (`subs = []`), `hex_set_usr_field(b, FIELD, c)`
    writes the 32-bit value of `c` to the abstract cell of FIELD, for every amount of fuel ≥ 1. -/
theorem ExecIL_vcall_usr {ms : MacroSem} {σ : MState} {b fld : String} {carg : ILPure} {x : BitVec 32}
    (h : evalPure ms σ [] carg = .ok (.bv 32 x)) :
    ExecIL ms (vcallEffect "set_usr_field" [b, fld] [carg]) σ (usrState σ fld x) := by
  refine ExecIL_of_step (fun k => ?_)
  have hargs : evalPures ms σ [] (extArgs [b, fld] ++ [carg]) = .ok ([Val.ext, Val.ext] ++ [.bv 32 x]) := by
    refine evalPures_extArgs ms σ [b, fld] [carg] [.bv 32 x] ?_
    rw [evalPures]; simp only [h, bind, Except.bind, evalPures]
  unfold vcallEffect
  rw [execIL]
  refine bind_ok_of hargs ?_
  rw [if_pos hex_set_usr_field_prefix]
  have hl : lookupS (("hex_" ++ "set_usr_field").drop 4).toString ([] : SubEnv) = none := rfl
  rw [hl]
  simp only [setUsrFieldIL, extArgs, List.map_cons, List.map_nil, List.cons_append, List.nil_append, extName]
  rw [if_pos (by simp)]
  exact writeUsr_bv32 σ fld x

/-- rendering a pending entry of the `EXEC_THEN_SET_VAL` kind without dependencies: the effect part runs, then the
    temporary receives the value (evaluated AFTER the effect) -/
theorem execThenSet_render_exec (ms : MacroSem) (tmp : String) (ex : ILEffect) (v : ILPure) (gcc : Bool)
    (σ σ1 : MState) (x : Val) (h1 : ExecIL ms ex σ σ1) (hv : evalPure ms σ1 [] v = .ok x) :
    ExecIL ms (Pend.render { tmp := tmp, deps := [], exec := ex, setTmp := .setl tmp v, setFirst := false, gcc := gcc })
      σ { σ1 with locals := setLocal σ1.locals tmp x } := by
  unfold Pend.render
  rw [mkSeq_exec]
  simp only [List.nil_append, Bool.false_eq_true, ↓reduceIte]
  refine ExecSeqIL_cons (ExecIL_seqn.mpr ?_) ExecSeqIL_nil
  exact ExecSeqIL_cons h1 (ExecSeqIL_cons (ExecIL_setl (vv := x) hv) ExecSeqIL_nil)

/-- **(8c)** the entry of `({ set_usr_field(b, FIELD, c); val; })`, nothing pending inside: the cell is written, then the
    temporary holds the value of `val` in the state after the call -/
theorem seq_render_exec (ms : MacroSem) (st : HSt) (b fld : String) (carg v : ILPure) (σ : MState) (x : BitVec 32) (y : Val)
    (hdeps : (popPending st.pending (tmpsOfPures [carg] ++ tmpsOfPure v)).1 = [])
    (hc : evalPure ms σ [] carg = .ok (.bv 32 x)) (hv : evalPure ms (usrState σ fld x) [] v = .ok y) :
    ExecIL ms (seqPend st "set_usr_field" [b, fld] [carg] v).render σ
      { usrState σ fld x with locals := setLocal σ.locals (tmpName st.hyb) y } := by
  have := execThenSet_render_exec ms (tmpName st.hyb) (vcallEffect "set_usr_field" [b, fld] [carg]) v true σ
    (usrState σ fld x) y (ExecIL_vcall_usr hc) hv
  simpa [seqPend, hdeps] using this

/-! ## C side -/

/-- `set_usr_field(b, FIELD, a);` on the C side: the argument (converted to `uint32_t`) goes to the cell -/
theorem execCH_vcall_usr {ms : MacroSem} {subs : CSubEnv} {f : Nat} {σ σ1 : MState} {b fld : String} {a : CExpr}
    {va : Val} {x : BitVec 32}
    (ha : evalCH ms subs f σ a = .ok (va, σ1)) (hc : convC (typeOfC a) utT va = .ok (.bv 32 x)) :
    execCH ms subs (f+2) (.vcall "set_usr_field" [b, fld] [a] [utT]) σ = .ok (usrState σ1 fld x) := by
  cases f with
  | zero => simp [evalCH] at ha
  | succ f =>
    rw [execCH]
    have hargs : evalCHArgs ms subs (f+1+1) σ [a] [utT] = .ok ([.bv 32 x], σ1) := by
      rw [evalCHArgs]
      refine bind_ok_of ha ?_
      refine bind_ok_of hc ?_
      rw [evalCHArgs]; rfl
    refine bind_ok_of hargs ?_
    simp only [voidCallC]
    exact writeUsr_bv32 σ1 fld x

theorem evalCHArgs_single_inv {ms : MacroSem} {subs : CSubEnv} {f : Nat} {σ σ1 : MState} {a : CExpr} {p : CT}
    {vs : List Val} (h : evalCHArgs ms subs (f+1) σ [a] [p] = .ok (vs, σ1)) :
    ∃ va v', evalCH ms subs f σ a = .ok (va, σ1) ∧ convC (typeOfC a) p va = .ok v' ∧ vs = [v'] := by
  rw [evalCHArgs] at h
  obtain ⟨⟨va, σa⟩, hva, h⟩ := bind_ok h
  simp only at h
  obtain ⟨v', hcv, h⟩ := bind_ok h
  obtain ⟨⟨vr, σr⟩, hr, h⟩ := bind_ok h
  simp only [Except.ok.injEq, Prod.mk.injEq] at h
  obtain ⟨rfl, rfl⟩ := h
  have : vr = [] ∧ σr = σa := by
    cases f with
    | zero => simp [evalCHArgs] at hr
    | succ f =>
      rw [evalCHArgs] at hr
      simp only [Except.ok.injEq, Prod.mk.injEq] at hr
      exact ⟨hr.1.symm, hr.2.symm⟩
  obtain ⟨rfl, rfl⟩ := this
  exact ⟨va, v', hva, hcv, rfl⟩

/-! ## an argument without value-producing side effects -/

theorem unhyb_noPosts : (e : CExpr) → (k : Nat) → postOnly e = true → postsOf e = [] → unhyb k e = e
  | .reg _ _ _, _, _, _ => rfl
  | .imm _ _, _, _, _ => rfl
  | .lit _ _ _, _, _, _ => rfl
  | .var _ _, _, _, _ => rfl
  | .load _ _ _, _, _, _ => rfl
  | .cast t e, k, hp, hn => by
      simp only [postOnly] at hp; simp only [postsOf] at hn
      simp only [unhyb, unhyb_noPosts e k hp hn]
  | .un op e, k, hp, hn => by
      simp only [postOnly] at hp; simp only [postsOf] at hn
      simp only [unhyb, unhyb_noPosts e k hp hn]
  | .not e, k, hp, hn => by
      simp only [postOnly] at hp; simp only [postsOf] at hn
      simp only [unhyb, unhyb_noPosts e k hp hn]
  | .bin op a b, k, hp, hn => by
      simp only [postOnly, Bool.and_eq_true] at hp
      simp only [postsOf, List.append_eq_nil_iff] at hn
      simp only [unhyb, hn.1, List.length_nil, Nat.add_zero, unhyb_noPosts a k hp.1 hn.1, unhyb_noPosts b k hp.2 hn.2]
  | .shift op a b, k, hp, hn => by
      simp only [postOnly, Bool.and_eq_true] at hp
      simp only [postsOf, List.append_eq_nil_iff] at hn
      simp only [unhyb, hn.1, List.length_nil, Nat.add_zero, unhyb_noPosts a k hp.1 hn.1, unhyb_noPosts b k hp.2 hn.2]
  | .cmp op a b, k, hp, hn => by
      simp only [postOnly, Bool.and_eq_true] at hp
      simp only [postsOf, List.append_eq_nil_iff] at hn
      simp only [unhyb, hn.1, List.length_nil, Nat.add_zero, unhyb_noPosts a k hp.1 hn.1, unhyb_noPosts b k hp.2 hn.2]
  | .post _ _ _, _, _, hn => by simp [postsOf] at hn
  | .log _ _ _, _, hp, _ => by simp [postOnly] at hp
  | .tern _ _ _, _, hp, _ => by simp [postOnly] at hp
  | .macro _ _ _ _, _, hp, _ => by simp [postOnly] at hp
  | .call _ _ _ _, _, hp, _ => by simp [postOnly] at hp
  | .stmtexpr _ _ _, _, hp, _ => by simp [postOnly] at hp
  | .seqexpr _ _ _ _ _, _, hp, _ => by simp [postOnly] at hp

theorem Ext.self (k : Nat) (reads : List String) (σ : MState) : Ext k reads [] σ σ :=
  ⟨rfl, rfl, rfl, rfl, rfl, rfl, fun _ _ _ h => h, fun j p hj => by simp at hj⟩

/-- C side: such an argument is evaluated by the pure evaluator and leaves the state alone -/
theorem evalCH_pure (ms : MacroSem) (subs : CSubEnv) {e : CExpr} (hp : postOnly e = true) (hn : postsOf e = [])
    {f : Nat} {σ σ' : MState} {v : Val} (h : evalCH ms subs f σ e = .ok (v, σ')) :
    σ' = σ ∧ evalC ms σ e = .ok v := by
  obtain ⟨h1, _, h3⟩ := evalCH_frag ms subs e hp (by simp [hn]) (by simp [hn]) f σ σ' v h
  rw [hn] at h1
  refine ⟨h1, ?_⟩
  have := h3 0 σ (by rw [hn]; exact Ext.self 0 _ σ)
  rwa [unhyb_noPosts e 0 hp hn] at this

/-- compile side: such an argument is lowered by the pure lowering and leaves the hybrid state alone -/
theorem compileExprH_pure {env : CEnv} (hcfg : env.cfg.literalTypeBySuffixOnly = false) {e : CExpr}
    (hp : postOnly e = true) (hn : postsOf e = []) {st st' : HSt} {ce : CE}
    (h : compileExprH env st e = .ok (ce, st')) :
    compileExpr env e = .ok ce ∧ st'.pending = st.pending ∧ st'.hyb = st.hyb := by
  have r := compileExprH_frag env hcfg e hp h
  refine ⟨?_, ?_, ?_⟩
  · have := r.plain; rwa [unhyb_noPosts e _ hp hn] at this
  · have := r.pending; rwa [hn, postPendsFrom, List.append_nil] at this
  · have := r.hyb; rwa [hn, List.length_nil, Nat.add_zero] at this

/-! ## simulation of `set_usr_field(bundle, FIELD, a);` -/

/-- both sides write the same cell (not a source operand of the context) -/
theorem inv_usr {c : Ctx} {σC σIL : MState} (h : Inv c σC σIL) (fld : String) (x : BitVec 32)
    (hsrc : usrCell fld ∉ c.srcs) : Inv c (usrState σC fld x) (usrState σIL fld x) :=
  h.writeReg (usrCell fld) x.toNat hsrc

section
variable {ms : MacroSem} {WF : MState → CExpr → Prop} {c : Ctx} {env : CEnv}

/-- **(8d) fragment simulation for the void call statement.** `set_usr_field(b, FIELD, a);` with an argument `a` of the
    hybrid-free part of the fragment, lowered with the repaired configuration: the statement's effect — the call,
    at the place of the statement — executed from an `Inv`-related state ends in a state `Inv`-related to the result
    of `execCH`; nothing becomes pending. -/
theorem vcall_usr_correct (hE : ExprOK ms WF) (henv : env.cfg = Cfg.fixed)
    {st st' : HSt} {b fld : String} {a : CExpr} {eff : Option ILEffect} {bare : List String}
    (hcomp : compileStmtH env st (.vcall "set_usr_field" [b, fld] [a] [utT]) = .ok (eff, bare, st'))
    (hfrag : postOnly a = true) (hnop : postsOf a = [])
    (hWF : WFHyp ms WF c [a]) (hsrc : usrCell fld ∉ c.srcs)
    {subs : CSubEnv} {σC σIL σC' : MState} {f : Nat}
    (hinv : Inv c σC σIL)
    (hex : execCH ms subs (f+1) (.vcall "set_usr_field" [b, fld] [a] [utT]) σC = .ok σC') :
    ∃ effIL σIL', eff = some effIL ∧ bare = [] ∧ ExecIL ms effIL σIL σIL' ∧ Inv c σC' σIL' ∧
      st'.pending = st.pending := by
  have hcfg : env.cfg.literalTypeBySuffixOnly = false := by rw [henv]; rfl
  -- compile side
  obtain ⟨cargs, hargs, rfl, rfl⟩ := invS_vcall hcomp
  obtain ⟨ca, s1, rest, h1, h2, rfl⟩ := inv_args_cons hargs
  obtain ⟨rfl, rfl⟩ := inv_args_nil h2
  obtain ⟨hce, hpend, _⟩ := compileExprH_pure hcfg hfrag hnop h1
  -- C side
  rw [execCH] at hex
  obtain ⟨⟨vs, σ1⟩, hev, hex⟩ := bind_ok hex
  cases f with
  | zero => simp [evalCHArgs] at hev
  | succ f =>
    obtain ⟨va, va', hva, hcv, rfl⟩ := evalCHArgs_single_inv hev
    obtain ⟨rfl, hvaC⟩ := evalCH_pure ms subs hfrag hnop hva
    -- the expression theorem and the conversion to `uint32_t`
    have hsim := expr_sim hE henv (hinv.rel.agreeOn _ _ _) hinv.inv hinv.immVal hWF hvaC hce
    obtain ⟨x, hcx, _, he, _⟩ := sim_convTo utT hsim (by decide)
    rw [hcx] at hcv; cases hcv
    simp only [voidCallC] at hex
    have hx : writeUsr σ1 fld (Val.bv 32 x) = .ok (usrState σ1 fld x) := writeUsr_bv32 σ1 fld x
    rw [show writeUsr σ1 fld (Val.bv utT.width x) = writeUsr σ1 fld (Val.bv 32 x) from rfl, hx] at hex
    cases hex
    refine ⟨_, usrState σIL fld x, rfl, rfl, ?_, inv_usr hinv fld x hsrc, hpend⟩
    have he' : evalPure ms σIL [] (if ca.ty.eqv utT.toVT then ca else initACast env.cfg utT.toVT ca).il = .ok (.bv 32 x) := by
      rw [convTo_eq, henv]; exact he
    exact ExecIL_vcall_usr he'

end

end C06
end Rzil
