import RzilVerif.Model.Compile
import RzilVerif.Lemmas.ExprAttr
/-!
# Bit-vector level lemmas for the expression lowering (C02 / C03 / C09)
-/
namespace Rzil

/-! ## projections of the configurations -/
@[cfgsimp] theorem fixed_castFillNeedsBothSigned : Cfg.fixed.castFillNeedsBothSigned = false := rfl
@[cfgsimp] theorem asCode_castFillNeedsBothSigned : Cfg.asCode.castFillNeedsBothSigned = true := rfl
@[cfgsimp] theorem fixed_shiftLeftUnpromoted : Cfg.fixed.shiftLeftUnpromoted = false := rfl
@[cfgsimp] theorem asCode_shiftLeftUnpromoted : Cfg.asCode.shiftLeftUnpromoted = true := rfl
@[cfgsimp] theorem fixed_cmpUnpromoted : Cfg.fixed.cmpUnpromoted = false := rfl
@[cfgsimp] theorem asCode_cmpUnpromoted : Cfg.asCode.cmpUnpromoted = true := rfl
@[cfgsimp] theorem fixed_compoundNoConvertBack : Cfg.fixed.compoundNoConvertBack = false := rfl
@[cfgsimp] theorem asCode_compoundNoConvertBack : Cfg.asCode.compoundNoConvertBack = true := rfl
@[cfgsimp] theorem fixed_explicitPairNarrow : Cfg.fixed.explicitPairNarrow = false := rfl
@[cfgsimp] theorem asCode_explicitPairNarrow : Cfg.asCode.explicitPairNarrow = true := rfl
@[cfgsimp] theorem fixed_loadAlwaysCast : Cfg.fixed.loadAlwaysCast = true := rfl
@[cfgsimp] theorem asCode_loadAlwaysCast : Cfg.asCode.loadAlwaysCast = true := rfl
@[cfgsimp] theorem fixed_boolOpTypedAsOperand : Cfg.fixed.boolOpTypedAsOperand = false := rfl
@[cfgsimp] theorem asCode_boolOpTypedAsOperand : Cfg.asCode.boolOpTypedAsOperand = true := rfl
@[cfgsimp] theorem fixed_boolFlagCopied : Cfg.fixed.boolFlagCopied = false := rfl
@[cfgsimp] theorem asCode_boolFlagCopied : Cfg.asCode.boolFlagCopied = true := rfl
@[cfgsimp] theorem fixed_condByObjectKind : Cfg.fixed.condByObjectKind = false := rfl
@[cfgsimp] theorem asCode_condByObjectKind : Cfg.asCode.condByObjectKind = true := rfl
@[cfgsimp] theorem fixed_literalTypeBySuffixOnly : Cfg.fixed.literalTypeBySuffixOnly = false := rfl
@[cfgsimp] theorem asCode_literalTypeBySuffixOnly : Cfg.asCode.literalTypeBySuffixOnly = true := rfl
@[cfgsimp] theorem fixed_assignedRegsReadNew : Cfg.fixed.assignedRegsReadNew = false := rfl
@[cfgsimp] theorem asCode_assignedRegsReadNew : Cfg.asCode.assignedRegsReadNew = true := rfl

/-! ## `ilCast` -/

theorem ilCast_false_eq_setWidth {n : Nat} (x : BitVec n) (w : Nat) : ilCast w false x = x.setWidth w := by
  unfold ilCast; split <;> simp

theorem ilCast_msb_eq_signExtend {n : Nat} (x : BitVec n) (w : Nat) : ilCast w x.msb x = x.signExtend w := by
  unfold ilCast
  by_cases h : w ≤ n
  · rw [if_pos h, BitVec.signExtend_eq_setWidth_of_le x h]
  · rw [if_neg h]
    cases hm : x.msb
    · simp only [Bool.false_eq_true, if_false]
      exact (BitVec.signExtend_eq_setWidth_of_msb_false hm).symm
    · simp only [if_true]
      ext i hi
      simp only [BitVec.getElem_or, BitVec.getElem_setWidth, BitVec.getElem_shiftLeft,
        BitVec.getElem_signExtend, BitVec.getElem_allOnes, hm]
      by_cases hin : i < n <;> simp [*]


/-! ## `convBits` bitwise -/


def extBit {n : Nat} (sg : Bool) (x : BitVec n) (i : Nat) : Bool :=
  if i < n then x.getLsbD i else (sg && x.msb)

theorem getLsbD_convBits (s d : CT) {n : Nat} (x : BitVec n) (i : Nat) :
    (convBits s d x).getLsbD i = (decide (i < d.width) && extBit s.signed x i) := by
  unfold convBits extBit
  split
  · next h =>
    rw [BitVec.getLsbD_setWidth]
    by_cases h1 : i < d.width
    · have : i < n := by omega
      simp [*]
    · simp [*]
  · split
    · next h hs => rw [BitVec.getLsbD_signExtend, hs]; simp
    · next h hs =>
      rw [BitVec.getLsbD_setWidth]
      by_cases h1 : i < n
      · simp [*]
      · have : x.getLsbD i = false := BitVec.getLsbD_of_ge x i (by omega)
        simp [*]

theorem CT.promote_of_lt {s : CT} (h : s.width < 32) : s.promote = ⟨true, 32⟩ := by
  unfold CT.promote; rw [if_pos h]
theorem CT.promote_of_ge {s : CT} (h : 32 ≤ s.width) : s.promote = s := by
  unfold CT.promote; rw [if_neg (by omega)]

theorem convBits_promote (s d : CT) (x : BitVec s.width) :
    convBits s.promote d (convBits s s.promote x) = convBits s d x := by
  apply BitVec.eq_of_getLsbD_eq
  intro i hi
  simp only [getLsbD_convBits, hi, decide_true, Bool.true_and]
  by_cases h : s.width < 32
  · -- narrow source, promoted to int
    rw [CT.promote_of_lt h]
    simp only [extBit]
    by_cases h1 : i < 32
    · rw [if_pos h1, getLsbD_convBits]; simp only [extBit, h1, decide_true, Bool.true_and]
    · have h2 : ¬ i < s.width := by omega
      simp only [h1, h2, if_false, Bool.true_and]
      rw [BitVec.msb_eq_getLsbD_last, getLsbD_convBits]
      have h3 : ¬ (32 - 1 < s.width) := by omega
      simp [extBit, h3]
  · rw [CT.promote_of_ge (by omega)]
    simp only [extBit]
    by_cases h1 : i < s.width
    · rw [if_pos h1, getLsbD_convBits]; simp only [extBit, h1, decide_true, Bool.true_and, if_true]
    · simp only [h1, if_false]
      rw [BitVec.msb_eq_getLsbD_last, getLsbD_convBits]
      have h3 : s.width - 1 < s.width := by omega
      simp [extBit, h3, BitVec.msb_eq_getLsbD_last]


theorem toNat_setWidth_of_le {n w : Nat} (x : BitVec n) (h : n ≤ w) : (x.setWidth w).toNat = x.toNat := by
  rw [BitVec.toNat_setWidth]
  apply Nat.mod_eq_of_lt
  exact Nat.lt_of_lt_of_le x.isLt (Nat.pow_le_pow_right (by omega) h)

/-- widening conversions keep (non-)zeroness -/
theorem convBits_toNat_ne_zero (s d : CT) {n : Nat} (x : BitVec n) (h : n ≤ d.width) :
    ((convBits s d x).toNat != 0) = (x.toNat != 0) := by
  have h1 := toNat_setWidth_of_le x h
  have h2 := BitVec.toNat_signExtend x (v := d.width)
  unfold convBits
  split
  · rw [h1]
  · split
    · rw [h2, h1, Bool.eq_iff_iff]
      simp only [bne_iff_ne]
      by_cases hx : x.toNat = 0
      · have hm : x.msb = false := by
          rw [BitVec.msb_eq_decide]; have := Nat.pow_pos (n := n - 1) (show 0 < 2 by omega); simp; omega
        simp [hm]
      · constructor
        · intro _; exact hx
        · intro _; omega
    · rw [h1]


/-! ## `ofInt`, `normInt`, literal ranges -/


theorem ofInt_congr {w : Nat} {a b : Int} (h : a % (2 ^ w : Nat) = b % (2 ^ w : Nat)) :
    BitVec.ofInt w a = BitVec.ofInt w b := by
  apply BitVec.eq_of_toNat_eq
  rw [BitVec.toNat_ofInt, BitVec.toNat_ofInt, h]

theorem setWidth_eq_ofInt_toNat {n : Nat} (x : BitVec n) (d : Nat) : x.setWidth d = BitVec.ofInt d (x.toNat : Int) := by
  rw [BitVec.ofInt_natCast, BitVec.ofNat_toNat]

theorem signExtend_eq_ofInt_toInt {n : Nat} (x : BitVec n) (d : Nat) : x.signExtend d = BitVec.ofInt d x.toInt := rfl

theorem two_pow_cast (w : Nat) : ((2 ^ w : Nat) : Int) = (2 : Int) ^ w := by simp

theorem normInt_spec (t : VT) (v : Int) : BitVec.ofInt t.width (normInt t v) = BitVec.ofInt t.width v := by
  apply ofInt_congr
  unfold normInt
  simp only
  split
  · rw [Int.sub_emod_right, Int.emod_emod]
  · rw [Int.emod_emod]

/-- `v` is representable in the integer type `(sg, w)` -/
def InRangeI (sg : Bool) (w : Nat) (v : Int) : Prop :=
  if sg then -((2 ^ (w - 1) : Nat) : Int) ≤ v ∧ v < ((2 ^ (w - 1) : Nat) : Int) else 0 ≤ v ∧ v < ((2 ^ w : Nat) : Int)

instance (sg : Bool) (w : Nat) (v : Int) : Decidable (InRangeI sg w v) := by
  unfold InRangeI; exact inferInstance

theorem normInt_inRange (t : VT) (v : Int) (hw : 0 < t.width) : InRangeI t.signed t.width (normInt t v) := by
  unfold normInt InRangeI
  have hp : (2 ^ t.width : Nat) = 2 * 2 ^ (t.width - 1) := by
    conv => lhs; rw [show t.width = (t.width - 1) + 1 by omega]
    rw [Nat.pow_succ]; omega
  have h0 : 0 < (2 ^ (t.width - 1) : Nat) := Nat.pow_pos (by omega)
  have hm0 : 0 ≤ v % ((2 ^ t.width : Nat) : Int) := Int.emod_nonneg _ (by omega)
  have hm1 : v % ((2 ^ t.width : Nat) : Int) < ((2 ^ t.width : Nat) : Int) := Int.emod_lt_of_pos _ (by omega)
  generalize v % ((2 ^ t.width : Nat) : Int) = m at *
  generalize (2 ^ t.width : Nat) = P at *
  generalize (2 ^ (t.width - 1) : Nat) = H at *
  subst hp
  cases t.signed <;> simp only [Bool.false_and, Bool.true_and, Bool.false_eq_true, if_false, if_true, decide_eq_true_eq]
  · omega
  · split <;> omega

theorem normInt_of_inRange (t : VT) (v : Int) (hw : 0 < t.width) (h : InRangeI t.signed t.width v) : normInt t v = v := by
  unfold InRangeI at h
  unfold normInt
  have hp : (2 ^ t.width : Nat) = 2 * 2 ^ (t.width - 1) := by
    conv => lhs; rw [show t.width = (t.width - 1) + 1 by omega]
    rw [Nat.pow_succ]; omega
  have h0 : 0 < (2 ^ (t.width - 1) : Nat) := Nat.pow_pos (by omega)
  simp only
  cases hs : t.signed <;> simp only [hs, Bool.false_and, Bool.true_and, Bool.false_eq_true, if_false, if_true, decide_eq_true_eq] at h ⊢
  · exact Int.emod_eq_of_lt h.1 h.2
  · by_cases hv : 0 ≤ v
    · have : v % ((2 ^ t.width : Nat) : Int) = v := Int.emod_eq_of_lt hv (by omega)
      rw [this]; rw [if_neg (by omega)]
    · have : v % ((2 ^ t.width : Nat) : Int) = v + ((2 ^ t.width : Nat) : Int) := by
        rw [← Int.add_emod_right]; exact Int.emod_eq_of_lt (by omega) (by omega)
      rw [this]; rw [if_pos (by omega)]; omega



theorem pow_cast_dvd {d n : Nat} (h : d ≤ n) : (((2 ^ d : Nat) : Int)) ∣ ((2 ^ n : Nat) : Int) := by
  apply Int.natCast_dvd_natCast.mpr
  exact Nat.pow_dvd_pow 2 h

theorem toNat_ofInt_cast {n : Nat} (v : Int) : (((BitVec.ofInt n v).toNat : Nat) : Int) = v % ((2 ^ n : Nat) : Int) := by
  rw [BitVec.toNat_ofInt]
  exact Int.toNat_of_nonneg (Int.emod_nonneg _ (by have := Nat.pow_pos (n := n) (show 0 < 2 by omega); omega))

theorem toInt_ofInt_of_inRange {n : Nat} (hn : 0 < n) {v : Int} (h : InRangeI true n v) : (BitVec.ofInt n v).toInt = v := by
  simp only [InRangeI, if_true] at h
  apply BitVec.toInt_ofInt_eq_self hn
  · have := h.1; simp only [Int.natCast_pow] at this; simpa using this
  · have := h.2; simp only [Int.natCast_pow] at this; simpa using this

theorem toNat_ofInt_of_inRange {n : Nat} {v : Int} (h : InRangeI false n v) : ((BitVec.ofInt n v).toNat : Int) = v := by
  simp only [InRangeI, Bool.false_eq_true, if_false] at h
  rw [toNat_ofInt_cast]; exact Int.emod_eq_of_lt h.1 h.2

theorem convBits_ofInt (s d : CT) (v : Int) (hw : 0 < s.width) (h : InRangeI s.signed s.width v) :
    convBits s d (BitVec.ofInt s.width v) = BitVec.ofInt d.width v := by
  unfold convBits
  split
  · next hle =>
    rw [setWidth_eq_ofInt_toNat, toNat_ofInt_cast]
    apply ofInt_congr
    exact Int.emod_emod_of_dvd _ (pow_cast_dvd hle)
  · cases hs : s.signed
    · rw [hs] at h
      simp only [Bool.false_eq_true, if_false]
      rw [setWidth_eq_ofInt_toNat, toNat_ofInt_of_inRange h]
    · rw [hs] at h
      simp only [if_true]
      rw [signExtend_eq_ofInt_toInt, toInt_ofInt_of_inRange hw h]



def cmpInt (op : String) (va vb : Int) : Bool :=
  if op == "<" then decide (va < vb) else if op == ">" then decide (va > vb)
  else if op == "<=" then decide (va ≤ vb) else if op == ">=" then decide (va ≥ vb)
  else if op == "==" then decide (va = vb) else decide (va ≠ vb)

theorem ofInt_inj_of_inRange {sg : Bool} {w : Nat} (hw : 0 < w) {a b : Int} (ha : InRangeI sg w a) (hb : InRangeI sg w b)
    (h : BitVec.ofInt w a = BitVec.ofInt w b) : a = b := by
  cases sg
  · have := toNat_ofInt_of_inRange ha; have := toNat_ofInt_of_inRange hb; rw [h] at *; omega
  · have := toInt_ofInt_of_inRange hw ha; have := toInt_ofInt_of_inRange hw hb; rw [h] at *; omega

theorem cmpC_ofInt (op : String) (sg : Bool) {w : Nat} (hw : 0 < w) {a b : Int}
    (ha : InRangeI sg w a) (hb : InRangeI sg w b) :
    cmpC op sg (BitVec.ofInt w a) (BitVec.ofInt w b) = cmpInt op a b := by
  have heq : (BitVec.ofInt w a == BitVec.ofInt w b) = decide (a = b) := by
    by_cases h : a = b
    · subst h; simp
    · have : BitVec.ofInt w a ≠ BitVec.ofInt w b := fun h' => h (ofInt_inj_of_inRange hw ha hb h')
      simp [h, this]
  have hne : (BitVec.ofInt w a != BitVec.ofInt w b) = decide (a ≠ b) := by
    rw [bne, heq]; simp
  cases sg
  · have h1 := toNat_ofInt_of_inRange ha; have h2 := toNat_ofInt_of_inRange hb
    unfold cmpC cmpInt
    split <;> simp only [Bool.false_eq_true, if_false, BitVec.ult_eq_decide, BitVec.ule_eq_decide, heq, hne]
    all_goals generalize (BitVec.ofInt w a).toNat = x at *
    all_goals generalize (BitVec.ofInt w b).toNat = y at *
    all_goals subst h1 h2
    all_goals first
      | (simp (decide := true) [*]; done)
      | (rename_i h1 h2 h3 h4 h5
         have h1 : ¬ op = "<" := h1
         have h2 : ¬ op = ">" := h2
         have h3 : ¬ op = "<=" := h3
         have h4 : ¬ op = ">=" := h4
         have h5 : ¬ op = "==" := h5
         simp [h1, h2, h3, h4, h5])
  · have h1 := toInt_ofInt_of_inRange hw ha; have h2 := toInt_ofInt_of_inRange hw hb
    unfold cmpC cmpInt
    split <;> simp only [if_true, BitVec.slt_eq_decide, BitVec.sle_eq_decide, heq, hne]
    all_goals generalize (BitVec.ofInt w a).toInt = x at *
    all_goals generalize (BitVec.ofInt w b).toInt = y at *
    all_goals subst h1 h2
    all_goals first
      | (simp (decide := true) [*]; done)
      | (rename_i h1 h2 h3 h4 h5
         have h1 : ¬ op = "<" := h1
         have h2 : ¬ op = ">" := h2
         have h3 : ¬ op = "<=" := h3
         have h4 : ¬ op = ">=" := h4
         have h5 : ¬ op = "==" := h5
         simp [h1, h2, h3, h4, h5])


end Rzil
