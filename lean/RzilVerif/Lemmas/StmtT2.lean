import RzilVerif.Model.StmtWF
import RzilVerif.Lemmas.StmtFuel
/-!
  C05 helpers, part 7 (T2): on the carve-out `CarveS` the lowering as coded equals the repaired one.
-/
namespace Rzil
namespace C05

theorem initACast_cfg_eq {tgt : VT} {p : CE} (h : castOK tgt p = true) :
    initACast Cfg.asCode tgt p = initACast Cfg.fixed tgt p := by
  unfold initACast
  by_cases heq : tgt.eqv p.ty = true
  · simp only [heq, ↓reduceIte]
  · simp only [castOK, heq, Bool.false_eq_true, Bool.false_or] at h
    simp only [heq, Bool.false_eq_true, ↓reduceIte]
    by_cases hb : (p.ty.hasFlag VT.gBOOL && !tgt.hasFlag VT.gBOOL) = true
    · simp only [hb, ↓reduceIte, beq_iff_eq] at h ⊢
      simp only [Cfg.asCode, Cfg.fixed, ↓reduceIte, condILk, h, Bool.false_eq_true]
    · simp only [hb, Bool.false_eq_true, ↓reduceIte, Bool.or_eq_true, Bool.not_eq_eq_eq_not, Bool.not_true] at h ⊢
      simp only [Cfg.asCode, Cfg.fixed, ↓reduceIte, Bool.false_eq_true]
      rcases h with h | h <;> simp [h]

theorem condIL_cfg_eq {cc : CE} (h : condOK cc = true) : condIL Cfg.asCode cc = condIL Cfg.fixed cc := by
  simp only [condOK, beq_iff_eq] at h
  simp only [condIL, Cfg.asCode, Cfg.fixed, ↓reduceIte, Bool.false_eq_true, condILk]
  by_cases hk : cc.kind = .boolObj
  · have : cc.ty.hasFlag VT.gBOOL = true := by rw [← h]; simp [hk]
    simp [hk, this]
  · have : cc.ty.hasFlag VT.gBOOL = false := by rw [← h]; simp [hk]
    simp only [this, Bool.false_eq_true, ↓reduceIte]

theorem convTo_eq2 (cfg : Cfg) (t : VT) (ce : CE) :
    (if t.eqv ce.ty then ce else initACast cfg t ce) = initACast cfg t ce := by
  unfold initACast
  split <;> rfl

theorem promotionCast_noop (cfg : Cfg) {p : CE} (h : p.ty.width ≥ 32) : promotionCast cfg p = p := by
  unfold promotionCast
  simp only [VT.promoted, h, ↓reduceIte, VT.eqv, beq_self_eq_true, Bool.and_self]

theorem initACast_width (cfg : Cfg) (t : VT) (p : CE) : (initACast cfg t p).ty.width = t.width := by
  unfold initACast
  by_cases heq : t.eqv p.ty = true
  · simp only [heq, ↓reduceIte]
    simp only [VT.eqv, Bool.and_eq_true, beq_iff_eq] at heq
    exact heq.1.symm
  · simp only [heq, Bool.false_eq_true, ↓reduceIte]
    split <;> rfl

theorem initACast_eqv (cfg : Cfg) (t : VT) (p : CE) : (initACast cfg t p).ty.eqv t = true := by
  unfold initACast
  by_cases heq : t.eqv p.ty = true
  · simp only [heq, ↓reduceIte]
    simp only [VT.eqv, Bool.and_eq_true, beq_iff_eq] at heq ⊢
    exact ⟨heq.1.symm, heq.2.symm⟩
  · simp only [heq, Bool.false_eq_true, ↓reduceIte]
    split <;> simp [VT.eqv]

/-- the expression-level T2 for the environment `env` (only `env.assigned` matters), as a hypothesis on the
    carve-out function `CarveE` (instantiate with `CarveE env.assigned` of the expression task) -/
def ExprT2 (env : CEnv) (CarveE : CExpr → Bool) : Prop :=
  ∀ (e : CExpr), CarveE e = true →
    compileExpr { env with cfg := Cfg.asCode } e = compileExpr { env with cfg := Cfg.fixed } e

section
variable {CarveE : CExpr → Bool} {env : CEnv} (hT2 : ExprT2 env CarveE)
include hT2

theorem T2_expr {e : CExpr} (h : CarveE e = true) :
    compileExpr (codeEnv env) e = compileExpr (fixedEnv env) e := hT2 e h

theorem T2_decl (st : TSt) (t : CT) (n : String) (e : CExpr)
    (h : CarveS CarveE env (.decl t n (some e)) = true) :
    compileStmt (codeEnv env) st (.decl t n (some e)) = compileStmt (fixedEnv env) st (.decl t n (some e)) := by
  simp only [CarveS, Bool.and_eq_true] at h
  simp only [compileStmt, T2_expr hT2 h.1]
  cases hce : compileExpr (fixedEnv env) e with
  | error m => rfl
  | ok ce =>
    have hc := h.2; rw [hce] at hc; simp only at hc
    simp only [bind, Except.bind, codeEnv, fixedEnv, initACast_cfg_eq hc]

theorem T2_store (st : TSt) (w : Nat) (e : CExpr)
    (h : CarveS CarveE env (.store w e) = true) :
    compileStmt (codeEnv env) st (.store w e) = compileStmt (fixedEnv env) st (.store w e) := by
  simp only [CarveS, Bool.and_eq_true] at h
  simp only [compileStmt, T2_expr hT2 h.1]
  cases hce : compileExpr (fixedEnv env) e with
  | error m => rfl
  | ok ce =>
    have hc := h.2; rw [hce] at hc; simp only at hc
    simp only [bind, Except.bind, codeEnv, fixedEnv]
    cases hb : ce.ty.hasFlag VT.gBOOL with
    | true =>
      simp only [hb, ↓reduceIte, Bool.and_eq_true, Bool.not_eq_eq_eq_not, Bool.not_true] at hc ⊢
      simp only [hc.1, Bool.false_eq_true, ↓reduceIte]
      rw [initACast_cfg_eq hc.2]
    | false =>
      simp only [hb, Bool.false_eq_true, ↓reduceIte, Bool.not_eq_eq_eq_not, Bool.not_true] at hc ⊢
      simp [Cfg.asCode, Cfg.fixed, hc]

theorem T2_jump (st : TSt) (e : CExpr)
    (h : CarveS CarveE env (.jump e) = true) :
    compileStmt (codeEnv env) st (.jump e) = compileStmt (fixedEnv env) st (.jump e) := by
  simp only [CarveS, Bool.and_eq_true] at h
  simp only [compileStmt, T2_expr hT2 h.1]
  cases hce : compileExpr (fixedEnv env) e with
  | error m => rfl
  | ok ce =>
    have hc := h.2; rw [hce] at hc; simp only [Bool.or_eq_true, beq_iff_eq] at hc
    simp only [bind, Except.bind, codeEnv, fixedEnv]
    by_cases h32 : ce.ty.width = 32
    · simp [h32]
    · have hc' := hc.resolve_left h32
      have : (ce.ty.width != 32) = true := by simp [h32]
      simp only [this, ↓reduceIte, initACast_cfg_eq hc']

/-- `compileAssign` emits the same under both configurations when the target is in the expression
    carve-out and the conversions it applies are `assignCarve` -/
theorem T2_compileAssign (lhs : CExpr) (op : String) (ce : CE)
    (hop : op ∈ assignOps) (hl : CarveE lhs = true)
    (hc : ∀ cd, compileExpr (fixedEnv env) lhs = .ok cd → assignCarve op cd ce = true) :
    compileAssign (codeEnv env) lhs op ce = compileAssign (fixedEnv env) lhs op ce := by
  unfold compileAssign
  rw [T2_expr hT2 hl]
  cases hcd : compileExpr (fixedEnv env) lhs with
  | error m => rfl
  | ok cd =>
  have hc := hc cd hcd
  simp only [assignCarve] at hc
  simp only [bind, Except.bind, codeEnv, fixedEnv]
  have hA : Cfg.asCode.compoundNoConvertBack = true := rfl
  have hF : Cfg.fixed.compoundNoConvertBack = false := rfl
  have heqv : cd.ty.eqv cd.ty = true := by simp [VT.eqv]
  simp only [assignOps, List.mem_cons, List.not_mem_nil, or_false] at hop
  rcases hop with rfl | rfl | rfl | rfl | rfl | rfl | rfl | rfl | rfl
  · simp (config := { decide := true }) only [↓reduceIte] at hc
    simp (config := { decide := true }) only [Bool.false_eq_true, ↓reduceIte, convTo_eq2, initACast_cfg_eq hc, Bool.or_true]
  · -- "+="
    simp (config := { decide := true }) only [Bool.false_eq_true, ↓reduceIte, Bool.and_eq_true, decide_eq_true_eq] at hc
    obtain ⟨hw, hco⟩ := hc
    have hw' : (initACast Cfg.fixed cd.ty ce).ty.width ≥ 32 := by rw [initACast_width]; exact hw
    simp (config := { decide := true }) only [Bool.false_eq_true, ↓reduceIte, convTo_eq2, initACast_cfg_eq hco,
      promotionCast_noop _ hw, promotionCast_noop _ hw', hA, hF, Bool.or_false, Bool.true_or, heqv]
  · -- "-="
    simp (config := { decide := true }) only [Bool.false_eq_true, ↓reduceIte, Bool.and_eq_true, decide_eq_true_eq] at hc
    obtain ⟨hw, hco⟩ := hc
    have hw' : (initACast Cfg.fixed cd.ty ce).ty.width ≥ 32 := by rw [initACast_width]; exact hw
    simp (config := { decide := true }) only [Bool.false_eq_true, ↓reduceIte, convTo_eq2, initACast_cfg_eq hco,
      promotionCast_noop _ hw, promotionCast_noop _ hw', hA, hF, Bool.or_false, Bool.true_or, heqv]
  · -- "*="
    simp (config := { decide := true }) only [Bool.false_eq_true, ↓reduceIte, Bool.and_eq_true, decide_eq_true_eq] at hc
    obtain ⟨hw, hco⟩ := hc
    have hw' : (initACast Cfg.fixed cd.ty ce).ty.width ≥ 32 := by rw [initACast_width]; exact hw
    simp (config := { decide := true }) only [Bool.false_eq_true, ↓reduceIte, convTo_eq2, initACast_cfg_eq hco,
      promotionCast_noop _ hw, promotionCast_noop _ hw', hA, hF, Bool.or_false, Bool.true_or, heqv]
  · -- "&="
    simp (config := { decide := true }) only [Bool.false_eq_true, ↓reduceIte] at hc
    simp (config := { decide := true }) only [Bool.false_eq_true, ↓reduceIte, convTo_eq2, initACast_cfg_eq hc,
      hA, hF, Bool.or_false, Bool.true_or, heqv]
  · -- "|="
    simp (config := { decide := true }) only [Bool.false_eq_true, ↓reduceIte] at hc
    simp (config := { decide := true }) only [Bool.false_eq_true, ↓reduceIte, convTo_eq2, initACast_cfg_eq hc,
      hA, hF, Bool.or_false, Bool.true_or, heqv]
  · -- "^="
    simp (config := { decide := true }) only [Bool.false_eq_true, ↓reduceIte] at hc
    simp (config := { decide := true }) only [Bool.false_eq_true, ↓reduceIte, convTo_eq2, initACast_cfg_eq hc,
      hA, hF, Bool.or_false, Bool.true_or, heqv]
  · -- "<<="
    simp (config := { decide := true }) only [Bool.false_eq_true, ↓reduceIte, Bool.and_eq_true, decide_eq_true_eq] at hc
    obtain ⟨hw, hco⟩ := hc
    have hpe : promotionCast Cfg.asCode ce = promotionCast Cfg.fixed ce := by
      unfold promotionCast; simp only [initACast_cfg_eq hco]
    simp (config := { decide := true }) only [Bool.false_eq_true, ↓reduceIte, hpe,
      promotionCast_noop _ hw, hA, hF, Bool.or_false, Bool.true_or, heqv]
  · -- ">>="
    simp (config := { decide := true }) only [Bool.false_eq_true, ↓reduceIte, Bool.and_eq_true, decide_eq_true_eq] at hc
    obtain ⟨hw, hco⟩ := hc
    have hpe : promotionCast Cfg.asCode ce = promotionCast Cfg.fixed ce := by
      unfold promotionCast; simp only [initACast_cfg_eq hco]
    simp (config := { decide := true }) only [Bool.false_eq_true, ↓reduceIte, hpe,
      promotionCast_noop _ hw, hA, hF, Bool.or_false, Bool.true_or, heqv]


theorem T2_assign (st : TSt) (lhs : CExpr) (op : String) (e : CExpr)
    (h : CarveS CarveE env (.assign lhs op e) = true) :
    compileStmt (codeEnv env) st (.assign lhs op e) = compileStmt (fixedEnv env) st (.assign lhs op e) := by
  simp only [CarveS, Bool.and_eq_true, List.contains_eq_mem, decide_eq_true_eq] at h
  obtain ⟨⟨⟨hop, hl⟩, he⟩, hc⟩ := h
  simp only [compileStmt, T2_expr hT2 he]
  cases hce : compileExpr (fixedEnv env) e with
  | error m => rfl
  | ok ce =>
    simp only [bind, Except.bind]
    rw [T2_compileAssign hT2 lhs op ce hop hl (fun cd hcd => by rw [hcd, hce] at hc; exact hc)]

theorem T2_chain (st : TSt) (lhs1 lhs2 : CExpr) (op2 : String) (e : CExpr)
    (h : CarveS CarveE env (.chain lhs1 lhs2 op2 e) = true) :
    compileStmt (codeEnv env) st (.chain lhs1 lhs2 op2 e) = compileStmt (fixedEnv env) st (.chain lhs1 lhs2 op2 e) := by
  simp only [CarveS, Bool.and_eq_true, List.contains_eq_mem, decide_eq_true_eq] at h
  obtain ⟨⟨⟨⟨hop, hl1⟩, hl2⟩, he⟩, hc⟩ := h
  simp only [compileStmt, T2_expr hT2 he]
  cases hce : compileExpr (fixedEnv env) e with
  | error m => rfl
  | ok ce =>
    simp only [bind, Except.bind]
    rw [hce] at hc
    have h2 : compileAssign (codeEnv env) lhs2 op2 ce = compileAssign (fixedEnv env) lhs2 op2 ce :=
      T2_compileAssign hT2 lhs2 op2 ce hop hl2 (fun cd hcd => by
        rw [hcd] at hc; simp only [Bool.and_eq_true] at hc; exact hc.1)
    rw [h2]
    cases hin : compileAssign (fixedEnv env) lhs2 op2 ce with
    | error m => rfl
    | ok r =>
      obtain ⟨effI, srcI⟩ := r
      simp only
      have h1 : compileAssign (codeEnv env) lhs1 "=" srcI = compileAssign (fixedEnv env) lhs1 "=" srcI :=
        T2_compileAssign hT2 lhs1 "=" srcI (by simp [assignOps]) hl1 (fun cd1 hcd1 => by
          have hcd2 : ∃ cd2, compileExpr (fixedEnv env) lhs2 = .ok cd2 := by
            unfold compileAssign at hin
            obtain ⟨cd2, h, _⟩ := bind_ok hin
            exact ⟨cd2, h⟩
          obtain ⟨cd2, hcd2⟩ := hcd2
          rw [hcd2] at hc; simp only [Bool.and_eq_true] at hc
          have := hc.2
          rw [hin, hcd1] at this
          exact this)
      rw [h1]

mutual
theorem T2_stmt :
    (s : CStmt) → (st : TSt) → CarveS CarveE env s = true →
      compileStmt (codeEnv env) st s = compileStmt (fixedEnv env) st s
  | .decl _ _ none, st, _ => by simp only [compileStmt]
  | .decl t n (some e), st, h => T2_decl hT2 st t n e h
  | .assign lhs op e, st, h => T2_assign hT2 st lhs op e h
  | .chain l1 l2 op2 e, st, h => T2_chain hT2 st l1 l2 op2 e h
  | .store w e, st, h => T2_store hT2 st w e h
  | .jump e, st, h => T2_jump hT2 st e h
  | .skip w, st, _ => by simp only [compileStmt]
  | .exprstmt e, st, h => by
      simp only [CarveS] at h
      simp only [compileStmt, T2_expr hT2 h]
  | .ret e, st, _ => by simp only [compileStmt]
  | .vcall _ _ _ _, st, _ => by simp only [compileStmt]
  | .ite c t none, st, h => by
      simp only [CarveS, Bool.and_eq_true] at h
      obtain ⟨⟨⟨hc, hcc⟩, ht⟩, _⟩ := h
      simp only [compileStmt, T2_expr hT2 hc]
      cases hce : compileExpr (fixedEnv env) c with
      | error m => rfl
      | ok cc =>
        rw [hce] at hcc; simp only at hcc
        simp only [bind, Except.bind]
        rw [T2_stmts t _ ht]
        simp only [codeEnv, fixedEnv, condIL_cfg_eq hcc]
  | .ite c t (some e), st, h => by
      simp only [CarveS, Bool.and_eq_true] at h
      obtain ⟨⟨⟨hc, hcc⟩, ht⟩, hee⟩ := h
      simp only [compileStmt, T2_expr hT2 hc]
      cases hce : compileExpr (fixedEnv env) c with
      | error m => rfl
      | ok cc =>
        rw [hce] at hcc; simp only at hcc
        simp only [bind, Except.bind]
        rw [T2_stmts t _ ht]
        cases hts : compileStmts (fixedEnv env) (addImms st (immsOfExpr c)) t with
        | error m => rfl
        | ok r =>
          simp only
          rw [T2_stmts e _ hee]
          simp only [codeEnv, fixedEnv, condIL_cfg_eq hcc]
  | .for_ v c step b, st, h => by
      simp only [CarveS, Bool.and_eq_true, beq_iff_eq] at h
      obtain ⟨⟨⟨hs, hc⟩, hcc⟩, hb⟩ := h
      subst hs
      simp only [compileStmt, T2_expr hT2 hc]
      cases hce : compileExpr (fixedEnv env) c with
      | error m => rfl
      | ok cc =>
        rw [hce] at hcc; simp only at hcc
        simp only [bind, Except.bind, beq_self_eq_true, ↓reduceIte]
        rw [T2_stmts b _ hb]
        simp only [codeEnv, fixedEnv, condIL_cfg_eq hcc]
theorem T2_stmts :
    (ss : List CStmt) → (st : TSt) → CarveSs CarveE env ss = true →
      compileStmts (codeEnv env) st ss = compileStmts (fixedEnv env) st ss
  | [], st, _ => by simp only [compileStmts]
  | s :: ss, st, h => by
      simp only [CarveSs, Bool.and_eq_true] at h
      simp only [compileStmts, T2_stmt s st h.1]
      cases hs : compileStmt (fixedEnv env) st s with
      | error m => rfl
      | ok r =>
        simp only [bind, Except.bind]
        rw [T2_stmts ss _ h.2]
end

end
end C05
end Rzil
