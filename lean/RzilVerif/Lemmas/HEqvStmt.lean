import RzilVerif.Lemmas.HEqvStmtTmps
/-!
  CompileH ≃ Compile, part 5: the statement-level agreement.
-/
namespace Rzil
namespace HEqv
set_option linter.unusedSimpArgs false

/-- pending entries are postfix steps of enclosing loops, numbered below `k` -/
def PendBelow (st : HSt) (k : Nat) : Prop := ∀ p ∈ st.pending, p.gcc = false ∧ ∃ i, i < k ∧ p.tmp = hname i

def PendOK (st : HSt) : Prop := PendBelow st st.hyb

theorem PendBelow.noGcc {st : HSt} {k : Nat} (h : PendBelow st k) : NoGcc st := fun p hp => (h p hp).1

theorem PendBelow.mono {st : HSt} {k k' : Nat} (h : PendBelow st k) (hk : k ≤ k') : PendBelow st k' := by
  intro p hp; obtain ⟨a, i, hi, e⟩ := h p hp; exact ⟨a, i, by omega, e⟩

theorem chk_nt (st : HSt) (e : ILEffect) (after : Bool) (h : tmpsOfEffect e = []) : chk st e [] after = (e, st) :=
  chk_noleaf st e [] after (by rw [h]; intro _ hn; cases hn)

theorem chk_id (st : HSt) (e : ILEffect) (after : Bool) {lo hi : Nat} (hp : PendBelow st lo)
    (ht : TmpsIn (tmpsOfEffect e) lo hi) : chk st e [] after = (e, st) := by
  apply chk_noleaf
  intro n hn p hpp
  rw [List.nil_append] at hn
  obtain ⟨i, h1, _, rfl⟩ := ht n hn
  obtain ⟨_, j, hj, e⟩ := hp p hpp
  rw [e]; exact hname_ne (by omega)

theorem chk_pop_last (st : HSt) (e : ILEffect) (P : List Pend) (p : Pend) (n : String) (hn : p.tmp = n)
    (hst : st.pending = P ++ [p])
    (hP : ∀ q ∈ P, q.tmp ≠ p.tmp) (he : ∀ n ∈ tmpsOfEffect e, ∀ q ∈ P ++ [p], q.tmp ≠ n) :
    chk st e [n] true = (.seqn [e, p.render], { st with pending := P }) := by
  subst hn
  unfold chk
  have hl := popPending_last P p hP
  rw [hst, popPending_append_none _ _ _ (by
    rw [hl]; intro n hn q hq; exact he n hn q (List.mem_append_left _ hq)), hl]
  rfl

/-- the pending entry of a postfix `v++`/`v--` numbered `k` -/
def postPend (v : String) (w : Nat) (op : String) (k : Nat) : Pend :=
  { tmp := hname k, deps := [], exec := .setl v (if op == "++" then .inc (.varl v) w else .dec (.varl v) w),
    setTmp := .setl (hname k) (.varl v), setFirst := true, gcc := false }

/-- the state after a postfix hybrid was registered -/
def pushPost (st : HSt) (v : String) (w : Nat) (op : String) : HSt :=
  { st with hyb := st.hyb + 1, pending := st.pending ++ [postPend v w op st.hyb] }

theorem compileExprH_post (env : CEnv) (st : HSt) (v t op) : compileExprH env st (.post v t op) =
    .ok ({ il := .varl (hname st.hyb), ty := t.toVT, kind := .plain }, pushPost st v t.width op) := by
  rw [compileExprH]; rfl

theorem postPend_render (v : String) (k : Nat) :
    (postPend v utT.width "++" k).render = .seqn [.setl (hname k) (.varl v), .setl v (.inc (.varl v) 32)] := by
  rfl

theorem LiveOK_pushPost {st : HSt} (h : LiveOK st) (v w op) : LiveOK (pushPost st v w op) := h

theorem PendOK_pushPost {st : HSt} (h : PendOK st) (v w op) : PendOK (pushPost st v w op) := by
  intro p hp
  rcases List.mem_append.1 hp with hp | hp
  · obtain ⟨a, i, hi, e⟩ := h p hp
    exact ⟨a, i, Nat.lt_succ_of_lt hi, e⟩
  · rw [List.mem_singleton] at hp; subst hp
    exact ⟨rfl, st.hyb, Nat.lt_succ_self _, rfl⟩

theorem fromT_toT (st : HSt) (h : LiveOK st) : fromT st (toT st) = st := by
  cases st; simp only [LiveOK] at h; simp only [fromT, toT, h]

theorem PendOK_stAdd {st : HSt} (h : PendOK st) (xs) : PendOK (stAdd st xs) := h

theorem PendOK_fromT {st : HSt} (h : PendOK st) {t : TSt} (ht : st.hyb ≤ t.hyb) : PendOK (fromT st t) :=
  PendBelow.mono (st := fromT st t) (fun p hp => h p hp) ht

theorem PendBelow_fromT {st : HSt} {k : Nat} (h : PendBelow st k) (t : TSt) : PendBelow (fromT st t) k :=
  fun p hp => h p hp

theorem LiveOK_regLhsH {st : HSt} (h : LiveOK st) (lhs : CExpr) : LiveOK (regLhsH st lhs) := by
  cases lhs with
  | imm l s => simp only [regLhsH]; rw [stAdd_single st h l s]; exact LiveOK_stAdd _ _
  | _ => exact h

theorem NoGcc_regLhsH {st : HSt} (h : NoGcc st) (lhs : CExpr) : NoGcc (regLhsH st lhs) := by
  intro p hp
  rw [regLhsH_pending] at hp
  exact h p hp

/-- for a target the lowering accepts (local, register, assignable immediate), visiting it first registers
    exactly the immediates the pure model's pre-pass registers for it -/
theorem regLhsH_eq {env : CEnv} {lhs : CExpr} {op : String} {ce : CE} {r : ILEffect × CE} {st : HSt}
    (hl : LiveOK st) (h : compileAssign env lhs op ce = .ok r) : regLhsH st lhs = stAdd st (immsOfExpr lhs) := by
  unfold compileAssign at h
  obtain ⟨cd, _, h⟩ := bind_ok h
  obtain ⟨src0, _, h⟩ := bind_ok h
  obtain ⟨eff, heff, _⟩ := bind_ok h
  unfold destWrite at heff
  split at heff
  · simp only [immsOfExpr, regLhsH, stAdd_nil st hl]
  · simp only [immsOfExpr, regLhsH, stAdd_nil st hl]
  · simp only [immsOfExpr, regLhsH]; exact stAdd_single st hl _ _
  · cases heff

theorem utT_width : utT.width = 32 := rfl

theorem ok_bind {ε α β : Type} (a : α) (f : α → Except ε β) : (Except.ok a >>= f) = f a := rfl

/-- the init effect of a loop over one of the special ut32 identifiers: the shape the pure model hardcodes -/
theorem forInitH_utT (env : CEnv) (v : String) :
    forInitH env v utT = .ok (.setl v (.cast 32 .bfalse (.const true 32 0))) := by
  unfold forInitH
  rw [if_pos (by decide)]

mutual
/-- **statement level** -/
theorem compileStmtH_eq (env : CEnv) :
    (s : CStmt) → (st : HSt) → HybFreeS s = true → HSameS env s = true → LiveOK st → PendOK st →
      compileStmtH env st s = (compileStmt env (toT st) s).map (fun r => (effOpt s r.1, [], fromT st r.2))
  | .decl t n none, st, _, _, hl, _ => by
      show _ = (compileStmt env (toT st) _).map (fun r => (some r.1, [], fromT st r.2))
      simp only [compileStmtH, compileStmt, map_ok, fromT_toT st hl]
  | .decl t n (some e), st, hf, hs, hl, hp => by
      show _ = (compileStmt env (toT st) _).map (fun r => (some r.1, [], fromT st r.2))
      simp only [HybFreeS, Bool.and_eq_true, Bool.not_eq_eq_eq_not, Bool.not_true] at hf
      simp only [HSameS] at hs
      simp only [compileStmtH, compileStmt]
      rw [compileExprH_eq env e st hf.2 hs hl hp.noGcc]
      cases hce : compileExpr env e with
      | error m => rfl
      | ok ce =>
        simp only [map_ok, bind, Except.bind]
        rw [chk_nt]
        · rfl
        · simp only [tmpsOfEffect, hf.1, Bool.false_eq_true, ↓reduceIte, List.nil_append]
          exact nt_conv _ _ _ (nt_compileExpr env e hf.2 hce)
  | .assign lhs op e, st, hf, hs, hl, hp => by
      show _ = (compileStmt env (toT st) _).map (fun r => (some r.1, [], fromT st r.2))
      simp only [HybFreeS, Bool.and_eq_true] at hf
      simp only [HSameS] at hs
      simp only [compileStmtH, compileStmt]
      rw [compileExprH_eq env e (regLhsH st lhs) hf.2 hs (LiveOK_regLhsH hl lhs) (NoGcc_regLhsH hp.noGcc lhs)]
      cases hce : compileExpr env e with
      | error m => rfl
      | ok ce =>
        simp only [map_ok, bind, Except.bind]
        cases hca : compileAssign env lhs op ce with
        | error m => rfl
        | ok r =>
          obtain ⟨eff, src⟩ := r
          have hnt := nt_compileAssign hf.1 (nt_compileExpr env e hf.2 hce) hca
          have himm : regLhsH st lhs = stAdd st (immsOfExpr lhs) := regLhsH_eq hl hca
          simp only [map_ok, chk_nt _ _ _ hnt.1, himm, stAdd_stAdd]
          rfl
  | .chain l1 l2 op2 e, st, hf, hs, hl, hp => by
      show _ = (compileStmt env (toT st) _).map (fun r => (some r.1, [], fromT st r.2))
      simp only [HybFreeS, Bool.and_eq_true] at hf
      simp only [HSameS] at hs
      simp only [compileStmtH, compileStmt]
      rw [compileExprH_eq env e (regLhsH (regLhsH st l1) l2) hf.2 hs (LiveOK_regLhsH (LiveOK_regLhsH hl l1) l2)
        (NoGcc_regLhsH (NoGcc_regLhsH hp.noGcc l1) l2)]
      cases hce : compileExpr env e with
      | error m => rfl
      | ok ce =>
        simp only [map_ok, bind, Except.bind]
        cases hca : compileAssign env l2 op2 ce with
        | error m => rfl
        | ok r =>
          obtain ⟨effI, srcI⟩ := r
          have hI := nt_compileAssign hf.1.2 (nt_compileExpr env e hf.2 hce) hca
          simp only [chk_nt _ _ _ hI.1]
          cases hca2 : compileAssign env l1 "=" srcI with
          | error m => rfl
          | ok r2 =>
            obtain ⟨effO, srcO⟩ := r2
            have hO := nt_compileAssign hf.1.1 hI.2 hca2
            have hseq : tmpsOfEffect (mkSeq [effO, effI]) = [] := by
              apply List.eq_nil_iff_forall_not_mem.2
              intro n hn
              have := mem_tmps_mkSeq hn
              simp only [tmpsOfEffects_cons, tmpsOfEffects_nil, hI.1, hO.1, List.append_nil, List.not_mem_nil] at this
            have himm1 : regLhsH st l1 = stAdd st (immsOfExpr l1) := regLhsH_eq hl hca2
            have himm2 : regLhsH (stAdd st (immsOfExpr l1)) l2 = stAdd (stAdd st (immsOfExpr l1)) (immsOfExpr l2) :=
              regLhsH_eq (LiveOK_stAdd _ _) hca
            simp only [map_ok, chk_nt _ _ _ hO.1, chk_nt _ _ _ hseq, himm1, himm2, stAdd_stAdd]
            rfl
  | .store w e, st, hf, hs, hl, hp => by
      show _ = (compileStmt env (toT st) _).map (fun r => (some r.1, [], fromT st r.2))
      simp only [HybFreeS] at hf
      simp only [HSameS] at hs
      simp only [compileStmtH, compileStmt]
      rw [compileExprH_eq env e st hf hs hl hp.noGcc]
      cases hce : compileExpr env e with
      | error m => rfl
      | ok ce =>
        simp only [map_ok, bind, Except.bind]
        rw [chk_nt]
        · rfl
        · simp only [tmpsOfEffect, tmpsOfPure, isHTmp_EA, Bool.false_eq_true, ↓reduceIte, List.nil_append]
          exact nt_storeData env.cfg w ce (nt_compileExpr env e hf hce)
  | .jump e, st, hf, hs, hl, hp => by
      show _ = (compileStmt env (toT st) _).map (fun r => (some r.1, [], fromT st r.2))
      simp only [HybFreeS] at hf
      simp only [HSameS] at hs
      simp only [compileStmtH, compileStmt]
      rw [compileExprH_eq env e st hf hs hl hp.noGcc]
      cases hce : compileExpr env e with
      | error m => rfl
      | ok ce =>
        simp only [map_ok, bind, Except.bind]
        have hn := nt_compileExpr env e hf hce
        have : tmpsOfPure (if (ce.ty.width != 32) = true then
            initACast env.cfg { signed := false, width := 32, group := 1 } ce else ce).il = [] :=
          nt_ite (nt_initACast _ _ _ hn) hn
        rw [chk_nt]
        · rfl
        · simp only [tmpsOfEffect, tmpsOfEffects_cons, tmpsOfEffects_nil, tmpsOfPure, isHTmp_jump_flag,
            isHTmp_jump_target, this, Bool.false_eq_true, ↓reduceIte, List.nil_append, List.append_nil]
  | .skip w, st, _, _, hl, _ => by
      show _ = (compileStmt env (toT st) _).map (fun r => (some r.1, [], fromT st r.2))
      simp only [compileStmtH, compileStmt]
      split
      · simp only [map_ok, fromT_toT st hl]
      · split <;> simp only [map_ok, fromT_toT st hl]
  | .exprstmt e, st, hf, hs, hl, hp => by
      show _ = (compileStmt env (toT st) _).map (fun r => (none, [], fromT st r.2))
      simp only [HybFreeS] at hf
      simp only [HSameS] at hs
      simp only [compileStmtH, compileStmt]
      rw [compileExprH_eq env e st hf hs hl hp.noGcc]
      cases hce : compileExpr env e with
      | error m => rfl
      | ok ce =>
        simp only [map_ok, bind, Except.bind]
        rw [nt_compileExpr env e hf hce]
        rfl
  | .ret _, st, hf, _, _, _ => by simp [HybFreeS] at hf
  | .ite c t none, st, hf, hs, hl, hp => by
      show _ = (compileStmt env (toT st) _).map (fun r => (some r.1, [], fromT st r.2))
      simp only [HybFreeS, Bool.and_eq_true, and_true] at hf
      simp only [HSameS, Bool.and_eq_true, and_true] at hs
      simp only [compileStmtH, compileStmt]
      rw [compileExprH_eq env c st hf.1 hs.1 hl hp.noGcc]
      cases hcc : compileExpr env c with
      | error m => rfl
      | ok cc =>
        simp only [map_ok, bind, Except.bind]
        rw [compileStmtsH_eq env t _ hf.2 hs.2 (LiveOK_stAdd _ _) (PendOK_stAdd hp _)]
        simp only [toT_stAdd]
        cases ht : compileStmts env (addImms (toT st) (immsOfExpr c)) t with
        | error m => rfl
        | ok r =>
          obtain ⟨ts, t1⟩ := r
          have htm := tm_compileStmts env t _ hf.2 ht
          have hc := nt_condIL env.cfg cc (nt_compileExpr env c hf.1 hcc)
          have hpb : PendBelow (fromT (stAdd st (immsOfExpr c)) t1) st.hyb := PendBelow_fromT (PendOK_stAdd hp _) t1
          have h1 : TmpsIn (tmpsOfEffect (mkSeq ts)) st.hyb t1.hyb := TmpsIn_mkSeq htm.2
          have h2 : TmpsIn (tmpsOfEffect (.branch (condIL env.cfg cc) (mkSeq ts) .empty)) st.hyb t1.hyb := by
            simp only [tmpsOfEffect, hc, List.nil_append, List.append_nil]; exact h1
          simp only [map_ok, chk_id _ _ _ hpb h1, chk_id _ _ _ hpb h2]
          rfl
  | .for_ v c step b, st, hf, hs, hl, hp => by
      show _ = (compileStmt env (toT st) _).map (fun r => (some r.1, [], fromT st r.2))
      simp only [HybFreeS, Bool.and_eq_true, Bool.not_eq_eq_eq_not, Bool.not_true, beq_iff_eq] at hf
      obtain ⟨⟨⟨hv, hfc⟩, hfb⟩, hlt⟩ := hf
      simp only [HSameS, Bool.and_eq_true] at hs
      simp only [compileStmtH, compileStmt, hlt, forInitH_utT, ok_bind]
      rw [chk_nt _ _ _ (by simp only [tmpsOfEffect, tmpsOfPure, hv, Bool.false_eq_true, ↓reduceIte, List.append_nil])]
      simp only
      rw [compileExprH_eq env c st hfc hs.1 hl hp.noGcc]
      cases hcc : compileExpr env c with
      | error m => rfl
      | ok cc =>
        simp only [map_ok, bind, Except.bind]
        by_cases h0 : (step == 0) = true
        · simp only [h0, ↓reduceIte, compileExprH_post]
          rw [compileStmtsH_eq env b _ hfb hs.2 (LiveOK_pushPost (LiveOK_stAdd _ _) _ _ _)
            (PendOK_pushPost (PendOK_stAdd hp _) _ _ _)]
          have hT : toT (pushPost (stAdd st (immsOfExpr c)) v utT.width "++") =
              ({ addImms (toT st) (immsOfExpr c) with hyb := (addImms (toT st) (immsOfExpr c)).hyb + 1 } : TSt) := rfl
          rw [hT]
          cases hb : compileStmts env
              ({ addImms (toT st) (immsOfExpr c) with hyb := (addImms (toT st) (immsOfExpr c)).hyb + 1 } : TSt) b with
          | error m => rfl
          | ok r =>
            obtain ⟨bs, t1⟩ := r
            have htm := tm_compileStmts env b _ hfb hb
            have h1 : st.hyb + 1 ≤ t1.hyb := htm.1
            have hc := nt_condIL env.cfg cc (nt_compileExpr env c hfc hcc)
            simp only [map_ok, List.nil_append]
            rw [chk_pop_last (fromT (pushPost (stAdd st (immsOfExpr c)) v utT.width "++") t1) (mkSeq bs) st.pending
              (postPend v utT.width "++" st.hyb) (hname (stAdd st (immsOfExpr c)).hyb) rfl rfl]
            · simp only [postPend_render]
              rw [chk_id (lo := st.hyb) (hi := t1.hyb)]
              · rfl
              · exact fun p hp' => hp p hp'
              · simp only [tmpsOfEffect, tmpsOfEffects_cons, tmpsOfEffects_nil, tmpsOfPure, hv, hc,
                  Bool.false_eq_true, ↓reduceIte, List.nil_append, List.append_nil]
                refine ((TmpsIn_mkSeq htm.2).mono (Nat.le_succ st.hyb) (Nat.le_refl _)).append ?_
                intro n hn
                have : n = hname st.hyb := by
                  split at hn
                  · exact List.mem_singleton.1 hn
                  · cases hn
                exact ⟨st.hyb, Nat.le_refl _, h1, this⟩
            · intro q hq
              obtain ⟨_, i, hi, e⟩ := hp q hq
              rw [e]; exact hname_ne (by omega)
            · intro n hn q hq
              obtain ⟨i, hi1, _, rfl⟩ := (TmpsIn_mkSeq htm.2) n hn
              have hi1' : st.hyb + 1 ≤ i := hi1
              rcases List.mem_append.1 hq with hq | hq
              · obtain ⟨_, j, hj, e⟩ := hp q hq
                rw [e]; exact hname_ne (by omega)
              · rw [List.mem_singleton] at hq; subst hq
                exact hname_ne (by omega)
        · simp only [h0, Bool.false_eq_true, ↓reduceIte]
          cases hca : compileAssign env (.var v utT) "+="
              { il := numberIL ⟨true, 32, 1⟩ step, ty := ⟨true, 32, 1⟩, kind := .lit step } with
          | error m => rfl
          | ok r0 =>
            obtain ⟨stepEff, srcS⟩ := r0
            simp only
            rw [compileStmtsH_eq env b _ hfb hs.2 (LiveOK_stAdd _ _) (PendOK_stAdd hp _)]
            simp only [toT_stAdd]
            cases hb : compileStmts env (addImms (toT st) (immsOfExpr c)) b with
            | error m => rfl
            | ok r =>
              obtain ⟨bs, t1⟩ := r
              have htm := tm_compileStmts env b _ hfb hb
              have hc := nt_condIL env.cfg cc (nt_compileExpr env c hfc hcc)
              have hstep := (nt_compileAssign (lhs := .var v utT) (by simp only [HybFree, hv, Bool.not_false])
                (nt_numberIL _ _) hca).1
              have hpb : PendBelow (fromT (stAdd st (immsOfExpr c)) t1) st.hyb :=
                PendBelow_fromT (PendOK_stAdd hp _) t1
              have h1 : TmpsIn (tmpsOfEffect (mkSeq (bs ++ [stepEff]))) st.hyb t1.hyb := by
                refine TmpsIn_mkSeq ?_
                rw [tmpsOfEffects_append, tmpsOfEffects_cons, tmpsOfEffects_nil, hstep]
                simp only [List.append_nil]; exact htm.2
              have h2 : TmpsIn (tmpsOfEffect (.seqn [.setl v (.cast 32 .bfalse (.const true 32 0)),
                  .repeat_ (condIL env.cfg cc) (mkSeq (bs ++ [stepEff]))])) st.hyb t1.hyb := by
                simp only [tmpsOfEffect, tmpsOfEffects_cons, tmpsOfEffects_nil, tmpsOfPure, hv, hc,
                  Bool.false_eq_true, ↓reduceIte, List.nil_append, List.append_nil]
                exact h1
              simp only [map_ok, chk_id _ _ _ hpb h1, chk_id _ _ _ hpb h2]
              rfl
  | .ite c t (some el), st, hf, hs, hl, hp => by
      show _ = (compileStmt env (toT st) _).map (fun r => (some r.1, [], fromT st r.2))
      simp only [HybFreeS, Bool.and_eq_true] at hf
      simp only [HSameS, Bool.and_eq_true] at hs
      simp only [compileStmtH, compileStmt]
      rw [compileExprH_eq env c st hf.1.1 hs.1.1 hl hp.noGcc]
      cases hcc : compileExpr env c with
      | error m => rfl
      | ok cc =>
        simp only [map_ok, bind, Except.bind]
        rw [compileStmtsH_eq env t _ hf.1.2 hs.1.2 (LiveOK_stAdd _ _) (PendOK_stAdd hp _)]
        simp only [toT_stAdd]
        cases ht : compileStmts env (addImms (toT st) (immsOfExpr c)) t with
        | error m => rfl
        | ok r =>
          obtain ⟨ts, t1⟩ := r
          have htm := tm_compileStmts env t _ hf.1.2 ht
          have h01 : st.hyb ≤ t1.hyb := htm.1
          have hc := nt_condIL env.cfg cc (nt_compileExpr env c hf.1.1 hcc)
          have hpb : PendBelow (fromT (stAdd st (immsOfExpr c)) t1) st.hyb := PendBelow_fromT (PendOK_stAdd hp _) t1
          have h1 : TmpsIn (tmpsOfEffect (mkSeq ts)) st.hyb t1.hyb := TmpsIn_mkSeq htm.2
          simp only [map_ok, chk_id _ _ _ hpb h1]
          rw [compileStmtsH_eq env el _ hf.2 hs.2 (LiveOK_fromT _ _)
            (PendOK_fromT (st := stAdd st (immsOfExpr c)) (PendOK_stAdd hp _) h01)]
          rw [show toT (fromT (stAdd st (immsOfExpr c)) t1) = t1 from rfl]
          cases he : compileStmts env t1 el with
          | error m => rfl
          | ok r2 =>
            obtain ⟨es, t2⟩ := r2
            have hem := tm_compileStmts env el _ hf.2 he
            have hpb2 : PendBelow (fromT (fromT (stAdd st (immsOfExpr c)) t1) t2) st.hyb :=
              PendBelow_fromT (PendBelow_fromT (PendOK_stAdd hp _) t1) t2
            have h2 : TmpsIn (tmpsOfEffect (mkSeq es)) st.hyb t2.hyb :=
              TmpsIn_mkSeq (hem.2.mono h01 (Nat.le_refl _))
            have h3 : TmpsIn (tmpsOfEffect (.branch (condIL env.cfg cc) (mkSeq ts) (mkSeq es))) st.hyb t2.hyb := by
              simp only [tmpsOfEffect, hc, List.nil_append]
              exact (h1.mono (Nat.le_refl _) hem.1).append h2
            simp only [map_ok, chk_id _ _ _ hpb2 h2, chk_id _ _ _ hpb2 h3]
            rfl
theorem compileStmtsH_eq (env : CEnv) :
    (ss : List CStmt) → (st : HSt) → HybFreeSs ss = true → HSameSs env ss = true → LiveOK st → PendOK st →
      compileStmtsH env st ss = (compileStmts env (toT st) ss).map (fun r => (r.1, [], fromT st r.2))
  | [], st, _, _, hl, _ => by
      simp only [compileStmtsH, compileStmts, map_ok, fromT_toT st hl]
  | s :: ss, st, hf, hs, hl, hp => by
      simp only [HybFreeSs, Bool.and_eq_true] at hf
      simp only [HSameSs, Bool.and_eq_true] at hs
      simp only [compileStmtsH, compileStmts]
      rw [compileStmtH_eq env s st hf.1 hs.1 hl hp]
      cases h1 : compileStmt env (toT st) s with
      | error m => rfl
      | ok r =>
        obtain ⟨e1, t1⟩ := r
        have hm := (tm_compileStmt env s (toT st) hf.1 h1).1
        simp only [map_ok, bind, Except.bind]
        rw [compileStmtsH_eq env ss _ hf.2 hs.2 (LiveOK_fromT _ _) (PendOK_fromT hp hm)]
        cases h2 : compileStmts env (toT (fromT st t1)) ss with
        | error m => rw [show toT (fromT st t1) = t1 from rfl] at h2; rw [h2]; rfl
        | ok r2 =>
          rw [show toT (fromT st t1) = t1 from rfl] at h2; rw [h2]
          cases hb : isBare s
          · simp only [effOpt, consEff, hb, Bool.false_eq_true, ↓reduceIte]; rfl
          · simp only [effOpt, consEff, hb, ↓reduceIte]; rfl
end

end HEqv
end Rzil
