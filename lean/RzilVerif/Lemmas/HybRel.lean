import RzilVerif.Lemmas.HybInvS
/-!
  C06 helpers, part 4: (i) a compiled expression is a Python literal only if it is `isConstLike`;
  (ii) the generic induction principle: a relation on compiler states that is reflexive, transitive and holds
  for the primitive state updates holds between the state before and after compiling any expression /
  statement.  All state-only facts of C06 (freshness, counting on expressions, shape of entries) are instances.
-/
namespace Rzil
namespace C06
open C05 (bind_ok bind_ok_of)

theorem initACast_isLit {cfg : Cfg} {t : VT} {p : CE} (h : isLitKind (initACast cfg t p).kind = true) :
    isLitKind p.kind = true := by
  unfold initACast at h
  split at h
  · exact h
  · split at h <;> simp [isLitKind] at h

theorem kind_const (env : CEnv) : (e : CExpr) → {st st' : HSt} → {ce : CE} →
    compileExprH env st e = .ok (ce, st') → isLitKind ce.kind = true → isConstLike e = true
  | .reg n k t, st, st', ce, h, hk => by
      obtain ⟨_, h⟩ := inv_leaf (Or.inl ⟨n, k, t, rfl⟩) h
      simp only [compileExpr, Except.ok.injEq] at h
      subst h; simp [isLitKind] at hk
  | .imm l s, st, st', ce, h, hk => by
      rw [(inv_imm h).1] at hk; simp [isLitKind] at hk
  | .lit v hx s, st, st', ce, h, hk => rfl
  | .var n t, st, st', ce, h, hk => by
      obtain ⟨_, h⟩ := inv_leaf (Or.inr (Or.inr (Or.inl ⟨n, t, rfl⟩))) h
      simp only [compileExpr, Except.ok.injEq] at h
      subst h; simp [isLitKind] at hk
  | .cast t e, st, st', ce, h, hk => by
      obtain ⟨c1, h1, rfl⟩ := inv_cast h
      simp only [isConstLike]
      split at hk
      · exact kind_const env e h1 hk
      · exact kind_const env e h1 (initACast_isLit hk)
  | .un op e, st, st', ce, h, hk => by
      obtain ⟨c1, h1, hc | ⟨v, hv⟩⟩ := inv_un h
      · rw [hc] at hk; simp [isLitKind] at hk
      · exact kind_const env e h1 (foldVal_isLit hv)
  | .not e, st, st', ce, h, hk => by
      obtain ⟨c1, h1, hc⟩ := inv_not h
      rw [hc] at hk; simp [isLitKind] at hk
  | .bin op a b, st, st', ce, h, hk => by
      obtain ⟨ca, s1, cb, h1, h2, hc | ⟨va, vb, hva, hvb⟩⟩ := inv_bin h
      · rw [hc] at hk; simp [isLitKind] at hk
      · simp only [isConstLike, Bool.and_eq_true]
        exact ⟨kind_const env a h1 (foldVal_isLit hva), kind_const env b h2 (foldVal_isLit hvb)⟩
  | .shift op a b, st, st', ce, h, hk => by
      obtain ⟨ca, s1, cb, h1, h2, hc⟩ := inv_shift h
      rw [hc] at hk; simp [isLitKind] at hk
  | .cmp op a b, st, st', ce, h, hk => by
      obtain ⟨ca, s1, cb, h1, h2, hc | ⟨va, vb, hva, hvb⟩⟩ := inv_cmp h
      · rw [hc] at hk; simp [isLitKind] at hk
      · simp only [isConstLike, Bool.and_eq_true]
        exact ⟨kind_const env a h1 (foldVal_isLit hva), kind_const env b h2 (foldVal_isLit hvb)⟩
  | .log op a b, st, st', ce, h, hk => by
      obtain ⟨ca, s1, cb, h1, h2, hc⟩ := inv_log h
      rw [hc] at hk; simp [isLitKind] at hk
  | .tern c a b, st, st', ce, h, hk => by
      obtain ⟨cc, s1, ca, s2, cb, s3, h1, h2, h3, _, hp⟩ := inv_tern h
      simp only [isConstLike]
      cases hf : ternFold cc with
      | none => rw [hp hf] at hk; simp [isLitKind] at hk
      | some l => exact kind_const env c h1 (ternFold_isLit hf)
  | .macro name args ret params, st, st', ce, h, hk => by
      obtain ⟨_, _, hc⟩ := inv_macro h
      rw [hc] at hk; simp [isLitKind] at hk
  | .load s w t, st, st', ce, h, hk => by
      obtain ⟨_, h⟩ := inv_leaf (Or.inr (Or.inr (Or.inr ⟨s, w, t, rfl⟩))) h
      simp only [compileExpr, bind, Except.bind, Except.ok.injEq] at h
      subst h; simp [isLitKind] at hk
  | .post v t op, st, st', ce, h, hk => by
      rw [(inv_post h).1] at hk; simp [isLitKind] at hk
  | .call name args ret params, st, st', ce, h, hk => by
      obtain ⟨_, _, _, hc, _⟩ := inv_call h
      rw [hc] at hk; simp [isLitKind] at hk
  | .stmtexpr t v e, st, st', ce, h, hk => by
      obtain ⟨_, _, _, hc, _⟩ := inv_stmtexpr h
      rw [hc] at hk; simp [isLitKind] at hk
  | .seqexpr name exts args params val, st, st', ce, h, hk => by
      obtain ⟨_, _, _, _, _, _, hc, _⟩ := inv_seqexpr h
      rw [hc] at hk; simp [isLitKind] at hk
  | .callx name exts args ret params, st, st', ce, h, hk => by
      obtain ⟨_, _, _, hc, _⟩ := inv_callx h
      rw [hc] at hk; simp [isLitKind] at hk
  | .xmacro name exts ret, st, st', ce, h, hk => by
      rw [(inv_xmacro h).1] at hk; simp [isLitKind] at hk

/-- with a condition that is not constant-like the fold does not happen -/
theorem ternFold_none_of {env : CEnv} {c : CExpr} {st st' : HSt} {cc : CE}
    (h : compileExprH env st c = .ok (cc, st')) (hc : isConstLike c = false) : ternFold cc = none := by
  apply ternFold_none
  cases hk : isLitKind cc.kind with
  | false => rfl
  | true => rw [kind_const env c h hk] at hc; cases hc

/-! ## the generic principle -/

structure HRelE (V : String → Prop) (drop : Prop) (P : HSt → HSt → Prop) : Prop where
  refl : ∀ s, P s s
  trans : ∀ {a b c}, P a b → P b c → P a c
  imm : ∀ s l sg, V l → P s { s with imms := s.imms ++ [(l, sg)], live := s.live ++ [l] }
  dropDead : drop → ∀ cfg s d, P s (dropDead cfg s d)
  wrapThen : ∀ s n c, P s (wrapThen s n c)
  wrapElse : ∀ s n c, P s (wrapElse s n c)
  post : ∀ s v t op, V v → P s (postState s v t op)
  call : ∀ s name cargs ret, P s (callState s name cargs ret)
  gcc : ∀ s v il, V v → P s (gccState s v il)
  seq : ∀ s name exts cargs v, P s (seqState s name exts cargs v)
  callx : ∀ s name exts cargs ret, P s (callxState s name exts cargs ret)

/-- statement level: additionally closed under dropping popped entries (`chk`) -/
structure HRel (V : String → Prop) (drop : Prop) (P : HSt → HSt → Prop) : Prop extends HRelE V drop P where
  chk : ∀ s e bare after, P s (chk s e bare after).2

section
variable {V : String → Prop} {drop : Prop} {P : HSt → HSt → Prop}

theorem HRelE.tern (hP : HRelE V drop P) (cfg : Cfg) (cc ca cb : CE) (s : HSt)
    (hd : drop ∨ ternFold cc = none) : P s (ternState cfg cc ca cb s) := by
  unfold ternState
  cases hf : ternFold cc with
  | some live =>
    rcases hd with hd | hd
    · exact hP.dropDead hd _ _ _
    · rw [hf] at hd; cases hd
  | none =>
    simp only
    refine hP.trans (b := ternWrapThen s ca cc) ?_ ?_
    · unfold ternWrapThen
      split
      · exact hP.wrapThen _ _ _
      · exact hP.refl _
    · unfold ternWrapElse
      split
      · exact hP.wrapElse _ _ _
      · exact hP.refl _

mutual
theorem compileExprH_rel (hP : HRelE V drop P) (env : CEnv) : (e : CExpr) → {st st' : HSt} → {ce : CE} →
    (∀ n ∈ exprNames e, V n) → (drop ∨ noConstTernE e = true) →
    compileExprH env st e = .ok (ce, st') → P st st'
  | .reg n k t, st, st', ce, _, _, h => by
      rw [(inv_leaf (Or.inl ⟨n, k, t, rfl⟩) h).1]; exact hP.refl _
  | .imm l s, st, st', ce, hv, _, h => by
      rw [(inv_imm h).2]
      split
      · exact hP.refl _
      · exact hP.imm _ _ _ (hv l (by simp [exprNames]))
  | .lit v hx s, st, st', ce, _, _, h => by
      rw [(inv_leaf (Or.inr (Or.inl ⟨v, hx, s, rfl⟩)) h).1]; exact hP.refl _
  | .var n t, st, st', ce, _, _, h => by
      rw [(inv_leaf (Or.inr (Or.inr (Or.inl ⟨n, t, rfl⟩))) h).1]; exact hP.refl _
  | .cast t e, st, st', ce, hv, hd, h => by
      obtain ⟨c1, h1, _⟩ := inv_cast h
      exact compileExprH_rel hP env e (by simpa [exprNames] using hv) (by simpa [noConstTernE] using hd) h1
  | .un op e, st, st', ce, hv, hd, h => by
      obtain ⟨c1, h1, _⟩ := inv_un h
      exact compileExprH_rel hP env e (by simpa [exprNames] using hv) (by simpa [noConstTernE] using hd) h1
  | .not e, st, st', ce, hv, hd, h => by
      obtain ⟨c1, h1, _⟩ := inv_not h
      exact compileExprH_rel hP env e (by simpa [exprNames] using hv) (by simpa [noConstTernE] using hd) h1
  | .bin op a b, st, st', ce, hv, hd, h => by
      obtain ⟨ca, s1, cb, h1, h2, _⟩ := inv_bin h
      simp only [exprNames, List.mem_append] at hv
      simp only [noConstTernE, Bool.and_eq_true] at hd
      exact hP.trans
        (compileExprH_rel hP env a (fun n hn => hv n (Or.inl hn)) (hd.imp id And.left) h1)
        (compileExprH_rel hP env b (fun n hn => hv n (Or.inr hn)) (hd.imp id And.right) h2)
  | .shift op a b, st, st', ce, hv, hd, h => by
      obtain ⟨ca, s1, cb, h1, h2, _⟩ := inv_shift h
      simp only [exprNames, List.mem_append] at hv
      simp only [noConstTernE, Bool.and_eq_true] at hd
      exact hP.trans
        (compileExprH_rel hP env a (fun n hn => hv n (Or.inl hn)) (hd.imp id And.left) h1)
        (compileExprH_rel hP env b (fun n hn => hv n (Or.inr hn)) (hd.imp id And.right) h2)
  | .cmp op a b, st, st', ce, hv, hd, h => by
      obtain ⟨ca, s1, cb, h1, h2, _⟩ := inv_cmp h
      simp only [exprNames, List.mem_append] at hv
      simp only [noConstTernE, Bool.and_eq_true] at hd
      exact hP.trans
        (compileExprH_rel hP env a (fun n hn => hv n (Or.inl hn)) (hd.imp id And.left) h1)
        (compileExprH_rel hP env b (fun n hn => hv n (Or.inr hn)) (hd.imp id And.right) h2)
  | .log op a b, st, st', ce, hv, hd, h => by
      obtain ⟨ca, s1, cb, h1, h2, _⟩ := inv_log h
      simp only [exprNames, List.mem_append] at hv
      simp only [noConstTernE, Bool.and_eq_true] at hd
      exact hP.trans
        (compileExprH_rel hP env a (fun n hn => hv n (Or.inl hn)) (hd.imp id And.left) h1)
        (compileExprH_rel hP env b (fun n hn => hv n (Or.inr hn)) (hd.imp id And.right) h2)
  | .tern c a b, st, st', ce, hv, hd, h => by
      obtain ⟨cc, s1, ca, s2, cb, s3, h1, h2, h3, rfl, _⟩ := inv_tern h
      simp only [exprNames, List.mem_append] at hv
      simp only [noConstTernE, Bool.and_eq_true, Bool.not_eq_true'] at hd
      refine hP.trans (hP.trans (hP.trans
        (compileExprH_rel hP env c (fun n hn => hv n (Or.inl (Or.inl hn))) (hd.imp id (fun x => x.1.1.2)) h1)
        (compileExprH_rel hP env a (fun n hn => hv n (Or.inl (Or.inr hn))) (hd.imp id (fun x => x.1.2)) h2))
        (compileExprH_rel hP env b (fun n hn => hv n (Or.inr hn)) (hd.imp id (fun x => x.2)) h3)) ?_
      exact hP.tern _ _ _ _ _ (hd.imp id (fun x => ternFold_none_of h1 x.1.1.1))
  | .macro name args ret params, st, st', ce, hv, hd, h => by
      obtain ⟨cargs, h1, _⟩ := inv_macro h
      exact compileArgsH_rel hP env args params (by simpa [exprNames] using hv) (by simpa [noConstTernE] using hd) h1
  | .load s w t, st, st', ce, _, _, h => by
      rw [(inv_leaf (Or.inr (Or.inr (Or.inr ⟨s, w, t, rfl⟩))) h).1]; exact hP.refl _
  | .post v t op, st, st', ce, hv, _, h => by
      rw [(inv_post h).2]
      exact hP.post _ _ _ _ (hv v (by simp [exprNames]))
  | .call name args ret params, st, st', ce, hv, hd, h => by
      obtain ⟨cargs, s1, h1, _, rfl⟩ := inv_call h
      exact hP.trans
        (compileArgsH_rel hP env args params (by simpa [exprNames] using hv) (by simpa [noConstTernE] using hd) h1)
        (hP.call _ _ _ _)
  | .stmtexpr t v e, st, st', ce, hv, hd, h => by
      obtain ⟨c1, s1, h1, _, rfl⟩ := inv_stmtexpr h
      simp only [exprNames, List.mem_cons] at hv
      exact hP.trans
        (compileExprH_rel hP env e (fun n hn => hv n (Or.inr hn)) (by simpa [noConstTernE] using hd) h1)
        (hP.gcc _ _ _ (hv v (Or.inl rfl)))
  | .seqexpr name exts args params val, st, st', ce, hv, hd, h => by
      obtain ⟨cargs, s1, cv, s2, h1, h2, _, rfl⟩ := inv_seqexpr h
      simp only [exprNames, List.mem_append] at hv
      simp only [noConstTernE, Bool.and_eq_true] at hd
      exact hP.trans (hP.trans
        (compileArgsH_rel hP env args params (fun n hn => hv n (Or.inl hn)) (hd.imp id And.left) h1)
        (compileExprH_rel hP env val (fun n hn => hv n (Or.inr hn)) (hd.imp id And.right) h2))
        (hP.seq _ _ _ _ _)
  | .callx name exts args ret params, st, st', ce, hv, hd, h => by
      obtain ⟨cargs, s1, h1, _, rfl⟩ := inv_callx h
      exact hP.trans
        (compileArgsH_rel hP env args params (by simpa [exprNames] using hv) (by simpa [noConstTernE] using hd) h1)
        (hP.callx _ _ _ _ _)
  | .xmacro name exts ret, st, st', ce, _, _, h => by
      rw [(inv_xmacro h).2]; exact hP.refl _
theorem compileArgsH_rel (hP : HRelE V drop P) (env : CEnv) : (as : List CExpr) → (ps : List CT) →
    {st st' : HSt} → {r : List ILPure} →
    (∀ n ∈ exprsNames as, V n) → (drop ∨ noConstTernEs as = true) →
    compileArgsH env st as ps = .ok (r, st') → P st st'
  | [], ps, st, st', r, _, _, h => by
      rw [(inv_args_nil h).2]; exact hP.refl _
  | _ :: _, [], st, st', r, _, _, h => by
      simp [compileArgsH] at h
  | a :: as, p :: ps, st, st', r, hv, hd, h => by
      obtain ⟨ca, s1, rest, h1, h2, _⟩ := inv_args_cons h
      simp only [exprsNames, List.mem_append] at hv
      simp only [noConstTernEs, Bool.and_eq_true] at hd
      exact hP.trans
        (compileExprH_rel hP env a (fun n hn => hv n (Or.inl hn)) (hd.imp id And.left) h1)
        (compileArgsH_rel hP env as ps (fun n hn => hv n (Or.inr hn)) (hd.imp id And.right) h2)
end

/-- visiting an assignment target registers at most its immediate letter -/
theorem regLhsH_rel (hP : HRelE V drop P) (st : HSt) (lhs : CExpr) (hv : ∀ n ∈ exprNames lhs, V n) :
    P st (regLhsH st lhs) := by
  cases lhs with
  | imm l s =>
    simp only [regLhsH]
    split
    · exact hP.refl _
    · exact hP.imm _ _ _ (hv l (by simp [exprNames]))
  | _ => exact hP.refl _

mutual
theorem compileStmtH_rel (hP : HRel V drop P) (env : CEnv) : (s : CStmt) → {st st' : HSt} →
    {eff : Option ILEffect} → {b : List String} →
    (∀ n ∈ stmtNames s, V n) → (drop ∨ noConstTernS s = true) →
    compileStmtH env st s = .ok (eff, b, st') → P st st'
  | .decl t n none, st, st', eff, b, _, _, h => by
      rw [(invS_decl_none h).2.2]; exact hP.refl _
  | .decl t n (some e), st, st', eff, b, hv, hd, h => by
      obtain ⟨c1, s1, h1, _, _, rfl⟩ := invS_decl h
      simp only [stmtNames, List.mem_cons] at hv
      exact hP.trans (compileExprH_rel hP.toHRelE env e (fun n hn => hv n (Or.inr hn)) (by simpa [noConstTernS] using hd) h1)
        (hP.chk _ _ _ _)
  | .assign lhs op e, st, st', eff, b, hv, hd, h => by
      obtain ⟨c1, s1, eff0, src, h1, _, _, _, rfl⟩ := invS_assign h
      simp only [stmtNames, List.mem_append] at hv
      exact hP.trans (regLhsH_rel hP.toHRelE st lhs (fun n hn => hv n (Or.inl hn)))
        (hP.trans (compileExprH_rel hP.toHRelE env e (fun n hn => hv n (Or.inr hn)) (by simpa [noConstTernS] using hd) h1)
        (hP.chk _ _ _ _))
  | .chain l1 l2 op2 e, st, st', eff, b, hv, hd, h => by
      obtain ⟨c1, s1, effI, srcI, effO, srcO, h1, _, _, _, _, rfl⟩ := invS_chain h
      simp only [stmtNames, List.mem_append] at hv
      exact hP.trans (hP.trans (regLhsH_rel hP.toHRelE st l1 (fun n hn => hv n (Or.inl (Or.inl hn))))
          (regLhsH_rel hP.toHRelE _ l2 (fun n hn => hv n (Or.inl (Or.inr hn)))))
        (hP.trans (hP.trans (hP.trans
        (compileExprH_rel hP.toHRelE env e (fun n hn => hv n (Or.inr hn)) (by simpa [noConstTernS] using hd) h1)
        (hP.chk _ _ _ _)) (hP.chk _ _ _ _)) (hP.chk _ _ _ _))
  | .store w e, st, st', eff, b, hv, hd, h => by
      obtain ⟨c1, s1, data, h1, _, _, rfl⟩ := invS_store h
      exact hP.trans (compileExprH_rel hP.toHRelE env e (by simpa [stmtNames] using hv) (by simpa [noConstTernS] using hd) h1)
        (hP.chk _ _ _ _)
  | .ite c t none, st, st', eff, b, hv, hd, h => by
      obtain ⟨cc, s1, ts, tb, s2, h1, h2, _, _, rfl⟩ := invS_ite_none h
      simp only [stmtNames, List.mem_append] at hv
      simp only [noConstTernS, Bool.and_eq_true] at hd
      exact hP.trans (hP.trans (hP.trans
        (compileExprH_rel hP.toHRelE env c (fun n hn => hv n (Or.inl hn)) (hd.imp id And.left) h1)
        (compileStmtsH_rel hP env t (fun n hn => hv n (Or.inr hn)) (hd.imp id And.right) h2))
        (hP.chk _ _ _ _)) (hP.chk _ _ _ _)
  | .ite c t (some e), st, st', eff, b, hv, hd, h => by
      obtain ⟨cc, s1, ts, tb, s2, es, eb, s3, h1, h2, h3, _, _, rfl⟩ := invS_ite_some h
      simp only [stmtNames, List.mem_append] at hv
      simp only [noConstTernS, Bool.and_eq_true] at hd
      exact hP.trans (hP.trans (hP.trans (hP.trans (hP.trans
        (compileExprH_rel hP.toHRelE env c (fun n hn => hv n (Or.inl (Or.inl hn))) (hd.imp id (fun x => x.1.1)) h1)
        (compileStmtsH_rel hP env t (fun n hn => hv n (Or.inl (Or.inr hn))) (hd.imp id (fun x => x.1.2)) h2))
        (hP.chk _ _ _ _))
        (compileStmtsH_rel hP env e (fun n hn => hv n (Or.inr hn)) (hd.imp id (fun x => x.2)) h3))
        (hP.chk _ _ _ _)) (hP.chk _ _ _ _)
  | .for_ v cond 0 body, st, st', eff, b, hv, hd, h => by
      obtain ⟨x0, cc, s1, bs, bb, s3, _, h1, h3, _, _, rfl⟩ := invS_for0 h
      simp only [stmtNames, List.mem_cons, List.mem_append] at hv
      simp only [noConstTernS, Bool.and_eq_true] at hd
      exact hP.trans (hP.trans (hP.trans (hP.trans (hP.trans
        (hP.chk _ _ _ _)
        (compileExprH_rel hP.toHRelE env cond (fun n hn => hv n (Or.inr (Or.inl hn))) (hd.imp id And.left) h1))
        (hP.post _ _ _ _ (hv v (Or.inl rfl))))
        (compileStmtsH_rel hP env body (fun n hn => hv n (Or.inr (Or.inr hn))) (hd.imp id And.right) h3))
        (hP.chk _ _ _ _)) (hP.chk _ _ _ _)
  | .for_ v cond (k+1) body, st, st', eff, b, hv, hd, h => by
      obtain ⟨x0, cc, s1, stepEff, stepSrc, bs, bb, s3, _, h1, _, h3, _, _, rfl⟩ := invS_forK (Nat.succ_ne_zero k) h
      simp only [stmtNames, List.mem_cons, List.mem_append] at hv
      simp only [noConstTernS, Bool.and_eq_true] at hd
      exact hP.trans (hP.trans (hP.trans (hP.trans
        (hP.chk _ _ _ _)
        (compileExprH_rel hP.toHRelE env cond (fun n hn => hv n (Or.inr (Or.inl hn))) (hd.imp id And.left) h1))
        (compileStmtsH_rel hP env body (fun n hn => hv n (Or.inr (Or.inr hn))) (hd.imp id And.right) h3))
        (hP.chk _ _ _ _)) (hP.chk _ _ _ _)
  | .jump e, st, st', eff, b, hv, hd, h => by
      obtain ⟨c1, s1, ta, h1, _, _, rfl⟩ := invS_jump h
      exact hP.trans (compileExprH_rel hP.toHRelE env e (by simpa [stmtNames] using hv) (by simpa [noConstTernS] using hd) h1)
        (hP.chk _ _ _ _)
  | .exprstmt e, st, st', eff, b, hv, hd, h => by
      obtain ⟨c1, h1, _, _⟩ := invS_exprstmt h
      exact compileExprH_rel hP.toHRelE env e (by simpa [stmtNames] using hv) (by simpa [noConstTernS] using hd) h1
  | .ret e, st, st', eff, b, hv, hd, h => by
      obtain ⟨c1, src, h1, _, _⟩ := invS_ret h
      exact compileExprH_rel hP.toHRelE env e (by simpa [stmtNames] using hv) (by simpa [noConstTernS] using hd) h1
  | .vcall name exts args params, st, st', eff, b, hv, hd, h => by
      obtain ⟨cargs, h1, _, _⟩ := invS_vcall h
      exact compileArgsH_rel hP.toHRelE env args params (by simpa [stmtNames] using hv) (by simpa [noConstTernS] using hd) h1
  | .skip w, st, st', eff, b, _, _, h => by
      rw [(invS_skip h).2.2]; exact hP.refl _
theorem compileStmtsH_rel (hP : HRel V drop P) (env : CEnv) : (ss : List CStmt) → {st st' : HSt} →
    {es : List ILEffect} → {b : List String} →
    (∀ n ∈ stmtsNames ss, V n) → (drop ∨ noConstTernSs ss = true) →
    compileStmtsH env st ss = .ok (es, b, st') → P st st'
  | [], st, st', es, b, _, _, h => by
      rw [(invS_nil h).2.2]; exact hP.refl _
  | s :: ss, st, st', es, b, hv, hd, h => by
      obtain ⟨e, b1, s1, es', b2, h1, h2, _, _⟩ := invS_cons h
      simp only [stmtsNames, List.mem_append] at hv
      simp only [noConstTernSs, Bool.and_eq_true] at hd
      exact hP.trans
        (compileStmtH_rel hP env s (fun n hn => hv n (Or.inl hn)) (hd.imp id And.left) h1)
        (compileStmtsH_rel hP env ss (fun n hn => hv n (Or.inr hn)) (hd.imp id And.right) h2)
end

end

end C06
end Rzil
