import RzilVerif.Lemmas.SemEquiv
import RzilVerif.Model.CarveSem
/-!
# Macros that read only the low bits of their first argument

`extract64(v, start, len)` / `sextract64(v, start, len)` read the bits `start … start+len-1` of `v`.  When an argument
narrower than the 64-bit parameter is converted, the code zero-extends a signed source (`CAST(64, IL_FALSE, x)`) where
C sign-extends it (`CAST(64, MSB(x), x)`): the two values differ above the width of `x` only.  Under the assumption
`MsLow ms` on the (otherwise uninterpreted) macro interpretation the two calls evaluate alike.
-/
namespace Rzil
namespace Sem

/-- **Assumption on the macro interpretation**: `extract64` / `sextract64` applied to `(v, start, len)` do not depend on
    the bits of `v` from `start + len` upwards.  (True of QEMU's functions; `Sem.Witness.msLow_msX` proves it for an
    interpretation, so the assumption is satisfiable together with `MsOK`.) -/
def MsLow (ms : MacroSem) : Prop :=
  -- `lowMacros` (Model/CarveSem.lean): C names; the IL side calls the macros by their RzIL names `macroRzName`
  ∀ name, name ∈ lowMacros → ∀ (v v' : BitVec 64) (ws wl : Nat) (s : BitVec ws) (l : BitVec wl),
    (∀ i, i < s.toNat + l.toNat → v.getLsbD i = v'.getLsbD i) →
    ms (macroRzName name) [.bv 64 v, .bv ws s, .bv wl l] = ms (macroRzName name) [.bv 64 v', .bv ws s, .bv wl l]

/-- a widening IL cast changes nothing below the width of its operand, whatever the fill bit -/
theorem ilCast_low {n w k : Nat} (hk : k ≤ n) (b b' : Bool) (x : BitVec n) (i : Nat) (hi : i < k) :
    (ilCast w b x).getLsbD i = (ilCast w b' x).getLsbD i := by
  have hin : i < n := Nat.lt_of_lt_of_le hi hk
  unfold ilCast
  split
  · rfl
  · cases b <;> cases b' <;>
      simp [BitVec.getLsbD_or, BitVec.getLsbD_shiftLeft, hin]

theorem toOption_bind_none {ε α β : Type} {x : Except ε α} (h : x.toOption = none) (f : α → Except ε β) :
    (x >>= f).toOption = none := by
  cases x with
  | error e => rfl
  | ok a => cases h

section
variable {ms : MacroSem} {σ : MState} {lets : List (String × Val)}

/-- **Core lemma.** `f(CAST(64, fill₁, x), start, len)` and `f(CAST(64, fill₂, x), start, len)` evaluate alike for a
    low-bits macro `f` when `x` is at least `start + len` bits wide. -/
theorem macro_cast_fill_low (hlow : MsLow ms) {name : String} (hname : name ∈ lowMacros) {f₁ f₂ x : ILPure}
    {tail : List ILPure} {ws wl : Nat} {s : BitVec ws} {l : BitVec wl}
    (ht : evalPures ms σ lets tail = .ok [.bv ws s, .bv wl l])
    (h₁ : ∀ n (y : BitVec n), evalPure ms σ lets x = .ok (.bv n y) → ∃ b, evalPure ms σ lets f₁ = .ok (.bool b))
    (h₂ : ∀ n (y : BitVec n), evalPure ms σ lets x = .ok (.bv n y) → ∃ b, evalPure ms σ lets f₂ = .ok (.bool b))
    (hw : ∀ n (y : BitVec n), evalPure ms σ lets x = .ok (.bv n y) → s.toNat + l.toNat ≤ n) :
    PEqAt ms σ lets (.macro (macroRzName name) (.cast 64 f₁ x :: tail)) (.macro (macroRzName name) (.cast 64 f₂ x :: tail)) := by
  unfold PEqAt
  rw [evalPure_macro, evalPure_macro, evalPures_cons, evalPures_cons, evalPure_cast, evalPure_cast, ht]
  cases hx : evalPure ms σ lets x with
  | error e =>
    have : ∀ f : ILPure, (evalPure ms σ lets f >>= fun vf => (Except.error e : Except Stuck Val) >>= fun va => castVal 64 vf va)
        = (evalPure ms σ lets f >>= fun _ => (Except.error e : Except Stuck Val)) := fun f => rfl
    cases e1 : evalPure ms σ lets f₁ <;> cases e2 : evalPure ms σ lets f₂ <;> rfl
  | ok v =>
    cases v with
    | bv n y =>
      obtain ⟨b₁, e₁⟩ := h₁ n y hx
      obtain ⟨b₂, e₂⟩ := h₂ n y hx
      have hle := hw n y hx
      rw [e₁, e₂]
      simp only [bind, Except.bind, castVal, macroVal]
      rw [hlow name hname (ilCast 64 b₁ y) (ilCast 64 b₂ y) ws wl s l (fun i hi => ilCast_low hle b₁ b₂ y i hi)]
    | bool b =>
      have : ∀ f : ILPure, (evalPure ms σ lets f >>= fun vf => (Except.ok (Val.bool b) : Except Stuck Val) >>= fun va => castVal 64 vf va).toOption = none := by
        intro f
        cases evalPure ms σ lets f with
        | error e => rfl
        | ok vf => exact castVal_nonbv_left 64 vf _ (fun _ _ h => by cases h)
      rw [toOption_bind_none (toOption_bind_none (this f₁) _) _, toOption_bind_none (toOption_bind_none (this f₂) _) _]
    | flt m z =>
      have : ∀ f : ILPure, (evalPure ms σ lets f >>= fun vf => (Except.ok (Val.flt m z) : Except Stuck Val) >>= fun va => castVal 64 vf va).toOption = none := by
        intro f
        cases evalPure ms σ lets f with
        | error e => rfl
        | ok vf => exact castVal_nonbv_left 64 vf _ (fun _ _ h => by cases h)
      rw [toOption_bind_none (toOption_bind_none (this f₁) _) _, toOption_bind_none (toOption_bind_none (this f₂) _) _]
    | ext =>
      have : ∀ f : ILPure, (evalPure ms σ lets f >>= fun vf => (Except.ok Val.ext : Except Stuck Val) >>= fun va => castVal 64 vf va).toOption = none := by
        intro f
        cases evalPure ms σ lets f with
        | error e => rfl
        | ok vf => exact castVal_nonbv_left 64 vf _ (fun _ _ h => by cases h)
      rw [toOption_bind_none (toOption_bind_none (this f₁) _) _, toOption_bind_none (toOption_bind_none (this f₂) _) _]

end
end Sem
end Rzil
