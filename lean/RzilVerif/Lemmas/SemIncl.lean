import RzilVerif.Model.CarveSem
import RzilVerif.Props.C01
/-!
# The syntactic carve-out is contained in the semantic one

`CarveN ⊆ CarveNSem`, `CarveE ⊆ CarveESem`, `CarveSs (CarveE env.assigned) ⊆ CarveSsSem`, `certified ⊆ certifiedSem`:
everything the syntactic T2 covers is covered by the semantic T2 as well.
-/
namespace Rzil
namespace Sem

theorem castSafeSem_of_castSafe {t : VT} {p : CE} (h : CastSafe t p = true) : CastSafeSem t p = true := by
  unfold CastSafeSem; rw [h]; rfl

theorem castOKSem_of_castOK {t : VT} {p : CE} (h : castOK t p = true) : castOKSem t p = true := by
  unfold castOKSem; rw [h]; rfl

theorem castOpsSafeSem_of {a b : CE} (h : castOpsSafe a b = true) : castOpsSafeSem a b = true := by
  unfold castOpsSafe at h
  unfold castOpsSafeSem
  by_cases he : a.ty.eqv b.ty = true
  · simp only [he, Bool.true_or]
  · simp only [he, Bool.false_or, Bool.and_eq_true] at h ⊢
    exact ⟨⟨h.1.1, castSafeSem_of_castSafe h.1.2⟩, castSafeSem_of_castSafe h.2⟩

theorem arithSafeSem_of {a b : CE} (h : arithSafe a b = true) : arithSafeSem a b = true := by
  unfold arithSafe at h
  unfold arithSafeSem
  simp only [Bool.and_eq_true] at h ⊢
  exact ⟨h.1, castOpsSafeSem_of h.2⟩

theorem wideSafeSem_of {a b : CE} (h : wideSafe a b = true) : wideSafeSem a b = true := by
  unfold wideSafe at h
  unfold wideSafeSem
  simp only [Bool.and_eq_true] at h ⊢
  exact ⟨h.1, castOpsSafeSem_of h.2⟩

theorem binSafeSem_of {op : String} {a b : CE} (h : binSafe op a b = true) : binSafeSem op a b = true := by
  unfold binSafe at h
  unfold binSafeSem
  split
  · next va vb hka hkb =>
    simp only [hka, hkb] at h
    split
    · next hop => rw [if_pos hop] at h; exact h
    · next hop => rw [if_neg hop] at h; exact arithSafeSem_of h
  · next hne =>
    apply arithSafeSem_of
    split at h
    · next va vb hka hkb => exact absurd hkb (hne va vb hka)
    · exact h

theorem cmpSafeSem_of {a b : CE} (h : cmpSafe a b = true) : cmpSafeSem a b = true := by
  unfold cmpSafe at h
  unfold cmpSafeSem
  split
  · next va vb hka hkb => simp only [hka, hkb] at h; exact h
  · next hne =>
    apply wideSafeSem_of
    split at h
    · next va vb hka hkb => exact absurd hkb (hne va vb hka)
    · exact h

theorem logSafeSem_of {ea eb : CExpr} {a b : CE} (h : logSafe ea eb a b = true) : logSafeSem ea eb a b = true := by
  unfold logSafe at h
  unfold logSafeSem
  simp only [Bool.and_eq_true] at h ⊢
  refine ⟨h.1, ?_⟩
  split
  · next hn => rw [if_pos hn] at h; exact h.2
  · next hn => rw [if_neg hn] at h; exact castOpsSafeSem_of h.2

theorem ternSafeSem_of {x : CExpr} {cc a b : CE} (h : ternSafe x cc a b = true) : ternSafeSem x cc a b = true := by
  unfold ternSafe at h
  unfold ternSafeSem
  cases hk : cc.kind with
  | lit v => simp only [hk] at h ⊢; exact h
  | boolLit r => simp only [hk] at h ⊢; exact h
  | plain =>
    simp only [hk, Bool.and_eq_true] at h ⊢
    exact ⟨h.1, wideSafeSem_of h.2⟩
  | boolObj =>
    simp only [hk, Bool.and_eq_true] at h ⊢
    exact ⟨h.1, wideSafeSem_of h.2⟩

theorem onA_mono {asg : List String} {e : CExpr} {f g : CE → Bool} (h : onA asg e f = true)
    (hfg : ∀ ce, f ce = true → g ce = true) : onA asg e g = true := by
  unfold onA at h ⊢
  split
  · next ce hce => rw [hce] at h; exact hfg ce h
  · rfl

def InclN (asg : List String) (e : CExpr) : Prop := CarveN asg e = true → CarveNSem asg e = true
def InclNs (asg : List String) (args : List CExpr) : Prop :=
  ∀ params, CarveNs asg args params = true → CarveNsSem asg args params = true

theorem carveNSem_of_carveN (asg : List String) (e : CExpr) : InclN asg e := by
  refine CExpr.rec (motive_1 := InclN asg) (motive_2 := InclNs asg)
    ?reg ?imm ?lit ?var ?cast ?un ?not ?bin ?shift ?cmp ?log ?tern ?macroc ?load ?post ?call ?stmtexpr ?seqexpr ?callx ?xmacro ?nil ?cons e
  case reg => intro n k t h; rw [CarveN] at h; rw [CarveNSem]; exact h
  case imm => intro l s _; rw [CarveNSem]
  case lit => intro v hx s h; rw [CarveN] at h; rw [CarveNSem]; exact h
  case var => intro n t _; rw [CarveNSem]
  case cast =>
    intro t e ih h
    rw [CarveN] at h; rw [CarveNSem]
    simp only [Bool.and_eq_true] at h ⊢
    exact ⟨⟨ih h.1.1, h.1.2⟩, onA_mono h.2 (fun _ => castSafeSem_of_castSafe)⟩
  case un =>
    intro op e ih h
    rw [CarveN] at h; rw [CarveNSem]
    simp only [Bool.and_eq_true] at h ⊢
    exact ⟨⟨ih h.1.1, h.1.2⟩, h.2⟩
  case not =>
    intro e ih h
    rw [CarveN] at h; rw [CarveNSem]
    simp only [Bool.and_eq_true] at h ⊢
    exact ⟨ih h.1, h.2⟩
  case bin =>
    intro op a b iha ihb h
    rw [CarveN] at h; rw [CarveNSem]
    simp only [Bool.and_eq_true] at h ⊢
    exact ⟨⟨⟨⟨iha h.1.1.1.1, ihb h.1.1.1.2⟩, h.1.1.2⟩, h.1.2⟩,
      onA_mono h.2 (fun _ h' => onA_mono h' (fun _ => binSafeSem_of))⟩
  case shift =>
    intro op a b iha ihb h
    rw [CarveN] at h; rw [CarveNSem]
    simp only [Bool.and_eq_true] at h ⊢
    exact ⟨⟨⟨iha h.1.1.1, ihb h.1.1.2⟩, h.1.2⟩, h.2⟩
  case cmp =>
    intro op a b iha ihb h
    rw [CarveN] at h; rw [CarveNSem]
    simp only [Bool.and_eq_true] at h ⊢
    exact ⟨⟨⟨⟨iha h.1.1.1.1, ihb h.1.1.1.2⟩, h.1.1.2⟩, h.1.2⟩,
      onA_mono h.2 (fun _ h' => onA_mono h' (fun _ => cmpSafeSem_of))⟩
  case log =>
    intro op a b iha ihb h
    rw [CarveN] at h; rw [CarveNSem]
    simp only [Bool.and_eq_true] at h ⊢
    exact ⟨⟨iha h.1.1, ihb h.1.2⟩, onA_mono h.2 (fun _ h' => onA_mono h' (fun _ => logSafeSem_of))⟩
  case tern =>
    intro x a b ihx iha ihb h
    rw [CarveN] at h; rw [CarveNSem]
    simp only [Bool.and_eq_true] at h ⊢
    exact ⟨⟨⟨⟨⟨ihx h.1.1.1.1.1, iha h.1.1.1.1.2⟩, ihb h.1.1.1.2⟩, h.1.1.2⟩, h.1.2⟩,
      onA_mono h.2 (fun _ h' => onA_mono h' (fun _ h'' => onA_mono h'' (fun _ => ternSafeSem_of)))⟩
  case macroc =>
    intro name args ret params ih h
    rw [CarveN] at h; rw [CarveNSem]
    exact ih params h
  case load =>
    intro s w t h
    rw [CarveN] at h; rw [CarveNSem]
    rw [h]; rfl
  case post => intro v t op h; rw [CarveN] at h; cases h
  case call => intro n a r p _ h; rw [CarveN] at h; cases h
  case stmtexpr => intro t v e _ h; rw [CarveN] at h; cases h
  case seqexpr => intro n x a p v _ _ h; rw [CarveN] at h; cases h
  case callx => intro n x a r p _ h; rw [CarveN] at h; cases h
  case xmacro => intro n x r h; rw [CarveN] at h; cases h
  case nil => intro params _; rw [CarveNsSem]
  case cons =>
    intro a as iha ihas params h
    cases params with
    | nil => rw [CarveNsSem]
    | cons p ps =>
      rw [CarveNs] at h; rw [CarveNsSem]
      simp only [Bool.and_eq_true] at h ⊢
      exact ⟨⟨⟨iha h.1.1.1, h.1.1.2⟩, onA_mono h.1.2 (fun _ h' => by rw [castSafeSem_of_castSafe h']; rfl)⟩, ihas ps h.2⟩

theorem carveESem_of_carveE {asg : List String} {e : CExpr} (h : CarveE asg e = true) : CarveESem asg e = true := by
  unfold CarveE at h
  unfold CarveESem
  simp only [Bool.and_eq_true] at h ⊢
  exact ⟨carveNSem_of_carveN asg e h.1, h.2⟩

/-- the condition-position carve-out contains what `if`/`for` asked of a condition before it was introduced: a
    value-carved expression whose repaired compilation is `condOK` -/
theorem carveCSem_of_carveESem {env : CEnv} {e : CExpr} (h : CarveESem env.assigned e = true)
    (hok : (match compileExpr (fixedEnv env) e with | .ok cc => condOK cc | .error _ => true) = true) :
    CarveCSem env e = true := by
  unfold CarveESem at h
  unfold CarveCSem
  simp only [Bool.and_eq_true] at h ⊢
  exact ⟨h.1, Bool.or_eq_true _ _ ▸ Or.inr hok⟩

theorem carveCSem_of_carveE {env : CEnv} {e : CExpr} (h : CarveE env.assigned e = true)
    (hok : (match compileExpr (fixedEnv env) e with | .ok cc => condOK cc | .error _ => true) = true) :
    CarveCSem env e = true :=
  carveCSem_of_carveESem (carveESem_of_carveE h) hok

theorem assignCarveSem_of {op : String} {cd ce : CE} (h : assignCarve op cd ce = true) : assignCarveSem op cd ce = true := by
  unfold assignCarve at h
  unfold assignCarveSem
  split
  · next h1 => rw [if_pos h1] at h; exact castOKSem_of_castOK h
  · next h1 =>
    rw [if_neg h1] at h
    split
    · next h2 =>
      rw [if_pos h2] at h
      simp only [Bool.and_eq_true] at h ⊢
      exact ⟨h.1, castOKSem_of_castOK h.2⟩
    · next h2 =>
      rw [if_neg h2] at h
      split
      · next h3 => rw [if_pos h3] at h; exact castOKSem_of_castOK h
      · next h3 =>
        rw [if_neg h3] at h
        simp only [Bool.and_eq_true] at h ⊢
        exact ⟨h.1, castOKSem_of_castOK h.2⟩

mutual
theorem carveSSem_of_carveS (env : CEnv) :
    (s : CStmt) → CarveS (CarveE env.assigned) env s = true → CarveSSem env s = true
  | .decl _ _ none, _ => by rw [CarveSSem]
  | .decl t n (some e), h => by
      rw [CarveS] at h; rw [CarveSSem]
      simp only [Bool.and_eq_true] at h ⊢
      refine ⟨carveESem_of_carveE h.1, ?_⟩
      have h2 := h.2
      split at h2
      · next ce hce => rw [hce]; exact castOKSem_of_castOK h2
      · next m hce => rw [hce]
  | .assign lhs op e, h => by
      rw [CarveS] at h; rw [CarveSSem]
      simp only [Bool.and_eq_true] at h ⊢
      refine ⟨⟨⟨h.1.1.1, by unfold lhsCarveSem; rw [carveESem_of_carveE h.1.1.2]; rfl⟩, carveESem_of_carveE h.1.2⟩, ?_⟩
      have h2 := h.2
      split at h2
      · next cd ce hcd hce => rw [hcd, hce]; exact assignCarveSem_of h2
      · next hne =>
        split
        · next cd ce hcd hce => exact absurd hce (hne cd ce hcd)
        · rfl
  | .chain l1 l2 op2 e, h => by rw [CarveSSem]; exact h
  | .store w e, h => by
      rw [CarveS] at h; rw [CarveSSem]
      simp only [Bool.and_eq_true] at h ⊢
      refine ⟨carveESem_of_carveE h.1, ?_⟩
      have h2 := h.2
      split at h2
      · next ce hce =>
        rw [hce]
        simp only
        split
        · next hb => rw [if_pos hb] at h2; exact h2
        · next hb => rw [if_neg hb] at h2; rw [h2]; rfl
      · next m hce => rw [hce]
  | .ite x t none, h => by
      rw [CarveS] at h; rw [CarveSSem]
      simp only [Bool.and_eq_true] at h ⊢
      exact ⟨⟨carveCSem_of_carveE h.1.1.1 h.1.1.2, carveSsSem_of_carveSs env t h.1.2⟩, trivial⟩
  | .ite x t (some e), h => by
      rw [CarveS] at h; rw [CarveSSem]
      simp only [Bool.and_eq_true] at h ⊢
      exact ⟨⟨carveCSem_of_carveE h.1.1.1 h.1.1.2, carveSsSem_of_carveSs env t h.1.2⟩, carveSsSem_of_carveSs env e h.2⟩
  | .for_ v x step b, h => by
      rw [CarveS] at h; rw [CarveSSem]
      simp only [Bool.and_eq_true] at h ⊢
      exact ⟨⟨h.1.1.1, carveCSem_of_carveE h.1.1.2 h.1.2⟩, carveSsSem_of_carveSs env b h.2⟩
  | .jump e, h => by
      rw [CarveS] at h; rw [CarveSSem]
      simp only [Bool.and_eq_true] at h ⊢
      refine ⟨carveESem_of_carveE h.1, ?_⟩
      have h2 := h.2
      split at h2
      · next ce hce =>
        rw [hce]
        simp only [Bool.or_eq_true] at h2 ⊢
        rcases h2 with h2 | h2
        · exact Or.inl h2
        · exact Or.inr (castOKSem_of_castOK h2)
      · next m hce => rw [hce]
  | .skip _, _ => by rw [CarveSSem]
  | .exprstmt e, h => by
      rw [CarveS] at h
      rw [CarveSSem]
      exact carveESem_of_carveE h
  | .ret _, _ => by rw [CarveSSem]
  | .vcall _ _ _ _, _ => by rw [CarveSSem]
theorem carveSsSem_of_carveSs (env : CEnv) :
    (ss : List CStmt) → CarveSs (CarveE env.assigned) env ss = true → CarveSsSem env ss = true
  | [], _ => by rw [CarveSsSem]
  | s :: ss, h => by
      rw [CarveSs] at h; rw [CarveSsSem]
      simp only [Bool.and_eq_true] at h ⊢
      exact ⟨carveSSem_of_carveS env s h.1, carveSsSem_of_carveSs env ss h.2⟩
end

/-! ## the low-bits flag only adds programs -/

def MonoN (asg : List String) (e : CExpr) : Prop := CarveNSem asg e = true → CarveNSem asg e true = true
def MonoNs (asg : List String) (args : List CExpr) : Prop :=
  ∀ params low, CarveNsSem asg args params = true → CarveNsSem asg args params true low = true

theorem carveNSem_mono_lb (asg : List String) (e : CExpr) : MonoN asg e := by
  refine CExpr.rec (motive_1 := MonoN asg) (motive_2 := MonoNs asg)
    ?reg ?imm ?lit ?var ?cast ?un ?not ?bin ?shift ?cmp ?log ?tern ?macroc ?load ?post ?call ?stmtexpr ?seqexpr ?callx ?xmacro ?nil ?cons e
  case reg => intro n k t h; rw [CarveNSem] at h ⊢; exact h
  case imm => intro l s _; rw [CarveNSem]
  case lit => intro v hx s h; rw [CarveNSem] at h ⊢; exact h
  case var => intro n t _; rw [CarveNSem]
  case cast =>
    intro t e ih h
    rw [CarveNSem] at h ⊢
    simp only [Bool.and_eq_true] at h ⊢
    exact ⟨⟨ih h.1.1, h.1.2⟩, h.2⟩
  case un =>
    intro op e ih h
    rw [CarveNSem] at h ⊢
    simp only [Bool.and_eq_true] at h ⊢
    exact ⟨⟨ih h.1.1, h.1.2⟩, h.2⟩
  case not =>
    intro e ih h
    rw [CarveNSem] at h ⊢
    simp only [Bool.and_eq_true] at h ⊢
    exact ⟨ih h.1, h.2⟩
  case bin =>
    intro op a b iha ihb h
    rw [CarveNSem] at h ⊢
    simp only [Bool.and_eq_true] at h ⊢
    exact ⟨⟨⟨⟨iha h.1.1.1.1, ihb h.1.1.1.2⟩, h.1.1.2⟩, h.1.2⟩, h.2⟩
  case shift =>
    intro op a b iha ihb h
    rw [CarveNSem] at h ⊢
    simp only [Bool.and_eq_true] at h ⊢
    exact ⟨⟨⟨iha h.1.1.1, ihb h.1.1.2⟩, h.1.2⟩, h.2⟩
  case cmp =>
    intro op a b iha ihb h
    rw [CarveNSem] at h ⊢
    simp only [Bool.and_eq_true] at h ⊢
    exact ⟨⟨⟨⟨iha h.1.1.1.1, ihb h.1.1.1.2⟩, h.1.1.2⟩, h.1.2⟩, h.2⟩
  case log =>
    intro op a b iha ihb h
    rw [CarveNSem] at h ⊢
    simp only [Bool.and_eq_true] at h ⊢
    exact ⟨⟨iha h.1.1, ihb h.1.2⟩, h.2⟩
  case tern =>
    intro x a b ihx iha ihb h
    rw [CarveNSem] at h ⊢
    simp only [Bool.and_eq_true] at h ⊢
    exact ⟨⟨⟨⟨⟨ihx h.1.1.1.1.1, iha h.1.1.1.1.2⟩, ihb h.1.1.1.2⟩, h.1.1.2⟩, h.1.2⟩, h.2⟩
  case macroc =>
    intro name args ret params ih h
    rw [CarveNSem] at h ⊢
    exact ih params _ h
  case load => intro s w t h; rw [CarveNSem] at h ⊢; exact h
  case post => intro v t op h; rw [CarveNSem] at h; cases h
  case call => intro n a r p _ h; rw [CarveNSem] at h; cases h
  case stmtexpr => intro t v e _ h; rw [CarveNSem] at h; cases h
  case seqexpr => intro n x a p v _ _ h; rw [CarveNSem] at h; cases h
  case callx => intro n x a r p _ h; rw [CarveNSem] at h; cases h
  case xmacro => intro n x r h; rw [CarveNSem] at h; cases h
  case nil => intro params low _; rw [CarveNsSem]
  case cons =>
    intro a as iha ihas params low h
    cases params with
    | nil => rw [CarveNsSem]
    | cons p ps =>
      rw [CarveNsSem] at h ⊢
      simp only [Bool.and_eq_true] at h ⊢
      exact ⟨⟨⟨iha h.1.1.1, h.1.1.2⟩, onA_mono h.1.2 (fun _ h' => by
        simp only [lowSafe, Bool.or_false] at h'; rw [h']; rfl)⟩, ihas ps none h.2⟩

theorem carveESem_mono_lb {asg : List String} {e : CExpr} (h : CarveESem asg e = true) : CarveESem asg e true = true := by
  unfold CarveESem at h ⊢
  simp only [Bool.and_eq_true] at h ⊢
  exact ⟨carveNSem_mono_lb asg e h.1, h.2⟩

theorem carveCSem_mono_lb {env : CEnv} {e : CExpr} (h : CarveCSem env e = true) : CarveCSem env e true = true := by
  unfold CarveCSem at h ⊢
  simp only [Bool.and_eq_true] at h ⊢
  exact ⟨carveNSem_mono_lb _ e h.1, h.2⟩

mutual
theorem carveSSem_mono_lb (env : CEnv) : (s : CStmt) → CarveSSem env s = true → CarveSSem env s true = true
  | .decl _ _ none, _ => by rw [CarveSSem]
  | .decl t n (some e), h => by
      rw [CarveSSem] at h ⊢
      simp only [Bool.and_eq_true] at h ⊢
      exact ⟨carveESem_mono_lb h.1, h.2⟩
  | .assign lhs op e, h => by
      rw [CarveSSem] at h ⊢
      simp only [Bool.and_eq_true] at h ⊢
      exact ⟨⟨h.1.1, carveESem_mono_lb h.1.2⟩, h.2⟩
  | .chain l1 l2 op2 e, h => by rw [CarveSSem] at h ⊢; exact h
  | .store w e, h => by
      rw [CarveSSem] at h ⊢
      simp only [Bool.and_eq_true] at h ⊢
      exact ⟨carveESem_mono_lb h.1, h.2⟩
  | .ite x t none, h => by
      rw [CarveSSem] at h ⊢
      simp only [Bool.and_eq_true] at h ⊢
      exact ⟨⟨carveCSem_mono_lb h.1.1, carveSsSem_mono_lb env t h.1.2⟩, trivial⟩
  | .ite x t (some e), h => by
      rw [CarveSSem] at h ⊢
      simp only [Bool.and_eq_true] at h ⊢
      exact ⟨⟨carveCSem_mono_lb h.1.1, carveSsSem_mono_lb env t h.1.2⟩, carveSsSem_mono_lb env e h.2⟩
  | .for_ v x step b, h => by
      rw [CarveSSem] at h ⊢
      simp only [Bool.and_eq_true] at h ⊢
      exact ⟨⟨h.1.1, carveCSem_mono_lb h.1.2⟩, carveSsSem_mono_lb env b h.2⟩
  | .jump e, h => by
      rw [CarveSSem] at h ⊢
      simp only [Bool.and_eq_true] at h ⊢
      exact ⟨carveESem_mono_lb h.1, h.2⟩
  | .skip _, _ => by rw [CarveSSem]
  | .exprstmt e, h => by
      rw [CarveSSem] at h ⊢
      exact carveESem_mono_lb h
  | .ret _, _ => by rw [CarveSSem]
  | .vcall _ _ _ _, _ => by rw [CarveSSem]
theorem carveSsSem_mono_lb (env : CEnv) : (ss : List CStmt) → CarveSsSem env ss = true → CarveSsSem env ss true = true
  | [], _ => by rw [CarveSsSem]
  | s :: ss, h => by
      rw [CarveSsSem] at h ⊢
      simp only [Bool.and_eq_true] at h ⊢
      exact ⟨carveSSem_mono_lb env s h.1, carveSsSem_mono_lb env ss h.2⟩
end

/-- the certificate with the low-bits flag contains the one without -/
theorem certifiedSemX_of_certifiedSem {prog : List CStmt} (h : certifiedSem prog = true) : certifiedSemX prog = true := by
  simp only [certifiedSem, CarveProgSem, Bool.and_eq_true] at h
  obtain ⟨⟨⟨hrest, hcarve⟩, hfree⟩, hsame⟩ := h
  simp only [certifiedSemX, CarveProgSem, Bool.and_eq_true]
  exact ⟨⟨⟨hrest, carveSsSem_mono_lb _ prog hcarve⟩, hfree⟩, hsame⟩

/-- **the semantic certificate extends the syntactic one** -/
theorem certifiedSem_of_certified {prog : List CStmt} (h : certified prog = true) : certifiedSem prog = true := by
  simp only [certified, Bool.and_eq_true] at h
  obtain ⟨⟨⟨⟨⟨hok, hwf⟩, hwfe⟩, hcarve⟩, hfree⟩, hdead⟩ := h
  simp only [certifiedSem, CarveProgSem, Bool.and_eq_true]
  exact ⟨⟨⟨⟨⟨hok, hwf⟩, hwfe⟩, carveSsSem_of_carveSs _ prog hcarve⟩, hfree⟩, HSameProg_of_carve prog hfree hcarve hdead⟩

/-- non-vacuity: `A2_add` is certified syntactically, hence semantically -/
example : certifiedSem C01.a2_add = true := certifiedSem_of_certified (by decide +kernel)

end Sem
end Rzil
