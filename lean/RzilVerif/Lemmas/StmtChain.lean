import RzilVerif.Lemmas.StmtAssign
/-!
  C05 helpers, part 8: chained assignment `lhs1 = lhs2 op2 e`.
-/
namespace Rzil
namespace C05

/-- two C-side states that cannot be told apart by the relation (same fields, same lookups) -/
structure CEquiv (σ σ' : MState) : Prop where
  cur : σ.cur = σ'.cur
  new : σ.new = σ'.new
  written : σ.written = σ'.written
  mem : σ.mem = σ'.mem
  imm : σ.imm = σ'.imm
  pktAddr : σ.pktAddr = σ'.pktAddr
  stores : σ.stores = σ'.stores
  locals : ∀ n, lookupS n σ.locals = lookupS n σ'.locals

theorem Inv.congrC {c : Ctx} {σC σC' σIL : MState} (h : Inv c σC σIL) (he : CEquiv σC σC') : Inv c σC' σIL := by
  obtain ⟨r, i, iv, t, fr⟩ := h
  refine ⟨⟨he.cur ▸ r.cur, he.new ▸ r.new, he.written ▸ r.written, he.mem ▸ r.mem,
    he.pktAddr ▸ r.pktAddr, he.stores ▸ r.stores, ?_⟩, i, he.imm ▸ iv, ?_, ?_⟩
  · intro n v hn; rw [← he.locals] at hn; exact r.locals n v hn
  · intro n hn; rw [← he.locals]; exact t n hn
  · intro l hl; rw [← he.locals]; exact fr l hl

theorem writeLhsC_ok {c : Ctx} {lhs : CExpr} (hl : lhsOK c lhs = true) (σ : MState) {w : Nat} (x : BitVec w) :
    ∃ σ', writeLhsC σ lhs (.bv w x) = .ok σ' := by
  cases lhs with
  | var n t => exact ⟨_, rfl⟩
  | reg n k t => exact ⟨_, rfl⟩
  | imm l s => exact ⟨_, rfl⟩
  | _ => simp [lhsOK] at hl

/-- writing a target that an expression does not read does not change what the expression sees -/
theorem writeLhsC_agree {lhs1 : CExpr} {v : Val} {σ σ' : MState} (h : writeLhsC σ lhs1 v = .ok σ')
    {e : CExpr} (hi : targetIndep lhs1 [e] = true) : AgreeOn (readVars e) (readRegs e) (readImms e) σ σ' := by
  cases lhs1 with
  | var n t =>
    simp only [writeLhsC, Except.ok.injEq] at h
    subst h
    simp only [targetIndep, List.all_cons, List.all_nil, Bool.and_true, Bool.not_eq_eq_eq_not, Bool.not_true,
      List.contains_eq_mem, decide_eq_false_iff_not] at hi
    refine ⟨fun _ _ => ⟨rfl, rfl, rfl⟩, rfl, fun _ _ => rfl, rfl, ?_⟩
    intro k hk w hw
    have : k ≠ n := fun e' => hi (e' ▸ hk)
    simp only [lookupS_setLocal_ne this]; exact hw
  | reg n k t =>
    cases v with
    | bv w x =>
      simp only [writeLhsC, writeRegC, Except.ok.injEq] at h
      subst h
      simp only [targetIndep, List.all_cons, List.all_nil, Bool.and_true, Bool.not_eq_eq_eq_not, Bool.not_true,
        List.contains_eq_mem, decide_eq_false_iff_not] at hi
      refine ⟨?_, rfl, fun _ _ => rfl, rfl, fun _ _ _ hw => hw⟩
      intro ov hov
      have : ov ≠ opvarOf n k := fun e' => hi (e' ▸ hov)
      simp [this]
    | _ => simp [writeLhsC, writeRegC] at h
  | imm l s =>
    cases v with
    | bv w x =>
      simp only [writeLhsC, Except.ok.injEq] at h
      subst h
      simp only [targetIndep, List.all_cons, List.all_nil, Bool.and_true, Bool.not_eq_eq_eq_not, Bool.not_true,
        List.contains_eq_mem, decide_eq_false_iff_not] at hi
      refine ⟨fun _ _ => ⟨rfl, rfl, rfl⟩, rfl, ?_, rfl, fun _ _ _ hw => hw⟩
      intro q hq
      have : q ≠ l := fun e' => hi (e' ▸ hq)
      simp [this]
    | _ => simp [writeLhsC] at h
  | _ => simp [targetIndep] at hi

theorem bv_ofNat_toNat {w : Nat} (x : BitVec w) : Val.bv w (BitVec.ofNat w x.toNat) = Val.bv w x := by
  rw [BitVec.ofNat_toNat, BitVec.setWidth_eq]

/-- reading the target back gives the value just written -/
theorem reread {ms : MacroSem} {lhs : CExpr} (hr : rereadable lhs = true) {σ σ' : MState}
    {x : BitVec (typeOfC lhs).width} (h : writeLhsC σ lhs (.bv _ x) = .ok σ') :
    evalC ms σ' lhs = .ok (.bv _ x) := by
  cases lhs with
  | var n t =>
    simp only [writeLhsC, Except.ok.injEq] at h
    subst h
    simp only [evalC, lookupS_setLocal_self]
  | reg n k t =>
    simp only [writeLhsC, writeRegC, Except.ok.injEq] at h
    subst h
    simp only [rereadable, Bool.and_eq_true, bne_iff_ne, ne_eq] at hr
    simp only [evalC, readRegC, typeOfC, beq_self_eq_true, ↓reduceIte]
    cases k <;> simp_all <;> exact bv_ofNat_toNat _
  | imm l s =>
    simp only [writeLhsC, Except.ok.injEq] at h
    subst h
    simp only [evalC, beq_self_eq_true, ↓reduceIte]
    exact congrArg _ (bv_ofNat_toNat x)
  | _ => simp [rereadable] at hr

/-- writes to two different targets commute (up to `CEquiv`) -/
theorem writeLhsC_comm {l1 l2 : CExpr} (hi : targetIndep l1 [l2] = true) {σ σa σa' σb σb' : MState} {v1 v2 : Val}
    (h2 : writeLhsC σ l2 v2 = .ok σa) (h21 : writeLhsC σa l1 v1 = .ok σa')
    (h1 : writeLhsC σ l1 v1 = .ok σb) (h12 : writeLhsC σb l2 v2 = .ok σb') :
    CEquiv σb' σa' := by
  cases l1 with
  | var n1 t1 =>
    simp only [writeLhsC, Except.ok.injEq] at h1 h21
    subst h1; subst h21
    cases l2 with
    | var n2 t2 =>
      simp only [writeLhsC, Except.ok.injEq] at h2 h12
      subst h2; subst h12
      simp only [targetIndep, readVars, List.all_cons, List.all_nil, Bool.and_true, Bool.not_eq_eq_eq_not,
        Bool.not_true, List.contains_eq_mem, decide_eq_false_iff_not, List.mem_singleton] at hi
      refine ⟨rfl, rfl, rfl, rfl, rfl, rfl, rfl, ?_⟩
      intro k
      simp only [lookupS_setLocal]
      by_cases hk1 : k = n1 <;> by_cases hk2 : k = n2 <;> simp_all
    | reg n2 k2 t2 =>
      cases v2 with
      | bv w x =>
        simp only [writeLhsC, writeRegC, Except.ok.injEq] at h2 h12
        subst h2; subst h12
        exact ⟨rfl, rfl, rfl, rfl, rfl, rfl, rfl, fun _ => rfl⟩
      | _ => simp [writeLhsC, writeRegC] at h2
    | imm l2 s2 =>
      cases v2 with
      | bv w x =>
        simp only [writeLhsC, Except.ok.injEq] at h2 h12
        subst h2; subst h12
        exact ⟨rfl, rfl, rfl, rfl, rfl, rfl, rfl, fun _ => rfl⟩
      | _ => simp [writeLhsC] at h2
    | _ => simp [writeLhsC] at h2
  | reg n1 k1 t1 =>
    cases v1 with
    | bv w1 x1 =>
      simp only [writeLhsC, writeRegC, Except.ok.injEq] at h1 h21
      subst h1; subst h21
      cases l2 with
      | var n2 t2 =>
        simp only [writeLhsC, Except.ok.injEq] at h2 h12
        subst h2; subst h12
        exact ⟨rfl, rfl, rfl, rfl, rfl, rfl, rfl, fun _ => rfl⟩
      | reg n2 k2 t2 =>
        cases v2 with
        | bv w x =>
          simp only [writeLhsC, writeRegC, Except.ok.injEq] at h2 h12
          subst h2; subst h12
          simp only [targetIndep, readRegs, List.all_cons, List.all_nil, Bool.and_true, Bool.not_eq_eq_eq_not,
            Bool.not_true, List.contains_eq_mem, decide_eq_false_iff_not, List.mem_singleton] at hi
          refine ⟨rfl, ?_, ?_, rfl, rfl, rfl, rfl, fun _ => rfl⟩
          · funext q
            by_cases hq1 : q = opvarOf n1 k1 <;> by_cases hq2 : q = opvarOf n2 k2 <;> simp_all
          · funext q
            by_cases hq1 : q = opvarOf n1 k1 <;> by_cases hq2 : q = opvarOf n2 k2 <;> simp_all
        | _ => simp [writeLhsC, writeRegC] at h2
      | imm l2 s2 =>
        cases v2 with
        | bv w x =>
          simp only [writeLhsC, Except.ok.injEq] at h2 h12
          subst h2; subst h12
          exact ⟨rfl, rfl, rfl, rfl, rfl, rfl, rfl, fun _ => rfl⟩
        | _ => simp [writeLhsC] at h2
      | _ => simp [writeLhsC] at h2
    | _ => simp [writeLhsC, writeRegC] at h1
  | imm l1 s1 =>
    cases v1 with
    | bv w1 x1 =>
      simp only [writeLhsC, Except.ok.injEq] at h1 h21
      subst h1; subst h21
      cases l2 with
      | var n2 t2 =>
        simp only [writeLhsC, Except.ok.injEq] at h2 h12
        subst h2; subst h12
        exact ⟨rfl, rfl, rfl, rfl, rfl, rfl, rfl, fun _ => rfl⟩
      | reg n2 k2 t2 =>
        cases v2 with
        | bv w x =>
          simp only [writeLhsC, writeRegC, Except.ok.injEq] at h2 h12
          subst h2; subst h12
          exact ⟨rfl, rfl, rfl, rfl, rfl, rfl, rfl, fun _ => rfl⟩
        | _ => simp [writeLhsC, writeRegC] at h2
      | imm l2 s2 =>
        cases v2 with
        | bv w x =>
          simp only [writeLhsC, Except.ok.injEq] at h2 h12
          subst h2; subst h12
          simp only [targetIndep, readImms, List.all_cons, List.all_nil, Bool.and_true, Bool.not_eq_eq_eq_not,
            Bool.not_true, List.contains_eq_mem, decide_eq_false_iff_not, List.mem_singleton] at hi
          refine ⟨rfl, rfl, rfl, rfl, ?_, rfl, rfl, fun _ => rfl⟩
          funext q
          by_cases hq1 : q = l1 <;> by_cases hq2 : q = l2 <;> simp_all
        | _ => simp [writeLhsC] at h2
      | _ => simp [writeLhsC] at h2
    | _ => simp [writeLhsC] at h1
  | _ => simp [targetIndep] at hi

theorem readVars_compound (l : CExpr) (op : String) (e : CExpr) :
    ∀ n ∈ readVars (compoundExpr l op e), n ∈ readVars l ++ readVars e := by
  intro n hn
  unfold compoundExpr at hn
  split at hn <;> simp_all [readVars]

theorem readRegs_compound (l : CExpr) (op : String) (e : CExpr) :
    ∀ n ∈ readRegs (compoundExpr l op e), n ∈ readRegs l ++ readRegs e := by
  intro n hn
  unfold compoundExpr at hn
  split at hn <;> simp_all [readRegs]

theorem readImms_compound (l : CExpr) (op : String) (e : CExpr) :
    ∀ n ∈ readImms (compoundExpr l op e), n ∈ readImms l ++ readImms e := by
  intro n hn
  unfold compoundExpr at hn
  split at hn <;> simp_all [readImms]

theorem targetIndep_compound {l1 l2 : CExpr} {op : String} {e : CExpr} (h : targetIndep l1 [l2, e] = true) :
    targetIndep l1 [compoundExpr l2 op e] = true ∧ targetIndep l1 [l2] = true := by
  cases l1 with
  | var n t =>
    simp only [targetIndep, List.all_cons, List.all_nil, Bool.and_true, Bool.and_eq_true, Bool.not_eq_eq_eq_not,
      Bool.not_true, List.contains_eq_mem, decide_eq_false_iff_not] at h ⊢
    refine ⟨fun hm => ?_, h.1⟩
    have := readVars_compound l2 op e n hm
    simp only [List.mem_append] at this
    rcases this with h' | h'
    · exact h.1 h'
    · exact h.2 h'
  | reg n k t =>
    simp only [targetIndep, List.all_cons, List.all_nil, Bool.and_true, Bool.and_eq_true, Bool.not_eq_eq_eq_not,
      Bool.not_true, List.contains_eq_mem, decide_eq_false_iff_not] at h ⊢
    refine ⟨fun hm => ?_, h.1⟩
    have := readRegs_compound l2 op e _ hm
    simp only [List.mem_append] at this
    rcases this with h' | h'
    · exact h.1 h'
    · exact h.2 h'
  | imm l s =>
    simp only [targetIndep, List.all_cons, List.all_nil, Bool.and_true, Bool.and_eq_true, Bool.not_eq_eq_eq_not,
      Bool.not_true, List.contains_eq_mem, decide_eq_false_iff_not] at h ⊢
    refine ⟨fun hm => ?_, h.1⟩
    have := readImms_compound l2 op e _ hm
    simp only [List.mem_append] at this
    rcases this with h' | h'
    · exact h.1 h'
    · exact h.2 h'
  | _ => simp [targetIndep] at h

section
variable {ms : MacroSem} {WF : MState → CExpr → Prop} (hE : ExprOK ms WF)
variable {c : Ctx} {env : CEnv} (henv : env.cfg = Cfg.fixed)
include hE henv

/-- chained assignment `lhs1 = lhs2 op2 e`: the IL writes the outer target first (from the inner source
    converted to the outer type), then the inner target; the C side assigns the inner target, re-reads it
    and assigns the outer one.  Equal when `lhs1` is read by neither `lhs2` nor `e`. -/
theorem chain_correct {st st' : TSt} {l1 l2 : CExpr} {op2 : String} {e : CExpr} {eff : ILEffect}
    {σC σIL σC' : MState} {f : Nat} (hc : c.ok = true)
    (hcomp : compileStmt env st (.chain l1 l2 op2 e) = .ok (eff, st'))
    (hwf : WFStmt c (.chain l1 l2 op2 e) = true) (hWF : WFHyp ms WF c (exprsOf (.chain l1 l2 op2 e)))
    (hinv : Inv c σC σIL)
    (hex : execC ms (f+1) (.chain l1 l2 op2 e) σC = .ok σC') :
    ∃ σIL', ExecIL ms eff σIL σIL' ∧ Inv c σC' σIL' := by
  simp only [execC] at hex
  obtain ⟨σ1, hin, hout⟩ := bind_ok hex
  clear hex
  cases f with
  | zero => simp [execC] at hin
  | succ f =>
  rw [execC_assign] at hin hout
  obtain ⟨v, hv, hin1⟩ := bind_ok hin
  obtain ⟨v', hv', hw2⟩ := bind_ok hin1
  obtain ⟨u, hu, hout1⟩ := bind_ok hout
  obtain ⟨u', hu', hw1⟩ := bind_ok hout1
  clear hin hin1 hout hout1
  simp only [compileStmt] at hcomp
  obtain ⟨ce, hce, hcomp1⟩ := bind_ok hcomp
  obtain ⟨⟨effI, srcI⟩, hcaI, hcomp2⟩ := bind_ok hcomp1
  obtain ⟨⟨effO, srcO⟩, hcaO, hcomp3⟩ := bind_ok hcomp2
  clear hcomp hcomp1 hcomp2
  simp only [Except.ok.injEq, Prod.mk.injEq] at hcomp3
  obtain ⟨rfl, _⟩ := hcomp3
  simp only [WFStmt, Bool.and_eq_true, List.contains_eq_mem, decide_eq_true_eq] at hwf
  obtain ⟨⟨⟨⟨hop, hl1⟩, hl2⟩, hrr⟩, hti⟩ := hwf
  obtain ⟨htic, hti2⟩ := targetIndep_compound (op := op2) hti
  simp only [exprsOf] at hWF
  -- the inner value, in the initial states
  obtain ⟨x, rfl, hsI, hnbI, hdwI⟩ := assign_sim hE henv hop hl2 hce hcaI hWF hinv hv hv'
  -- the C side re-reads the inner target
  have hrr' := reread (ms := ms) hrr hw2
  simp only [compoundExpr] at hu hu'
  rw [hrr'] at hu; cases hu
  rw [convC_bv] at hu'; cases hu'
  -- the outer source: the inner source converted to the outer type
  obtain ⟨cd1, hcd1⟩ := compileAssign_lhs hcaO
  obtain ⟨hcd1ty, h11⟩ := lhs_facts henv hl1 hcd1
  obtain ⟨hdwO, hsO, hnbO⟩ := il_assign (xl := 0) henv hcaO hcd1 hcd1ty h11 (by simp [assignOps])
    (fun h => absurd rfl h) hsI (fun h => by rcases h with h | h <;> simp at h)
  have hvalO : assignVal "=" (typeOfC l1) (typeOfC l2) 0 x = convBits (typeOfC l2) (typeOfC l1) x := rfl
  rw [hvalO] at hsO
  -- IL: outer write first
  obtain ⟨σCa, hwa⟩ := writeLhsC_ok hl1 σC (convBits (typeOfC l2) (typeOfC l1) x)
  obtain ⟨σILa, hxO, hinva⟩ := destWrite_correct hc hl1 hdwO hinv (hsO.eval hnbO).1 hwa
  -- the inner source has the same value after the outer write
  have hva : evalC ms σCa (compoundExpr l2 op2 e) = .ok v := evalC_congr ms _ (writeLhsC_agree hwa htic) hv
  obtain ⟨xa, hxa, hsIa, _, _⟩ := assign_sim hE henv hop hl2 hce hcaI hWF hinva hva hv'
  simp only [Val.bv.injEq, heq_eq_eq, true_and] at hxa
  subst hxa
  -- IL: inner write second
  obtain ⟨σCb, hwb⟩ := writeLhsC_ok hl2 σCa x
  obtain ⟨σILb, hxI, hinvb⟩ := destWrite_correct hc hl2 hdwI hinva (hsIa.eval hnbI).1 hwb
  have hceq : CEquiv σCb σC' := writeLhsC_comm hti2 hw2 hw1 hwa hwb
  exact ⟨σILb, mkSeq_exec.2 (ExecSeqIL_cons hxO (ExecSeqIL_cons hxI ExecSeqIL_nil)), hinvb.congrC hceq⟩

end
end C05
end Rzil
