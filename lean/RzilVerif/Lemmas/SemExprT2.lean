import RzilVerif.Model.CarveSem
import RzilVerif.Lemmas.SemSort
import RzilVerif.Lemmas.SemLow
/-!
# T2-semantic for expressions

On the semantic carve-out `CarveNSem` / `CarveESem` the lowering as coded (`Cfg.asCode`) and the repaired lowering
(`Cfg.fixed`) return compiled expressions with equal type, equal object kind and EQUIVALENT IL (`PEqAt`: equal
evaluation in every typed state `SInv c σ`), and they fail together.  The relational counterpart of
`Lemmas/ExprT2.lean`; the width of the value under a narrowing cast comes from `sortOK_fixed`.
-/
namespace Rzil
namespace Sem

/-! ## relations -/

/-- same type and kind, equivalent IL in the state `σ` -/
structure CERel (ms : MacroSem) (σ : MState) (a f : CE) : Prop where
  ty : a.ty = f.ty
  kind : a.kind = f.kind
  il : PEqAt ms σ [] a.il f.il

theorem CERel.refl {ms σ} (a : CE) : CERel ms σ a a := ⟨rfl, rfl, PEqAt.refl _⟩
theorem CERel.of_eq {ms σ} {a f : CE} (h : a = f) : CERel ms σ a f := h ▸ CERel.refl a

/-- both results fail, or both succeed with related values -/
def ResRel {α β : Type} (R : α → β → Prop) : Except String α → Except String β → Prop
  | .ok a, .ok b => R a b
  | .error _, .error _ => True
  | _, _ => False

theorem ResRel.ok_left {α β : Type} {R : α → β → Prop} {x : Except String α} {y : Except String β} (h : ResRel R x y)
    {a : α} (hx : x = .ok a) : ∃ b, y = .ok b ∧ R a b := by
  subst hx
  cases y with
  | error m => exact absurd h (by simp [ResRel])
  | ok b => exact ⟨b, rfl, h⟩

theorem ResRel.ok_right {α β : Type} {R : α → β → Prop} {x : Except String α} {y : Except String β} (h : ResRel R x y)
    {b : β} (hy : y = .ok b) : ∃ a, x = .ok a ∧ R a b := by
  subst hy
  cases x with
  | error m => exact absurd h (by simp [ResRel])
  | ok a => exact ⟨a, rfl, h⟩

theorem ResRel.bind {α β α' β' : Type} {R : α → β → Prop} {S : α' → β' → Prop}
    {x : Except String α} {y : Except String β} {f : α → Except String α'} {g : β → Except String β'}
    (h : ResRel R x y) (hf : ∀ a b, x = .ok a → y = .ok b → R a b → ResRel S (f a) (g b)) :
    ResRel S (x >>= f) (y >>= g) := by
  cases x with
  | error m =>
    cases y with
    | error m' => trivial
    | ok b => exact absurd h (by simp [ResRel])
  | ok a =>
    cases y with
    | error m' => exact absurd h (by simp [ResRel])
    | ok b => exact hf a b rfl rfl h

theorem ResRel.mono {α β : Type} {R S : α → β → Prop} {x : Except String α} {y : Except String β}
    (h : ResRel R x y) (hRS : ∀ a b, R a b → S a b) : ResRel S x y := by
  cases x <;> cases y <;> first | trivial | exact hRS _ _ h | exact h

theorem ResRel.of_map {α : Type} {R : α → α → Prop} {x y : Except String α} {g : α → α}
    (h : y = x.map g) (hR : ∀ a, R a (g a)) : ResRel R x y := by
  subst h
  cases x with
  | error m => trivial
  | ok a => exact hR a

/-- type and kind agree -/
def TK (a b : CE) : Prop := a.ty = b.ty ∧ a.kind = b.kind

theorem CERel.tk {ms σ} {a f : CE} (h : CERel ms σ a f) : TK a f := ⟨h.ty, h.kind⟩
theorem TK.refl (a : CE) : TK a a := ⟨rfl, rfl⟩
theorem TK.symm {a b : CE} (h : TK a b) : TK b a := ⟨h.1.symm, h.2.symm⟩

theorem TK.elim {a b : CE} (h : TK a b) : ∃ il, b = { a with il := il } := by
  obtain ⟨ai, at_, ak⟩ := a
  obtain ⟨bi, bt, bk⟩ := b
  obtain ⟨h1, h2⟩ := h
  simp only at h1 h2
  subst h1 h2
  exact ⟨bi, rfl⟩

theorem CastSafeSem_tk {a b : CE} (h : TK a b) (t : VT) : CastSafeSem t a = CastSafeSem t b := by
  obtain ⟨il, rfl⟩ := h.elim; rfl

theorem castOpsSafeSem_tk {a a' b b' : CE} (ha : TK a a') (hb : TK b b') : castOpsSafeSem a b = castOpsSafeSem a' b' := by
  obtain ⟨il, rfl⟩ := ha.elim; obtain ⟨il', rfl⟩ := hb.elim; rfl

theorem initACast_tk (cfg cfg' : Cfg) (t : VT) {a b : CE} (h : TK a b) : TK (initACast cfg t a) (initACast cfg' t b) := by
  obtain ⟨il, rfl⟩ := h.elim
  unfold initACast
  simp only
  split
  · exact ⟨rfl, rfl⟩
  · split <;> exact ⟨rfl, rfl⟩

theorem promotionCast_tk (cfg cfg' : Cfg) {a b : CE} (h : TK a b) : TK (promotionCast cfg a) (promotionCast cfg' b) := by
  rw [promotionCast_eq, promotionCast_eq, h.1]; exact initACast_tk _ _ _ h

theorem CastSafe_imp_Sem {t : VT} {p : CE} (h : CastSafe t p = true) : CastSafeSem t p = true := by
  unfold CastSafeSem; rw [h]; rfl

/-! ## the conversions -/

section
variable {ms : MacroSem} {σ : MState}

/-- **`init_a_cast`, semantically**: the same type and kind under both configurations, and equivalent IL, when the
    conversion is `CastSafeSem` and the source of the repaired side has the sort of its type -/
theorem initACast_sem (tgt : VT) {a f : CE} (h : CERel ms σ a f) (hs : SortOK ms σ f)
    (hc : CastSafeSem tgt a = true) :
    CERel ms σ (initACast Cfg.asCode tgt a) (initACast Cfg.fixed tgt f) := by
  obtain ⟨ai, ty, k⟩ := a
  obtain ⟨fi, fty, fk⟩ := f
  obtain ⟨h1, h2, h3⟩ := h
  simp only at h1 h2 h3
  subst h1 h2
  unfold CastSafeSem CastSafe at hc
  unfold initACast
  simp only [cfgsimp, if_true, Bool.false_eq_true, if_false] at hc ⊢
  by_cases he : tgt.eqv ty = true
  · rw [if_pos he, if_pos he]; exact ⟨rfl, rfl, h3⟩
  · rw [if_neg he, if_neg he]
    simp only [he, Bool.false_or] at hc
    by_cases hb : (ty.hasFlag VT.gBOOL && !(tgt.hasFlag VT.gBOOL)) = true
    · rw [if_pos hb, if_pos hb]
      rw [if_pos hb] at hc
      have hfl : ty.hasFlag VT.gBOOL = true := by
        simp only [Bool.and_eq_true] at hb; exact hb.1
      have hk : k = .boolObj := by simpa [hfl] using hc
      subst hk
      exact ⟨rfl, rfl, PEqAt.ite h3 (PEqAt.refl _) (PEqAt.refl _)⟩
    · rw [if_neg hb, if_neg hb]
      rw [if_neg hb] at hc
      refine ⟨rfl, rfl, ?_⟩
      simp only
      cases hsg : ty.signed
      · simp only [Bool.and_false, Bool.false_eq_true, if_false]
        exact PEqAt.cast _ (PEqAt.refl _) h3
      · cases htg : tgt.signed
        · simp only [Bool.false_and, Bool.false_eq_true, if_false, if_true]
          simp only [hsg, htg, Bool.not_true, Bool.or_self, Bool.false_or, Bool.and_eq_true, decide_eq_true_eq,
            Bool.not_eq_true'] at hc
          exact cast_bfalse_msb h3 (hs.width_le hc.2 hc.1)
        · simp only [Bool.and_self, if_true]
          exact PEqAt.cast _ (PEqAt.un _ h3) h3

theorem promotionCast_sem {a f : CE} (h : CERel ms σ a f) (hs : SortOK ms σ f) (hc : promoSafe a = true) :
    CERel ms σ (promotionCast Cfg.asCode a) (promotionCast Cfg.fixed f) := by
  rw [promotionCast_eq, promotionCast_eq, ← h.ty]
  exact initACast_sem _ h hs (CastSafe_imp_Sem hc)

theorem promotionCast_sem_wide {a f : CE} (h : CERel ms σ a f) (cfg cfg' : Cfg) (hw : 32 ≤ a.ty.width) :
    CERel ms σ (promotionCast cfg a) (promotionCast cfg' f) := by
  rw [promotionCast_of_wide _ _ hw, promotionCast_of_wide _ _ (h.ty ▸ hw)]; exact h

theorem castOperands_sem {a b fa fb : CE} (ha : CERel ms σ a fa) (hb : CERel ms σ b fb)
    (hsa : SortOK ms σ fa) (hsb : SortOK ms σ fb) (hc : castOpsSafeSem a b = true) :
    CERel ms σ (castOperands Cfg.asCode a b).1 (castOperands Cfg.fixed fa fb).1 ∧
    CERel ms σ (castOperands Cfg.asCode a b).2 (castOperands Cfg.fixed fa fb).2 := by
  unfold castOpsSafeSem at hc
  by_cases he : a.ty.eqv b.ty = true
  · have he' : fa.ty.eqv fb.ty = true := by rw [← ha.ty, ← hb.ty]; exact he
    rw [castOperands_of_eqv _ _ _ he, castOperands_of_eqv _ _ _ he']
    exact ⟨ha, hb⟩
  · simp only [he, Bool.false_or, Bool.and_eq_true, beq_iff_eq] at hc
    obtain ⟨⟨⟨g1, g2⟩, s1⟩, s2⟩ := hc
    rw [castOperands_eq, castOperands_eq, ← ha.ty, ← hb.ty]
    have e1 : adjGroup Cfg.fixed (VT.c11Cast a.ty b.ty).1 = (VT.c11Cast a.ty b.ty).1 := by
      rw [adjGroup_fixed]
      generalize (VT.c11Cast a.ty b.ty).1 = t at *
      cases t; simp only at g1; subst g1; rfl
    have e2 : adjGroup Cfg.fixed (VT.c11Cast a.ty b.ty).2 = (VT.c11Cast a.ty b.ty).2 := by
      rw [adjGroup_fixed]
      generalize (VT.c11Cast a.ty b.ty).2 = t at *
      cases t; simp only at g2; subst g2; rfl
    have a1 : adjGroup Cfg.asCode (VT.c11Cast a.ty b.ty).1 = (VT.c11Cast a.ty b.ty).1 := by
      simp only [adjGroup, cfgsimp, if_true]
    have a2 : adjGroup Cfg.asCode (VT.c11Cast a.ty b.ty).2 = (VT.c11Cast a.ty b.ty).2 := by
      simp only [adjGroup, cfgsimp, if_true]
    rw [e1, e2, a1, a2]
    exact ⟨initACast_sem _ ha hsa s1, initACast_sem _ hb hsb s2⟩

/-- condition operand: `condIL` of the code on its result against `condIL` of the repair on the (re-typed) result -/
theorem condIL_sem (e : CExpr) {a f : CE} (h : CERel ms σ (normTy e a) f) (hc : condSafe e a = true) :
    PEqAt ms σ [] (condIL Cfg.asCode a) (condIL Cfg.fixed f) := by
  have h0 := condIL_asCode_eq_fixed e a hc
  rw [h0]
  have hty := h.ty
  have hil := h.il
  rw [normTy_il] at hil
  unfold condIL
  simp only [cfgsimp, Bool.false_eq_true, if_false, hty, normTy_il]
  split
  · exact hil
  · exact PEqAt.un _ hil

end

/-! ## the compiled forms -/

section
variable {ms : MacroSem} {σ : MState}

theorem unOfCE_lit_il (cfg : Cfg) (op : String) {a b : CE} (h : TK a b) {v : Int} (hk : a.kind = .lit v) :
    unOfCE cfg op a = unOfCE cfg op b := by
  obtain ⟨il, rfl⟩ := h.elim
  unfold unOfCE
  simp only [hk]

theorem unOfCE_sem (op : String) {a f : CE} (h : CERel ms σ a f) (hs : SortOK ms σ f) (hc : unSafe op a = true) :
    CERel ms σ (unOfCE Cfg.asCode op a) (unOfCE Cfg.fixed op f) := by
  cases hk : a.kind with
  | lit v =>
    rw [unOfCE_asCode_eq_fixed op a hc, unOfCE_lit_il Cfg.fixed op h.tk hk]
    exact CERel.refl _
  | plain =>
    have hp : promoSafe a = true := by unfold unSafe at hc; simpa [hk] using hc
    have hkf : f.kind = .plain := h.kind ▸ hk
    have := promotionCast_sem h hs hp
    unfold unOfCE
    simp only [hk, hkf]
    exact ⟨this.ty, rfl, PEqAt.un _ this.il⟩
  | boolObj =>
    have hp : promoSafe a = true := by unfold unSafe at hc; simpa [hk] using hc
    have hkf : f.kind = .boolObj := h.kind ▸ hk
    have := promotionCast_sem h hs hp
    unfold unOfCE
    simp only [hk, hkf]
    exact ⟨this.ty, rfl, PEqAt.un _ this.il⟩
  | boolLit r =>
    have hp : promoSafe a = true := by unfold unSafe at hc; simpa [hk] using hc
    have hkf : f.kind = .boolLit r := h.kind ▸ hk
    have := promotionCast_sem h hs hp
    unfold unOfCE
    simp only [hk, hkf]
    exact ⟨this.ty, rfl, PEqAt.un _ this.il⟩

theorem compileBin_sem (asg : List String) (op : String) {a b fa fb : CE} (ha : CERel ms σ a fa) (hb : CERel ms σ b fb)
    (hsa : SortOK ms σ fa) (hsb : SortOK ms σ fb) (hc : arithSafeSem a b = true) :
    ResRel (CERel ms σ) (compileBin ⟨asg, Cfg.asCode⟩ op a b) (compileBin ⟨asg, Cfg.fixed⟩ op fa fb) := by
  unfold arithSafeSem at hc
  simp only [Bool.and_eq_true] at hc
  obtain ⟨⟨p1, p2⟩, hco⟩ := hc
  have r1 := promotionCast_sem ha hsa p1
  have r2 := promotionCast_sem hb hsb p2
  have hco' : castOpsSafeSem (promotionCast Cfg.asCode a) (promotionCast Cfg.asCode b) = true := by
    rw [← hco]
    exact castOpsSafeSem_tk (promotionCast_tk _ _ (TK.refl a)) (promotionCast_tk _ _ (TK.refl b))
  have r := castOperands_sem r1 r2 (sortOK_promotionCast _ _ hsa) (sortOK_promotionCast _ _ hsb) hco'
  rw [compileBin_eq, compileBin_eq]
  simp only
  cases binOp? op with
  | none => trivial
  | some o => exact ⟨r.1.ty, rfl, PEqAt.bin _ r.1.il r.2.il⟩

theorem foldBin_tk (cfg : Cfg) (op : String) {a a' b b' : CE} (ha : TK a a') (hb : TK b b') (va vb : Int) :
    foldBin cfg op a b va vb = foldBin cfg op a' b' va vb := by
  obtain ⟨il, rfl⟩ := ha.elim; obtain ⟨il', rfl⟩ := hb.elim; rfl

theorem binBody_sem (asg : List String) (op : String) {a b fa fb : CE} (ha : CERel ms σ a fa) (hb : CERel ms σ b fb)
    (hsa : SortOK ms σ fa) (hsb : SortOK ms σ fb) (hc : binSafeSem op a b = true) :
    ResRel (CERel ms σ) (binBody ⟨asg, Cfg.asCode⟩ op a b) (binBody ⟨asg, Cfg.fixed⟩ op fa fb) := by
  unfold binSafeSem at hc
  unfold binBody
  rw [← ha.kind, ← hb.kind]
  split
  · next va vb hka hkb =>
    simp only [hka, hkb] at hc
    split
    · next hop =>
      rw [if_pos hop] at hc
      rw [foldBin_asCode_eq_fixed _ _ _ _ _ hc, foldBin_tk Cfg.fixed op ha.tk hb.tk]
      exact CERel.refl _
    · next hop => rw [if_neg hop] at hc; exact compileBin_sem asg op ha hb hsa hsb hc
  · next hne =>
    have : arithSafeSem a b = true := by
      split at hc
      · next va vb hka hkb => exact absurd hkb (hne va vb hka)
      · exact hc
    exact compileBin_sem asg op ha hb hsa hsb this

theorem foldCmp_tk (cfg : Cfg) (op : String) {a a' b b' : CE} (ha : TK a a') (hb : TK b b') (va vb : Int) :
    foldCmp cfg op a b va vb = foldCmp cfg op a' b' va vb := by
  obtain ⟨il, rfl⟩ := ha.elim; obtain ⟨il', rfl⟩ := hb.elim; rfl

theorem cmpOfCE_sem (op : String) {a b fa fb : CE} (ha : CERel ms σ a fa) (hb : CERel ms σ b fb)
    (hsa : SortOK ms σ fa) (hsb : SortOK ms σ fb) (hc : wideSafeSem a b = true) :
    CERel ms σ (cmpOfCE Cfg.asCode op a b) (cmpOfCE Cfg.fixed op fa fb) := by
  unfold wideSafeSem at hc
  simp only [Bool.and_eq_true, decide_eq_true_eq] at hc
  have r := castOperands_sem ha hb hsa hsb hc.2
  unfold cmpOfCE
  simp only [cfgsimp, if_true, Bool.false_eq_true, if_false, promotionCast_of_wide _ _ (ha.ty ▸ hc.1.1),
    promotionCast_of_wide _ _ (hb.ty ▸ hc.1.2)]
  refine ⟨rfl, rfl, ?_⟩
  simp only [r.1.ty, r.2.ty]
  split
  · exact PEqAt.bin _ r.1.il r.2.il
  · exact PEqAt.bin _ r.1.il r.2.il
  · exact PEqAt.bin _ r.1.il r.2.il
  · exact PEqAt.bin _ r.1.il r.2.il
  · exact PEqAt.bin _ r.1.il r.2.il
  · exact PEqAt.un _ (PEqAt.bin _ r.1.il r.2.il)

theorem cmpBody_sem (op : String) {a b fa fb : CE} (ha : CERel ms σ a fa) (hb : CERel ms σ b fb)
    (hsa : SortOK ms σ fa) (hsb : SortOK ms σ fb) (hc : cmpSafeSem a b = true) :
    CERel ms σ (cmpBody Cfg.asCode op a b) (cmpBody Cfg.fixed op fa fb) := by
  unfold cmpSafeSem at hc
  unfold cmpBody
  rw [← ha.kind, ← hb.kind]
  split
  · next va vb hka hkb =>
    simp only [hka, hkb] at hc
    rw [foldCmp_asCode_eq_fixed _ _ _ _ _ hc, foldCmp_tk Cfg.fixed op ha.tk hb.tk]
    exact CERel.refl _
  · next hne =>
    have : wideSafeSem a b = true := by
      split at hc
      · next va vb hka hkb => exact absurd hkb (hne va vb hka)
      · exact hc
    exact cmpOfCE_sem op ha hb hsa hsb this

/-- `condIL` of either configuration on the result of a conversion of the repaired lowering depends on the IL only
    through `PEqAt` -/
theorem condIL_initACast_sem (t : VT) {a f : CE}
    (h : CERel ms σ a f) (hs : SortOK ms σ f) (hc : CastSafeSem { t with group := 1 } a = true)
    (hcond : PEqAt ms σ [] (condIL Cfg.asCode a) (condIL Cfg.fixed f)) :
    PEqAt ms σ [] (condIL Cfg.asCode (initACast Cfg.asCode { t with group := 1 } a))
      (condIL Cfg.fixed (initACast Cfg.fixed { t with group := 1 } f)) := by
  have r := initACast_sem { t with group := 1 } h hs hc
  by_cases he : VT.eqv { t with group := 1 } a.ty = true
  · have he' : VT.eqv { t with group := 1 } f.ty = true := by rw [← h.ty]; exact he
    rw [initACast_of_eqv _ _ _ he, initACast_of_eqv _ _ _ he']
    exact hcond
  · have he' : ¬ VT.eqv { t with group := 1 } f.ty = true := by rw [← h.ty]; exact he
    have hnb : VT.hasFlag { t with group := 1 } VT.gBOOL = false := by simp [VT.hasFlag, VT.gBOOL]
    have k1 : (initACast Cfg.asCode { t with group := 1 } a).kind = .plain := by
      unfold initACast; rw [if_neg he]; split <;> rfl
    have t1 : (initACast Cfg.asCode { t with group := 1 } a).ty = { t with group := 1 } := by
      unfold initACast; rw [if_neg he]; split <;> rfl
    have t2 : (initACast Cfg.fixed { t with group := 1 } f).ty = { t with group := 1 } := by
      unfold initACast; rw [if_neg he']; split <;> rfl
    unfold condIL condILk
    simp only [cfgsimp, if_true, Bool.false_eq_true, if_false, k1, t2, hnb]
    exact PEqAt.un _ r.il

end

/-! ## low-bits macro calls (`lb = true`, assumption `MsLow ms`) -/

section
variable {ms : MacroSem} {σ : MState}

/-- a macro argument after its conversion to the parameter type -/
theorem convArg_eq (cfg : Cfg) (p : CT) (x : CE) :
    (if x.ty.eqv p.toVT = true then x else initACast cfg p.toVT x) = initACast cfg p.toVT x := by
  split
  · next h => rw [initACast_of_eqv]; rw [eqv_comm]; exact h
  · rfl

/-- what `constArg` says: the argument, compiled by the repaired lowering and converted, evaluates to that number -/
theorem constArg_eval {asg : List String} {a : CExpr} {p : CT} {k : Nat} (h : constArg asg a p = some k) {ca : CE}
    (hc : compileExpr ⟨asg, Cfg.fixed⟩ a = .ok ca) (lets : List (String × Val)) :
    ∃ w, ∃ x : BitVec w, evalPure ms σ lets (if ca.ty.eqv p.toVT = true then ca else initACast Cfg.fixed p.toVT ca).il = .ok (.bv w x) ∧
      x.toNat = k := by
  unfold constArg at h
  rw [hc] at h
  simp only at h
  split at h
  · next sg w v hil =>
    simp only [Option.some.injEq] at h
    exact ⟨w, BitVec.ofInt w v, by rw [hil, evalPure_const], h⟩
  · cases h

/-- the two constant arguments `start`, `len` of a low-bits macro call, as the repaired lowering compiles them -/
theorem tail_consts {asg : List String} {s l : CExpr} {ps pl : CT} {st ln : Nat} (hs : constArg asg s ps = some st)
    (hl : constArg asg l pl = some ln) {ys : List ILPure}
    (hT : compileArgs ⟨asg, Cfg.fixed⟩ [s, l] [ps, pl] = .ok ys) (lets : List (String × Val)) :
    ∃ ws wl, ∃ (vs : BitVec ws) (vl : BitVec wl), evalPures ms σ lets ys = .ok [.bv ws vs, .bv wl vl] ∧
      vs.toNat = st ∧ vl.toNat = ln := by
  rw [compileArgs_cons] at hT
  obtain ⟨cs, hcs, hT⟩ := C05.bind_ok hT
  simp only at hT
  obtain ⟨rest, hrest, hT⟩ := C05.bind_ok hT
  rw [compileArgs_cons] at hrest
  obtain ⟨cl, hcl, hrest⟩ := C05.bind_ok hrest
  simp only [compileArgs_nil, bind, Except.bind, Except.ok.injEq] at hrest hT
  subst hrest
  subst hT
  obtain ⟨ws, vs, evs, hvs⟩ := constArg_eval (ms := ms) (σ := σ) hs hcs lets
  obtain ⟨wl, vl, evl, hvl⟩ := constArg_eval (ms := ms) (σ := σ) hl hcl lets
  refine ⟨ws, wl, vs, vl, ?_, hvs, hvl⟩
  rw [evalPures_cons, evalPures_cons, evalPures_nil, evs, evl]
  rfl

/-- **low-bits macro call, semantically**: the first argument may be converted differently by the two lowerings above
    its own width (`lowSafe`) when the macro reads the bits below `start + len ≤ width` only (`MsLow`) -/
theorem macro_args_low (hlow : MsLow ms) {name : String} (hname : name ∈ lowMacros) {asg : List String} {s l : CExpr}
    {p ps pl : CT} (hp : p.width = 64) {st ln : Nat} (hs : constArg asg s ps = some st) (hl : constArg asg l pl = some ln)
    {ca fa : CE} (ra : CERel ms σ ca fa) (hsa : SortOK ms σ fa)
    (hsafe : (CastSafeSem p.toVT ca || lowSafe (some (st + ln)) ca) = true)
    {xs ys : List ILPure} (hT : compileArgs ⟨asg, Cfg.fixed⟩ [s, l] [ps, pl] = .ok ys) (rt : PsEqAt ms σ [] xs ys) :
    PEqAt ms σ [] (.macro (macroRzName name) ((initACast Cfg.asCode p.toVT ca).il :: xs))
      (.macro (macroRzName name) ((initACast Cfg.fixed p.toVT fa).il :: ys)) := by
  by_cases hcs : CastSafeSem p.toVT ca = true
  · exact PEqAt.macro _ (PsEqAt.cons (initACast_sem p.toVT ra hsa hcs).il rt)
  · simp only [hcs, Bool.false_or, lowSafe, Bool.and_eq_true, Bool.not_eq_true', decide_eq_true_eq] at hsafe
    obtain ⟨hfl, hk⟩ := hsafe
    have hne : ¬ p.toVT.eqv ca.ty = true := by
      intro he; apply hcs; unfold CastSafeSem CastSafe; rw [he]; rfl
    have hne' : ¬ p.toVT.eqv fa.ty = true := by rw [← ra.ty]; exact hne
    have hfl' : fa.ty.hasFlag VT.gBOOL = false := by rw [← ra.ty]; exact hfl
    have hw : p.toVT.width = 64 := hp
    obtain ⟨ws, wl, vs, vl, hev, hvs, hvl⟩ := tail_consts (ms := ms) (σ := σ) hs hl hT []
    -- the two conversions are casts to 64 bit with (possibly) different fill operands
    have eA : (initACast Cfg.asCode p.toVT ca).il =
        .cast 64 (if p.toVT.signed && ca.ty.signed then .un .msb ca.il else .bfalse) ca.il := by
      unfold initACast
      rw [if_neg hne]
      simp only [hfl, Bool.false_and, Bool.false_eq_true, if_false, cfgsimp, if_true, hw]
    have eF : (initACast Cfg.fixed p.toVT fa).il = .cast 64 (if fa.ty.signed then .un .msb fa.il else .bfalse) fa.il := by
      unfold initACast
      rw [if_neg hne']
      simp only [hfl', Bool.false_and, Bool.false_eq_true, if_false, cfgsimp, hw]
    rw [eA, eF]
    -- step 1: replace the operand of the code's cast by the repaired lowering's (equivalent) operand
    have step1 : PEqAt ms σ [] (.macro (macroRzName name) (.cast 64 (if p.toVT.signed && ca.ty.signed then .un .msb ca.il else .bfalse) ca.il :: xs))
        (.macro (macroRzName name) (.cast 64 (if p.toVT.signed && ca.ty.signed then .un .msb fa.il else .bfalse) fa.il :: ys)) := by
      refine PEqAt.macro _ (PsEqAt.cons (PEqAt.cast 64 ?_ ra.il) rt)
      split
      · exact PEqAt.un _ ra.il
      · exact PEqAt.refl _
    refine PEqAt.trans step1 ?_
    -- step 2: the fill operand is irrelevant below the width of the operand
    have hbool : ∀ (b : Bool) n (y : BitVec n), evalPure ms σ [] fa.il = .ok (.bv n y) →
        ∃ r, evalPure ms σ [] (if b = true then ILPure.un .msb fa.il else .bfalse) = .ok (.bool r) := by
      intro b n y hy
      cases b
      · exact ⟨false, by simp only [Bool.false_eq_true, if_false]; exact evalPure_bfalse ms σ []⟩
      · exact ⟨y.msb, by simp only [if_true]; exact evalPure_msb_of_bv hy⟩
    refine macro_cast_fill_low hlow hname hev (hbool _) (hbool _) ?_
    rw [hvs, hvl]
    exact hsa.width_le hfl' (by rw [← ra.ty]; exact hk)

end

/-! ## all expressions -/

section
variable (ms : MacroSem) (hms : MsOK ms) (c : Ctx) (σ : MState) (hinv : C05.SInv c σ) (asg : List String) (lb : Bool)

/-- the statement for one expression -/
def PNS (e : CExpr) : Prop :=
  CarveNSem asg e lb = true → WFES c e = true →
    ResRel (fun a f => CERel ms σ (normTy e a) f) (compileExpr ⟨asg, Cfg.asCode⟩ e) (compileExpr ⟨asg, Cfg.fixed⟩ e)

def PNSs (args : List CExpr) : Prop :=
  ∀ params, CarveNsSem asg args params lb = true → WFESs c args params = true →
    ResRel (fun as fs => PsEqAt ms σ [] as fs) (compileArgs ⟨asg, Cfg.asCode⟩ args params)
      (compileArgs ⟨asg, Cfg.fixed⟩ args params)

/-- the statement for every argument of a list (the induction hypothesis of a macro call) -/
def PNSall (args : List CExpr) : Prop := ∀ a, a ∈ args → PNS ms c σ asg lb a

variable {ms c σ asg lb}

/-- value operand -/
theorem PNS.val {e : CExpr} (ih : PNS ms c σ asg lb e) (hc : CarveNSem asg e lb = true) (hn : isNotLog e = false)
    (hwf : WFES c e = true) :
    ResRel (CERel ms σ) (compileExpr ⟨asg, Cfg.asCode⟩ e) (compileExpr ⟨asg, Cfg.fixed⟩ e) :=
  (ih hc hwf).mono (fun a f h => by rw [normTy_of_not hn] at h; exact h)

theorem pns_of_pn {e : CExpr} (hpn : PN asg e) (hcarve : CarveNSem asg e lb = true → CarveN asg e = true) :
    PNS ms c σ asg lb e := by
  intro hc _
  exact ResRel.of_map (hpn (hcarve hc)) (fun a => CERel.refl _)

include hms hinv

theorem pns_cast (t e) (ih : PNS ms c σ asg lb e) : PNS ms c σ asg lb (.cast t e) := by
  intro hc hwf
  rw [CarveNSem] at hc
  simp only [Bool.and_eq_true, Bool.not_eq_true'] at hc
  obtain ⟨⟨h1, h2⟩, h3⟩ := hc
  simp only [WFES, Bool.and_eq_true] at hwf
  simp only [compileExpr_cast]
  refine (ih.val h1 h2 hwf.1).bind (fun a f hA hF r => ?_)
  have hs := sortOK_fixed hms hinv rfl hwf.1 hF
  simp only [castIf_eq', normTy_of_not (e := .cast t e) rfl]
  exact initACast_sem _ r hs (onA_ok h3 hA)

theorem pns_un (op e) (ih : PNS ms c σ asg lb e) : PNS ms c σ asg lb (.un op e) := by
  intro hc hwf
  rw [CarveNSem] at hc
  simp only [Bool.and_eq_true, Bool.not_eq_true'] at hc
  obtain ⟨⟨h1, h2⟩, h3⟩ := hc
  simp only [WFES] at hwf
  simp only [compileExpr_un]
  refine (ih.val h1 h2 hwf).bind (fun a f hA hF r => ?_)
  have hs := sortOK_fixed hms hinv rfl hwf hF
  simp only [normTy_of_not (e := .un op e) rfl]
  exact unOfCE_sem op r hs (onA_ok h3 hA)

omit hms hinv in
theorem pns_not (e) (ih : PNS ms c σ asg lb e) : PNS ms c σ asg lb (.not e) := by
  intro hc hwf
  rw [CarveNSem] at hc
  simp only [Bool.and_eq_true] at hc
  obtain ⟨h1, h3⟩ := hc
  simp only [WFES] at hwf
  simp only [compileExpr_not]
  refine (ih h1 hwf).bind (fun a f hA hF r => ?_)
  have hcond := condIL_sem e r (onA_ok h3 hA)
  simp only [ResRel, normTy, isNotLog, if_true, cfgsimp, Bool.false_eq_true, if_false]
  exact ⟨rfl, rfl, PEqAt.un _ hcond⟩

theorem pns_bin (op a b) (iha : PNS ms c σ asg lb a) (ihb : PNS ms c σ asg lb b) : PNS ms c σ asg lb (.bin op a b) := by
  intro hc hwf
  rw [CarveNSem] at hc
  simp only [Bool.and_eq_true, Bool.not_eq_true'] at hc
  obtain ⟨⟨⟨⟨ha, hb⟩, hna⟩, hnb⟩, hs⟩ := hc
  simp only [WFES, Bool.and_eq_true] at hwf
  simp only [compileExpr_bin]
  refine (iha.val ha hna hwf.1).bind (fun ca fa hA hF ra => ?_)
  refine (ihb.val hb hnb hwf.2).bind (fun cb fb hB hG rb => ?_)
  have hsa := sortOK_fixed hms hinv rfl hwf.1 hF
  have hsb := sortOK_fixed hms hinv rfl hwf.2 hG
  refine (binBody_sem asg op ra rb hsa hsb (onA_ok (onA_ok hs hA) hB)).mono (fun x y h => ?_)
  rw [normTy_of_not (e := .bin op a b) rfl]; exact h

omit hms hinv in
theorem pns_shift (op a b) (iha : PNS ms c σ asg lb a) (ihb : PNS ms c σ asg lb b) : PNS ms c σ asg lb (.shift op a b) := by
  intro hc hwf
  rw [CarveNSem] at hc
  simp only [Bool.and_eq_true, Bool.not_eq_true'] at hc
  obtain ⟨⟨⟨ha, hb⟩, hna⟩, hs⟩ := hc
  simp only [WFES, Bool.and_eq_true] at hwf
  simp only [compileExpr_shift]
  refine (iha.val ha hna hwf.1.1).bind (fun ca fa hA hF ra => ?_)
  refine (ihb hb hwf.1.2).bind (fun cb fb hB hG rb => ?_)
  have hw : 32 ≤ ca.ty.width := by simpa using onA_ok hs hA
  have hw' : 32 ≤ fa.ty.width := ra.ty ▸ hw
  have hbil := rb.il
  rw [normTy_il] at hbil
  simp only [ResRel, cfgsimp, if_true, Bool.false_eq_true, if_false, promotionCast_of_wide _ _ hw',
    normTy_of_not (e := .shift op a b) rfl]
  refine ⟨ra.ty, rfl, ?_⟩
  simp only [ra.ty]
  exact PEqAt.bin _ ra.il hbil

theorem pns_cmp (op a b) (iha : PNS ms c σ asg lb a) (ihb : PNS ms c σ asg lb b) : PNS ms c σ asg lb (.cmp op a b) := by
  intro hc hwf
  rw [CarveNSem] at hc
  simp only [Bool.and_eq_true, Bool.not_eq_true'] at hc
  obtain ⟨⟨⟨⟨ha, hb⟩, hna⟩, hnb⟩, hs⟩ := hc
  simp only [WFES, Bool.and_eq_true] at hwf
  simp only [compileExpr_cmp]
  refine (iha.val ha hna hwf.1).bind (fun ca fa hA hF ra => ?_)
  refine (ihb.val hb hnb hwf.2).bind (fun cb fb hB hG rb => ?_)
  have hsa := sortOK_fixed hms hinv rfl hwf.1 hF
  have hsb := sortOK_fixed hms hinv rfl hwf.2 hG
  simp only [ResRel, normTy_of_not (e := .cmp op a b) rfl]
  exact cmpBody_sem op ra rb hsa hsb (onA_ok (onA_ok hs hA) hB)

omit hms hinv in
theorem log_conds_sem (a b : CExpr) {ca cb fa fb : CE} (ra : CERel ms σ (normTy a ca) fa) (rb : CERel ms σ (normTy b cb) fb)
    (hsa : SortOK ms σ fa) (hsb : SortOK ms σ fb) (h : logSafeSem a b ca cb = true) :
    PEqAt ms σ [] (condIL Cfg.asCode (castOperands Cfg.asCode ca cb).1) (condIL Cfg.fixed (castOperands Cfg.fixed fa fb).1) ∧
    PEqAt ms σ [] (condIL Cfg.asCode (castOperands Cfg.asCode ca cb).2) (condIL Cfg.fixed (castOperands Cfg.fixed fa fb).2) := by
  unfold logSafeSem at h
  simp only [Bool.and_eq_true] at h
  obtain ⟨⟨hca, hcb⟩, h⟩ := h
  have e1 := condIL_sem a ra hca
  have e2 := condIL_sem b rb hcb
  by_cases hn : (isNotLog a || isNotLog b) = true
  · rw [if_pos hn] at h
    simp only [Bool.and_eq_true] at h
    have h2 : fa.ty.eqv fb.ty = true := by rw [← ra.ty, ← rb.ty]; exact h.2
    rw [castOperands_of_eqv _ _ _ h.1, castOperands_of_eqv _ _ _ h2]
    exact ⟨e1, e2⟩
  · rw [if_neg hn] at h
    simp only [Bool.or_eq_true, not_or, Bool.not_eq_true] at hn
    rw [normTy_of_not hn.1] at ra
    rw [normTy_of_not hn.2] at rb
    unfold castOpsSafeSem at h
    by_cases he : ca.ty.eqv cb.ty = true
    · have he' : fa.ty.eqv fb.ty = true := by rw [← ra.ty, ← rb.ty]; exact he
      rw [castOperands_of_eqv _ _ _ he, castOperands_of_eqv _ _ _ he']
      exact ⟨e1, e2⟩
    · simp only [he, Bool.false_or, Bool.and_eq_true, beq_iff_eq] at h
      obtain ⟨⟨⟨g1, g2⟩, s1⟩, s2⟩ := h
      rw [castOperands_eq, castOperands_eq, ← ra.ty, ← rb.ty]
      have a1 : adjGroup Cfg.asCode (VT.c11Cast ca.ty cb.ty).1 = { (VT.c11Cast ca.ty cb.ty).1 with group := 1 } := by
        simp only [adjGroup, cfgsimp, if_true]
        generalize (VT.c11Cast ca.ty cb.ty).1 = t at *
        cases t; simp only at g1; subst g1; rfl
      have a2 : adjGroup Cfg.asCode (VT.c11Cast ca.ty cb.ty).2 = { (VT.c11Cast ca.ty cb.ty).2 with group := 1 } := by
        simp only [adjGroup, cfgsimp, if_true]
        generalize (VT.c11Cast ca.ty cb.ty).2 = t at *
        cases t; simp only at g2; subst g2; rfl
      rw [a1, a2, adjGroup_fixed, adjGroup_fixed]
      have s1' : CastSafeSem { (VT.c11Cast ca.ty cb.ty).1 with group := 1 } ca = true := by
        rw [← a1]; simp only [adjGroup, cfgsimp, if_true]; exact s1
      have s2' : CastSafeSem { (VT.c11Cast ca.ty cb.ty).2 with group := 1 } cb = true := by
        rw [← a2]; simp only [adjGroup, cfgsimp, if_true]; exact s2
      exact ⟨condIL_initACast_sem _ ra hsa s1' e1,
        condIL_initACast_sem _ rb hsb s2' e2⟩

theorem pns_log (op a b) (iha : PNS ms c σ asg lb a) (ihb : PNS ms c σ asg lb b) : PNS ms c σ asg lb (.log op a b) := by
  intro hc hwf
  rw [CarveNSem] at hc
  simp only [Bool.and_eq_true] at hc
  obtain ⟨⟨ha, hb⟩, hs⟩ := hc
  simp only [WFES, Bool.and_eq_true] at hwf
  simp only [compileExpr_log]
  refine (iha ha hwf.1).bind (fun ca fa hA hF ra => ?_)
  refine (ihb hb hwf.2).bind (fun cb fb hB hG rb => ?_)
  have hsa := sortOK_fixed hms hinv rfl hwf.1 hF
  have hsb := sortOK_fixed hms hinv rfl hwf.2 hG
  have := log_conds_sem a b ra rb hsa hsb (onA_ok (onA_ok hs hA) hB)
  simp only [ResRel, normTy, isNotLog, if_true, cfgsimp, Bool.false_eq_true, if_false]
  exact ⟨rfl, rfl, PEqAt.bin _ this.1 this.2⟩

omit hms hinv in
theorem ternOfCE_sem (x : CExpr) {cc ca cb fc fa fb : CE} (rc : CERel ms σ (normTy x cc) fc) (ra : CERel ms σ ca fa)
    (rb : CERel ms σ cb fb) (hsa : SortOK ms σ fa) (hsb : SortOK ms σ fb) (h : ternSafeSem x cc ca cb = true) :
    CERel ms σ (ternOfCE Cfg.asCode cc ca cb) (ternOfCE Cfg.fixed fc fa fb) := by
  unfold ternSafeSem at h
  unfold ternOfCE
  have hk : cc.kind = fc.kind := by rw [← rc.kind, normTy_kind]
  simp only [cfgsimp, if_true, Bool.false_eq_true, if_false, ← hk]
  -- constant condition: the repaired lowering returns its live arm as it is, too (`liveKeepsTy`, `liveArm_fixed`)
  have hconst : ∀ first : Bool, liveKeepsTy first ca cb = true →
      CERel ms σ (if first = true then ca else cb)
        (if first = true then (castOperands Cfg.fixed (promotionCast Cfg.fixed fa) (promotionCast Cfg.fixed fb)).1
         else (castOperands Cfg.fixed (promotionCast Cfg.fixed fa) (promotionCast Cfg.fixed fb)).2) := by
    intro first h
    have h' : liveKeepsTy first fa fb = true := by
      unfold liveKeepsTy at h ⊢; rw [← ra.ty, ← rb.ty]; exact h
    rw [liveArm_fixed first fa fb h']
    cases first with
    | true => exact ra
    | false => exact rb
  have hwide : condSafe x cc = true ∧ wideSafeSem ca cb = true →
      CERel ms σ { il := .ite (condIL Cfg.asCode cc) (castOperands Cfg.asCode ca cb).1.il (castOperands Cfg.asCode ca cb).2.il,
                   ty := (castOperands Cfg.asCode ca cb).1.ty, kind := .plain }
        { il := .ite (condIL Cfg.fixed fc)
            (castOperands Cfg.fixed (promotionCast Cfg.fixed fa) (promotionCast Cfg.fixed fb)).1.il
            (castOperands Cfg.fixed (promotionCast Cfg.fixed fa) (promotionCast Cfg.fixed fb)).2.il,
          ty := (castOperands Cfg.fixed (promotionCast Cfg.fixed fa) (promotionCast Cfg.fixed fb)).1.ty, kind := .plain } := by
    intro h
    have hw := h.2
    unfold wideSafeSem at hw
    simp only [Bool.and_eq_true, decide_eq_true_eq] at hw
    rw [promotionCast_of_wide _ _ (ra.ty ▸ hw.1.1), promotionCast_of_wide _ _ (rb.ty ▸ hw.1.2)]
    have r := castOperands_sem ra rb hsa hsb hw.2
    exact ⟨r.1.ty, rfl, PEqAt.ite (condIL_sem x rc h.1) r.1.il r.2.il⟩
  cases hkc : cc.kind with
  | lit v =>
    simp only [hkc] at h
    exact hconst _ h
  | boolLit r =>
    simp only [hkc] at h
    exact hconst _ h
  | plain =>
    simp only [hkc, Bool.and_eq_true] at h
    exact hwide h
  | boolObj =>
    simp only [hkc, Bool.and_eq_true] at h
    exact hwide h

theorem pns_tern (x a b) (ihc : PNS ms c σ asg lb x) (iha : PNS ms c σ asg lb a) (ihb : PNS ms c σ asg lb b) :
    PNS ms c σ asg lb (.tern x a b) := by
  intro hc hwf
  rw [CarveNSem] at hc
  simp only [Bool.and_eq_true, Bool.not_eq_true'] at hc
  obtain ⟨⟨⟨⟨⟨hcc, ha⟩, hb⟩, hna⟩, hnb⟩, hs⟩ := hc
  simp only [WFES, Bool.and_eq_true] at hwf
  simp only [compileExpr_tern]
  refine (ihc hcc hwf.1.1).bind (fun cc fc hC hH rc => ?_)
  refine (iha.val ha hna hwf.1.2).bind (fun ca fa hA hF ra => ?_)
  refine (ihb.val hb hnb hwf.2).bind (fun cb fb hB hG rb => ?_)
  have hsa := sortOK_fixed hms hinv rfl hwf.1.2 hF
  have hsb := sortOK_fixed hms hinv rfl hwf.2 hG
  simp only [ResRel, normTy_of_not (e := .tern x a b) rfl]
  exact ternOfCE_sem x rc ra rb hsa hsb (onA_ok (onA_ok (onA_ok hs hC) hA) hB)

omit hms hinv in
theorem pnss_nil : PNSs ms c σ asg lb [] := by
  intro params _ _
  simp only [compileArgs_nil]
  exact PsEqAt.refl _

theorem pnss_cons (a as) (iha : PNS ms c σ asg lb a) (ihas : PNSs ms c σ asg lb as) : PNSs ms c σ asg lb (a :: as) := by
  intro params hc hwf
  cases params with
  | nil => simp only [compileArgs_cons_nil]; trivial
  | cons p ps =>
    rw [CarveNsSem] at hc
    simp only [Bool.and_eq_true, Bool.not_eq_true', lowSafe, Bool.or_false] at hc
    obtain ⟨⟨⟨ha, hna⟩, hs⟩, has⟩ := hc
    simp only [WFESs, Bool.and_eq_true] at hwf
    simp only [compileArgs_cons]
    refine (iha.val ha hna hwf.1.1).bind (fun ca fa hA hF ra => ?_)
    have hsa := sortOK_fixed hms hinv rfl hwf.1.1 hF
    simp only [convArg_eq]
    have r := initACast_sem p.toVT ra hsa (onA_ok hs hA)
    refine (ihas ps has hwf.2).bind (fun xs ys _ _ rs => ?_)
    exact PsEqAt.cons r.il rs

theorem pnss_of_all : (args : List CExpr) → PNSall ms c σ asg lb args → PNSs ms c σ asg lb args
  | [], _ => pnss_nil
  | a :: as, h => pnss_cons hms hinv a as (h a (List.mem_cons_self ..))
      (pnss_of_all as (fun x hx => h x (List.mem_cons_of_mem _ hx)))

/-- a macro call: all arguments converted alike (`lb = false`, or no low-bits call), or a low-bits macro whose first
    argument may differ above its own width (assumption `MsLow ms`) -/
theorem pns_macro (hlb : lb = true → MsLow ms) (name args ret params) (ih : PNSall ms c σ asg lb args) :
    PNS ms c σ asg lb (.macro name args ret params) := by
  intro hc hwf
  rw [CarveNSem] at hc
  simp only [WFES, Bool.and_eq_true] at hwf
  simp only [compileExpr_macro]
  -- the plain case: every argument is converted alike
  have plain : CarveNsSem asg args params lb = true →
      ResRel (fun a f => CERel ms σ (normTy (.macro name args ret params) a) f)
        (compileArgs ⟨asg, Cfg.asCode⟩ args params >>= fun cargs =>
          Except.ok { il := .macro (macroRzName name) cargs, ty := macroRetVT name, kind := .plain })
        (compileArgs ⟨asg, Cfg.fixed⟩ args params >>= fun cargs =>
          Except.ok { il := .macro (macroRzName name) cargs, ty := macroRetVT name, kind := .plain }) := by
    intro hc'
    refine (pnss_of_all hms hinv args ih params hc' hwf.1).bind (fun xs ys _ _ rs => ?_)
    simp only [ResRel, normTy_of_not (e := .macro name args ret params) rfl]
    exact ⟨rfl, rfl, PEqAt.macro _ rs⟩
  cases hlbv : lb with
  | false => rw [hlbv] at hc; simp only [Bool.false_eq_true, if_false] at hc; rw [hlbv] at plain; exact plain hc
  | true =>
    have hlow := hlb hlbv
    rw [hlbv] at hc
    simp only [if_true] at hc
    cases hlo : lowBitsOf asg name args params with
    | none => rw [hlo] at hc; rw [hlbv] at plain; exact plain hc
    | some k =>
      rw [hlo] at hc
      -- a low-bits macro call `name(a, s, l)` with constant `s`, `l`
      unfold lowBitsOf at hlo
      split at hlo
      · next a s l p ps pl =>
        split at hlo
        · next hcond =>
          simp only [Bool.and_eq_true, List.contains_eq_mem, decide_eq_true_eq, beq_iff_eq] at hcond
          split at hlo
          · next st ln hst hln =>
            simp only [Option.some.injEq] at hlo
            subst hlo
            rw [CarveNsSem] at hc
            simp only [Bool.and_eq_true, Bool.not_eq_true'] at hc
            obtain ⟨⟨⟨ha, hna⟩, hs⟩, has⟩ := hc
            have hwf1 := hwf.1
            rw [WFESs] at hwf1
            simp only [Bool.and_eq_true] at hwf1
            have iha : PNS ms c σ asg lb a := ih a (List.mem_cons_self ..)
            have ihas : PNSs ms c σ asg lb [s, l] :=
              pnss_of_all hms hinv [s, l] (fun x hx => ih x (List.mem_cons_of_mem _ hx))
            rw [hlbv] at iha ihas
            have hargs : ResRel (fun as fs => PEqAt ms σ [] (.macro (macroRzName name) as) (.macro (macroRzName name) fs))
                (compileArgs ⟨asg, Cfg.asCode⟩ [a, s, l] [p, ps, pl]) (compileArgs ⟨asg, Cfg.fixed⟩ [a, s, l] [p, ps, pl]) := by
              simp only [compileArgs_cons (a := a)]
              refine (iha.val ha hna hwf1.1.1).bind (fun ca fa hA hF ra => ?_)
              have hsa := sortOK_fixed hms hinv rfl hwf1.1.1 hF
              simp only [convArg_eq]
              refine (ihas [ps, pl] has hwf1.2).bind (fun xs ys _ hT rs => ?_)
              exact macro_args_low hlow hcond.1 hcond.2 hst hln ra hsa (onA_ok hs hA) hT rs
            refine hargs.bind (fun as fs _ _ h => ?_)
            simp only [ResRel, normTy_of_not (e := .macro name [a, s, l] ret [p, ps, pl]) rfl]
            exact ⟨rfl, rfl, h⟩
          · cases hlo
        · cases hlo
      · cases hlo

omit hms hinv in
theorem pns_load (sg w t) : PNS ms c σ asg lb (.load sg w t) := by
  intro hc _
  rw [CarveNSem] at hc
  simp only [compileExpr_load, cfgsimp, if_true, Bool.false_eq_true, if_false, ResRel,
    normTy_of_not (e := .load sg w t) rfl]
  refine ⟨rfl, rfl, ?_⟩
  simp only
  cases sg
  · simp only [Bool.and_false, Bool.false_eq_true, if_false]; exact PEqAt.refl _
  · cases hts : t.signed
    · simp only [hts, Bool.not_true, Bool.false_or, decide_eq_true_eq] at hc
      simp only [Bool.false_and, Bool.false_eq_true, if_false, if_true]
      refine cast_bfalse_msb (PEqAt.refl _) ?_
      intro n y hy
      rw [evalPure_loadw] at hy
      obtain ⟨va, _, hy⟩ := C05.bind_ok hy
      unfold loadVal at hy
      split at hy
      · simp only [Except.ok.injEq, Val.bv.injEq] at hy
        omega
      · cases hy
    · simp only [Bool.and_self, if_true]; exact PEqAt.refl _

theorem pns_all (hlb : lb = true → MsLow ms) (e : CExpr) : PNS ms c σ asg lb e := by
  refine CExpr.rec (motive_1 := PNS ms c σ asg lb) (motive_2 := PNSall ms c σ asg lb)
    ?reg ?imm ?lit ?var ?cast ?un ?not ?bin ?shift ?cmp ?log ?tern ?macroc ?load ?post ?call ?stmtexpr ?seqexpr ?callx ?xmacro ?nil ?cons e
  case reg => exact fun n k t => pns_of_pn (pn_reg asg n k t) (fun h => by rw [CarveNSem] at h; rw [CarveN]; exact h)
  case imm => exact fun l s => pns_of_pn (pn_imm asg l s) (fun _ => by rw [CarveN])
  case lit => exact fun v h s => pns_of_pn (pn_lit asg v h s) (fun h => by rw [CarveNSem] at h; rw [CarveN]; exact h)
  case var => exact fun n t => pns_of_pn (pn_var asg n t) (fun _ => by rw [CarveN])
  case cast => exact fun t e ih => pns_cast hms hinv t e ih
  case un => exact fun op e ih => pns_un hms hinv op e ih
  case not => exact fun e ih => pns_not e ih
  case bin => exact fun op a b iha ihb => pns_bin hms hinv op a b iha ihb
  case shift => exact fun op a b iha ihb => pns_shift op a b iha ihb
  case cmp => exact fun op a b iha ihb => pns_cmp hms hinv op a b iha ihb
  case log => exact fun op a b iha ihb => pns_log hms hinv op a b iha ihb
  case tern => exact fun x a b ihc iha ihb => pns_tern hms hinv x a b ihc iha ihb
  case macroc => exact fun name args ret params ih => pns_macro hms hinv hlb name args ret params ih
  case load => exact fun s w t => pns_load s w t
  case post => intro v t op hc; rw [CarveNSem] at hc; cases hc
  case call => intro n a r p _ hc; rw [CarveNSem] at hc; cases hc
  case stmtexpr => intro t v e _ hc; rw [CarveNSem] at hc; cases hc
  case seqexpr => intro n x a p v _ _ hc; rw [CarveNSem] at hc; cases hc
  case callx => intro n x a r p _ hc; rw [CarveNSem] at hc; cases hc
  case xmacro => intro n x r hc; rw [CarveNSem] at hc; cases hc
  case nil => exact fun a ha => by cases ha
  case cons =>
    intro a as iha ihas x hx
    rcases List.mem_cons.1 hx with rfl | hx
    · exact iha
    · exact ihas x hx

end

/-! ## the theorems

  Each theorem is stated for the carve-out with the low-bits flag `lb` and the hypothesis `lb = true → MsLow ms`; the
  form without flag (`lb = false`: no assumption beyond `MsOK ms`) follows by `(fun h => nomatch h)`. -/

/-- **T2-semantic, node-wise**: on a semantically carved, statically well-formed expression the two lowerings fail
    together or return results of the same kind, the same type up to the type of a `!`/`&&`/`||` at the top
    (`normTy`), and IL that evaluates alike in every typed state. -/
theorem expr_sem_upto_boolTy_low {ms : MacroSem} (hms : MsOK ms) {lb : Bool} (hlb : lb = true → MsLow ms) {c : Ctx} {σ : MState}
    (hinv : C05.SInv c σ) (asg : List String) (e : CExpr) (hc : CarveNSem asg e lb = true) (hwf : WFES c e = true) :
    ResRel (fun a f => CERel ms σ (normTy e a) f) (compileExpr ⟨asg, Cfg.asCode⟩ e) (compileExpr ⟨asg, Cfg.fixed⟩ e) :=
  pns_all hms hinv hlb e hc hwf

theorem expr_sem_upto_boolTy {ms : MacroSem} (hms : MsOK ms) {c : Ctx} {σ : MState} (hinv : C05.SInv c σ)
    (asg : List String) (e : CExpr) (hc : CarveNSem asg e = true) (hwf : WFES c e = true) :
    ResRel (fun a f => CERel ms σ (normTy e a) f) (compileExpr ⟨asg, Cfg.asCode⟩ e) (compileExpr ⟨asg, Cfg.fixed⟩ e) :=
  expr_sem_upto_boolTy_low hms (lb := false) (fun h => nomatch h) hinv asg e hc hwf

/-- **T2-semantic for expressions** used as values: equal `ty`, equal `kind`, equivalent `il` -/
theorem expr_sem_low {ms : MacroSem} (hms : MsOK ms) {lb : Bool} (hlb : lb = true → MsLow ms) {c : Ctx} {σ : MState}
    (hinv : C05.SInv c σ) (env : CEnv) (e : CExpr) (hc : CarveESem env.assigned e lb = true) (hwf : WFES c e = true) :
    ResRel (CERel ms σ) (compileExpr (codeEnv env) e) (compileExpr (fixedEnv env) e) := by
  unfold CarveESem at hc
  simp only [Bool.and_eq_true, Bool.not_eq_true'] at hc
  exact (pns_all hms hinv hlb e).val hc.1 hc.2 hwf

theorem expr_sem {ms : MacroSem} (hms : MsOK ms) {c : Ctx} {σ : MState} (hinv : C05.SInv c σ)
    (env : CEnv) (e : CExpr) (hc : CarveESem env.assigned e = true) (hwf : WFES c e = true) :
    ResRel (CERel ms σ) (compileExpr (codeEnv env) e) (compileExpr (fixedEnv env) e) :=
  expr_sem_low hms (lb := false) (fun h => nomatch h) hinv env e hc hwf

/-- **T2-semantic for expressions, uniformly in the state**: if the lowering as coded succeeds on a semantically carved,
    statically well-formed expression, so does the repaired lowering, with the same type and kind, and the two ILs
    evaluate alike in EVERY typed state under EVERY admissible macro interpretation. -/
theorem expr_sem_forall {c : Ctx} (hcok : c.ok = true) (env : CEnv) (e : CExpr) (hc : CarveESem env.assigned e = true)
    (hwf : WFES c e = true) {ca : CE} (hA : compileExpr (codeEnv env) e = .ok ca) :
    ∃ cf, compileExpr (fixedEnv env) e = .ok cf ∧ ca.ty = cf.ty ∧ ca.kind = cf.kind ∧
      ∀ ms σ, MsOK ms → C05.SInv c σ → PEqAt ms σ [] ca.il cf.il := by
  obtain ⟨cf, hF, r⟩ := (expr_sem T3.msOK_trivial (typedState_SInv hcok) env e hc hwf).ok_left hA
  refine ⟨cf, hF, r.ty, r.kind, ?_⟩
  intro ms σ hms hinv
  have := expr_sem hms hinv env e hc hwf
  rw [hA, hF] at this
  exact this.il

/-- … and the two lowerings fail together -/
theorem expr_sem_error_iff {c : Ctx} (hcok : c.ok = true) (env : CEnv) (e : CExpr) (hc : CarveESem env.assigned e = true)
    (hwf : WFES c e = true) :
    (∃ m, compileExpr (codeEnv env) e = .error m) ↔ (∃ m, compileExpr (fixedEnv env) e = .error m) := by
  have h := expr_sem T3.msOK_trivial (typedState_SInv hcok) env e hc hwf
  cases hA : compileExpr (codeEnv env) e <;> cases hF : compileExpr (fixedEnv env) e <;> rw [hA, hF] at h <;>
    simp [ResRel] at h ⊢

end Sem
end Rzil
