import RzilVerif.Lemmas.HEqvExpr
/-!
  CompileH ≃ Compile, part 4: the temporaries named by the effects of hybrid-free statements (pure model).
-/
namespace Rzil
namespace HEqv
set_option linter.unusedSimpArgs false

theorem nt_destWrite {lhs : CExpr} {v : ILPure} {eff : ILEffect} (hf : HybFree lhs = true)
    (hv : tmpsOfPure v = []) (h : destWrite lhs v = .ok eff) : tmpsOfEffect eff = [] := by
  unfold destWrite at h
  split at h
  · cases h
    simp only [HybFree, Bool.not_eq_eq_eq_not, Bool.not_true] at hf
    simp only [tmpsOfEffect, hf, hv, Bool.false_eq_true, ↓reduceIte, List.append_nil]
  · cases h; simp only [tmpsOfEffect, hv]
  · cases h
    simp only [HybFree, Bool.not_eq_eq_eq_not, Bool.not_true] at hf
    simp only [tmpsOfEffect, hf, hv, Bool.false_eq_true, ↓reduceIte, List.append_nil]
  · cases h

theorem nt_compileAssign {env : CEnv} {lhs : CExpr} {op : String} {ce : CE} {eff : ILEffect} {src : CE}
    (hf : HybFree lhs = true) (hce : tmpsOfPure ce.il = [])
    (h : compileAssign env lhs op ce = .ok (eff, src)) : tmpsOfEffect eff = [] ∧ tmpsOfPure src.il = [] := by
  unfold compileAssign at h
  obtain ⟨cd, hcd, h⟩ := bind_ok h
  have hd := nt_compileExpr env lhs hf hcd
  obtain ⟨src0, hsrc, h⟩ := bind_ok h
  obtain ⟨eff', heff, h⟩ := bind_ok h
  cases h
  have hce' : tmpsOfPure (if (op == "<<=" || op == ">>=") = true then ce
      else (if cd.ty.eqv ce.ty = true then ce else initACast env.cfg cd.ty ce)).il = [] :=
    nt_ite hce (nt_ite hce (nt_initACast _ _ _ hce))
  have hp1 := nt_promotionCast env.cfg cd hd
  have hp2 := nt_promotionCast env.cfg _ hce'
  have hs0 : tmpsOfPure src0.il = [] := by
    split at hsrc <;> first
      | (cases hsrc; done)
      | (cases hsrc; exact hce')
      | (cases hsrc; simp only [tmpsOfPure, hp1, hp2, hd, hce', List.append_nil])
  have hs := nt_ite (c := (env.cfg.compoundNoConvertBack || op == "=") = true) hs0
    (nt_ite (c := src0.ty.eqv cd.ty = true) hs0 (nt_initACast env.cfg cd.ty src0 hs0))
  exact ⟨nt_destWrite hf hs heff, hs⟩



/-! ### temporaries named by statement effects -/

theorem tmpsOfEffects_cons (e : ILEffect) (es : List ILEffect) :
    tmpsOfEffects (e :: es) = tmpsOfEffect e ++ tmpsOfEffects es := by simp only [tmpsOfEffects]

theorem tmpsOfEffects_nil : tmpsOfEffects [] = [] := by simp only [tmpsOfEffects]

theorem tmpsOfEffects_append (xs ys : List ILEffect) :
    tmpsOfEffects (xs ++ ys) = tmpsOfEffects xs ++ tmpsOfEffects ys := by
  induction xs with
  | nil => simp only [List.nil_append, tmpsOfEffects_nil]
  | cons x xs ih => simp only [List.cons_append, tmpsOfEffects_cons, ih, List.append_assoc]

theorem mem_tmpsOfEffects {n : String} {es : List ILEffect} :
    n ∈ tmpsOfEffects es ↔ ∃ e ∈ es, n ∈ tmpsOfEffect e := by
  induction es with
  | nil => simp only [tmpsOfEffects_nil, List.not_mem_nil, false_and, exists_false]
  | cons x xs ih =>
    simp only [tmpsOfEffects_cons, List.mem_append, ih, List.mem_cons, exists_eq_or_imp]

theorem mem_tmps_mkSeq {n : String} {es : List ILEffect} (h : n ∈ tmpsOfEffect (mkSeq es)) :
    n ∈ tmpsOfEffects es := by
  unfold mkSeq at h
  have hsub : ∀ (p : ILEffect → Bool) m, m ∈ tmpsOfEffects (es.filter p) → m ∈ tmpsOfEffects es := by
    intro p m hm
    rw [mem_tmpsOfEffects] at hm ⊢
    obtain ⟨e, he, hme⟩ := hm
    exact ⟨e, (List.mem_filter.1 he).1, hme⟩
  simp only at h
  split at h
  · simp only [tmpsOfEffect, List.not_mem_nil] at h
  · rename_i e heq
    apply hsub _; rw [heq, tmpsOfEffects_cons, tmpsOfEffects_nil, List.append_nil]; exact h
  · apply hsub _
    simpa only [tmpsOfEffect] using h

/-- every temporary the effect names is one of `h_tmp{lo}` … `h_tmp{hi-1}` -/
def TmpsIn (l : List String) (lo hi : Nat) : Prop := ∀ n ∈ l, ∃ i, lo ≤ i ∧ i < hi ∧ n = hname i

theorem TmpsIn_nil (lo hi : Nat) : TmpsIn [] lo hi := fun _ h => by cases h

theorem TmpsIn_of_eq_nil {l : List String} (h : l = []) (lo hi : Nat) : TmpsIn l lo hi := h ▸ TmpsIn_nil lo hi

theorem TmpsIn.mono {l : List String} {lo hi lo' hi' : Nat} (h : TmpsIn l lo hi) (h1 : lo' ≤ lo) (h2 : hi ≤ hi') :
    TmpsIn l lo' hi' := by
  intro n hn; obtain ⟨i, a, b, c⟩ := h n hn; exact ⟨i, by omega, by omega, c⟩

theorem TmpsIn.append {l1 l2 : List String} {lo hi : Nat} (h1 : TmpsIn l1 lo hi) (h2 : TmpsIn l2 lo hi) :
    TmpsIn (l1 ++ l2) lo hi := by
  intro n hn; rcases List.mem_append.1 hn with h | h
  · exact h1 n h
  · exact h2 n h

theorem TmpsIn_mkSeq {es : List ILEffect} {lo hi : Nat} (h : TmpsIn (tmpsOfEffects es) lo hi) :
    TmpsIn (tmpsOfEffect (mkSeq es)) lo hi := fun n hn => h n (mem_tmps_mkSeq hn)

theorem addImms_hyb (st : TSt) (xs) : (addImms st xs).hyb = st.hyb := rfl



theorem nt_storeData (cfg : Cfg) (w : Nat) (ce : CE) (h : tmpsOfPure ce.il = []) :
    tmpsOfPure (if ce.ty.hasFlag VT.gBOOL then
        (if VT.eqv { signed := false, width := w, group := 1 } ce.ty then boolToInt cfg { signed := false, width := w, group := 1 } ce
         else initACast cfg { signed := false, width := w, group := 1 } ce)
      else ({ il := .cast w (if cfg.castFillNeedsBothSigned then .bfalse else (if ce.ty.signed then .un .msb ce.il else .bfalse)) ce.il,
              ty := { signed := false, width := w, group := 1 }, kind := .plain } : CE)).il = [] := by
  refine nt_ite (nt_ite (nt_boolToInt _ _ _ h) (nt_initACast _ _ _ h)) ?_
  simp only
  split
  · simp only [tmpsOfPure, h, List.append_nil]
  · split <;> simp only [tmpsOfPure, h, List.append_nil]

mutual
/-- the temporaries a hybrid-free statement's effect names are the ones numbered while it was compiled -/
theorem tm_compileStmt (env : CEnv) :
    (s : CStmt) → (st : TSt) → {eff : ILEffect} → {st' : TSt} → HybFreeS s = true →
      compileStmt env st s = .ok (eff, st') → st.hyb ≤ st'.hyb ∧ TmpsIn (tmpsOfEffect eff) st.hyb st'.hyb
  | .decl _ _ none, st, eff, st', _, h => by
      simp only [compileStmt] at h; cases h
      exact ⟨Nat.le_refl _, TmpsIn_of_eq_nil (by simp only [tmpsOfEffect]) _ _⟩
  | .decl t n (some e), st, eff, st', hf, h => by
      simp only [HybFreeS, Bool.and_eq_true, Bool.not_eq_eq_eq_not, Bool.not_true] at hf
      simp only [compileStmt] at h
      obtain ⟨ce, hce, h⟩ := bind_ok h
      cases h
      refine ⟨Nat.le_refl _, TmpsIn_of_eq_nil ?_ _ _⟩
      simp only [tmpsOfEffect, hf.1, Bool.false_eq_true, ↓reduceIte, List.nil_append]
      exact nt_conv _ _ _ (nt_compileExpr env e hf.2 hce)
  | .assign lhs op e, st, eff, st', hf, h => by
      simp only [HybFreeS, Bool.and_eq_true] at hf
      simp only [compileStmt] at h
      obtain ⟨ce, hce, h⟩ := bind_ok h
      obtain ⟨r, hr, h⟩ := bind_ok h
      obtain ⟨eff1, src⟩ := r
      cases h
      exact ⟨Nat.le_refl _, TmpsIn_of_eq_nil (nt_compileAssign hf.1 (nt_compileExpr env e hf.2 hce) hr).1 _ _⟩
  | .chain l1 l2 op2 e, st, eff, st', hf, h => by
      simp only [HybFreeS, Bool.and_eq_true] at hf
      simp only [compileStmt] at h
      obtain ⟨ce, hce, h⟩ := bind_ok h
      obtain ⟨r, hr, h⟩ := bind_ok h
      obtain ⟨effI, srcI⟩ := r
      obtain ⟨r2, hr2, h⟩ := bind_ok h
      obtain ⟨effO, srcO⟩ := r2
      cases h
      have hI := nt_compileAssign hf.1.2 (nt_compileExpr env e hf.2 hce) hr
      have hO := nt_compileAssign hf.1.1 hI.2 hr2
      refine ⟨Nat.le_refl _, TmpsIn_mkSeq (TmpsIn_of_eq_nil ?_ _ _)⟩
      simp only [tmpsOfEffects_cons, tmpsOfEffects_nil, hI.1, hO.1, List.append_nil]
  | .store w e, st, eff, st', hf, h => by
      simp only [HybFreeS] at hf
      simp only [compileStmt] at h
      obtain ⟨ce, hce, h⟩ := bind_ok h
      cases h
      refine ⟨Nat.le_refl _, TmpsIn_of_eq_nil ?_ _ _⟩
      simp only [tmpsOfEffect, tmpsOfPure, isHTmp_EA, Bool.false_eq_true, ↓reduceIte, List.nil_append]
      exact nt_storeData env.cfg w ce (nt_compileExpr env e hf hce)
  | .ite c t none, st, eff, st', hf, h => by
      simp only [HybFreeS, Bool.and_eq_true] at hf
      simp only [compileStmt] at h
      obtain ⟨cc, hcc, h⟩ := bind_ok h
      obtain ⟨r, hr, h⟩ := bind_ok h
      obtain ⟨ts, st1⟩ := r
      cases h
      have ht := tm_compileStmts env t _ hf.1.2 hr
      have hc := nt_condIL env.cfg cc (nt_compileExpr env c hf.1.1 hcc)
      refine ⟨ht.1, ?_⟩
      simp only [tmpsOfEffect, hc, List.nil_append, List.append_nil]
      exact TmpsIn_mkSeq ht.2
  | .ite c t (some el), st, eff, st', hf, h => by
      simp only [HybFreeS, Bool.and_eq_true] at hf
      simp only [compileStmt] at h
      obtain ⟨cc, hcc, h⟩ := bind_ok h
      obtain ⟨r, hr, h⟩ := bind_ok h
      obtain ⟨ts, st1⟩ := r
      obtain ⟨r2, hr2, h⟩ := bind_ok h
      obtain ⟨es, st2⟩ := r2
      cases h
      have ht := tm_compileStmts env t _ hf.1.2 hr
      have he := tm_compileStmts env el _ hf.2 hr2
      have hc := nt_condIL env.cfg cc (nt_compileExpr env c hf.1.1 hcc)
      have h01 : st.hyb ≤ st1.hyb := ht.1
      refine ⟨Nat.le_trans h01 he.1, ?_⟩
      simp only [tmpsOfEffect, hc, List.nil_append]
      exact (TmpsIn_mkSeq (ht.2.mono (Nat.le_refl _) he.1)).append (TmpsIn_mkSeq (he.2.mono h01 (Nat.le_refl _)))
  | .for_ v c step b, st, eff, st', hf, h => by
      simp only [HybFreeS, Bool.and_eq_true, Bool.not_eq_eq_eq_not, Bool.not_true] at hf
      obtain ⟨⟨⟨hv, hfc⟩, hfb⟩, _⟩ := hf
      simp only [compileStmt] at h
      obtain ⟨cc, hcc, h⟩ := bind_ok h
      have hc := nt_condIL env.cfg cc (nt_compileExpr env c hfc hcc)
      split at h
      · obtain ⟨r, hr, h⟩ := bind_ok h
        obtain ⟨bs, st1⟩ := r
        cases h
        have hb := tm_compileStmts env b _ hfb hr
        have h1 : st.hyb + 1 ≤ st1.hyb := hb.1
        refine ⟨Nat.le_trans (Nat.le_succ _) h1, ?_⟩
        simp only [tmpsOfEffect, tmpsOfEffects_cons, tmpsOfEffects_nil, tmpsOfPure, hv, hc, Bool.false_eq_true,
          ↓reduceIte, List.nil_append, List.append_nil]
        refine ((TmpsIn_mkSeq hb.2).mono (Nat.le_succ st.hyb) (Nat.le_refl _)).append ?_
        intro n hn
        have : n = hname st.hyb := by
          split at hn
          · exact List.mem_singleton.1 hn
          · cases hn
        exact ⟨st.hyb, Nat.le_refl _, h1, this⟩
      · obtain ⟨r0, hr0, h⟩ := bind_ok h
        obtain ⟨stepEff, srcS⟩ := r0
        obtain ⟨r, hr, h⟩ := bind_ok h
        obtain ⟨bs, st1⟩ := r
        cases h
        have hb := tm_compileStmts env b _ hfb hr
        have hstep := (nt_compileAssign (lhs := .var v utT) (by simp only [HybFree, hv, Bool.not_false])
          (nt_numberIL _ _) hr0).1
        refine ⟨hb.1, ?_⟩
        simp only [tmpsOfEffect, tmpsOfEffects_cons, tmpsOfEffects_nil, tmpsOfPure, hv, hc, Bool.false_eq_true,
          ↓reduceIte, List.nil_append, List.append_nil]
        refine TmpsIn_mkSeq ?_
        rw [tmpsOfEffects_append, tmpsOfEffects_cons, tmpsOfEffects_nil, hstep]
        simp only [List.append_nil]; exact hb.2
  | .jump e, st, eff, st', hf, h => by
      simp only [HybFreeS] at hf
      simp only [compileStmt] at h
      obtain ⟨ce, hce, h⟩ := bind_ok h
      cases h
      have hn := nt_compileExpr env e hf hce
      refine ⟨Nat.le_refl _, TmpsIn_of_eq_nil ?_ _ _⟩
      have : tmpsOfPure (if (ce.ty.width != 32) = true then
          initACast env.cfg { signed := false, width := 32, group := 1 } ce else ce).il = [] :=
        nt_ite (nt_initACast _ _ _ hn) hn
      simp only [tmpsOfEffect, tmpsOfEffects_cons, tmpsOfEffects_nil, tmpsOfPure, isHTmp_jump_flag,
        isHTmp_jump_target, this, Bool.false_eq_true, ↓reduceIte, List.nil_append, List.append_nil]
  | .skip w, st, eff, st', _, h => by
      simp only [compileStmt] at h
      split at h
      · cases h; exact ⟨Nat.le_refl _, TmpsIn_of_eq_nil (by simp only [tmpsOfEffect]) _ _⟩
      · split at h
        · cases h
          exact ⟨Nat.le_refl _, TmpsIn_of_eq_nil (by simp only [tmpsOfEffect, tmpsOfPures, tmpsOfPure, List.append_nil]) _ _⟩
        · cases h; exact ⟨Nat.le_refl _, TmpsIn_of_eq_nil (by simp only [tmpsOfEffect]) _ _⟩
  | .exprstmt e, st, eff, st', _, h => by
      simp only [compileStmt] at h
      obtain ⟨ce, _, h⟩ := bind_ok h
      cases h
      exact ⟨Nat.le_refl _, TmpsIn_of_eq_nil (by simp only [tmpsOfEffect]) _ _⟩
  | .ret _, st, eff, st', hf, _ => by simp [HybFreeS] at hf
theorem tm_compileStmts (env : CEnv) :
    (ss : List CStmt) → (st : TSt) → {es : List ILEffect} → {st' : TSt} → HybFreeSs ss = true →
      compileStmts env st ss = .ok (es, st') → st.hyb ≤ st'.hyb ∧ TmpsIn (tmpsOfEffects es) st.hyb st'.hyb
  | [], st, es, st', _, h => by
      simp only [compileStmts] at h; cases h
      exact ⟨Nat.le_refl _, TmpsIn_of_eq_nil tmpsOfEffects_nil _ _⟩
  | s :: ss, st, es, st', hf, h => by
      simp only [HybFreeSs, Bool.and_eq_true] at hf
      simp only [compileStmts] at h
      obtain ⟨r, hr, h⟩ := bind_ok h
      obtain ⟨e1, st1⟩ := r
      obtain ⟨r2, hr2, h⟩ := bind_ok h
      obtain ⟨es2, st2⟩ := r2
      cases h
      have h1 := tm_compileStmt env s st hf.1 hr
      have h2 := tm_compileStmts env ss st1 hf.2 hr2
      refine ⟨Nat.le_trans h1.1 h2.1, ?_⟩
      show TmpsIn (tmpsOfEffects (consEff s e1 es2)) st.hyb st2.hyb
      cases hb : isBare s
      · rw [consEff_eff hb, tmpsOfEffects_cons]
        exact (h1.2.mono (Nat.le_refl _) h2.1).append (h2.2.mono h1.1 (Nat.le_refl _))
      · rw [consEff_bare hb]
        exact h2.2.mono h1.1 (Nat.le_refl _)
end

end HEqv
end Rzil
