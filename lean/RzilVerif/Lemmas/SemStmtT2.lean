import RzilVerif.Lemmas.SemExprT2
/-!
# T2-semantic for statements

On the semantic statement carve-out `CarveSSem` the lowering as coded and the repaired lowering fail together and
register the same immediates (`TSt`); for the statements that lower to straight-line effects (declaration, simple and
compound assignment, store, jump) the two effects execute alike from every typed state (`SInv c σ`): `decl_sem`,
`assign_sem`, `store_sem`, `jump_sem`.  For `if`/`for` the conditions evaluate alike on typed states (`cond_sem`); the
arms are statements again.  (Two compound effects are NOT equivalent from arbitrary states — only along executions
that stay in typed states; that is what the simulation theorem `stmt_main_sem` of `Props/T2Sem.lean` follows.)
-/
namespace Rzil
namespace Sem

/-! ## effects: from `EEqAt` to `ExecIL`, and sequences along reachable states -/

theorem ExecIL_of_EEqAt {ms : MacroSem} {σ σ' : MState} {e e' : ILEffect} (h : EEqAt ms [] σ e e')
    (hx : C05.ExecIL ms e σ σ') : C05.ExecIL ms e' σ σ' := by
  obtain ⟨f, hf⟩ := C05.ExecIL_iff.1 hx
  exact C05.ExecIL_iff.2 ⟨f, h.ok hf⟩

/-- congruence for a sequence when the tails are alike from the states the first effect can reach -/
theorem ESeqEqAt.cons_reach {ms : MacroSem} {subs : SubEnv} {σ : MState} {e e' : ILEffect} {es es' : List ILEffect}
    (h : EEqAt ms subs σ e e')
    (hs : ∀ fuel σ₁, execIL ms subs fuel e' σ = .ok σ₁ → ESeqEqAt ms subs σ₁ es es') :
    ESeqEqAt ms subs σ (e :: es) (e' :: es') := by
  intro fuel
  cases fuel with
  | zero => rw [execSeq_zero, execSeq_zero]
  | succ f =>
    rw [execSeq_cons, execSeq_cons]
    have hf := h f
    cases hx : execIL ms subs f e σ with
    | error m =>
      cases hy : execIL ms subs f e' σ with
      | error m' => rfl
      | ok σ₂ => rw [hx, hy] at hf; cases hf
    | ok σ₁ =>
      cases hy : execIL ms subs f e' σ with
      | error m' => rw [hx, hy] at hf; cases hf
      | ok σ₂ =>
        rw [hx, hy] at hf
        simp only [Except.toOption, Option.some.injEq] at hf
        subst hf
        exact hs f σ₁ hy f

/-! ## conversions with the hypothesis on the repaired side -/

theorem castOKSem_eq (t : VT) (p : CE) : castOKSem t p = CastSafeSem t p := rfl

section
variable {ms : MacroSem} {σ : MState}

theorem initACast_sem_f (tgt : VT) {a f : CE} (h : CERel ms σ a f) (hs : SortOK ms σ f)
    (hc : castOKSem tgt f = true) :
    CERel ms σ (initACast Cfg.asCode tgt a) (initACast Cfg.fixed tgt f) :=
  initACast_sem tgt h hs (by rw [CastSafeSem_tk h.tk, ← castOKSem_eq]; exact hc)

/-! ## `compileAssign` in three steps -/

/-- conversion of the source and the operator -/
def assignMid (cfg : Cfg) (cd : CE) (op : String) (ce : CE) : Except String CE :=
  let ce := if op == "<<=" || op == ">>=" then ce
            else (if cd.ty.eqv ce.ty then ce else initACast cfg cd.ty ce)
  (match op with
    | "=" => .ok ce
    | "+=" | "-=" | "*=" =>
        let a := promotionCast cfg cd
        let b := promotionCast cfg ce
        let o : BinOp := if op == "+=" then .add else if op == "-=" then .sub else .mul
        .ok { il := .bin o a.il b.il, ty := a.ty, kind := .plain }
    | "&=" | "|=" | "^=" =>
        let o : BinOp := if op == "&=" then .logand else if op == "|=" then .logor else .logxor
        .ok { il := .bin o cd.il ce.il, ty := cd.ty, kind := .plain }
    | "<<=" | ">>=" =>
        let a := promotionCast cfg cd
        let b := promotionCast cfg ce
        let o : BinOp := if op == "<<=" then .shiftl0 else if a.ty.signed then .shiftra else .shiftr0
        .ok { il := .bin o a.il b.il, ty := a.ty, kind := .plain }
    | _ => .error s!"assignment operator {op} not modelled" : Except String CE)

/-- conversion back to the type of the target -/
def assignBack (cfg : Cfg) (cd : CE) (op : String) (src : CE) : CE :=
  if cfg.compoundNoConvertBack || op == "=" then src
  else (if src.ty.eqv cd.ty then src else initACast cfg cd.ty src)

theorem compileAssign_eq (env : CEnv) (lhs : CExpr) (op : String) (ce : CE) :
    compileAssign env lhs op ce = (do
      let cd ← compileExpr env lhs
      let src ← assignMid env.cfg cd op ce
      let eff ← destWrite lhs (assignBack env.cfg cd op src).il
      .ok (eff, assignBack env.cfg cd op src)) := by
  unfold compileAssign assignMid assignBack
  rfl

def assignFull (cfg : Cfg) (cd : CE) (op : String) (ce : CE) : Except String CE :=
  (assignMid cfg cd op ce).map (assignBack cfg cd op)

set_option linter.unusedSimpArgs false in
/-- the stored source of an assignment: related under both configurations on `assignCarveSem` -/
theorem assignFull_sem {a f : CE} (cd : CE) (op : String) (hop : op ∈ assignOps) (r : CERel ms σ a f)
    (hs : SortOK ms σ f) (hc : assignCarveSem op cd f = true) :
    ResRel (CERel ms σ) (assignFull Cfg.asCode cd op a) (assignFull Cfg.fixed cd op f) := by
  have hA : Cfg.asCode.compoundNoConvertBack = true := rfl
  have hF : Cfg.fixed.compoundNoConvertBack = false := rfl
  have heqv : cd.ty.eqv cd.ty = true := by simp [VT.eqv]
  simp only [assignOps, List.mem_cons, List.not_mem_nil, or_false] at hop
  unfold assignCarveSem at hc
  unfold assignFull assignMid assignBack
  rcases hop with rfl | rfl | rfl | rfl | rfl | rfl | rfl | rfl | rfl
  · simp (config := { decide := true }) only [↓reduceIte] at hc
    simp (config := { decide := true }) only [Bool.false_eq_true, ↓reduceIte, C05.convTo_eq2, Bool.or_true, Except.map, ResRel]
    exact initACast_sem_f _ r hs hc
  · simp (config := { decide := true }) only [Bool.false_eq_true, ↓reduceIte, Bool.and_eq_true, decide_eq_true_eq] at hc
    obtain ⟨hw, hco⟩ := hc
    have r' := initACast_sem_f cd.ty r hs hco
    have hwA : (initACast Cfg.asCode cd.ty a).ty.width ≥ 32 := by rw [C05.initACast_width]; exact hw
    have hwF : (initACast Cfg.fixed cd.ty f).ty.width ≥ 32 := by rw [C05.initACast_width]; exact hw
    simp (config := { decide := true }) only [Bool.false_eq_true, ↓reduceIte, C05.convTo_eq2,
      C05.promotionCast_noop _ hw, C05.promotionCast_noop _ hwA, C05.promotionCast_noop _ hwF, hA, hF, Bool.or_false,
      Bool.true_or, heqv, Except.map, ResRel]
    exact ⟨rfl, rfl, PEqAt.bin _ (PEqAt.refl _) r'.il⟩
  · simp (config := { decide := true }) only [Bool.false_eq_true, ↓reduceIte, Bool.and_eq_true, decide_eq_true_eq] at hc
    obtain ⟨hw, hco⟩ := hc
    have r' := initACast_sem_f cd.ty r hs hco
    have hwA : (initACast Cfg.asCode cd.ty a).ty.width ≥ 32 := by rw [C05.initACast_width]; exact hw
    have hwF : (initACast Cfg.fixed cd.ty f).ty.width ≥ 32 := by rw [C05.initACast_width]; exact hw
    simp (config := { decide := true }) only [Bool.false_eq_true, ↓reduceIte, C05.convTo_eq2,
      C05.promotionCast_noop _ hw, C05.promotionCast_noop _ hwA, C05.promotionCast_noop _ hwF, hA, hF, Bool.or_false,
      Bool.true_or, heqv, Except.map, ResRel]
    exact ⟨rfl, rfl, PEqAt.bin _ (PEqAt.refl _) r'.il⟩
  · simp (config := { decide := true }) only [Bool.false_eq_true, ↓reduceIte, Bool.and_eq_true, decide_eq_true_eq] at hc
    obtain ⟨hw, hco⟩ := hc
    have r' := initACast_sem_f cd.ty r hs hco
    have hwA : (initACast Cfg.asCode cd.ty a).ty.width ≥ 32 := by rw [C05.initACast_width]; exact hw
    have hwF : (initACast Cfg.fixed cd.ty f).ty.width ≥ 32 := by rw [C05.initACast_width]; exact hw
    simp (config := { decide := true }) only [Bool.false_eq_true, ↓reduceIte, C05.convTo_eq2,
      C05.promotionCast_noop _ hw, C05.promotionCast_noop _ hwA, C05.promotionCast_noop _ hwF, hA, hF, Bool.or_false,
      Bool.true_or, heqv, Except.map, ResRel]
    exact ⟨rfl, rfl, PEqAt.bin _ (PEqAt.refl _) r'.il⟩
  · simp (config := { decide := true }) only [Bool.false_eq_true, ↓reduceIte] at hc
    have r' := initACast_sem_f cd.ty r hs hc
    simp (config := { decide := true }) only [Bool.false_eq_true, ↓reduceIte, C05.convTo_eq2, hA, hF, Bool.or_false,
      Bool.true_or, heqv, Except.map, ResRel]
    exact ⟨rfl, rfl, PEqAt.bin _ (PEqAt.refl _) r'.il⟩
  · simp (config := { decide := true }) only [Bool.false_eq_true, ↓reduceIte] at hc
    have r' := initACast_sem_f cd.ty r hs hc
    simp (config := { decide := true }) only [Bool.false_eq_true, ↓reduceIte, C05.convTo_eq2, hA, hF, Bool.or_false,
      Bool.true_or, heqv, Except.map, ResRel]
    exact ⟨rfl, rfl, PEqAt.bin _ (PEqAt.refl _) r'.il⟩
  · simp (config := { decide := true }) only [Bool.false_eq_true, ↓reduceIte] at hc
    have r' := initACast_sem_f cd.ty r hs hc
    simp (config := { decide := true }) only [Bool.false_eq_true, ↓reduceIte, C05.convTo_eq2, hA, hF, Bool.or_false,
      Bool.true_or, heqv, Except.map, ResRel]
    exact ⟨rfl, rfl, PEqAt.bin _ (PEqAt.refl _) r'.il⟩
  · simp (config := { decide := true }) only [Bool.false_eq_true, ↓reduceIte, Bool.and_eq_true, decide_eq_true_eq] at hc
    obtain ⟨hw, hco⟩ := hc
    have r' : CERel ms σ (promotionCast Cfg.asCode a) (promotionCast Cfg.fixed f) := by
      rw [promotionCast_eq, promotionCast_eq, r.ty]
      exact initACast_sem_f _ r hs hco
    simp (config := { decide := true }) only [Bool.false_eq_true, ↓reduceIte,
      C05.promotionCast_noop _ hw, hA, hF, Bool.or_false, Bool.true_or, heqv, Except.map, ResRel]
    exact ⟨rfl, rfl, PEqAt.bin _ (PEqAt.refl _) r'.il⟩
  · simp (config := { decide := true }) only [Bool.false_eq_true, ↓reduceIte, Bool.and_eq_true, decide_eq_true_eq] at hc
    obtain ⟨hw, hco⟩ := hc
    have r' : CERel ms σ (promotionCast Cfg.asCode a) (promotionCast Cfg.fixed f) := by
      rw [promotionCast_eq, promotionCast_eq, r.ty]
      exact initACast_sem_f _ r hs hco
    simp (config := { decide := true }) only [Bool.false_eq_true, ↓reduceIte,
      C05.promotionCast_noop _ hw, hA, hF, Bool.or_false, Bool.true_or, heqv, Except.map, ResRel]
    exact ⟨rfl, rfl, PEqAt.bin _ (PEqAt.refl _) r'.il⟩

/-- the write to the target: alike for equivalent sources -/
theorem destWrite_sem (lhs : CExpr) {x y : ILPure} (h : PEqAt ms σ [] x y) :
    ResRel (fun ec ef => ∀ subs, EEqAt ms subs σ ec ef) (destWrite lhs x) (destWrite lhs y) := by
  cases lhs with
  | var n t => simp only [destWrite, ResRel]; exact fun subs => EEqAt.setl n h
  | reg n k t => simp only [destWrite, ResRel]; exact fun subs => EEqAt.writeReg _ _ h
  | imm l s => simp only [destWrite, ResRel]; exact fun subs => EEqAt.setl l h
  | _ => simp only [destWrite]; trivial

end

/-- an assignment target in the semantic carve-out is in the syntactic one (no conversion in a variable/register read) -/
theorem carveE_of_sem_lhs {c : Ctx} {asg : List String} {lhs : CExpr} (hl : lhsOK c lhs = true)
    (h : CarveESem asg lhs = true) : CarveE asg lhs = true := by
  cases lhs with
  | var n t => unfold CarveE; rw [CarveN]; rfl
  | reg n k t =>
    unfold CarveESem at h; rw [CarveNSem] at h
    unfold CarveE; rw [CarveN]; exact h
  | imm l s => unfold CarveE; rw [CarveN]; rfl
  | _ => simp [lhsOK] at hl

/-- for a plain `=` the compiled target enters `assignment_expr` through its type only -/
theorem assignMid_eq_ty (cfg : Cfg) {cd cd' : CE} (h : cd.ty = cd'.ty) (ce : CE) :
    assignMid cfg cd "=" ce = assignMid cfg cd' "=" ce := by
  unfold assignMid
  simp (config := { decide := true }) only [↓reduceIte, h]

theorem assignBack_eq (cfg : Cfg) (cd cd' : CE) (src : CE) : assignBack cfg cd "=" src = assignBack cfg cd' "=" src := by
  unfold assignBack
  have : (("=" : String) == "=") = true := by decide
  simp only [this, Bool.or_true, ↓reduceIte]

/-- an assignment target in `lhsCarveSem`: the two lowerings compile it to the same result, or — target of a plain `=`,
    a register whose read the code redirects to the `.new` value — to results of the same type -/
theorem lhs_compile_rel {c : Ctx} {asg : List String} {op : String} {lhs : CExpr} (hl : lhsOK c lhs = true)
    (h : lhsCarveSem asg op lhs = true) :
    compileExpr ⟨asg, Cfg.asCode⟩ lhs = compileExpr ⟨asg, Cfg.fixed⟩ lhs ∨
    (op = "=" ∧ ∃ cdA cdF, compileExpr ⟨asg, Cfg.asCode⟩ lhs = .ok cdA ∧ compileExpr ⟨asg, Cfg.fixed⟩ lhs = .ok cdF ∧
      cdA.ty = cdF.ty) := by
  unfold lhsCarveSem at h
  simp only [Bool.or_eq_true, Bool.and_eq_true, beq_iff_eq] at h
  rcases h with h | ⟨hop, h⟩
  · exact Or.inl (expr_asCode_eq_fixed ⟨asg, Cfg.fixed⟩ lhs (carveE_of_sem_lhs hl h))
  · refine Or.inr ⟨hop, ?_⟩
    cases lhs with
    | reg n k t =>
      simp only at h
      refine ⟨_, _, compileExpr_reg _ n k t, compileExpr_reg _ n k t, ?_⟩
      -- `regSafe [] n k t`: the class-only type of an explicit register is the declared one
      have hpn := pn_reg [] n k t (by rw [CarveN]; exact h)
      simp only [compileExpr_reg, Except.map, normTy_of_not (e := .reg n k t) rfl, Except.ok.injEq, CE.mk.injEq] at hpn
      exact hpn.2.1.symm
    | _ => simp at h

/-! ## statements, on a typed state -/

/-- the result relation of statement lowering in the state `σ`: same `TSt`, effects alike from `σ` -/
def SRel (ms : MacroSem) (σ : MState) (x y : ILEffect × TSt) : Prop :=
  x.2 = y.2 ∧ ∀ subs, EEqAt ms subs σ x.1 y.1

section
variable {ms : MacroSem} (hms : MsOK ms) {lb : Bool} (hlb : lb = true → MsLow ms) {c : Ctx} (hc : c.ok = true) {σ : MState} (hinv : C05.SInv c σ) (env : CEnv)
include hms hlb hinv

omit hms hlb hinv in
theorem compileAssign_sem (lhs : CExpr) (op : String) {a f : CE} (hop : op ∈ assignOps) (hl : lhsOK c lhs = true)
    (hlc : lhsCarveSem env.assigned op lhs = true) (r : CERel ms σ a f) (hs : SortOK ms σ f)
    (hcv : ∀ cd, compileExpr (fixedEnv env) lhs = .ok cd → assignCarveSem op cd f = true) :
    ResRel (fun x y => CERel ms σ x.2 y.2 ∧ ∀ subs, EEqAt ms subs σ x.1 y.1)
      (compileAssign (codeEnv env) lhs op a) (compileAssign (fixedEnv env) lhs op f) := by
  rw [compileAssign_eq, compileAssign_eq]
  -- the compiled target: the same under both lowerings, or (plain `=`) of the same type, which is all `=` uses of it
  have hmid : ∀ cdF, compileExpr (fixedEnv env) lhs = .ok cdF → ∃ cdA, compileExpr (codeEnv env) lhs = .ok cdA ∧
      assignMid Cfg.asCode cdA op a = assignMid Cfg.asCode cdF op a ∧
      ∀ src, assignBack Cfg.asCode cdA op src = assignBack Cfg.asCode cdF op src := by
    intro cdF hF
    rcases lhs_compile_rel hl hlc with hE | ⟨hop', cdA, cdF', hA, hF', hty⟩
    · exact ⟨cdF, hE.trans hF, rfl, fun _ => rfl⟩
    · have : cdF' = cdF := by
        have h1 : compileExpr (fixedEnv env) lhs = .ok cdF' := hF'
        rw [hF] at h1; exact (Except.ok.inj h1).symm
      subst this
      subst hop'
      exact ⟨cdA, hA, assignMid_eq_ty _ hty a, fun src => assignBack_eq _ _ _ src⟩
  have herr : ∀ m, compileExpr (fixedEnv env) lhs = .error m → ∃ m', compileExpr (codeEnv env) lhs = .error m' := by
    intro m hF
    rcases lhs_compile_rel hl hlc with hE | ⟨_, cdA, cdF', hA, hF', _⟩
    · exact ⟨m, hE.trans hF⟩
    · have h1 : compileExpr (fixedEnv env) lhs = .ok cdF' := hF'
      rw [hF] at h1; cases h1
  cases hcd : compileExpr (fixedEnv env) lhs with
  | error m =>
    obtain ⟨m', hA⟩ := herr m hcd
    rw [hA]; trivial
  | ok cd =>
    obtain ⟨cdA, hA, hmidA, hbackA⟩ := hmid cd hcd
    rw [hA]
    have hfull := assignFull_sem cd op hop r hs (hcv cd hcd)
    unfold assignFull at hfull
    show ResRel _ (assignMid Cfg.asCode cdA op a >>= _) (assignMid Cfg.fixed cd op f >>= _)
    rw [hmidA]
    conv => enter [2]; simp only [hbackA]
    cases hA : assignMid Cfg.asCode cd op a with
    | error m =>
      cases hF : assignMid Cfg.fixed cd op f with
      | error m' => trivial
      | ok sf => rw [hA, hF] at hfull; exact absurd hfull (by simp [Except.map, ResRel])
    | ok sa =>
      cases hF : assignMid Cfg.fixed cd op f with
      | error m' => rw [hA, hF] at hfull; exact absurd hfull (by simp [Except.map, ResRel])
      | ok sf =>
        rw [hA, hF] at hfull
        simp only [Except.map, ResRel] at hfull
        show ResRel _ (destWrite lhs (assignBack Cfg.asCode cd op sa).il >>= _) (destWrite lhs (assignBack Cfg.fixed cd op sf).il >>= _)
        refine (destWrite_sem lhs hfull.il).bind (fun ec ef _ _ he => ?_)
        exact ⟨hfull, he⟩

theorem decl_sem (st : TSt) (t : CT) (n : String) (e : CExpr)
    (hcarve : CarveSSem env (.decl t n (some e)) lb = true) (hwf : WFES c e = true) :
    ResRel (SRel ms σ) (compileStmt (codeEnv env) st (.decl t n (some e)))
      (compileStmt (fixedEnv env) st (.decl t n (some e))) := by
  simp only [CarveSSem, Bool.and_eq_true] at hcarve
  simp only [compileStmt]
  refine (expr_sem_low hms hlb hinv env e hcarve.1 hwf).bind (fun a f _ hF r => ?_)
  have hcv := hcarve.2; rw [hF] at hcv; simp only at hcv
  have hs := sortOK_fixed hms hinv rfl hwf hF
  have r' := initACast_sem_f t.toVT r hs hcv
  simp only [codeEnv, fixedEnv, C05.convTo_eq, ResRel, SRel]
  exact ⟨trivial, fun subs => EEqAt.setl n r'.il⟩

theorem store_sem (st : TSt) (w : Nat) (e : CExpr)
    (hcarve : CarveSSem env (.store w e) lb = true) (hwf : WFES c e = true) :
    ResRel (SRel ms σ) (compileStmt (codeEnv env) st (.store w e)) (compileStmt (fixedEnv env) st (.store w e)) := by
  simp only [CarveSSem, Bool.and_eq_true] at hcarve
  simp only [compileStmt]
  refine (expr_sem_low hms hlb hinv env e hcarve.1 hwf).bind (fun a f _ hF r => ?_)
  have hcv := hcarve.2; rw [hF] at hcv; simp only at hcv
  have hs := sortOK_fixed hms hinv rfl hwf hF
  simp only [codeEnv, fixedEnv, ResRel, SRel, ← r.ty]
  refine ⟨trivial, fun subs => EEqAt.storew (PEqAt.refl _) ?_⟩
  cases hb : a.ty.hasFlag VT.gBOOL with
  | true =>
    have hbf : f.ty.hasFlag VT.gBOOL = true := r.ty ▸ hb
    simp only [hbf, ↓reduceIte, Bool.and_eq_true, Bool.not_eq_eq_eq_not, Bool.not_true] at hcv
    have hne : VT.eqv { signed := false, width := w, group := 1 } a.ty = false := by rw [r.ty]; exact hcv.1
    simp only [↓reduceIte, hne, Bool.false_eq_true]
    exact (initACast_sem _ r hs (by rw [CastSafeSem_tk r.tk]; exact CastSafe_imp_Sem hcv.2)).il
  | false =>
    have hbf : f.ty.hasFlag VT.gBOOL = false := r.ty ▸ hb
    simp only [hbf, Bool.false_eq_true, ↓reduceIte] at hcv
    simp only [Bool.false_eq_true, ↓reduceIte, cfgsimp]
    cases hsg : a.ty.signed with
    | false => simp only [Bool.false_eq_true, ↓reduceIte]; exact PEqAt.cast _ (PEqAt.refl _) r.il
    | true =>
      have hsf : f.ty.signed = true := r.ty ▸ hsg
      simp only [hsf, Bool.not_true, Bool.false_or, decide_eq_true_eq] at hcv
      simp only [↓reduceIte]
      exact cast_bfalse_msb r.il (hs.width_le hbf hcv)

omit hms hlb hinv in
theorem SInv_setSpecial (hc : c.ok = true) (hinv : C05.SInv c σ) {n : String} (hn : isSpecial n = true) (v : Val) :
    C05.SInv c { σ with locals := setLocal σ.locals n v } := by
  apply hinv.setLocal n v
  · intro t ht
    have := (C05.Ctx.ok_types hc ht).2.1
    rw [hn] at this; cases this
  · intro hm
    have := (C05.Ctx.ok_imms hc hm).2
    rw [hn] at this; cases this

end

section
variable {ms : MacroSem} (hms : MsOK ms) {lb : Bool} (hlb : lb = true → MsLow ms) {c : Ctx} (hc : c.ok = true) {σ : MState} (hinv : C05.SInv c σ) (env : CEnv)
include hms hlb hc hinv

theorem jump_sem (st : TSt) (e : CExpr)
    (hcarve : CarveSSem env (.jump e) lb = true) (hwf : WFES c e = true) :
    ResRel (SRel ms σ) (compileStmt (codeEnv env) st (.jump e)) (compileStmt (fixedEnv env) st (.jump e)) := by
  simp only [CarveSSem, Bool.and_eq_true] at hcarve
  simp only [compileStmt]
  refine (expr_sem_low hms hlb hinv env e hcarve.1 hwf).bind (fun a f hA hF r => ?_)
  have hcv := hcarve.2; rw [hF] at hcv; simp only [Bool.or_eq_true, beq_iff_eq] at hcv
  simp only [codeEnv, fixedEnv, ResRel, SRel, ← r.ty]
  refine ⟨trivial, fun subs => EEqAt.seqn (ESeqEqAt.cons_reach (EEqAt.refl _ _) ?_)⟩
  intro fuel σ₁ hx
  -- the state after `SETL("jump_flag", IL_TRUE)` is typed again
  have hσ₁ : C05.SInv c σ₁ := by
    cases fuel with
    | zero => rw [execIL_zero] at hx; cases hx
    | succ k =>
      rw [execIL_setl, evalPure_btrue] at hx
      simp only [bind, Except.bind, Except.ok.injEq] at hx
      subst hx
      exact SInv_setSpecial hc hinv (by decide) _
  have r₁ : CERel ms σ₁ a f := by
    have := expr_sem_low hms hlb hσ₁ env e hcarve.1 hwf
    rw [hA, hF] at this
    exact this
  have hs₁ := sortOK_fixed hms hσ₁ rfl hwf hF
  refine ESeqEqAt.cons_reach (EEqAt.setl _ ?_) (fun _ _ _ => ESeqEqAt.refl _ _)
  by_cases h32 : a.ty.width = 32
  · have : (a.ty.width != 32) = false := by simp [h32]
    simp only [this, Bool.false_eq_true, ↓reduceIte]
    exact r₁.il
  · have h32f : ¬ f.ty.width = 32 := r₁.ty ▸ h32
    have : (a.ty.width != 32) = true := by simp [h32]
    simp only [this, ↓reduceIte]
    exact (initACast_sem_f _ r₁ hs₁ (hcv.resolve_left h32f)).il

end

section
variable {ms : MacroSem} (hms : MsOK ms) {lb : Bool} (hlb : lb = true → MsLow ms) {c : Ctx} {σ : MState} (hinv : C05.SInv c σ) (env : CEnv)
include hms hlb hinv

theorem assign_sem (st : TSt) (lhs : CExpr) (op : String) (e : CExpr)
    (hcarve : CarveSSem env (.assign lhs op e) lb = true) (hl : lhsOK c lhs = true) (hwf : WFES c e = true) :
    ResRel (SRel ms σ) (compileStmt (codeEnv env) st (.assign lhs op e))
      (compileStmt (fixedEnv env) st (.assign lhs op e)) := by
  simp only [CarveSSem, Bool.and_eq_true, List.contains_eq_mem, decide_eq_true_eq] at hcarve
  obtain ⟨⟨⟨hop, hlc⟩, he⟩, hcv⟩ := hcarve
  simp only [compileStmt]
  refine (expr_sem_low hms hlb hinv env e he hwf).bind (fun a f _ hF r => ?_)
  have hs := sortOK_fixed hms hinv rfl hwf hF
  have := compileAssign_sem env lhs op hop hl hlc r hs (fun cd hcd => by rw [hcd, hF] at hcv; exact hcv)
  refine this.bind (fun x y _ _ hxy => ?_)
  obtain ⟨ec, sc⟩ := x
  obtain ⟨ef, sf⟩ := y
  exact ⟨rfl, hxy.2⟩

omit hms hlb hinv in
/-- the result of `!`/`&&`/`||` is a `BooleanOp` object (whatever the configuration types it as) -/
theorem kind_of_isNotLog {env : CEnv} {e : CExpr} {a : CE} (hn : isNotLog e = true)
    (hA : compileExpr env e = .ok a) : a.kind = .boolObj := by
  cases e with
  | not x =>
    rw [compileExpr_not] at hA
    obtain ⟨cx, _, h⟩ := C05.bind_ok hA
    simp only [Except.ok.injEq] at h
    rw [← h]
  | log op x y =>
    rw [compileExpr_log] at hA
    obtain ⟨cx, _, h⟩ := C05.bind_ok hA
    obtain ⟨cy, _, h⟩ := C05.bind_ok h
    simp only [Except.ok.injEq] at h
    rw [← h]
  | _ => simp [isNotLog] at hn

omit hms hlb hinv in
theorem carveNSem_of_carveCSem {e : CExpr} (h : CarveCSem env e lb = true) : CarveNSem env.assigned e lb = true := by
  unfold CarveCSem at h
  simp only [Bool.and_eq_true] at h
  exact h.1

/-- a condition in the condition-position carve-out: the two lowerings fail together -/
theorem cond_res_sem (e : CExpr) (hcarve : CarveCSem env e lb = true) (hwf : WFES c e = true) :
    ResRel (fun a f => CERel ms σ (normTy e a) f) (compileExpr (codeEnv env) e) (compileExpr (fixedEnv env) e) :=
  expr_sem_upto_boolTy_low hms hlb hinv env.assigned e (carveNSem_of_carveCSem env hcarve) hwf

/-- **conditions**: the `BRANCH`/`REPEAT` condition of the code evaluates like the one of the repaired lowering, on the
    condition-position carve-out `CarveCSem`: a `!`/`&&`/`||` at the top is typed differently by the two lowerings
    (`normTy`), but its IL boolean is the condition as it is for both of them. -/
theorem cond_sem (e : CExpr) (hcarve : CarveCSem env e lb = true) (hwf : WFES c e = true)
    {a : CE} (hA : compileExpr (codeEnv env) e = .ok a) :
    ∃ f, compileExpr (fixedEnv env) e = .ok f ∧ PEqAt ms σ [] (condIL Cfg.asCode a) (condIL Cfg.fixed f) := by
  obtain ⟨f, hF, r⟩ := (cond_res_sem hms hlb hinv env e hcarve hwf).ok_left hA
  refine ⟨f, hF, condIL_sem e r ?_⟩
  unfold CarveCSem at hcarve
  simp only [Bool.and_eq_true, Bool.or_eq_true] at hcarve
  unfold condSafe
  by_cases hn : isNotLog e = true
  · rw [kind_of_isNotLog hn hA, hn]; rfl
  · have hok := hcarve.2.resolve_left hn
    rw [hF] at hok
    simp only [condOK] at hok
    have hn' : isNotLog e = false := by simpa using hn
    rw [normTy_of_not hn'] at r
    rw [hn', r.kind, r.ty, Bool.false_or]
    exact hok

/-- `cond_sem` in the form it had before the condition-position carve-out existed: a VALUE-carved condition whose
    repaired compilation is `condOK` -/
theorem cond_sem_value (e : CExpr) (hcarve : CarveESem env.assigned e lb = true) (hwf : WFES c e = true)
    {a : CE} (hA : compileExpr (codeEnv env) e = .ok a)
    (hok : ∀ f, compileExpr (fixedEnv env) e = .ok f → condOK f = true) :
    ∃ f, compileExpr (fixedEnv env) e = .ok f ∧ PEqAt ms σ [] (condIL Cfg.asCode a) (condIL Cfg.fixed f) := by
  refine cond_sem hms hlb hinv env e ?_ hwf hA
  unfold CarveESem at hcarve
  unfold CarveCSem
  simp only [Bool.and_eq_true, Bool.or_eq_true] at hcarve ⊢
  refine ⟨hcarve.1, Or.inr ?_⟩
  split
  · next cc hcc => exact hok cc hcc
  · rfl

end

/-! ## all statements: the two lowerings fail together and register the same immediates -/

section
variable {ms : MacroSem} (hms : MsOK ms) {lb : Bool} (hlb : lb = true → MsLow ms) {c : Ctx} (hc : c.ok = true) {σ : MState} (hinv : C05.SInv c σ) (env : CEnv)
include hms hlb hc hinv

/-- only the `TSt` component -/
def TStRel (x y : ILEffect × TSt) : Prop := x.2 = y.2
def TStsRel (x y : List ILEffect × TSt) : Prop := x.2 = y.2

omit hms hlb hc hinv in
theorem SRel.st {ms σ} {x y : ILEffect × TSt} (h : SRel ms σ x y) : TStRel x y := h.1

set_option linter.unusedSectionVars false in
mutual
theorem stmt_state_sem :
    (s : CStmt) → (st : TSt) → CarveSSem env s lb = true → WFStmt c s = true → (exprsOf s).all (WFES c) = true →
      ResRel TStRel (compileStmt (codeEnv env) st s) (compileStmt (fixedEnv env) st s)
  | .decl _ _ none, st, _, _, _ => by simp only [compileStmt, ResRel, TStRel]
  | .decl t n (some e), st, h, _, hwfe => by
      simp only [exprsOf, List.all_cons, List.all_nil, Bool.and_true] at hwfe
      exact (decl_sem hms hlb hinv env st t n e h hwfe).mono (fun _ _ h => h.st)
  | .assign lhs op e, st, h, hwf, hwfe => by
      simp only [WFStmt, Bool.and_eq_true] at hwf
      have hwe : WFES c e = true := by
        simp only [exprsOf] at hwfe
        split at hwfe <;> simp only [List.all_cons, List.all_nil, Bool.and_true, Bool.and_eq_true] at hwfe
        · exact hwfe
        · exact hwfe.2
      exact (assign_sem hms hlb hinv env st lhs op e h hwf.2 hwe).mono (fun _ _ h => h.st)
  | .chain l1 l2 op2 e, st, h, _, _ => by
      rw [CarveSSem] at h
      rw [C05.T2_chain (C05.exprT2_of_C02 env) st l1 l2 op2 e h]
      cases compileStmt (fixedEnv env) st (.chain l1 l2 op2 e) with
      | error m => trivial
      | ok r => exact rfl
  | .store w e, st, h, _, hwfe => by
      simp only [exprsOf, List.all_cons, List.all_nil, Bool.and_true] at hwfe
      exact (store_sem hms hlb hinv env st w e h hwfe).mono (fun _ _ h => h.st)
  | .jump e, st, h, _, hwfe => by
      simp only [exprsOf, List.all_cons, List.all_nil, Bool.and_true] at hwfe
      exact (jump_sem hms hlb hc hinv env st e h hwfe).mono (fun _ _ h => h.st)
  | .skip w, st, _, _, _ => by
      simp only [compileStmt]
      split
      · exact rfl
      · split <;> exact rfl
  | .exprstmt e, st, h, _, hwfe => by
      simp only [CarveSSem] at h
      simp only [exprsOf, List.all_cons, List.all_nil, Bool.and_true] at hwfe
      simp only [compileStmt]
      exact (expr_sem_low hms hlb hinv env e h hwfe).bind (fun _ _ _ _ _ => rfl)
  | .ret e, st, _, _, _ => by simp only [compileStmt]; trivial
  | .ite x t none, st, h, hwf, hwfe => by
      simp only [CarveSSem, Bool.and_eq_true] at h
      obtain ⟨⟨hx, ht⟩, _⟩ := h
      simp only [WFStmt, Bool.and_eq_true] at hwf
      simp only [exprsOf, List.all_cons, List.all_append, Bool.and_eq_true] at hwfe
      simp only [compileStmt]
      refine (cond_res_sem hms hlb hinv env x hx hwfe.1).bind (fun a f _ _ _ => ?_)
      refine (stmts_state_sem t _ ht hwf.1 hwfe.2.1).bind (fun p q _ _ hpq => ?_)
      obtain ⟨ts, s1⟩ := p
      obtain ⟨ts', s2⟩ := q
      exact hpq
  | .ite x t (some e), st, h, hwf, hwfe => by
      simp only [CarveSSem, Bool.and_eq_true] at h
      obtain ⟨⟨hx, ht⟩, hee⟩ := h
      simp only [WFStmt, Bool.and_eq_true] at hwf
      simp only [exprsOf, List.all_cons, List.all_append, Bool.and_eq_true] at hwfe
      simp only [compileStmt]
      refine (cond_res_sem hms hlb hinv env x hx hwfe.1).bind (fun a f _ _ _ => ?_)
      refine (stmts_state_sem t _ ht hwf.1 hwfe.2.1).bind (fun p q _ _ hpq => ?_)
      obtain ⟨ts, s1⟩ := p
      obtain ⟨ts', s2⟩ := q
      simp only [TStsRel] at hpq
      subst hpq
      refine (stmts_state_sem e _ hee hwf.2 hwfe.2.2).bind (fun p q _ _ hpq => ?_)
      obtain ⟨es, s3⟩ := p
      obtain ⟨es', s4⟩ := q
      exact hpq
  | .for_ v x step b, st, h, hwf, hwfe => by
      simp only [CarveSSem, Bool.and_eq_true, beq_iff_eq] at h
      obtain ⟨⟨hs, hx⟩, hb⟩ := h
      subst hs
      simp only [WFStmt, Bool.and_eq_true] at hwf
      simp only [exprsOf, List.all_cons, Bool.and_eq_true] at hwfe
      simp only [compileStmt]
      refine (cond_res_sem hms hlb hinv env x hx hwfe.1).bind (fun a f _ _ _ => ?_)
      simp only [beq_self_eq_true, ↓reduceIte]
      refine (stmts_state_sem b _ hb hwf.2 hwfe.2).bind (fun p q _ _ hpq => ?_)
      obtain ⟨bs, s1⟩ := p
      obtain ⟨bs', s2⟩ := q
      exact hpq
theorem stmts_state_sem :
    (ss : List CStmt) → (st : TSt) → CarveSsSem env ss lb = true → WFStmts c ss = true →
      (exprsOfList ss).all (WFES c) = true →
      ResRel TStsRel (compileStmts (codeEnv env) st ss) (compileStmts (fixedEnv env) st ss)
  | [], st, _, _, _ => by simp only [compileStmts, ResRel, TStsRel]
  | s :: ss, st, h, hwf, hwfe => by
      simp only [CarveSsSem, Bool.and_eq_true] at h
      simp only [WFStmts, Bool.and_eq_true] at hwf
      simp only [exprsOfList, List.all_append, Bool.and_eq_true] at hwfe
      simp only [compileStmts]
      refine (stmt_state_sem s st h.1 hwf.1 hwfe.1).bind (fun p q _ _ hpq => ?_)
      obtain ⟨e1, s1⟩ := p
      obtain ⟨e2, s2⟩ := q
      simp only [TStRel] at hpq
      subst hpq
      refine (stmts_state_sem ss _ h.2 hwf.2 hwfe.2).bind (fun p q _ _ hpq => ?_)
      obtain ⟨es1, s3⟩ := p
      obtain ⟨es2, s4⟩ := q
      exact hpq
end

end

end Sem
end Rzil
