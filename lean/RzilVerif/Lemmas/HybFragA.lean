import RzilVerif.Lemmas.HybCount
import RzilVerif.Model.HybFrag
/-!
  C06 helpers, part 12 (simulation fragment, A): on the fragment `postOnly`, with literals typed the C way,
  `compileExprH` yields exactly what `compileExpr` yields on the expression with every postfix operation
  replaced by a read of its temporary (`unhyb`), and leaves exactly the postfix entries pending, in order.
-/
namespace Rzil
namespace C06
open C05 (bind_ok bind_ok_of)

/-! ## the pure continuations of the arithmetic cases -/

def unCE (cfg : Cfg) (op : String) (c1 : CE) : CE :=
  match foldVal cfg c1 with
  | some v => foldUnCE cfg op c1 v
  | none => { il := .un (if op == "-" then .neg else .lognot) (promotionCast cfg c1).il,
              ty := (promotionCast cfg c1).ty, kind := .plain }

def notCE (cfg : Cfg) (c1 : CE) : CE :=
  { il := .un .inv (condIL cfg c1),
    ty := if cfg.boolOpTypedAsOperand then c1.ty else { signed := false, width := 1, group := gBool }, kind := .boolObj }

def binCE (env : CEnv) (op : String) (ca cb : CE) : Except String CE :=
  match foldVal env.cfg ca, foldVal env.cfg cb with
  | some va, some vb =>
      (match foldBinCE env.cfg op ca cb va vb with
       | some r => .ok r
       | none => compileBin env op ca cb)
  | _, _ => compileBin env op ca cb

def shiftL (cfg : Cfg) (ca : CE) : CE := if cfg.shiftLeftUnpromoted then ca else promotionCast cfg ca

def shiftCE (cfg : Cfg) (op : String) (ca cb : CE) : CE :=
  { il := .bin (if op == "<<" then .shiftl0 else if (shiftL cfg ca).ty.signed then .shiftra else .shiftr0)
            (shiftL cfg ca).il cb.il,
    ty := (shiftL cfg ca).ty, kind := .plain }

def cmpOperands (cfg : Cfg) (ca cb : CE) : CE × CE :=
  castOperands cfg (if cfg.cmpUnpromoted then (ca, cb) else (promotionCast cfg ca, promotionCast cfg cb)).1
    (if cfg.cmpUnpromoted then (ca, cb) else (promotionCast cfg ca, promotionCast cfg cb)).2

def cmpIL (op : String) (a b : CE) : ILPure :=
  let sg := a.ty.signed || b.ty.signed
  match op with
  | "<" => .bin (if sg then .slt else .ult) a.il b.il
  | ">" => .bin (if sg then .sgt else .ugt) a.il b.il
  | "<=" => .bin (if sg then .sle else .ule) a.il b.il
  | ">=" => .bin (if sg then .sge else .uge) a.il b.il
  | "==" => .bin .eq a.il b.il
  | _ => .un .inv (.bin .eq a.il b.il)

def cmpCE (cfg : Cfg) (op : String) (ca cb : CE) : CE :=
  match foldVal cfg ca, foldVal cfg cb with
  | some va, some vb => foldCmpCE cfg op ca cb va vb
  | _, _ =>
      { il := cmpIL op (cmpOperands cfg ca cb).1 (cmpOperands cfg ca cb).2,
        ty := { signed := false, width := 1, group := gBool }, kind := .boolObj }

/-! ## refined inversions -/

theorem invX_imm {env : CEnv} {st st' : HSt} {ce : CE} {l s}
    (h : compileExprH env st (.imm l s) = .ok (ce, st')) :
    compileExpr env (.imm l s) = .ok ce ∧ st'.pending = st.pending ∧ st'.hyb = st.hyb := by
  simp only [compileExprH, compileExpr] at h
  simp only [bind, Except.bind, Except.ok.injEq, Prod.mk.injEq] at h
  obtain ⟨rfl, rfl⟩ := h
  refine ⟨by simp only [compileExpr], ?_, ?_⟩ <;> split <;> rfl

theorem invX_un {env : CEnv} {st st' : HSt} {ce : CE} {op e}
    (h : compileExprH env st (.un op e) = .ok (ce, st')) :
    ∃ c1, compileExprH env st e = .ok (c1, st') ∧ ce = unCE env.cfg op c1 := by
  simp only [compileExprH] at h
  obtain ⟨⟨c1, s1⟩, h1, h⟩ := bind_ok h
  simp only at h
  refine ⟨c1, ?_⟩
  unfold unCE
  cases hf : foldVal env.cfg c1 <;> rw [hf] at h <;>
  · simp only [Except.ok.injEq, Prod.mk.injEq] at h
    obtain ⟨rfl, rfl⟩ := h
    exact ⟨h1, rfl⟩

theorem invX_not {env : CEnv} {st st' : HSt} {ce : CE} {e}
    (h : compileExprH env st (.not e) = .ok (ce, st')) :
    ∃ c1, compileExprH env st e = .ok (c1, st') ∧ ce = notCE env.cfg c1 := by
  simp only [compileExprH] at h
  obtain ⟨⟨c1, s1⟩, h1, h⟩ := bind_ok h
  simp only [Except.ok.injEq, Prod.mk.injEq] at h
  obtain ⟨rfl, rfl⟩ := h
  exact ⟨c1, h1, rfl⟩

theorem invX_bin {env : CEnv} {st st' : HSt} {ce : CE} {op a b}
    (h : compileExprH env st (.bin op a b) = .ok (ce, st')) :
    ∃ ca s1 cb, compileExprH env st a = .ok (ca, s1) ∧ compileExprH env s1 b = .ok (cb, st') ∧
      binCE env op ca cb = .ok ce := by
  simp only [compileExprH] at h
  obtain ⟨⟨ca, s1⟩, h1, h⟩ := bind_ok h
  obtain ⟨⟨cb, s2⟩, h2, h⟩ := bind_ok h
  simp only at h
  refine ⟨ca, s1, cb, h1, ?_⟩
  unfold binCE
  split at h
  · rename_i va vb hva hvb
    rw [hva, hvb]
    simp only
    split at h
    · rename_i r hr
      simp only [Except.ok.injEq, Prod.mk.injEq] at h
      obtain ⟨rfl, rfl⟩ := h
      exact ⟨h2, by rw [hr]⟩
    · rename_i hr
      obtain ⟨r, hr', h⟩ := bind_ok h
      simp only [Except.ok.injEq, Prod.mk.injEq] at h
      obtain ⟨rfl, rfl⟩ := h
      exact ⟨h2, by rw [hr]; exact hr'⟩
  · rename_i hno
    obtain ⟨r, hr', h⟩ := bind_ok h
    simp only [Except.ok.injEq, Prod.mk.injEq] at h
    obtain ⟨rfl, rfl⟩ := h
    refine ⟨h2, ?_⟩
    split
    · rename_i va vb hva hvb; exact absurd hvb (hno va vb hva)
    · exact hr'

theorem invX_shift {env : CEnv} {st st' : HSt} {ce : CE} {op a b}
    (h : compileExprH env st (.shift op a b) = .ok (ce, st')) :
    ∃ ca s1 cb, compileExprH env st a = .ok (ca, s1) ∧ compileExprH env s1 b = .ok (cb, st') ∧
      ce = shiftCE env.cfg op ca cb := by
  simp only [compileExprH] at h
  obtain ⟨⟨ca, s1⟩, h1, h⟩ := bind_ok h
  obtain ⟨⟨cb, s2⟩, h2, h⟩ := bind_ok h
  simp only [Except.ok.injEq, Prod.mk.injEq] at h
  obtain ⟨rfl, rfl⟩ := h
  exact ⟨ca, s1, cb, h1, h2, rfl⟩

theorem invX_cmp {env : CEnv} {st st' : HSt} {ce : CE} {op a b}
    (h : compileExprH env st (.cmp op a b) = .ok (ce, st')) :
    ∃ ca s1 cb, compileExprH env st a = .ok (ca, s1) ∧ compileExprH env s1 b = .ok (cb, st') ∧
      ce = cmpCE env.cfg op ca cb := by
  simp only [compileExprH] at h
  obtain ⟨⟨ca, s1⟩, h1, h⟩ := bind_ok h
  obtain ⟨⟨cb, s2⟩, h2, h⟩ := bind_ok h
  simp only at h
  refine ⟨ca, s1, cb, h1, ?_⟩
  unfold cmpCE
  cases hfa : foldVal env.cfg ca with
  | none =>
    rw [hfa] at h
    simp only [Except.ok.injEq, Prod.mk.injEq] at h
    obtain ⟨rfl, rfl⟩ := h
    exact ⟨h2, rfl⟩
  | some va =>
    cases hfb : foldVal env.cfg cb with
    | none =>
      rw [hfa, hfb] at h
      simp only [Except.ok.injEq, Prod.mk.injEq] at h
      obtain ⟨rfl, rfl⟩ := h
      exact ⟨h2, rfl⟩
    | some vb =>
      rw [hfa, hfb] at h
      simp only [Except.ok.injEq, Prod.mk.injEq] at h
      obtain ⟨rfl, rfl⟩ := h
      exact ⟨h2, rfl⟩

/-! ## `compileExpr` on the arithmetic cases, via the same continuations (literals typed the C way) -/

theorem foldVal_fixed {cfg : Cfg} (hcfg : cfg.literalTypeBySuffixOnly = false) (c : CE) :
    foldVal cfg c = (match c.kind with | .lit v => some v | _ => none) := by
  unfold foldVal
  cases c.kind <;> simp [hcfg]

theorem cx_cast {env : CEnv} {e' : CExpr} {c1 : CE} (t : CT)
    (h : compileExpr env e' = .ok c1) : compileExpr env (.cast t e') = .ok (gccSrc env.cfg t c1) := by
  simp only [compileExpr, h, bind, Except.bind, gccSrc]
  split <;> rfl

theorem cx_un {env : CEnv} (hcfg : env.cfg.literalTypeBySuffixOnly = false) {e' : CExpr} {c1 : CE} (op : String)
    (h : compileExpr env e' = .ok c1) : compileExpr env (.un op e') = .ok (unCE env.cfg op c1) := by
  simp only [compileExpr, h, bind, Except.bind]
  unfold unCE
  rw [foldVal_fixed hcfg]
  cases hk : c1.kind <;> simp [foldUnCE, hcfg]

theorem cx_not {env : CEnv} {e' : CExpr} {c1 : CE}
    (h : compileExpr env e' = .ok c1) : compileExpr env (.not e') = .ok (notCE env.cfg c1) := by
  simp only [compileExpr, h, bind, Except.bind, notCE]

theorem cx_bin {env : CEnv} (hcfg : env.cfg.literalTypeBySuffixOnly = false) {a' b' : CExpr} {ca cb ce : CE}
    (op : String) (ha : compileExpr env a' = .ok ca) (hb : compileExpr env b' = .ok cb)
    (h : binCE env op ca cb = .ok ce) : compileExpr env (.bin op a' b') = .ok ce := by
  simp only [compileExpr, ha, hb, bind, Except.bind]
  unfold binCE at h
  rw [foldVal_fixed hcfg, foldVal_fixed hcfg] at h
  cases hka : ca.kind <;> cases hkb : cb.kind <;> simp only [hka, hkb] at h ⊢ <;> try exact h
  unfold foldBinCE at h
  split
  · rename_i hop
    simp only [hop, ↓reduceIte, hcfg] at h
    simpa [hcfg] using h
  · rename_i hop
    simp only [hop] at h
    exact h

theorem cx_shift {env : CEnv} {a' b' : CExpr} {ca cb : CE} (op : String)
    (ha : compileExpr env a' = .ok ca) (hb : compileExpr env b' = .ok cb) :
    compileExpr env (.shift op a' b') = .ok (shiftCE env.cfg op ca cb) := by
  simp only [compileExpr, ha, hb, bind, Except.bind]
  rfl

theorem cx_cmp {env : CEnv} (hcfg : env.cfg.literalTypeBySuffixOnly = false) {a' b' : CExpr} {ca cb : CE}
    (op : String) (ha : compileExpr env a' = .ok ca) (hb : compileExpr env b' = .ok cb) :
    compileExpr env (.cmp op a' b') = .ok (cmpCE env.cfg op ca cb) := by
  simp only [compileExpr, ha, hb, bind, Except.bind]
  unfold cmpCE
  rw [foldVal_fixed hcfg, foldVal_fixed hcfg]
  cases hka : ca.kind <;> cases hkb : cb.kind <;> simp only [] <;>
    first
    | rfl
    | (simp only [foldCmpCE, hcfg, Bool.false_eq_true, ↓reduceIte])

/-! ## (A) the correspondence -/

theorem postPendsFrom_append (k : Nat) (xs ys : List (String × CT × String)) :
    postPendsFrom k (xs ++ ys) = postPendsFrom k xs ++ postPendsFrom (k + xs.length) ys := by
  induction xs generalizing k with
  | nil => simp [postPendsFrom]
  | cons x xs ih =>
    obtain ⟨v, t, op⟩ := x
    simp only [List.cons_append, postPendsFrom, ih, List.length_cons]
    rw [show k + 1 + xs.length = k + (xs.length + 1) by omega]

/-- what the theorem says about one run -/
structure FragRun (env : CEnv) (st : HSt) (e : CExpr) (ce : CE) (st' : HSt) : Prop where
  plain : compileExpr env (unhyb st.hyb e) = .ok ce
  pending : st'.pending = st.pending ++ postPendsFrom st.hyb (postsOf e)
  hyb : st'.hyb = st.hyb + (postsOf e).length

theorem FragRun.two {env : CEnv} {st s1 s2 : HSt} {a b : CExpr} {ca cb : CE}
    (h1 : FragRun env st a ca s1) (h2 : FragRun env s1 b cb s2) :
    compileExpr env (unhyb st.hyb a) = .ok ca ∧ compileExpr env (unhyb (st.hyb + (postsOf a).length) b) = .ok cb ∧
    s2.pending = st.pending ++ postPendsFrom st.hyb (postsOf a ++ postsOf b) ∧
    s2.hyb = st.hyb + (postsOf a ++ postsOf b).length := by
  refine ⟨h1.plain, by rw [← h1.hyb]; exact h2.plain, ?_, ?_⟩
  · rw [h2.pending, h1.pending, h1.hyb, postPendsFrom_append, List.append_assoc]
  · rw [h2.hyb, h1.hyb, List.length_append]; omega

theorem compileExprH_frag (env : CEnv) (hcfg : env.cfg.literalTypeBySuffixOnly = false) :
    (e : CExpr) → {st st' : HSt} → {ce : CE} → postOnly e = true →
    compileExprH env st e = .ok (ce, st') → FragRun env st e ce st'
  | .reg n k t, st, st', ce, _, h => by
      obtain ⟨hs, hc⟩ := inv_leaf (Or.inl ⟨n, k, t, rfl⟩) h
      subst hs
      exact ⟨hc, by simp [postsOf, postPendsFrom], by simp [postsOf]⟩
  | .imm l s, st, st', ce, _, h => by
      obtain ⟨h1, h2, h3⟩ := invX_imm h
      exact ⟨h1, by simp [postsOf, postPendsFrom, h2], by simp [postsOf, h3]⟩
  | .lit v hx s, st, st', ce, _, h => by
      obtain ⟨hs, hc⟩ := inv_leaf (Or.inr (Or.inl ⟨v, hx, s, rfl⟩)) h
      subst hs
      exact ⟨hc, by simp [postsOf, postPendsFrom], by simp [postsOf]⟩
  | .var n t, st, st', ce, _, h => by
      obtain ⟨hs, hc⟩ := inv_leaf (Or.inr (Or.inr (Or.inl ⟨n, t, rfl⟩))) h
      subst hs
      exact ⟨hc, by simp [postsOf, postPendsFrom], by simp [postsOf]⟩
  | .load s w t, st, st', ce, _, h => by
      obtain ⟨hs, hc⟩ := inv_leaf (Or.inr (Or.inr (Or.inr ⟨s, w, t, rfl⟩))) h
      subst hs
      exact ⟨hc, by simp [postsOf, postPendsFrom], by simp [postsOf]⟩
  | .cast t e, st, st', ce, hp, h => by
      obtain ⟨c1, h1, rfl⟩ := inv_cast h
      have ih := compileExprH_frag env hcfg e (by simpa [postOnly] using hp) h1
      exact ⟨cx_cast t ih.plain, ih.pending, ih.hyb⟩
  | .un op e, st, st', ce, hp, h => by
      obtain ⟨c1, h1, rfl⟩ := invX_un h
      have ih := compileExprH_frag env hcfg e (by simpa [postOnly] using hp) h1
      exact ⟨cx_un hcfg op ih.plain, ih.pending, ih.hyb⟩
  | .not e, st, st', ce, hp, h => by
      obtain ⟨c1, h1, rfl⟩ := invX_not h
      have ih := compileExprH_frag env hcfg e (by simpa [postOnly] using hp) h1
      exact ⟨cx_not ih.plain, ih.pending, ih.hyb⟩
  | .bin op a b, st, st', ce, hp, h => by
      obtain ⟨ca, s1, cb, h1, h2, h3⟩ := invX_bin h
      simp only [postOnly, Bool.and_eq_true] at hp
      obtain ⟨ea, eb, e3, e4⟩ := (compileExprH_frag env hcfg a hp.1 h1).two (compileExprH_frag env hcfg b hp.2 h2)
      exact ⟨cx_bin hcfg op ea eb h3, e3, e4⟩
  | .shift op a b, st, st', ce, hp, h => by
      obtain ⟨ca, s1, cb, h1, h2, rfl⟩ := invX_shift h
      simp only [postOnly, Bool.and_eq_true] at hp
      obtain ⟨ea, eb, e3, e4⟩ := (compileExprH_frag env hcfg a hp.1 h1).two (compileExprH_frag env hcfg b hp.2 h2)
      exact ⟨cx_shift op ea eb, e3, e4⟩
  | .cmp op a b, st, st', ce, hp, h => by
      obtain ⟨ca, s1, cb, h1, h2, rfl⟩ := invX_cmp h
      simp only [postOnly, Bool.and_eq_true] at hp
      obtain ⟨ea, eb, e3, e4⟩ := (compileExprH_frag env hcfg a hp.1 h1).two (compileExprH_frag env hcfg b hp.2 h2)
      exact ⟨cx_cmp hcfg op ea eb, e3, e4⟩
  | .post v t op, st, st', ce, _, h => by
      obtain ⟨rfl, rfl⟩ := inv_post h
      exact ⟨by simp [unhyb, compileExpr], by simp [postState, postsOf, postPendsFrom], by simp [postState, postsOf]⟩
  | .log _ _ _, _, _, _, hp, _ => by simp [postOnly] at hp
  | .tern _ _ _, _, _, _, hp, _ => by simp [postOnly] at hp
  | .macro _ _ _ _, _, _, _, hp, _ => by simp [postOnly] at hp
  | .call _ _ _ _, _, _, _, hp, _ => by simp [postOnly] at hp
  | .stmtexpr _ _ _, _, _, _, hp, _ => by simp [postOnly] at hp

end C06
end Rzil
