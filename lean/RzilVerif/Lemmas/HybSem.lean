import RzilVerif.Lemmas.HybInv
import RzilVerif.Lemmas.StmtState
import RzilVerif.Model.CSemH
/-!
  C06 helpers, part 10: what rendering a pending entry does on the IL semantics (`ExecIL`: for every fuel
  large enough, no sub-routine environment needed): postfix entries, guarded statement-expression arms,
  statement-expression entries.
-/
namespace Rzil
namespace C06
open C05

theorem tmpName_ne_of_not_htmp {v : String} (h : isHTmp v = false) (k : Nat) : v ≠ tmpName k := by
  intro e; rw [e, isHTmp_tmpName] at h; cases h

/-- the value part of a postfix operation, as `INC`/`DEC` compute it -/
def postVal {w : Nat} (op : String) (x : BitVec w) : BitVec w := if op == "++" then x + 1 else x - 1

/-- (5a) Rendering the entry of `v++` / `v--`: the temporary receives the OLD value, then `v` is stepped. -/
theorem post_render_exec (ms : MacroSem) (hyb : Nat) (v : String) (t : CT) (op : String) (σ : MState)
    (x : BitVec t.width) (hv : lookupS v σ.locals = some (.bv t.width x)) (hne : isHTmp v = false) :
    ExecIL ms (postPend hyb v t op).render σ
      { σ with locals := setLocal (setLocal σ.locals (tmpName hyb) (.bv t.width x)) v (.bv t.width (postVal op x)) } := by
  have hvt := tmpName_ne_of_not_htmp hne hyb
  unfold Pend.render
  rw [mkSeq_exec]
  simp only [postPend, List.nil_append, ↓reduceIte]
  refine ExecSeqIL_cons (ExecIL_seqn.mpr ?_) ExecSeqIL_nil
  refine ExecSeqIL_cons (ExecIL_setl (vv := .bv t.width x) ?_) (ExecSeqIL_cons ?_ ExecSeqIL_nil)
  · simp only [evalPure, hv]
  · have h2 : lookupS v (setLocal σ.locals (tmpName hyb) (.bv t.width x)) = some (.bv t.width x) := by
      rw [lookupS_setLocal_ne hvt]; exact hv
    refine ExecIL_setl (vv := .bv t.width (postVal op x)) ?_
    unfold postVal
    split <;> simp only [evalPure, h2, bind, Except.bind, ↓reduceIte]

theorem post_render_exec_tmp (ms : MacroSem) (hyb : Nat) (v : String) (t : CT) (op : String) (σ : MState)
    (x : BitVec t.width) (hv : lookupS v σ.locals = some (.bv t.width x)) (hne : isHTmp v = false) :
    ∃ σ', ExecIL ms (postPend hyb v t op).render σ σ' ∧
      lookupS (tmpName hyb) σ'.locals = some (.bv t.width x) ∧
      lookupS v σ'.locals = some (.bv t.width (postVal op x)) ∧
      (∀ k, k ≠ tmpName hyb → k ≠ v → lookupS k σ'.locals = lookupS k σ.locals) ∧
      σ'.mem = σ.mem ∧ σ'.new = σ.new ∧ σ'.written = σ.written := by
  refine ⟨_, post_render_exec ms hyb v t op σ x hv hne, ?_, ?_, ?_, rfl, rfl, rfl⟩
  · have hvt := tmpName_ne_of_not_htmp hne hyb
    simp only [lookupS_setLocal_ne (Ne.symm hvt), lookupS_setLocal_self]
  · simp only [lookupS_setLocal_self]
  · intro k h1 h2
    simp only [lookupS_setLocal_ne h2, lookupS_setLocal_ne h1]

/-- (5a, both sides) the C value of `v++` is what the temporary holds after rendering, and `v` ends up the same -/
theorem post_agrees (ms : MacroSem) (subs : CSubEnv) (hyb : Nat) (v : String) (t : CT) (op : String) (σ σC : MState)
    (val : Val) (fuel : Nat) (x : BitVec t.width) (hv : lookupS v σ.locals = some (.bv t.width x))
    (hne : isHTmp v = false) (hC : evalCH ms subs (fuel + 1) σ (.post v t op) = .ok (val, σC)) :
    ∃ σIL, ExecIL ms (postPend hyb v t op).render σ σIL ∧
      lookupS (tmpName hyb) σIL.locals = some val ∧
      (∀ k, k ≠ tmpName hyb → lookupS k σIL.locals = lookupS k σC.locals) := by
  simp only [evalCH, hv, bind, Except.bind, Except.ok.injEq, Prod.mk.injEq] at hC
  obtain ⟨rfl, rfl⟩ := hC
  obtain ⟨σ', h1, h2, h3, h4, _⟩ := post_render_exec_tmp ms hyb v t op σ x hv hne
  refine ⟨σ', h1, h2, ?_⟩
  intro k hk
  by_cases hkv : k = v
  · subst hkv; rw [h3, lookupS_setLocal_self]; rfl
  · rw [h4 k hk hkv, lookupS_setLocal_ne hkv]

/-- (5b) a guarded arm: not selected → nothing happens -/
theorem guard_then_false (ms : MacroSem) (c : ILPure) (ex : ILEffect) (σ : MState)
    (hc : evalPure ms σ [] c = .ok (.bool false)) : ExecIL ms (.branch c ex .empty) σ σ :=
  ExecIL_branch hc ExecIL_empty

theorem guard_else_true (ms : MacroSem) (c : ILPure) (ex : ILEffect) (σ : MState)
    (hc : evalPure ms σ [] c = .ok (.bool true)) : ExecIL ms (.branch c .empty ex) σ σ :=
  ExecIL_branch hc ExecIL_empty

theorem ExecIL_branch_inv {ms : MacroSem} {c : ILPure} {t e : ILEffect} {σ σ' : MState} {b : Bool}
    (hc : evalPure ms σ [] c = .ok (.bool b)) (h : ExecIL ms (.branch c t e) σ σ') :
    ExecIL ms (if b then t else e) σ σ' := by
  obtain ⟨F, h⟩ := h
  refine ⟨F, fun f hf => ?_⟩
  have := h (f + 1) (by omega)
  rw [execIL] at this
  simp only [hc, bind, Except.bind] at this
  cases b <;> simpa using this

/-- (5b) selected → exactly the statement runs -/
theorem guard_then_true (ms : MacroSem) (c : ILPure) (ex : ILEffect) (σ σ' : MState)
    (hc : evalPure ms σ [] c = .ok (.bool true)) :
    ExecIL ms (.branch c ex .empty) σ σ' ↔ ExecIL ms ex σ σ' :=
  ⟨fun h => by simpa using ExecIL_branch_inv hc h, fun h => ExecIL_branch hc (by simpa using h)⟩

theorem guard_else_false (ms : MacroSem) (c : ILPure) (ex : ILEffect) (σ σ' : MState)
    (hc : evalPure ms σ [] c = .ok (.bool false)) :
    ExecIL ms (.branch c .empty ex) σ σ' ↔ ExecIL ms ex σ σ' :=
  ⟨fun h => by simpa using ExecIL_branch_inv hc h, fun h => ExecIL_branch hc (by simpa using h)⟩

/-- (5b, compiler side) the `?:` wrapper really puts the statement of a statement-expression arm under the guard -/
theorem ternWrapThen_guards {s : HSt} {ca cc : CE} {n : String} (hg : gccTmpOf s ca = some n) :
    (ternWrapThen s ca cc).pending =
      s.pending.map (fun p => if p.tmp == n then { p with exec := .branch (condILk cc) p.exec .empty } else p) := by
  simp only [ternWrapThen, hg, wrapThen]

theorem ternWrapElse_guards {s : HSt} {cb cc : CE} {n : String} (hg : gccTmpOf s cb = some n) :
    (ternWrapElse s cb cc).pending =
      s.pending.map (fun p => if p.tmp == n then { p with exec := .branch (condILk cc) .empty p.exec } else p) := by
  simp only [ternWrapElse, hg, wrapElse]

/-- (5c) rendering a statement-expression entry: run the statement, then the temporary receives the value of `v` -/
theorem gcc_render_exec (ms : MacroSem) (hyb : Nat) (v : String) (stmt : ILEffect) (σ σ1 : MState) (x : Val)
    (h1 : ExecIL ms stmt σ σ1) (hv : lookupS v σ1.locals = some x) :
    ExecIL ms (gccPend hyb v stmt).render σ { σ1 with locals := setLocal σ1.locals (tmpName hyb) x } := by
  unfold Pend.render
  rw [mkSeq_exec]
  simp only [gccPend, List.nil_append, Bool.false_eq_true, ↓reduceIte]
  refine ExecSeqIL_cons (ExecIL_seqn.mpr ?_) ExecSeqIL_nil
  refine ExecSeqIL_cons h1 (ExecSeqIL_cons (ExecIL_setl (vv := x) ?_) ExecSeqIL_nil)
  simp only [evalPure, hv]

/-- (5c) with the plain inner declaration `T v = e;` (nothing pending inside): both `v` and the temporary hold the value -/
theorem gcc_render_plain (ms : MacroSem) (hyb : Nat) (v : String) (il : ILPure) (σ : MState) (x : Val)
    (he : evalPure ms σ [] il = .ok x) (hne : isHTmp v = false) :
    ∃ σ', ExecIL ms (gccPend hyb v (.setl v il)).render σ σ' ∧
      lookupS (tmpName hyb) σ'.locals = some x ∧ lookupS v σ'.locals = some x := by
  have hvt := tmpName_ne_of_not_htmp hne hyb
  refine ⟨_, gcc_render_exec ms hyb v (.setl v il) σ _ x (ExecIL_setl he) (lookupS_setLocal_self _ _ _), ?_, ?_⟩
  · exact lookupS_setLocal_self _ _ _
  · simp only [lookupS_setLocal_ne hvt, lookupS_setLocal_self]

end C06
end Rzil
