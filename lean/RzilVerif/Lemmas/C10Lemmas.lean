import RzilVerif.Model.ILSortAux
/-!
# Helper definitions and lemmas for C10 (soundness of the RzIL sort checker)
-/
namespace Rzil

/-! ## Predicates -/

/-- The run-time error is not a sort error. -/
def NotSort (e : Stuck) : Prop := ∀ msg, e ≠ .sort msg

/-- No run-time error is tolerated (used for progress + preservation). -/
def NoError (_ : Stuck) : Prop := False

/-- Result of evaluating a pure of static sort `s`: a value of sort `s`, or an error in the
    tolerated class `al`. -/
def ResOk (al : Stuck → Prop) (s : ILSort) : Except Stuck Val → Prop
  | .ok v => v.sort = s
  | .error e => al e

def ResOks (al : Stuck → Prop) (ss : List ILSort) : Except Stuck (List Val) → Prop
  | .ok vs => vs.map Val.sort = ss
  | .error e => al e

/-- Static/dynamic agreement of a name space, parameterised by what a missing run-time binding
    may be (`al (.unbound n)`). -/
def Agree (al : Stuck → Prop) (Γ : Locals) (vals : List (String × Val)) : Prop :=
  ∀ n s, lookupS n Γ = some s →
    match lookupS n vals with
    | some v => v.sort = s
    | none => al (.unbound n)

/-- Strong agreement: every statically known name is bound at run time, with that sort. -/
def LocalsAgree (Γ : Locals) (vals : List (String × Val)) : Prop :=
  ∀ n s, lookupS n Γ = some s → ∃ v, lookupS n vals = some v ∧ v.sort = s

/-- Weak agreement: every name bound at run time that is statically known has the static sort. -/
def WeakAgree (Γ : Locals) (vals : List (String × Val)) : Prop :=
  ∀ n s v, lookupS n Γ = some s → lookupS n vals = some v → v.sort = s

/-- Pure parameters: the run-time parameter list has exactly the declared names and sorts. -/
def ParamsAgree (P : Locals) (vals : List (String × Val)) : Prop :=
  ∀ n, (lookupS n vals).map Val.sort = lookupS n P

/-- `Γ ⊆ Δ` as finite maps. -/
def Sub (Γ Δ : Locals) : Prop := ∀ n s, lookupS n Γ = some s → lookupS n Δ = some s

/-- Oracle contract for the uninterpreted plugin macros: whenever the checker accepts
    `.macro f args` at sort `s` (in any environment with these macro signatures) and the argument
    values have the sorts computed by `sortsOf`, the oracle's answer has sort `s`
    (and a missing answer is a tolerated error). -/
def MacroOk (al : Stuck → Prop) (ms : MacroSem) (macros : List (String × MacroSig)) : Prop :=
  ∀ (env : SortEnv) (Γ Λ : Locals) (f : String) (args : List ILPure) (ss : List ILSort) (s : ILSort)
    (vs : List Val),
    env.macros = macros → sortsOf env Γ Λ args = .ok ss → sortOf env Γ Λ (.macro f args) = .ok s →
    vs.map Val.sort = ss →
    match ms f vs with
    | some v => v.sort = s
    | none => al (.undef f)

/-! ## `Except` plumbing -/

theorem bind_eq_ok {ε α β} {x : Except ε α} {f : α → Except ε β} {b : β} :
    (x >>= f) = .ok b ↔ ∃ a, x = .ok a ∧ f a = .ok b := by
  cases x with
  | error e => simp [bind, Except.bind]
  | ok a => simp [bind, Except.bind]

theorem ResOk.bind {al : Stuck → Prop} {s sa : ILSort} {x : Except Stuck Val}
    {f : Val → Except Stuck Val} (hx : ResOk al sa x) (hf : ∀ v, v.sort = sa → ResOk al s (f v)) :
    ResOk al s (x >>= f) := by
  cases x with
  | error e => exact hx
  | ok v => exact hf v hx

theorem ResOk.mono {al al' : Stuck → Prop} (h : ∀ e, al e → al' e) {s : ILSort}
    {r : Except Stuck Val} (hr : ResOk al s r) : ResOk al' s r := by
  cases r with
  | error e => exact h e hr
  | ok v => exact hr

theorem ResOk.noError {s : ILSort} {r : Except Stuck Val} :
    ResOk NoError s r ↔ ∃ v, r = .ok v ∧ v.sort = s := by
  cases r with
  | error e => simp [ResOk, NoError]
  | ok v => simp [ResOk]

theorem ResOk.notSort {s : ILSort} {r : Except Stuck Val} :
    ResOk NotSort s r ↔ (∀ msg, r ≠ .error (.sort msg)) ∧ (∀ v, r = .ok v → v.sort = s) := by
  cases r with
  | error e =>
    simp only [ResOk, NotSort, ne_eq, Except.error.injEq, reduceCtorEq, false_implies, implies_true,
      and_true]
  | ok v => simp [ResOk]

theorem notSort_unbound (n : String) : NotSort (.unbound n) := by intro msg h; cases h
theorem notSort_undef (n : String) : NotSort (.undef n) := by intro msg h; cases h
theorem notSort_fuel : NotSort .fuel := by intro msg h; cases h

/-! ## `lookupS` -/

@[simp] theorem lookupS_nil {α} (k : String) : lookupS k ([] : List (String × α)) = none := rfl

theorem lookupS_cons {α} (k k' : String) (v : α) (l : List (String × α)) :
    lookupS k ((k', v) :: l) = if k = k' then some v else lookupS k l := by
  simp [lookupS]

theorem lookupS_mem {α} {k : String} {v : α} {l : List (String × α)} (h : lookupS k l = some v) :
    (k, v) ∈ l := by
  induction l with
  | nil => simp at h
  | cons p l ih =>
    obtain ⟨k', v'⟩ := p
    rw [lookupS_cons] at h
    split at h
    · subst_vars; simp_all
    · exact List.mem_cons_of_mem _ (ih h)

theorem lookupS_filter_ne {α} (k n : String) (l : List (String × α)) (h : k ≠ n) :
    lookupS k (l.filter (fun p => p.1 != n)) = lookupS k l := by
  induction l with
  | nil => rfl
  | cons p l ih =>
    obtain ⟨k', v'⟩ := p
    by_cases hk : k' = n
    · subst hk
      simp [lookupS_cons, h, ih]
    · simp [lookupS_cons, hk, ih]

theorem lookupS_setLocal (k n : String) (v : Val) (l : List (String × Val)) :
    lookupS k (setLocal l n v) = if k = n then some v else lookupS k l := by
  unfold setLocal
  rw [lookupS_cons]
  split
  · rfl
  · next h => exact lookupS_filter_ne k n l h

/-! ## Agreement -/

theorem LocalsAgree_iff (Γ : Locals) (vals : List (String × Val)) :
    LocalsAgree Γ vals ↔ Agree NoError Γ vals := by
  constructor
  · intro h n s hn
    obtain ⟨v, hv, hs⟩ := h n s hn
    simp [hv, hs]
  · intro h n s hn
    have := h n s hn
    cases hv : lookupS n vals with
    | none => simp [hv, NoError] at this
    | some v => simp [hv] at this; exact ⟨v, rfl, this⟩

theorem WeakAgree_iff (Γ : Locals) (vals : List (String × Val)) :
    WeakAgree Γ vals ↔ Agree NotSort Γ vals := by
  constructor
  · intro h n s hn
    cases hv : lookupS n vals with
    | none => exact notSort_unbound n
    | some v => exact h n s v hn hv
  · intro h n s v hn hv
    have := h n s hn
    simpa [hv] using this

theorem LocalsAgree.weak {Γ : Locals} {vals : List (String × Val)} (h : LocalsAgree Γ vals) :
    WeakAgree Γ vals := by
  intro n s v hn hv
  obtain ⟨v', hv', hs⟩ := h n s hn
  rw [hv] at hv'; cases hv'; exact hs

theorem Agree.cons {al : Stuck → Prop} {Γ : Locals} {vals : List (String × Val)} (h : Agree al Γ vals)
    (n : String) {v : Val} {s : ILSort} (hv : v.sort = s) : Agree al ((n, s) :: Γ) ((n, v) :: vals) := by
  intro k t hk
  rw [lookupS_cons] at hk ⊢
  by_cases hkn : k = n
  · rw [if_pos hkn] at hk ⊢
    cases hk; exact hv
  · rw [if_neg hkn] at hk ⊢
    exact h k t hk

theorem Agree.nil (al : Stuck → Prop) (vals : List (String × Val)) : Agree al [] vals := by
  intro n s h; simp at h

theorem Agree.of_sub {Γ Δ : Locals} {vals : List (String × Val)} (h : WeakAgree Δ vals) (hs : Sub Γ Δ) :
    Agree NotSort Γ vals :=
  (WeakAgree_iff Γ vals).mp (fun n s v hn hv => h n s v (hs n s hn) hv)

theorem ParamsAgree.localsAgree {P : Locals} {vals : List (String × Val)} (h : ParamsAgree P vals) :
    LocalsAgree P vals := by
  intro n s hn
  have := h n
  rw [hn] at this
  cases hv : lookupS n vals with
  | none => simp [hv] at this
  | some v => simp [hv] at this; exact ⟨v, rfl, this⟩

theorem Sub.refl (Γ : Locals) : Sub Γ Γ := fun _ _ h => h
theorem Sub.trans {Γ Δ Θ : Locals} (h₁ : Sub Γ Δ) (h₂ : Sub Δ Θ) : Sub Γ Θ :=
  fun n s h => h₂ n s (h₁ n s h)

theorem WeakAgree.setLocal {Δ : Locals} {vals : List (String × Val)} (h : WeakAgree Δ vals)
    {n : String} {v : Val} (hv : ∀ s, lookupS n Δ = some s → v.sort = s) :
    WeakAgree Δ (setLocal vals n v) := by
  intro k s w hk hw
  rw [lookupS_setLocal] at hw
  split at hw
  · next hkn => subst hkn; cases hw; exact hv s hk
  · exact h k s w hk hw

/-! ## Operators -/

theorem evalUn_ok {op : UnOp} {a : Val} {sa s : ILSort} (ha : a.sort = sa)
    (h : unSort op sa = .ok s) : ∃ v, evalUn op a = .ok v ∧ v.sort = s := by
  subst ha
  cases op <;> cases a <;> simp [unSort, Val.sort] at h <;> subst h <;> simp [evalUn, Val.sort]

theorem evalBin_ok {op : BinOp} {a b : Val} {sa sb s : ILSort} (ha : a.sort = sa) (hb : b.sort = sb)
    (h : binSort op sa sb = .ok s) : ∃ v, evalBin op a b = .ok v ∧ v.sort = s := by
  subst ha hb
  cases a with
  | bv wa x =>
    cases b with
    | bv wb y =>
      simp only [Val.sort, binSort] at h
      by_cases hsh : isShift op = true
      · have hna : isArith op = false := by cases op <;> simp_all [isShift, isArith]
        simp only [hna, hsh, if_true, Bool.false_eq_true, if_false, Except.ok.injEq] at h
        subst h
        cases op <;> simp_all [isShift, evalBin, Val.sort]
      · by_cases har : isArith op = true
        · simp only [har, if_true] at h
          split at h
          · next hw =>
            have hw : wa = wb := by simpa using hw
            subst hw
            cases h
            cases op <;> simp_all [isShift, isArith, evalBin, Val.sort]
          · cases h
        · simp only [har, hsh, Bool.false_eq_true, if_false] at h
          split at h
          · next hc =>
            split at h
            · next hw =>
              have hw : wa = wb := by simpa using hw
              subst hw
              cases h
              cases op <;> simp_all [isShift, isArith, isCmp, evalBin, Val.sort]
            · cases h
          · cases h
    | bool y => simp [Val.sort, binSort] at h
    | flt w y => simp [Val.sort, binSort] at h
    | ext => simp [Val.sort, binSort] at h
  | bool x =>
    cases b with
    | bool y =>
      simp only [Val.sort, binSort] at h
      split at h
      · next ho =>
        cases h
        cases op <;> simp_all [evalBin, Val.sort]
      · cases h
    | bv w y => simp [Val.sort, binSort] at h
    | flt w y => simp [Val.sort, binSort] at h
    | ext => simp [Val.sort, binSort] at h
  | flt w x => cases b <;> simp [Val.sort, binSort] at h
  | ext => cases b <;> simp [Val.sort, binSort] at h

/-! ## Pures -/

theorem sortOf_un (env Γ Λ op a) : sortOf env Γ Λ (.un op a) = (sortOf env Γ Λ a >>= unSort op) := by
  rw [sortOf.eq_10]; rfl
theorem sortOf_bin (env Γ Λ op a b) : sortOf env Γ Λ (.bin op a b) =
   (sortOf env Γ Λ a >>= fun sa => sortOf env Γ Λ b >>= fun sb => binSort op sa sb) := by
  rw [sortOf.eq_11]; rfl

theorem ResOk.ofEx {al : Stuck → Prop} {s : ILSort} {r : Except Stuck Val}
    (h : ∃ v, r = .ok v ∧ v.sort = s) : ResOk al s r := by
  obtain ⟨v, rfl, hs⟩ := h; exact hs

theorem ResOks.bind {al : Stuck → Prop} {s : ILSort} {ss : List ILSort} {x : Except Stuck (List Val)}
    {f : List Val → Except Stuck Val} (hx : ResOks al ss x)
    (hf : ∀ vs, vs.map Val.sort = ss → ResOk al s (f vs)) : ResOk al s (x >>= f) := by
  cases x with
  | error e => exact hx
  | ok v => exact hf v hx

theorem sortOf_macro_args {env Γ Λ f args s} (h : sortOf env Γ Λ (.macro f args) = .ok s) :
    ∃ ss, sortsOf env Γ Λ args = .ok ss := by
  rw [sortOf.eq_20] at h
  cases h' : sortsOf env Γ Λ args with
  | ok ss => exact ⟨ss, rfl⟩
  | error e => rw [h'] at h; simp [bind, Except.bind] at h


mutual
theorem sortOf_sound_gen (al : Stuck → Prop) (ms : MacroSem) (env : SortEnv) (σ : MState) (Γ : Locals)
    (hP : ParamsAgree env.params σ.params) (hM : MacroOk al ms env.macros)
    (hΓ : Agree al Γ σ.locals) : ∀ (p : ILPure) (Λ : Locals) (lets : List (String × Val)) (s : ILSort),
    sortOf env Γ Λ p = .ok s → Agree al Λ lets → ResOk al s (evalPure ms σ lets p)
  | .const sn w v, Λ, lets, s, hs, hΛ => by
    rw [sortOf.eq_1] at hs
    split at hs
    · cases hs
    · cases hs; rw [evalPure.eq_1]; rfl
  | .imm sn w c l, Λ, lets, s, hs, hΛ => by
    rw [sortOf.eq_2] at hs; cases hs; rw [evalPure.eq_2]; rfl
  | .btrue, Λ, lets, s, hs, hΛ => by
    rw [sortOf.eq_3] at hs; cases hs; rw [evalPure.eq_3]; rfl
  | .bfalse, Λ, lets, s, hs, hΛ => by
    rw [sortOf.eq_4] at hs; cases hs; rw [evalPure.eq_4]; rfl
  | .varl n, Λ, lets, s, hs, hΛ => by
    rw [sortOf.eq_5] at hs
    rw [evalPure.eq_5]
    cases hl : lookupS n Γ with
    | none => rw [hl] at hs; cases hs
    | some s' =>
      rw [hl] at hs; cases hs
      have := hΓ n s hl
      cases hv : lookupS n σ.locals with
      | none => rw [hv] at this; exact this
      | some v => rw [hv] at this; exact this
  | .varlp n, Λ, lets, s, hs, hΛ => by
    rw [sortOf.eq_6] at hs
    rw [evalPure.eq_6]
    cases hl : lookupS n Λ with
    | none => rw [hl] at hs; cases hs
    | some s' =>
      rw [hl] at hs; cases hs
      have := hΛ n s hl
      cases hv : lookupS n lets with
      | none => rw [hv] at this; exact this
      | some v => rw [hv] at this; exact this
  | .readReg r nw, Λ, lets, s, hs, hΛ => by
    rw [sortOf.eq_7] at hs
    rw [evalPure.eq_7]
    cases hw : regWidthOfOpvar r.opvar with
    | none => rw [hw] at hs; cases hs
    | some w => rw [hw] at hs; cases hs; rfl
  | .pktAddr, Λ, lets, s, hs, hΛ => by
    rw [sortOf.eq_8] at hs; cases hs; rw [evalPure.eq_8]; rfl
  | .param n, Λ, lets, s, hs, hΛ => by
    rw [sortOf.eq_9] at hs
    rw [evalPure.eq_9]
    have hp := hP n
    cases hl : lookupS n env.params with
    | some s' =>
      rw [hl] at hs hp; cases hs
      cases hv : lookupS n σ.params with
      | none => rw [hv] at hp; cases hp
      | some v => rw [hv] at hp; simpa [ResOk] using hp
    | none =>
      rw [hl] at hs hp
      cases hv : lookupS n σ.params with
      | some v => rw [hv] at hp; cases hp
      | none =>
        dsimp only at hs ⊢
        split at hs
        · next hc => cases hs; rw [if_pos hc]; rfl
        · cases hs
  | .un op a, Λ, lets, s, hs, hΛ => by
    rw [sortOf_un] at hs
    obtain ⟨sa, ha, hs⟩ := bind_eq_ok.mp hs
    rw [evalPure.eq_10]
    exact ResOk.bind (sortOf_sound_gen al ms env σ Γ hP hM hΓ a Λ lets sa ha hΛ) (fun v hv => ResOk.ofEx (evalUn_ok hv hs))
  | .bin op a b, Λ, lets, s, hs, hΛ => by
    rw [sortOf_bin] at hs
    obtain ⟨sa, ha, hs⟩ := bind_eq_ok.mp hs
    obtain ⟨sb, hb, hs⟩ := bind_eq_ok.mp hs
    rw [evalPure.eq_11]
    exact ResOk.bind (sortOf_sound_gen al ms env σ Γ hP hM hΓ a Λ lets sa ha hΛ) (fun va hva =>
      ResOk.bind (sortOf_sound_gen al ms env σ Γ hP hM hΓ b Λ lets sb hb hΛ) (fun vb hvb =>
        ResOk.ofEx (evalBin_ok hva hvb hs)))
  | .cast w f a, Λ, lets, s, hs, hΛ => by
    rw [sortOf.eq_12] at hs
    obtain ⟨sf, hf, hs⟩ := bind_eq_ok.mp hs
    obtain ⟨sa, ha, hs⟩ := bind_eq_ok.mp hs
    rw [evalPure.eq_12]
    refine ResOk.bind (sortOf_sound_gen al ms env σ Γ hP hM hΓ f Λ lets sf hf hΛ) (fun vf hvf =>
      ResOk.bind (sortOf_sound_gen al ms env σ Γ hP hM hΓ a Λ lets sa ha hΛ) (fun va hva => ?_))
    subst hvf hva
    cases vf <;> cases va <;> simp [Val.sort] at hs ⊢
    split at hs
    · cases hs
    · cases hs; rfl
  | .signed w a, Λ, lets, s, hs, hΛ => by
    rw [sortOf.eq_13] at hs
    obtain ⟨sa, ha, hs⟩ := bind_eq_ok.mp hs
    rw [evalPure.eq_13]
    refine ResOk.bind (sortOf_sound_gen al ms env σ Γ hP hM hΓ a Λ lets sa ha hΛ) (fun va hva => ?_)
    subst hva
    cases va <;> simp [Val.sort] at hs ⊢
    cases hs; rfl
  | .unsigned w a, Λ, lets, s, hs, hΛ => by
    rw [sortOf.eq_14] at hs
    obtain ⟨sa, ha, hs⟩ := bind_eq_ok.mp hs
    rw [evalPure.eq_14]
    refine ResOk.bind (sortOf_sound_gen al ms env σ Γ hP hM hΓ a Λ lets sa ha hΛ) (fun va hva => ?_)
    subst hva
    cases va <;> simp [Val.sort] at hs ⊢
    cases hs; rfl
  | .ite c a b, Λ, lets, s, hs, hΛ => by
    rw [sortOf.eq_15] at hs
    obtain ⟨sc, hc, hs⟩ := bind_eq_ok.mp hs
    obtain ⟨sa, ha, hs⟩ := bind_eq_ok.mp hs
    obtain ⟨sb, hb, hs⟩ := bind_eq_ok.mp hs
    rw [evalPure.eq_15]
    refine ResOk.bind (sortOf_sound_gen al ms env σ Γ hP hM hΓ c Λ lets sc hc hΛ) (fun vc hvc =>
      ResOk.bind (sortOf_sound_gen al ms env σ Γ hP hM hΓ a Λ lets sa ha hΛ) (fun va hva =>
      ResOk.bind (sortOf_sound_gen al ms env σ Γ hP hM hΓ b Λ lets sb hb hΛ) (fun vb hvb => ?_)))
    split at hs
    · cases hs
    · next h1 =>
      split at hs
      · cases hs
      · next h2 =>
        cases hs
        simp at h1 h2
        subst h1 h2
        cases vc <;> simp [Val.sort] at hvc
        rename_i cb
        simp only [hva, hvb, beq_self_eq_true, if_true]
        cases cb <;> simp [ResOk, hva, hvb]
  | .let_ n v body, Λ, lets, s, hs, hΛ => by
    rw [sortOf.eq_16] at hs
    obtain ⟨sv, hv, hs⟩ := bind_eq_ok.mp hs
    rw [evalPure.eq_16]
    exact ResOk.bind (sortOf_sound_gen al ms env σ Γ hP hM hΓ v Λ lets sv hv hΛ) (fun vv hvv =>
      sortOf_sound_gen al ms env σ Γ hP hM hΓ body ((n, sv) :: Λ) ((n, vv) :: lets) s hs (hΛ.cons n hvv))
  | .loadw n a, Λ, lets, s, hs, hΛ => by
    rw [sortOf.eq_17] at hs
    obtain ⟨sa, ha, hs⟩ := bind_eq_ok.mp hs
    rw [evalPure.eq_17]
    refine ResOk.bind (sortOf_sound_gen al ms env σ Γ hP hM hΓ a Λ lets sa ha hΛ) (fun va hva => ?_)
    subst hva
    cases va <;> simp [Val.sort] at hs ⊢
    split at hs
    · cases hs
    · cases hs; rfl
  | .inc a w, Λ, lets, s, hs, hΛ => by
    rw [sortOf.eq_18] at hs
    obtain ⟨sa, ha, hs⟩ := bind_eq_ok.mp hs
    rw [evalPure.eq_18]
    refine ResOk.bind (sortOf_sound_gen al ms env σ Γ hP hM hΓ a Λ lets sa ha hΛ) (fun va hva => ?_)
    subst hva
    split at hs
    · next h1 =>
      cases hs
      simp at h1
      cases va <;> simp [Val.sort] at h1
      subst h1
      simp [ResOk, Val.sort]
    · cases hs
  | .dec a w, Λ, lets, s, hs, hΛ => by
    rw [sortOf.eq_19] at hs
    obtain ⟨sa, ha, hs⟩ := bind_eq_ok.mp hs
    rw [evalPure.eq_19]
    refine ResOk.bind (sortOf_sound_gen al ms env σ Γ hP hM hΓ a Λ lets sa ha hΛ) (fun va hva => ?_)
    subst hva
    split at hs
    · next h1 =>
      cases hs
      simp at h1
      cases va <;> simp [Val.sort] at h1
      subst h1
      simp [ResOk, Val.sort]
    · cases hs
  | .macro f args, Λ, lets, s, hs, hΛ => by
    obtain ⟨ss, hss⟩ := sortOf_macro_args hs
    rw [evalPure.eq_20]
    refine ResOks.bind (sortsOf_sound_gen al ms env σ Γ hP hM hΓ args Λ lets ss hss hΛ) (fun vs hvs => ?_)
    have := hM env Γ Λ f args ss s vs rfl hss hs hvs
    cases hm : ms f vs with
    | none => rw [hm] at this; exact this
    | some v => rw [hm] at this; exact this
  | .ext t, Λ, lets, s, hs, hΛ => by
    rw [sortOf.eq_21] at hs; cases hs; rw [evalPure.eq_21]; rfl
theorem sortsOf_sound_gen (al : Stuck → Prop) (ms : MacroSem) (env : SortEnv) (σ : MState) (Γ : Locals)
    (hP : ParamsAgree env.params σ.params) (hM : MacroOk al ms env.macros)
    (hΓ : Agree al Γ σ.locals) : ∀ (ps : List ILPure) (Λ : Locals) (lets : List (String × Val)) (ss : List ILSort),
    sortsOf env Γ Λ ps = .ok ss → Agree al Λ lets → ResOks al ss (evalPures ms σ lets ps)
  | [], Λ, lets, ss, hs, hΛ => by
    rw [sortsOf.eq_1] at hs; cases hs; rw [evalPures.eq_1]; rfl
  | a :: as, Λ, lets, ss, hs, hΛ => by
    rw [sortsOf.eq_2] at hs
    obtain ⟨s, ha, hs⟩ := bind_eq_ok.mp hs
    obtain ⟨ss', has, hs⟩ := bind_eq_ok.mp hs
    cases hs
    rw [evalPures.eq_2]
    have h1 := sortOf_sound_gen al ms env σ Γ hP hM hΓ a Λ lets s ha hΛ
    have h2 := sortsOf_sound_gen al ms env σ Γ hP hM hΓ as Λ lets ss' has hΛ
    cases hv : evalPure ms σ lets a with
    | error e => rw [hv] at h1; exact h1
    | ok v =>
      rw [hv] at h1
      cases hvs : evalPures ms σ lets as with
      | error e => rw [hvs] at h2; exact h2
      | ok vs =>
        rw [hvs] at h2
        show (v :: vs).map Val.sort = s :: ss'
        simp only [List.map_cons]
        rw [show v.sort = s from h1, show vs.map Val.sort = ss' from h2]
end

/-! ## Checker monotonicity -/

theorem bindLocal_ok {Γ Γ' : Locals} {n : String} {s : ILSort} (h : bindLocal Γ n s = .ok Γ') :
    Sub Γ Γ' ∧ lookupS n Γ' = some s := by
  unfold bindLocal at h
  cases hl : lookupS n Γ with
  | some s' =>
    rw [hl] at h
    dsimp only at h
    split at h
    · next he =>
      cases h
      have : s' = s := by simpa using he
      subst this
      exact ⟨Sub.refl _, hl⟩
    · cases h
  | none =>
    rw [hl] at h
    cases h
    refine ⟨?_, by simp [lookupS_cons]⟩
    intro k t hk
    rw [lookupS_cons]
    split
    · next hkn => subst hkn; rw [hl] at hk; cases hk
    · exact hk

theorem mergeLocals_ok : ∀ (b a c : Locals), mergeLocals a b = .ok c →
    Sub a c ∧ ∀ n s, (n, s) ∈ b → lookupS n c = some s
  | [], a, c, h => by
    rw [mergeLocals] at h; cases h
    exact ⟨Sub.refl _, by simp⟩
  | (n, s) :: rest, a, c, h => by
    rw [mergeLocals] at h
    obtain ⟨a', ha', h⟩ := bind_eq_ok.mp h
    obtain ⟨h1, h2⟩ := bindLocal_ok ha'
    obtain ⟨h3, h4⟩ := mergeLocals_ok rest a' c h
    refine ⟨h1.trans h3, ?_⟩
    intro k t hk
    rcases List.mem_cons.mp hk with hk | hk
    · cases hk; exact h3 _ _ h2
    · exact h4 k t hk

theorem mergeLocals_sub {a b c : Locals} (h : mergeLocals a b = .ok c) : Sub a c ∧ Sub b c :=
  ⟨(mergeLocals_ok b a c h).1, fun n s hn => (mergeLocals_ok b a c h).2 n s (lookupS_mem hn)⟩

theorem lookupS_append_left {α : Type} {n : String} {s : α} : ∀ {a b : List (String × α)},
    lookupS n a = some s → lookupS n (a ++ b) = some s
  | [], _, h => by simp [lookupS] at h
  | (k, v) :: a, b, h => by
    rw [List.cons_append, lookupS_cons] at *
    split
    · next hk => rw [if_pos hk] at h; exact h
    · next hk => rw [if_neg hk] at h; exact lookupS_append_left h

theorem sub_callLocals (f : String) (l : Locals) : Sub l (callLocals f l) := by
  unfold callLocals
  split
  · exact fun n s h => lookupS_append_left h
  · exact Sub.refl _

mutual
theorem wfEffect_mono (env : SortEnv) : ∀ (e : ILEffect) (Γ Γ' : Locals), wfEffect env Γ e = .ok Γ' → Sub Γ Γ'
  | .setl n v, Γ, Γ', h => by
    rw [wfEffect.eq_1] at h
    obtain ⟨s, _, h⟩ := bind_eq_ok.mp h
    split at h
    · cases h
    · exact (bindLocal_ok h).1
  | .writeReg c r v, Γ, Γ', h => by
    rw [wfEffect.eq_2] at h
    obtain ⟨s, _, h⟩ := bind_eq_ok.mp h
    split at h
    · cases h
    · split at h
      · cases h; exact Sub.refl _
      · cases h
  | .storew a v, Γ, Γ', h => by
    rw [wfEffect.eq_3] at h
    obtain ⟨sa, _, h⟩ := bind_eq_ok.mp h
    obtain ⟨sv, _, h⟩ := bind_eq_ok.mp h
    split at h
    · cases h; exact Sub.refl _
    · cases h
  | .seqn es, Γ, Γ', h => by
    rw [wfEffect.eq_4] at h
    exact wfEffects_mono env es Γ Γ' h
  | .branch c t e, Γ, Γ', h => by
    rw [wfEffect.eq_5] at h
    obtain ⟨sc, _, h⟩ := bind_eq_ok.mp h
    split at h
    · cases h
    · obtain ⟨lt, ht, h⟩ := bind_eq_ok.mp h
      obtain ⟨le, he, h⟩ := bind_eq_ok.mp h
      exact (wfEffect_mono env t Γ lt ht).trans (mergeLocals_sub h).1
  | .repeat_ c body, Γ, Γ', h => by
    rw [wfEffect.eq_6] at h
    obtain ⟨sc, _, h⟩ := bind_eq_ok.mp h
    split at h
    · cases h
    · obtain ⟨l1, h1, h⟩ := bind_eq_ok.mp h
      obtain ⟨sc2, _, h⟩ := bind_eq_ok.mp h
      split at h
      · cases h
      · exact (wfEffect_mono env body Γ l1 h1).trans (wfEffect_mono env body l1 Γ' h)
  | .empty, Γ, Γ', h => by rw [wfEffect.eq_7] at h; cases h; exact Sub.refl _
  | .nop, Γ, Γ', h => by rw [wfEffect.eq_8] at h; cases h; exact Sub.refl _
  | .call f args, Γ, Γ', h => by
    rw [wfEffect.eq_9] at h
    obtain ⟨ss, _, h⟩ := bind_eq_ok.mp h
    split at h
    · split at h
      · cases h
      · split at h
        · cases h
        · dsimp only at h
          split at h
          · cases h
          · exact (mergeLocals_sub h).1
    · split at h
      · exact (bindLocal_ok h).1
      · split at h
        · cases h; exact Sub.refl _
        · cases h
theorem wfEffects_mono (env : SortEnv) : ∀ (es : List ILEffect) (Γ Γ' : Locals), wfEffects env Γ es = .ok Γ' → Sub Γ Γ'
  | [], Γ, Γ', h => by rw [wfEffects.eq_1] at h; cases h; exact Sub.refl _
  | e :: es, Γ, Γ', h => by
    rw [wfEffects.eq_2] at h
    obtain ⟨l, hl, h⟩ := bind_eq_ok.mp h
    exact (wfEffect_mono env e Γ l hl).trans (wfEffects_mono env es l Γ' h)
end

/-! ## Effects -/

/-- Outcome of executing an effect from `σ`, relative to a fixed static map `Δ`: a state whose
    locals weakly agree with `Δ` and whose parameters are those of `σ`, or a non-sort error. -/
def ExecOk (Δ : Locals) (σ : MState) : Except Stuck MState → Prop
  | .ok σ' => WeakAgree Δ σ'.locals ∧ σ'.params = σ.params
  | .error e => NotSort e

/-- `HEX_STORE_SLOT_CANCELLED` writes the boolean pseudo-local `$slot_cancelled` without the checker
    tracking it: the static map must not give that name another sort. -/
def SlotOk (Δ : Locals) : Prop := ∀ s, lookupS "$slot_cancelled" Δ = some s → s = .bool

/-- Contract relating compiled sub-routine bodies to the signatures the checker uses at call sites:
    every body is itself accepted (from some initial locals) under its parameter sorts, and the
    locals it leaves are contained in the signature's `locals`. -/
def SubsOk (macros : List (String × MacroSig)) (sigs : List (String × SubSig)) (subs : SubEnv) : Prop :=
  ∀ name sig ps body, lookupS name sigs = some sig → lookupS name subs = some (ps, body) →
    ∃ Γ0 Γb, wfEffect (subEnv macros sigs ps sig) Γ0 body = .ok Γb ∧ Sub Γb sig.locals

/-- the specification-level `hex_set_usr_field` changes neither locals nor parameters and never hits a sort error -/
theorem setUsrFieldIL_execOk {Δ : Locals} {σ : MState} {args : List ILPure} {vs : List Val}
    (hW : WeakAgree Δ σ.locals) : ExecOk Δ σ (setUsrFieldIL σ args vs) := by
  unfold setUsrFieldIL
  split
  · unfold writeUsr
    split
    · split
      · exact ⟨hW, rfl⟩
      · exact notSort_undef _
    · exact notSort_undef _
  · exact notSort_undef _

theorem ExecOk.spec {Δ : Locals} {σ : MState} {r : Except Stuck MState} (h : ExecOk Δ σ r) :
    (∀ msg, r ≠ .error (.sort msg)) ∧
    (∀ σ', r = .ok σ' → WeakAgree Δ σ'.locals ∧ σ'.params = σ.params) := by
  cases r with
  | error err =>
    refine ⟨fun msg hm => h msg ?_, fun σ' hσ => ?_⟩
    · cases hm; rfl
    · cases hσ
  | ok σ'' =>
    refine ⟨fun msg hm => ?_, fun σ' hσ => ?_⟩
    · cases hm
    · cases hσ; exact h

theorem ExecOk.bind {Δ : Locals} {σ : MState} {x : Except Stuck MState} {f : MState → Except Stuck MState}
    (hx : ExecOk Δ σ x)
    (hf : ∀ σ', WeakAgree Δ σ'.locals → σ'.params = σ.params → ExecOk Δ σ' (f σ')) :
    ExecOk Δ σ (x >>= f) := by
  cases x with
  | error e => exact hx
  | ok σ' =>
    have := hf σ' hx.1 hx.2
    show ExecOk Δ σ (f σ')
    cases hr : f σ' with
    | error e => rw [hr] at this; exact this
    | ok σ'' => rw [hr] at this; exact ⟨this.1, this.2.trans hx.2⟩

theorem ExecOk.pureBind {Δ : Locals} {σ : MState} {s : ILSort} {x : Except Stuck Val}
    {f : Val → Except Stuck MState} (hx : ResOk NotSort s x)
    (hf : ∀ v, v.sort = s → ExecOk Δ σ (f v)) : ExecOk Δ σ (x >>= f) := by
  cases x with
  | error e => exact hx
  | ok v => exact hf v hx

theorem ExecOk.puresBind {Δ : Locals} {σ : MState} {ss : List ILSort} {x : Except Stuck (List Val)}
    {f : List Val → Except Stuck MState} (hx : ResOks NotSort ss x)
    (hf : ∀ vs, vs.map Val.sort = ss → ExecOk Δ σ (f vs)) : ExecOk Δ σ (x >>= f) := by
  cases x with
  | error e => exact hx
  | ok v => exact hf v hx

theorem lookupS_zip_map {α β} (f : α → β) (n : String) : ∀ (ps : List String) (vs : List α),
    (lookupS n (ps.zip vs)).map f = lookupS n (ps.zip (vs.map f))
  | [], vs => by simp
  | p :: ps, [] => by simp
  | p :: ps, v :: vs => by
    simp only [List.zip_cons_cons, List.map_cons, lookupS_cons]
    split
    · rfl
    · exact lookupS_zip_map f n ps vs

theorem args_match : ∀ (params : List (Option ILSort)) (ss : List ILSort),
    params.length = ss.length →
    (∀ p s, (p, s) ∈ params.zip ss → (p = none → s = .ext) ∧ (∀ ps, p = some ps → ps = s)) →
    ss = params.map (fun p => p.getD .ext)
  | [], [], _, _ => rfl
  | [], _ :: _, h, _ => by simp at h
  | _ :: _, [], h, _ => by simp at h
  | p :: params, s :: ss, hlen, h => by
    have h1 := h p s (by simp)
    have h2 := args_match params ss (by simpa using hlen) (fun p' s' hm => h p' s' (by simp [hm]))
    rw [List.map_cons, ← h2]
    cases p with
    | none => rw [h1.1 rfl]; rfl
    | some ps => rw [h1.2 ps rfl]; rfl


theorem exec_sound_aux (ms : MacroSem) (subs : SubEnv) (macros : List (String × MacroSig))
    (sigs : List (String × SubSig)) (Δ : Locals) (hM : MacroOk NotSort ms macros) :
    ∀ fuel : Nat,
      (∀ (e : ILEffect) (env : SortEnv) (Γ Γ' : Locals) (σ : MState),
        env.macros = macros → env.subs = sigs →
        (noCalls e = true ∨ (SubsOk macros sigs subs ∧ SlotOk Δ)) →
        wfEffect env Γ e = .ok Γ' → Sub Γ' Δ → WeakAgree Δ σ.locals →
        ParamsAgree env.params σ.params → ExecOk Δ σ (execIL ms subs fuel e σ)) ∧
      (∀ (es : List ILEffect) (env : SortEnv) (Γ Γ' : Locals) (σ : MState),
        env.macros = macros → env.subs = sigs →
        (noCallsList es = true ∨ (SubsOk macros sigs subs ∧ SlotOk Δ)) →
        wfEffects env Γ es = .ok Γ' → Sub Γ' Δ → WeakAgree Δ σ.locals →
        ParamsAgree env.params σ.params → ExecOk Δ σ (execSeq ms subs fuel es σ)) := by
  intro fuel
  induction fuel with
  | zero =>
    refine ⟨?_, ?_⟩
    · intro e env Γ Γ' σ _ _ _ _ _ _ _
      rw [execIL.eq_1]; exact notSort_fuel
    · intro es env Γ Γ' σ _ _ _ _ _ _ _
      rw [execSeq.eq_1]; exact notSort_fuel
  | succ fuel ih =>
    obtain ⟨ihE, ihS⟩ := ih
    refine ⟨?_, ?_⟩
    · intro e env Γ Γ' σ hmac hsub hc hwf hΔ hW hP
      have hΓΔ : Sub Γ Δ := (wfEffect_mono env e Γ Γ' hwf).trans hΔ
      have pureOk : ∀ (Γ₁ : Locals), Sub Γ₁ Δ → ∀ p s, sortOf env Γ₁ [] p = .ok s →
          ResOk NotSort s (evalPure ms σ [] p) := fun Γ₁ h₁ p s hs =>
        sortOf_sound_gen NotSort ms env σ Γ₁ hP (hmac ▸ hM) (Agree.of_sub hW h₁) p [] [] s hs
          (Agree.nil _ _)
      cases e with
      | setl n v =>
        rw [wfEffect.eq_1] at hwf
        obtain ⟨s, hs, hwf⟩ := bind_eq_ok.mp hwf
        rw [execIL.eq_2]
        refine ExecOk.pureBind (pureOk Γ hΓΔ v s hs) (fun vv hvv => ?_)
        have hb : bindLocal Γ n s = .ok Γ' := by
          split at hwf
          · cases hwf
          · exact hwf
        have hn := hΔ n s (bindLocal_ok hb).2
        refine ⟨WeakAgree.setLocal hW (fun t ht => ?_), rfl⟩
        rw [hn] at ht; cases ht; exact hvv
      | writeReg c r v =>
        rw [wfEffect.eq_2] at hwf
        obtain ⟨s, hs, hwf⟩ := bind_eq_ok.mp hwf
        rw [execIL.eq_3]
        refine ExecOk.pureBind (pureOk Γ hΓΔ v s hs) (fun vv hvv => ?_)
        cases hw : regWidthOfOpvar r.opvar with
        | none => rw [hw] at hwf; cases hwf
        | some w =>
          rw [hw] at hwf
          dsimp only at hwf
          split at hwf
          · next hsw =>
            have hsw : s = .bv w := by simpa using hsw
            subst hsw
            cases vv <;> simp [Val.sort] at hvv
            subst hvv
            simp only [if_true]
            exact ⟨hW, rfl⟩
          · cases hwf
      | storew a v =>
        rw [wfEffect.eq_3] at hwf
        obtain ⟨sa, hsa, hwf⟩ := bind_eq_ok.mp hwf
        obtain ⟨sv, hsv, hwf⟩ := bind_eq_ok.mp hwf
        rw [execIL.eq_4]
        refine ExecOk.pureBind (pureOk Γ hΓΔ a sa hsa) (fun va hva => ?_)
        refine ExecOk.pureBind (pureOk Γ hΓΔ v sv hsv) (fun vv hvv => ?_)
        subst hva hvv
        cases va <;> cases vv <;> simp [Val.sort] at hwf ⊢
        exact ⟨hW, rfl⟩
      | seqn es =>
        rw [wfEffect.eq_4] at hwf
        rw [execIL.eq_5]
        exact ihS es env Γ Γ' σ hmac hsub (hc.imp (fun h => by simpa [noCalls] using h) id) hwf hΔ hW hP
      | branch c t e =>
        rw [wfEffect.eq_5] at hwf
        obtain ⟨sc, hsc, hwf⟩ := bind_eq_ok.mp hwf
        split at hwf
        · cases hwf
        · next hb =>
          have hb : sc = .bool := by simpa using hb
          subst hb
          obtain ⟨lt, ht, hwf⟩ := bind_eq_ok.mp hwf
          obtain ⟨le, he, hwf⟩ := bind_eq_ok.mp hwf
          have hm := mergeLocals_sub hwf
          rw [execIL.eq_6]
          refine ExecOk.pureBind (pureOk Γ hΓΔ c _ hsc) (fun vc hvc => ?_)
          cases vc <;> simp [Val.sort] at hvc
          rename_i cb
          cases cb
          · exact ihE e env Γ le σ hmac hsub
              (hc.imp (fun h => by simp [noCalls] at h; exact h.2) id) he (hm.2.trans hΔ) hW hP
          · exact ihE t env Γ lt σ hmac hsub
              (hc.imp (fun h => by simp [noCalls] at h; exact h.1) id) ht (hm.1.trans hΔ) hW hP
      | repeat_ c body =>
        have hwf0 := hwf
        rw [wfEffect.eq_6] at hwf
        obtain ⟨sc, hsc, hwf⟩ := bind_eq_ok.mp hwf
        split at hwf
        · cases hwf
        · next hb =>
          have hb : sc = .bool := by simpa using hb
          subst hb
          obtain ⟨l1, h1, hwf⟩ := bind_eq_ok.mp hwf
          obtain ⟨sc2, hsc2, hwf⟩ := bind_eq_ok.mp hwf
          split at hwf
          · cases hwf
          · have hl1 : Sub l1 Δ := (wfEffect_mono env body l1 Γ' hwf).trans hΔ
            rw [execIL.eq_7]
            refine ExecOk.pureBind (pureOk Γ hΓΔ c _ hsc) (fun vc hvc => ?_)
            cases vc <;> simp [Val.sort] at hvc
            rename_i cb
            cases cb
            · exact ⟨hW, rfl⟩
            · refine ExecOk.bind (ihE body env Γ l1 σ hmac hsub
                (hc.imp (fun h => by simpa [noCalls] using h) id) h1 hl1 hW hP) (fun σ' hW' hp' => ?_)
              exact ihE (.repeat_ c body) env Γ Γ' σ' hmac hsub hc hwf0 hΔ hW' (hp' ▸ hP)
      | empty =>
        rw [wfEffect.eq_7] at hwf; rw [execIL.eq_8]; exact ⟨hW, rfl⟩
      | nop =>
        rw [wfEffect.eq_8] at hwf; rw [execIL.eq_9]; exact ⟨hW, rfl⟩
      | call f args =>
        obtain ⟨hS, hslot⟩ : SubsOk macros sigs subs ∧ SlotOk Δ := by
          rcases hc with h | h
          · simp [noCalls] at h
          · exact h
        rw [wfEffect.eq_9] at hwf
        obtain ⟨ss, hss, hwf1⟩ := bind_eq_ok.mp hwf
        clear hwf
        rw [execIL.eq_10]
        have hargs := sortsOf_sound_gen NotSort ms env σ Γ hP (hmac ▸ hM) (Agree.of_sub hW hΓΔ)
          args [] [] ss hss (Agree.nil _ _)
        refine ExecOk.puresBind hargs (fun vs hvs => ?_)
        by_cases hhex : f.startsWith "hex_" = true
        · rw [if_pos hhex] at hwf1 ⊢
          cases hsig : lookupS (f.drop 4).toString env.subs with
          | none => rw [hsig] at hwf1; cases hwf1
          | some sig =>
            rw [hsig] at hwf1
            dsimp only at hwf1
            split at hwf1
            · cases hwf1
            · next hlen =>
              split at hwf1
              · cases hwf1
              · next hbad =>
                cases hbody : lookupS (f.drop 4).toString subs with
                | none =>
                  dsimp only
                  split
                  · exact setUsrFieldIL_execOk hW
                  · split
                    · next hg =>
                      -- the checker merged `ret_val : bv 64` into its locals for this callee (`callLocals`)
                      have hret : lookupS "ret_val" Δ = some (.bv 64) := by
                        refine hΔ _ _ ((mergeLocals_ok _ _ _ hwf1).2 "ret_val" (.bv 64) ?_)
                        simp [callLocals, hg]
                      unfold getUsrFieldIL
                      split
                      · refine ⟨WeakAgree.setLocal hW (fun t ht => ?_), rfl⟩
                        rw [hret] at ht; cases ht; rfl
                      · exact notSort_undef _
                    · exact notSort_undef f
                | some pb =>
                  obtain ⟨ps, body⟩ := pb
                  dsimp only
                  obtain ⟨Γ0, Γb, hwb, hΓb⟩ := hS _ sig ps body (hsub ▸ hsig) hbody
                  have hm := mergeLocals_sub hwf1
                  have hlen' : sig.params.length = ss.length := by simpa using hlen
                  have hss' : ss = sigArgSorts sig := by
                    refine args_match sig.params ss hlen' (fun p s hmem => ?_)
                    have := List.find?_eq_none.mp hbad (p, s) hmem
                    constructor
                    · intro hp; subst hp; simpa using this
                    · intro ps' hp; subst hp; simpa using this
                  have hPb : ParamsAgree (subEnv macros sigs ps sig).params (ps.zip vs) := by
                    intro n
                    show (lookupS n (ps.zip vs)).map Val.sort = lookupS n (ps.zip (sigArgSorts sig))
                    rw [lookupS_zip_map, hvs, hss']
                  have hb := ihE body (subEnv macros sigs ps sig) Γ0 Γb
                    { σ with params := ps.zip vs } rfl rfl (Or.inr ⟨hS, hslot⟩) hwb
                    ((hΓb.trans ((sub_callLocals f _).trans hm.2)).trans hΔ) hW hPb
                  cases hr : execIL ms subs fuel body { σ with params := ps.zip vs } with
                  | error e => rw [hr] at hb; exact hb
                  | ok σ' => rw [hr] at hb; exact ⟨hb.1, rfl⟩
        · rw [if_neg hhex] at hwf1 ⊢
          by_cases hnpc : (f == "HEX_GET_NPC") = true
          · rw [if_pos hnpc] at hwf1
            have hf : f = "HEX_GET_NPC" := by simpa using hnpc
            subst hf
            rw [if_neg (by decide), if_pos hnpc]
            have hn := hΔ _ _ (bindLocal_ok hwf1).2
            refine ⟨WeakAgree.setLocal hW (fun t ht => ?_), rfl⟩
            rw [hn] at ht; cases ht; rfl
          · rw [if_neg hnpc] at hwf1
            rw [if_neg hnpc]
            split
            · refine ⟨WeakAgree.setLocal hW (fun t ht => ?_), rfl⟩
              rw [hslot t ht]; rfl
            · exact notSort_undef f
    · intro es env Γ Γ' σ hmac hsub hc hwf hΔ hW hP
      cases es with
      | nil => rw [execSeq.eq_2]; exact ⟨hW, rfl⟩
      | cons e es =>
        rw [wfEffects.eq_2] at hwf
        obtain ⟨l, hl, hwf⟩ := bind_eq_ok.mp hwf
        rw [execSeq.eq_3]
        refine ExecOk.bind (ihE e env Γ l σ hmac hsub
          (hc.imp (fun h => by simp [noCallsList] at h; exact h.1) id) hl
          ((wfEffects_mono env es l Γ' hwf).trans hΔ) hW hP) (fun σ' hW' hp' => ?_)
        exact ihS es env l Γ' σ' hmac hsub
          (hc.imp (fun h => by simp [noCallsList] at h; exact h.2) id) hwf hΔ hW' (hp' ▸ hP)

/-! ## A total oracle satisfying the macro contract -/

theorem defaultVal_sort (s : ILSort) : (defaultVal s).sort = s := by cases s <;> rfl

theorem sortOf_macro_eq (env Γ Λ f args) : sortOf env Γ Λ (.macro f args) =
    (sortsOf env Γ Λ args >>= fun sargs =>
      match f, sargs, args with
      | "BV2F", [.ext, .bv w], [fmt, _] =>
          (match floatFmtWidth fmt with
           | some fw => if fw == w then .ok (.float w) else .error s!"BV2F format {fw} on bv{w}"
           | none => .ok (.float w))
      | "F2BV", [.float w], _ => .ok (.bv w)
      | _, _, _ => macroRest env.macros f sargs) := by
  rw [sortOf.eq_20]; rfl

theorem sortsOf_length (env Γ Λ) : ∀ (args : List ILPure) (ss : List ILSort),
    sortsOf env Γ Λ args = .ok ss → args.length = ss.length
  | [], ss, h => by rw [sortsOf.eq_1] at h; cases h; rfl
  | a :: as, ss, h => by
    rw [sortsOf.eq_2] at h
    obtain ⟨s, _, h⟩ := bind_eq_ok.mp h
    obtain ⟨ss', h', h⟩ := bind_eq_ok.mp h
    cases h
    simp [sortsOf_length env Γ Λ as ss' h']

theorem macroRetSort_of_sortOf {env Γ Λ f args ss s} (hss : sortsOf env Γ Λ args = .ok ss)
    (hs : sortOf env Γ Λ (.macro f args) = .ok s) : macroRetSort env.macros f ss = some s := by
  have hlen := sortsOf_length env Γ Λ args ss hss
  rw [sortOf_macro_eq, hss] at hs
  replace hs : (match f, ss, args with
      | "BV2F", [.ext, .bv w], [fmt, _] =>
          (match floatFmtWidth fmt with
           | some fw => if fw == w then .ok (.float w) else .error s!"BV2F format {fw} on bv{w}"
           | none => .ok (.float w))
      | "F2BV", [.float w], _ => .ok (.bv w)
      | _, _, _ => macroRest env.macros f ss) = Except.ok s := hs
  split at hs
  · next w fmt x =>
    have : s = .float w := by
      split at hs
      · split at hs
        · cases hs; rfl
        · cases hs
      · cases hs; rfl
    subst this
    rfl
  · next w x => cases hs; rfl
  · next h1 h2 =>
    unfold macroRetSort
    split
    · next w =>
      exfalso
      match args, hlen with
      | [a, b], _ => exact h2 w a b rfl rfl rfl
    · next w => exact (h1 w rfl rfl).elim
    · rw [hs]; rfl

theorem macroOk_oracleOf (al : Stuck → Prop) (macros : List (String × MacroSig)) :
    MacroOk al (oracleOf macros) macros := by
  intro env Γ Λ f args ss s vs hmac hss hs hvs
  have := macroRetSort_of_sortOf hss hs
  rw [hmac] at this
  simp only [oracleOf, hvs, this, Option.map_some]
  exact defaultVal_sort s

end Rzil
