import RzilVerif.Model.CompileH
import RzilVerif.Model.CSemH
import RzilVerif.Lemmas.StmtConv
/-!
  C08 helpers, part 2: the lowering of a call (`compileArgsH`, the `.call` case of `compileExprH`): argument
  conversion, the pending entry of a call, the return-value read.
-/
namespace Rzil
namespace C08

open C05 (bind_ok bind_ok_of Sim sim_convTo convTo_eq)

/-! ## names -/

/-- the temporary of the `k`-th hybrid -/
def tmpName (k : Nat) : String := s!"h_tmp{k}"

/-- `SubRoutine.il_read` / `Call.il_read`: the return value is read from the shared local `ret_val` -/
def retRead (ret : CT) : ILPure :=
  if ret.signed then .signed ret.width (.varl "ret_val") else .unsigned ret.width (.varl "ret_val")

/-- the `hybrid_effect_dict` entry created for a call compiled in hybrid state `st1` (the state after the arguments) -/
def callEntry (st1 : HSt) (name : String) (cargs : List ILPure) (ret : CT) : Pend :=
  { tmp := tmpName st1.hyb
    deps := (popPending st1.pending (tmpsOfPures cargs)).1.map Pend.render
    exec := .call ("hex_" ++ name) cargs
    setTmp := .setl (tmpName st1.hyb) (retRead ret)
    setFirst := false
    gcc := false }

/-! ## 1. arguments: shape -/

theorem compileArgsH_length {env : CEnv} {args : List CExpr} :
    ∀ {st : HSt} {params : List CT} {ils : List ILPure} {st' : HSt},
      compileArgsH env st args params = .ok (ils, st') → ils.length = args.length ∧ args.length ≤ params.length := by
  induction args with
  | nil =>
    intro st params ils st' h
    rw [compileArgsH] at h
    injection h with h
    injection h with h1 _
    subst h1; simp
  | cons a as ih =>
    intro st params ils st' h
    cases params with
    | nil => rw [compileArgsH] at h; cases h
    | cons p ps =>
      rw [compileArgsH] at h
      obtain ⟨⟨ca, st1⟩, _, h⟩ := bind_ok h
      simp only at h
      obtain ⟨⟨rest, st2⟩, h2, h⟩ := bind_ok h
      simp only at h
      injection h with h
      injection h with h1 _
      subst h1
      have := ih h2
      simp only [List.length_cons]
      omega

/-- one step of `compileArgsH`, inverted -/
theorem compileArgsH_cons {env : CEnv} {st : HSt} {a : CExpr} {as : List CExpr} {p : CT} {ps : List CT}
    {ils : List ILPure} {st' : HSt} (h : compileArgsH env st (a :: as) (p :: ps) = .ok (ils, st')) :
    ∃ ca st1 rest, compileExprH env st a = .ok (ca, st1) ∧ compileArgsH env st1 as ps = .ok (rest, st') ∧
      ils = (initACast env.cfg p.toVT ca).il :: rest := by
  rw [compileArgsH] at h
  obtain ⟨⟨ca, st1⟩, h1, h⟩ := bind_ok h
  simp only at h
  obtain ⟨⟨rest, st2⟩, h2, h⟩ := bind_ok h
  simp only at h
  injection h with h
  injection h with h3 h4
  subst h3 h4
  exact ⟨ca, st1, rest, h1, h2, by rw [convTo_eq]⟩

/-! ## 1. arguments: conversion to the parameter types -/

/-- the C-side argument values: each value converted to its parameter type (C11 6.5.2.2p7) -/
def convArgs : List CExpr → List CT → List Val → Except Stuck (List Val)
  | [], _, _ => .ok []
  | a :: as, p :: ps, v :: vs => do
      let v' ← convC (typeOfC a) p v
      let r ← convArgs as ps vs
      .ok (v' :: r)
  | _, _, _ => .error (.sort "arity")

/-- The arguments `args` have the C values `vCs` in `σ`: each evaluates (from some fuel on) to its value without
    changing the state, and - whatever hybrid state it is compiled in - its compiled form simulates that value.
    Hybrid-free arguments satisfy this by the expression theorem. -/
inductive ArgsOK (ms : MacroSem) (csubs : CSubEnv) (env : CEnv) (σ : MState) : List CExpr → List Val → Prop
  | nil : ArgsOK ms csubs env σ [] []
  | cons {a : CExpr} {as : List CExpr} {v : Val} {vs : List Val} :
      (∃ F, ∀ f, F ≤ f → evalCH ms csubs f σ a = .ok (v, σ)) →
      (∀ st ce st', compileExprH env st a = .ok (ce, st') → Sim ms σ ce (typeOfC a) v) →
      ArgsOK ms csubs env σ as vs → ArgsOK ms csubs env σ (a :: as) (v :: vs)

theorem compileArgsH_sim {ms : MacroSem} {csubs : CSubEnv} {env : CEnv} {σ : MState} (hcfg : env.cfg = Cfg.fixed)
    {args : List CExpr} {vCs : List Val} (hargs : ArgsOK ms csubs env σ args vCs) :
    ∀ {st : HSt} {params : List CT} {ils : List ILPure} {st' : HSt},
      compileArgsH env st args params = .ok (ils, st') → (∀ p ∈ params, p.width ≠ 1) →
      ∃ vs, convArgs args params vCs = .ok vs ∧ evalPures ms σ [] ils = .ok vs ∧
        ∃ F, ∀ f, F ≤ f → evalCHArgs ms csubs f σ args params = .ok (vs, σ) := by
  induction hargs with
  | nil =>
    intro st params ils st' h _
    rw [compileArgsH] at h
    injection h with h
    injection h with h1 _
    subst h1
    refine ⟨[], rfl, rfl, 1, ?_⟩
    intro f hf
    obtain ⟨f', rfl⟩ : ∃ f', f = f' + 1 := ⟨f - 1, by omega⟩
    rw [evalCHArgs]
  | @cons a as v vs hev hsim _ ih =>
    intro st params ils st' h hp
    cases params with
    | nil => rw [compileArgsH] at h; cases h
    | cons p ps =>
      obtain ⟨ca, st1, rest, h1, h2, rfl⟩ := compileArgsH_cons h
      obtain ⟨x, hconv, _, hevIL, _⟩ := sim_convTo p (hsim _ _ _ h1) (hp p (List.mem_cons_self ..))
      obtain ⟨vs', hc', hp', Fr, hr⟩ := ih h2 (fun q hq => hp q (List.mem_cons_of_mem _ hq))
      obtain ⟨Fa, ha⟩ := hev
      refine ⟨.bv p.width x :: vs', ?_, ?_, max Fa Fr + 1, ?_⟩
      · simp only [convArgs, hconv, hc', bind, Except.bind]
      · rw [hcfg]
        simp only [evalPures, hevIL, hp', bind, Except.bind]
      · intro f hf
        obtain ⟨f', rfl⟩ : ∃ f', f = f' + 1 := ⟨f - 1, by omega⟩
        rw [evalCHArgs]
        simp only [ha f' (by omega), hconv, hr f' (by omega), bind, Except.bind]

/-! ## 2. the pending entry of a call -/

theorem tmpName_eq (k : Nat) : toString "h_tmp" ++ toString k = tmpName k := rfl

/-- the `.call` case of `compileExprH`, inverted: the arguments are compiled, the value handed to the consumer is
    the fresh temporary typed with the declared return type, and one entry is appended to the pending hybrids
    (behind those the arguments did not pull in). -/
theorem compileExprH_call {env : CEnv} {st : HSt} {name : String} {args : List CExpr} {ret : CT} {params : List CT}
    {ce : CE} {st' : HSt} (h : compileExprH env st (.call name args ret params) = .ok (ce, st')) :
    ∃ cargs st1, compileArgsH env st args params = .ok (cargs, st1) ∧
      ce = { il := .varl (tmpName st1.hyb), ty := ret.toVT, kind := .plain } ∧
      st' = { st1 with hyb := st1.hyb + 1,
                       pending := (popPending st1.pending (tmpsOfPures cargs)).2 ++ [callEntry st1 name cargs ret] } := by
  rw [compileExprH] at h
  obtain ⟨⟨cargs, st1⟩, h1, h⟩ := bind_ok h
  simp only at h
  injection h with h
  injection h with h2 h3
  exact ⟨cargs, st1, h1, h2.symm, h3.symm⟩

theorem compileExprH_call_of {env : CEnv} {st : HSt} {name : String} {args : List CExpr} {ret : CT} {params : List CT}
    {cargs : List ILPure} {st1 : HSt} (h : compileArgsH env st args params = .ok (cargs, st1)) :
    compileExprH env st (.call name args ret params) =
      .ok ({ il := .varl (tmpName st1.hyb), ty := ret.toVT, kind := .plain },
           { st1 with hyb := st1.hyb + 1,
                      pending := (popPending st1.pending (tmpsOfPures cargs)).2 ++ [callEntry st1 name cargs ret] }) := by
  rw [compileExprH, h]
  rfl

end C08
end Rzil
