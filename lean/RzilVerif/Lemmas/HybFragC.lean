import RzilVerif.Lemmas.HybFragB
import RzilVerif.Lemmas.HybSem
/-!
  C06 helpers, part 15 (simulation fragment, C): executing the rendered postfix entries — in any order, as long as
  their variables and temporaries are pairwise distinct — binds every temporary to the old value of its variable
  and steps the variable; the same pointwise description for the C side (`applyPosts`).
-/
namespace Rzil
namespace C06
open C05

def postVar (p : Pend) : String :=
  match p.exec with
  | .setl v _ => v
  | _ => ""

def postInc (p : Pend) : Bool :=
  match p.exec with
  | .setl _ (.inc _ _) => true
  | _ => false

def stepVal (inc : Bool) : Val → Val
  | .bv w x => .bv w (if inc then x + 1 else x - 1)
  | v => v

theorem postVar_postPend (k : Nat) (v : String) (t : CT) (op : String) : postVar (postPend k v t op) = v := rfl

theorem postInc_postPend (k : Nat) (v : String) (t : CT) (op : String) :
    postInc (postPend k v t op) = (op == "++") := by
  simp only [postInc, postPend]
  cases h : op == "++" <;> simp

theorem stepVal_bv (op : String) {w : Nat} (x : BitVec w) :
    stepVal (op == "++") (.bv w x) = .bv w (postVal op x) := by
  simp only [stepVal, postVal]

/-- one entry is a postfix entry whose variable is bound to a value of the right width -/
def IsPostAt (σ : MState) (p : Pend) : Prop :=
  ∃ k v t op, ∃ x : BitVec t.width, p = postPend k v t op ∧ isHTmp v = false ∧ lookupS v σ.locals = some (.bv t.width x)

def Indep (p q : Pend) : Prop := p.tmp ≠ q.tmp ∧ postVar p ≠ postVar q

/-- (C) -/
theorem exec_posts (ms : MacroSem) : ∀ (ps : List Pend) (σ : MState),
    (∀ p ∈ ps, IsPostAt σ p) → ps.Pairwise Indep →
    ∃ locals', ExecSeqIL ms (ps.map Pend.render) σ { σ with locals := locals' } ∧
      (∀ p ∈ ps, lookupS p.tmp locals' = lookupS (postVar p) σ.locals ∧
                 lookupS (postVar p) locals' = (lookupS (postVar p) σ.locals).map (stepVal (postInc p))) ∧
      (∀ n, (∀ p ∈ ps, n ≠ p.tmp ∧ n ≠ postVar p) → lookupS n locals' = lookupS n σ.locals)
  | [], σ, _, _ => ⟨σ.locals, ExecSeqIL_nil, by simp, fun _ _ => rfl⟩
  | p :: ps, σ, hp, hpw => by
    obtain ⟨k, v, t, op, x, rfl, hne, hl⟩ := hp _ List.mem_cons_self
    have hvt := tmpName_ne_of_not_htmp hne k
    have h1 := post_render_exec ms k v t op σ x hl hne
    rw [List.pairwise_cons] at hpw
    -- the state after the first entry
    let σ1 : MState := { σ with locals := setLocal (setLocal σ.locals (tmpName k) (.bv t.width x)) v (.bv t.width (postVal op x)) }
    have hother : ∀ q ∈ ps, lookupS (postVar q) σ1.locals = lookupS (postVar q) σ.locals ∧ isHTmp (postVar q) = false := by
      intro q hq
      obtain ⟨k', v', t', op', x', rfl, hne', _⟩ := hp q (List.mem_cons_of_mem _ hq)
      have hi := hpw.1 _ hq
      simp only [Indep, postVar_postPend] at hi
      refine ⟨?_, hne'⟩
      simp only [σ1, postVar_postPend]
      rw [lookupS_setLocal_ne (Ne.symm hi.2), lookupS_setLocal_ne (tmpName_ne_of_not_htmp hne' k)]
    have hp1 : ∀ q ∈ ps, IsPostAt σ1 q := by
      intro q hq
      obtain ⟨k', v', t', op', x', rfl, hne', hl'⟩ := hp q (List.mem_cons_of_mem _ hq)
      refine ⟨k', v', t', op', x', rfl, hne', ?_⟩
      have := (hother _ hq).1
      simp only [postVar_postPend] at this
      rw [this]; exact hl'
    obtain ⟨loc2, hx2, hres, hrest⟩ := exec_posts ms ps σ1 hp1 hpw.2
    refine ⟨loc2, ?_, ?_, ?_⟩
    · simp only [List.map_cons]
      exact ExecSeqIL_cons h1 hx2
    · intro q hq
      rcases List.mem_cons.mp hq with rfl | hq
      · -- the head: untouched by the remaining entries
        have hk : lookupS (tmpName k) loc2 = lookupS (tmpName k) σ1.locals := by
          apply hrest
          intro r hr
          have hi := hpw.1 _ hr
          obtain ⟨_, hnr⟩ := hother r hr
          refine ⟨fun e => hi.1 (by simpa [postPend] using e), fun e => ?_⟩
          rw [← e, isHTmp_tmpName] at hnr; cases hnr
        have hv : lookupS v loc2 = lookupS v σ1.locals := by
          apply hrest
          intro r hr
          have hi := hpw.1 _ hr
          obtain ⟨k', v', t', op', x', rfl, hne', _⟩ := hp r (List.mem_cons_of_mem _ hr)
          simp only [Indep, postVar_postPend] at hi
          exact ⟨tmpName_ne_of_not_htmp hne k', hi.2⟩
        simp only [postVar_postPend, postInc_postPend]
        refine ⟨?_, ?_⟩
        · show lookupS (tmpName k) loc2 = _
          rw [hk, hl]
          simp only [σ1, lookupS_setLocal_ne (Ne.symm hvt), lookupS_setLocal_self]
        · rw [hv, hl]
          simp only [σ1, lookupS_setLocal_self, Option.map_some, stepVal_bv]
      · obtain ⟨r1, r2⟩ := hres q hq
        rw [(hother q hq).1] at r1 r2
        exact ⟨r1, r2⟩
    · intro n hn
      have hn0 := hn _ List.mem_cons_self
      simp only [postVar_postPend] at hn0
      rw [hrest n (fun q hq => hn q (List.mem_cons_of_mem _ hq))]
      simp only [σ1]
      rw [lookupS_setLocal_ne hn0.2, lookupS_setLocal_ne (by simpa [postPend] using hn0.1)]

/-! ## the C side, pointwise -/

theorem stepPost_lookup_self (σ : MState) (v : String) (t : CT) (op : String) :
    lookupS v (stepPost σ (v, t, op)).locals = (lookupS v σ.locals).map (stepVal (op == "++")) := by
  unfold stepPost
  cases hl : lookupS v σ.locals with
  | none => simp [hl]
  | some w =>
    cases w <;> simp [hl, lookupS_setLocal_self, stepVal]

theorem applyPosts_lookup_mem : ∀ (ps : List (String × CT × String)) (σ : MState) (v : String) (t : CT) (op : String),
    (ps.map (·.1)).Nodup → (v, t, op) ∈ ps →
    lookupS v (applyPosts ps σ).locals = (lookupS v σ.locals).map (stepVal (op == "++"))
  | [], _, _, _, _, _, h => by cases h
  | p :: ps, σ, v, t, op, hnd, hm => by
    simp only [List.map_cons, List.nodup_cons] at hnd
    simp only [applyPosts, List.foldl_cons]
    rcases List.mem_cons.mp hm with rfl | hm
    · have := applyPosts_lookup_ne ps (stepPost σ (v, t, op)) (n := v) hnd.1
      simp only [applyPosts] at this
      rw [this, stepPost_lookup_self]
    · have hne : v ≠ p.1 := fun e => hnd.1 (e ▸ List.mem_map_of_mem (f := (·.1)) hm)
      have := applyPosts_lookup_mem ps (stepPost σ p) v t op hnd.2 hm
      simp only [applyPosts] at this
      rw [this, stepPost_lookup_ne σ p hne]

/-! ## the entries created on the fragment -/

theorem mem_postPendsFrom {k : Nat} {ps : List (String × CT × String)} {p : Pend} :
    p ∈ postPendsFrom k ps ↔ ∃ j q, ps[j]? = some q ∧ p = postPend (k + j) q.1 q.2.1 q.2.2 := by
  induction ps generalizing k with
  | nil => simp [postPendsFrom]
  | cons q ps ih =>
    obtain ⟨v, t, op⟩ := q
    simp only [postPendsFrom, List.mem_cons, ih]
    constructor
    · rintro (rfl | ⟨j, q, hj, rfl⟩)
      · exact ⟨0, (v, t, op), by simp, rfl⟩
      · exact ⟨j + 1, q, by simpa using hj, by rw [show k + 1 + j = k + (j + 1) by omega]⟩
    · rintro ⟨j, q, hj, rfl⟩
      cases j with
      | zero => simp at hj; subst hj; exact Or.inl rfl
      | succ j => exact Or.inr ⟨j, q, by simpa using hj, by rw [show k + 1 + j = k + (j + 1) by omega]⟩

theorem postPendsFrom_pairwise (k : Nat) (ps : List (String × CT × String)) (hnd : (ps.map (·.1)).Nodup) :
    (postPendsFrom k ps).Pairwise Indep := by
  induction ps generalizing k with
  | nil => simp [postPendsFrom]
  | cons q ps ih =>
    obtain ⟨v, t, op⟩ := q
    simp only [List.map_cons, List.nodup_cons] at hnd
    simp only [postPendsFrom, List.pairwise_cons]
    refine ⟨?_, ih (k + 1) hnd.2⟩
    intro p hp
    obtain ⟨j, q, hj, rfl⟩ := mem_postPendsFrom.mp hp
    refine ⟨?_, ?_⟩
    · simp only [postPend]
      intro e
      have := tmpName_inj e
      omega
    · simp only [postVar_postPend]
      intro e
      exact hnd.1 (e ▸ List.mem_map_of_mem (f := (·.1)) (List.mem_of_getElem? hj))

theorem tmpsOf_postPendsFrom_nodup (k : Nat) (ps : List (String × CT × String)) :
    (tmpsOf (postPendsFrom k ps)).Nodup := by
  induction ps generalizing k with
  | nil => simp [postPendsFrom, tmpsOf]
  | cons q ps ih =>
    obtain ⟨v, t, op⟩ := q
    simp only [postPendsFrom, tmpsOf, List.map_cons, List.nodup_cons]
    refine ⟨?_, ih (k + 1)⟩
    intro hm
    obtain ⟨p, hp, e⟩ := List.mem_map.mp hm
    obtain ⟨j, q, _, rfl⟩ := mem_postPendsFrom.mp hp
    simp only [postPend] at e
    have := tmpName_inj e
    omega

end C06
end Rzil
