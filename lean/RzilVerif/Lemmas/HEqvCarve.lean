import RzilVerif.Lemmas.HEqvExpr
import RzilVerif.Model.StmtWF
import RzilVerif.Model.ExprCarve
/-!
  CompileH ≃ Compile, part 6: link to the carve-out of T2. A folded comparison is typed ut1 BOOL, hence the
  carve-out (promotion/width conditions) excludes it as an operand of a foldable operator: part (a) of HSame.
-/
namespace Rzil
namespace HEqv
set_option linter.unusedSimpArgs false

/-- a folded comparison is typed `ut1` BOOL -/
def BLty (ce : CE) : Prop := ∀ r, ce.kind = .boolLit r → ce.ty.width = 1 ∧ ce.ty.hasFlag VT.gBOOL = true

theorem gBool_flag : VT.hasFlag { signed := false, width := 1, group := gBool } VT.gBOOL = true := by decide

theorem BLty_of_kind {ce : CE} (h : ∀ r, ce.kind ≠ .boolLit r) : BLty ce := fun r hr => absurd hr (h r)

theorem BLty_initACast (cfg : Cfg) (t : VT) (p : CE) (h : BLty p) : BLty (initACast cfg t p) := by
  unfold initACast
  split
  · exact h
  · split
    · exact BLty_of_kind (by intro r; simp)
    · exact BLty_of_kind (by intro r; simp)

theorem BLty_ite {c : Prop} [Decidable c] {x y : CE} (hx : BLty x) (hy : BLty y) : BLty (if c then x else y) := by
  split <;> assumption

theorem BLty_promotionCast (cfg : Cfg) (p : CE) (h : BLty p) : BLty (promotionCast cfg p) := by
  unfold promotionCast
  simp only
  exact BLty_ite h (BLty_initACast _ _ _ h)

theorem BLty_castOperands (cfg : Cfg) (a b : CE) (ha : BLty a) (hb : BLty b) :
    BLty (castOperands cfg a b).1 ∧ BLty (castOperands cfg a b).2 := by
  unfold castOperands
  split
  · exact ⟨ha, hb⟩
  · simp only
    exact ⟨BLty_ite (BLty_initACast cfg _ a ha) ha, BLty_ite (BLty_initACast cfg _ b hb) hb⟩

theorem BLty_ternOfCE (cfg : Cfg) (cc ca cb : CE) (ha : BLty ca) (hb : BLty cb) : BLty (ternOfCE cfg cc ca cb) := by
  unfold ternOfCE
  have h1 := BLty_castOperands cfg _ _ (BLty_promotionCast cfg ca ha) (BLty_promotionCast cfg cb hb)
  have hfab : BLty (if cfg.literalTypeBySuffixOnly = true then (ca, cb)
      else castOperands cfg (promotionCast cfg ca) (promotionCast cfg cb)).1 ∧
      BLty (if cfg.literalTypeBySuffixOnly = true then (ca, cb)
      else castOperands cfg (promotionCast cfg ca) (promotionCast cfg cb)).2 := by
    split
    · exact ⟨ha, hb⟩
    · exact h1
  simp only
  split
  · exact BLty_ite hfab.1 hfab.2
  · exact BLty_ite hfab.1 hfab.2
  · exact BLty_of_kind (by intro r; simp)

theorem BLty_compileExpr (env : CEnv) : (e : CExpr) → {ce : CE} → compileExpr env e = .ok ce → BLty ce
  | .reg n k t, ce, h => by rw [compileExpr_reg] at h; cases h; exact BLty_of_kind (by intro r; simp)
  | .imm l s, ce, h => by rw [compileExpr_imm] at h; cases h; exact BLty_of_kind (by intro r; simp)
  | .lit v hx sfx, ce, h => by
      rw [compileExpr_lit] at h
      split at h <;> (cases h; exact BLty_of_kind (by intro r; simp))
  | .var n t, ce, h => by rw [compileExpr_var] at h; cases h; exact BLty_of_kind (by intro r; simp)
  | .cast t e, ce, h => by
      rw [compileExpr_cast] at h
      obtain ⟨c1, h1, h⟩ := bind_ok h
      have := BLty_compileExpr env e h1
      split at h <;> cases h
      · exact this
      · exact BLty_initACast _ _ _ this
  | .un op e, ce, h => by
      rw [compileExpr_un] at h
      obtain ⟨c1, h1, h⟩ := bind_ok h
      cases h
      apply BLty_of_kind
      intro r
      unfold unOfCE
      split
      · simp only; split
        · split <;> simp
        · simp
      · simp
  | .not e, ce, h => by
      rw [compileExpr_not] at h
      obtain ⟨c1, h1, h⟩ := bind_ok h
      cases h; exact BLty_of_kind (by intro r; simp)
  | .bin op a b, ce, h => by
      rw [compileExpr_bin] at h
      obtain ⟨c1, h1, h⟩ := bind_ok h
      obtain ⟨c2, h2, h⟩ := bind_ok h
      apply BLty_of_kind
      intro r
      have hcb : ∀ x, compileBin env op c1 c2 = .ok x → x.kind ≠ .boolLit r := by
        intro x hx
        rw [compileBin_eq] at hx
        simp only at hx
        split at hx
        · cases hx; simp
        · cases hx
      unfold binBody at h
      split at h
      · split at h
        · cases h; simp [foldBin]
        · exact hcb _ h
      · exact hcb _ h
  | .shift op a b, ce, h => by
      rw [compileExpr_shift] at h
      obtain ⟨c1, h1, h⟩ := bind_ok h
      obtain ⟨c2, h2, h⟩ := bind_ok h
      cases h; exact BLty_of_kind (by intro r; simp)
  | .cmp op a b, ce, h => by
      rw [compileExpr_cmp] at h
      obtain ⟨c1, h1, h⟩ := bind_ok h
      obtain ⟨c2, h2, h⟩ := bind_ok h
      cases h
      unfold cmpBody
      split
      · intro r _; exact ⟨rfl, gBool_flag⟩
      · exact BLty_of_kind (by intro r; simp [cmpOfCE])
  | .log op a b, ce, h => by
      rw [compileExpr_log] at h
      obtain ⟨c1, h1, h⟩ := bind_ok h
      obtain ⟨c2, h2, h⟩ := bind_ok h
      cases h; exact BLty_of_kind (by intro r; simp)
  | .tern c a b, ce, h => by
      rw [compileExpr_tern] at h
      obtain ⟨c0, h0, h⟩ := bind_ok h
      obtain ⟨c1, h1, h⟩ := bind_ok h
      obtain ⟨c2, h2, h⟩ := bind_ok h
      cases h
      exact BLty_ternOfCE _ c0 c1 c2 (BLty_compileExpr env a h1) (BLty_compileExpr env b h2)
  | .macro name args ret params, ce, h => by
      rw [compileExpr_macro] at h
      obtain ⟨cs, h1, h⟩ := bind_ok h
      cases h; exact BLty_of_kind (by intro r; simp)
  | .load s w t, ce, h => by rw [compileExpr_load] at h; cases h; exact BLty_of_kind (by intro r; simp)
  | .post _ _ _, ce, h => by rw [compileExpr] at h; cases h
  | .call _ _ _ _, ce, h => by rw [compileExpr] at h; cases h
  | .stmtexpr _ _ _, ce, h => by rw [compileExpr] at h; cases h



/-! ### part (a) of `HSame` follows from the expression carve-out -/

theorem promoSafe_boolLit {c : CE} {r : Bool} (hk : c.kind = .boolLit r) (hb : BLty c) : promoSafe c = false := by
  obtain ⟨hw, hf⟩ := hb r hk
  unfold promoSafe CastSafe
  have hp : c.ty.promoted = { signed := true, width := 32, group := 1 } := by
    unfold VT.promoted; simp [hw]
  rw [hp]
  have h1 : VT.eqv { signed := true, width := 32, group := 1 } c.ty = false := by simp [VT.eqv, hw]
  have h2 : VT.hasFlag { signed := true, width := 32, group := 1 } VT.gBOOL = false := by decide
  simp only [h1, hf, h2, hk, Bool.false_or, Bool.not_false, Bool.and_self, ↓reduceIte]
  cases r <;> decide

theorem mixedFold_of_not_boolLit {ka kb : PKind} (ha : ka.isBoolLit = false) (hb : kb.isBoolLit = false) :
    mixedFold ka kb = false := by
  simp only [mixedFold, ha, hb, Bool.or_self, Bool.and_false]

theorem binSafe_mixedFold {op : String} {c1 c2 : CE} (h : binSafe op c1 c2 = true) (h1 : BLty c1) (h2 : BLty c2) :
    mixedFold c1.kind c2.kind = false := by
  cases hk1 : c1.kind with
  | boolLit r =>
    have := promoSafe_boolLit hk1 h1
    simp only [binSafe, hk1, arithSafe, this, Bool.false_and, Bool.false_eq_true] at h
  | lit v =>
    cases hk2 : c2.kind with
    | boolLit r =>
      have := promoSafe_boolLit hk2 h2
      simp only [binSafe, hk1, hk2, arithSafe, this, Bool.false_and, Bool.and_false, Bool.false_eq_true] at h
    | _ => exact mixedFold_of_not_boolLit rfl rfl
  | plain =>
    cases hk2 : c2.kind with
    | boolLit r =>
      have := promoSafe_boolLit hk2 h2
      simp only [binSafe, hk1, hk2, arithSafe, this, Bool.false_and, Bool.and_false, Bool.false_eq_true] at h
    | _ => exact mixedFold_of_not_boolLit rfl rfl
  | boolObj =>
    cases hk2 : c2.kind with
    | boolLit r =>
      have := promoSafe_boolLit hk2 h2
      simp only [binSafe, hk1, hk2, arithSafe, this, Bool.false_and, Bool.and_false, Bool.false_eq_true] at h
    | _ => exact mixedFold_of_not_boolLit rfl rfl

theorem wideSafe_boolLit_left {c1 c2 : CE} {r : Bool} (hk : c1.kind = .boolLit r) (hb : BLty c1) : wideSafe c1 c2 = false := by
  obtain ⟨hw, _⟩ := hb r hk
  simp [wideSafe, hw]

theorem wideSafe_boolLit_right {c1 c2 : CE} {r : Bool} (hk : c2.kind = .boolLit r) (hb : BLty c2) : wideSafe c1 c2 = false := by
  obtain ⟨hw, _⟩ := hb r hk
  simp [wideSafe, hw]

theorem cmpSafe_mixedFold {c1 c2 : CE} (h : cmpSafe c1 c2 = true) (h1 : BLty c1) (h2 : BLty c2) :
    mixedFold c1.kind c2.kind = false := by
  cases hk1 : c1.kind with
  | boolLit r =>
    have := wideSafe_boolLit_left (c2 := c2) hk1 h1
    simp only [cmpSafe, hk1, this, Bool.false_eq_true] at h
  | lit v =>
    cases hk2 : c2.kind with
    | boolLit r =>
      have := wideSafe_boolLit_right (c1 := c1) hk2 h2
      simp only [cmpSafe, hk1, hk2, this, Bool.false_eq_true] at h
    | _ => exact mixedFold_of_not_boolLit rfl rfl
  | plain =>
    cases hk2 : c2.kind with
    | boolLit r =>
      have := wideSafe_boolLit_right (c1 := c1) hk2 h2
      simp only [cmpSafe, hk1, hk2, this, Bool.false_eq_true] at h
    | _ => exact mixedFold_of_not_boolLit rfl rfl
  | boolObj =>
    cases hk2 : c2.kind with
    | boolLit r =>
      have := wideSafe_boolLit_right (c1 := c1) hk2 h2
      simp only [cmpSafe, hk1, hk2, this, Bool.false_eq_true] at h
    | _ => exact mixedFold_of_not_boolLit rfl rfl

theorem unSafe_not_boolLit {op : String} {c : CE} (h : unSafe op c = true) (hb : BLty c) : c.kind.isBoolLit = false := by
  cases hk : c.kind with
  | boolLit r =>
    have := promoSafe_boolLit hk hb
    simp only [unSafe, hk, this, Bool.false_eq_true] at h
  | _ => rfl

theorem kindOfE_error {env : CEnv} {e : CExpr} {m : String} (h : compileExpr env e = .error m) : kindOfE env e = .plain := by
  simp only [kindOfE, h]



theorem asCode_suffix (asg : List String) : (⟨asg, Cfg.asCode⟩ : CEnv).cfg.literalTypeBySuffixOnly = true := rfl

mutual
/-- **expression carve-out ⇒ part (a)**: on a hybrid-free expression of the node-wise carve-out of C02 that has no
    constant `?:` with a bare variable as dead arm, the side condition `HSame` holds under the code's configuration -/
theorem HSame_of_carve (asg : List String) :
    (e : CExpr) → HybFree e = true → CarveN asg e = true → NoDeadVarl ⟨asg, Cfg.asCode⟩ e = true →
      HSame ⟨asg, Cfg.asCode⟩ e = true
  | .reg _ _ _, _, _, _ => by simp only [HSame]
  | .imm _ _, _, _, _ => by simp only [HSame]
  | .lit _ _ _, _, _, _ => by simp only [HSame]
  | .var _ _, _, _, _ => by simp only [HSame]
  | .load _ _ _, _, _, _ => by simp only [HSame]
  | .post _ _ _, _, _, _ => by simp only [HSame]
  | .call _ _ _ _, _, _, _ => by simp only [HSame]
  | .stmtexpr _ _ _, _, _, _ => by simp only [HSame]
  | .cast t e, hf, hc, hn => by
      simp only [HybFree] at hf
      simp only [CarveN, Bool.and_eq_true] at hc
      simp only [NoDeadVarl] at hn
      simp only [HSame, HSame_of_carve asg e hf hc.1.1 hn]
  | .not e, hf, hc, hn => by
      simp only [HybFree] at hf
      simp only [CarveN, Bool.and_eq_true] at hc
      simp only [NoDeadVarl] at hn
      simp only [HSame, HSame_of_carve asg e hf hc.1 hn]
  | .un op e, hf, hc, hn => by
      simp only [HybFree] at hf
      simp only [CarveN, Bool.and_eq_true] at hc
      simp only [NoDeadVarl] at hn
      simp only [HSame, HSame_of_carve asg e hf hc.1.1 hn, asCode_suffix, Bool.true_and, Bool.not_eq_eq_eq_not,
        Bool.not_true]
      cases h1 : compileExpr ⟨asg, Cfg.asCode⟩ e with
      | error m => rw [kindOfE_error h1]; rfl
      | ok c1 =>
        rw [kindOfE_ok h1]
        have := hc.2; simp only [onA, h1] at this
        exact unSafe_not_boolLit this (BLty_compileExpr _ e h1)
  | .bin op a b, hf, hc, hn => by
      simp only [HybFree, Bool.and_eq_true] at hf
      simp only [CarveN, Bool.and_eq_true] at hc
      simp only [NoDeadVarl, Bool.and_eq_true] at hn
      obtain ⟨⟨⟨⟨hca, hcb⟩, _⟩, _⟩, hs⟩ := hc
      have hm : mixedFold (kindOfE ⟨asg, Cfg.asCode⟩ a) (kindOfE ⟨asg, Cfg.asCode⟩ b) = false := by
        cases h1 : compileExpr ⟨asg, Cfg.asCode⟩ a with
        | error m => rw [kindOfE_error h1]; rfl
        | ok c1 =>
          cases h2 : compileExpr ⟨asg, Cfg.asCode⟩ b with
          | error m => rw [kindOfE_error h2]; simp [mixedFold, PKind.litVal]
          | ok c2 =>
            rw [kindOfE_ok h1, kindOfE_ok h2]
            simp only [onA, h1, h2] at hs
            exact binSafe_mixedFold hs (BLty_compileExpr _ a h1) (BLty_compileExpr _ b h2)
      simp only [HSame, HSame_of_carve asg a hf.1 hca hn.1, HSame_of_carve asg b hf.2 hcb hn.2, hm, Bool.and_false,
        Bool.not_false, Bool.and_self]
  | .shift op a b, hf, hc, hn => by
      simp only [HybFree, Bool.and_eq_true] at hf
      simp only [CarveN, Bool.and_eq_true] at hc
      simp only [NoDeadVarl, Bool.and_eq_true] at hn
      simp only [HSame, HSame_of_carve asg a hf.1 hc.1.1.1 hn.1, HSame_of_carve asg b hf.2 hc.1.1.2 hn.2, Bool.and_self]
  | .cmp op a b, hf, hc, hn => by
      simp only [HybFree, Bool.and_eq_true] at hf
      simp only [CarveN, Bool.and_eq_true] at hc
      simp only [NoDeadVarl, Bool.and_eq_true] at hn
      obtain ⟨⟨⟨⟨hca, hcb⟩, _⟩, _⟩, hs⟩ := hc
      have hm : mixedFold (kindOfE ⟨asg, Cfg.asCode⟩ a) (kindOfE ⟨asg, Cfg.asCode⟩ b) = false := by
        cases h1 : compileExpr ⟨asg, Cfg.asCode⟩ a with
        | error m => rw [kindOfE_error h1]; rfl
        | ok c1 =>
          cases h2 : compileExpr ⟨asg, Cfg.asCode⟩ b with
          | error m => rw [kindOfE_error h2]; simp [mixedFold, PKind.litVal]
          | ok c2 =>
            rw [kindOfE_ok h1, kindOfE_ok h2]
            simp only [onA, h1, h2] at hs
            exact cmpSafe_mixedFold hs (BLty_compileExpr _ a h1) (BLty_compileExpr _ b h2)
      simp only [HSame, HSame_of_carve asg a hf.1 hca hn.1, HSame_of_carve asg b hf.2 hcb hn.2, hm, Bool.and_false,
        Bool.not_false, Bool.and_self]
  | .log op a b, hf, hc, hn => by
      simp only [HybFree, Bool.and_eq_true] at hf
      simp only [CarveN, Bool.and_eq_true] at hc
      simp only [NoDeadVarl, Bool.and_eq_true] at hn
      simp only [HSame, HSame_of_carve asg a hf.1 hc.1.1 hn.1, HSame_of_carve asg b hf.2 hc.1.2 hn.2, Bool.and_self]
  | .tern c a b, hf, hc, hn => by
      simp only [HybFree, Bool.and_eq_true] at hf
      simp only [CarveN, Bool.and_eq_true] at hc
      simp only [NoDeadVarl, Bool.and_eq_true, Bool.not_eq_eq_eq_not, Bool.not_true] at hn
      obtain ⟨⟨⟨⟨⟨hcc, hca⟩, hcb⟩, _⟩, _⟩, _⟩ := hc
      simp only [HSame, HSame_of_carve asg c hf.1.1 hcc hn.1.1.1, HSame_of_carve asg a hf.1.2 hca hn.1.1.2,
        HSame_of_carve asg b hf.2 hcb hn.1.2, hn.2, Bool.and_false, Bool.not_false, Bool.and_self]
  | .macro name args ret params, hf, hc, hn => by
      simp only [HybFree] at hf
      simp only [CarveN] at hc
      simp only [NoDeadVarl] at hn
      simp only [HSame, HSameL_of_carve asg args params hf hc hn]
theorem HSameL_of_carve (asg : List String) :
    (as : List CExpr) → (ps : List CT) → HybFreeL as ps = true → CarveNs asg as ps = true →
      NoDeadVarlL ⟨asg, Cfg.asCode⟩ as = true → HSameL ⟨asg, Cfg.asCode⟩ as = true
  | [], _, _, _, _ => by simp only [HSameL]
  | _ :: _, [], hf, _, _ => by simp [HybFreeL] at hf
  | a :: as, p :: ps, hf, hc, hn => by
      simp only [HybFreeL, Bool.and_eq_true] at hf
      simp only [CarveNs, Bool.and_eq_true] at hc
      simp only [NoDeadVarlL, Bool.and_eq_true] at hn
      simp only [HSameL, HSame_of_carve asg a hf.1 hc.1.1.1 hn.1, HSameL_of_carve asg as ps hf.2 hc.2 hn.2, Bool.and_self]
end



theorem HSame_of_carveE (asg : List String) (e : CExpr) (hf : HybFree e = true) (hc : CarveE asg e = true)
    (hn : NoDeadVarl ⟨asg, Cfg.asCode⟩ e = true) : HSame ⟨asg, Cfg.asCode⟩ e = true := by
  simp only [CarveE, Bool.and_eq_true] at hc
  exact HSame_of_carve asg e hf hc.1 hn

mutual
/-- **statement carve-out ⇒ part (a)** -/
theorem HSameS_of_carve (env : CEnv) :
    (s : CStmt) → HybFreeS s = true → CarveS (CarveE env.assigned) env s = true →
      NoDeadVarlS ⟨env.assigned, Cfg.asCode⟩ s = true → HSameS ⟨env.assigned, Cfg.asCode⟩ s = true
  | .decl _ _ none, _, _, _ => by simp only [HSameS]
  | .decl t n (some e), hf, hc, hn => by
      simp only [HybFreeS, Bool.and_eq_true] at hf
      simp only [CarveS, Bool.and_eq_true] at hc
      simp only [NoDeadVarlS] at hn
      simp only [HSameS, HSame_of_carveE _ e hf.2 hc.1 hn]
  | .assign lhs op e, hf, hc, hn => by
      simp only [HybFreeS, Bool.and_eq_true] at hf
      simp only [CarveS, Bool.and_eq_true] at hc
      simp only [NoDeadVarlS] at hn
      simp only [HSameS, HSame_of_carveE _ e hf.2 hc.1.2 hn]
  | .chain l1 l2 op2 e, hf, hc, hn => by
      simp only [HybFreeS, Bool.and_eq_true] at hf
      simp only [CarveS, Bool.and_eq_true] at hc
      simp only [NoDeadVarlS] at hn
      simp only [HSameS, HSame_of_carveE _ e hf.2 hc.1.2 hn]
  | .store w e, hf, hc, hn => by
      simp only [HybFreeS] at hf
      simp only [CarveS, Bool.and_eq_true] at hc
      simp only [NoDeadVarlS] at hn
      simp only [HSameS, HSame_of_carveE _ e hf hc.1 hn]
  | .jump e, hf, hc, hn => by
      simp only [HybFreeS] at hf
      simp only [CarveS, Bool.and_eq_true] at hc
      simp only [NoDeadVarlS] at hn
      simp only [HSameS, HSame_of_carveE _ e hf hc.1 hn]
  | .skip _, _, _, _ => by simp only [HSameS]
  | .exprstmt e, hf, hc, hn => by
      simp only [HybFreeS] at hf
      simp only [CarveS] at hc
      simp only [NoDeadVarlS] at hn
      simp only [HSameS, HSame_of_carveE _ e hf hc hn]
  | .ret _, hf, _, _ => by simp [HybFreeS] at hf
  | .ite c t none, hf, hc, hn => by
      simp only [HybFreeS, Bool.and_eq_true, and_true] at hf
      simp only [CarveS, Bool.and_eq_true, and_true] at hc
      simp only [NoDeadVarlS, Bool.and_eq_true, and_true] at hn
      simp only [HSameS, HSame_of_carveE _ c hf.1 hc.1.1 hn.1, HSameSs_of_carve env t hf.2 hc.2 hn.2, Bool.and_self]
  | .ite c t (some el), hf, hc, hn => by
      simp only [HybFreeS, Bool.and_eq_true] at hf
      simp only [CarveS, Bool.and_eq_true] at hc
      simp only [NoDeadVarlS, Bool.and_eq_true] at hn
      simp only [HSameS, HSame_of_carveE _ c hf.1.1 hc.1.1.1 hn.1.1, HSameSs_of_carve env t hf.1.2 hc.1.2 hn.1.2,
        HSameSs_of_carve env el hf.2 hc.2 hn.2, Bool.and_self]
  | .for_ v c step b, hf, hc, hn => by
      simp only [HybFreeS, Bool.and_eq_true] at hf
      simp only [CarveS, Bool.and_eq_true] at hc
      simp only [NoDeadVarlS, Bool.and_eq_true] at hn
      simp only [HSameS, HSame_of_carveE _ c hf.1.1.2 hc.1.1.2 hn.1, HSameSs_of_carve env b hf.1.2 hc.2 hn.2, Bool.and_self]
theorem HSameSs_of_carve (env : CEnv) :
    (ss : List CStmt) → HybFreeSs ss = true → CarveSs (CarveE env.assigned) env ss = true →
      NoDeadVarlSs ⟨env.assigned, Cfg.asCode⟩ ss = true → HSameSs ⟨env.assigned, Cfg.asCode⟩ ss = true
  | [], _, _, _ => by simp only [HSameSs]
  | s :: ss, hf, hc, hn => by
      simp only [HybFreeSs, Bool.and_eq_true] at hf
      simp only [CarveSs, Bool.and_eq_true] at hc
      simp only [NoDeadVarlSs, Bool.and_eq_true] at hn
      simp only [HSameSs, HSameS_of_carve env s hf.1 hc.1 hn.1, HSameSs_of_carve env ss hf.2 hc.2 hn.2, Bool.and_self]
end

end HEqv
end Rzil
