import RzilVerif.Model.Heap
/-!
# Lemmas relating the heap model (`Model/Heap.lean`) to the counting checker `linearProblems`
-/
namespace Rzil

/-! ### the trace of a run -/

theorem allUses_cons (it : Item) (items : List Item) :
    allUses (it :: items) = (match it with
      | .decl _ _ rhs => rhs.uses
      | .ret t => t.uses
      | .comment _ => []) ++ allUses items := by
  cases it <;> simp [allUses]

theorem runFrom_moves (items : List Item) : ∀ st : HeapState,
    (runFrom st items).moves = st.moves ++ allUses items := by
  induction items with
  | nil => intro st; simp [runFrom, allUses]
  | cons it items ih =>
    intro st
    have : runFrom st (it :: items) = runFrom (heapStep st it) items := rfl
    rw [this, ih, allUses_cons]
    cases it with
    | comment s => simp [heapStep]
    | ret t => simp [heapStep]
    | decl ty x rhs =>
      simp only [heapStep]
      cases ilKind ty <;> simp

def HNode.key (n : HNode) : String × Bool := (n.var, n.eff)

theorem runFrom_nodes (items : List Item) : ∀ st : HeapState,
    (runFrom st items).nodes.map HNode.key = st.nodes.map HNode.key ++ heapDecls items := by
  induction items with
  | nil => intro st; simp [runFrom, heapDecls]
  | cons it items ih =>
    intro st
    have : runFrom st (it :: items) = runFrom (heapStep st it) items := rfl
    rw [this, ih]
    cases it with
    | comment s => simp [heapStep, heapDecls]
    | ret t => simp [heapStep, heapDecls]
    | decl ty x rhs =>
      simp only [heapStep, heapDecls, List.filterMap_cons]
      cases ilKind ty <;> simp [HNode.key]

theorem run_moves (items : List Item) : (run items).moves = allUses items := by
  simp [run, runFrom_moves, HeapState.init]

theorem run_nodes (items : List Item) : (run items).nodes.map HNode.key = heapDecls items := by
  simp [run, runFrom_nodes, HeapState.init]

/-! ### attribution of events -/

theorem find_owner_iff (nodes : List HNode) (hd : (nodes.map HNode.var).Nodup) (n : HNode) (hn : n ∈ nodes)
    (y : String) : nodes.find? (fun m => m.var == y) = some n ↔ n.var = y := by
  induction nodes with
  | nil => cases hn
  | cons m rest ih =>
    simp only [List.map_cons, List.nodup_cons] at hd
    rw [List.find?_cons]
    by_cases hm : m.var = y
    · simp only [hm, beq_self_eq_true]
      rcases List.mem_cons.mp hn with rfl | hr
      · simp [hm]
      · constructor
        · intro h; cases h; exact hm
        · intro h
          exact absurd (List.mem_map.mpr ⟨n, hr, h.trans hm.symm⟩) hd.1
    · have : (m.var == y) = false := by simpa using hm
      simp only [this]
      rcases List.mem_cons.mp hn with rfl | hr
      · constructor
        · intro h
          have := List.find?_some h
          simp at this
          exact this
        · intro h; exact absurd h hm
      · exact ih hd.2 hr

theorem consumptions_eq (st : HeapState) (hd : (st.nodes.map HNode.var).Nodup) (n : HNode) (hn : n ∈ st.nodes) :
    st.consumptions n =
      countUses n.var false st.moves + (if n.eff then countUses n.var true st.moves else 0) := by
  unfold HeapState.consumptions HeapState.owner countUses
  generalize st.moves = mv
  induction mv with
  | nil => simp
  | cons e mv ih =>
    obtain ⟨y, d⟩ := e
    simp only [List.filter_cons]
    have hy := find_owner_iff st.nodes hd n hn y
    by_cases hny : n.var = y
    · have h1 : decide (List.find? (fun m => m.var == y) st.nodes = some n) = true := by
        simpa using hy.mpr hny
      have h2 : (y == n.var) = true := by simpa using hny.symm
      simp only [h1, h2, Bool.true_and]
      cases d <;> cases hne : n.eff <;> simp [hne] at ih ⊢ <;> omega
    · have h1 : decide (List.find? (fun m => m.var == y) st.nodes = some n) = false := by
        simpa using fun h => hny (hy.mp h)
      have h2 : (y == n.var) = false := by simpa using fun h : y = n.var => hny h.symm
      simp only [h1, h2, Bool.false_and]
      simpa using ih

/-! ### what an empty report means -/

/-- The per-declaration part of `linearProblems`. -/
def declProblems (us : List (String × Bool)) (items : List Item) : List String :=
  items.foldr (fun it acc => match it with
    | .decl ty name _ =>
        if ty == "RzILOpPure *" || ty == "RzILOpBool *" then
          let raw := countUses name false us
          let dup := countUses name true us
          if raw == 1 then acc
          else if raw == 0 && dup == 0 then s!"pure {name} is initialised but never used (leak)" :: acc
          else if raw == 0 then s!"pure {name} is only used through DUP, the original is never consumed (leak)" :: acc
          else s!"pure {name} is consumed {raw} times without DUP (double free)" :: acc
        else if ty == "RzILOpEffect *" then
          let n := countUses name false us + countUses name true us
          if n == 1 then acc
          else if n == 0 then s!"effect {name} is initialised but never used (leak)" :: acc
          else s!"effect {name} is used {n} times (double free)" :: acc
        else acc
    | _ => acc) []

/-- The parameter part of `linearProblems`. -/
def paramProblems (us : List (String × Bool)) (ps : List Param) : List String :=
  ps.foldr (fun p acc =>
    if p.ty == "RZ_BORROW RzILOpPure *" then
      let raw := countUses p.name false us
      if raw ≤ 1 then acc else s!"borrowed parameter {p.name} is consumed {raw} times without DUP" :: acc
    else acc) []

theorem linearProblems_eq (b : Body) :
    linearProblems b = declProblems (allUses b.items) b.items ++
      (match b.header with
        | none => []
        | some (_, ps) => paramProblems (allUses b.items) ps) := rfl

theorem ite_cons_eq_nil {c : Prop} [Decidable c] {a : String} {l r : List String}
    (h : (if c then a :: l else r) = []) : ¬c ∧ r = [] := by
  by_cases hc : c
  · rw [if_pos hc] at h; cases h
  · rw [if_neg hc] at h; exact ⟨hc, h⟩

theorem heapDecls_cons_decl (ty x : String) (rhs : Term) (items : List Item) :
    heapDecls (.decl ty x rhs :: items) =
      (match ilKind ty with | some k => (x, k) :: heapDecls items | none => heapDecls items) := by
  simp only [heapDecls, List.filterMap_cons]
  cases ilKind ty <;> rfl

theorem declProblems_nil (us : List (String × Bool)) (items : List Item) (h : declProblems us items = []) :
    ∀ x k, (x, k) ∈ heapDecls items →
      (k = false → countUses x false us = 1) ∧ (k = true → countUses x false us + countUses x true us = 1) := by
  induction items with
  | nil => intro x k hx; simp [heapDecls] at hx
  | cons it items ih =>
    have hcons : declProblems us (it :: items) = (match it with
      | .decl ty name _ =>
        if ty == "RzILOpPure *" || ty == "RzILOpBool *" then
          let raw := countUses name false us
          let dup := countUses name true us
          if raw == 1 then declProblems us items
          else if raw == 0 && dup == 0 then s!"pure {name} is initialised but never used (leak)" :: declProblems us items
          else if raw == 0 then s!"pure {name} is only used through DUP, the original is never consumed (leak)" :: declProblems us items
          else s!"pure {name} is consumed {raw} times without DUP (double free)" :: declProblems us items
        else if ty == "RzILOpEffect *" then
          let n := countUses name false us + countUses name true us
          if n == 1 then declProblems us items
          else if n == 0 then s!"effect {name} is initialised but never used (leak)" :: declProblems us items
          else s!"effect {name} is used {n} times (double free)" :: declProblems us items
        else declProblems us items
      | _ => declProblems us items) := by
      cases it <;> rfl
    rw [hcons] at h
    cases it with
    | comment s => simpa [heapDecls] using ih h
    | ret t => simpa [heapDecls] using ih h
    | decl ty name rhs =>
      simp only at h
      intro x k hx
      rw [heapDecls_cons_decl] at hx
      by_cases hp : (ty == "RzILOpPure *" || ty == "RzILOpBool *") = true
      · have hk : ilKind ty = some false := by simp only [ilKind, hp, if_true]
        rw [hk] at hx
        rw [if_pos hp] at h
        by_cases hraw : (countUses name false us == 1) = true
        · rw [if_pos hraw] at h
          rcases List.mem_cons.mp hx with hx | hx
          · cases hx
            exact ⟨fun _ => (by simpa using hraw), fun hk => (by cases hk)⟩
          · exact ih h x k hx
        · rw [if_neg hraw] at h
          have h := (ite_cons_eq_nil h).2
          have h := (ite_cons_eq_nil h).2
          cases h
      · rw [if_neg hp] at h
        by_cases he : (ty == "RzILOpEffect *") = true
        · have hk : ilKind ty = some true := by simp only [ilKind, hp, he, if_true]; rfl
          rw [hk] at hx
          rw [if_pos he] at h
          by_cases hn : (countUses name false us + countUses name true us == 1) = true
          · rw [if_pos hn] at h
            rcases List.mem_cons.mp hx with hx | hx
            · cases hx
              exact ⟨fun hk => (by cases hk), fun _ => by simpa using hn⟩
            · exact ih h x k hx
          · rw [if_neg hn] at h
            have h := (ite_cons_eq_nil h).2
            cases h
        · have hk : ilKind ty = none := by simp only [ilKind, hp, he]; rfl
          rw [hk] at hx
          rw [if_neg he] at h
          exact ih h x k hx

/-! ### converse for pures: a double free is reported -/

theorem declProblems_cons_decl (us : List (String × Bool)) (ty name : String) (rhs : Term) (items : List Item) :
    declProblems us (.decl ty name rhs :: items) =
        if ty == "RzILOpPure *" || ty == "RzILOpBool *" then
          let raw := countUses name false us
          let dup := countUses name true us
          if raw == 1 then declProblems us items
          else if raw == 0 && dup == 0 then s!"pure {name} is initialised but never used (leak)" :: declProblems us items
          else if raw == 0 then s!"pure {name} is only used through DUP, the original is never consumed (leak)" :: declProblems us items
          else s!"pure {name} is consumed {raw} times without DUP (double free)" :: declProblems us items
        else if ty == "RzILOpEffect *" then
          let n := countUses name false us + countUses name true us
          if n == 1 then declProblems us items
          else if n == 0 then s!"effect {name} is initialised but never used (leak)" :: declProblems us items
          else s!"effect {name} is used {n} times (double free)" :: declProblems us items
        else declProblems us items := rfl

theorem declProblems_mono (us : List (String × Bool)) (it : Item) (items : List Item) (m : String)
    (hm : m ∈ declProblems us items) : m ∈ declProblems us (it :: items) := by
  cases it with
  | comment s => exact hm
  | ret t => exact hm
  | decl ty name rhs =>
    rw [declProblems_cons_decl]
    simp only
    repeat' split
    all_goals first | exact hm | exact List.mem_cons_of_mem _ hm

theorem declProblems_double_free (us : List (String × Bool)) (items : List Item) (x : String)
    (hx : (x, false) ∈ heapDecls items) (h2 : 2 ≤ countUses x false us) :
    s!"pure {x} is consumed {countUses x false us} times without DUP (double free)" ∈ declProblems us items := by
  induction items with
  | nil => simp [heapDecls] at hx
  | cons it items ih =>
    cases it with
    | comment s => exact ih (by simpa [heapDecls] using hx)
    | ret t => exact ih (by simpa [heapDecls] using hx)
    | decl ty name rhs =>
      rw [heapDecls_cons_decl] at hx
      by_cases hp : (ty == "RzILOpPure *" || ty == "RzILOpBool *") = true
      · have hk : ilKind ty = some false := by simp only [ilKind, hp, if_true]
        rw [hk] at hx
        rcases List.mem_cons.mp hx with hx | hx
        · cases hx
          rw [declProblems_cons_decl, if_pos hp]
          have h1 : ¬ (countUses x false us == 1) = true := by simp; omega
          have h0 : ¬ (countUses x false us == 0) = true := by simp; omega
          have h00 : ¬ (countUses x false us == 0 && countUses x true us == 0) = true := by simp; omega
          simp only
          rw [if_neg h1, if_neg h00, if_neg h0]
          exact List.mem_cons_self
        · exact declProblems_mono _ _ _ _ (ih hx)
      · by_cases he : (ty == "RzILOpEffect *") = true
        · have hk : ilKind ty = some true := by simp only [ilKind, hp, he, if_true]; rfl
          rw [hk] at hx
          rcases List.mem_cons.mp hx with hx | hx
          · cases hx
          · exact declProblems_mono _ _ _ _ (ih hx)
        · have hk : ilKind ty = none := by simp only [ilKind, hp, he]; rfl
          rw [hk] at hx
          exact declProblems_mono _ _ _ _ (ih hx)

theorem paramProblems_nil (us : List (String × Bool)) (ps : List Param) (h : paramProblems us ps = []) :
    ∀ p ∈ ps, p.ty = "RZ_BORROW RzILOpPure *" → countUses p.name false us ≤ 1 := by
  induction ps with
  | nil => intro p hp; cases hp
  | cons q ps ih =>
    have hcons : paramProblems us (q :: ps) =
        if q.ty == "RZ_BORROW RzILOpPure *" then
          let raw := countUses q.name false us
          if raw ≤ 1 then paramProblems us ps
          else s!"borrowed parameter {q.name} is consumed {raw} times without DUP" :: paramProblems us ps
        else paramProblems us ps := rfl
    rw [hcons] at h
    intro p hp hty
    by_cases hq : (q.ty == "RZ_BORROW RzILOpPure *") = true
    · simp only [hq, if_true] at h
      by_cases hr : countUses q.name false us ≤ 1
      · simp only [hr, if_true] at h
        rcases List.mem_cons.mp hp with rfl | hp'
        · exact hr
        · exact ih h p hp' hty
      · simp only [hr, if_false] at h
        cases h
    · simp only [hq] at h
      rcases List.mem_cons.mp hp with rfl | hp'
      · exact absurd (by simpa using hty) hq
      · exact ih h p hp' hty

end Rzil
