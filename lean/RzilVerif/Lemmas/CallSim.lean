import RzilVerif.Lemmas.CallRet
import RzilVerif.Lemmas.CallPend
import RzilVerif.Lemmas.CallFrame
/-!
  C08 helpers, part 5: executing a call on the IL side, the isolation corollary of the frame lemma, and the
  end-to-end simulation of a call with side-effect free arguments.
-/
namespace Rzil
namespace C08

open C05 (bind_ok bind_ok_of Sim lookupS_setLocal_ne lookupS_setLocal_self execIL_mono)

/-! ## names of compiled routines -/

theorem hex_startsWith (name : String) : ("hex_" ++ name).startsWith "hex_" = true := by simp

theorem hex_drop (name : String) : (("hex_" ++ name).drop 4).toString = name := by
  apply String.ext; simp

/-! ## `execIL` on a call -/

theorem execIL_call_hex {ms : MacroSem} {subs : SubEnv} {f : Nat} {σ σb : MState} {name : String}
    {args : List ILPure} {vs : List Val} {ps : List String} {body : ILEffect}
    (hargs : evalPures ms σ [] args = .ok vs) (hsub : lookupS name subs = some (ps, body))
    (hbody : execIL ms subs f body { σ with params := ps.zip vs } = .ok σb) :
    execIL ms subs (f+1) (.call ("hex_" ++ name) args) σ = .ok { σb with params := σ.params } := by
  rw [execIL]
  simp only [hargs, bind, Except.bind, hex_startsWith, ↓reduceIte, hex_drop, hsub, hbody]

/-- a successful call of `hex_<name>` ran the compiled body of `name` — or, if no body is supplied, `name` is one of the
    specification-level routines `set_usr_field`, `get_usr_field` (`ILSem.lean`) -/
theorem execIL_call_hex_inv {ms : MacroSem} {subs : SubEnv} {f : Nat} {σ σ' : MState} {name : String}
    {args : List ILPure} (h : execIL ms subs (f+1) (.call ("hex_" ++ name) args) σ = .ok σ') :
    (∃ vs ps body σb, evalPures ms σ [] args = .ok vs ∧ lookupS name subs = some (ps, body) ∧
      execIL ms subs f body { σ with params := ps.zip vs } = .ok σb ∧ σ' = { σb with params := σ.params }) ∨
    (lookupS name subs = none ∧ ∃ vs, evalPures ms σ [] args = .ok vs ∧
      (setUsrFieldIL σ args vs = .ok σ' ∨ (name = "get_usr_field" ∧ getUsrFieldIL σ args = .ok σ'))) := by
  rw [execIL] at h
  obtain ⟨vs, hvs, h⟩ := bind_ok h
  rw [if_pos (hex_startsWith name), hex_drop] at h
  cases hl : lookupS name subs with
  | none =>
    rw [hl] at h
    simp only at h
    split at h
    · exact Or.inr ⟨rfl, vs, hvs, Or.inl h⟩
    · split at h
      · next hg =>
        have hn : name = "get_usr_field" := by
          have := eq_of_beq hg
          have h2 : ("hex_" ++ name).drop 4 = ("hex_get_usr_field" : String).drop 4 := by rw [this]
          have h3 := congrArg String.Slice.toString h2
          rw [hex_drop] at h3
          exact h3.trans (by decide)
        exact Or.inr ⟨rfl, vs, hvs, Or.inr ⟨hn, h⟩⟩
      · simp at h
  | some pb =>
    obtain ⟨ps, body⟩ := pb
    rw [hl] at h
    simp only at h
    obtain ⟨σb, hb, h⟩ := bind_ok h
    injection h with h
    exact Or.inl ⟨vs, ps, body, σb, hvs, rfl, hb, h.symm⟩

theorem writes_call_hex {subs : SubEnv} {f : Nat} {name : String} {args : List ILPure} {ps : List String}
    {body : ILEffect} (hsub : lookupS name subs = some (ps, body)) :
    writes subs (f+1) (.call ("hex_" ++ name) args) = writes subs f body := by
  simp only [writes, hex_startsWith, ↓reduceIte, hex_drop, hsub]

/-! ## isolation, the part that holds -/

/-- **Corollary of the frame lemma.** If the callee (transitively) sets none of the locals in `L`, the call
    leaves them as they are; it restores `params` in any case and never changes `cur`/`imm`/`pktAddr`. -/
theorem call_preserves_disjoint_locals {ms : MacroSem} {subs : SubEnv} {f : Nat} {σ σ' : MState} {name : String}
    {args : List ILPure} {ps : List String} {body : ILEffect} {L : List String}
    (h : execIL ms subs (f+1) (.call ("hex_" ++ name) args) σ = .ok σ')
    (hsub : lookupS name subs = some (ps, body))
    (hd : ∀ n ∈ L, n ∉ writtenLocals subs f body) :
    (∀ n ∈ L, lookupS n σ'.locals = lookupS n σ.locals) ∧ σ'.params = σ.params ∧ σ'.cur = σ.cur ∧
      σ'.imm = σ.imm ∧ σ'.pktAddr = σ.pktAddr := by
  have fr := execIL_frame h
  rw [writes_call_hex hsub] at fr
  refine ⟨?_, fr.params, fr.cur, fr.imm, fr.pktAddr⟩
  intro n hn
  exact fr.locals n (fun hm => hd n hn (mem_writtenLocals.mpr hm))

/-- the same with the executable side condition -/
theorem call_preserves_disjoint_locals' {ms : MacroSem} {subs : SubEnv} {f : Nat} {σ σ' : MState} {name : String}
    {args : List ILPure} {L : List String}
    (h : execIL ms subs (f+1) (.call ("hex_" ++ name) args) σ = .ok σ')
    (hd : calleeDisjoint subs f name L = true) :
    ∀ n ∈ L, lookupS n σ'.locals = lookupS n σ.locals := by
  rcases execIL_call_hex_inv h with ⟨vs, ps, body, σb, _, hsub, _, _⟩ | ⟨hnone, vs, _, hset | ⟨hname, hget⟩⟩
  · refine (call_preserves_disjoint_locals h hsub ?_).1
    intro n hn
    simp only [calleeDisjoint, hsub, List.all_eq_true, Bool.not_eq_eq_eq_not, Bool.not_true] at hd
    have := hd n hn
    simpa using this
  · -- no compiled body: the specification-level routine writes its abstract cell only
    intro n _
    exact (setUsrFieldIL_frame hset).locals n (by
      unfold usrWrites; split <;> simp)
  · -- `get_usr_field` without a compiled body sets `ret_val` only, which the side condition excludes from `L`
    intro n hn
    refine (getUsrFieldIL_frame hget).locals n ?_
    subst hname
    simp only [calleeDisjoint, hnone, beq_self_eq_true, Bool.true_and] at hd
    intro hm
    simp only [List.mem_singleton, Res.loc.injEq] at hm
    subst hm
    simp only [Bool.not_eq_eq_eq_not, Bool.not_true] at hd
    have : L.contains "ret_val" = true := List.contains_iff_mem.mpr hn
    rw [hd] at this; exact Bool.noConfusion this

/-- registers and memory: a call changes them only through the body's own `WRITE_REG`/`STOREW` -/
theorem call_preserves_regs_mem {ms : MacroSem} {subs : SubEnv} {f : Nat} {σ σ' : MState} {name : String}
    {args : List ILPure} {ps : List String} {body : ILEffect}
    (h : execIL ms subs (f+1) (.call ("hex_" ++ name) args) σ = .ok σ')
    (hsub : lookupS name subs = some (ps, body)) :
    (∀ k, k ∉ writtenRegs subs f body → σ'.new k = σ.new k ∧ σ'.written k = σ.written k) ∧
    (storesMem subs f body = false → σ'.mem = σ.mem ∧ σ'.stores = σ.stores) := by
  have fr := execIL_frame h
  rw [writes_call_hex hsub] at fr
  exact ⟨fun k hk => fr.regs k (fun hm => hk (mem_writtenRegs.mpr hm)),
    fun hm => fr.mem (storesMem_false.mp hm)⟩

/-! ## the rendered `[call, setTmp]` pair -/

/-- executing `SEQN(hex_<name>(args), SETL(h_tmpN, SIGNED/UNSIGNED(w, VARL ret_val)))` -/
theorem exec_callCore {ms : MacroSem} {subs : SubEnv} {fB : Nat} {σ σb : MState} (st1 : HSt) {name : String}
    {cargs : List ILPure} (ret : CT) {vs : List Val} {ps : List String} {body : ILEffect} {r : BitVec 64}
    (hargs : evalPures ms σ [] cargs = .ok vs) (hsub : lookupS name subs = some (ps, body))
    (hbody : execIL ms subs fB body { σ with params := ps.zip vs } = .ok σb)
    (hret : lookupS "ret_val" σb.locals = some (.bv 64 r)) :
    ∀ f, fB + 3 ≤ f →
      execIL ms subs f (.seqn [(callEntry st1 name cargs ret).exec, (callEntry st1 name cargs ret).setTmp]) σ =
      .ok { σb with params := σ.params,
                    locals := setLocal σb.locals (tmpName st1.hyb) (.bv ret.width (convBits ⟨ret.signed, 64⟩ ret r)) } := by
  have hstep : execIL ms subs (fB + 3) (.seqn [(callEntry st1 name cargs ret).exec, (callEntry st1 name cargs ret).setTmp]) σ =
      .ok { σb with params := σ.params,
                    locals := setLocal σb.locals (tmpName st1.hyb) (.bv ret.width (convBits ⟨ret.signed, 64⟩ ret r)) } := by
    obtain ⟨k, rfl⟩ : ∃ k, fB = k + 1 := by
      cases fB with
      | zero => simp [execIL] at hbody
      | succ k => exact ⟨k, rfl⟩
    rw [execIL, execSeq]
    have h1 : execIL ms subs (k + 1 + 1) (callEntry st1 name cargs ret).exec σ = .ok { σb with params := σ.params } :=
      execIL_call_hex hargs hsub hbody
    refine bind_ok_of h1 ?_
    rw [execSeq]
    have h2 := exec_setTmp (ms := ms) (subs := subs) (f := k) (σ := { σb with params := σ.params }) st1 name cargs ret hret
    refine bind_ok_of h2 ?_
    rw [execSeq]
  intro f hf
  exact execIL_mono hstep f hf

/-- what the caller sees after the pair, against the state before: the frame of the body, plus the temporary -/
theorem callCore_frame {ms : MacroSem} {subs : SubEnv} {fB : Nat} {σ σb : MState} {vs : List Val} {ps : List String}
    {body : ILEffect} (tmp : String) (v : Val)
    (hbody : execIL ms subs fB body { σ with params := ps.zip vs } = .ok σb) :
    ∀ n, n ∉ writtenLocals subs fB body → n ≠ tmp →
      lookupS n (setLocal σb.locals tmp v) = lookupS n σ.locals := by
  intro n hn ht
  rw [lookupS_setLocal_ne ht]
  exact (execIL_frame hbody).locals n (fun hm => hn (mem_writtenLocals.mpr hm))

/-! ## 6. end-to-end: a call with side-effect free arguments -/

/-- The IL state `σ'` after the rendered call against the C state `σC` after the C call, both started in `σ`. -/
structure CallPost (subs : SubEnv) (fB : Nat) (body : ILEffect) (tmp : String) (σ σC σ' : MState) : Prop where
  new : σ'.new = σC.new
  written : σ'.written = σC.written
  mem : σ'.mem = σC.mem
  stores : σ'.stores = σC.stores
  cur : σ'.cur = σC.cur
  imm : σ'.imm = σC.imm
  pktAddr : σ'.pktAddr = σC.pktAddr
  params : σ'.params = σ.params
  /-- C isolates the callee: the caller's locals are untouched -/
  clocals : σC.locals = σ.locals
  /-- the IL side agrees on every local the callee does not set (and that is not the call's own temporary) -/
  locals : ∀ n, n ∉ writtenLocals subs fB body → n ≠ tmp → lookupS n σ'.locals = lookupS n σC.locals

/-- the IL half shared by both kinds of callee -/
theorem call_sim_IL {ms : MacroSem} {csubs : CSubEnv} {subs : SubEnv} {env : CEnv} {σ σb : MState} {st st' : HSt}
    {name : String} {args : List CExpr} {ret : CT} {params : List CT} {ce : CE} {vCs vs : List Val}
    {ps : List String} {body : ILEffect} {fB : Nat} {r : BitVec 64}
    (hcfg : env.cfg = Cfg.fixed)
    (hc : compileExprH env st (.call name args ret params) = .ok (ce, st'))
    (hp : ∀ p ∈ params, p.width ≠ 1)
    (hargs : ArgsOK ms csubs env σ args vCs)
    (hvs : convArgs args params vCs = .ok vs)
    (hsub : lookupS name subs = some (ps, body))
    (hbody : execIL ms subs fB body { σ with params := ps.zip vs } = .ok σb)
    (hret : lookupS "ret_val" σb.locals = some (.bv 64 r)) :
    ∃ (P : Pend) (rest : List Pend) (σ' : MState),
      st'.pending = rest ++ [P] ∧ P.setFirst = false ∧ ce.il = .varl P.tmp ∧ ce.ty = ret.toVT ∧
      (∃ F, ∀ f, F ≤ f → evalCHArgs ms csubs f σ args params = .ok (vs, σ)) ∧
      (∀ f, fB + 3 ≤ f → execIL ms subs f (.seqn [P.exec, P.setTmp]) σ = .ok σ') ∧
      Sim ms σ' ce ret (.bv ret.width (convBits ⟨ret.signed, 64⟩ ret r)) ∧
      σ'.new = σb.new ∧ σ'.written = σb.written ∧ σ'.mem = σb.mem ∧ σ'.stores = σb.stores ∧
      σ'.cur = σ.cur ∧ σ'.imm = σ.imm ∧ σ'.pktAddr = σ.pktAddr ∧ σ'.params = σ.params ∧
      (∀ n, n ∉ writtenLocals subs fB body → n ≠ P.tmp → lookupS n σ'.locals = lookupS n σ.locals) := by
  obtain ⟨cargs, st1, hca, rfl, rfl⟩ := compileExprH_call hc
  obtain ⟨vs', hvs', hpures, hCargs⟩ := compileArgsH_sim hcfg hargs hca hp
  rw [hvs] at hvs'
  injection hvs' with hvs'
  subst hvs'
  have fr := execIL_frame hbody
  refine ⟨callEntry st1 name cargs ret, _, _, rfl, rfl, rfl, rfl, hCargs,
    exec_callCore st1 ret hpures hsub hbody hret, ?_, rfl, rfl, rfl, rfl, fr.cur, fr.imm, fr.pktAddr, rfl, ?_⟩
  · exact sim_callValue (σ := { σb with params := σ.params }) st1.hyb ret _
  · exact callCore_frame _ _ hbody

/-- **End-to-end, bundled routine.** Under the repaired lowering, a call whose arguments are free of side effects,
    to a routine whose compiled body computes the routine's closed form (up to the width of the return type) and
    writes no register or memory, hands the consumer the C value; the caller's locals outside the callee's
    footprint are unchanged. -/
theorem call_sim_builtin {ms : MacroSem} {csubs : CSubEnv} {subs : SubEnv} {env : CEnv} {σ σb : MState} {st st' : HSt}
    {name : String} {args : List CExpr} {ret : CT} {params : List CT} {ce : CE} {vCs vs : List Val}
    {ps : List String} {body : ILEffect} {fB : Nat} {r : BitVec 64} {v : Val}
    (hcfg : env.cfg = Cfg.fixed)
    (hc : compileExprH env st (.call name args ret params) = .ok (ce, st'))
    (hp : ∀ p ∈ params, p.width ≠ 1)
    (hargs : ArgsOK ms csubs env σ args vCs)
    (hvs : convArgs args params vCs = .ok vs)
    (hsub : lookupS name subs = some (ps, body))
    (hbody : execIL ms subs fB body { σ with params := ps.zip vs } = .ok σb)
    (hret : lookupS "ret_val" σb.locals = some (.bv 64 r))
    -- the C meaning of the routine, and the body computes it
    (hcsub : lookupS name csubs = none) (hb : builtinSub name vs = some v)
    (hw : ret.width ≤ 64)
    (hval : BitVec.ofNat ret.width r.toNat = BitVec.ofNat ret.width (natOfVal v))
    (hnew : σb.new = σ.new) (hwr : σb.written = σ.written) (hmem : σb.mem = σ.mem) (hst : σb.stores = σ.stores) :
    ∃ (P : Pend) (rest : List Pend) (σ' : MState) (xC : BitVec ret.width),
      st'.pending = rest ++ [P] ∧
      (∃ F, ∀ f, F ≤ f → evalCH ms csubs f σ (.call name args ret params) = .ok (.bv ret.width xC, σ)) ∧
      (∃ F, ∀ f, F ≤ f → execIL ms subs f (.seqn [P.exec, P.setTmp]) σ = .ok σ') ∧
      Sim ms σ' ce ret (.bv ret.width xC) ∧
      CallPost subs fB body P.tmp σ σ σ' := by
  obtain ⟨P, rest, σ', hpend, _, _, _, ⟨FA, hA⟩, hIL, hsim, h1, h2, h3, h4, h5, h6, h7, h8, h9⟩ :=
    call_sim_IL hcfg hc hp hargs hvs hsub hbody hret
  refine ⟨P, rest, σ', BitVec.ofNat ret.width (natOfVal v), hpend, ⟨FA + 1, ?_⟩, ⟨fB + 3, hIL⟩, ?_, ?_⟩
  · intro f hf
    obtain ⟨f', rfl⟩ : ∃ f', f = f' + 1 := ⟨f - 1, by omega⟩
    exact evalCH_call_builtin (hA f' (by omega)) hcsub hb
  · rw [convBits_trunc _ _ _ hw, hval] at hsim; exact hsim
  · exact ⟨h1.trans hnew, h2.trans hwr, h3.trans hmem, h4.trans hst, h5, h6, h7, h8, rfl, h9⟩

/-- **End-to-end, generated routine.** The callee's compiled body is assumed to simulate its C body: started on
    the converted arguments it leaves in `ret_val` a value whose conversion to the return type is the C result, and
    the same registers and memory. -/
theorem call_sim_sub {ms : MacroSem} {csubs : CSubEnv} {subs : SubEnv} {env : CEnv} {σ σb σr : MState} {st st' : HSt}
    {name : String} {args : List CExpr} {ret : CT} {params : List CT} {ce : CE} {vCs vs : List Val}
    {ps : List String} {body : ILEffect} {fB : Nat} {r : BitVec 64} {sub : CSub} {xC : BitVec ret.width}
    (hcfg : env.cfg = Cfg.fixed)
    (hc : compileExprH env st (.call name args ret params) = .ok (ce, st'))
    (hp : ∀ p ∈ params, p.width ≠ 1)
    (hargs : ArgsOK ms csubs env σ args vCs)
    (hvs : convArgs args params vCs = .ok vs)
    (hsub : lookupS name subs = some (ps, body))
    (hbody : execIL ms subs fB body { σ with params := ps.zip vs } = .ok σb)
    (hret : lookupS "ret_val" σb.locals = some (.bv 64 r))
    -- the C body, and the compiled body simulates it
    (hcsub : lookupS name csubs = some sub)
    (hCbody : ∃ F, ∀ f, F ≤ f →
      execCHs ms csubs f sub.body { σ with locals := (sub.params.map (·.1)).zip vs } = .ok σr)
    {vr : Val} (hCret : lookupS "$ret" σr.locals = some vr)
    (hCconv : convC { signed := false, width := 64 } sub.ret vr = .ok (.bv ret.width xC))
    (hval : convBits ⟨ret.signed, 64⟩ ret r = xC)
    (hnew : σb.new = σr.new) (hwr : σb.written = σr.written) (hmem : σb.mem = σr.mem) (hst : σb.stores = σr.stores) :
    ∃ (P : Pend) (rest : List Pend) (σ' σC : MState),
      st'.pending = rest ++ [P] ∧
      (∃ F, ∀ f, F ≤ f → evalCH ms csubs f σ (.call name args ret params) = .ok (.bv ret.width xC, σC)) ∧
      (∃ F, ∀ f, F ≤ f → execIL ms subs f (.seqn [P.exec, P.setTmp]) σ = .ok σ') ∧
      Sim ms σ' ce ret (.bv ret.width xC) ∧
      CallPost subs fB body P.tmp σ σC σ' := by
  obtain ⟨P, rest, σ', hpend, _, _, _, ⟨FA, hA⟩, hIL, hsim, h1, h2, h3, h4, h5, h6, h7, h8, h9⟩ :=
    call_sim_IL hcfg hc hp hargs hvs hsub hbody hret
  obtain ⟨FB, hB⟩ := hCbody
  refine ⟨P, rest, σ', { σ with mem := σr.mem, stores := σr.stores, new := σr.new, written := σr.written },
    hpend, ⟨max FA FB + 1, ?_⟩, ⟨fB + 3, hIL⟩, ?_, ?_⟩
  · intro f hf
    obtain ⟨f', rfl⟩ : ∃ f', f = f' + 1 := ⟨f - 1, by omega⟩
    exact evalCH_call_sub (hA f' (by omega)) hcsub (hB f' (by omega)) hCret hCconv
  · rw [hval] at hsim; exact hsim
  · exact ⟨h1.trans hnew, h2.trans hwr, h3.trans hmem, h4.trans hst, h5, h6, h7, h8, rfl, h9⟩

end C08
end Rzil
