import RzilVerif.Lemmas.CallFrame
/-!
  The immediates as a frame: a behaviour that never assigns to an immediate leaves `MState.imm` as it was (C side,
  `execCs_imm`), and no effect ever writes `MState.imm` (IL side, `C08.execIL_frame`).  Hence for such behaviours the
  end-to-end theorems also give equal immediates in the two final states (`imm_eq_of_noImmTargets`) — the clause the
  state relation `StRel` had before assignable immediates (`riV = riV & ~3`) were admitted as assignment targets.
-/
namespace Rzil
namespace C05

mutual
/-- no assignment (simple, compound or chained) to an immediate anywhere in the statement -/
def noImmTarget : CStmt → Bool
  | .assign (.imm _ _) _ _ => false
  | .chain (.imm _ _) _ _ _ => false
  | .chain _ (.imm _ _) _ _ => false
  | .ite _ t e => noImmTargets t && (match e with | some e => noImmTargets e | none => true)
  | .for_ _ _ _ b => noImmTargets b
  | _ => true
def noImmTargets : List CStmt → Bool
  | [] => true
  | s :: ss => noImmTarget s && noImmTargets ss
end

theorem assign_imm_frame {ms : MacroSem} {f : Nat} {lhs : CExpr} {op : String} {e : CExpr} {σ σ' : MState}
    (hl : ∀ l s, lhs ≠ .imm l s) (h : execC ms (f+1) (.assign lhs op e) σ = .ok σ') : σ'.imm = σ.imm := by
  simp only [execC] at h
  obtain ⟨v, _, h⟩ := bind_ok h
  obtain ⟨v', _, h⟩ := bind_ok h
  cases lhs with
  | var n t => simp only [Except.ok.injEq] at h; subst h; rfl
  | reg n k t =>
    cases v' with
    | bv w x => simp only [writeRegC, Except.ok.injEq] at h; subst h; rfl
    | _ => simp [writeRegC] at h
  | imm l s => exact absurd rfl (hl l s)
  | _ => simp at h

/-- C side: statements, statement lists and loops without an immediate target keep the immediates -/
theorem execC_imm_aux (ms : MacroSem) : ∀ f : Nat,
    (∀ s σ σ', noImmTarget s = true → execC ms f s σ = .ok σ' → σ'.imm = σ.imm) ∧
    (∀ ss σ σ', noImmTargets ss = true → execCs ms f ss σ = .ok σ' → σ'.imm = σ.imm) ∧
    (∀ v c k b σ σ', noImmTargets b = true → loopC ms f v c k b σ = .ok σ' → σ'.imm = σ.imm) := by
  intro f
  induction f with
  | zero =>
    refine ⟨?_, ?_, ?_⟩
    · intro s σ σ' _ h; simp [execC] at h
    · intro ss σ σ' _ h; simp [execCs] at h
    · intro v c k b σ σ' _ h; simp [loopC] at h
  | succ f ih =>
    obtain ⟨ihE, ihS, ihL⟩ := ih
    refine ⟨?_, ?_, ?_⟩
    · intro s σ σ' hn h
      cases s with
      | decl t n init =>
        cases init with
        | none => simp only [execC, Except.ok.injEq] at h; subst h; rfl
        | some e =>
          simp only [execC] at h
          obtain ⟨v, _, h⟩ := bind_ok h
          obtain ⟨v', _, h⟩ := bind_ok h
          simp only [Except.ok.injEq] at h; subst h; rfl
      | assign lhs op e =>
        refine assign_imm_frame (fun l s hEq => ?_) h
        subst hEq; simp [noImmTarget] at hn
      | store w e =>
        simp only [execC] at h
        obtain ⟨v, _, h⟩ := bind_ok h
        obtain ⟨v', _, h⟩ := bind_ok h
        split at h
        · simp only [Except.ok.injEq] at h; subst h; rfl
        · simp at h
      | ite c t e =>
        simp only [execC] at h
        obtain ⟨vc, _, h⟩ := bind_ok h
        obtain ⟨b, _, h⟩ := bind_ok h
        cases e with
        | none =>
          simp only [noImmTarget, Bool.and_eq_true] at hn
          cases b with
          | true => simp only [↓reduceIte] at h; exact ihS _ _ _ hn.1 h
          | false => simp only [Bool.false_eq_true, ↓reduceIte, Except.ok.injEq] at h; subst h; rfl
        | some e =>
          simp only [noImmTarget, Bool.and_eq_true] at hn
          cases b with
          | true => simp only [↓reduceIte] at h; exact ihS _ _ _ hn.1 h
          | false => simp only [Bool.false_eq_true, ↓reduceIte] at h; exact ihS _ _ _ hn.2 h
      | for_ v c k b =>
        simp only [execC] at h
        simp only [noImmTarget] at hn
        have e := ihL _ _ _ _ _ _ hn h   -- the initialisation of the counter changes a local only
        exact e
      | chain l1 l2 op2 e =>
        simp only [execC] at h
        obtain ⟨σ1, h1, h2⟩ := bind_ok h
        cases f with
        | zero => simp [execC] at h1
        | succ f =>
          have e2 : σ1.imm = σ.imm := by
            refine assign_imm_frame (fun l s hEq => ?_) h1
            subst hEq; cases l1 <;> simp [noImmTarget] at hn
          have e1 : σ'.imm = σ1.imm := by
            refine assign_imm_frame (fun l s hEq => ?_) h2
            subst hEq; simp [noImmTarget] at hn
          exact e1.trans e2
      | jump e =>
        simp only [execC] at h
        obtain ⟨v, _, h⟩ := bind_ok h
        obtain ⟨v', _, h⟩ := bind_ok h
        simp only [Except.ok.injEq] at h; subst h; rfl
      | skip w =>
        simp only [execC] at h
        split at h <;> (simp only [Except.ok.injEq] at h; subst h; rfl)
      | exprstmt e =>
        simp only [execC] at h
        obtain ⟨v, _, h⟩ := bind_ok h
        simp only [Except.ok.injEq] at h; subst h; rfl
      | ret e => simp [execC] at h
      | vcall n x a p => simp [execC] at h
    · intro ss σ σ' hn h
      cases ss with
      | nil => simp only [execCs, Except.ok.injEq] at h; subst h; rfl
      | cons s ss =>
        rw [execCs] at h
        obtain ⟨σ1, h1, h2⟩ := bind_ok h
        simp only [noImmTargets, Bool.and_eq_true] at hn
        exact (ihS _ _ _ hn.2 h2).trans (ihE _ _ _ hn.1 h1)
    · intro v c k b σ σ' hn h
      rw [loopC] at h
      obtain ⟨vc, _, h⟩ := bind_ok h
      obtain ⟨bb, _, h⟩ := bind_ok h
      cases bb with
      | false => simp only [Bool.false_eq_true, ↓reduceIte, Except.ok.injEq] at h; subst h; rfl
      | true =>
        simp only [↓reduceIte] at h
        obtain ⟨σ1, h1, h2⟩ := bind_ok h
        split at h2
        · have e1 := ihS _ _ _ hn h1
          have e2 := ihL _ _ _ _ _ _ hn h2
          exact e2.trans e1
        · simp at h2

/-- C side: a behaviour without an immediate target keeps the immediates -/
theorem ExecCs_imm {ms : MacroSem} {prog : List CStmt} {σ σ' : MState} (hn : noImmTargets prog = true)
    (h : ExecCs ms prog σ σ') : σ'.imm = σ.imm := by
  obtain ⟨f, hf⟩ := ExecCs_iff.1 h
  exact (execC_imm_aux ms f).2.1 _ _ _ hn hf

/-- IL side: no effect writes the immediates -/
theorem ExecIL_imm {ms : MacroSem} {eff : ILEffect} {σ σ' : MState} (h : ExecIL ms eff σ σ') : σ'.imm = σ.imm := by
  obtain ⟨f, hf⟩ := ExecIL_iff.1 h
  exact (C08.execIL_frame hf).imm

/-- **the clause `StRel` lost**: for a behaviour that assigns to no immediate, the final states of the C execution and
    of ANY effect's execution from the same initial state have the same immediates -/
theorem imm_eq_of_noImmTargets {ms : MacroSem} {prog : List CStmt} {eff : ILEffect} {σ0 σC' σIL' : MState}
    (hn : noImmTargets prog = true) (hC : ExecCs ms prog σ0 σC') (hIL : ExecIL ms eff σ0 σIL') :
    σC'.imm = σIL'.imm :=
  (ExecCs_imm hn hC).trans (ExecIL_imm hIL).symm

end C05
end Rzil
