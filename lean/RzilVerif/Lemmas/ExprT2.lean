import RzilVerif.Props.C03
/-!
# T2 for expressions: where the lowering as coded equals the repaired lowering (site lemmas and cases)
-/
namespace Rzil

theorem promotionCast_asCode_eq_fixed (p : CE) (h : promoSafe p = true) :
    promotionCast Cfg.asCode p = promotionCast Cfg.fixed p := by
  rw [promotionCast_eq, promotionCast_eq]; exact initACast_asCode_eq_fixed _ _ h

theorem castSafe_group (t : VT) (p : CE) (hg : t.group = 1) :
    CastSafe { t with group := 1 } p = CastSafe t p := by
  cases t; simp only at hg; subst hg; rfl

theorem castOperands_asCode_eq_fixed (a b : CE) (h : castOpsSafe a b = true) :
    castOperands Cfg.asCode a b = castOperands Cfg.fixed a b := by
  unfold castOpsSafe at h
  by_cases he : a.ty.eqv b.ty = true
  · unfold castOperands; rw [if_pos he, if_pos he]
  · simp only [he, Bool.false_or, Bool.and_eq_true, beq_iff_eq] at h
    obtain ⟨⟨⟨g1, g2⟩, s1⟩, s2⟩ := h
    rw [castOperands_eq, castOperands_eq]
    have e1 : adjGroup Cfg.asCode (VT.c11Cast a.ty b.ty).1 = adjGroup Cfg.fixed (VT.c11Cast a.ty b.ty).1 := by
      simp only [adjGroup, cfgsimp, if_true, Bool.false_eq_true, if_false]
      generalize (VT.c11Cast a.ty b.ty).1 = t at *
      cases t; simp only at g1; subst g1; rfl
    have e2 : adjGroup Cfg.asCode (VT.c11Cast a.ty b.ty).2 = adjGroup Cfg.fixed (VT.c11Cast a.ty b.ty).2 := by
      simp only [adjGroup, cfgsimp, if_true, Bool.false_eq_true, if_false]
      generalize (VT.c11Cast a.ty b.ty).2 = t at *
      cases t; simp only at g2; subst g2; rfl
    have a1 : adjGroup Cfg.asCode (VT.c11Cast a.ty b.ty).1 = (VT.c11Cast a.ty b.ty).1 := by
      simp only [adjGroup, cfgsimp, if_true]
    have a2 : adjGroup Cfg.asCode (VT.c11Cast a.ty b.ty).2 = (VT.c11Cast a.ty b.ty).2 := by
      simp only [adjGroup, cfgsimp, if_true]
    rw [← e1, ← e2, a1, a2, initACast_asCode_eq_fixed _ _ s1, initACast_asCode_eq_fixed _ _ s2]

theorem compileBin_asCode_eq_fixed (asg : List String) (op : String) (ca cb : CE) (h : arithSafe ca cb = true) :
    compileBin ⟨asg, Cfg.asCode⟩ op ca cb = compileBin ⟨asg, Cfg.fixed⟩ op ca cb := by
  unfold arithSafe at h
  simp only [Bool.and_eq_true] at h
  rw [compileBin_eq, compileBin_eq]
  simp only
  rw [promotionCast_asCode_eq_fixed _ h.1.1, promotionCast_asCode_eq_fixed _ h.1.2,
    castOperands_asCode_eq_fixed _ _ h.2]

theorem condIL_asCode_eq_fixed (e : CExpr) (ce : CE) (h : condSafe e ce = true) :
    condIL Cfg.asCode ce = condIL Cfg.fixed (normTy e ce) := by
  unfold condSafe at h
  unfold condIL condILk normTy
  simp only [cfgsimp, if_true, Bool.false_eq_true, if_false]
  cases hn : isNotLog e
  · simp only [hn, Bool.false_or, Bool.false_eq_true, if_false] at h ⊢
    cases hb : ce.ty.hasFlag VT.gBOOL
    · simp only [hb, beq_false, Bool.not_eq_true', beq_eq_false_iff_ne, ne_eq] at h
      simp only [Bool.false_eq_true, if_false]
    · simp only [hb, beq_true, beq_iff_eq] at h
      simp only [h, if_true]
  · simp only [hn, Bool.true_or, beq_true, beq_iff_eq] at h
    simp only [h, if_true, gBoolT_bool]



def PN (asg : List String) (e : CExpr) : Prop :=
  CarveN asg e = true →
    compileExpr ⟨asg, Cfg.fixed⟩ e = (compileExpr ⟨asg, Cfg.asCode⟩ e).map (normTy e)

def PNs (asg : List String) (args : List CExpr) : Prop :=
  ∀ params, CarveNs asg args params = true →
    compileArgs ⟨asg, Cfg.fixed⟩ args params = compileArgs ⟨asg, Cfg.asCode⟩ args params

theorem onA_ok {asg e f ce} (h : onA asg e f = true) (hc : compileExpr ⟨asg, Cfg.asCode⟩ e = .ok ce) : f ce = true := by
  unfold onA at h; rw [hc] at h; exact h

theorem normTy_of_not {e : CExpr} (h : isNotLog e = false) (ce : CE) : normTy e ce = ce := by
  unfold normTy; rw [h]; rfl

theorem normTy_il (e : CExpr) (ce : CE) : (normTy e ce).il = ce.il := by unfold normTy; split <;> rfl
theorem normTy_kind (e : CExpr) (ce : CE) : (normTy e ce).kind = ce.kind := by unfold normTy; split <;> rfl

/-- value operand: the repaired lowering returns the same result for it -/
theorem PN.val {asg e} (ih : PN asg e) (hc : CarveN asg e = true) (hn : isNotLog e = false) :
    compileExpr ⟨asg, Cfg.fixed⟩ e = compileExpr ⟨asg, Cfg.asCode⟩ e := by
  rw [ih hc]
  cases compileExpr ⟨asg, Cfg.asCode⟩ e with
  | error x => rfl
  | ok ce => simp only [Except.map, normTy_of_not hn]

theorem pn_reg (asg n k t) : PN asg (.reg n k t) := by
  intro hc
  rw [CarveN] at hc
  unfold regSafe at hc
  simp only [compileExpr_reg, Except.map, normTy_of_not (e := .reg n k t) rfl]
  have h1 : regRead ⟨asg, Cfg.fixed⟩ n k = regRead ⟨asg, Cfg.asCode⟩ n k := by
    unfold regRead
    cases k <;> simp only [cfgsimp, Bool.false_and, Bool.true_and] <;> simp_all
  have h2 : regVT Cfg.fixed n k t = regVT Cfg.asCode n k t := by
    unfold regVT
    cases k <;> simp only [cfgsimp, if_true, Bool.false_eq_true, if_false] <;>
      (cases t; simp_all [CT.toVT])
  rw [h1, h2]


theorem pn_imm (asg l sg) : PN asg (.imm l sg) := by
  intro _; simp only [compileExpr_imm, Except.map, normTy_of_not (e := .imm l sg) rfl]

theorem pn_var (asg n t) : PN asg (.var n t) := by
  intro _; simp only [compileExpr_var, Except.map, normTy_of_not (e := .var n t) rfl]

theorem pn_lit (asg v h sfx) : PN asg (.lit v h sfx) := by
  intro hc
  rw [CarveN] at hc
  simp only [beq_iff_eq] at hc
  simp only [compileExpr_lit, cfgsimp, if_true, Bool.false_eq_true, if_false, Except.map,
    normTy_of_not (e := .lit v h sfx) rfl, hc]

theorem pn_load (asg sg w t) : PN asg (.load sg w t) := by
  intro hc
  rw [CarveN] at hc
  simp only [compileExpr_load, cfgsimp, if_true, Bool.false_eq_true, if_false, Except.map,
    normTy_of_not (e := .load sg w t) rfl]
  cases sg <;> cases hts : t.signed <;> simp_all

theorem castIf_eq' (cfg : Cfg) (t : VT) (ce : CE) :
    (if ce.ty.eqv t = true then (Except.ok ce : Except String CE) else .ok (initACast cfg t ce)) = .ok (initACast cfg t ce) := by
  split
  · next h => rw [initACast_of_eqv]; rw [eqv_comm]; exact h
  · rfl

theorem pn_cast (asg t e) (ih : PN asg e) : PN asg (.cast t e) := by
  intro hc
  rw [CarveN] at hc
  simp only [Bool.and_eq_true, Bool.not_eq_true'] at hc
  obtain ⟨⟨h1, h2⟩, h3⟩ := hc
  simp only [compileExpr_cast, ih.val h1 h2]
  cases hA : compileExpr ⟨asg, Cfg.asCode⟩ e with
  | error x => rfl
  | ok ce =>
    have hs := onA_ok h3 hA
    simp only [bind, Except.bind, castIf_eq', Except.map, normTy_of_not (e := .cast t e) rfl,
      initACast_asCode_eq_fixed _ _ hs]


theorem unOfCE_asCode_eq_fixed (op : String) (ce : CE) (h : unSafe op ce = true) :
    unOfCE Cfg.asCode op ce = unOfCE Cfg.fixed op ce := by
  unfold unSafe at h
  unfold unOfCE
  split
  · next v hk =>
    simp only [hk, Bool.and_eq_true, inRangeVT, beq_iff_eq] at h
    simp only [cfgsimp, if_true, Bool.false_eq_true, if_false, beq_iff_eq]
    obtain ⟨h1, h2⟩ := h
    rw [h1]
    by_cases hop : op = "-"
    · simp only [hop, if_true, Bool.and_eq_true, beq_iff_eq] at h2 ⊢
      rw [h2.2]
      have : ({ ce.ty.promoted with signed := true } : VT) = ce.ty.promoted := by
        generalize ce.ty.promoted = pt at *
        cases pt; simp only at h2; simp [h2.1]
      rw [this]
    · simp only [hop, if_false, beq_iff_eq] at h2 ⊢
      rw [h2]
  · next hk =>
    have hp : promoSafe ce = true := by
      split at h
      · next v hk' => exact absurd hk' (hk v)
      · exact h
    simp only [promotionCast_asCode_eq_fixed _ hp]

theorem pn_un (asg op e) (ih : PN asg e) : PN asg (.un op e) := by
  intro hc
  rw [CarveN] at hc
  simp only [Bool.and_eq_true, Bool.not_eq_true'] at hc
  obtain ⟨⟨h1, h2⟩, h3⟩ := hc
  simp only [compileExpr_un, ih.val h1 h2]
  cases hA : compileExpr ⟨asg, Cfg.asCode⟩ e with
  | error x => rfl
  | ok ce =>
    have hs := onA_ok h3 hA
    simp only [bind, Except.bind, Except.map, normTy_of_not (e := .un op e) rfl, unOfCE_asCode_eq_fixed _ _ hs]

theorem pn_not (asg e) (ih : PN asg e) : PN asg (.not e) := by
  intro hc
  rw [CarveN] at hc
  simp only [Bool.and_eq_true] at hc
  obtain ⟨h1, h3⟩ := hc
  simp only [compileExpr_not, ih h1]
  cases hA : compileExpr ⟨asg, Cfg.asCode⟩ e with
  | error x => rfl
  | ok ce =>
    have hs := onA_ok h3 hA
    simp only [bind, Except.bind, Except.map, normTy, isNotLog, if_true, cfgsimp, Bool.false_eq_true, if_false]
    have := condIL_asCode_eq_fixed e ce hs
    unfold normTy at this
    rw [this]
    rfl


theorem promotionCast_of_wide (cfg : Cfg) (p : CE) (h : 32 ≤ p.ty.width) : promotionCast cfg p = p := by
  rw [promotionCast_eq, promoted_of_ge _ h]
  apply initACast_of_eqv
  simp [VT.eqv]

theorem foldBin_asCode_eq_fixed (op : String) (ca cb : CE) (va vb : Int)
    (h : (inRangeVT (VT.c11Cast ca.ty cb.ty).1 va && inRangeVT (VT.c11Cast ca.ty cb.ty).1 vb &&
          inRangeVT (VT.c11Cast ca.ty cb.ty).1 (if op == "+" then va + vb else if op == "-" then va - vb else va * vb)) = true) :
    foldBin Cfg.asCode op ca cb va vb = foldBin Cfg.fixed op ca cb va vb := by
  simp only [Bool.and_eq_true, inRangeVT, beq_iff_eq] at h
  obtain ⟨⟨h1, h2⟩, h3⟩ := h
  simp only [foldBin, cfgsimp, if_true, Bool.false_eq_true, if_false, h1, h2, beq_iff_eq, h3]

theorem binBody_asCode_eq_fixed (asg : List String) (op : String) (ca cb : CE) (h : binSafe op ca cb = true) :
    binBody ⟨asg, Cfg.asCode⟩ op ca cb = binBody ⟨asg, Cfg.fixed⟩ op ca cb := by
  unfold binSafe at h
  unfold binBody
  split
  · next va vb hka hkb =>
    simp only [hka, hkb] at h
    split
    · next hop => rw [if_pos hop] at h; rw [foldBin_asCode_eq_fixed _ _ _ _ _ h]
    · next hop => rw [if_neg hop] at h; exact compileBin_asCode_eq_fixed asg op ca cb h
  · next hne =>
    have : arithSafe ca cb = true := by
      split at h
      · next va vb hka hkb => exact absurd hkb (hne va vb hka)
      · exact h
    exact compileBin_asCode_eq_fixed asg op ca cb this

theorem pn_bin (asg op a b) (iha : PN asg a) (ihb : PN asg b) : PN asg (.bin op a b) := by
  intro hc
  rw [CarveN] at hc
  simp only [Bool.and_eq_true, Bool.not_eq_true'] at hc
  obtain ⟨⟨⟨⟨ha, hb⟩, hna⟩, hnb⟩, hs⟩ := hc
  simp only [compileExpr_bin, iha.val ha hna, ihb.val hb hnb]
  cases hA : compileExpr ⟨asg, Cfg.asCode⟩ a with
  | error x => rfl
  | ok ca =>
    cases hB : compileExpr ⟨asg, Cfg.asCode⟩ b with
    | error x => rfl
    | ok cb =>
      have hs' := onA_ok (onA_ok hs hA) hB
      simp only [bind, Except.bind]
      rw [← binBody_asCode_eq_fixed asg op ca cb hs']
      cases binBody ⟨asg, Cfg.asCode⟩ op ca cb with
      | error x => rfl
      | ok ce => simp only [Except.map, normTy_of_not (e := .bin op a b) rfl]

theorem pn_shift (asg op a b) (iha : PN asg a) (ihb : PN asg b) : PN asg (.shift op a b) := by
  intro hc
  rw [CarveN] at hc
  simp only [Bool.and_eq_true, Bool.not_eq_true'] at hc
  obtain ⟨⟨⟨ha, hb⟩, hna⟩, hs⟩ := hc
  simp only [compileExpr_shift, iha.val ha hna, ihb hb]
  cases hA : compileExpr ⟨asg, Cfg.asCode⟩ a with
  | error x => rfl
  | ok ca =>
    cases hB : compileExpr ⟨asg, Cfg.asCode⟩ b with
    | error x => rfl
    | ok cb =>
      have hw : 32 ≤ ca.ty.width := by simpa using onA_ok hs hA
      simp only [bind, Except.bind, Except.map, cfgsimp, if_true, Bool.false_eq_true, if_false,
        promotionCast_of_wide _ _ hw, normTy_il, normTy_of_not (e := .shift op a b) rfl]




theorem foldCmp_asCode_eq_fixed (op : String) (ca cb : CE) (va vb : Int)
    (h : (inRangeVT (VT.c11Cast ca.ty cb.ty).1 va && inRangeVT (VT.c11Cast ca.ty cb.ty).1 vb) = true) :
    foldCmp Cfg.asCode op ca cb va vb = foldCmp Cfg.fixed op ca cb va vb := by
  simp only [Bool.and_eq_true, inRangeVT, beq_iff_eq] at h
  simp only [foldCmp, cfgsimp, if_true, Bool.false_eq_true, if_false, h.1, h.2]

theorem cmpOfCE_asCode_eq_fixed (op : String) (ca cb : CE) (h : wideSafe ca cb = true) :
    cmpOfCE Cfg.asCode op ca cb = cmpOfCE Cfg.fixed op ca cb := by
  unfold wideSafe at h
  simp only [Bool.and_eq_true, decide_eq_true_eq] at h
  unfold cmpOfCE
  simp only [cfgsimp, if_true, Bool.false_eq_true, if_false, promotionCast_of_wide _ _ h.1.1,
    promotionCast_of_wide _ _ h.1.2, castOperands_asCode_eq_fixed _ _ h.2]

theorem cmpBody_asCode_eq_fixed (op : String) (ca cb : CE) (h : cmpSafe ca cb = true) :
    cmpBody Cfg.asCode op ca cb = cmpBody Cfg.fixed op ca cb := by
  unfold cmpSafe at h
  unfold cmpBody
  split
  · next va vb hka hkb =>
    simp only [hka, hkb] at h
    exact foldCmp_asCode_eq_fixed _ _ _ _ _ h
  · next hne =>
    have : wideSafe ca cb = true := by
      split at h
      · next va vb hka hkb => exact absurd hkb (hne va vb hka)
      · exact h
    exact cmpOfCE_asCode_eq_fixed op ca cb this

theorem pn_cmp (asg op a b) (iha : PN asg a) (ihb : PN asg b) : PN asg (.cmp op a b) := by
  intro hc
  rw [CarveN] at hc
  simp only [Bool.and_eq_true, Bool.not_eq_true'] at hc
  obtain ⟨⟨⟨⟨ha, hb⟩, hna⟩, hnb⟩, hs⟩ := hc
  simp only [compileExpr_cmp, iha.val ha hna, ihb.val hb hnb]
  cases hA : compileExpr ⟨asg, Cfg.asCode⟩ a with
  | error x => rfl
  | ok ca =>
    cases hB : compileExpr ⟨asg, Cfg.asCode⟩ b with
    | error x => rfl
    | ok cb =>
      have hs' := onA_ok (onA_ok hs hA) hB
      simp only [bind, Except.bind, Except.map, normTy_of_not (e := .cmp op a b) rfl,
        cmpBody_asCode_eq_fixed op ca cb hs']

/-- the result of `castOperands` in condition position -/
theorem condIL_castOperands (a b : CE)
    (ha : condIL Cfg.asCode a = condIL Cfg.fixed a) (hb : condIL Cfg.asCode b = condIL Cfg.fixed b) :
    condIL Cfg.asCode (castOperands Cfg.fixed a b).1 = condIL Cfg.fixed (castOperands Cfg.fixed a b).1 ∧
    condIL Cfg.asCode (castOperands Cfg.fixed a b).2 = condIL Cfg.fixed (castOperands Cfg.fixed a b).2 := by
  rw [castOperands_eq]
  simp only [adjGroup_fixed]
  have key : ∀ (t : VT) (p : CE), condIL Cfg.asCode p = condIL Cfg.fixed p →
      condIL Cfg.asCode (initACast Cfg.fixed { t with group := 1 } p) =
      condIL Cfg.fixed (initACast Cfg.fixed { t with group := 1 } p) := by
    intro t p hp
    unfold initACast
    split
    · exact hp
    · have hnb : VT.hasFlag { t with group := 1 } VT.gBOOL = false := by simp [VT.hasFlag, VT.gBOOL]
      split <;> simp only [condIL, condILk, cfgsimp, if_true, Bool.false_eq_true, if_false, hnb]
  exact ⟨key _ a ha, key _ b hb⟩


theorem castOperands_of_eqv (cfg : Cfg) (a b : CE) (h : a.ty.eqv b.ty = true) : castOperands cfg a b = (a, b) := by
  unfold castOperands; rw [if_pos h]

theorem log_conds (a b : CExpr) (ca cb : CE) (h : logSafe a b ca cb = true) :
    condIL Cfg.fixed (castOperands Cfg.fixed (normTy a ca) (normTy b cb)).1 = condIL Cfg.asCode (castOperands Cfg.asCode ca cb).1 ∧
    condIL Cfg.fixed (castOperands Cfg.fixed (normTy a ca) (normTy b cb)).2 = condIL Cfg.asCode (castOperands Cfg.asCode ca cb).2 := by
  unfold logSafe at h
  simp only [Bool.and_eq_true] at h
  obtain ⟨⟨hca, hcb⟩, h⟩ := h
  have e1 := condIL_asCode_eq_fixed a ca hca
  have e2 := condIL_asCode_eq_fixed b cb hcb
  by_cases hn : (isNotLog a || isNotLog b) = true
  · rw [if_pos hn] at h
    simp only [Bool.and_eq_true] at h
    rw [castOperands_of_eqv _ _ _ h.1, castOperands_of_eqv _ _ _ h.2]
    exact ⟨e1.symm, e2.symm⟩
  · rw [if_neg hn] at h
    simp only [Bool.or_eq_true, not_or, Bool.not_eq_true] at hn
    rw [normTy_of_not hn.1] at e1 ⊢
    rw [normTy_of_not hn.2] at e2 ⊢
    rw [castOperands_asCode_eq_fixed _ _ h]
    have := condIL_castOperands ca cb e1 e2
    exact ⟨this.1.symm, this.2.symm⟩

theorem pn_log (asg op a b) (iha : PN asg a) (ihb : PN asg b) : PN asg (.log op a b) := by
  intro hc
  rw [CarveN] at hc
  simp only [Bool.and_eq_true] at hc
  obtain ⟨⟨ha, hb⟩, hs⟩ := hc
  simp only [compileExpr_log, iha ha, ihb hb]
  cases hA : compileExpr ⟨asg, Cfg.asCode⟩ a with
  | error x => rfl
  | ok ca =>
    cases hB : compileExpr ⟨asg, Cfg.asCode⟩ b with
    | error x => rfl
    | ok cb =>
      have hs' := onA_ok (onA_ok hs hA) hB
      have := log_conds a b ca cb hs'
      simp only [bind, Except.bind, Except.map, cfgsimp, Bool.false_eq_true, if_false, if_true]
      rw [this.1, this.2]
      rfl


/-! ### constant-condition `?:`: the live arm already has the common type -/

theorem c11Cast_of_eqv {a b : VT} (h : a.eqv b = true) : VT.c11Cast a b = (a, b) := by
  unfold VT.c11Cast
  unfold VT.eqv at h
  simp only [Bool.and_eq_true] at h
  simp only [h.1, h.2, Bool.and_self, if_true]

/-- arms of equal type at least `int` wide (the carve-out before it was widened) are inside `liveKeepsTy` -/
theorem liveKeepsTy_of_eqv (first : Bool) {ca cb : CE}
    (h : (decide (32 ≤ ca.ty.width) && decide (32 ≤ cb.ty.width) && ca.ty.eqv cb.ty) = true) :
    liveKeepsTy first ca cb = true := by
  simp only [Bool.and_eq_true] at h
  have hself : ∀ t : VT, t.eqv t = true := by intro t; simp [VT.eqv]
  unfold liveKeepsTy
  rw [c11Cast_of_eqv h.2]
  simp only [h.1.1, h.1.2, Bool.and_self, Bool.true_and, hself, ite_self]

/-- `cast_operands` of the repaired lowering returns an operand AS IT IS when `c11_cast` keeps its width and sign -/
theorem castOperands_fixed_fst (a b : CE) (h : (VT.c11Cast a.ty b.ty).1.eqv a.ty = true) :
    (castOperands Cfg.fixed a b).1 = a := by
  rw [castOperands_eq]
  exact initACast_of_eqv _ _ _ (by rw [adjGroup_fixed]; exact h)

theorem castOperands_fixed_snd (a b : CE) (h : (VT.c11Cast a.ty b.ty).2.eqv b.ty = true) :
    (castOperands Cfg.fixed a b).2 = b := by
  rw [castOperands_eq]
  exact initACast_of_eqv _ _ _ (by rw [adjGroup_fixed]; exact h)

/-- the repaired lowering of a constant-condition `?:` (promote both arms, convert to the common type, take the live
    one) returns the live arm as it is — what the code does — when `liveKeepsTy` holds -/
theorem liveArm_fixed (first : Bool) (ca cb : CE) (h : liveKeepsTy first ca cb = true) :
    (if first = true then (castOperands Cfg.fixed (promotionCast Cfg.fixed ca) (promotionCast Cfg.fixed cb)).1
     else (castOperands Cfg.fixed (promotionCast Cfg.fixed ca) (promotionCast Cfg.fixed cb)).2) =
    (if first = true then ca else cb) := by
  unfold liveKeepsTy at h
  simp only [Bool.and_eq_true, decide_eq_true_eq] at h
  rw [promotionCast_of_wide _ _ h.1.1, promotionCast_of_wide _ _ h.1.2]
  cases first with
  | true => simp only [if_true] at h ⊢; exact castOperands_fixed_fst _ _ h.2
  | false => simp only [Bool.false_eq_true, if_false] at h ⊢; exact castOperands_fixed_snd _ _ h.2

theorem ternOfCE_asCode_eq_fixed (c : CExpr) (cc ca cb : CE) (h : ternSafe c cc ca cb = true) :
    ternOfCE Cfg.fixed (normTy c cc) ca cb = ternOfCE Cfg.asCode cc ca cb := by
  unfold ternSafe at h
  unfold ternOfCE
  simp only [cfgsimp, if_true, Bool.false_eq_true, if_false, normTy_kind]
  cases hk : cc.kind with
  | lit v => simp only [hk] at h; simp only [liveArm_fixed _ ca cb h]
  | boolLit r => simp only [hk] at h; simp only [liveArm_fixed _ ca cb h]
  | plain =>
    simp only [hk, Bool.and_eq_true] at h
    have hw := h.2
    unfold wideSafe at hw
    simp only [Bool.and_eq_true, decide_eq_true_eq] at hw
    simp only [promotionCast_of_wide _ _ hw.1.1, promotionCast_of_wide _ _ hw.1.2,
      castOperands_asCode_eq_fixed _ _ hw.2, condIL_asCode_eq_fixed c cc h.1]
  | boolObj =>
    simp only [hk, Bool.and_eq_true] at h
    have hw := h.2
    unfold wideSafe at hw
    simp only [Bool.and_eq_true, decide_eq_true_eq] at hw
    simp only [promotionCast_of_wide _ _ hw.1.1, promotionCast_of_wide _ _ hw.1.2,
      castOperands_asCode_eq_fixed _ _ hw.2, condIL_asCode_eq_fixed c cc h.1]

theorem pn_tern (asg c a b) (ihc : PN asg c) (iha : PN asg a) (ihb : PN asg b) : PN asg (.tern c a b) := by
  intro hc
  rw [CarveN] at hc
  simp only [Bool.and_eq_true, Bool.not_eq_true'] at hc
  obtain ⟨⟨⟨⟨⟨hcc, ha⟩, hb⟩, hna⟩, hnb⟩, hs⟩ := hc
  simp only [compileExpr_tern, ihc hcc, iha.val ha hna, ihb.val hb hnb]
  cases hC : compileExpr ⟨asg, Cfg.asCode⟩ c with
  | error x => rfl
  | ok cc =>
    cases hA : compileExpr ⟨asg, Cfg.asCode⟩ a with
    | error x => rfl
    | ok ca =>
      cases hB : compileExpr ⟨asg, Cfg.asCode⟩ b with
      | error x => rfl
      | ok cb =>
        have hs' := onA_ok (onA_ok (onA_ok hs hC) hA) hB
        simp only [bind, Except.bind, Except.map, normTy_of_not (e := .tern c a b) rfl,
          ternOfCE_asCode_eq_fixed c cc ca cb hs']

theorem pns_nil (asg) : PNs asg [] := by
  intro params _
  simp only [compileArgs_nil]

theorem pns_cons (asg a as) (iha : PN asg a) (ihas : PNs asg as) : PNs asg (a :: as) := by
  intro params hc
  cases params with
  | nil => simp only [compileArgs_cons_nil]
  | cons p ps =>
    rw [CarveNs] at hc
    simp only [Bool.and_eq_true, Bool.not_eq_true'] at hc
    obtain ⟨⟨⟨ha, hna⟩, hs⟩, has⟩ := hc
    simp only [compileArgs_cons, iha.val ha hna, ihas ps has]
    cases hA : compileExpr ⟨asg, Cfg.asCode⟩ a with
    | error x => rfl
    | ok ca =>
      have hs' := onA_ok hs hA
      have e : ∀ cfg : Cfg, (if ca.ty.eqv p.toVT = true then ca else initACast cfg p.toVT ca) = initACast cfg p.toVT ca := by
        intro cfg
        split
        · next h => rw [initACast_of_eqv]; rw [eqv_comm]; exact h
        · rfl
      simp only [bind, Except.bind, e, initACast_asCode_eq_fixed _ _ hs']

theorem pn_macro (asg name args ret params) (ih : PNs asg args) : PN asg (.macro name args ret params) := by
  intro hc
  rw [CarveN] at hc
  simp only [compileExpr_macro, ih params hc]
  cases compileArgs ⟨asg, Cfg.asCode⟩ args params with
  | error x => rfl
  | ok ils => simp only [bind, Except.bind, Except.map, normTy_of_not (e := .macro name args ret params) rfl]


end Rzil
