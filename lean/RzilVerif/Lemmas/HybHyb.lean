import RzilVerif.Lemmas.HybCount
/-!
  C06 helpers, part 8: the temporaries' counter advances by exactly the syntactic number of hybrids
  (`hybCountE` / `hybCountS`).
-/
namespace Rzil
namespace C06
open C05 (bind_ok bind_ok_of)

theorem dropDead_hyb (cfg : Cfg) (s : HSt) (d : ILPure) : (dropDead cfg s d).hyb = s.hyb := by
  unfold dropDead
  split
  · split
    · rfl
    · split <;> rfl
  · rfl

theorem ternState_hyb (cfg : Cfg) (cc ca cb : CE) (s : HSt) : (ternState cfg cc ca cb s).hyb = s.hyb := by
  unfold ternState
  split
  · exact dropDead_hyb _ _ _
  · have h1 : (ternWrapThen s ca cc).hyb = s.hyb := by unfold ternWrapThen; split <;> rfl
    have h2 : (ternWrapElse (ternWrapThen s ca cc) cb cc).hyb = (ternWrapThen s ca cc).hyb := by
      unfold ternWrapElse; split <;> rfl
    rw [h2, h1]

theorem gccState_hyb (s : HSt) (v : String) (il : ILPure) : (gccState s v il).hyb = s.hyb + 1 := by
  simp only [gccState]; rw [(chk_snd _ _ _ _).1]

mutual
theorem compileExprH_hyb (env : CEnv) : (e : CExpr) → {st st' : HSt} → {ce : CE} →
    compileExprH env st e = .ok (ce, st') → st'.hyb = st.hyb + hybCountE e
  | .reg n k t, st, st', ce, h => by
      rw [(inv_leaf (Or.inl ⟨n, k, t, rfl⟩) h).1]; rfl
  | .imm l s, st, st', ce, h => by
      rw [(inv_imm h).2]; split <;> rfl
  | .lit v hx s, st, st', ce, h => by
      rw [(inv_leaf (Or.inr (Or.inl ⟨v, hx, s, rfl⟩)) h).1]; rfl
  | .var n t, st, st', ce, h => by
      rw [(inv_leaf (Or.inr (Or.inr (Or.inl ⟨n, t, rfl⟩))) h).1]; rfl
  | .cast t e, st, st', ce, h => by
      obtain ⟨c1, h1, _⟩ := inv_cast h
      simpa [hybCountE] using compileExprH_hyb env e h1
  | .un op e, st, st', ce, h => by
      obtain ⟨c1, h1, _⟩ := inv_un h
      simpa [hybCountE] using compileExprH_hyb env e h1
  | .not e, st, st', ce, h => by
      obtain ⟨c1, h1, _⟩ := inv_not h
      simpa [hybCountE] using compileExprH_hyb env e h1
  | .bin op a b, st, st', ce, h => by
      obtain ⟨ca, s1, cb, h1, h2, _⟩ := inv_bin h
      have := compileExprH_hyb env a h1; have := compileExprH_hyb env b h2
      simp only [hybCountE]; omega
  | .shift op a b, st, st', ce, h => by
      obtain ⟨ca, s1, cb, h1, h2, _⟩ := inv_shift h
      have := compileExprH_hyb env a h1; have := compileExprH_hyb env b h2
      simp only [hybCountE]; omega
  | .cmp op a b, st, st', ce, h => by
      obtain ⟨ca, s1, cb, h1, h2, _⟩ := inv_cmp h
      have := compileExprH_hyb env a h1; have := compileExprH_hyb env b h2
      simp only [hybCountE]; omega
  | .log op a b, st, st', ce, h => by
      obtain ⟨ca, s1, cb, h1, h2, _⟩ := inv_log h
      have := compileExprH_hyb env a h1; have := compileExprH_hyb env b h2
      simp only [hybCountE]; omega
  | .tern c a b, st, st', ce, h => by
      obtain ⟨cc, s1, ca, s2, cb, s3, h1, h2, h3, rfl, _⟩ := inv_tern h
      have := compileExprH_hyb env c h1; have := compileExprH_hyb env a h2; have := compileExprH_hyb env b h3
      rw [ternState_hyb]; simp only [hybCountE]; omega
  | .macro name args ret params, st, st', ce, h => by
      obtain ⟨cargs, h1, _⟩ := inv_macro h
      simpa [hybCountE] using compileArgsH_hyb env args params h1
  | .load s w t, st, st', ce, h => by
      rw [(inv_leaf (Or.inr (Or.inr (Or.inr ⟨s, w, t, rfl⟩))) h).1]; rfl
  | .post v t op, st, st', ce, h => by
      rw [(inv_post h).2]; rfl
  | .call name args ret params, st, st', ce, h => by
      obtain ⟨cargs, s1, h1, _, rfl⟩ := inv_call h
      have := compileArgsH_hyb env args params h1
      simp only [hybCountE, callState]; omega
  | .stmtexpr t v e, st, st', ce, h => by
      obtain ⟨c1, s1, h1, _, rfl⟩ := inv_stmtexpr h
      have := compileExprH_hyb env e h1
      rw [gccState_hyb]; simp only [hybCountE]; omega
  | .seqexpr name exts args params val, st, st', ce, h => by
      obtain ⟨cargs, s1, cv, s2, h1, h2, _, rfl⟩ := inv_seqexpr h
      have := compileArgsH_hyb env args params h1; have := compileExprH_hyb env val h2
      simp only [hybCountE, seqState]; omega
  | .callx name exts args ret params, st, st', ce, h => by
      obtain ⟨cargs, s1, h1, _, rfl⟩ := inv_callx h
      have := compileArgsH_hyb env args params h1
      simp only [hybCountE, callxState]; omega
  | .xmacro name exts ret, st, st', ce, h => by
      rw [(inv_xmacro h).2]; rfl
theorem compileArgsH_hyb (env : CEnv) : (as : List CExpr) → (ps : List CT) → {st st' : HSt} → {r : List ILPure} →
    compileArgsH env st as ps = .ok (r, st') → st'.hyb = st.hyb + hybCountEs as
  | [], ps, st, st', r, h => by
      rw [(inv_args_nil h).2]; rfl
  | _ :: _, [], st, st', r, h => by
      simp [compileArgsH] at h
  | a :: as, p :: ps, st, st', r, h => by
      obtain ⟨ca, s1, rest, h1, h2, _⟩ := inv_args_cons h
      have := compileExprH_hyb env a h1; have := compileArgsH_hyb env as ps h2
      simp only [hybCountEs]; omega
end

theorem chk_hyb (s : HSt) (e : ILEffect) (bare : List String) (after : Bool) :
    (chk s e bare after).2.hyb = s.hyb := (chk_snd s e bare after).1

mutual
theorem compileStmtH_hyb (env : CEnv) : (s : CStmt) → {st st' : HSt} → {eff : Option ILEffect} → {b : List String} →
    compileStmtH env st s = .ok (eff, b, st') → st'.hyb = st.hyb + hybCountS s
  | .decl t n none, st, st', eff, b, h => by
      rw [(invS_decl_none h).2.2]; rfl
  | .decl t n (some e), st, st', eff, b, h => by
      obtain ⟨c1, s1, h1, _, _, rfl⟩ := invS_decl h
      have := compileExprH_hyb env e h1
      simp only [chk_hyb, hybCountS]; omega
  | .assign lhs op e, st, st', eff, b, h => by
      obtain ⟨c1, s1, eff0, src, h1, _, _, _, rfl⟩ := invS_assign h
      have := compileExprH_hyb env e h1
      simp only [regLhsH_hyb] at this
      simp only [chk_hyb, hybCountS]; omega
  | .chain l1 l2 op2 e, st, st', eff, b, h => by
      obtain ⟨c1, s1, effI, srcI, effO, srcO, h1, _, _, _, _, rfl⟩ := invS_chain h
      have := compileExprH_hyb env e h1
      simp only [regLhsH_hyb] at this
      simp only [chk_hyb, hybCountS]; omega
  | .store w e, st, st', eff, b, h => by
      obtain ⟨c1, s1, data, h1, _, _, rfl⟩ := invS_store h
      have := compileExprH_hyb env e h1
      simp only [chk_hyb, hybCountS]; omega
  | .ite c t none, st, st', eff, b, h => by
      obtain ⟨cc, s1, ts, tb, s2, h1, h2, _, _, rfl⟩ := invS_ite_none h
      have := compileExprH_hyb env c h1; have := compileStmtsH_hyb env t h2
      simp only [chk_hyb, hybCountS]; omega
  | .ite c t (some e), st, st', eff, b, h => by
      obtain ⟨cc, s1, ts, tb, s2, es, eb, s3, h1, h2, h3, _, _, rfl⟩ := invS_ite_some h
      have := compileExprH_hyb env c h1; have := compileStmtsH_hyb env t h2
      have := compileStmtsH_hyb env e h3
      simp only [chk_hyb, hybCountS] at *; omega
  | .for_ v cond 0 body, st, st', eff, b, h => by
      obtain ⟨x0, cc, s1, bs, bb, s3, _, h1, h3, _, _, rfl⟩ := invS_for0 h
      have := compileExprH_hyb env cond h1; have := compileStmtsH_hyb env body h3
      simp only [chk_hyb, hybCountS, postState] at *; simp only [beq_self_eq_true, ↓reduceIte]; omega
  | .for_ v cond (k+1) body, st, st', eff, b, h => by
      obtain ⟨x0, cc, s1, stepEff, stepSrc, bs, bb, s3, _, h1, _, h3, _, _, rfl⟩ := invS_forK (Nat.succ_ne_zero k) h
      have := compileExprH_hyb env cond h1; have := compileStmtsH_hyb env body h3
      have hk : (k + 1 == 0) = false := by simp
      simp only [chk_hyb, hybCountS, hk] at *; simp only [Bool.false_eq_true, ↓reduceIte]; omega
  | .jump e, st, st', eff, b, h => by
      obtain ⟨c1, s1, ta, h1, _, _, rfl⟩ := invS_jump h
      have := compileExprH_hyb env e h1
      simp only [chk_hyb, hybCountS]; omega
  | .exprstmt e, st, st', eff, b, h => by
      obtain ⟨c1, h1, _, _⟩ := invS_exprstmt h
      simpa [hybCountS] using compileExprH_hyb env e h1
  | .ret e, st, st', eff, b, h => by
      obtain ⟨c1, src, h1, _, _⟩ := invS_ret h
      simpa [hybCountS] using compileExprH_hyb env e h1
  | .vcall name exts args params, st, st', eff, b, h => by
      obtain ⟨cargs, h1, _, _⟩ := invS_vcall h
      simpa [hybCountS] using compileArgsH_hyb env args params h1
  | .skip w, st, st', eff, b, h => by
      rw [(invS_skip h).2.2]; rfl
theorem compileStmtsH_hyb (env : CEnv) : (ss : List CStmt) → {st st' : HSt} → {es : List ILEffect} → {b : List String} →
    compileStmtsH env st ss = .ok (es, b, st') → st'.hyb = st.hyb + hybCountSs ss
  | [], st, st', es, b, h => by
      rw [(invS_nil h).2.2]; rfl
  | s :: ss, st, st', es, b, h => by
      obtain ⟨e, b1, s1, es', b2, h1, h2, _, _⟩ := invS_cons h
      have := compileStmtH_hyb env s h1; have := compileStmtsH_hyb env ss h2
      simp only [hybCountSs]; omega
end

end C06
end Rzil
