import RzilVerif.Lemmas.HybPop
import RzilVerif.Lemmas.StmtFuel
/-!
  C06 helpers, part 2: inversion of `compileExprH` / `compileArgsH` (one lemma per constructor: the
  sub-compilations in evaluation order, the final state expressed with the state functions of `HybWF`).
-/
namespace Rzil
namespace C06
open C05 (bind_ok bind_ok_of)

def isLitKind : PKind → Bool
  | .lit _ => true
  | .boolLit _ => true
  | _ => false

theorem foldVal_isLit {cfg : Cfg} {c : CE} {v : Int} (h : foldVal cfg c = some v) : isLitKind c.kind = true := by
  unfold foldVal at h
  split at h
  · simp [isLitKind, *]
  · split at h
    · cases hk : c.kind <;> simp [PKind.litVal, hk] at h <;> simp [isLitKind]
    · cases h

/-- the fold decision of `?:` -/
def ternFold (cc : CE) : Option Bool :=
  match cc.kind with
  | .lit v => some (v != 0)
  | .boolLit r => some r
  | _ => none

theorem ternFold_isLit {cc : CE} {l : Bool} (h : ternFold cc = some l) : isLitKind cc.kind = true := by
  unfold ternFold at h
  split at h <;> simp_all [isLitKind]

theorem ternFold_none {cc : CE} (h : isLitKind cc.kind = false) : ternFold cc = none := by
  unfold ternFold
  split <;> simp_all [isLitKind]

def ternWrapThen (s : HSt) (ca cc : CE) : HSt :=
  match gccTmpOf s ca with
  | some n => wrapThen s n (condILk cc)
  | none => s

def ternWrapElse (s : HSt) (cb cc : CE) : HSt :=
  match gccTmpOf s cb with
  | some n => wrapElse s n (condILk cc)
  | none => s

/-- the state after a `?:` whose three operands are compiled -/
def ternState (cfg : Cfg) (cc ca cb : CE) (s : HSt) : HSt :=
  match ternFold cc with
  | some live => dropDead cfg s (if live then cb else ca).il
  | none => ternWrapElse (ternWrapThen s ca cc) cb cc

theorem inv_imm {env : CEnv} {st st' : HSt} {ce : CE} {l s}
    (h : compileExprH env st (.imm l s) = .ok (ce, st')) :
    ce.kind = .plain ∧
    st' = (if st.live.contains l then st else { st with imms := st.imms ++ [(l, s)], live := st.live ++ [l] }) := by
  simp only [compileExprH, compileExpr] at h
  simp only [bind, Except.bind, Except.ok.injEq, Prod.mk.injEq] at h
  obtain ⟨rfl, rfl⟩ := h
  exact ⟨rfl, rfl⟩

theorem inv_cast {env : CEnv} {st st' : HSt} {ce : CE} {t e}
    (h : compileExprH env st (.cast t e) = .ok (ce, st')) :
    ∃ c1, compileExprH env st e = .ok (c1, st') ∧
      ce = (if c1.ty.eqv t.toVT then c1 else initACast env.cfg t.toVT c1) := by
  simp only [compileExprH] at h
  obtain ⟨⟨c1, s1⟩, h1, h⟩ := bind_ok h
  simp only [Except.ok.injEq, Prod.mk.injEq] at h
  obtain ⟨rfl, rfl⟩ := h
  exact ⟨c1, h1, rfl⟩

theorem inv_un {env : CEnv} {st st' : HSt} {ce : CE} {op e}
    (h : compileExprH env st (.un op e) = .ok (ce, st')) :
    ∃ c1, compileExprH env st e = .ok (c1, st') ∧ (ce.kind = .plain ∨ ∃ v, foldVal env.cfg c1 = some v) := by
  simp only [compileExprH] at h
  obtain ⟨⟨c1, s1⟩, h1, h⟩ := bind_ok h
  simp only at h
  split at h
  · simp only [Except.ok.injEq, Prod.mk.injEq] at h
    obtain ⟨rfl, rfl⟩ := h
    exact ⟨c1, h1, Or.inr ⟨_, by assumption⟩⟩
  · simp only [Except.ok.injEq, Prod.mk.injEq] at h
    obtain ⟨rfl, rfl⟩ := h
    exact ⟨c1, h1, Or.inl rfl⟩

theorem inv_not {env : CEnv} {st st' : HSt} {ce : CE} {e}
    (h : compileExprH env st (.not e) = .ok (ce, st')) :
    ∃ c1, compileExprH env st e = .ok (c1, st') ∧ ce.kind = .boolObj := by
  simp only [compileExprH] at h
  obtain ⟨⟨c1, s1⟩, h1, h⟩ := bind_ok h
  simp only [Except.ok.injEq, Prod.mk.injEq] at h
  obtain ⟨rfl, rfl⟩ := h
  exact ⟨c1, h1, rfl⟩

theorem compileBin_kind {env : CEnv} {op : String} {ca cb r : CE} (hr : compileBin env op ca cb = .ok r) :
    r.kind = .plain := by
  simp only [compileBin] at hr
  split at hr
  · simp only [Except.ok.injEq] at hr; subst hr; rfl
  · cases hr

theorem inv_bin {env : CEnv} {st st' : HSt} {ce : CE} {op a b}
    (h : compileExprH env st (.bin op a b) = .ok (ce, st')) :
    ∃ ca s1 cb, compileExprH env st a = .ok (ca, s1) ∧ compileExprH env s1 b = .ok (cb, st') ∧
      (ce.kind = .plain ∨ ∃ va vb, foldVal env.cfg ca = some va ∧ foldVal env.cfg cb = some vb) := by
  simp only [compileExprH] at h
  obtain ⟨⟨ca, s1⟩, h1, h⟩ := bind_ok h
  obtain ⟨⟨cb, s2⟩, h2, h⟩ := bind_ok h
  simp only at h
  split at h
  · split at h
    · simp only [Except.ok.injEq, Prod.mk.injEq] at h
      obtain ⟨rfl, rfl⟩ := h
      exact ⟨ca, s1, cb, h1, h2, Or.inr ⟨_, _, by assumption, by assumption⟩⟩
    · obtain ⟨r, hr, h⟩ := bind_ok h
      simp only [Except.ok.injEq, Prod.mk.injEq] at h
      obtain ⟨rfl, rfl⟩ := h
      exact ⟨ca, s1, cb, h1, h2, Or.inl (compileBin_kind hr)⟩
  · obtain ⟨r, hr, h⟩ := bind_ok h
    simp only [Except.ok.injEq, Prod.mk.injEq] at h
    obtain ⟨rfl, rfl⟩ := h
    exact ⟨ca, s1, cb, h1, h2, Or.inl (compileBin_kind hr)⟩

theorem inv_shift {env : CEnv} {st st' : HSt} {ce : CE} {op a b}
    (h : compileExprH env st (.shift op a b) = .ok (ce, st')) :
    ∃ ca s1 cb, compileExprH env st a = .ok (ca, s1) ∧ compileExprH env s1 b = .ok (cb, st') ∧
      ce.kind = .plain := by
  simp only [compileExprH] at h
  obtain ⟨⟨ca, s1⟩, h1, h⟩ := bind_ok h
  obtain ⟨⟨cb, s2⟩, h2, h⟩ := bind_ok h
  simp only [Except.ok.injEq, Prod.mk.injEq] at h
  obtain ⟨rfl, rfl⟩ := h
  exact ⟨ca, s1, cb, h1, h2, rfl⟩

theorem inv_cmp {env : CEnv} {st st' : HSt} {ce : CE} {op a b}
    (h : compileExprH env st (.cmp op a b) = .ok (ce, st')) :
    ∃ ca s1 cb, compileExprH env st a = .ok (ca, s1) ∧ compileExprH env s1 b = .ok (cb, st') ∧
      (ce.kind = .boolObj ∨ ∃ va vb, foldVal env.cfg ca = some va ∧ foldVal env.cfg cb = some vb) := by
  simp only [compileExprH] at h
  obtain ⟨⟨ca, s1⟩, h1, h⟩ := bind_ok h
  obtain ⟨⟨cb, s2⟩, h2, h⟩ := bind_ok h
  simp only at h
  split at h
  · simp only [Except.ok.injEq, Prod.mk.injEq] at h
    obtain ⟨rfl, rfl⟩ := h
    exact ⟨ca, s1, cb, h1, h2, Or.inr ⟨_, _, by assumption, by assumption⟩⟩
  · simp only [Except.ok.injEq, Prod.mk.injEq] at h
    obtain ⟨rfl, rfl⟩ := h
    exact ⟨ca, s1, cb, h1, h2, Or.inl rfl⟩

theorem inv_log {env : CEnv} {st st' : HSt} {ce : CE} {op a b}
    (h : compileExprH env st (.log op a b) = .ok (ce, st')) :
    ∃ ca s1 cb, compileExprH env st a = .ok (ca, s1) ∧ compileExprH env s1 b = .ok (cb, st') ∧
      ce.kind = .boolObj := by
  simp only [compileExprH] at h
  obtain ⟨⟨ca, s1⟩, h1, h⟩ := bind_ok h
  obtain ⟨⟨cb, s2⟩, h2, h⟩ := bind_ok h
  simp only [Except.ok.injEq, Prod.mk.injEq] at h
  obtain ⟨rfl, rfl⟩ := h
  exact ⟨ca, s1, cb, h1, h2, rfl⟩

theorem inv_tern {env : CEnv} {st st' : HSt} {ce : CE} {c a b}
    (h : compileExprH env st (.tern c a b) = .ok (ce, st')) :
    ∃ cc s1 ca s2 cb s3, compileExprH env st c = .ok (cc, s1) ∧ compileExprH env s1 a = .ok (ca, s2) ∧
      compileExprH env s2 b = .ok (cb, s3) ∧ st' = ternState env.cfg cc ca cb s3 ∧
      (ternFold cc = none → ce.kind = .plain) := by
  simp only [compileExprH] at h
  obtain ⟨⟨cc, s1⟩, h1, h⟩ := bind_ok h
  obtain ⟨⟨ca, s2⟩, h2, h⟩ := bind_ok h
  obtain ⟨⟨cb, s3⟩, h3, h⟩ := bind_ok h
  refine ⟨cc, s1, ca, s2, cb, s3, h1, h2, h3, ?_⟩
  simp only at h
  unfold ternState
  change (match ternFold cc with | some live => _ | none => _) = _ at h
  cases hf : ternFold cc with
  | some live =>
    rw [hf] at h
    simp only [Except.ok.injEq, Prod.mk.injEq] at h
    obtain ⟨_, rfl⟩ := h
    refine ⟨?_, fun e => by cases e⟩
    simp only [dropDead]
    cases live <;> rfl
  | none =>
    rw [hf] at h
    simp only [Except.ok.injEq, Prod.mk.injEq] at h
    obtain ⟨rfl, rfl⟩ := h
    exact ⟨rfl, fun _ => rfl⟩

theorem inv_macro {env : CEnv} {st st' : HSt} {ce : CE} {name args ret params}
    (h : compileExprH env st (.macro name args ret params) = .ok (ce, st')) :
    ∃ cargs, compileArgsH env st args params = .ok (cargs, st') ∧ ce.kind = .plain := by
  simp only [compileExprH] at h
  obtain ⟨⟨cargs, s1⟩, h1, h⟩ := bind_ok h
  simp only [Except.ok.injEq, Prod.mk.injEq] at h
  obtain ⟨rfl, rfl⟩ := h
  exact ⟨cargs, h1, rfl⟩

theorem inv_post {env : CEnv} {st st' : HSt} {ce : CE} {v t op}
    (h : compileExprH env st (.post v t op) = .ok (ce, st')) :
    ce = { il := .varl (tmpName st.hyb), ty := t.toVT, kind := .plain } ∧ st' = postState st v t op := by
  simp only [compileExprH, Except.ok.injEq, Prod.mk.injEq] at h
  obtain ⟨rfl, rfl⟩ := h
  exact ⟨rfl, rfl⟩

theorem inv_call {env : CEnv} {st st' : HSt} {ce : CE} {name args ret params}
    (h : compileExprH env st (.call name args ret params) = .ok (ce, st')) :
    ∃ cargs s1, compileArgsH env st args params = .ok (cargs, s1) ∧
      ce = { il := .varl (tmpName s1.hyb), ty := ret.toVT, kind := .plain } ∧
      st' = callState s1 name cargs ret := by
  simp only [compileExprH] at h
  obtain ⟨⟨cargs, s1⟩, h1, h⟩ := bind_ok h
  simp only [Except.ok.injEq, Prod.mk.injEq] at h
  obtain ⟨rfl, rfl⟩ := h
  exact ⟨cargs, s1, h1, rfl, rfl⟩

/-- the operand of the inner declaration of a statement-expression -/
def gccSrc (cfg : Cfg) (t : CT) (c1 : CE) : CE := if c1.ty.eqv t.toVT then c1 else initACast cfg t.toVT c1

theorem inv_stmtexpr {env : CEnv} {st st' : HSt} {ce : CE} {t v e}
    (h : compileExprH env st (.stmtexpr t v e) = .ok (ce, st')) :
    ∃ c1 s1, compileExprH env st e = .ok (c1, s1) ∧
      ce = { il := .varl (tmpName (chk s1 (.setl v (gccSrc env.cfg t c1).il) []).2.hyb), ty := t.toVT, kind := .plain } ∧
      st' = gccState s1 v (gccSrc env.cfg t c1).il := by
  simp only [compileExprH] at h
  obtain ⟨⟨c1, s1⟩, h1, h⟩ := bind_ok h
  simp only [Except.ok.injEq, Prod.mk.injEq] at h
  obtain ⟨rfl, rfl⟩ := h
  exact ⟨c1, s1, h1, rfl, rfl⟩

theorem inv_seqexpr {env : CEnv} {st st' : HSt} {ce : CE} {name exts args params val}
    (h : compileExprH env st (.seqexpr name exts args params val) = .ok (ce, st')) :
    ∃ cargs s1 cv s2, compileArgsH env st args params = .ok (cargs, s1) ∧ compileExprH env s1 val = .ok (cv, s2) ∧
      ce = { il := .varl (tmpName s2.hyb), ty := cv.ty, kind := .plain } ∧
      st' = seqState s2 name exts cargs cv.il := by
  simp only [compileExprH] at h
  obtain ⟨⟨cargs, s1⟩, h1, h⟩ := bind_ok h
  obtain ⟨⟨cv, s2⟩, h2, h⟩ := bind_ok h
  simp only [Except.ok.injEq, Prod.mk.injEq] at h
  obtain ⟨rfl, rfl⟩ := h
  exact ⟨cargs, s1, cv, s2, h1, h2, rfl, rfl⟩

theorem inv_callx {env : CEnv} {st st' : HSt} {ce : CE} {name exts args ret params}
    (h : compileExprH env st (.callx name exts args ret params) = .ok (ce, st')) :
    ∃ cargs s1, compileArgsH env st args params = .ok (cargs, s1) ∧
      ce = { il := .varl (tmpName s1.hyb), ty := ret.toVT, kind := .plain } ∧
      st' = callxState s1 name exts cargs ret := by
  simp only [compileExprH] at h
  obtain ⟨⟨cargs, s1⟩, h1, h⟩ := bind_ok h
  simp only [Except.ok.injEq, Prod.mk.injEq] at h
  obtain ⟨rfl, rfl⟩ := h
  exact ⟨cargs, s1, h1, rfl, rfl⟩

theorem inv_xmacro {env : CEnv} {st st' : HSt} {ce : CE} {name exts ret}
    (h : compileExprH env st (.xmacro name exts ret) = .ok (ce, st')) :
    ce = { il := .macro (macroRzName name) (extArgs exts), ty := ret.toVT, kind := .plain } ∧ st' = st := by
  simp only [compileExprH, Except.ok.injEq, Prod.mk.injEq] at h
  obtain ⟨rfl, rfl⟩ := h
  exact ⟨rfl, rfl⟩

theorem inv_leaf {env : CEnv} {st st' : HSt} {ce : CE} {e : CExpr}
    (hl : (∃ n k t, e = .reg n k t) ∨ (∃ v h s, e = .lit v h s) ∨ (∃ n t, e = .var n t) ∨ (∃ s w t, e = .load s w t))
    (h : compileExprH env st e = .ok (ce, st')) :
    st' = st ∧ compileExpr env e = .ok ce := by
  rcases hl with ⟨n, k, t, rfl⟩ | ⟨v, hx, s, rfl⟩ | ⟨n, t, rfl⟩ | ⟨s, w, t, rfl⟩ <;>
  · simp only [compileExprH] at h
    obtain ⟨r, hr, h⟩ := bind_ok h
    simp only [Except.ok.injEq, Prod.mk.injEq] at h
    obtain ⟨rfl, rfl⟩ := h
    exact ⟨rfl, hr⟩

theorem inv_args_cons {env : CEnv} {st st' : HSt} {a : CExpr} {as : List CExpr} {p : CT} {ps : List CT}
    {r : List ILPure} (h : compileArgsH env st (a :: as) (p :: ps) = .ok (r, st')) :
    ∃ ca s1 rest, compileExprH env st a = .ok (ca, s1) ∧ compileArgsH env s1 as ps = .ok (rest, st') ∧
      r = (if ca.ty.eqv p.toVT then ca else initACast env.cfg p.toVT ca).il :: rest := by
  simp only [compileArgsH] at h
  obtain ⟨⟨ca, s1⟩, h1, h⟩ := bind_ok h
  obtain ⟨⟨rest, s2⟩, h2, h⟩ := bind_ok h
  simp only [Except.ok.injEq, Prod.mk.injEq] at h
  obtain ⟨rfl, rfl⟩ := h
  exact ⟨ca, s1, rest, h1, h2, rfl⟩

theorem inv_args_nil {env : CEnv} {st st' : HSt} {ps : List CT} {r : List ILPure}
    (h : compileArgsH env st [] ps = .ok (r, st')) : r = [] ∧ st' = st := by
  simp only [compileArgsH, Except.ok.injEq, Prod.mk.injEq] at h
  exact ⟨h.1.symm, h.2.symm⟩

end C06
end Rzil
