import RzilVerif.Lemmas.StmtAssign
/-!
  C05 helpers, part 6: the `for` loop: initialisation and step.
-/
namespace Rzil
namespace C05

theorem for_init_eval (ms : MacroSem) (σ : MState) :
    evalPure ms σ [] (.cast 32 .bfalse (.const true 32 0)) = .ok (.bv 32 0) := by
  simp only [evalPure, bind, Except.bind, ilCast_false_eq_setWidth]
  rfl

theorem for_init_correct {ms : MacroSem} {c : Ctx} (hc : c.ok = true) {σC σIL : MState} (hinv : Inv c σC σIL)
    {v : String} {t : CT} (hv : lookupS v c.types = some t) (h32 : t.width = 32) :
    ∃ σIL', ExecIL ms (.setl v (.cast 32 .bfalse (.const true 32 0))) σIL σIL' ∧
      Inv c { σC with locals := setLocal σC.locals v (.bv 32 0) } σIL' := by
  refine ⟨_, ExecIL_setl (for_init_eval ms σIL), ?_⟩
  obtain ⟨ts, tw⟩ := t
  simp only at h32; subst h32
  exact hinv.setDeclared hc hv (0 : BitVec 32)

theorem for_step_correct {ms : MacroSem} {c : Ctx} (hc : c.ok = true) {σC σIL : MState} (hinv : Inv c σC σIL)
    {v : String} {t : CT} (hv : lookupS v c.types = some t) (h32 : t.width = 32)
    {tmp : String} (htmp : isTmp tmp = true) {w : Nat} {x : BitVec w}
    (hl : lookupS v σC.locals = some (.bv w x)) :
    ∃ σIL', ExecIL ms (.seqn [.setl tmp (.varl v), .setl v (.inc (.varl v) 32)]) σIL σIL' ∧
      Inv c { σC with locals := setLocal σC.locals v (.bv w (x + 1)) } σIL' := by
  have hlIL := hinv.rel.locals _ _ hl
  obtain ⟨x', hx'⟩ := hinv.inv.typed _ _ _ hv hlIL
  obtain ⟨ts, tw⟩ := t
  simp only at h32; subst h32
  simp only [Val.bv.injEq] at hx'
  obtain ⟨hw, _⟩ := hx'
  subst hw
  obtain ⟨hvt, _, hvi⟩ := Ctx.ok_types hc hv
  have hne : v ≠ tmp := fun e => by subst e; rw [htmp] at hvt; cases hvt
  -- first: the temporary (IL side only)
  have h1 : evalPure ms σIL [] (.varl v) = .ok (.bv 32 x) := by simp only [evalPure, hlIL]
  have hinv1 : Inv c σC { σIL with locals := setLocal σIL.locals tmp (.bv 32 x) } := by
    refine hinv.setIL tmp _ (hinv.tmpFree tmp htmp) ?_ ?_
    · intro t' ht'
      have := (Ctx.ok_types hc ht').1
      rw [htmp] at this; cases this
    · intro hm
      have := (Ctx.ok_imms hc hm).1
      rw [htmp] at this; cases this
  have h2 : evalPure ms { σIL with locals := setLocal σIL.locals tmp (.bv 32 x) } [] (.inc (.varl v) 32) =
      .ok (.bv 32 (x + 1)) := by
    simp only [evalPure, lookupS_setLocal_ne hne, hlIL, bind, Except.bind, ↓reduceIte]
  refine ⟨_, ExecIL_seqn.2 (ExecSeqIL_cons (ExecIL_setl h1) (ExecSeqIL_cons (ExecIL_setl h2) ExecSeqIL_nil)), ?_⟩
  exact hinv1.setDeclared hc hv (x + 1)

/-! ## the `imm_assign` prologue -/

theorem immSet_exec (ms : MacroSem) (x : String × Bool) (σ : MState) :
    ExecIL ms (immSetEffect x) σ
      { σ with locals := setLocal σ.locals x.1 (.bv 32 (BitVec.ofNat 32 (σ.imm x.1))) } :=
  ExecIL_setl (by simp only [evalPure])

/-- running the prologue sets every registered immediate letter (and nothing else) -/
theorem prologue_exec (ms : MacroSem) (imms : List (String × Bool)) (σ : MState) :
    ∃ σ', ExecSeqIL ms (imms.map immSetEffect) σ σ' ∧
      σ'.cur = σ.cur ∧ σ'.new = σ.new ∧ σ'.written = σ.written ∧ σ'.mem = σ.mem ∧ σ'.imm = σ.imm ∧
      σ'.pktAddr = σ.pktAddr ∧ σ'.stores = σ.stores ∧
      (∀ n, n ∉ imms.map (·.1) → lookupS n σ'.locals = lookupS n σ.locals) ∧
      (∀ l ∈ imms.map (·.1), lookupS l σ'.locals = some (.bv 32 (BitVec.ofNat 32 (σ.imm l)))) := by
  induction imms generalizing σ with
  | nil => exact ⟨σ, ExecSeqIL_nil, rfl, rfl, rfl, rfl, rfl, rfl, rfl, fun _ _ => rfl, fun _ h => by simp at h⟩
  | cons x xs ih =>
    obtain ⟨σ', hx, h1, h2, h3, h4, h5, h6, h7, hout, hin⟩ :=
      ih { σ with locals := setLocal σ.locals x.1 (.bv 32 (BitVec.ofNat 32 (σ.imm x.1))) }
    refine ⟨σ', ExecSeqIL_cons (immSet_exec ms x σ) hx, h1, h2, h3, h4, h5, h6, h7, ?_, ?_⟩
    · intro n hn
      simp only [List.map_cons, List.mem_cons, not_or] at hn
      rw [hout n hn.2]
      exact lookupS_setLocal_ne hn.1 _ _
    · intro l hl
      simp only [List.map_cons, List.mem_cons] at hl
      by_cases hxs : l ∈ xs.map (·.1)
      · exact hin l hxs
      · rcases hl with rfl | hl
        · rw [hout _ hxs]; exact lookupS_setLocal_self _ _ _
        · exact absurd hl hxs

/-- the step `v += k` (k > 0) of a `for` loop: an ordinary compound assignment of the literal `k` -/
theorem for_stepk_correct {ms : MacroSem} {c : Ctx} {env : CEnv} (henv : env.cfg = Cfg.fixed) (hc : c.ok = true)
    {σC σIL : MState} (hinv : Inv c σC σIL)
    {v : String} {t : CT} (hv : lookupS v c.types = some t) (h32 : t.width = 32) {k : Nat}
    {stepEff : ILEffect} {src : CE}
    (hcomp : compileAssign env (.var v utT) "+="
      { il := numberIL ⟨true, 32, 1⟩ k, ty := ⟨true, 32, 1⟩, kind := .lit k } = .ok (stepEff, src))
    {w : Nat} {x : BitVec w} (hl : lookupS v σC.locals = some (.bv w x)) :
    ∃ σIL', ExecIL ms stepEff σIL σIL' ∧
      Inv c { σC with locals := setLocal σC.locals v (.bv w (x + BitVec.ofNat w k)) } σIL' := by
  have hlIL := hinv.rel.locals _ _ hl
  obtain ⟨x', hx'⟩ := hinv.inv.typed _ _ _ hv hlIL
  obtain ⟨ts, tw⟩ := t
  simp only at h32; subst h32
  simp only [Val.bv.injEq] at hx'
  obtain ⟨hw, _⟩ := hx'
  subst hw
  have hcd : compileExpr env (.var v utT) = .ok { il := .varl v, ty := utT.toVT, kind := .plain } := by
    simp only [compileExpr]
  have hsd : Sim ms σIL { il := .varl v, ty := utT.toVT, kind := .plain } utT (.bv utT.width x) :=
    Sim.of_bv (by simp [utT, CT.toVT, VT.hasFlag, VT.gBOOL]) (by simp only [evalPure, hlIL]; rfl) rfl rfl
  have hse : Sim ms σIL { il := numberIL ⟨true, 32, 1⟩ k, ty := ⟨true, 32, 1⟩, kind := .lit k } ⟨true, 32⟩
      (.bv (CT.width ⟨true, 32⟩) (BitVec.ofInt 32 k)) :=
    Sim.of_bv (by simp [VT.hasFlag, VT.gBOOL]) (by simp only [numberIL, evalPure]) rfl rfl
  obtain ⟨hdw, hs, hnb⟩ := il_assign (tl := utT) (te := ⟨true, 32⟩) henv hcomp hcd rfl (by simp [utT])
    (by simp [assignOps]) (fun _ => hsd) hse (fun h => by rcases h with h | h <;> simp at h)
  have hval : assignVal "+=" utT ⟨true, 32⟩ x (BitVec.ofInt 32 k) = x + BitVec.ofNat 32 k := by
    simp only [assignVal, bvBin, convBits, utT]
    simp [BitVec.ofInt_natCast]
    rfl
  rw [hval] at hs
  simp only [destWrite, Except.ok.injEq] at hdw
  subst hdw
  exact ⟨_, ExecIL_setl (hs.eval hnb).1, hinv.setDeclared hc hv (x + BitVec.ofNat 32 k)⟩

end C05
end Rzil
