import RzilVerif.Lemmas.LayoutPerm
import RzilVerif.Lemmas.LayoutDup
/-!
# Two dependency-respecting orders of ONE set of inlined declarations (used by C16)

`envOfDecls` runs a list of inlined declarations `(type, name, rhs)` left to right.  If two such lists are permutations
of each other, the names are pairwise distinct and neither list has a forward reference (no right-hand side mentions a
name declared LATER in the same list), the resulting environments agree on every look-up (`envOfDecls_perm`).
The proof takes the first declaration `d` of the second list, finds it in the first list and bubbles it to the front:
everything in front of it there is independent of `d` (it does not mention `d` since the first list has no forward
reference; `d` does not mention it since in the second list it comes after `d`).
-/
namespace Rzil

abbrev Decl := String × String × Term

/-- different names -/
def Decl.distinct (d e : Decl) : Prop := d.2.1 ≠ e.2.1
/-- the earlier declaration does not mention the later one's name -/
def Decl.noFwd (d e : Decl) : Prop := d.2.2.mentions e.2.1 = false

theorem envOfDecls_cons (ty n : String) (rhs : Term) (rest : List Decl) (env : Env) :
    envOfDecls ((ty, n, rhs) :: rest) env = envOfDecls rest ((n, rhs.subst env) :: env) := rfl

theorem envOfDecls_congr (ds : List Decl) {e1 e2 : Env} (h : EnvEq e1 e2) :
    EnvEq (envOfDecls ds e1) (envOfDecls ds e2) := by
  induction ds generalizing e1 e2 with
  | nil => exact h
  | cons d ds ih =>
    obtain ⟨ty, n, rhs⟩ := d
    rw [envOfDecls_cons, envOfDecls_cons, Term.subst_congr h rhs]
    exact ih (h.cons _ _)

/-- Moving ONE declaration to the left over a block of declarations it is mutually independent of. -/
theorem envOfDecls_move (pre : List Decl) (d : Decl) (post : List Decl)
    (hne : ∀ p ∈ pre, p.2.1 ≠ d.2.1) (hpd : ∀ p ∈ pre, p.2.2.mentions d.2.1 = false)
    (hdp : ∀ p ∈ pre, d.2.2.mentions p.2.1 = false) (env : Env) :
    EnvEq (envOfDecls (pre ++ d :: post) env) (envOfDecls (d :: (pre ++ post)) env) := by
  induction pre generalizing env with
  | nil => exact EnvEq.refl _
  | cons p ps ih =>
    have ih' := ih (fun q hq => hne q (List.mem_cons_of_mem _ hq)) (fun q hq => hpd q (List.mem_cons_of_mem _ hq))
      (fun q hq => hdp q (List.mem_cons_of_mem _ hq))
    have h1 := hne p List.mem_cons_self
    have h2 := hpd p List.mem_cons_self
    have h3 := hdp p List.mem_cons_self
    obtain ⟨pty, pn, prhs⟩ := p
    obtain ⟨dty, dn, drhs⟩ := d
    simp only at h1 h2 h3
    rw [List.cons_append, envOfDecls_cons]
    refine EnvEq.trans (ih' _) ?_
    rw [envOfDecls_cons, envOfDecls_cons, List.cons_append, envOfDecls_cons]
    rw [Term.subst_cons_of_not_mentions env pn _ drhs h3, Term.subst_cons_of_not_mentions env dn _ prhs h2]
    exact envOfDecls_congr _ (EnvEq.swap env h1 _ _)

/-- The general statement on declaration lists. -/
theorem envOfDecls_perm (b : List Decl) : ∀ (a : List Decl), a.Perm b → a.Pairwise Decl.distinct →
    a.Pairwise Decl.noFwd → b.Pairwise Decl.noFwd → ∀ env, EnvEq (envOfDecls a env) (envOfDecls b env) := by
  induction b with
  | nil =>
    intro a hp _ _ _ env
    rw [List.perm_nil.1 hp]
    exact EnvEq.refl _
  | cons d b' ih =>
    intro a hp hda hfa hfb env
    have hmem : d ∈ a := hp.mem_iff.2 List.mem_cons_self
    obtain ⟨pre, post, rfl⟩ := List.append_of_mem hmem
    have hp' : (pre ++ post).Perm b' := (List.perm_middle.symm.trans hp).cons_inv
    have hda' := List.pairwise_append.1 hda
    have hfa' := List.pairwise_append.1 hfa
    have hne : ∀ p ∈ pre, p.2.1 ≠ d.2.1 := fun p hpm => hda'.2.2 p hpm d List.mem_cons_self
    have hpd : ∀ p ∈ pre, p.2.2.mentions d.2.1 = false := fun p hpm => hfa'.2.2 p hpm d List.mem_cons_self
    have hdp : ∀ p ∈ pre, d.2.2.mentions p.2.1 = false := by
      intro p hpm
      have hpb : p ∈ d :: b' := hp.mem_iff.1 (List.mem_append_left _ hpm)
      rcases List.mem_cons.1 hpb with heq | hpb'
      · exact absurd (by rw [heq]) (hne p hpm)
      · exact (List.pairwise_cons.1 hfb).1 p hpb'
    refine EnvEq.trans (envOfDecls_move pre d post hne hpd hdp env) ?_
    have hsub : List.Sublist (pre ++ post) (pre ++ d :: post) :=
      List.Sublist.append (List.Sublist.refl pre) (List.sublist_cons_self d post)
    obtain ⟨dty, dn, drhs⟩ := d
    rw [envOfDecls_cons, envOfDecls_cons]
    exact ih (pre ++ post) hp' (hda.sublist hsub) (hfa.sublist hsub) (List.pairwise_cons.1 hfb).2 _

/-! ### From the Boolean conditions on item lists to `Pairwise` on `ilDecls` -/

theorem mem_ilDecls {items : List Item} {d : Decl} (h : d ∈ ilDecls items) :
    ∃ x ∈ items.filter Item.isILDecl, x.name = d.2.1 ∧ x.rhs = d.2.2 := by
  induction items with
  | nil => simp [ilDecls] at h
  | cons x rest ih =>
    cases x with
    | comment s =>
      obtain ⟨y, hy, hh⟩ := ih h
      exact ⟨y, by simpa [List.filter_cons, Item.isILDecl] using hy, hh⟩
    | ret t =>
      obtain ⟨y, hy, hh⟩ := ih h
      exact ⟨y, by simpa [List.filter_cons, Item.isILDecl] using hy, hh⟩
    | decl ty n rhs =>
      simp only [ilDecls] at h
      by_cases hil : isILTy ty = true
      · rw [if_pos hil] at h
        rcases List.mem_cons.1 h with heq | h'
        · refine ⟨Item.decl ty n rhs, ?_, ?_⟩
          · rw [List.filter_cons_of_pos (by exact hil)]; exact List.mem_cons_self
          · subst heq; exact ⟨rfl, rfl⟩
        · obtain ⟨y, hy, hh⟩ := ih h'
          exact ⟨y, by rw [List.filter_cons_of_pos (by exact hil)]; exact List.mem_cons_of_mem _ hy, hh⟩
      · rw [if_neg hil] at h
        obtain ⟨y, hy, hh⟩ := ih h
        exact ⟨y, by rw [List.filter_cons_of_neg (by exact hil)]; exact hy, hh⟩

theorem pairwise_distinct_of_namesDistinct (items : List Item) (h : namesDistinct items = true) :
    (ilDecls items).Pairwise Decl.distinct := by
  induction items with
  | nil => exact List.Pairwise.nil
  | cons x rest ih =>
    simp only [namesDistinct, Bool.and_eq_true, Bool.or_eq_true, Bool.not_eq_true'] at h
    have ihr := ih h.2
    cases x with
    | comment s => exact ihr
    | ret t => exact ihr
    | decl ty n rhs =>
      simp only [ilDecls]
      by_cases hil : isILTy ty = true
      · rw [if_pos hil]
        refine List.pairwise_cons.2 ⟨?_, ihr⟩
        intro e he
        obtain ⟨y, hy, hyn, _⟩ := mem_ilDecls he
        rcases h.1 with h1 | h1
        · have : isILTy ty = false := h1
          rw [hil] at this; cases this
        · have := List.all_eq_true.1 h1 y hy
          simp only [Item.name, bne_iff_ne, ne_eq] at this
          intro hc
          exact this (hyn.trans hc.symm)
      · rw [if_neg hil]; exact ihr

theorem pairwise_noFwd_of_noForwardRef (items : List Item) (h : noForwardRef items = true) :
    (ilDecls items).Pairwise Decl.noFwd := by
  induction items with
  | nil => exact List.Pairwise.nil
  | cons x rest ih =>
    simp only [noForwardRef, Bool.and_eq_true, Bool.or_eq_true, Bool.not_eq_true'] at h
    have ihr := ih h.2
    cases x with
    | comment s => exact ihr
    | ret t => exact ihr
    | decl ty n rhs =>
      simp only [ilDecls]
      by_cases hil : isILTy ty = true
      · rw [if_pos hil]
        refine List.pairwise_cons.2 ⟨?_, ihr⟩
        intro e he
        obtain ⟨y, hy, hyn, _⟩ := mem_ilDecls he
        rcases h.1 with h1 | h1
        · have : isILTy ty = false := h1
          rw [hil] at this; cases this
        · have := List.all_eq_true.1 h1 y hy
          simp only [Item.rhs, Bool.not_eq_true'] at this
          show rhs.mentions e.2.1 = false
          rw [← hyn]; exact this
      · rw [if_neg hil]; exact ihr

/-! ### A decidable permutation test with a soundness proof -/

def declEqb (d e : Decl) : Bool := d.1 == e.1 && d.2.1 == e.2.1 && d.2.2.eqb e.2.2

theorem declEqb_sound (d e : Decl) (h : declEqb d e = true) : d = e := by
  obtain ⟨a, b, c⟩ := d
  obtain ⟨a', b', c'⟩ := e
  simp only [declEqb, Bool.and_eq_true, beq_iff_eq] at h
  rw [h.1.1, h.1.2, Term.eqb_sound c c' h.2]

theorem declEqb_refl (d : Decl) : declEqb d d = true := by
  simp [declEqb, Term.eqb_refl]

/-- Remove the first occurrence of `d` from the list (`none`: it does not occur). -/
def extractDecl (d : Decl) : List Decl → Option (List Decl)
  | [] => none
  | e :: rest => if declEqb e d then some rest else (extractDecl d rest).map (e :: ·)

theorem extractDecl_perm (d : Decl) : ∀ (l r : List Decl), extractDecl d l = some r → l.Perm (d :: r)
  | [], r, h => by simp [extractDecl] at h
  | e :: rest, r, h => by
    simp only [extractDecl] at h
    by_cases he : declEqb e d = true
    · rw [if_pos he] at h
      rw [declEqb_sound e d he, ← Option.some.inj h]
    · rw [if_neg he] at h
      cases hx : extractDecl d rest with
      | none => rw [hx] at h; cases h
      | some r' =>
        rw [hx] at h
        have hr : e :: r' = r := Option.some.inj h
        rw [← hr]
        exact ((extractDecl_perm d rest r' hx).cons e).trans (List.Perm.swap d e r')

/-- `isPermB a b`: `b` arises from `a` by taking `b`'s declarations out of `a` one after the other, nothing left. -/
def isPermB (a : List Decl) : List Decl → Bool
  | [] => a.isEmpty
  | d :: b' =>
    match extractDecl d a with
    | none => false
    | some a' => isPermB a' b'

theorem isPermB_sound : ∀ (b a : List Decl), isPermB a b = true → a.Perm b
  | [], a, h => by
    simp only [isPermB, List.isEmpty_iff] at h
    rw [h]
  | d :: b', a, h => by
    simp only [isPermB] at h
    cases hx : extractDecl d a with
    | none => rw [hx] at h; cases h
    | some a' =>
      rw [hx] at h
      exact (extractDecl_perm d a a' hx).trans ((isPermB_sound b' a' h).cons d)

theorem extractDecl_self (d : Decl) (l : List Decl) : extractDecl d (d :: l) = some l := by
  simp [extractDecl, declEqb_refl]

theorem isPermB_refl : ∀ a : List Decl, isPermB a a = true
  | [] => rfl
  | d :: a => by
    simp only [isPermB, extractDecl_self]
    exact isPermB_refl a

/-- The premises of `perm_denote` (Props/C16.lean) as one Boolean: distinct names in `rs`, no forward reference in
    either list, the inlined declarations of `ec` are a permutation of those of `rs`, same returned term. -/
def permEqual (rs ec : List Item) : Bool :=
  namesDistinct rs && noForwardRef rs && noForwardRef ec && isPermB (ilDecls rs) (ilDecls ec) &&
    optTermEqb (returned rs) (returned ec)

/-- … on the `DUP`-erased lists. -/
def permEqualD (rs ec : List Item) : Bool :=
  permEqual (rs.map Item.eraseDup) (ec.map Item.eraseDup)

end Rzil
