import RzilVerif.Model.CallFrame
import RzilVerif.Lemmas.StmtState
/-!
  C08 helpers, part 1: the frame lemma.  `execIL` changes nothing outside the syntactic footprint
  `writes subs fuel e` (locals, registers, memory), restores `params` after a call and never touches
  `cur`, `imm`, `pktAddr`.
-/
namespace Rzil
namespace C08

open C05 (bind_ok lookupS_setLocal_ne)

/-! ## the footprint is monotone in the fuel -/

theorem writes_mono_aux (subs : SubEnv) (f : Nat) :
    (∀ e, writes subs f e ⊆ writes subs (f+1) e) ∧
    (∀ es, writesSeq subs f es ⊆ writesSeq subs (f+1) es) := by
  induction f with
  | zero =>
    constructor
    · intro e; simp [writes]
    · intro es; simp [writesSeq]
  | succ f ih =>
    obtain ⟨ihE, ihS⟩ := ih
    constructor
    · intro e
      cases e with
      | setl n v => simp [writes]
      | writeReg c r v => simp [writes]
      | storew a v => simp [writes]
      | seqn es => simp only [writes]; exact ihS es
      | branch c t e =>
        simp only [writes]
        exact List.append_subset.mpr ⟨List.subset_append_of_subset_left _ (ihE t),
          List.subset_append_of_subset_right _ (ihE e)⟩
      | repeat_ c body => simp only [writes]; exact ihE body
      | empty => simp [writes]
      | nop => simp [writes]
      | call fn args =>
        simp only [writes]
        split
        · split
          · exact ihE _
          · exact List.Subset.refl _
        · exact List.Subset.refl _
    · intro es
      cases es with
      | nil => simp [writesSeq]
      | cons e es =>
        simp only [writesSeq]
        exact List.append_subset.mpr ⟨List.subset_append_of_subset_left _ (ihE e),
          List.subset_append_of_subset_right _ (ihS es)⟩

theorem writes_mono {subs : SubEnv} {f f' : Nat} (h : f ≤ f') (e : ILEffect) :
    writes subs f e ⊆ writes subs f' e := by
  induction h with
  | refl => exact List.Subset.refl _
  | step _ ih => exact List.Subset.trans ih ((writes_mono_aux subs _).1 e)

theorem writesSeq_mono {subs : SubEnv} {f f' : Nat} (h : f ≤ f') (es : List ILEffect) :
    writesSeq subs f es ⊆ writesSeq subs f' es := by
  induction h with
  | refl => exact List.Subset.refl _
  | step _ ih => exact List.Subset.trans ih ((writes_mono_aux subs _).2 es)

/-! ## the frame relation -/

/-- `σ'` differs from `σ` at most on the resources in `W`. -/
structure Frame (W : List Res) (σ σ' : MState) : Prop where
  locals : ∀ n, Res.loc n ∉ W → lookupS n σ'.locals = lookupS n σ.locals
  regs : ∀ k, Res.reg k ∉ W → σ'.new k = σ.new k ∧ σ'.written k = σ.written k
  mem : Res.mem ∉ W → σ'.mem = σ.mem ∧ σ'.stores = σ.stores
  params : σ'.params = σ.params
  cur : σ'.cur = σ.cur
  imm : σ'.imm = σ.imm
  pktAddr : σ'.pktAddr = σ.pktAddr

theorem Frame.refl (W : List Res) (σ : MState) : Frame W σ σ :=
  ⟨fun _ _ => rfl, fun _ _ => ⟨rfl, rfl⟩, fun _ => ⟨rfl, rfl⟩, rfl, rfl, rfl, rfl⟩

theorem Frame.mono {W W' : List Res} {σ σ' : MState} (h : Frame W σ σ') (hs : W ⊆ W') : Frame W' σ σ' :=
  ⟨fun n hn => h.locals n (fun hm => hn (hs hm)), fun k hk => h.regs k (fun hm => hk (hs hm)),
   fun hm => h.mem (fun hm' => hm (hs hm')), h.params, h.cur, h.imm, h.pktAddr⟩

theorem Frame.trans {W : List Res} {σ1 σ2 σ3 : MState} (h1 : Frame W σ1 σ2) (h2 : Frame W σ2 σ3) : Frame W σ1 σ3 :=
  ⟨fun n hn => (h2.locals n hn).trans (h1.locals n hn),
   fun k hk => ⟨(h2.regs k hk).1.trans (h1.regs k hk).1, (h2.regs k hk).2.trans (h1.regs k hk).2⟩,
   fun hm => ⟨(h2.mem hm).1.trans (h1.mem hm).1, (h2.mem hm).2.trans (h1.mem hm).2⟩,
   h2.params.trans h1.params, h2.cur.trans h1.cur, h2.imm.trans h1.imm, h2.pktAddr.trans h1.pktAddr⟩

theorem Frame.setLocal (σ : MState) (n : String) (v : Val) :
    Frame [.loc n] σ { σ with locals := setLocal σ.locals n v } := by
  refine ⟨?_, fun _ _ => ⟨rfl, rfl⟩, fun _ => ⟨rfl, rfl⟩, rfl, rfl, rfl, rfl⟩
  intro k hk
  have : k ≠ n := by intro h; subst h; simp at hk
  exact lookupS_setLocal_ne this v σ.locals

/-- the specification-level `hex_set_usr_field` changes the abstract cell of its field and nothing else -/
theorem setUsrFieldIL_frame {σ σ' : MState} {args : List ILPure} {vs : List Val}
    (h : setUsrFieldIL σ args vs = .ok σ') : Frame (usrWrites args) σ σ' := by
  unfold setUsrFieldIL at h
  unfold usrWrites
  split at h
  · rename_i n _ _ _ v hargs
    rw [hargs]
    unfold writeUsr at h
    split at h
    · split at h
      · injection h with h; subst h
        refine ⟨fun _ _ => rfl, ?_, fun _ => ⟨rfl, rfl⟩, rfl, rfl, rfl, rfl⟩
        intro k hk
        have : (k == usrCell n) = false := by
          simp only [List.mem_singleton, Res.reg.injEq] at hk
          simpa using hk
        simp [this]
      · simp at h
    · simp at h
  · simp at h

/-- the specification-level `hex_get_usr_field` sets `ret_val` and nothing else -/
theorem getUsrFieldIL_frame {σ σ' : MState} {args : List ILPure}
    (h : getUsrFieldIL σ args = .ok σ') : Frame [.loc "ret_val"] σ σ' := by
  unfold getUsrFieldIL at h
  split at h
  · injection h with h; subst h
    exact Frame.setLocal σ _ _
  · simp at h

/-! ## the frame lemma -/

theorem execIL_frame_aux (ms : MacroSem) (subs : SubEnv) (f : Nat) :
    (∀ e σ σ', execIL ms subs f e σ = .ok σ' → Frame (writes subs f e) σ σ') ∧
    (∀ es σ σ', execSeq ms subs f es σ = .ok σ' → Frame (writesSeq subs f es) σ σ') := by
  induction f with
  | zero =>
    constructor
    · intro e σ σ' h; simp [execIL] at h
    · intro es σ σ' h; simp [execSeq] at h
  | succ f ih =>
    obtain ⟨ihE, ihS⟩ := ih
    constructor
    · intro e σ σ' h
      cases e with
      | setl n v =>
        rw [execIL] at h
        obtain ⟨vv, _, h⟩ := bind_ok h
        injection h with h; subst h
        simp only [writes]
        exact Frame.setLocal σ n vv
      | writeReg c r v =>
        rw [execIL] at h
        obtain ⟨vv, _, h⟩ := bind_ok h
        simp only [writes]
        split at h
        · split at h
          · injection h with h; subst h
            refine ⟨fun _ _ => rfl, ?_, fun _ => ⟨rfl, rfl⟩, rfl, rfl, rfl, rfl⟩
            intro k hk
            have : (k == r.opvar) = false := by
              simp only [List.mem_singleton, Res.reg.injEq] at hk
              simpa using hk
            simp [this]
          · simp at h
        · simp at h
      | storew a v =>
        rw [execIL] at h
        obtain ⟨va, _, h⟩ := bind_ok h
        obtain ⟨vv, _, h⟩ := bind_ok h
        simp only [writes]
        split at h
        · injection h with h; subst h
          exact ⟨fun _ _ => rfl, fun _ _ => ⟨rfl, rfl⟩, fun hm => absurd (List.mem_singleton.mpr rfl) hm, rfl, rfl, rfl, rfl⟩
        · simp at h
      | seqn es =>
        rw [execIL] at h
        simp only [writes]
        exact ihS _ _ _ h
      | branch c t e =>
        rw [execIL] at h
        obtain ⟨vc, _, h⟩ := bind_ok h
        simp only [writes]
        split at h
        · exact (ihE _ _ _ h).mono (List.subset_append_left _ _)
        · exact (ihE _ _ _ h).mono (List.subset_append_right _ _)
        · simp at h
      | repeat_ c body =>
        rw [execIL] at h
        obtain ⟨vc, _, h⟩ := bind_ok h
        simp only [writes]
        split at h
        · obtain ⟨σ1, h1, h2⟩ := bind_ok h
          have f1 := ihE _ _ _ h1
          have f2 := ihE _ _ _ h2
          refine f1.trans (f2.mono ?_)
          -- the remaining iterations run with less fuel: their footprint is contained in this one's
          cases f with
          | zero => simp [writes]
          | succ f' =>
            simp only [writes]
            exact (writes_mono_aux subs f').1 body
        · injection h with h; subst h; exact Frame.refl _ _
        · simp at h
      | empty =>
        rw [execIL] at h; injection h with h; subst h; exact Frame.refl _ _
      | nop =>
        rw [execIL] at h; injection h with h; subst h; exact Frame.refl _ _
      | call fn args =>
        rw [execIL] at h
        obtain ⟨vs, _, h⟩ := bind_ok h
        simp only [writes]
        by_cases hs : fn.startsWith "hex_" = true
        · rw [if_pos hs] at h ⊢
          cases hl : lookupS (fn.drop 4).toString subs with
          | none =>
            rw [hl] at h
            simp only at h ⊢
            split at h
            · next hf => rw [if_pos hf]; exact setUsrFieldIL_frame h
            · next hf =>
              rw [if_neg hf]
              split at h
              · next hg => rw [if_pos hg]; exact getUsrFieldIL_frame h
              · simp at h
          | some pb =>
            obtain ⟨ps, body⟩ := pb
            rw [hl] at h
            simp only at h ⊢
            obtain ⟨σ1, h1, h2⟩ := bind_ok h
            injection h2 with h2; subst h2
            have f1 := ihE _ _ _ h1
            exact ⟨f1.locals, f1.regs, f1.mem, rfl, f1.cur, f1.imm, f1.pktAddr⟩
        · rw [if_neg hs] at h ⊢
          by_cases h2 : (fn == "HEX_STORE_SLOT_CANCELLED") = true
          · rw [if_pos h2] at h ⊢
            injection h with h; subst h
            exact Frame.setLocal σ _ _
          · rw [if_neg h2] at h ⊢
            by_cases h3 : (fn == "HEX_GET_NPC") = true
            · rw [if_pos h3] at h ⊢
              injection h with h; subst h
              exact Frame.setLocal σ _ _
            · rw [if_neg h3] at h; simp at h
    · intro es σ σ' h
      cases es with
      | nil =>
        rw [execSeq] at h; injection h with h; subst h; exact Frame.refl _ _
      | cons e es =>
        rw [execSeq] at h
        obtain ⟨σ1, h1, h2⟩ := bind_ok h
        simp only [writesSeq]
        exact ((ihE _ _ _ h1).mono (List.subset_append_left _ _)).trans
          ((ihS _ _ _ h2).mono (List.subset_append_right _ _))

/-- **Frame lemma.** Whatever `execIL` does, it stays inside the footprint of the effect. -/
theorem execIL_frame {ms : MacroSem} {subs : SubEnv} {f : Nat} {e : ILEffect} {σ σ' : MState}
    (h : execIL ms subs f e σ = .ok σ') : Frame (writes subs f e) σ σ' :=
  (execIL_frame_aux ms subs f).1 e σ σ' h

theorem execSeq_frame {ms : MacroSem} {subs : SubEnv} {f : Nat} {es : List ILEffect} {σ σ' : MState}
    (h : execSeq ms subs f es σ = .ok σ') : Frame (writesSeq subs f es) σ σ' :=
  (execIL_frame_aux ms subs f).2 es σ σ' h

theorem mem_writtenLocals {subs : SubEnv} {f : Nat} {e : ILEffect} {n : String} :
    n ∈ writtenLocals subs f e ↔ Res.loc n ∈ writes subs f e := by
  simp only [writtenLocals, List.mem_filterMap]
  constructor
  · rintro ⟨r, hr, h⟩
    cases r <;> simp at h
    subst h; exact hr
  · intro h; exact ⟨_, h, rfl⟩

theorem mem_writtenRegs {subs : SubEnv} {f : Nat} {e : ILEffect} {k : String} :
    k ∈ writtenRegs subs f e ↔ Res.reg k ∈ writes subs f e := by
  simp only [writtenRegs, List.mem_filterMap]
  constructor
  · rintro ⟨r, hr, h⟩
    cases r <;> simp at h
    subst h; exact hr
  · intro h; exact ⟨_, h, rfl⟩

theorem storesMem_false {subs : SubEnv} {f : Nat} {e : ILEffect} :
    storesMem subs f e = false ↔ Res.mem ∉ writes subs f e := by
  simp [storesMem]

end C08
end Rzil
